#!/bin/bash
# Process every finished candidate under /tmp/mut/out: confirm it (seedverify) and run the check against it (seedtest).
cd "$(dirname "$0")/.."
W=${1:-0}; NW=${2:-1}
exec 9>.scratch/seedloop.$W.lock; flock -n 9 || { echo "seedloop $W already running"; exit 0; }
mine() { local h=$(printf %s "$1" | cksum | cut -d" " -f1); [ $((h % NW)) -eq $W ]; }
mkdir -p seeded .scratch
for d in /tmp/mut/out/*/; do
  n=$(basename "$d")
  [ -f "$d/meta.json" ] && [ -f "$d/patch.diff" ] || continue
  mine "$n" || continue
  [ -d "seeded/$n" ] && continue
  grep -qx "$n" seeded/.rejected 2>/dev/null && continue
  if python3 lib/seedverify.py "$d" "$n" > .scratch/seedverify-$n.log 2>&1; then
    echo "$n confirmed"
  else
    echo "$n REJECTED: $(tail -3 .scratch/seedverify-$n.log | tr '\n' ' ' | cut -c1-300)"
    echo "$n" >> seeded/.rejected
  fi
done
for d in seeded/*/; do
  n=$(basename "$d")
  mine "$n" || continue
  python3 - "$n" <<'PY' || continue
import json,sys
try:
    r=json.load(open('seeded/RESULTS.json'))
except Exception:
    r={}
sys.exit(0 if sys.argv[1] not in r else 1)
PY
  python3 lib/seedtest.py "$n"
done
