#!/usr/bin/env python3
"""E-check: orchestrator for one property check (see DESIGN.md §2.1, §4).

./check Cxx [--tier quick|thorough] [--replay FILE]

Steps, all against /repo's current working tree:
  (a) regenerate Gen/*.lean with tools/extract (only rewritten when changed)
  (b) lake build of the property's proof modules and model driver
  (c) axiom audit (#print axioms on every registered theorem) + source grep
  (d) build the Go harness with -overlay, run corpus then generated cases,
      pipe the op lines to the Lean driver, diff the two result streams
  (e) verdict (VIOLATION / KNOWN-FINDING / ok) and (f) evidence/Cxx.json
"""
import fcntl
import hashlib
import json
import os
import re
import shutil
import subprocess
import sys
import time

ROOT = os.path.dirname(os.path.dirname(os.path.abspath(__file__)))
REPO = os.environ.get("VERIF_REPO", "/repo")
LEAN = os.path.join(ROOT, "lean")
BIN = os.path.join(ROOT, ".bin")
ALLOWED_AXIOMS = {"propext", "Classical.choice", "Quot.sound"}
FORBIDDEN_RE = re.compile(
    r"\bsorry\b|\badmit\b|^\s*axiom\s|native_decide|bv_decide|implemented_by|\bunsafe\s|maxHeartbeats\s+0\b",
    re.M)
GO_TOOLCHAIN_BIN = "/root/go/pkg/mod/golang.org/toolchain@v0.0.1-go1.25.0.linux-amd64/bin/go"


def log(msg):
    print(msg, flush=True)


def go_cmd():
    # /repo needs go1.25; the system `go` switches to it when run inside /repo.
    return "go"


def go_env():
    env = dict(os.environ)
    env["GOPROXY"] = "off"
    env.pop("GOTOOLCHAIN", None)  # GOTOOLCHAIN=local would block the 1.25 switch
    env.setdefault("GOFLAGS", "")
    if env.get("GOSUMDB") == "off":
        env.pop("GOSUMDB")
    return env


def run(cmd, cwd=None, env=None, timeout=None, stdin=None, stdout=None):
    t0 = time.time()
    try:
        p = subprocess.run(cmd, cwd=cwd, env=env, timeout=timeout, stdin=stdin,
                           stdout=stdout if stdout is not None else subprocess.PIPE,
                           stderr=subprocess.STDOUT if stdout is None else subprocess.PIPE,
                           text=(stdout is None))
        out = p.stdout if stdout is None else (p.stderr.decode("utf-8", "replace") if p.stderr else "")
        return p.returncode, out, time.time() - t0
    except subprocess.TimeoutExpired as e:
        out = e.stdout or ""
        if isinstance(out, bytes):
            out = out.decode("utf-8", "replace")
        return 124, out + "\n[timeout after %ss]" % timeout, time.time() - t0


class Lock:
    def __init__(self, path):
        self.path = path

    def __enter__(self):
        self.f = open(self.path, "w")
        fcntl.flock(self.f, fcntl.LOCK_EX)
        return self

    def __exit__(self, *a):
        fcntl.flock(self.f, fcntl.LOCK_UN)
        self.f.close()


def load_prop(pid):
    with open(os.path.join(ROOT, "props", pid + ".json")) as f:
        return json.load(f)


def load_known(pid):
    p = os.path.join(ROOT, "known_findings.json")
    if not os.path.exists(p):
        return []
    with open(p) as f:
        d = json.load(f)
    return [x for x in d.get("findings", []) if x.get("property") == pid]


# ---------------------------------------------------------------- Lean side

def module_path(mod):
    return os.path.join(LEAN, *mod.split(".")) + ".lean"


def import_closure(mods):
    seen, todo = set(), list(mods)
    while todo:
        m = todo.pop()
        if m in seen or not m.startswith("NetVerif"):
            continue
        p = module_path(m)
        if not os.path.exists(p):
            continue
        seen.add(m)
        with open(p) as f:
            for line in f:
                mm = re.match(r"\s*(?:public\s+)?import\s+([\w.]+)", line)
                if mm:
                    todo.append(mm.group(1))
    return sorted(seen)


def strip_comments(src):
    src = re.sub(r"/-.*?-/", "", src, flags=re.S)
    src = re.sub(r"--.*", "", src)
    return src


def regenerate(prop, report):
    """Run extractors; rewrite Gen files only when content changed."""
    gens = prop.get("gen", [])
    report["gen"] = []
    if not gens:
        return True
    # the extractor is compiled per property from the shared files plus this property's
    # own extractor files (cxx*.go), so one property's extractor cannot break another's check
    import glob as _glob
    os.makedirs(BIN, exist_ok=True)
    exe = os.path.join(BIN, "extract_" + prop["id"])
    src = os.path.join(ROOT, "tools", "extract")
    files = ["main.go", "astutil.go", "translate.go"]
    files += sorted(os.path.basename(f) for f in _glob.glob(os.path.join(src, prop["id"].lower() + "*.go")))
    for g in gens:
        for f in g.get("files", []):
            if f not in files:
                files.append(f)
    rc, out, _ = run(["go", "build", "-o", exe] + files, cwd=src, env=tool_go_env())
    if rc != 0:
        report["gen"].append({"error": "extractor build failed", "output": out[-2000:]})
        return False
    ok = True
    os.makedirs(os.path.join(LEAN, "NetVerif", "Gen"), exist_ok=True)
    for g in gens:
        target = os.path.join(LEAN, "NetVerif", "Gen", g["out"])
        rc, out, _ = run([exe, g["extractor"], REPO] + g.get("args", []), timeout=120)
        ent = {"extractor": g["extractor"], "out": g["out"]}
        if rc != 0:
            ent["error"] = out[-2000:]
            ok = False
            # keep a stale Gen file from silently satisfying the proofs
            if os.path.exists(target):
                os.remove(target)
        else:
            old = open(target).read() if os.path.exists(target) else None
            if old != out:
                with open(target, "w") as f:
                    f.write(out)
                ent["changed"] = True
            ent["sha256"] = hashlib.sha256(out.encode()).hexdigest()[:16]
            ent["bytes"] = len(out)
        report["gen"].append(ent)
    return ok


def tool_go_env():
    env = dict(os.environ)
    env["GOPROXY"] = "off"
    env["GOFLAGS"] = "-mod=mod"
    env["GOTOOLCHAIN"] = "local"
    env["GOWORK"] = "off"
    return env


def lean_phase(prop, tier, report):
    """Returns list of obligation dicts {name, ok, axioms|error}."""
    lean = prop.get("lean", {})
    mods = lean.get("proof_modules", [])
    theorems = lean.get("theorems", [])
    obligations = []
    # one lock per property: lake builds of different properties touch disjoint targets
    # (shared modules are stable and already built), so checks run concurrently
    import contextlib
    with contextlib.ExitStack() as _locks:
        # properties that regenerate the same Gen file must not interleave (one may be pointed at a
        # different tree through VERIF_REPO): take one lock per Gen output, in sorted order, then the
        # property's own lock
        for _out in sorted({g["out"] for g in prop.get("gen", [])}):
            _locks.enter_context(Lock(os.path.join(LEAN, ".verif.gen.%s.lock" % _out.replace("/", "_"))))
        _locks.enter_context(Lock(os.path.join(LEAN, ".verif.%s.lock" % prop["id"])))
        gen_ok = regenerate(prop, report)
        # drivers first: they are needed for the correspondence even if a proof breaks
        drivers = sorted({t["driver_exe"] for t in prop.get("ties", []) if t.get("driver_exe")})
        report["driver_build"] = {}
        for d in drivers:
            rc, out, dt = run(["lake", "build", d], cwd=LEAN, timeout=1800)
            report["driver_build"][d] = {"ok": rc == 0, "wall_s": round(dt, 1)}
            if rc != 0:
                report["driver_build"][d]["output"] = out[-3000:]
        build_ok = {}
        for m in mods:
            rc, out, dt = run(["lake", "build", m], cwd=LEAN, timeout=3600)
            build_ok[m] = (rc == 0)
            report.setdefault("proof_build", {})[m] = {"ok": rc == 0, "wall_s": round(dt, 1)}
            if rc != 0:
                report["proof_build"][m]["output"] = out[-4000:]
        # forbidden constructs in the import closure
        closure = import_closure(mods)
        hits = []
        for m in closure:
            src = strip_comments(open(module_path(m)).read())
            for mm in FORBIDDEN_RE.finditer(src):
                hits.append("%s: %s" % (m, mm.group(0).strip()))
        report["forbidden_hits"] = hits
        report["closure_modules"] = len(closure)
        # axiom audit
        axioms = {}
        if theorems and all(build_ok.values()):
            audit = os.path.join(LEAN, ".lake", "audit_%s_%d.lean" % (prop["id"], os.getpid()))
            with open(audit, "w") as f:
                for m in mods:
                    f.write("import %s\n" % m)
                for t in theorems:
                    f.write("#print axioms %s\n" % t)
            rc, out, dt = run(["lake", "env", "lean", audit], cwd=LEAN, timeout=1800)
            os.remove(audit)
            report["audit_wall_s"] = round(dt, 1)
            flat = re.sub(r"\s+", " ", out)
            for t in theorems:
                m1 = re.search(r"'%s' depends on axioms: \[([^\]]*)\]" % re.escape(t), flat)
                m2 = re.search(r"'%s' does not depend on any axioms" % re.escape(t), flat)
                if m1:
                    axioms[t] = [a.strip() for a in m1.group(1).split(",") if a.strip()]
                elif m2:
                    axioms[t] = []
                else:
                    axioms[t] = None
            if rc != 0:
                report["audit_output"] = out[-3000:]
        if tier == "thorough" and mods and all(build_ok.values()):
            for m in mods:
                rc, out, dt = run(["lake", "env", "leanchecker", m], cwd=LEAN, timeout=3600)
                report.setdefault("leanchecker", {})[m] = {"ok": rc == 0, "wall_s": round(dt, 1)}
                if rc != 0:
                    report["leanchecker"][m]["output"] = out[-2000:]
                    build_ok[m] = False
    for t in theorems:
        ob = {"name": t}
        ax = axioms.get(t)
        if not all(build_ok.values()):
            ob["ok"] = False
            ob["error"] = "proof module failed to build"
        elif ax is None:
            ob["ok"] = False
            ob["error"] = "theorem not found by #print axioms"
        else:
            bad = [a for a in ax if a not in ALLOWED_AXIOMS]
            ob["axioms"] = ax
            ob["ok"] = not bad
            if bad:
                ob["error"] = "disallowed axioms: " + ", ".join(bad)
        obligations.append(ob)
    if hits:
        obligations.append({"name": "no sorry/admit/axiom/native_decide in import closure", "ok": False,
                            "error": "; ".join(hits[:10])})
    else:
        obligations.append({"name": "no sorry/admit/axiom/native_decide in import closure", "ok": True, "axioms": []})
    if not gen_ok:
        obligations.append({"name": "regeneration of Gen/*.lean from /repo", "ok": False,
                            "error": json.dumps(report["gen"])[:1500]})
    elif prop.get("gen"):
        obligations.append({"name": "regeneration of Gen/*.lean from /repo", "ok": True, "axioms": []})
    return obligations


# ---------------------------------------------------------------- Go side

def write_overlay(prop, tie, scratch):
    rep = {os.path.join(REPO, "internal/verifutil/verifutil.go"):
           os.path.join(ROOT, "harness/common/verifutil.go")}
    for dst, src in tie["go"].get("overlay", {}).items():
        rep[os.path.join(REPO, dst)] = os.path.join(ROOT, src)
    p = os.path.join(scratch, "overlay_%s.json" % tie["name"])
    with open(p, "w") as f:
        json.dump({"Replace": rep}, f)
    return p


def build_harness(prop, tie, scratch):
    os.makedirs(BIN, exist_ok=True)
    ov = write_overlay(prop, tie, scratch)
    g = tie["go"]
    # per-process binary so concurrent checks of one property do not race
    exe = os.path.join(scratch, "%s_%s.bin" % (prop["id"], tie["name"]))
    if g.get("kind", "main") == "main":
        cmd = [go_cmd(), "build", "-tags", "verif", "-overlay", ov, "-o", exe, g["pkg"]]
    else:
        cmd = [go_cmd(), "test", "-c", "-vet=off", "-tags", "verif", "-overlay", ov, "-o", exe, g["pkg"]]
    rc, out, dt = run(cmd, cwd=REPO, env=go_env(), timeout=1200)
    return (exe if rc == 0 else None), out, dt


def run_harness(prop, tie, exe, seed, n, tier, outdir, replay=None):
    g = tie["go"]
    timeout = g.get("timeout_s", 300) * (6 if tier == "thorough" else 1)
    env = go_env()
    env["GOMEMLIMIT"] = g.get("gomemlimit", "4GiB")
    for k, v in g.get("env", {}).items():
        env[k] = v
    if g.get("kind", "main") == "main":
        cmd = [exe, "-seed", str(seed), "-n", str(n), "-out", outdir, "-tier", tier]
        if replay:
            cmd += ["-replay", replay]
        cwd = scratch_cwd(outdir)
    else:
        env.update({"VERIF_SEED": str(seed), "VERIF_N": str(n), "VERIF_OUT": outdir,
                    "VERIF_TIER": tier, "VERIF_REPLAY": replay or ""})
        cmd = [exe, "-test.run", "^%s$" % g["test_run"], "-test.count=1",
               "-test.timeout", "%ds" % timeout]
        cmd += g.get("test_args", [])
        cwd = os.path.join(REPO, g["pkg"].lstrip("./"))
    os.makedirs(outdir, exist_ok=True)
    rc, out, dt = run(cmd, cwd=cwd, env=env, timeout=timeout + 30)
    return rc, out, dt


def scratch_cwd(outdir):
    os.makedirs(outdir, exist_ok=True)
    return outdir


def run_driver(tie, opsfile, outfile):
    exe = os.path.join(LEAN, ".lake", "build", "bin", tie["driver_exe"])
    if not os.path.exists(exe):
        return 127, "driver %s not built" % exe, 0.0
    with open(opsfile, "rb") as fi, open(outfile, "wb") as fo:
        rc, err, dt = run([exe], stdin=fi, stdout=fo, timeout=tie.get("driver_timeout_s", 1800))
    return rc, err, dt


def read_lines(p):
    if not os.path.exists(p):
        return []
    with open(p, errors="replace") as f:
        return f.read().split("\n")[:-1] if os.path.getsize(p) else []


def split_cases(ops, impl, model):
    """Group by '# case' markers. Returns list of (ops, impl, model) line lists."""
    cases = []
    cur = None
    n = len(ops)
    for i in range(n):
        o = ops[i]
        if o.startswith("# case"):
            cur = ([], [], [])
            cases.append(cur)
            continue
        if cur is None:
            cur = ([], [], [])
            cases.append(cur)
        cur[0].append(o)
        cur[1].append(impl[i] if i < len(impl) else "<missing>")
        if model is not None:
            cur[2].append(model[i] if i < len(model) else "<missing>")
    return cases


def analyse(tie, outdir, nontrivial_prefixes):
    ops = read_lines(os.path.join(outdir, "ops.txt"))
    impl = read_lines(os.path.join(outdir, "impl.out"))
    model = read_lines(os.path.join(outdir, "model.out")) if tie.get("driver_exe") else None
    cases = split_cases(ops, impl, model)
    mism = []
    seen = set()
    distinct_nontrivial = 0
    total_ops = 0
    for idx, (o, i, m) in enumerate(cases):
        total_ops += len(o)
        if model is not None and i != m:
            k = next((j for j in range(len(o)) if j >= len(m) or i[j] != m[j]), 0)
            mism.append({"case": idx, "ops": o, "impl": i, "model": m, "first_diff": k})
        h = hashlib.blake2b("\n".join(o).encode(), digest_size=8).digest()
        if h not in seen:
            seen.add(h)
            if any(r.startswith(nontrivial_prefixes) for r in i):
                distinct_nontrivial += 1
    if model is not None and len(model) != len(ops):
        mism.append({"case": -1, "ops": ["<stream length>"], "impl": [str(len(impl))],
                     "model": [str(len(model))], "first_diff": 0})
    fails = []
    for l in read_lines(os.path.join(outdir, "oracle.txt")):
        mm = re.match(r"FAIL case=(-?\d+) sig=(\S+) ?(.*)", l)
        if mm:
            ci = int(mm.group(1))
            fails.append({"case": ci, "sig": mm.group(2), "desc": mm.group(3),
                          "ops": cases[ci][0] if 0 <= ci < len(cases) else []})
    stats = {}
    sp = os.path.join(outdir, "stats.json")
    if os.path.exists(sp) and os.path.getsize(sp):
        try:
            stats = json.load(open(sp))
        except Exception:
            stats = {}
    samples = []
    for idx in (0, len(cases) // 2, len(cases) - 1):
        if 0 <= idx < len(cases):
            o, i, m = cases[idx]
            samples.append({"ops": o[:6], "impl": i[:6]})
    return {"cases": len(cases), "ops": total_ops, "distinct": len(seen),
            "distinct_nontrivial": distinct_nontrivial, "mismatches": mism,
            "oracle_fails": fails, "stats": stats, "samples": samples}


def corpus_file(pid, tie, scratch):
    d = os.path.join(ROOT, "corpus", pid)
    if not os.path.isdir(d):
        return None
    suffix = "." + tie["name"] + ".ops"
    files = sorted(f for f in os.listdir(d) if f.endswith(suffix) or
                   (f.endswith(".ops") and f.count(".") == 1 and tie.get("default_corpus", True)))
    if not files:
        return None
    p = os.path.join(scratch, "corpus_%s.ops" % tie["name"])
    with open(p, "w") as out:
        k = 0
        for fn in files:
            txt = open(os.path.join(d, fn)).read()
            if "# case" not in txt:
                out.write("# case %d\n" % k)
                k += 1
            out.write(txt if txt.endswith("\n") else txt + "\n")
    return p


def one_pass(prop, tie, exe, seed, n, tier, outdir, replay=None):
    rc, out, dt = run_harness(prop, tie, exe, seed, n, tier, outdir, replay)
    res = {"harness_rc": rc, "harness_wall_s": round(dt, 1)}
    if rc != 0:
        res["harness_output"] = out[-3000:]
        cur = os.path.join(outdir, "current_case.ops")
        if os.path.exists(cur):
            res["crash_case"] = [l for l in open(cur, errors="replace").read().split("\n") if l and not l.startswith("#")]
    if tie.get("driver_exe"):
        drc, derr, ddt = run_driver(tie, os.path.join(outdir, "ops.txt"), os.path.join(outdir, "model.out"))
        res["driver_rc"] = drc
        res["driver_wall_s"] = round(ddt, 1)
        if drc != 0:
            res["driver_output"] = (derr or "")[-2000:]
    return res


def shrink_case(prop, tie, exe, tier, scratch, ops, still_fails, budget=40):
    """Greedy one-line-at-a-time reduction of a failing case."""
    cur = list(ops)
    tries = 0
    i = 0
    t_end = time.time() + 180   # wall-clock cap: a hanging case costs a full harness timeout per try
    while i < len(cur) and tries < budget and len(cur) > 1 and time.time() < t_end:
        cand = cur[:i] + cur[i + 1:]
        tries += 1
        if still_fails(cand):
            cur = cand
        else:
            i += 1
    return cur


# ---------------------------------------------------------------- main flow

def check(pid, tier, seed, replay_path, replay_tie=None):
    t0 = time.time()
    prop = load_prop(pid)
    known = load_known(pid)
    known_sigs = {k["sig"]: k for k in known}
    scratch = os.path.join(ROOT, ".scratch", "%s-%d" % (pid, os.getpid()))
    shutil.rmtree(scratch, ignore_errors=True)
    os.makedirs(scratch)
    report = {}
    violations = []      # dicts: {kind, detail, ops?, ...}
    known_hits = {}
    try:
        obligations = lean_phase(prop, tier, report)
        broken = [o for o in obligations if not o["ok"]]
        tie_reports = []
        evaluations = 0
        distinct_nt = 0
        samples = []
        traces = 0
        any_fail_input = []
        corr_broken = []
        nt_prefixes = tuple(prop.get("nontrivial_prefixes", ["ok"]))
        for tie in prop.get("ties", []):
            if replay_path and replay_tie and tie["name"] != replay_tie:
                continue
            tr = {"name": tie["name"]}
            tie_reports.append(tr)
            exe, out, dt = build_harness(prop, tie, scratch)
            tr["go_build_wall_s"] = round(dt, 1)
            if exe is None:
                tr["go_build_error"] = out[-4000:]
                corr_broken.append({"tie": tie["name"], "why": "harness does not build against /repo",
                                    "output": out[-1500:]})
                continue
            passes = []
            if replay_path:
                passes.append(("replay", seed, 0, replay_path))
            else:
                cf = corpus_file(pid, tie, scratch)
                if cf:
                    passes.append(("corpus", seed, 0, cf))
                tcfg = tie.get("tiers", {}).get(tier, {})
                n = int(tcfg.get("n", 1000))
                nseeds = int(tcfg.get("seeds", 1))
                for k in range(nseeds):
                    passes.append(("gen", seed + 1000003 * k, n, None))
            tr["passes"] = []
            for (kind, s, n, rp) in passes:
                outdir = os.path.join(scratch, "%s_%s_%d" % (tie["name"], kind, s))
                pr = one_pass(prop, tie, exe, s, n, tier, outdir, rp)
                an = analyse(tie, outdir, nt_prefixes)
                pr.update({"kind": kind, "seed": s, "cases": an["cases"], "ops": an["ops"],
                           "distinct_nontrivial": an["distinct_nontrivial"],
                           "mismatches": len(an["mismatches"]), "oracle_failures": len(an["oracle_fails"]),
                           "stats": an["stats"].get("stats", {})})
                tr["passes"].append(pr)
                evaluations += an["cases"]
                distinct_nt += an["distinct_nontrivial"]
                if tie.get("driver_exe"):
                    traces += an["cases"]
                if len(samples) < 4:
                    samples.extend(an["samples"][:2])
                if pr["harness_rc"] != 0:
                    corr_broken.append({"tie": tie["name"], "why": "harness run failed (rc=%d)" % pr["harness_rc"],
                                        "output": pr.get("harness_output", "")[-1500:]})
                    if pr.get("crash_case"):
                        # the process died (or hung) inside this case: that case is the failing input
                        any_fail_input.append({"case": -1, "sig": "harness-crash", "tie": tie["name"],
                                               "ops": pr["crash_case"],
                                               "desc": "the process running the real code %s while executing this case: %s" % (
                                                   "hung (timeout)" if pr["harness_rc"] == 124 else "died (rc=%d)" % pr["harness_rc"],
                                                   " ".join(pr.get("harness_output", "")[-400:].split()))})
                if pr.get("driver_rc", 0) != 0:
                    corr_broken.append({"tie": tie["name"], "why": "model driver failed (rc=%d)" % pr["driver_rc"],
                                        "output": pr.get("driver_output", "")})
                for f in an["oracle_fails"]:
                    if f["sig"] in known_sigs:
                        known_hits.setdefault(f["sig"], f)
                    else:
                        f["tie"] = tie["name"]
                        any_fail_input.append(f)
                for m in an["mismatches"][:50]:
                    m["tie"] = tie["name"]
                    if tie.get("mismatch_is_violation"):
                        # V-tie: the Lean monitor rejected a recorded trace of the real system
                        k = m["first_diff"]
                        any_fail_input.append({"case": m["case"], "sig": "monitor-reject", "tie": tie["name"],
                                               "ops": m["ops"], "desc": "monitor verdict %r on event %d %r (implementation trace says %r)" % (
                                                   m["model"][k] if k < len(m["model"]) else None, k,
                                                   m["ops"][k] if k < len(m["ops"]) else None,
                                                   m["impl"][k] if k < len(m["impl"]) else None)})
                    else:
                        corr_broken.append({"tie": tie["name"], "why": "model and implementation disagree", "case": m})
                shutil.rmtree(outdir, ignore_errors=True)
                if any_fail_input:
                    break
            # search for a failing input when something broke but no oracle failure yet
            hung = any(p.get("harness_rc") == 124 for p in tr.get("passes", []))
            if (broken or corr_broken) and not any_fail_input and not replay_path and not hung:
                sn = int(tie.get("tiers", {}).get(tier, {}).get("search_n",
                         int(tie.get("tiers", {}).get(tier, {}).get("n", 1000))))
                for k in range(3):
                    s = seed * 7919 + 17 + k
                    outdir = os.path.join(scratch, "%s_search_%d" % (tie["name"], k))
                    pr = one_pass(prop, tie, exe, s, sn, tier, outdir, None)
                    an = analyse(tie, outdir, nt_prefixes)
                    tr.setdefault("search", []).append({"seed": s, "cases": an["cases"],
                                                        "oracle_failures": len(an["oracle_fails"])})
                    evaluations += an["cases"]
                    for f in an["oracle_fails"]:
                        if f["sig"] not in known_sigs:
                            f["tie"] = tie["name"]
                            any_fail_input.append(f)
                    shutil.rmtree(outdir, ignore_errors=True)
                    if any_fail_input:
                        break
            # shrink the first failing input
            if any_fail_input and any_fail_input[0].get("ops") and len(any_fail_input[0]["ops"]) > 1:
                f0 = any_fail_input[0]

                def still(cand, tie=tie, exe=exe, sig=f0["sig"]):
                    rp = os.path.join(scratch, "shrink.ops")
                    with open(rp, "w") as fh:
                        fh.write("# case 0\n" + "\n".join(cand) + "\n")
                    od = os.path.join(scratch, "shrink_out")
                    shutil.rmtree(od, ignore_errors=True)
                    one_pass(prop, tie, exe, seed, 0, tier, od, rp)
                    a = analyse(tie, od, nt_prefixes)
                    if sig == "harness-crash":
                        return os.path.exists(os.path.join(od, "current_case.ops"))
                    if sig == "monitor-reject":
                        return bool(a["mismatches"])
                    return any(x["sig"] == sig for x in a["oracle_fails"])
                if f0.get("tie") == tie["name"]:
                    f0["ops_shrunk"] = shrink_case(prop, tie, exe, tier, scratch, f0["ops"], still)
        # ---------------- verdict
        os.makedirs(os.path.join(ROOT, "replay"), exist_ok=True)
        rc = 0
        for sig, f in known_hits.items():
            log("KNOWN-FINDING: property=%s %s [%s]" % (pid, known_sigs[sig].get("what", sig), sig))
        if any_fail_input:
            f0 = any_fail_input[0]
            rp = os.path.join(ROOT, "replay", "%s-%d%s.json" % (pid, seed, "" if os.path.realpath(REPO) == "/repo" else "-p%d" % os.getpid()))
            with open(rp, "w") as fh:
                json.dump({"property": pid, "seed": seed, "tier": tier, "kind": "failing-input",
                           "tie": f0.get("tie"), "ops": f0.get("ops_shrunk") or f0.get("ops"),
                           "ops_unshrunk": f0.get("ops"), "property_clause": f0["desc"], "sig": f0["sig"],
                           "broken_obligations": [b["name"] for b in broken],
                           "other_failures": [x["desc"] for x in any_fail_input[1:6]],
                           "how_to_replay": "./check %s --replay %s" % (pid, rp)}, fh, indent=1)
            log("VIOLATION property=%s replay=%s" % (pid, rp))
            rc = 1
        elif broken or corr_broken:
            rp = os.path.join(ROOT, "replay", "%s-%d%s.json" % (pid, seed, "" if os.path.realpath(REPO) == "/repo" else "-p%d" % os.getpid()))
            first_case = next((c["case"] for c in corr_broken if "case" in c), None)
            with open(rp, "w") as fh:
                json.dump({"property": pid, "seed": seed, "tier": tier,
                           "kind": "broken-obligation" if broken else "broken-correspondence",
                           "theorems_no_longer_checked": broken,
                           "correspondence": [{k: v for k, v in c.items() if k != "case"} for c in corr_broken[:5]],
                           "ops": first_case["ops"] if first_case else [],
                           "impl_out": first_case["impl"] if first_case else [],
                           "model_out": first_case["model"] if first_case else [],
                           "tie": first_case.get("tie") if first_case else None,
                           "note": "no input was found on which the property itself fails on the implementation; "
                                   "the property is no longer shown to hold",
                           "how_to_replay": "./check %s --replay %s" % (pid, rp)}, fh, indent=1)
            log("VIOLATION property=%s replay=%s no-failing-input-found" % (pid, rp))
            rc = 1
        # ---------------- evidence
        theorems_ok = [o for o in obligations if o["ok"]]
        ev = {
            "property_id": pid, "tier": tier, "seed": seed, "level": "proof",
            "coverage": {
                "obligations": len(obligations), "discharged": len(theorems_ok),
                "checker_cmd": "cd lean && lake build %s && lake env lean <audit:#print axioms>%s" % (
                    " ".join(prop.get("lean", {}).get("proof_modules", [])),
                    " && lake env leanchecker <module>" if tier == "thorough" else ""),
                "trusted_base": prop.get("trusted_base", []) + [
                    "Lean 4 kernel; axioms per theorem listed under obligations_detail",
                    "correspondence check is sampling: model = implementation only on the generated cases"],
                "obligations_detail": obligations,
                "evaluations": evaluations, "distinct_nontrivial": distinct_nt,
                "rule": prop.get("nontrivial_rule", "cases are op sequences generated from VERIF_SEED by the Go harness; "
                                 "distinct = distinct op-line hash; non-trivial = at least one implementation "
                                 "result line starts with one of %s" % (list(nt_prefixes),)),
                "samples": samples[:4] if samples else [o["name"] for o in obligations[:3]],
                "traces_validated_against_impl": traces,
                "ties": tie_reports, "lean": report,
                "known_findings_reproduced": sorted(known_hits.keys()),
            },
            "assumptions": prop.get("assumptions", []),
            "wall_s": round(time.time() - t0, 2),
            "violations": (1 if rc else 0),
        }
        if not replay_path:
            # evidence/ describes runs against /repo itself; a run pointed at another tree through
            # VERIF_REPO (seeded-change testing) leaves its record under .scratch instead
            evdir = os.path.join(ROOT, "evidence") if os.path.realpath(REPO) == "/repo" else os.path.join(ROOT, ".scratch", "evidence-other-tree")
            os.makedirs(evdir, exist_ok=True)
            tmp = os.path.join(evdir, ".%s.%d.tmp" % (pid, os.getpid()))
            with open(tmp, "w") as fh:
                json.dump(ev, fh, indent=1)
            os.replace(tmp, os.path.join(evdir, pid + ".json"))
        log("%s %s tier=%s seed=%d obligations=%d/%d cases=%d distinct_nontrivial=%d wall=%.1fs" % (
            pid, "OK" if rc == 0 else "FAILED", tier, seed, len(theorems_ok), len(obligations),
            evaluations, distinct_nt, time.time() - t0))
        return rc
    finally:
        shutil.rmtree(scratch, ignore_errors=True)


def main(argv):
    import argparse
    ap = argparse.ArgumentParser()
    ap.add_argument("prop")
    ap.add_argument("--tier", default=os.environ.get("VERIF_TIER") or "quick", choices=["quick", "thorough"])
    ap.add_argument("--replay", default=None)
    a = ap.parse_args(argv)
    seed = int(os.environ.get("VERIF_SEED") or "1")
    replay = os.path.abspath(a.replay) if a.replay else None
    replay_tie = None
    if replay:
        # a replay file is either our JSON or a raw ops file
        try:
            d = json.load(open(replay))
            ops = d.get("ops") or []
            replay_tie = d.get("tie")
            tmp = os.path.join(ROOT, ".scratch", "replay-%d.ops" % os.getpid())
            os.makedirs(os.path.dirname(tmp), exist_ok=True)
            with open(tmp, "w") as fh:
                fh.write("# case 0\n" + "\n".join(ops) + "\n")
            replay = tmp
            if not ops:
                log("replay file carries no input (kind=%s); re-running the full check" % d.get("kind"))
                replay = None
        except (ValueError, UnicodeDecodeError):
            pass
    sys.exit(check(a.prop, a.tier, seed, replay, replay_tie))


if __name__ == "__main__":
    main(sys.argv[1:])
