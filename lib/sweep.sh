#!/bin/bash
# Run every registered quick check once on /repo; summary in .scratch/sweep.log
cd "$(dirname "$0")/.."
mkdir -p .scratch
: > .scratch/sweep.log
for p in $(python3 -c "import json;print(' '.join(c['property_id'] for c in json.load(open('MANIFEST.json'))['checks']))"); do
  out=$(VERIF_SEED=${VERIF_SEED:-1} ./check $p 2>&1 | grep -E "^(C[0-9]+ (OK|FAILED)|VIOLATION)" | tr '\n' ' ')
  echo "$p :: $out" >> .scratch/sweep.log
done
echo DONE >> .scratch/sweep.log
