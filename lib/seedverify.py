#!/usr/bin/env python3
"""Confirm a candidate seeded change and keep it under seeded/<name>/.

  lib/seedverify.py <candidate-dir> [name]

<candidate-dir> holds: patch.diff (git apply at the repo root), demo/ (files to
copy into the repo, paths relative to the repo root), meta.json
{"property","title","needs","demo_cmd","packages"}.
Confirms, each in a fresh scratch worktree under /var/tmp:
  1. demo passes on the unchanged tree
  2. demo fails with the patch applied
  3. the patched tree builds and the whole existing test suite passes
Only then copies it to seeded/<name>/ (adding "confirmed": {...} to meta.json).
"""
import json, os, shutil, subprocess, sys, time
ROOT = os.path.dirname(os.path.dirname(os.path.abspath(__file__)))

def sh(cmd, cwd=None, timeout=1800):
    env = dict(os.environ, GOPROXY="off")
    env.pop("GOTOOLCHAIN", None)
    try:
        p = subprocess.run(cmd, shell=True, cwd=cwd, env=env, text=True, capture_output=True, timeout=timeout)
        return p.returncode, (p.stdout + p.stderr)[-3000:]
    except subprocess.TimeoutExpired:
        return 124, "timeout"

def worktree(tag):
    wt = "/var/tmp/seedv-%s-%d" % (tag, os.getpid())
    sh("git -C /repo worktree remove --force " + wt)
    rc, out = sh("git -C /repo worktree add --detach %s HEAD" % wt)
    if rc != 0:
        raise SystemExit("worktree: " + out)
    return wt

def drop(wt):
    sh("git -C /repo worktree remove --force " + wt)
    shutil.rmtree(wt, ignore_errors=True)
    sh("git -C /repo worktree prune")

def copy_demo(cand, wt):
    d = os.path.join(cand, "demo")
    for base, _, files in os.walk(d):
        for f in files:
            src = os.path.join(base, f)
            rel = os.path.relpath(src, d)
            dst = os.path.join(wt, rel)
            os.makedirs(os.path.dirname(dst), exist_ok=True)
            shutil.copy(src, dst)

def main():
    cand = os.path.abspath(sys.argv[1])
    meta = json.load(open(os.path.join(cand, "meta.json")))
    name = sys.argv[2] if len(sys.argv) > 2 else os.path.basename(cand.rstrip("/"))
    res = {}
    wt = worktree(name + "-a")
    try:
        copy_demo(cand, wt)
        rc, out = sh(meta["demo_cmd"], cwd=wt)
        res["demo_on_clean_rc"] = rc
        if rc != 0:
            print("REJECT: demo fails on the unchanged tree\n" + out); return 1
    finally:
        drop(wt)
    wt = worktree(name + "-b")
    try:
        rc, out = sh("git apply %s" % os.path.join(cand, "patch.diff"), cwd=wt)
        if rc != 0:
            print("REJECT: patch does not apply\n" + out); return 1
        rc2, out = sh("go build ./... && go test -vet=off -count=1 ./... > /var/tmp/seedv-suite-%d.log 2>&1; rc=$?; grep -v '^ok\\|no test files' /var/tmp/seedv-suite-%d.log | tail -30; rm -f /var/tmp/seedv-suite-%d.log; exit $rc" % ((os.getpid(),)*3), cwd=wt, timeout=3000)
        if rc2 != 0:
            # tests that compare with the OS (bpf) or depend on timing flake on a loaded machine:
            # re-run only the packages that failed, once, before rejecting
            import re as _re
            pk = sorted(set(_re.findall(r"^(?:FAIL|---\s*FAIL.*|panic.*)?\s*FAIL\s+(golang\.org/x/net/\S+)", out, _re.M)))
            if pk:
                rel = " ".join("./" + x.split("golang.org/x/net/")[1] for x in pk)
                res["suite_retry_packages"] = rel
                for _try in range(3):
                    rc3, out3 = sh("go test -vet=off -count=1 %s" % rel, cwd=wt, timeout=1800)
                    if rc3 == 0:
                        rc2 = 0
                        break
        res["suite_with_patch_rc"] = rc2
        if rc2 != 0:
            print("REJECT: existing suite fails (or build breaks) with the patch\n" + out); return 1
        copy_demo(cand, wt)
        rc, out = sh(meta["demo_cmd"], cwd=wt)
        res["demo_with_patch_rc"] = rc
        if rc == 0:
            print("REJECT: demo still passes with the patch"); return 1
        res["demo_with_patch_tail"] = out[-600:]
    finally:
        drop(wt)
    dst = os.path.join(ROOT, "seeded", name)
    shutil.rmtree(dst, ignore_errors=True)
    shutil.copytree(cand, dst)
    meta["confirmed"] = dict(res, at=time.strftime("%Y-%m-%dT%H:%M:%S"),
                             ran="demo on clean tree (pass), whole suite with patch (pass), demo with patch (fail)")
    json.dump(meta, open(os.path.join(dst, "meta.json"), "w"), indent=1)
    print("CONFIRMED ->", dst)
    return 0

if __name__ == "__main__":
    sys.exit(main())
