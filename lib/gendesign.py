#!/usr/bin/env python3
"""Refreshes the generated sections of DESIGN.md (between <!-- GEN:x --> markers):
findings/repairs (from known_findings.json) and seeded changes (from seeded/*/meta.json + RESULTS.json)."""
import json, os, glob, re, subprocess
ROOT = os.path.dirname(os.path.dirname(os.path.abspath(__file__)))

def table_findings():
    kf = json.load(open(os.path.join(ROOT, "known_findings.json")))
    out = ["| Property | signature | what fails (known finding: recorded, not repaired) |", "|---|---|---|"]
    for f in sorted(kf["findings"], key=lambda x: x["property"]):
        out.append("| %s | `%s` | %s |" % (f["property"], f["sig"], f["what"].replace("|", "\\|").replace("\n", " ")[:600]))
    out += ["", "| Property | fix commit in /repo | what was wrong (repaired; the old witness is a regression input) |", "|---|---|---|"]
    for f in sorted(kf["fixed"], key=lambda x: (x["property"], x.get("commit", ""))):
        out.append("| %s | `%s` | %s |" % (f["property"], str(f.get("commit", ""))[:10], str(f.get("what", f.get("sig", ""))).replace("|", "\\|").replace("\n", " ")[:400]))
    return "\n".join(out)

def table_seeded():
    res = {}
    p = os.path.join(ROOT, "seeded", "RESULTS.json")
    if os.path.exists(p):
        res = json.load(open(p))
    out = ["| seeded change | property | what it breaks / what it needs | verdict of `./check` on the patched tree |", "|---|---|---|---|"]
    for d in sorted(glob.glob(os.path.join(ROOT, "seeded", "*", "meta.json"))):
        n = os.path.basename(os.path.dirname(d))
        m = json.load(open(d))
        r = res.get(n, {})
        verdict = r.get("kind", "not run")
        if r.get("detail"):
            verdict += ": " + r["detail"].replace("|", "\\|").replace("\n", " ")[:160]
        out.append("| %s | %s | %s — needs: %s | %s |" % (n, m.get("property"), str(m.get("title", "")).replace("|", "\\|")[:200],
                                                     str(m.get("needs", "")).replace("|", "\\|").replace("\n", " ")[:260], verdict))
    return "\n".join(out)

def main():
    p = os.path.join(ROOT, "DESIGN.md")
    s = open(p).read()
    for key, fn in (("findings", table_findings), ("seeded", table_seeded)):
        a, b = "<!-- GEN:%s -->" % key, "<!-- /GEN:%s -->" % key
        if a in s and b in s:
            s = s[:s.index(a) + len(a)] + "\n" + fn() + "\n" + s[s.index(b):]
    open(p, "w").write(s)

if __name__ == "__main__":
    main()
