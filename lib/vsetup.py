#!/usr/bin/env python3
"""setup_cmd: build everything the checks need, offline, from files on disk."""
import json, os, glob, subprocess, sys, time
from concurrent.futures import ThreadPoolExecutor
sys.path.insert(0, os.path.dirname(os.path.abspath(__file__)))
import vcheck

ROOT = vcheck.ROOT

def main():
    t0 = time.time()
    subprocess.run([sys.executable, os.path.join(ROOT, "lib", "genmanifest.py")], check=False)
    props = []
    for p in sorted(glob.glob(os.path.join(ROOT, "props", "C*.json"))):
        if p.endswith(".findings.json") or p.endswith(".fixed.json"):
            continue
        d = json.load(open(p))
        if d.get("status") == "ready":
            props.append(d)
    only = set(sys.argv[1:])
    if only:
        props = [p for p in props if p["id"] in only]
    # 1. regenerate Gen files
    with vcheck.Lock(os.path.join(vcheck.LEAN, ".verif.setup.lock")):
        for d in props:
            rep = {}
            ok = vcheck.regenerate(d, rep)
            print("gen", d["id"], "ok" if ok else "FAILED", flush=True)
        # 2. one lake build for everything (lake parallelises)
        targets = []
        for d in props:
            targets += d.get("lean", {}).get("proof_modules", [])
            targets += [t["driver_exe"] for t in d.get("ties", []) if t.get("driver_exe")]
        targets = sorted(set(targets))
        if targets:
            r = subprocess.run(["lake", "build"] + targets, cwd=vcheck.LEAN)
            print("lake build rc", r.returncode, flush=True)
    # 3. warm the Go build cache for every harness
    def warm(dt):
        d, t = dt
        scratch = os.path.join(ROOT, ".scratch", "setup-%s-%s" % (d["id"], t["name"]))
        os.makedirs(scratch, exist_ok=True)
        exe, out, dtm = vcheck.build_harness(d, t, scratch)
        import shutil
        shutil.rmtree(scratch, ignore_errors=True)
        return d["id"], t["name"], exe is not None, dtm, out
    jobs = [(d, t) for d in props for t in d.get("ties", [])]
    with ThreadPoolExecutor(4) as ex:
        for pid, name, ok, dtm, out in ex.map(warm, jobs):
            print("go build", pid, name, "ok" if ok else "FAILED\n" + out[-1500:], "%.1fs" % dtm, flush=True)
    print("setup done in %.0fs" % (time.time() - t0))
    return 0

if __name__ == "__main__":
    sys.exit(main())
