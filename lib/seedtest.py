#!/usr/bin/env python3
"""Run checks against the seeded changes kept under seeded/<name>/.

  lib/seedtest.py [name ...]        # default: all

For each seeded change: make a scratch worktree of /repo under /var/tmp, apply
patch.diff there, run the quick check of the property it breaks with
VERIF_REPO pointing at the worktree, record whether a VIOLATION was reported and
of which kind, remove the worktree. Results go to seeded/RESULTS.json.
(The final confirmation — git -C /repo apply / check / checkout — is done by hand
when no builder is using /repo.)
"""
import json, os, subprocess, sys, shutil, time, glob
ROOT = os.path.dirname(os.path.dirname(os.path.abspath(__file__)))

def sh(cmd, **kw):
    return subprocess.run(cmd, shell=True, text=True, capture_output=True, **kw)

def main():
    names = sys.argv[1:] or sorted(os.path.basename(os.path.dirname(p)) for p in glob.glob(os.path.join(ROOT, "seeded", "*", "meta.json")))
    results = {}
    rp = os.path.join(ROOT, "seeded", "RESULTS.json")
    if os.path.exists(rp):
        results = json.load(open(rp))
    for name in names:
        d = os.path.join(ROOT, "seeded", name)
        meta = json.load(open(os.path.join(d, "meta.json")))
        pid = meta["property"]
        wt = "/var/tmp/seedwt-%s-%d" % (name, os.getpid())
        sh("git -C /repo worktree remove --force %s" % wt)
        r = sh("git -C /repo worktree add --detach %s HEAD" % wt)
        if r.returncode != 0:
            print(name, "worktree failed", r.stderr); continue
        try:
            r = sh("git -C %s apply %s" % (wt, os.path.join(d, "patch.diff")))
            if r.returncode != 0:
                results[name] = {"property": pid, "error": "patch does not apply: " + r.stderr[-300:]}
                print(name, "PATCH FAILED"); continue
            t0 = time.time()
            env = dict(os.environ, VERIF_REPO=wt)
            r = subprocess.run(["./check", pid, "--tier", os.environ.get("SEED_TIER", "quick")], cwd=ROOT, env=env, text=True, capture_output=True)
            out = r.stdout + r.stderr
            viol = [l for l in out.splitlines() if l.startswith("VIOLATION")]
            kind = "missed"
            if viol:
                kind = "no-failing-input-found" if viol[0].rstrip().endswith("no-failing-input-found") else "failing-input"
            detail = ""
            if viol:
                try:
                    rpth = viol[0].split("replay=")[1].split()[0]
                    rj = json.load(open(rpth))
                    detail = (rj.get("property_clause") or json.dumps(rj.get("correspondence") or rj.get("theorems_no_longer_checked"))[:300])
                except Exception as e:
                    detail = "?"
            results[name] = {"property": pid, "caught": bool(viol), "kind": kind, "rc": r.returncode,
                             "wall_s": round(time.time() - t0, 1), "detail": detail[:400]}
            print(name, pid, kind, "%.0fs" % (time.time() - t0), flush=True)
        finally:
            sh("git -C /repo worktree remove --force %s" % wt)
            shutil.rmtree(wt, ignore_errors=True)
    # several workers may run: merge under a lock
    import fcntl
    with open(rp + ".lock", "w") as lk:
        fcntl.flock(lk, fcntl.LOCK_EX)
        cur = {}
        if os.path.exists(rp):
            try:
                cur = json.load(open(rp))
            except Exception:
                cur = {}
        for n in names:
            if n in results:
                cur[n] = results[n]
        json.dump(cur, open(rp, "w"), indent=1, sort_keys=True)

if __name__ == "__main__":
    main()
