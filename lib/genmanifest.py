#!/usr/bin/env python3
"""Regenerates MANIFEST.json and lean/lakefile.toml from props/*.json."""
import json, os, glob
ROOT = os.path.dirname(os.path.dirname(os.path.abspath(__file__)))

def _atomic(path, text):
    tmp = "%s.%d.tmp" % (path, os.getpid())
    with open(tmp, "w") as f:
        f.write(text)
    os.replace(tmp, path)


def main():
    props = {}
    for p in sorted(glob.glob(os.path.join(ROOT, "props", "C*.json"))):
        if p.endswith(".findings.json") or p.endswith(".fixed.json"):
            continue
        try:
            d = json.load(open(p))
            props[d["id"]] = d
        except Exception as e:  # half-written file of a property still under construction
            print("skipping", p, e)
    all_ids = [json.loads(l)["id"] for l in open(os.path.join(ROOT, "properties.jsonl")) if l.strip()]
    # lakefile
    lf = ['name = "NetVerif"', 'version = "0.1.0"', 'defaultTargets = ["NetVerif"]', '',
          '[[lean_lib]]', 'name = "NetVerif"', '']
    seen = set()
    for pid in all_ids:
        d = props.get(pid)
        if not d or d.get("status") != "ready":
            continue
        for t in d.get("ties", []):
            if t.get("driver_exe") and t["driver_exe"] not in seen:
                seen.add(t["driver_exe"])
                lf += ['[[lean_exe]]', 'name = "%s"' % t["driver_exe"], 'root = "%s"' % t["driver_root"], '']
    _atomic(os.path.join(ROOT, "lean", "lakefile.toml"), "\n".join(lf))
    baseline = ("cd /repo && go build ./... && go test -mod=mod -json -vet=off -count=1 -timeout 25m ./...")
    checks, na = [], []
    na_reasons = {}
    nap = os.path.join(ROOT, "props", "not_applicable.json")
    if os.path.exists(nap):
        na_reasons = json.load(open(nap))
    for pid in all_ids:
        d = props.get(pid)
        if not d or d.get("status") != "ready":
            na.append({"property_id": pid, "reason": na_reasons.get(pid, "check not built yet in this round; the design (DESIGN.md §7) applies but no model/theorem is registered, so nothing is claimed")})
            continue
        m = d["manifest"]
        checks.append({
            "property_id": pid,
            "quick_cmd": "./check %s --tier quick" % pid,
            "thorough_cmd": "./check %s --tier thorough" % pid,
            "evidence_file": "/verif/evidence/%s.json" % pid,
            "replay_cmd_template": "./check %s --replay {path}" % pid,
            "engine": "lean-netverif",
            "level_claimed": {"category": "proof", "text": m["level_text"], "design_ref": m.get("design_ref", "DESIGN.md §7 " + pid)},
            "level_note": m["level_note"],
            "technique": m.get("technique", "Lean 4 proof + model/implementation correspondence check"),
        })
    man = {
        "version": 1,
        "setup_cmd": "./setup.sh",
        "hooks": {
            "guard": "verif",
            "enable": "go build|test -tags verif -overlay <generated overlay.json> (harness/ files are injected into /repo packages at build time; no file under /repo is modified)",
            "baseline_off_cmd": baseline,
            "source_commits": [],
            "add_only": True,
        },
        "engines": [
            {"name": "lean-netverif", "path": "lean/", "serves_properties": [c["property_id"] for c in checks],
             "kind_free_text": "Lean 4 models, theorems, compiled line-protocol model drivers (core Lean only)"},
            {"name": "go-extract", "path": "tools/extract/", "serves_properties": [pid for pid in all_ids if props.get(pid, {}).get("gen")],
             "kind_free_text": "go/ast translator: Go tables and straight-line integer functions -> Lean Gen/*.lean, regenerated every run"},
            {"name": "go-overlay-harness", "path": "harness/", "serves_properties": [c["property_id"] for c in checks],
             "kind_free_text": "Go drivers injected with `go build -overlay` (tag verif): generators, executors on the real code, property oracles"},
            {"name": "check-orchestrator", "path": "lib/vcheck.py", "serves_properties": [c["property_id"] for c in checks],
             "kind_free_text": "regenerate -> lake build -> axiom audit -> differential run -> verdict -> evidence"},
        ],
        "checks": checks,
        "not_applicable": na,
        "notes": "All checks decide by Lean 4 theorems about a model tied to /repo by regeneration and/or a correspondence check; see DESIGN.md.",
    }
    _atomic(os.path.join(ROOT, "MANIFEST.json"), json.dumps(man, indent=1) + "\n")
    # known findings: merged from props/Cxx.findings.json fragments (+ the 'fixed' list kept by hand)
    kf_path = os.path.join(ROOT, "known_findings.json")
    kf = {"findings": [], "fixed": []}
    if os.path.exists(kf_path):
        try:
            kf["fixed"] = json.load(open(kf_path)).get("fixed", [])
        except Exception:
            pass
    # 'fixed' entries: hand-kept ones plus props/Cxx.fixed.json fragments written after a fix: commit
    fixed = {}  # derived from the fragments only, so a corrected fragment replaces its old entry
    for p in sorted(glob.glob(os.path.join(ROOT, "props", "C*.fixed.json"))):
        try:
            for ent in json.load(open(p)):
                fixed[json.dumps(ent, sort_keys=True)] = ent
        except Exception as e:
            print("skipping", p, e)
    kf["fixed"] = list(fixed.values())
    for p in sorted(glob.glob(os.path.join(ROOT, "props", "C*.findings.json"))):
        try:
            for ent in json.load(open(p)):
                if ent.get("property") in props and props[ent["property"]].get("status") == "ready":
                    kf["findings"].append(ent)
        except Exception as e:
            print("skipping", p, e)
    _atomic(kf_path, json.dumps(kf, indent=1) + "\n")
    print("checks:", len(checks), "not_applicable:", len(na))

if __name__ == "__main__":
    main()
