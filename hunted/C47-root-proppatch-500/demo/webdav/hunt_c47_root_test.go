package webdav

import (
	"io"
	"net/http/httptest"
	"strings"
	"testing"
)

// PROPPATCH on the root collection of the in-memory file system fails with
// 500 Internal Server Error, so no dead property can ever be stored on "/".
func TestHuntC47RootProppatch(t *testing.T) {
	h := &Handler{FileSystem: NewMemFS(), LockSystem: NewMemLS()}
	do := func(method, body string) (int, string) {
		req := httptest.NewRequest(method, "/", strings.NewReader(body))
		req.Header.Set("Depth", "0")
		rec := httptest.NewRecorder()
		h.ServeHTTP(rec, req)
		b, _ := io.ReadAll(rec.Result().Body)
		return rec.Code, string(b)
	}
	code, out := do("PROPPATCH", `<?xml version="1.0"?>`+
		`<D:propertyupdate xmlns:D="DAV:" xmlns:x="urn:x"><D:set><D:prop>`+
		`<x:color>red</x:color>`+
		`</D:prop></D:set></D:propertyupdate>`)
	if code != StatusMulti {
		t.Errorf("PROPPATCH /: status %d %q, want 207", code, strings.TrimSpace(out))
	}
	code, out = do("PROPFIND", `<D:propfind xmlns:D="DAV:" xmlns:x="urn:x"><D:prop><x:color/></D:prop></D:propfind>`)
	if code != StatusMulti || !strings.Contains(out, "red") {
		t.Errorf("PROPFIND / did not return the property: %d %s", code, out)
	}
}
