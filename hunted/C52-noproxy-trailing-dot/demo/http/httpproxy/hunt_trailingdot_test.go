package httpproxy

import (
	"net/url"
	"testing"
)

// A NO_PROXY domain entry must match the domain itself and its subdomains.
// "example.com." is the fully qualified spelling of the very same domain name
// (url.Parse keeps the dot, resolvers strip it), yet the request is proxied.
func TestHuntNoProxyTrailingDot(t *testing.T) {
	for _, tc := range []struct{ noProxy, reqURL string }{
		{"example.com", "http://example.com./"},
		{"example.com", "https://www.example.com./"},
		{".example.com", "http://www.example.com.:8080/"},
		{"example.com.", "http://example.com/"},
		{"example.com:80", "http://example.com./"},
		{"", "http://localhost./"},
	} {
		cfg := &Config{HTTPProxy: "http://proxy:3128", HTTPSProxy: "http://proxy:3128", NoProxy: tc.noProxy}
		u, err := url.Parse(tc.reqURL)
		if err != nil {
			t.Fatal(err)
		}
		p, err := cfg.ProxyFunc()(u)
		if err != nil {
			t.Fatal(err)
		}
		if p != nil {
			t.Errorf("NO_PROXY=%q: %s is sent to proxy %v, want no proxy", tc.noProxy, tc.reqURL, p)
		}
	}
}
