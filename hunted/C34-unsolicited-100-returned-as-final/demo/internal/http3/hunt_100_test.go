// Copyright 2026 The Go Authors. All rights reserved.
// Use of this source code is governed by a BSD-style
// license that can be found in the LICENSE file.

package http3

import (
	"net/http"
	"testing"
	"testing/synctest"
)

// A server may send "100 Continue" although the request carried no
// "Expect: 100-continue" (an http.Handler can do so with w.WriteHeader(100)).
// RFC 9110 section 15.2: "A client MUST be able to parse one or more 1xx
// responses received prior to a final response, even if the client does not
// expect one."
func TestHuntUnsolicited100Continue(t *testing.T) {
	synctest.Test(t, func(t *testing.T) {
		tc := newTestClientConn(t)
		tc.greet()
		serverBody := []byte("server's body")

		req, _ := http.NewRequest("GET", "https://example.tld/", nil)
		rt := tc.roundTrip(req)
		st := tc.wantStream(streamTypeRequest)
		st.wantHeaders(nil)

		st.writeHeaders(http.Header{":status": []string{"100"}})
		st.writeHeaders(http.Header{
			":status": []string{"200"},
			"x-final": []string{"yes"},
		})
		st.writeData(serverBody)
		st.stream.stream.CloseWrite()

		rt.wantStatus(200)
		rt.wantBody(serverBody)
	})
}
