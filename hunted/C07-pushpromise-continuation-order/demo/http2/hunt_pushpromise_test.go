package http2

import (
	"bytes"
	"testing"

	"golang.org/x/net/http2/hpack"
)

func huntBlockPP(t *testing.T, kv ...string) []byte {
	var b bytes.Buffer
	e := hpack.NewEncoder(&b)
	for i := 0; i < len(kv); i += 2 {
		e.WriteField(hpack.HeaderField{Name: kv[i], Value: kv[i+1]})
	}
	return b.Bytes()
}

func TestHuntPushPromiseContinuation(t *testing.T) {
	var buf bytes.Buffer
	fr := NewFramer(&buf, &buf)
	blk := huntBlockPP(t, ":method", "GET", ":path", "/", ":scheme", "https", ":authority", "x")
	fr.WritePushPromise(PushPromiseParam{StreamID: 1, PromiseID: 2, BlockFragment: blk[:2], EndHeaders: false})
	fr.WriteContinuation(1, true, blk[2:])
	f, err := fr.ReadFrame()
	if err != nil {
		t.Fatal(err)
	}
	if _, ok := f.(*PushPromiseFrame); !ok {
		t.Fatalf("got %T", f)
	}
	f, err = fr.ReadFrame()
	if err != nil {
		t.Fatalf("CONTINUATION after PUSH_PROMISE without END_HEADERS: %v (%v)", err, fr.ErrorDetail())
	}
}

func TestHuntPushPromiseNotFollowedByContinuation(t *testing.T) {
	var buf bytes.Buffer
	fr := NewFramer(&buf, &buf)
	blk := huntBlockPP(t, ":method", "GET", ":path", "/", ":scheme", "https", ":authority", "x")
	fr.WritePushPromise(PushPromiseParam{StreamID: 1, PromiseID: 2, BlockFragment: blk[:2], EndHeaders: false})
	fr.WriteData(1, false, []byte("x"))
	if _, err := fr.ReadFrame(); err != nil {
		t.Fatal(err)
	}
	f, err := fr.ReadFrame()
	if err == nil {
		t.Fatalf("got %v after PUSH_PROMISE without END_HEADERS; want PROTOCOL_ERROR", f)
	}
}

