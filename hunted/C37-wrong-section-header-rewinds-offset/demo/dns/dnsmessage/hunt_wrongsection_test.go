package dnsmessage

import (
	"testing"
)

func TestHuntWrongSectionHeaderCorruptsOffset(t *testing.T) {
	m := Message{
		Header: Header{Response: true},
		Answers: []Resource{
			{Header: ResourceHeader{Name: MustNewName("a.example."), Class: ClassINET}, Body: &AResource{A: [4]byte{1, 2, 3, 4}}},
			{Header: ResourceHeader{Name: MustNewName("b.example."), Class: ClassINET}, Body: &AResource{A: [4]byte{5, 6, 7, 8}}},
		},
	}
	msg, err := m.Pack()
	if err != nil {
		t.Fatal(err)
	}
	var p Parser
	p.Start(msg)
	p.SkipAllQuestions()
	if _, err := p.AnswerHeader(); err != nil {
		t.Fatal(err)
	}
	// A caller probing the wrong section gets a clean error ...
	if _, err := p.AuthorityHeader(); err != ErrNotStarted {
		t.Fatalf("AuthorityHeader err = %v", err)
	}
	// ... but the parser position was rewound to the start of the header
	// while the header is still considered valid.
	a, err := p.AResource()
	if err != nil {
		t.Fatalf("AResource: %v", err)
	}
	if a.A != [4]byte{1, 2, 3, 4} {
		t.Errorf("AResource = %v, want 1.2.3.4", a.A)
	}
	h, err := p.AnswerHeader()
	if err != nil {
		t.Fatalf("second AnswerHeader: %v", err)
	}
	if h.Name.String() != "b.example." {
		t.Errorf("second answer name = %q", h.Name.String())
	}
}
