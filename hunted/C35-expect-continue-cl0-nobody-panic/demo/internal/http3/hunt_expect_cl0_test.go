// Copyright 2025 The Go Authors. All rights reserved.
// Use of this source code is governed by a BSD-style
// license that can be found in the LICENSE file.

package http3

import (
	"net/http"
	"testing"
	"testing/synctest"
)

// A request with "Expect: 100-continue" and "Content-Length: 0" makes
// serverConn.handleRequestStream use http.NoBody as the request body and then
// assert req.Body.(*bodyReader): the server goroutine panics (nothing recovers
// it), taking down the whole process.
func TestHuntExpectContinueZeroLengthPanics(t *testing.T) {
	synctest.Test(t, func(t *testing.T) {
		ts := newTestServer(t, http.HandlerFunc(func(w http.ResponseWriter, r *http.Request) {
			w.WriteHeader(204)
		}))
		tc := ts.connect()
		tc.greet()

		reqStream := tc.newStream(streamTypeRequest)
		reqStream.writeHeaders(requestHeader(http.Header{
			"expect":         {"100-continue"},
			"content-length": {"0"},
		}))
		reqStream.stream.stream.CloseWrite()
		reqStream.wantSomeHeaders(http.Header{":status": {"204"}})
		reqStream.wantClosed("request is complete")
	})
}
