package html

import (
	"bytes"
	"strings"
	"testing"
)

// Render writes an extra "\n" after the start tag of every element NAMED
// pre/listing/textarea whose first child is a text node starting with "\n",
// to compensate for the newline the parser ignores after those HTML start
// tags. It does not look at the namespace: an SVG or MathML <textarea> (which
// the parser accepts in foreign content, it is not a "breakout" tag) gets the
// extra newline too, but the parser ignores nothing there. So the text of
// such an element grows by one "\n" on every Render/Parse cycle.
func TestHuntForeignTextareaNewline(t *testing.T) {
	for _, in := range []string{"<svg><textarea>\nx</textarea></svg>", "<math><textarea>\nx</textarea></math>"} {
		d1, err := Parse(strings.NewReader(in))
		if err != nil {
			t.Fatal(err)
		}
		ta1 := d1.FirstChild.LastChild.FirstChild.FirstChild // html > body > svg > textarea
		if ta1 == nil || ta1.Data != "textarea" || ta1.Namespace == "" || ta1.FirstChild == nil {
			t.Fatalf("unexpected tree for %q", in)
		}
		want := ta1.FirstChild.Data // "\nx"

		var buf bytes.Buffer
		if err := Render(&buf, d1); err != nil {
			t.Fatal(err)
		}
		d2, err := Parse(bytes.NewReader(buf.Bytes()))
		if err != nil {
			t.Fatal(err)
		}
		ta2 := d2.FirstChild.LastChild.FirstChild.FirstChild
		if ta2 == nil || ta2.Data != "textarea" || ta2.FirstChild == nil {
			t.Fatalf("unexpected tree for %q", buf.String())
		}
		if got := ta2.FirstChild.Data; got != want {
			t.Errorf("%q: text %q rendered as %q re-parses as %q", in, want, buf.String(), got)
		}
	}
}
