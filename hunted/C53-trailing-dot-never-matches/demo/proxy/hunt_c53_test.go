package proxy

import (
	"errors"
	"net"
	"testing"
)

type huntRecDialer struct{ name string }

func (d huntRecDialer) Dial(network, addr string) (net.Conn, error) {
	return nil, errors.New(d.name)
}

// AddHost/AddZone strip a trailing dot from the configured name, but the
// dialed name is compared as is: a fully qualified name ("localhost.",
// "a.example.com.") can never be matched, not even by a rule that was written
// with exactly the same spelling.
func TestHuntC53TrailingDot(t *testing.T) {
	p := NewPerHost(huntRecDialer{"default"}, huntRecDialer{"bypass"})
	p.AddFromString("localhost., *.example.com.")
	for _, addr := range []string{
		"localhost.:80",     // equal to the added host "localhost."
		"a.example.com.:80", // ends in the added zone "*.example.com."
		"example.com.:80",   // equal to the added zone
	} {
		_, err := p.Dial("tcp", addr)
		if err.Error() != "bypass" {
			t.Errorf("Dial(%q) used the %s dialer, want bypass", addr, err)
		}
	}
}
