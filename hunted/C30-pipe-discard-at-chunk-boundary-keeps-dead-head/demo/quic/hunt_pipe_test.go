package quic

import "testing"

// discardBefore(off) with off exactly at the end of the head chunk keeps that
// fully discarded chunk as p.head (the loop tests head.end() < off), breaking
// the documented invariant "head.off + len(head.b) > start". peek, which only
// looks at p.head, then returns no bytes although the window is not empty.
func TestHuntPipeDiscardAtChunkBoundary(t *testing.T) {
	var p pipe
	data := make([]byte, 8192)
	for i := range data {
		data[i] = byte(i / 4096 + 1)
	}
	p.writeAt(data, 0)
	p.discardBefore(4096)
	if p.start != 4096 || p.end != 8192 {
		t.Fatalf("window = [%d,%d)", p.start, p.end)
	}
	if p.head != nil && p.head.end() <= p.start {
		t.Errorf("invariant broken: head chunk [%d,%d) lies entirely before start %d", p.head.off, p.head.end(), p.start)
	}
	if got := p.peek(10); len(got) != 10 || got[0] != 2 {
		t.Errorf("peek(10) = %v with 4096 bytes in the window, want 10 bytes of 0x02", got)
	}
}
