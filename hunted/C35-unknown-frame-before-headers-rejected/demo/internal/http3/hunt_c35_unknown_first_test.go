package http3

import (
	"net/http"
	"testing"
	"testing/synctest"
)

// A frame of an unknown (here: reserved "grease", 0x1f*N+0x21) type sent on a
// request stream before the HEADERS frame must be skipped. The server instead
// resets the request with H3_MESSAGE_ERROR.
func TestHuntC35UnknownFrameBeforeHeaders(t *testing.T) {
	synctest.Test(t, func(t *testing.T) {
		ts := newTestServer(t, http.HandlerFunc(func(w http.ResponseWriter, r *http.Request) {}))
		tc := ts.connect()
		tc.greet()
		rs := tc.newStream(streamTypeRequest)
		rs.writeVarint(0x21) // reserved frame type, no semantics
		rs.writeVarint(3)
		rs.Write([]byte("abc"))
		rs.writeHeaders(requestHeader(nil))
		rs.stream.stream.CloseWrite()
		synctest.Wait()
		rs.wantSomeHeaders(http.Header{":status": {"200"}})
	})
}
