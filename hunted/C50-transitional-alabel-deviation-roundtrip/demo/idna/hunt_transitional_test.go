package idna

import "testing"

// With Transitional(true) an accepted A-label that holds a deviation
// character (ß, ς, ZWJ, ZWNJ) does not survive ToASCII(ToUnicode(x)).
func TestHuntTransitionalRoundTrip(t *testing.T) {
	p := New(MapForLookup(), Transitional(true))
	const x = "xn--zcaa" // ßß
	a, err := p.ToASCII(x)
	if err != nil {
		t.Skipf("ToASCII(%q) rejected: %v", x, err)
	}
	u, err := p.ToUnicode(x)
	if err != nil {
		t.Fatalf("ToUnicode(%q): %v", x, err)
	}
	a2, err := p.ToASCII(u)
	if err != nil || a2 != a {
		t.Errorf("ToASCII(%q) = %q but ToASCII(ToUnicode(%q) = %q) = %q, %v", x, a, x, u, a2, err)
	}
}
