// Copyright 2026 The Go Authors. All rights reserved.
// Use of this source code is governed by a BSD-style
// license that can be found in the LICENSE file.

package httpproxy_test

import (
	"net/url"
	"testing"

	"golang.org/x/net/http/httpproxy"
)

// Host names are case-insensitive (and NO_PROXY domain matching lower-cases
// the request host), but the "localhost" special case compares the raw host.
func TestHuntLocalhostCase(t *testing.T) {
	cfg := &httpproxy.Config{HTTPProxy: "http://proxy.example:3128"}
	for _, raw := range []string{"http://localhost/", "http://LOCALHOST/", "http://Localhost:8080/x"} {
		u, err := url.Parse(raw)
		if err != nil {
			t.Fatal(err)
		}
		p, err := cfg.ProxyFunc()(u)
		if err != nil || p != nil {
			t.Errorf("ProxyFunc(%q) = %v, %v; want no proxy for localhost", raw, p, err)
		}
	}
}
