package webdav

import (
	"context"
	"os"
	"testing"
	"time"
)

// A file created (or truncated) through OpenFile keeps a zero / stale
// modification time until the first non-empty Write.
func TestHuntCreateModTimeZero(t *testing.T) {
	ctx := context.Background()
	start := time.Now().Add(-time.Minute)
	for _, fs := range []FileSystem{Dir(t.TempDir()), NewMemFS()} {
		f, err := fs.OpenFile(ctx, "/empty", os.O_RDWR|os.O_CREATE|os.O_TRUNC, 0666)
		if err != nil {
			t.Fatal(err)
		}
		f.Close()
		fi, err := fs.Stat(ctx, "/empty")
		if err != nil {
			t.Fatal(err)
		}
		if fi.ModTime().Before(start) {
			t.Errorf("%T: ModTime of a just created file = %v (IsZero=%v)", fs, fi.ModTime(), fi.ModTime().IsZero())
		}
	}
}
