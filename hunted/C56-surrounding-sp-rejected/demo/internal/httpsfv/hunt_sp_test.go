package httpsfv

import "testing"

// RFC 9651 section 4.2 steps 2 and 6: leading and trailing SP of the field
// value are discarded before / after parsing the list, dictionary or item.
func TestHuntSurroundingSP(t *testing.T) {
	if !ParseItem("a ", nil) {
		t.Errorf(`ParseItem("a ") = false, RFC 9651 accepts (trailing SP is discarded)`)
	}
	if !ParseItem(" a", nil) {
		t.Errorf(`ParseItem(" a") = false, RFC 9651 accepts (leading SP is discarded)`)
	}
	if !ParseList(" a, b", nil) {
		t.Errorf(`ParseList(" a, b") = false, RFC 9651 accepts`)
	}
	if !ParseList("a, b ", nil) {
		t.Errorf(`ParseList("a, b ") = false (control: trailing SP is accepted here)`)
	}
	if !ParseDictionary(" u=3, i", nil) {
		t.Errorf(`ParseDictionary(" u=3, i") = false, RFC 9651 accepts`)
	}
}
