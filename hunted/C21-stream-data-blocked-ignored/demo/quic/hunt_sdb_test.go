package quic

import (
	"testing"
	"testing/synctest"
)

// A peer that references (and so, per RFC 9000 section 3.2, opens) a stream beyond
// the MAX_STREAMS limit we advertised must get a STREAM_LIMIT_ERROR (section 4.6),
// whatever stream-related frame it uses. STREAM_DATA_BLOCKED is parsed and dropped
// without ever looking at its stream ID.
func TestHuntStreamDataBlockedBeyondLimit(t *testing.T) {
	synctest.Test(t, func(t *testing.T) {
		tc := newTestConn(t, serverSide, func(c *Config) {
			c.MaxBidiRemoteStreams = 4
		})
		tc.handshake()
		tc.ignoreFrame(frameTypeAck)
		if got := tc.sentTransportParameters.initialMaxStreamsBidi; got != 4 {
			t.Fatalf("initial_max_streams_bidi = %v, want 4", got)
		}
		// Stream number 1000 is far beyond the advertised limit of 4.
		tc.writeFrames(packetType1RTT, debugFrameStreamDataBlocked{
			id:  newStreamID(clientSide, bidiStream, 1000),
			max: 0,
		})
		tc.wantFrame("STREAM_DATA_BLOCKED for a stream past the limit",
			packetType1RTT, debugFrameConnectionCloseTransport{
				code: errStreamLimit,
			})
	})
}

// RFC 9000 section 19.13: "An endpoint that receives a STREAM_DATA_BLOCKED frame for a
// send-only stream MUST terminate the connection with error STREAM_STATE_ERROR."
func TestHuntStreamDataBlockedSendOnlyStream(t *testing.T) {
	synctest.Test(t, func(t *testing.T) {
		tc := newTestConn(t, serverSide)
		tc.handshake()
		tc.ignoreFrame(frameTypeAck)
		// A server-initiated unidirectional stream is send-only for the server.
		tc.writeFrames(packetType1RTT, debugFrameStreamDataBlocked{
			id:  newStreamID(serverSide, uniStream, 0),
			max: 0,
		})
		tc.wantFrame("STREAM_DATA_BLOCKED for a send-only stream",
			packetType1RTT, debugFrameConnectionCloseTransport{
				code: errStreamState,
			})
	})
}
