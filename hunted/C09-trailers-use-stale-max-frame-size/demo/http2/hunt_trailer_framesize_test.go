//go:build !(go1.27 && !http2legacy)

package http2_test

import (
	"io"
	"net/http"
	"strings"
	"testing"
	"testing/synctest"

	. "golang.org/x/net/http2"
)

// The server lowers SETTINGS_MAX_FRAME_SIZE while a request body is being sent
// (and the Transport acknowledges the change). The trailers that end the request
// are still split using the frame size that was current when the body started.
func TestHuntTrailersStaleMaxFrameSize(t *testing.T) {
	synctestTest(t, testHuntTrailersStaleMaxFrameSize)
}
func testHuntTrailersStaleMaxFrameSize(t testing.TB) {
	tc := newTestClientConn(t)
	tc.fr.SetMaxReadFrameSize(1 << 22)
	tc.greet(Setting{ID: SettingMaxFrameSize, Val: 1 << 20})

	pr, pw := io.Pipe()
	req, _ := http.NewRequest("POST", "https://dummy.tld/", pr)
	req.Trailer = http.Header{"X-Big": {strings.Repeat("a", 60000)}} // ~37.5KB after Huffman coding
	rt := tc.roundTrip(req)
	tc.wantFrameType(FrameHeaders)

	const newMax = 16384
	tc.writeSettings(Setting{ID: SettingMaxFrameSize, Val: newMax})
	tc.wantSettingsAck() // from here on the server may enforce newMax

	pw.Close() // end of body: the Transport now sends the trailers
	synctest.Wait()
	for {
		f := tc.readFrame()
		if f == nil {
			break
		}
		h := f.Header()
		if h.Length > newMax {
			t.Errorf("after acknowledging SETTINGS_MAX_FRAME_SIZE=%d the Transport sent a %v frame with a %d-byte payload", newMax, h.Type, h.Length)
		}
	}
	_ = rt
}
