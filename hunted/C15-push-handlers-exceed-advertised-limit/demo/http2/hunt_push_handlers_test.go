//go:build !(go1.27 && !http2legacy)

package http2_test

import (
	"net/http"
	"sync/atomic"
	"testing"
	"testing/synctest"

	. "golang.org/x/net/http2"
)

// The server advertises SETTINGS_MAX_CONCURRENT_STREAMS = 1, yet runs two
// handlers at once: handlers of pushed streams are started unconditionally
// (serverConn.startPush: sc.curHandlers++ ; go sc.runHandler) and are not
// subject to the advMaxStreams gate in scheduleHandler.
func TestHuntPushHandlersExceedAdvertisedLimit(t *testing.T) {
	synctestTest(t, testHuntPushHandlersExceedAdvertisedLimit)
}
func testHuntPushHandlersExceedAdvertisedLimit(t testing.TB) {
	var cur, peak atomic.Int32
	release := make(chan struct{})
	st := newServerTester(t, func(w http.ResponseWriter, r *http.Request) {
		n := cur.Add(1)
		defer cur.Add(-1)
		for {
			p := peak.Load()
			if n <= p || peak.CompareAndSwap(p, n) {
				break
			}
		}
		if r.URL.Path == "/" {
			if err := w.(http.Pusher).Push("/pushed", nil); err != nil {
				t.Errorf("Push: %v", err)
			}
		}
		<-release
	}, func(s *Server) {
		s.MaxConcurrentStreams = 1
	})
	defer st.Close()
	defer close(release)

	st.greet()
	getSlash(st)
	synctest.Wait()
	if got := peak.Load(); got > 1 {
		t.Fatalf("server advertised MAX_CONCURRENT_STREAMS=1 but ran %d handlers at once", got)
	}
}
