package dnsmessage

import (
	"testing"
)

func TestHuntRDLengthOverrun(t *testing.T) {
	msg := []byte{
		0, 1, 0x80, 0, 0, 0, 0, 1, 0, 0, 0, 0, // header: 1 answer
		0,    // name "."
		0, 1, // type A
		0, 1, // class IN
		0, 0, 0, 0, // TTL
		0, 200, // RDLENGTH = 200, but only 4 bytes follow
		1, 2, 3, 4,
	}
	var m Message
	errUnpack := m.Unpack(msg)
	var p Parser
	if _, err := p.Start(msg); err != nil {
		t.Fatal(err)
	}
	if err := p.SkipAllQuestions(); err != nil {
		t.Fatal(err)
	}
	p2 := p
	_, errParse := p.Answer()
	errSkip := p2.SkipAnswer()
	t.Logf("Unpack err=%v Answer err=%v SkipAnswer err=%v; off after Answer=%d len(msg)=%d", errUnpack, errParse, errSkip, p.off, len(msg))
	if (errParse == nil) != (errSkip == nil) {
		t.Errorf("Answer err = %v but SkipAnswer err = %v", errParse, errSkip)
	}
	if errParse == nil && p.off > len(msg) {
		t.Errorf("parser offset %d beyond message length %d", p.off, len(msg))
	}
}

