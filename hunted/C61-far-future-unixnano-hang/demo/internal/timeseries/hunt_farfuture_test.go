package timeseries

import (
	"testing"
	"time"
)

// advance() realigns a level after a far jump with t.UnixNano(), which is
// undefined (wraps) for dates after 2262-04-11; the level end lands ~584
// years before t and the following "for t.After(level.end)" loop then walks
// there one bucket (1s) at a time: ~1.8e10 iterations, minutes of CPU.
func TestHuntFarFutureHang(t *testing.T) {
	ts := NewTimeSeries(NewFloat)
	f := Float(3)
	ts.AddWithTime(&f, time.Unix(1000, 0))
	done := make(chan struct{})
	go func() {
		g := Float(4)
		ts.AddWithTime(&g, time.Date(2300, 1, 1, 0, 0, 0, 0, time.UTC))
		close(done)
	}()
	select {
	case <-done:
	case <-time.After(5 * time.Second):
		t.Fatal("AddWithTime(year 2300) still running after 5s")
	}
	if got := ts.Total().(*Float).Value(); got != 7 {
		t.Fatalf("Total = %v, want 7", got)
	}
}
