// Copyright 2026 The Go Authors. All rights reserved.
// Use of this source code is governed by a BSD-style
// license that can be found in the LICENSE file.

package http2

import (
	"bytes"
	"context"
	"crypto/tls"
	"io"
	"net"
	"net/http"
	"sync/atomic"
	"testing"
	"time"

	"golang.org/x/net/http2/hpack"
)

// Closing a response body twice (a common pattern: an explicit Close plus a
// deferred one) must not return the unread bytes' connection-level flow
// control twice.
func TestHuntResponseBodyDoubleCloseRefund(t *testing.T) {
	ln, err := net.Listen("tcp", "127.0.0.1:0")
	if err != nil {
		t.Fatal(err)
	}
	defer ln.Close()

	const bodyLen = 64 << 10
	var connCredit atomic.Int64 // sum of connection-level WINDOW_UPDATE increments seen by the server
	dataSent := make(chan struct{})
	go func() {
		c, err := ln.Accept()
		if err != nil {
			return
		}
		defer c.Close()
		preface := make([]byte, len(ClientPreface))
		if _, err := io.ReadFull(c, preface); err != nil {
			return
		}
		fr := NewFramer(c, c)
		fr.WriteSettings()
		for {
			f, err := fr.ReadFrame()
			if err != nil {
				return
			}
			switch f := f.(type) {
			case *SettingsFrame:
				if !f.IsAck() {
					fr.WriteSettingsAck()
				}
			case *WindowUpdateFrame:
				if f.StreamID == 0 {
					connCredit.Add(int64(f.Increment))
				}
			case *HeadersFrame:
				var hb bytes.Buffer
				enc := hpack.NewEncoder(&hb)
				enc.WriteField(hpack.HeaderField{Name: ":status", Value: "200"})
				fr.WriteHeaders(HeadersFrameParam{StreamID: f.StreamID, BlockFragment: hb.Bytes(), EndHeaders: true})
				chunk := make([]byte, 16<<10)
				for i := 0; i < bodyLen/len(chunk); i++ {
					fr.WriteData(f.StreamID, false, chunk)
				}
				// A PING after the data: its ACK tells us the client has processed the DATA frames.
				fr.WritePing(false, [8]byte{1})
			case *PingFrame:
				if f.IsAck() {
					close(dataSent)
				}
			}
		}
	}()

	tr := &Transport{
		AllowHTTP: true,
		DialTLSContext: func(ctx context.Context, network, addr string, cfg *tls.Config) (net.Conn, error) {
			return net.Dial("tcp", ln.Addr().String())
		},
	}
	defer tr.CloseIdleConnections()
	req, _ := http.NewRequest("GET", "http://"+ln.Addr().String()+"/", nil)
	res, err := tr.RoundTrip(req)
	if err != nil {
		t.Fatal(err)
	}
	select {
	case <-dataSent:
	case <-time.After(5 * time.Second):
		t.Fatal("timeout waiting for the client to receive the body")
	}
	initial := connCredit.Load() // the Transport's initial connection window grant
	res.Body.Close()
	time.Sleep(200 * time.Millisecond)
	afterFirst := connCredit.Load() - initial
	res.Body.Close()
	time.Sleep(200 * time.Millisecond)
	afterSecond := connCredit.Load() - initial
	t.Logf("server sent %d bytes of DATA; connection credit returned: %d after first Close, %d after second Close", bodyLen, afterFirst, afterSecond)
	if afterSecond > bodyLen {
		t.Errorf("connection-level WINDOW_UPDATE increments total %d for %d bytes of DATA: the peer's view of the receive window is %d bytes above its configured size",
			afterSecond, bodyLen, afterSecond-bodyLen)
	}
}
