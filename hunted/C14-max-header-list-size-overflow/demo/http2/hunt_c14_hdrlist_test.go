package http2

import (
	"io"
	"net"
	"net/http"
	"testing"
	"time"
)

// A Transport that advertises SETTINGS_MAX_HEADER_LIST_SIZE >= 2^31 (but not
// the 0xffffffff "unlimited" sentinel) cannot read any response: the
// "header list too large" guard in Framer.readMetaFrame computes
// 2*remainSize in uint32, which wraps to (almost) zero.
func TestHuntC14MaxHeaderListSizeOverflow(t *testing.T) {
	cliConn, srvConn := net.Pipe()
	defer cliConn.Close()
	defer srvConn.Close()

	srv := &Server{}
	go srv.ServeConn(srvConn, &ServeConnOpts{
		Handler: http.HandlerFunc(func(w http.ResponseWriter, r *http.Request) {
			w.Header().Set("X-Reply", "hello")
			io.WriteString(w, "body")
		}),
	})

	tr := &Transport{AllowHTTP: true, MaxHeaderListSize: 1 << 31}
	cc, err := tr.NewClientConn(cliConn)
	if err != nil {
		t.Fatal(err)
	}
	req, _ := http.NewRequest("GET", "http://example.com/", nil)
	done := make(chan struct{})
	go func() {
		defer close(done)
		res, err := cc.RoundTrip(req)
		if err != nil {
			t.Errorf("RoundTrip with MaxHeaderListSize=1<<31: %v", err)
			return
		}
		defer res.Body.Close()
		b, _ := io.ReadAll(res.Body)
		if string(b) != "body" || res.Header.Get("X-Reply") != "hello" {
			t.Errorf("got body %q, X-Reply %q", b, res.Header.Get("X-Reply"))
		}
	}()
	select {
	case <-done:
	case <-time.After(5 * time.Second):
		t.Fatal("timeout")
	}
}

// Same overflow on the server: http.Server.MaxHeaderBytes = 1<<31 makes the
// server tear down the connection for any request whose header block is
// longer than 640 bytes.
func TestHuntC14ServerMaxHeaderBytesOverflow(t *testing.T) {
	cliConn, srvConn := net.Pipe()
	defer cliConn.Close()
	defer srvConn.Close()

	srv := &Server{}
	go srv.ServeConn(srvConn, &ServeConnOpts{
		BaseConfig: &http.Server{MaxHeaderBytes: 1 << 31},
		Handler: http.HandlerFunc(func(w http.ResponseWriter, r *http.Request) {
			io.WriteString(w, r.Header.Get("X-Big"))
		}),
	})

	tr := &Transport{AllowHTTP: true}
	cc, err := tr.NewClientConn(cliConn)
	if err != nil {
		t.Fatal(err)
	}
	big := make([]byte, 2000)
	for i := range big {
		big[i] = 'a' + byte(i%26)
	}
	req, _ := http.NewRequest("GET", "http://example.com/", nil)
	req.Header.Set("X-Big", string(big))
	done := make(chan struct{})
	go func() {
		defer close(done)
		res, err := cc.RoundTrip(req)
		if err != nil {
			t.Errorf("RoundTrip to server with MaxHeaderBytes=1<<31: %v", err)
			return
		}
		defer res.Body.Close()
		b, _ := io.ReadAll(res.Body)
		if string(b) != string(big) {
			t.Errorf("handler saw X-Big of %d bytes, want %d", len(b), len(big))
		}
	}()
	select {
	case <-done:
	case <-time.After(5 * time.Second):
		t.Fatal("timeout")
	}
}
