// Copyright 2026 The Go Authors. All rights reserved.
// Use of this source code is governed by a BSD-style
// license that can be found in the LICENSE file.

package quic

import (
	"testing"

	"golang.org/x/net/internal/quic/quicwire"
)

// RFC 9000 section 19.14: the Maximum Streams field of STREAMS_BLOCKED
// "cannot exceed 2^60 [...] Receipt of a frame that encodes a larger stream ID
// MUST be treated as a connection error of type STREAM_LIMIT_ERROR or
// FRAME_ENCODING_ERROR."
func TestHuntStreamsBlockedTooLarge(t *testing.T) {
	for _, ftype := range []byte{frameTypeStreamsBlockedBidi, frameTypeStreamsBlockedUni} {
		b := quicwire.AppendVarint([]byte{ftype}, 1<<60+1)
		if _, max, n := consumeStreamsBlockedFrame(b); n >= 0 {
			t.Errorf("consumeStreamsBlockedFrame(type %#x, Maximum Streams 2^60+1) = max %d, n %d; want n < 0 as for MAX_STREAMS", ftype, max, n)
		}
		// For comparison, the MAX_STREAMS parser rejects the same value.
		mb := quicwire.AppendVarint([]byte{ftype - frameTypeStreamsBlockedBidi + frameTypeMaxStreamsBidi}, 1<<60+1)
		if _, _, n := consumeMaxStreamsFrame(mb); n >= 0 {
			t.Errorf("consumeMaxStreamsFrame accepted 2^60+1")
		}
	}
}

func TestHuntStreamsBlockedTooLargeConn(t *testing.T) {
	testStreamTypesSynctest(t, "", func(t *testing.T, styp streamType) {
		tc := newTestConn(t, serverSide)
		tc.handshake()
		tc.writeFrames(packetType1RTT, debugFrameStreamsBlocked{
			streamType: styp,
			max:        1<<60 + 1,
		})
		tc.wantFrameType("STREAMS_BLOCKED value is too large",
			packetType1RTT, debugFrameConnectionCloseTransport{})
	})
}
