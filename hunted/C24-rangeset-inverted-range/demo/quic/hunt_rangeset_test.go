package quic

import "testing"

// add and sub only special-case start == end; an inverted range (start > end)
// is stored / applied as is and breaks the sorted, non-empty, disjoint
// invariants (a mathematical set would treat [10,5) as empty).
func TestHuntRangesetInvertedRange(t *testing.T) {
	var s rangeset[int64]
	s.add(10, 5)
	if len(s) != 0 {
		t.Errorf("add(10,5) on the empty set stored %v; size=%d min=%d max=%d", s, s.size(), s.min(), s.max())
	}
	s = nil
	s.add(0, 20)
	s.sub(10, 5)
	if !s.isrange(0, 20) {
		t.Errorf("add(0,20); sub(10,5) = %v, want [0,20) (overlapping ranges, size=%d)", s, s.size())
	}
}
