package html

import (
	"bytes"
	"strings"
	"testing"

	"golang.org/x/net/html/atom"
)

// A text node whose data starts with CR, under <pre>, <listing> or <textarea>,
// does not survive Render followed by Parse: Render emits the CR as "&#13;"
// (so that the tokenizer does not normalize it), but the parser strips a
// leading '\r' (and then also a following '\n') from the first text token of
// these elements. The HTML spec only ignores a LF character token there.
func TestHuntPreLeadingCR(t *testing.T) {
	for _, name := range []string{"pre", "listing", "textarea", "div"} {
		for _, text := range []string{"\rx", "\r\nx"} {
			doc := &Node{Type: DocumentNode}
			h := &Node{Type: ElementNode, Data: "html", DataAtom: atom.Html}
			hd := &Node{Type: ElementNode, Data: "head", DataAtom: atom.Head}
			bd := &Node{Type: ElementNode, Data: "body", DataAtom: atom.Body}
			el := &Node{Type: ElementNode, Data: name, DataAtom: atom.Lookup([]byte(name))}
			doc.AppendChild(h)
			h.AppendChild(hd)
			h.AppendChild(bd)
			bd.AppendChild(el)
			el.AppendChild(&Node{Type: TextNode, Data: text})

			var buf bytes.Buffer
			if err := Render(&buf, doc); err != nil {
				t.Fatal(err)
			}
			d2, err := Parse(bytes.NewReader(buf.Bytes()))
			if err != nil {
				t.Fatal(err)
			}
			e2 := d2.FirstChild.LastChild.FirstChild // html > body > el
			if e2 == nil || e2.Data != name {
				t.Fatalf("%s: unexpected tree for %q", name, buf.String())
			}
			got := ""
			if e2.FirstChild != nil {
				got = e2.FirstChild.Data
			}
			if got != text {
				t.Errorf("<%s>: text %q rendered as %q re-parses as %q", name, text, buf.String(), got)
			}
		}
	}

	// The same through the parser alone: "&#13;" is a CR character token, not
	// the LF that may be ignored at the start of <pre>.
	d, err := Parse(strings.NewReader("<pre>&#13;x</pre>"))
	if err != nil {
		t.Fatal(err)
	}
	pre := d.FirstChild.LastChild.FirstChild
	if got := pre.FirstChild.Data; got != "\rx" {
		t.Errorf("Parse(<pre>&#13;x</pre>): text = %q, want %q", got, "\rx")
	}
}
