//go:build !(go1.27 && !http2legacy)

package http2

import "testing"

// The incremental/non-incremental alternation flag is a single global bit
// that is flipped on every Pop, including Pops that are answered from a more
// urgent level. A more urgent stream that has one frame ready on every other
// Pop keeps the parity locked, and the incremental streams of the lower
// urgency level are never served although they are sendable all the time.
func TestHuntIncrementalStarvedByToggleParity(t *testing.T) {
	const maxFrameSize = 16
	sc := &serverConn{maxFrameSize: maxFrameSize}
	ws := newPriorityWriteSchedulerRFC9218()
	open := func(id uint32, u, i uint8) *stream {
		st := &stream{id: id, sc: sc}
		st.flow.add(1 << 30)
		ws.OpenStream(id, OpenStreamOptions{priority: PriorityParam{urgency: u, incremental: i}})
		return st
	}
	data := func(st *stream, n int) {
		ws.Push(FrameWriteRequest{write: &writeData{streamID: st.id, p: make([]byte, n)}, stream: st})
	}
	urgent := open(1, 0, 0) // u=0
	bulk := open(3, 3, 0)   // u=3, non-incremental, long download
	incr := open(5, 3, 1)   // u=3, incremental
	data(bulk, maxFrameSize*10000)
	data(incr, maxFrameSize*10000)

	served := map[uint32]int{}
	for n := 0; n < 2000; n++ {
		if n%2 == 0 {
			data(urgent, maxFrameSize) // one urgent frame before every other Pop
		}
		wr, ok := ws.Pop()
		if !ok {
			t.Fatal("Pop: nothing")
		}
		served[wr.StreamID()]++
	}
	t.Logf("frames served per stream: %v", served)
	if served[5] == 0 {
		t.Errorf("incremental stream 5 (u=3) was sendable for 2000 Pops and never served, while non-incremental stream 3 of the same urgency got %d frames", served[3])
	}
}
