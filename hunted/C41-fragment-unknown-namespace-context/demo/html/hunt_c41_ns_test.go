package html

import (
	"strings"
	"testing"

	"golang.org/x/net/html/atom"
)

// A context element whose Namespace is neither "", "svg" nor "math" makes
// every non-breakout start tag run into panic("html: bad parser state: unexpected
// namespace"), which parse() turns into an error: no tree is returned.
func TestHuntC41UnknownNamespaceContext(t *testing.T) {
	ctx := &Node{Type: ElementNode, Data: "div", DataAtom: atom.Div, Namespace: "xlink"}
	nodes, err := ParseFragment(strings.NewReader("<g>x</g>"), ctx)
	if err != nil {
		t.Fatalf("ParseFragment(%q, <xlink:div>) = %v, %v; want a tree", "<g>x</g>", nodes, err)
	}
}
