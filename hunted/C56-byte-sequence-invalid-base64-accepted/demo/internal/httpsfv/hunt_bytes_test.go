package httpsfv

import "testing"

// RFC 9651 section 4.2.7 step 7: "If base64 decoding fails, parsing fails."
func TestHuntByteSequenceInvalidBase64(t *testing.T) {
	for _, in := range []string{":=:", ":=a:", ":a=b:", ":====:"} {
		if ParseItem(in, nil) {
			t.Errorf("ParseItem(%q) = true; the content between the colons is not base64", in)
		}
		if ParseList(in, nil) {
			t.Errorf("ParseList(%q) = true", in)
		}
		if ParseDictionary("k="+in, nil) {
			t.Errorf("ParseDictionary(%q) = true", "k="+in)
		}
	}
}
