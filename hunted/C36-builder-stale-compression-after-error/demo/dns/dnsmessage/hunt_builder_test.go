package dnsmessage

import (
	"strings"
	"testing"
)

// A Builder with compression enabled keeps the compression-table entries of a
// resource whose packing failed (the header name was already entered before the
// body failed). The bytes those entries point at are then overwritten by the
// next resource, so a later use of the name is "compressed" to a pointer to
// unrelated data and decodes to a different name.
func TestHuntBuilderStaleCompression(t *testing.T) {
	b := NewBuilder(nil, Header{Response: true})
	b.EnableCompression()
	if err := b.StartAnswers(); err != nil {
		t.Fatal(err)
	}
	victim := MustNewName("a.example.com.")
	other := MustNewName("b.other.org.")

	// Fails cleanly: a TXT string may be at most 255 bytes.
	err := b.TXTResource(ResourceHeader{Name: victim, Class: ClassINET}, TXTResource{TXT: []string{strings.Repeat("x", 256)}})
	if err == nil {
		t.Fatal("expected an error for a 256 byte TXT string")
	}
	// The caller skips the bad record and carries on.
	if err := b.AResource(ResourceHeader{Name: other, Class: ClassINET}, AResource{A: [4]byte{1, 1, 1, 1}}); err != nil {
		t.Fatal(err)
	}
	if err := b.AResource(ResourceHeader{Name: victim, Class: ClassINET}, AResource{A: [4]byte{2, 2, 2, 2}}); err != nil {
		t.Fatal(err)
	}
	buf, err := b.Finish()
	if err != nil {
		t.Fatal(err)
	}
	var m Message
	if err := m.Unpack(buf); err != nil {
		t.Fatalf("Unpack: %v", err)
	}
	if len(m.Answers) != 2 {
		t.Fatalf("got %d answers, want 2", len(m.Answers))
	}
	if got := m.Answers[0].Header.Name; got != other {
		t.Errorf("answer 0 name = %v, want %v", got, other)
	}
	if got := m.Answers[1].Header.Name; got != victim {
		t.Errorf("answer 1 name = %v, want %v (compression changed the decoded name)", got, victim)
	}
}
