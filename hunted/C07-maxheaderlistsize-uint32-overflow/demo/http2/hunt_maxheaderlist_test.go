package http2

import (
	"bytes"
	"testing"

	"golang.org/x/net/http2/hpack"
)

func huntBlockMH(t *testing.T, kv ...string) []byte {
	var b bytes.Buffer
	e := hpack.NewEncoder(&b)
	for i := 0; i < len(kv); i += 2 {
		e.WriteField(hpack.HeaderField{Name: kv[i], Value: kv[i+1]})
	}
	return b.Bytes()
}

func TestHuntMaxHeaderListSizeOverflow(t *testing.T) {
	for _, lim := range []uint32{1 << 20, 1<<31 - 1, 1 << 31, 1<<31 + 1, 1<<32 - 1} {
		var buf bytes.Buffer
		fr := NewFramer(&buf, &buf)
		fr.ReadMetaHeaders = hpack.NewDecoder(4096, nil)
		fr.MaxHeaderListSize = lim
		blk := huntBlockMH(t, ":method", "GET", ":path", "/", ":scheme", "https", ":authority", "x")
		fr.WriteHeaders(HeadersFrameParam{StreamID: 1, BlockFragment: blk, EndHeaders: true, EndStream: true})
		_, err := fr.ReadFrame()
		if err != nil {
			t.Errorf("MaxHeaderListSize=%d: ReadFrame of a %d-byte header block: %v", lim, len(blk), err)
		}
	}
}
