//go:build !(go1.27 && !http2legacy)

package http2_test

import (
	. "golang.org/x/net/http2"
	"io"
	"net/http"
	"testing"
)

// The server is configured with a per-stream receive window smaller than the
// protocol default of 65535. Until the client has acknowledged the server's
// SETTINGS frame, the window the client was told about is still 65535, so
// 2000 bytes of DATA are well within it.
func TestHuntC11PreAckStreamWindow(t *testing.T) { synctestTest(t, testHuntC11PreAckStreamWindow) }
func testHuntC11PreAckStreamWindow(t testing.TB) {
	var got []byte
	st := newServerTester(t, func(w http.ResponseWriter, r *http.Request) {
		got, _ = io.ReadAll(r.Body)
	}, func(s *Server) {
		s.MaxUploadBufferPerStream = 1000
	})
	defer st.Close()
	st.writePreface()
	st.writeSettings()
	// The client does not wait for (let alone acknowledge) the server's SETTINGS.
	st.writeHeaders(HeadersFrameParam{
		StreamID:      1,
		BlockFragment: st.encodeHeader(":method", "POST"),
		EndStream:     false,
		EndHeaders:    true,
	})
	st.writeData(1, true, make([]byte, 2000))
	st.sync()
	for {
		f := st.readFrame()
		if f == nil {
			break
		}
		switch f := f.(type) {
		case *RSTStreamFrame:
			t.Fatalf("DATA within the advertised (default 65535) window: got RST_STREAM %v", f.ErrCode)
		case *GoAwayFrame:
			t.Fatalf("got GOAWAY %v", f.ErrCode)
		}
	}
	if len(got) != 2000 {
		t.Fatalf("handler read %d bytes, want 2000", len(got))
	}
}
