package proxy

import (
	"errors"
	"net"
	"testing"
)

type huntRecDialer struct{ name string }

func (d huntRecDialer) Dial(network, addr string) (net.Conn, error) {
	return nil, errors.New(d.name)
}

// Host names are case-insensitive (RFC 4343), and neither url.Parse nor
// net.SplitHostPort fold case, so the dialed name reaches PerHost as written.
func TestHuntPerHostCaseInsensitive(t *testing.T) {
	for _, tc := range []struct{ cfg, addr string }{
		{"internal.corp", "Internal.Corp:80"},
		{"Internal.Corp", "internal.corp:80"},
		{"*.Example.com", "www.example.com:443"},
		{"*.example.com", "WWW.EXAMPLE.COM:443"},
		{"localhost", "LOCALHOST:8080"},
	} {
		p := NewPerHost(huntRecDialer{"default"}, huntRecDialer{"bypass"})
		p.AddFromString(tc.cfg)
		_, err := p.Dial("tcp", tc.addr)
		if err.Error() != "bypass" {
			t.Errorf("AddFromString(%q); Dial(%q) used the %s dialer, want bypass", tc.cfg, tc.addr, err)
		}
	}
}
