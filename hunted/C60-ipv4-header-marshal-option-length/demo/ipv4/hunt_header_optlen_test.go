package ipv4

import (
	"bytes"
	"net"
	"testing"
)

// Header.Marshal derives IHL from 20+len(Options) by shifting and masking,
// without checking that the options are a multiple of 4 bytes and at most 40
// bytes: the excess bytes are emitted but fall outside the header length, and
// 44 option bytes wrap IHL to 0.
func TestHuntHeaderMarshalOptionLength(t *testing.T) {
	for _, n := range []int{3, 6, 44} {
		h := &Header{
			Version: Version, Len: HeaderLen + n, TotalLen: HeaderLen + n, TTL: 1, Protocol: 1,
			Src: net.IPv4(192, 0, 2, 1), Dst: net.IPv4(192, 0, 2, 2),
			Options: bytes.Repeat([]byte{1}, n), // NOPs
		}
		b, err := h.Marshal()
		if err != nil {
			continue // rejecting is fine
		}
		got, err := ParseHeader(b)
		if err != nil {
			t.Errorf("%d option bytes: Marshal succeeded but ParseHeader: %v", n, err)
			continue
		}
		if got.Len != len(b) || !bytes.Equal(got.Options, h.Options) {
			t.Errorf("%d option bytes: Marshal wrote %d bytes with IHL %d; parsed Len=%d Options=% x", n, len(b), b[0]&0x0f, got.Len, got.Options)
		}
	}
}
