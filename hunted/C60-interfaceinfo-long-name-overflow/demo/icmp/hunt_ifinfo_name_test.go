package icmp

import (
	"net"
	"reflect"
	"strings"
	"testing"

	"golang.org/x/net/internal/iana"
	"golang.org/x/net/ipv4"
)

// InterfaceInfo.marshalName caps the name sub-object at 64 octets but copies
// the whole Interface.Name into the rest of the message buffer, so a name
// longer than 63 bytes spills over the following extension objects. Objects
// that do not rewrite every one of their octets (the padding of a following
// interface name) come out corrupted.
func TestHuntInterfaceInfoLongNameOverflow(t *testing.T) {
	second := &InterfaceInfo{
		Class:     classInterfaceInfo,
		Type:      0x0a, // ifIndex | name
		Interface: &net.Interface{Index: 2, Name: "e"},
	}
	m := &Message{
		Type: ipv4.ICMPTypeTimeExceeded,
		Body: &TimeExceeded{
			Data: make([]byte, 128),
			Extensions: []Extension{
				&InterfaceInfo{
					Class:     classInterfaceInfo,
					Type:      0x0a,
					Interface: &net.Interface{Index: 1, Name: strings.Repeat("A", 100)},
				},
				second,
			},
		},
	}
	b, err := m.Marshal(nil)
	if err != nil {
		t.Fatal(err)
	}
	got, err := ParseMessage(iana.ProtocolICMP, b)
	if err != nil {
		t.Fatal(err)
	}
	exts := got.Body.(*TimeExceeded).Extensions
	if len(exts) != 2 {
		t.Fatalf("got %d extensions, want 2", len(exts))
	}
	if !reflect.DeepEqual(exts[1], second) {
		t.Errorf("second InterfaceInfo: got name %q, want %q", exts[1].(*InterfaceInfo).Interface.Name, second.Interface.Name)
	}
	// The stand-alone encoding of the second object must appear verbatim.
	want, _ := second.Marshal(iana.ProtocolICMP)
	if tail := b[len(b)-len(want):]; !reflect.DeepEqual(tail, want) {
		t.Errorf("second object on the wire = % x, want % x", tail, want)
	}
}

