package http3

import (
	"testing"
	"testing/synctest"
)

// MAX_PUSH_ID is a frame clients are allowed to send on their control stream
// (RFC 9114 section 7.2.7). The server closes the connection with
// H3_FRAME_UNEXPECTED.
func TestHuntC35MaxPushID(t *testing.T) {
	synctest.Test(t, func(t *testing.T) {
		ts := newTestServer(t, nil)
		tc := ts.connect()
		tc.greet()
		tc.control.writeVarint(int64(frameTypeMaxPushID))
		tc.control.writeVarint(1) // length
		tc.control.writeVarint(8) // push ID
		tc.control.Flush()
		tc.wantNotClosed("MAX_PUSH_ID on the client's control stream is legal")
	})
}
