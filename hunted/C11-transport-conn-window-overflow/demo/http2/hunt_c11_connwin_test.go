//go:build !(go1.27 && !http2legacy)

package http2_test

import (
	"math"
	"net/http"
	"testing"

	. "golang.org/x/net/http2"
)

// The Transport adds the whole configured connection receive buffer to the
// connection window with a WINDOW_UPDATE, on top of the 65535 bytes every
// connection starts with. For values above 2^31-1-65535 (accepted by the
// configuration code, which only rejects values outside [65535, MaxInt32])
// the advertised window exceeds 2^31-1, which the peer must answer with a
// FLOW_CONTROL_ERROR connection error, and the Transport's own accounting
// (int32) wraps around to a negative window.
func TestHuntC11TransportConnWindowOverflow(t *testing.T) {
	synctestTest(t, testHuntC11TransportConnWindowOverflow)
}
func testHuntC11TransportConnWindowOverflow(t testing.TB) {
	tc := newTestClientConn(t, func(tr *http.Transport) {
		tr.HTTP2 = &http.HTTP2Config{
			MaxReceiveBufferPerConnection: math.MaxInt32,
		}
	})
	tc.wantFrameType(FrameSettings)
	wu := readFrame[*WindowUpdateFrame](t, tc)
	const initialWindow = 65535
	if total := int64(initialWindow) + int64(wu.Increment); wu.StreamID != 0 || total > math.MaxInt32 {
		t.Fatalf("Transport advertised a connection receive window of 65535+%d = %d > 2^31-1 (RFC 9113 section 6.9.1: flow-control window MUST NOT exceed 2^31-1)", wu.Increment, total)
	}
}
