package http3

import (
	"context"
	"errors"
	"testing"
	"testing/synctest"
)

// The client closes its control stream in the middle of a frame. That is both
// a truncated frame (H3_FRAME_ERROR) and the closure of a critical stream
// (H3_CLOSED_CRITICAL_STREAM); the server notices neither.
func TestHuntC35ControlStreamTruncatedFrame(t *testing.T) {
	synctest.Test(t, func(t *testing.T) {
		ts := newTestServer(t, nil)
		tc := ts.connect()
		tc.greet()
		tc.control.writeVarint(0x21) // unknown frame type
		tc.control.writeVarint(100)  // 100 bytes of payload announced
		tc.control.Write([]byte("only this"))
		tc.control.Flush()
		tc.control.stream.stream.CloseWrite()
		synctest.Wait()
		if err := tc.qconn.Wait(canceledCtx); errors.Is(err, context.Canceled) {
			t.Errorf("control stream ended inside a frame: connection is still open; want H3_FRAME_ERROR or H3_CLOSED_CRITICAL_STREAM")
		}
	})
}
