package icmp_test

import (
	"bytes"
	"net"
	"testing"

	"golang.org/x/net/icmp"
	"golang.org/x/net/internal/iana"
	"golang.org/x/net/ipv4"
)

func rfc1071(b []byte) uint16 {
	var s uint32
	for i := 0; i+1 < len(b); i += 2 {
		s += uint32(b[i])<<8 | uint32(b[i+1])
	}
	if len(b)%2 == 1 {
		s += uint32(b[len(b)-1]) << 8
	}
	for s>>16 != 0 {
		s = s&0xffff + s>>16
	}
	return ^uint16(s)
}

// A caller that handles both families with one code path passes the IPv6
// pseudo header unconditionally. The doc says "For an ICMPv4 message, the
// returned message always contains the calculated checksum field".
func TestHuntICMPv4MarshalWithPSH(t *testing.T) {
	psh := icmp.IPv6PseudoHeader(net.ParseIP("fe80::1"), net.ParseIP("ff02::1"))
	m := icmp.Message{
		Type: ipv4.ICMPTypeEcho, Code: 0,
		Body: &icmp.Echo{ID: 1, Seq: 2, Data: bytes.Repeat([]byte{0xab}, 64)},
	}
	want, err := m.Marshal(nil)
	if err != nil {
		t.Fatal(err)
	}
	var got []byte
	func() {
		defer func() {
			if r := recover(); r != nil {
				t.Fatalf("Marshal(psh) of an ICMPv4 message panicked: %v", r)
			}
		}()
		got, err = m.Marshal(psh)
	}()
	if err != nil {
		return // a clean error would be acceptable
	}
	if !bytes.Equal(got, want) {
		t.Errorf("ICMPv4 Marshal(psh) = %d bytes %x\nwant (same as Marshal(nil)) %d bytes %x", len(got), got, len(want), want)
	}
	if rfc1071(got) != 0 {
		t.Errorf("ICMPv4 output does not carry a valid RFC 1071 checksum")
	}
	if pm, err := icmp.ParseMessage(iana.ProtocolICMP, got); err != nil || pm.Type != ipv4.ICMPTypeEcho {
		t.Errorf("ParseMessage of the output: %v, %v", pm, err)
	}
}

func TestHuntICMPv4MarshalWithPSHShort(t *testing.T) {
	psh := icmp.IPv6PseudoHeader(net.ParseIP("fe80::1"), net.ParseIP("ff02::1"))
	m := icmp.Message{Type: ipv4.ICMPTypeEcho, Body: &icmp.Echo{ID: 1, Seq: 2, Data: []byte("hi")}}
	defer func() {
		if r := recover(); r != nil {
			t.Fatalf("Marshal(psh) of an ICMPv4 message panicked: %v", r)
		}
	}()
	m.Marshal(psh)
}
