package webdav

import (
	"context"
	"io"
	"net/http/httptest"
	"os"
	"strings"
	"testing"
)

// A dead property whose value contains a child element with the same expanded
// name as the property itself is well-formed XML and a legal RFC 4918 value,
// but PROPPATCH rejects it with 400 and nothing is stored.
func TestHuntC47NestedSameName(t *testing.T) {
	fs := NewMemFS()
	f, err := fs.OpenFile(context.Background(), "/f", os.O_RDWR|os.O_CREATE, 0666)
	if err != nil {
		t.Fatal(err)
	}
	f.Close()
	h := &Handler{FileSystem: fs, LockSystem: NewMemLS()}
	do := func(method, body string) (int, string) {
		req := httptest.NewRequest(method, "/f", strings.NewReader(body))
		req.Header.Set("Depth", "0")
		rec := httptest.NewRecorder()
		h.ServeHTTP(rec, req)
		b, _ := io.ReadAll(rec.Result().Body)
		return rec.Code, string(b)
	}
	code, out := do("PROPPATCH", `<?xml version="1.0"?>`+
		`<D:propertyupdate xmlns:D="DAV:" xmlns:x="urn:x"><D:set><D:prop>`+
		`<x:item><x:item>inner</x:item>tail</x:item>`+
		`</D:prop></D:set></D:propertyupdate>`)
	if code != StatusMulti {
		t.Errorf("PROPPATCH of a well-formed value: status %d %q, want 207", code, out)
	}
	code, out = do("PROPFIND", `<D:propfind xmlns:D="DAV:" xmlns:x="urn:x"><D:prop><x:item/></D:prop></D:propfind>`)
	if code != StatusMulti || !strings.Contains(out, "inner") || !strings.Contains(out, "tail") {
		t.Errorf("PROPFIND did not return the value set: %d %s", code, out)
	}
}
