package icmp

import (
	"reflect"
	"strings"
	"testing"

	"golang.org/x/net/internal/iana"
	"golang.org/x/net/ipv4"
)

// Same flaw in InterfaceIdent.marshal for interface identification by name:
// Len caps the name at 255 octets, marshal copies all of it.
func TestHuntInterfaceIdentLongNameOverflow(t *testing.T) {
	second := &InterfaceIdent{Class: classInterfaceIdent, Type: typeInterfaceByName, Name: "e"}
	m := &Message{
		Type: ipv4.ICMPTypeExtendedEchoRequest,
		Body: &ExtendedEchoRequest{
			ID: 1, Seq: 2, Local: true,
			Extensions: []Extension{
				&InterfaceIdent{Class: classInterfaceIdent, Type: typeInterfaceByName, Name: strings.Repeat("A", 300)},
				second,
			},
		},
	}
	b, err := m.Marshal(nil)
	if err != nil {
		t.Fatal(err)
	}
	got, err := ParseMessage(iana.ProtocolICMP, b)
	if err != nil {
		t.Fatal(err)
	}
	exts := got.Body.(*ExtendedEchoRequest).Extensions
	if len(exts) != 2 {
		t.Fatalf("got %d extensions, want 2", len(exts))
	}
	if !reflect.DeepEqual(exts[1], second) {
		t.Errorf("second InterfaceIdent: got name %q, want %q", exts[1].(*InterfaceIdent).Name, second.Name)
	}
}
