package http3

import (
	"io"
	"net/http"
	"testing"
	"testing/synctest"
)

// The request stream ends in the middle of a frame header (the type varint is
// there, the length varint is not). The body reader reports a clean EOF.
func TestHuntC35TruncatedFrameHeader(t *testing.T) {
	synctest.Test(t, func(t *testing.T) {
		var body []byte
		var rerr error
		done := make(chan struct{})
		ts := newTestServer(t, http.HandlerFunc(func(w http.ResponseWriter, r *http.Request) {
			body, rerr = io.ReadAll(r.Body)
			close(done)
		}))
		tc := ts.connect()
		tc.greet()
		rs := tc.newStream(streamTypeRequest)
		rs.writeHeaders(requestHeader(nil))
		rs.writeData([]byte("hello"))
		rs.writeVarint(int64(frameTypeData)) // frame type only; the stream ends before the length
		rs.Flush()
		rs.stream.stream.CloseWrite()
		synctest.Wait()
		<-done
		if rerr == nil {
			t.Errorf("request body ending in a truncated frame: read %q, err = nil; want an H3_FRAME_ERROR failure", body)
		}
	})
}
