package webdav

import (
	"net/http"
	"net/http/httptest"
	"os"
	"path/filepath"
	"testing"
)

// COPY /a -> /a/b (Depth: infinity, the default) on the on-disk Dir file
// system. RFC 4918 section 9.8.3 warns that this "could lead to infinite
// recursion if not handled correctly".
func TestHuntCopyIntoOwnSubtree(t *testing.T) {
	root := t.TempDir()
	if err := os.Mkdir(filepath.Join(root, "a"), 0777); err != nil {
		t.Fatal(err)
	}
	if err := os.WriteFile(filepath.Join(root, "a", "f"), []byte("payload"), 0666); err != nil {
		t.Fatal(err)
	}

	h := &Handler{FileSystem: Dir(root), LockSystem: NewMemLS()}
	req := httptest.NewRequest("COPY", "/a", nil)
	req.Header.Set("Destination", "/a/b")
	rec := httptest.NewRecorder()
	h.ServeHTTP(rec, req)
	if rec.Code != http.StatusCreated && rec.Code != http.StatusForbidden {
		t.Errorf("COPY /a -> /a/b: status %d %q, want 201 (or a 403 refusal)", rec.Code, rec.Body.String())
	}
	// The source collection had exactly one member, the file f; a correct
	// copy (or a refusal) never produces /a/b/b.
	depth := 0
	for p := filepath.Join(root, "a", "b"); ; p = filepath.Join(p, "b") {
		if _, err := os.Stat(p); err != nil {
			break
		}
		depth++
	}
	if depth > 1 {
		t.Errorf("COPY /a -> /a/b recursed into its own output: %d nested copies a/b/b/... on disk", depth)
	}
}
