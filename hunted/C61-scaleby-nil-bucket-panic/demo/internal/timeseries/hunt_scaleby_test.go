package timeseries

import (
	"testing"
	"time"
)

// ScaleBy dereferences every bucket of every level, but buckets are
// allocated lazily (only by mergeValue), so ScaleBy panics unless every
// bucket of every level has already received an observation.
func TestHuntScaleByNilBucket(t *testing.T) {
	ts := NewTimeSeries(NewFloat)
	f := Float(3)
	ts.AddWithTime(&f, time.Unix(1000, 0))
	ts.ScaleBy(2) // nil pointer dereference
	if got := ts.Total().(*Float).Value(); got != 6 {
		t.Fatalf("Total after ScaleBy(2) = %v, want 6", got)
	}
}
