package http2

import (
	"testing"

	"golang.org/x/net/internal/httpsfv"
)

// RFC 9651 section 4.2.2 step 2.6/2.7: when a dictionary key occurs more than
// once, the later member overwrites the earlier one ("all but the last
// instance are ignored", section 3.2). So the dictionary "u=5, u=9" is {u: 9}.
// RFC 9218 section 4.1 then ignores the out-of-range urgency 9 and the default
// urgency (3) applies. parseRFC9218Priority instead keeps the first, shadowed
// member.
func TestHuntPriorityDuplicateKey(t *testing.T) {
	// What RFC 9651 yields for the dictionary: last instance wins.
	for _, tc := range []struct {
		in      string
		wantU   uint8
		wantInc uint8
	}{
		{"u=5, u=9", 3, 0}, // dict {u:9}: out of range -> ignored -> default 3
		{"u=5, u=a", 3, 0}, // dict {u:a}: wrong type   -> ignored -> default 3
		{"i, i=1", 3, 0},   // dict {i:1}: integer, not boolean -> ignored -> default not incremental
	} {
		dict := map[string]string{}
		if !httpsfv.ParseDictionary(tc.in, func(k, v, _ string) { dict[k] = v }) {
			t.Fatalf("ParseDictionary(%q) failed", tc.in)
		}
		p, ok := parseRFC9218Priority(tc.in, true)
		if !ok {
			t.Fatalf("parseRFC9218Priority(%q) not ok", tc.in)
		}
		if p.urgency != tc.wantU || p.incremental != tc.wantInc {
			t.Errorf("parseRFC9218Priority(%q) = urgency %d incremental %d; RFC 9651 dictionary is %v, so want urgency %d incremental %d",
				tc.in, p.urgency, p.incremental, dict, tc.wantU, tc.wantInc)
		}
	}
}
