package http3

import (
	"context"
	"errors"
	"net/http"
	"testing"
	"testing/synctest"

	"golang.org/x/net/quic"
)

// huntWantFrameError checks that the peer signalled H3_FRAME_ERROR, either as a
// connection error (what RFC 9114 asks for) or at least as the stream's reset code.
func huntWantFrameError(t *testing.T, tc *testServerConn, rs *testQUICStream, what string) {
	t.Helper()
	synctest.Wait()
	cerr := tc.qconn.Wait(canceledCtx)
	if errors.Is(cerr, &quic.ApplicationError{Code: uint64(errH3FrameError)}) {
		return
	}
	_, serr := rs.stream.stream.ReadByte()
	var code quic.StreamErrorCode
	if errors.As(serr, &code) && uint64(code) == uint64(errH3FrameError) {
		return
	}
	if errors.Is(cerr, context.Canceled) {
		cerr = nil
	}
	t.Errorf("%s: connection error = %v, stream error = %v; want H3_FRAME_ERROR (0x%x)", what, cerr, serr, int(errH3FrameError))
}

func TestHuntC35FrameErrorCode(t *testing.T) {
	t.Run("truncated HEADERS payload", func(t *testing.T) {
		synctest.Test(t, func(t *testing.T) {
			ts := newTestServer(t, http.HandlerFunc(func(w http.ResponseWriter, r *http.Request) {}))
			tc := ts.connect()
			tc.greet()
			rs := tc.newStream(streamTypeRequest)
			hdr := rs.encodeHeaders(requestHeader(nil))
			rs.writeVarint(int64(frameTypeHeaders))
			rs.writeVarint(int64(len(hdr)) + 10) // frame claims 10 more bytes than the stream carries
			rs.Write(hdr)
			rs.Flush()
			rs.stream.stream.CloseWrite()
			huntWantFrameError(t, tc, rs, "HEADERS frame truncated by end of stream")
		})
	})
	t.Run("over-read HEADERS payload", func(t *testing.T) {
		synctest.Test(t, func(t *testing.T) {
			ts := newTestServer(t, http.HandlerFunc(func(w http.ResponseWriter, r *http.Request) {}))
			tc := ts.connect()
			tc.greet()
			rs := tc.newStream(streamTypeRequest)
			rs.writeVarint(int64(frameTypeHeaders))
			rs.writeVarint(0) // empty frame: the field section prefix lies beyond the frame
			rs.writeHeaders(requestHeader(nil))
			huntWantFrameError(t, tc, rs, "HEADERS frame shorter than its content")
		})
	})
}
