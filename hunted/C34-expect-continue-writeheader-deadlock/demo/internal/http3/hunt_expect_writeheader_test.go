// Copyright 2025 The Go Authors. All rights reserved.
// Use of this source code is governed by a BSD-style
// license that can be found in the LICENSE file.

package http3

import (
	"context"
	"errors"
	"io"
	"net/http"
	"testing"
	"testing/synctest"
)

// A handler that picks its status first and then reads the request body
// (valid with net/http's HTTP/1 and HTTP/2 servers, which still send the
// "100 Continue") deadlocks with an "Expect: 100-continue" client: the
// WriteHeader(200) is only buffered, and it also suppresses the 100, so the
// client (which sends the body only after a 100 or gives up on a final
// response) never sees anything while the handler waits for the body.
func TestHuntExpectContinueAfterWriteHeaderDeadlock(t *testing.T) {
	synctest.Test(t, func(t *testing.T) {
		ts := newTestServer(t, http.HandlerFunc(func(w http.ResponseWriter, r *http.Request) {
			w.WriteHeader(200)
			body, _ := io.ReadAll(r.Body)
			w.Write(body)
		}))
		tc := ts.connect()
		tc.greet()

		reqStream := tc.newStream(streamTypeRequest)
		reqStream.writeHeaders(requestHeader(http.Header{
			"expect": {"100-continue"},
		}))

		// The handler is now blocked reading the body. A well-behaved client
		// waits for a 100 (or a final response) before sending it.
		synctest.Wait()
		qs := reqStream.stream.stream
		qs.SetReadContext(canceledCtx)
		_, err := qs.Read(make([]byte, 1))
		qs.SetReadContext(nil)
		if errors.Is(err, context.Canceled) {
			t.Errorf("handler is blocked in r.Body.Read but the server sent neither a 100 Continue nor the final response headers: client and handler wait for each other forever")
		}

		// Unblock the handler so the test can finish.
		reqStream.writeData([]byte("body"))
		reqStream.stream.stream.CloseWrite()
	})
}
