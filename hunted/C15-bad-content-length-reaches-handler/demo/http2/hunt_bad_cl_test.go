//go:build !(go1.27 && !http2legacy)

package http2_test

import (
	"net/http"
	"testing"

	. "golang.org/x/net/http2"
)

// Requests whose content-length field is malformed (RFC 9113 section 8.1.1: the
// value does not equal the sum of the DATA payload lengths; RFC 9110 section 8.6:
// not a decimal number / conflicting duplicates) must be rejected with a stream
// error of type PROTOCOL_ERROR and must not reach the handler.
func huntBadCL(t *testing.T, send func(st *serverTester)) {
	synctestTest(t, func(t testing.TB) {
		st := newServerTester(t, func(w http.ResponseWriter, r *http.Request) {
			t.Errorf("malformed request reached the handler: ContentLength=%d Header[Content-Length]=%q",
				r.ContentLength, r.Header["Content-Length"])
		}, optQuiet)
		defer st.Close()
		st.greet()
		send(st)
		st.wantRSTStream(1, ErrCodeProtocol)
	})
}

// content-length: 5 on a request that ends with the HEADERS frame (0 bytes of DATA).
func TestHuntBadContentLength_NonZeroWithEndStream(t *testing.T) {
	huntBadCL(t, func(st *serverTester) {
		st.writeHeaders(HeadersFrameParam{
			StreamID:      1,
			BlockFragment: st.encodeHeader(":method", "POST", "content-length", "5"),
			EndStream:     true,
			EndHeaders:    true,
		})
	})
}

// content-length: abc (not a number) on a request with an (empty) body.
func TestHuntBadContentLength_NotANumber(t *testing.T) {
	huntBadCL(t, func(st *serverTester) {
		st.writeHeaders(HeadersFrameParam{
			StreamID:      1,
			BlockFragment: st.encodeHeader(":method", "POST", "content-length", "abc"),
			EndStream:     false,
			EndHeaders:    true,
		})
		st.writeData(1, true, nil)
	})
}

// Two different content-length fields: only the first is looked at.
func TestHuntBadContentLength_ConflictingDuplicates(t *testing.T) {
	huntBadCL(t, func(st *serverTester) {
		st.writeHeaders(HeadersFrameParam{
			StreamID:      1,
			BlockFragment: st.encodeHeader(":method", "POST", "content-length", "3", "content-length", "4"),
			EndStream:     false,
			EndHeaders:    true,
		})
		st.writeData(1, true, []byte("abc"))
	})
}
