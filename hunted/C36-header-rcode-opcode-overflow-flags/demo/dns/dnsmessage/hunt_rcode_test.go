package dnsmessage

import "testing"

// Header.pack ORs RCode and OpCode into the flag word without masking them to
// their 4-bit fields, so values above 15 (RCode is also the type of the 12-bit
// extended RCodes returned by ResourceHeader.ExtendedRCode, e.g. 16 = BADVERS)
// silently flip unrelated header flags.
func TestHuntHeaderRCodeOverflow(t *testing.T) {
	for _, h := range []Header{
		{RCode: RCode(16)},  // BADVERS / BADSIG
		{OpCode: OpCode(16)},
	} {
		m := Message{Header: h}
		buf, err := m.Pack()
		if err != nil {
			continue // rejecting the header would be fine
		}
		var got Message
		if err := got.Unpack(buf); err != nil {
			t.Fatal(err)
		}
		if got.Header != h {
			t.Errorf("Unpack(Pack(%#v)).Header =\n\t%#v", &h, &got.Header)
		}
	}
}
