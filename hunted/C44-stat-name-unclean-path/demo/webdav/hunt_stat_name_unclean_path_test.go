package webdav

import (
	"context"
	"testing"
)

// Stat of an unclean name reports the last element of the unclean name
// instead of the name of the entry that was found.
func TestHuntStatNameUncleanPath(t *testing.T) {
	ctx := context.Background()
	for _, fs := range []FileSystem{Dir(t.TempDir()), NewMemFS()} {
		if err := fs.Mkdir(ctx, "/a", 0777); err != nil {
			t.Fatal(err)
		}
		if err := fs.Mkdir(ctx, "/a/b", 0777); err != nil {
			t.Fatal(err)
		}
		for _, name := range []string{"/a/b/..", "/a/.", "/a/b/../."} {
			fi, err := fs.Stat(ctx, name)
			if err != nil {
				t.Fatalf("%T: Stat(%q): %v", fs, name, err)
			}
			if got := fi.Name(); got != "a" {
				t.Errorf("%T: Stat(%q).Name() = %q, want %q", fs, name, got, "a")
			}
		}
	}
}
