package webdav

import (
	"context"
	"os"
	"testing"
)

// A directory handle lists the children that existed when it was opened, not
// the ones that exist when Readdir is called.
func TestHuntReaddirSnapshot(t *testing.T) {
	ctx := context.Background()
	for _, fs := range []FileSystem{Dir(t.TempDir()), NewMemFS()} {
		d, err := fs.OpenFile(ctx, "/", os.O_RDONLY, 0)
		if err != nil {
			t.Fatal(err)
		}
		if err := fs.Mkdir(ctx, "/a", 0777); err != nil {
			t.Fatal(err)
		}
		fis, err := d.Readdir(-1)
		if err != nil || len(fis) != 1 {
			t.Errorf("%T: Readdir after Mkdir = %d entries, %v; want 1 entry", fs, len(fis), err)
		}
		d.Close()
	}
}
