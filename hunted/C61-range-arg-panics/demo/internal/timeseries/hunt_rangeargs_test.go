package timeseries

import (
	"testing"
	"time"
)

func huntNoPanic(t *testing.T, name string, f func()) {
	defer func() {
		if r := recover(); r != nil {
			t.Errorf("%s panicked: %v", name, r)
		}
	}()
	f()
}

// ComputeRange / LatestBuckets validate their arguments (they log and return
// nil for bad ones) but the checks are off by one, and Range indexes the nil
// slice ComputeRange returns for start > finish.
func TestHuntRangeArgPanics(t *testing.T) {
	ts := NewTimeSeries(NewFloat)
	f := Float(3)
	ts.AddWithTime(&f, time.Unix(1000, 0))
	huntNoPanic(t, "ComputeRange(num=0)", func() { ts.ComputeRange(time.Unix(990, 0), time.Unix(1000, 0), 0) })
	huntNoPanic(t, "RecentList(num=0)", func() { ts.RecentList(time.Minute, 0) })
	huntNoPanic(t, "LatestBuckets(level=len(levels))", func() { ts.LatestBuckets(len(timeSeriesResolutions), 1) })
	huntNoPanic(t, "Range(start>finish)", func() { ts.Range(time.Unix(1000, 0), time.Unix(990, 0)) })
	huntNoPanic(t, "Recent(-1s)", func() { ts.Recent(-time.Second) })
}
