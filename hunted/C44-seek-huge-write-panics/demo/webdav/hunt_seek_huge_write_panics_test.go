package webdav

import (
	"context"
	"os"
	"testing"
)

// Seeking far past the end and writing one byte panics (makeslice: len out
// of range) instead of returning an error.
func TestHuntSeekHugeWritePanics(t *testing.T) {
	ctx := context.Background()
	fs := NewMemFS()
	f, err := fs.OpenFile(ctx, "/f", os.O_RDWR|os.O_CREATE, 0666)
	if err != nil {
		t.Fatal(err)
	}
	if _, err := f.Seek(1<<62, 0); err != nil {
		t.Skipf("Seek rejected: %v", err)
	}
	defer func() {
		if r := recover(); r != nil {
			t.Errorf("Write after Seek(1<<62) panicked: %v", r)
		}
	}()
	_, err = f.Write([]byte("x"))
	t.Logf("Write: %v", err)
}
