package hpack

import (
	"bytes"
	"testing"
)

// After SetAllowedMaxDynamicTableSize lowers the allowed maximum below the
// current maximum, the decoder keeps the larger table and keeps growing it:
// neither the call itself nor a following header block without a size update
// brings the table under the allowed maximum.
func TestHuntAllowedMaxLoweredNotEnforced(t *testing.T) {
	d := NewDecoder(4096, func(HeaderField) {})
	var buf bytes.Buffer
	e := NewEncoder(&buf)
	for i := 0; i < 20; i++ {
		e.WriteField(HeaderField{Name: "x-custom-header-name", Value: string(rune('a'+i)) + "-some-long-header-value-to-fill-the-table"})
	}
	if _, err := d.DecodeFull(buf.Bytes()); err != nil {
		t.Fatal(err)
	}
	const allowed = 100
	d.SetAllowedMaxDynamicTableSize(allowed)
	if d.dynTab.size > allowed {
		t.Errorf("after SetAllowedMaxDynamicTableSize(%d): dynamic table size = %d", allowed, d.dynTab.size)
	}
	// The peer goes on without ever sending a dynamic table size update.
	buf.Reset()
	for i := 0; i < 20; i++ {
		e.WriteField(HeaderField{Name: "x-another-header-name", Value: string(rune('a'+i)) + "-some-long-header-value-to-fill-the-table"})
	}
	_, err := d.DecodeFull(buf.Bytes())
	if err == nil && d.dynTab.size > allowed {
		t.Errorf("next header block accepted without a size update: dynamic table size = %d > allowed maximum %d (max size %d)", d.dynTab.size, allowed, d.dynTab.maxSize)
	}
}
