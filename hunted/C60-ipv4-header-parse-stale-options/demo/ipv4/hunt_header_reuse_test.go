package ipv4

import (
	"net"
	"testing"
)

// Header.Parse supports re-using a Header (it recycles h.Options when the
// capacity suffices) but never clears h.Options when the parsed header has no
// options, so the options of the previously parsed packet stick to every
// later option-less header.
func TestHuntHeaderParseStaleOptions(t *testing.T) {
	withOpts := &Header{
		Version: Version, Len: HeaderLen + 4, TotalLen: 24, TTL: 1, Protocol: 1,
		Src: net.IPv4(192, 0, 2, 1), Dst: net.IPv4(192, 0, 2, 2),
		Options: []byte{0x94, 0x04, 0x00, 0x00}, // router alert
	}
	plain := &Header{
		Version: Version, Len: HeaderLen, TotalLen: 20, TTL: 1, Protocol: 1,
		Src: net.IPv4(192, 0, 2, 1), Dst: net.IPv4(192, 0, 2, 2),
	}
	b1, err := withOpts.Marshal()
	if err != nil {
		t.Fatal(err)
	}
	b2, err := plain.Marshal()
	if err != nil {
		t.Fatal(err)
	}
	var h Header
	if err := h.Parse(b1); err != nil {
		t.Fatal(err)
	}
	if err := h.Parse(b2); err != nil {
		t.Fatal(err)
	}
	if h.Len != HeaderLen {
		t.Fatalf("Len = %d, want %d", h.Len, HeaderLen)
	}
	if len(h.Options) != 0 {
		t.Errorf("Parse of a 20-byte header left Options = % x (from the previous packet)", h.Options)
	}
	// And the re-marshalled header is no longer the one that was parsed.
	b3, err := h.Marshal()
	if err != nil {
		t.Fatal(err)
	}
	if len(b3) != len(b2) {
		t.Errorf("Marshal(Parse(b)) is %d bytes, b is %d bytes", len(b3), len(b2))
	}
}
