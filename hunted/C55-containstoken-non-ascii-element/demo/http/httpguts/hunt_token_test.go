package httpguts

import "testing"

func TestHuntContainsTokenNonASCII(t *testing.T) {
	for _, tok := range []string{"caf\u00e9", "\xff", "a\x80"} {
		if !HeaderValuesContainsToken([]string{"x, " + tok + " ,y"}, tok) {
			t.Errorf("HeaderValuesContainsToken([%q], %q) = false although the element equals the token byte for byte", "x, "+tok+" ,y", tok)
		}
	}
}
