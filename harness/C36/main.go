//go:build verif

// C36 harness: messages generated structurally, packed with Message.Pack and
// with the Builder (with / without compression), unpacked again.
package main

import (
	"fmt"

	vu "golang.org/x/net/internal/verifutil"
)

func genNames(r *vu.Rng) string {
	p := &namePool{}
	ill := r.Chance(1, 5)
	k := 1 + r.Intn(6)
	if r.Chance(1, 25) { // deep nesting
		k = r.Range(9, 14)
	}
	comp := 1
	if r.Chance(1, 4) {
		comp = 0
	}
	s := fmt.Sprintf("pnames %d %d", comp, k)
	for i := 0; i < k; i++ {
		gap := r.Bytes(r.Intn(4))
		if r.Chance(1, 30) {
			gap = r.Bytes(r.Range(16380, 16390) / (1 + r.Intn(2)))
		}
		var n string
		if k >= 9 && !ill {
			// nested chain
			if i == 0 {
				n = "a."
			} else {
				n = string(r.BytesFrom("abc", 1)) + "." + p.names[len(p.names)-1]
			}
			p.names = append(p.names, n)
		} else {
			n = p.gen(r, ill)
		}
		s += " " + vu.Hex(gap) + " " + hexS(n)
	}
	return s
}

func gen(r *vu.Rng, i int) []string {
	switch k := r.Intn(100); {
	case k < 25:
		return []string{genNames(r)}
	case k < 28:
		m := genChainMessage(r, r.Range(9, 14))
		return []string{"rt " + m, "build 1 " + fmt.Sprint(r.Intn(5)) + " " + m, "build 0 0 " + m}
	default:
		m := genMessage(r, r.Chance(1, 5))
		pre := r.Intn(4)
		if r.Chance(1, 10) {
			pre = r.Intn(600)
		}
		return []string{"rt " + m, fmt.Sprintf("build 1 %d %s", pre, m), fmt.Sprintf("build 0 %d %s", r.Intn(4), m)}
	}
}

func main() { vu.Main(gen, exec) }
