//go:build verif

// C36 harness: messages generated structurally, packed with Message.Pack and
// with the Builder (with / without compression), unpacked again.
package main

import (
	"fmt"
	"strings"

	vu "golang.org/x/net/internal/verifutil"
)

func genNames(r *vu.Rng) string {
	p := &namePool{}
	ill := r.Chance(1, 5)
	k := 1 + r.Intn(6)
	if r.Chance(1, 25) { // deep nesting
		k = r.Range(9, 14)
	}
	comp := 1
	if r.Chance(1, 4) {
		comp = 0
	}
	s := fmt.Sprintf("pnames %d %d", comp, k)
	for i := 0; i < k; i++ {
		gap := r.Bytes(r.Intn(4))
		if r.Chance(1, 30) {
			gap = r.Bytes(r.Range(16380, 16390) / (1 + r.Intn(2)))
		}
		var n string
		if k >= 9 && !ill {
			// nested chain
			if i == 0 {
				n = "a."
			} else {
				n = string(r.BytesFrom("abc", 1)) + "." + p.names[len(p.names)-1]
			}
			p.names = append(p.names, n)
		} else {
			n = p.gen(r, ill)
		}
		s += " " + vu.Hex(gap) + " " + hexS(n)
	}
	return s
}

// genBSeq: a Builder call sequence - mostly in order, sometimes with calls out of order, repeated
// or after Finish, sometimes with a failing record in the middle (the Builder is used further).
func genBSeq(r *vu.Rng) string {
	p := &namePool{}
	fl := ""
	for i := 0; i < 7; i++ {
		fl += bit(r.Bool())
	}
	var ops []string
	add := func(s string) { ops = append(ops, s) }
	if r.Chance(2, 3) {
		add("C")
	}
	chaos := r.Chance(1, 4)
	illRec := r.Chance(1, 5)
	rec := func(q bool) {
		ill := illRec && r.Chance(1, 3)
		if q {
			add(fmt.Sprintf("Q %s %d %d", hexS(p.gen(r, ill)), typePool[r.Intn(len(typePool))], []int{1, 1, 255, 3}[r.Intn(4)]))
		} else {
			add("R " + genResource(r, p, ill))
		}
	}
	for sec := 2; sec <= 5; sec++ {
		if r.Chance(1, 6) {
			continue // sections may be skipped
		}
		add(fmt.Sprintf("S%d", sec))
		for k, n := 0, r.Intn(4); k < n; k++ {
			rec(sec == 2)
			if chaos && r.Chance(1, 4) {
				switch r.Intn(5) {
				case 0:
					add(fmt.Sprintf("S%d", 2+r.Intn(4)))
				case 1:
					rec(sec != 2) // wrong kind for the section
				case 2:
					add("C") // resets the map in the middle
				case 3:
					add("F")
				default:
					add(fmt.Sprintf("S%d", sec))
				}
			}
		}
	}
	if !chaos || r.Chance(3, 4) {
		add("F")
	}
	if chaos && r.Bool() {
		rec(r.Bool())
		add("S3")
		add("F")
	}
	if chaos && r.Chance(1, 4) { // calls before any Start
		ops = append([]string{"R " + genResource(r, p, false), "Q " + hexS("a.") + " 1 1"}, ops...)
	}
	op, rc := r.Intn(16), r.Intn(16)
	return fmt.Sprintf("bseq %d %d %s %d %d %d %s", r.Intn(5), genU16(r), fl, op, rc, len(ops), strings.Join(ops, " "))
}

func gen(r *vu.Rng, i int) []string {
	switch k := r.Intn(100); {
	case k < 25:
		return []string{genNames(r)}
	case k < 45:
		return []string{genBSeq(r)}
	case k < 48:
		m := genChainMessage(r, r.Range(9, 14))
		return []string{"rt " + m, "build 1 " + fmt.Sprint(r.Intn(5)) + " " + m, "build 0 0 " + m}
	default:
		m := genMessage(r, r.Chance(1, 5))
		pre := r.Intn(4)
		if r.Chance(1, 10) {
			pre = r.Intn(600)
		}
		return []string{"rt " + m, fmt.Sprintf("build 1 %d %s", pre, m), fmt.Sprintf("build 0 %d %s", r.Intn(4), m)}
	}
}

func main() { vu.Main(gen, exec) }
