//go:build verif

// White-box shims for the C36/C37 harness, injected into package dnsmessage
// with `go build -overlay` (never committed to /repo).
package dnsmessage

// VerifErrTag maps an error of this package to a small fixed enum: the
// innermost error of the nestedError chain.
func VerifErrTag(err error) string {
	for {
		ne, ok := err.(*nestedError)
		if !ok {
			break
		}
		err = ne.err
	}
	switch err {
	case nil:
		return "nil"
	case ErrNotStarted:
		return "NotStarted"
	case ErrSectionDone:
		return "SectionDone"
	case errBaseLen:
		return "BaseLen"
	case errCalcLen:
		return "CalcLen"
	case errReserved:
		return "Reserved"
	case errTooManyPtr:
		return "TooManyPtr"
	case errInvalidPtr:
		return "InvalidPtr"
	case errInvalidName:
		return "InvalidName"
	case errNilResouceBody:
		return "NilResourceBody"
	case errResourceLen:
		return "ResourceLen"
	case errSegTooLong:
		return "SegTooLong"
	case errNameTooLong:
		return "NameTooLong"
	case errZeroSegLen:
		return "ZeroSegLen"
	case errResTooLong:
		return "ResTooLong"
	case errTooManyQuestions:
		return "TooManyQuestions"
	case errTooManyAnswers:
		return "TooManyAnswers"
	case errTooManyAuthorities:
		return "TooManyAuthorities"
	case errTooManyAdditionals:
		return "TooManyAdditionals"
	case errNonCanonicalName:
		return "NonCanonical"
	case errStringTooLong:
		return "StringTooLong"
	case errParamOutOfOrder:
		return "ParamOutOfOrder"
	case errTooLongSVCBValue:
		return "TooLongSVCBValue"
	}
	return "Other"
}

// VerifUnpackName runs Name.unpack.
func VerifUnpackName(msg []byte, off int) (string, int, error) {
	var n Name
	newOff, err := n.unpack(msg, off)
	if err != nil {
		return "", newOff, err
	}
	return string(n.Data[:n.Length]), newOff, nil
}

// VerifSkipName runs skipName.
func VerifSkipName(msg []byte, off int) (int, error) { return skipName(msg, off) }

// VerifPackName runs Name.pack.
func VerifPackName(n Name, msg []byte, comp map[string]uint16, compOff int) ([]byte, error) {
	return n.pack(msg, comp, compOff)
}

// VerifParserOff exposes the parser position.
func VerifParserOff(p *Parser) int { return p.off }
