//go:build verif

// Shared part of the C36/C37 harnesses (injected into both main packages):
// message syntax, executors on the real dnsmessage code, property oracles,
// and generators for names and messages.
//
// Message syntax (tokens): <id> <flags:7x0/1> <opcode> <rcode> <nq> Q* <nan> RR* <nau> RR* <nad> RR*
// Q = <name> <type> <class>; RR = <name> <type> <class> <ttl> <length> <KIND> <fields...>
package main

import (
	"bytes"
	"fmt"
	"strconv"
	"strings"

	dm "golang.org/x/net/dns/dnsmessage"
	vu "golang.org/x/net/internal/verifutil"
)

// ---------------------------------------------------------------- syntax

type toks struct {
	t   []string
	i   int
	bad bool
}

func (s *toks) next() string {
	if s.i >= len(s.t) {
		s.bad = true
		return ""
	}
	s.i++
	return s.t[s.i-1]
}

func (s *toks) nat(max uint64) uint64 {
	v, err := strconv.ParseUint(s.next(), 10, 64)
	if err != nil || v > max {
		s.bad = true
		return 0
	}
	return v
}

func (s *toks) bytes() []byte {
	b, ok := vu.ParseHex(s.next())
	if !ok {
		s.bad = true
		return nil
	}
	return b
}

func (s *toks) name() dm.Name {
	b := s.bytes()
	n, err := dm.NewName(string(b))
	if err != nil {
		s.bad = true
	}
	return n
}

func (s *toks) count() int {
	n := s.nat(1 << 20)
	if int(n) > len(s.t) { // every element needs at least one token
		s.bad = true
		return 0
	}
	return int(n)
}

func (s *toks) svcb() dm.SVCBResource {
	var r dm.SVCBResource
	r.Priority = uint16(s.nat(65535))
	r.Target = s.name()
	k := s.count()
	for i := 0; i < k && !s.bad; i++ {
		key := dm.SVCParamKey(s.nat(65535))
		r.Params = append(r.Params, dm.SVCParam{Key: key, Value: s.bytes()})
	}
	return r
}

func (s *toks) body() dm.ResourceBody {
	switch s.next() {
	case "A":
		b := s.bytes()
		if len(b) != 4 {
			s.bad = true
			return nil
		}
		var r dm.AResource
		copy(r.A[:], b)
		return &r
	case "AAAA":
		b := s.bytes()
		if len(b) != 16 {
			s.bad = true
			return nil
		}
		var r dm.AAAAResource
		copy(r.AAAA[:], b)
		return &r
	case "NS":
		return &dm.NSResource{NS: s.name()}
	case "CNAME":
		return &dm.CNAMEResource{CNAME: s.name()}
	case "PTR":
		return &dm.PTRResource{PTR: s.name()}
	case "MX":
		p := uint16(s.nat(65535))
		return &dm.MXResource{Pref: p, MX: s.name()}
	case "TXT":
		k := s.count()
		r := &dm.TXTResource{}
		for i := 0; i < k && !s.bad; i++ {
			r.TXT = append(r.TXT, string(s.bytes()))
		}
		return r
	case "SOA":
		r := &dm.SOAResource{}
		r.NS = s.name()
		r.MBox = s.name()
		r.Serial = uint32(s.nat(1<<32 - 1))
		r.Refresh = uint32(s.nat(1<<32 - 1))
		r.Retry = uint32(s.nat(1<<32 - 1))
		r.Expire = uint32(s.nat(1<<32 - 1))
		r.MinTTL = uint32(s.nat(1<<32 - 1))
		return r
	case "SRV":
		r := &dm.SRVResource{}
		r.Priority = uint16(s.nat(65535))
		r.Weight = uint16(s.nat(65535))
		r.Port = uint16(s.nat(65535))
		r.Target = s.name()
		return r
	case "OPT":
		k := s.count()
		r := &dm.OPTResource{}
		for i := 0; i < k && !s.bad; i++ {
			code := uint16(s.nat(65535))
			r.Options = append(r.Options, dm.Option{Code: code, Data: s.bytes()})
		}
		return r
	case "SVCB":
		r := s.svcb()
		return &r
	case "HTTPS":
		return &dm.HTTPSResource{SVCBResource: s.svcb()}
	case "UNK":
		t := dm.Type(s.nat(65535))
		return &dm.UnknownResource{Type: t, Data: s.bytes()}
	}
	s.bad = true
	return nil
}

func (s *toks) resource() dm.Resource {
	var r dm.Resource
	r.Header.Name = s.name()
	r.Header.Type = dm.Type(s.nat(65535))
	r.Header.Class = dm.Class(s.nat(65535))
	r.Header.TTL = uint32(s.nat(1<<32 - 1))
	r.Header.Length = uint16(s.nat(65535))
	r.Body = s.body()
	return r
}

func (s *toks) resources() []dm.Resource {
	k := s.count()
	var rs []dm.Resource
	for i := 0; i < k && !s.bad; i++ {
		rs = append(rs, s.resource())
	}
	return rs
}

func parseMessage(t []string) (*dm.Message, bool) {
	s := &toks{t: t}
	m := &dm.Message{}
	m.Header.ID = uint16(s.nat(65535))
	fl := s.next()
	if len(fl) != 7 || strings.Trim(fl, "01") != "" {
		return nil, false
	}
	m.Header.Response = fl[0] == '1'
	m.Header.Authoritative = fl[1] == '1'
	m.Header.Truncated = fl[2] == '1'
	m.Header.RecursionDesired = fl[3] == '1'
	m.Header.RecursionAvailable = fl[4] == '1'
	m.Header.AuthenticData = fl[5] == '1'
	m.Header.CheckingDisabled = fl[6] == '1'
	m.Header.OpCode = dm.OpCode(s.nat(65535))
	m.Header.RCode = dm.RCode(s.nat(65535))
	k := s.count()
	for i := 0; i < k && !s.bad; i++ {
		var q dm.Question
		q.Name = s.name()
		q.Type = dm.Type(s.nat(65535))
		q.Class = dm.Class(s.nat(65535))
		m.Questions = append(m.Questions, q)
	}
	m.Answers = s.resources()
	m.Authorities = s.resources()
	m.Additionals = s.resources()
	if s.bad || s.i != len(s.t) {
		return nil, false
	}
	return m, true
}

func bit(b bool) string {
	if b {
		return "1"
	}
	return "0"
}

func hexName(n dm.Name) string { return vu.Hex(n.Data[:n.Length]) }

func dumpPairs(sb *strings.Builder, n int, at func(i int) (uint16, []byte)) {
	fmt.Fprintf(sb, " %d", n)
	for i := 0; i < n; i++ {
		k, v := at(i)
		fmt.Fprintf(sb, " %d %s", k, vu.Hex(v))
	}
}

func dumpSVCB(sb *strings.Builder, kind string, r *dm.SVCBResource) {
	fmt.Fprintf(sb, " %s %d %s", kind, r.Priority, hexName(r.Target))
	dumpPairs(sb, len(r.Params), func(i int) (uint16, []byte) { return uint16(r.Params[i].Key), r.Params[i].Value })
}

func dumpBody(sb *strings.Builder, b dm.ResourceBody) {
	switch r := b.(type) {
	case *dm.AResource:
		fmt.Fprintf(sb, " A %s", vu.Hex(r.A[:]))
	case *dm.AAAAResource:
		fmt.Fprintf(sb, " AAAA %s", vu.Hex(r.AAAA[:]))
	case *dm.NSResource:
		fmt.Fprintf(sb, " NS %s", hexName(r.NS))
	case *dm.CNAMEResource:
		fmt.Fprintf(sb, " CNAME %s", hexName(r.CNAME))
	case *dm.PTRResource:
		fmt.Fprintf(sb, " PTR %s", hexName(r.PTR))
	case *dm.MXResource:
		fmt.Fprintf(sb, " MX %d %s", r.Pref, hexName(r.MX))
	case *dm.TXTResource:
		fmt.Fprintf(sb, " TXT %d", len(r.TXT))
		for _, t := range r.TXT {
			sb.WriteString(" " + vu.Hex([]byte(t)))
		}
	case *dm.SOAResource:
		fmt.Fprintf(sb, " SOA %s %s %d %d %d %d %d", hexName(r.NS), hexName(r.MBox), r.Serial, r.Refresh, r.Retry, r.Expire, r.MinTTL)
	case *dm.SRVResource:
		fmt.Fprintf(sb, " SRV %d %d %d %s", r.Priority, r.Weight, r.Port, hexName(r.Target))
	case *dm.OPTResource:
		sb.WriteString(" OPT")
		dumpPairs(sb, len(r.Options), func(i int) (uint16, []byte) { return r.Options[i].Code, r.Options[i].Data })
	case *dm.SVCBResource:
		dumpSVCB(sb, "SVCB", r)
	case *dm.HTTPSResource:
		dumpSVCB(sb, "HTTPS", &r.SVCBResource)
	case *dm.UnknownResource:
		fmt.Fprintf(sb, " UNK %d %s", r.Type, vu.Hex(r.Data))
	default:
		sb.WriteString(" NIL")
	}
}

func dumpResources(sb *strings.Builder, rs []dm.Resource, withLen bool) {
	fmt.Fprintf(sb, " %d", len(rs))
	for i := range rs {
		h := &rs[i].Header
		l := h.Length
		if !withLen {
			l = 0
		}
		fmt.Fprintf(sb, " %s %d %d %d %d", hexName(h.Name), h.Type, h.Class, h.TTL, l)
		dumpBody(sb, rs[i].Body)
	}
}

func dumpMessage(m *dm.Message) string { return dumpMessageOpt(m, true) }

// dumpMessageOpt: withLen=false blanks ResourceHeader.Length (which depends on
// whether the names inside the body were compressed).
func dumpMessageOpt(m *dm.Message, withLen bool) string {
	var sb strings.Builder
	h := &m.Header
	fmt.Fprintf(&sb, "%d %s%s%s%s%s%s%s %d %d", h.ID, bit(h.Response), bit(h.Authoritative), bit(h.Truncated),
		bit(h.RecursionDesired), bit(h.RecursionAvailable), bit(h.AuthenticData), bit(h.CheckingDisabled), h.OpCode, h.RCode)
	fmt.Fprintf(&sb, " %d", len(m.Questions))
	for i := range m.Questions {
		q := &m.Questions[i]
		fmt.Fprintf(&sb, " %s %d %d", hexName(q.Name), q.Type, q.Class)
	}
	dumpResources(&sb, m.Answers, withLen)
	dumpResources(&sb, m.Authorities, withLen)
	dumpResources(&sb, m.Additionals, withLen)
	return sb.String()
}

// ---------------------------------------------------------------- well-formedness (the hypothesis of C36)

func canonicalName(n dm.Name) bool {
	s := n.Data[:n.Length]
	if len(s) == 0 || len(s) > 254 || s[len(s)-1] != '.' {
		return false
	}
	if len(s) == 1 {
		return true
	}
	begin := 0
	for i, c := range s {
		if c == '.' {
			if i == begin || i-begin > 63 {
				return false
			}
			begin = i + 1
		}
	}
	return true
}

var knownTypes = map[dm.Type]bool{dm.TypeA: true, dm.TypeNS: true, dm.TypeCNAME: true, dm.TypeSOA: true, dm.TypePTR: true,
	dm.TypeMX: true, dm.TypeTXT: true, dm.TypeAAAA: true, dm.TypeSRV: true, dm.TypeOPT: true, dm.TypeSVCB: true, dm.TypeHTTPS: true}

func wireLen(n dm.Name) int { // uncompressed
	if n.Length == 1 {
		return 1
	}
	return int(n.Length) + 1
}

func svcbWF(r *dm.SVCBResource) (bool, int) {
	if !canonicalName(r.Target) {
		return false, 0
	}
	sz := 2 + wireLen(r.Target)
	for i, p := range r.Params {
		if i > 0 && p.Key <= r.Params[i-1].Key || len(p.Value) > 65535 {
			return false, 0
		}
		sz += 4 + len(p.Value)
	}
	return true, sz
}

// bodyWF: well-formed and an upper bound of the packed length.
func bodyWF(b dm.ResourceBody) (bool, int) {
	switch r := b.(type) {
	case *dm.AResource:
		return true, 4
	case *dm.AAAAResource:
		return true, 16
	case *dm.NSResource:
		return canonicalName(r.NS), wireLen(r.NS)
	case *dm.CNAMEResource:
		return canonicalName(r.CNAME), wireLen(r.CNAME)
	case *dm.PTRResource:
		return canonicalName(r.PTR), wireLen(r.PTR)
	case *dm.MXResource:
		return canonicalName(r.MX), 2 + wireLen(r.MX)
	case *dm.TXTResource:
		sz := 0
		for _, t := range r.TXT {
			if len(t) > 255 {
				return false, 0
			}
			sz += 1 + len(t)
		}
		return true, sz
	case *dm.SOAResource:
		return canonicalName(r.NS) && canonicalName(r.MBox), wireLen(r.NS) + wireLen(r.MBox) + 20
	case *dm.SRVResource:
		return canonicalName(r.Target), 6 + wireLen(r.Target)
	case *dm.OPTResource:
		sz := 0
		for _, o := range r.Options {
			if len(o.Data) > 65535 {
				return false, 0
			}
			sz += 4 + len(o.Data)
		}
		return true, sz
	case *dm.SVCBResource:
		return svcbWF(r)
	case *dm.HTTPSResource:
		return svcbWF(&r.SVCBResource)
	case *dm.UnknownResource:
		return !knownTypes[r.Type], len(r.Data)
	}
	return false, 0
}

func wellFormed(m *dm.Message) bool {
	if m.Header.OpCode >= 16 || m.Header.RCode >= 16 {
		return false
	}
	return wellFormedRecords(m)
}

// wellFormedRecords: everything but the 4-bit range of Header.OpCode / Header.RCode.
func wellFormedRecords(m *dm.Message) bool {
	for i := range m.Questions {
		if !canonicalName(m.Questions[i].Name) {
			return false
		}
	}
	for _, sec := range [][]dm.Resource{m.Answers, m.Authorities, m.Additionals} {
		for i := range sec {
			if !canonicalName(sec[i].Header.Name) {
				return false
			}
			ok, sz := bodyWF(sec[i].Body)
			if !ok || sz > 65535 {
				return false
			}
		}
	}
	return true
}

// nameShapeOK: what C37 promises about every decoded name.
func nameShapeOK(s []byte) bool {
	if len(s) == 0 || len(s) > 255 || s[len(s)-1] != '.' {
		return false
	}
	if len(s) == 1 {
		return true
	}
	begin := 0
	for i, c := range s {
		if c == '.' {
			if i == begin || i-begin > 63 {
				return false // empty label = a '.' that is not a separator
			}
			begin = i + 1
		}
	}
	return true
}

func forEachName(m *dm.Message, f func(n dm.Name)) {
	for i := range m.Questions {
		f(m.Questions[i].Name)
	}
	for _, sec := range [][]dm.Resource{m.Answers, m.Authorities, m.Additionals} {
		for i := range sec {
			f(sec[i].Header.Name)
			switch r := sec[i].Body.(type) {
			case *dm.NSResource:
				f(r.NS)
			case *dm.CNAMEResource:
				f(r.CNAME)
			case *dm.PTRResource:
				f(r.PTR)
			case *dm.MXResource:
				f(r.MX)
			case *dm.SOAResource:
				f(r.NS)
				f(r.MBox)
			case *dm.SRVResource:
				f(r.Target)
			case *dm.SVCBResource:
				f(r.Target)
			case *dm.HTTPSResource:
				f(r.Target)
			}
		}
	}
}

// ---------------------------------------------------------------- executors

func tag(err error) string { return dm.VerifErrTag(err) }

// unpackResult = canonical result of Message.Unpack on packed bytes.
func unpackResult(b []byte) (string, *dm.Message, error) {
	m := &dm.Message{}
	if err := m.Unpack(b); err != nil {
		return "E " + tag(err), nil, err
	}
	return "U " + dumpMessage(m), m, nil
}

// oracleRoundTrip: C36 on the implementation. m has been packed (so its
// headers carry the Type/Length that Pack fills in); packed are the bytes to
// unpack; what names the producer.
func oracleRoundTrip(o *vu.Out, what string, wf bool, m *dm.Message, packErr error, packed []byte, withLen bool) {
	if !wf {
		return
	}
	if packErr != nil {
		o.Fail("", fmt.Sprintf("%s: well-formed message rejected: %v", what, packErr))
		return
	}
	var m2 dm.Message
	if err := m2.Unpack(packed); err != nil {
		o.Fail("", fmt.Sprintf("%s: Unpack of the packed well-formed message fails: %v (packed %x)", what, err, packed))
		return
	}
	if a, b := dumpMessageOpt(m, withLen), dumpMessageOpt(&m2, withLen); a != b {
		o.Fail("", fmt.Sprintf("%s: Unpack(Pack(m)) != m: want [%s] got [%s]", what, a, b))
	}
}

func execRT(t []string, o *vu.Out) string {
	m, ok := parseMessage(t)
	if !ok {
		return "bad-op"
	}
	wf := wellFormed(m)
	var packed []byte
	var perr error
	res := vu.Catch(func() string {
		packed, perr = m.Pack()
		if perr != nil {
			return "err " + tag(perr)
		}
		s, _, _ := unpackResult(packed)
		return "ok " + vu.Hex(packed) + " " + s
	})
	if res == "panic" {
		o.Fail("panic", "Pack/Unpack panicked")
		return res
	}
	oracleRoundTrip(o, "Pack", wf, m, perr, packed, true)
	// Known finding header-4bit-overflow: OpCode / RCode are uint16 types but 4-bit wire fields;
	// Header.pack neither masks nor rejects larger values, they spill into the flag bits.
	if !wf && perr == nil && wellFormedRecords(m) {
		var m2 dm.Message
		if err := m2.Unpack(packed); err == nil && m2.Header != m.Header {
			o.Fail("header-4bit-overflow", fmt.Sprintf("Header %+v packs and unpacks as %+v", m.Header, m2.Header))
		}
	}
	return res
}

func buildWith(m *dm.Message, compress bool, pre int) ([]byte, error) {
	buf := bytes.Repeat([]byte{0xAA}, pre)
	b := dm.NewBuilder(buf, m.Header)
	if compress {
		b.EnableCompression()
	}
	if err := b.StartQuestions(); err != nil {
		return nil, err
	}
	for i := range m.Questions {
		if err := b.Question(m.Questions[i]); err != nil {
			return nil, err
		}
	}
	secs := []struct {
		start func() error
		rs    []dm.Resource
	}{{b.StartAnswers, m.Answers}, {b.StartAuthorities, m.Authorities}, {b.StartAdditionals, m.Additionals}}
	for _, sec := range secs {
		if err := sec.start(); err != nil {
			return nil, err
		}
		for i := range sec.rs {
			h := sec.rs[i].Header
			var err error
			switch r := sec.rs[i].Body.(type) {
			case *dm.AResource:
				err = b.AResource(h, *r)
			case *dm.AAAAResource:
				err = b.AAAAResource(h, *r)
			case *dm.NSResource:
				err = b.NSResource(h, *r)
			case *dm.CNAMEResource:
				err = b.CNAMEResource(h, *r)
			case *dm.PTRResource:
				err = b.PTRResource(h, *r)
			case *dm.MXResource:
				err = b.MXResource(h, *r)
			case *dm.TXTResource:
				err = b.TXTResource(h, *r)
			case *dm.SOAResource:
				err = b.SOAResource(h, *r)
			case *dm.SRVResource:
				err = b.SRVResource(h, *r)
			case *dm.OPTResource:
				err = b.OPTResource(h, *r)
			case *dm.SVCBResource:
				err = b.SVCBResource(h, *r)
			case *dm.HTTPSResource:
				err = b.HTTPSResource(h, *r)
			case *dm.UnknownResource:
				err = b.UnknownResource(h, *r)
			default:
				panic("harness: nil body")
			}
			if err != nil {
				return nil, err
			}
		}
	}
	out, err := b.Finish()
	if err != nil {
		return nil, err
	}
	if !bytes.Equal(out[:pre], buf[:pre]) {
		panic("harness: builder changed the prefix")
	}
	return out[pre:], nil
}

func execBuild(t []string, o *vu.Out) string {
	if len(t) < 2 || (t[0] != "0" && t[0] != "1") {
		return "bad-op"
	}
	pre, err := strconv.Atoi(t[1])
	if err != nil || pre < 0 || pre > 1<<16 {
		return "bad-op"
	}
	m, ok := parseMessage(t[2:])
	if !ok {
		return "bad-op"
	}
	wf := wellFormed(m)
	var packed []byte
	var perr error
	res := vu.Catch(func() string {
		packed, perr = buildWith(m, t[0] == "1", pre)
		if perr != nil {
			return "err " + tag(perr)
		}
		s, _, _ := unpackResult(packed)
		return "ok " + vu.Hex(packed) + " " + s
	})
	if res == "panic" {
		o.Fail("panic", "Builder/Unpack panicked")
		return res
	}
	if wf {
		// reference: the message as Pack normalises it (Type, Length)
		ref, _ := parseMessage(t[2:])
		if _, err := ref.Pack(); err != nil {
			o.Fail("", fmt.Sprintf("well-formed message rejected by Pack: %v", err))
		} else {
			oracleRoundTrip(o, "Builder(compress="+t[0]+")", wf, ref, perr, packed, t[0] == "1")
		}
	}
	return res
}

// builderCall runs the typed Builder method for one resource.
func builderCall(b *dm.Builder, r *dm.Resource) error {
	h := r.Header
	switch x := r.Body.(type) {
	case *dm.AResource:
		return b.AResource(h, *x)
	case *dm.AAAAResource:
		return b.AAAAResource(h, *x)
	case *dm.NSResource:
		return b.NSResource(h, *x)
	case *dm.CNAMEResource:
		return b.CNAMEResource(h, *x)
	case *dm.PTRResource:
		return b.PTRResource(h, *x)
	case *dm.MXResource:
		return b.MXResource(h, *x)
	case *dm.TXTResource:
		return b.TXTResource(h, *x)
	case *dm.SOAResource:
		return b.SOAResource(h, *x)
	case *dm.SRVResource:
		return b.SRVResource(h, *x)
	case *dm.OPTResource:
		return b.OPTResource(h, *x)
	case *dm.SVCBResource:
		return b.SVCBResource(h, *x)
	case *dm.HTTPSResource:
		return b.HTTPSResource(h, *x)
	case *dm.UnknownResource:
		return b.UnknownResource(h, *x)
	}
	panic("harness: nil body")
}

// execBSeq: bseq <pre> <id> <flags> <opcode> <rcode> <k> op*, op = C | S2..S5 | Q <question> | R <resource> | F.
// One result token per call: "." | <ErrTag> | x<bytes returned by Finish>.
func execBSeq(t []string, o *vu.Out) string {
	if len(t) < 6 {
		return "bad-op"
	}
	pre, err := strconv.Atoi(t[0])
	if err != nil || pre < 0 || pre > 1<<16 {
		return "bad-op"
	}
	hm, ok := parseMessage(append(append([]string{}, t[1:5]...), "0", "0", "0", "0"))
	if !ok {
		return "bad-op"
	}
	s := &toks{t: t[5:]}
	k := s.count()
	type call struct {
		kind string
		q    dm.Question
		r    dm.Resource
	}
	var calls []call
	for i := 0; i < k && !s.bad; i++ {
		c := call{kind: s.next()}
		switch c.kind {
		case "C", "F", "S2", "S3", "S4", "S5":
		case "Q":
			c.q.Name = s.name()
			c.q.Type = dm.Type(s.nat(65535))
			c.q.Class = dm.Class(s.nat(65535))
		case "R":
			c.r = s.resource()
		default:
			s.bad = true
		}
		calls = append(calls, c)
	}
	if s.bad || s.i != len(s.t) {
		return "bad-op"
	}
	// reference message: what the successful calls describe (for the oracle)
	ref := &dm.Message{Header: hm.Header}
	compress, compressAtStart, clean, anyRecord := false, true, true, false
	var last []byte
	res := vu.Catch(func() string {
		buf := bytes.Repeat([]byte{0xAA}, pre)
		b := dm.NewBuilder(buf, hm.Header)
		sec := 1
		out := []string{"ok"}
		for _, c := range calls {
			var err error
			switch c.kind {
			case "C":
				b.EnableCompression()
				if anyRecord {
					compressAtStart = false
				}
				compress = true
			case "S2":
				err = b.StartQuestions()
			case "S3":
				err = b.StartAnswers()
			case "S4":
				err = b.StartAuthorities()
			case "S5":
				err = b.StartAdditionals()
			case "Q":
				if err = b.Question(c.q); err == nil {
					ref.Questions = append(ref.Questions, c.q)
					anyRecord = true
				}
			case "R":
				if err = builderCall(&b, &c.r); err == nil {
					anyRecord = true
					switch sec {
					case 3:
						ref.Answers = append(ref.Answers, c.r)
					case 4:
						ref.Authorities = append(ref.Authorities, c.r)
					case 5:
						ref.Additionals = append(ref.Additionals, c.r)
					}
				}
			case "F":
				var m []byte
				if m, err = b.Finish(); err == nil {
					if !bytes.Equal(m[:pre], buf[:pre]) {
						panic("harness: builder changed the prefix")
					}
					last = append([]byte{}, m[pre:]...)
					out = append(out, vu.Hex(last))
					sec = 6
					continue
				}
			}
			if err == nil && len(c.kind) == 2 && c.kind[0] == 'S' {
				sec = int(c.kind[1] - '0')
			}
			if err != nil {
				if c.kind == "Q" || c.kind == "R" {
					if t := tag(err); t != "NotStarted" && t != "SectionDone" {
						clean = false // a packing call failed: the compression map may be stale from here on
					}
				}
				out = append(out, tag(err))
			} else {
				out = append(out, ".")
			}
		}
		return strings.Join(out, " ")
	})
	if res == "panic" {
		o.Fail("panic", "Builder call sequence panicked")
		return res
	}
	// C36 on the implementation: the bytes of an accepted call sequence are the bytes of
	// Message.Pack of the message it describes (compression enabled before the first record),
	// and they unpack to that message with or without compression.
	if last != nil && !clean && wellFormed(ref) {
		// A failed call must be a no-op: the finished message still is the message that the
		// successful calls describe. (Known finding builder-stale-map: the compression map keeps the
		// entries of the failed record.)
		var m2 dm.Message
		if err := m2.Unpack(last); err != nil {
			o.Fail("builder-stale-map", fmt.Sprintf("Builder used after a failed call returns a message that does not unpack: %v (%x)", err, last))
		} else if _, perr := ref.Pack(); perr == nil {
			if a, b := dumpMessageOpt(ref, false), dumpMessageOpt(&m2, false); a != b {
				o.Fail("builder-stale-map", fmt.Sprintf("Builder used after a failed call returns a different message: want [%s] got [%s]", a, b))
			}
		}
	}
	if last != nil && clean && wellFormed(ref) {
		o.Stat("oracle:builder-clean-finish")
		refPacked, perr := ref.Pack() // also fills in Type/Length of ref
		if perr != nil {
			o.Fail("", fmt.Sprintf("Builder accepted what Pack rejects: %v", perr))
		} else {
			if compress && compressAtStart && !bytes.Equal(refPacked, last) {
				o.Fail("", fmt.Sprintf("Builder bytes %x differ from Message.Pack bytes %x", last, refPacked))
			}
			oracleRoundTrip(o, "Builder call sequence", true, ref, nil, last, compress && compressAtStart)
		}
	}
	return res
}

// parserWalk decodes msg with the record-level Parser API (XHeader + typed
// XResource), the way a streaming user would.
func parserWalk(msg []byte) (*dm.Message, error) {
	var p dm.Parser
	m := &dm.Message{}
	var err error
	if m.Header, err = p.Start(msg); err != nil {
		return nil, err
	}
	for {
		q, err := p.Question()
		if err == dm.ErrSectionDone {
			break
		}
		if err != nil {
			return nil, err
		}
		m.Questions = append(m.Questions, q)
	}
	hdrs := []func() (dm.ResourceHeader, error){p.AnswerHeader, p.AuthorityHeader, p.AdditionalHeader}
	dst := []*[]dm.Resource{&m.Answers, &m.Authorities, &m.Additionals}
	for s := range hdrs {
		for {
			h, err := hdrs[s]()
			if err == dm.ErrSectionDone {
				break
			}
			if err != nil {
				return nil, err
			}
			b, err := typedBody(&p, h)
			if err != nil {
				return nil, err
			}
			*dst[s] = append(*dst[s], dm.Resource{Header: h, Body: b})
		}
	}
	return m, nil
}

// typedBody calls the typed XResource method that matches the header type.
func typedBody(p *dm.Parser, h dm.ResourceHeader) (dm.ResourceBody, error) {
	switch h.Type {
	case dm.TypeA:
		r, e := p.AResource()
		return &r, e
	case dm.TypeAAAA:
		r, e := p.AAAAResource()
		return &r, e
	case dm.TypeNS:
		r, e := p.NSResource()
		return &r, e
	case dm.TypeCNAME:
		r, e := p.CNAMEResource()
		return &r, e
	case dm.TypePTR:
		r, e := p.PTRResource()
		return &r, e
	case dm.TypeMX:
		r, e := p.MXResource()
		return &r, e
	case dm.TypeTXT:
		r, e := p.TXTResource()
		return &r, e
	case dm.TypeSOA:
		r, e := p.SOAResource()
		return &r, e
	case dm.TypeSRV:
		r, e := p.SRVResource()
		return &r, e
	case dm.TypeOPT:
		r, e := p.OPTResource()
		return &r, e
	case dm.TypeSVCB:
		r, e := p.SVCBResource()
		return &r, e
	case dm.TypeHTTPS:
		r, e := p.HTTPSResource()
		return &r, e
	}
	r, e := p.UnknownResource()
	return &r, e
}

// execWalk drives the record-level Parser API under a script: one step per record,
// p = X(), s = SkipX(), h = XHeader()+typed XResource(), k = XHeader()+SkipX(); default p.
func execWalk(b []byte, script string, o *vu.Out) string {
	if script == "-" {
		script = ""
	}
	res := vu.Catch(func() string {
		var p dm.Parser
		if _, err := p.Start(b); err != nil {
			return "err " + tag(err)
		}
		var sb strings.Builder
		si := 0
		step := func() byte {
			if si < len(script) {
				return script[si]
			}
			return 'p'
		}
		for {
			var err error
			switch step() {
			case 'p', 'h', 'w':
				var q dm.Question
				if q, err = p.Question(); err == nil {
					fmt.Fprintf(&sb, " Q %s %d %d", hexName(q.Name), q.Type, q.Class)
				}
			default:
				if err = p.SkipQuestion(); err == nil {
					sb.WriteString(" S")
				}
			}
			if err == dm.ErrSectionDone {
				break
			}
			if err != nil {
				return "err " + tag(err)
			}
			si++
		}
		type api struct {
			parse  func() (dm.Resource, error)
			header func() (dm.ResourceHeader, error)
			skip   func() error
		}
		for _, a := range []api{{p.Answer, p.AnswerHeader, p.SkipAnswer}, {p.Authority, p.AuthorityHeader, p.SkipAuthority},
			{p.Additional, p.AdditionalHeader, p.SkipAdditional}} {
			for {
				var err error
				switch step() {
				case 'p':
					var r dm.Resource
					if r, err = a.parse(); err == nil {
						sb.WriteString(" R")
						dumpResources2(&sb, r)
					}
				case 'h':
					var h dm.ResourceHeader
					if h, err = a.header(); err == nil {
						var body dm.ResourceBody
						if body, err = typedBody(&p, h); err == nil {
							sb.WriteString(" R")
							dumpResources2(&sb, dm.Resource{Header: h, Body: body})
						}
					}
				case 'w': // XHeader(), header calls of the other sections (they fail), typed XResource()
					var h dm.ResourceHeader
					if h, err = a.header(); err == nil {
						for _, f := range []func() (dm.ResourceHeader, error){p.AnswerHeader, p.AuthorityHeader, p.AdditionalHeader} {
							f() // own section: re-parses the header; other sections: fail, must change nothing
						}
						var body dm.ResourceBody
						if body, err = typedBody(&p, h); err == nil {
							sb.WriteString(" R")
							dumpResources2(&sb, dm.Resource{Header: h, Body: body})
						}
					}
				case 's':
					if err = a.skip(); err == nil {
						sb.WriteString(" S")
					}
				default:
					var h dm.ResourceHeader
					if h, err = a.header(); err == nil {
						if err = a.skip(); err == nil {
							fmt.Fprintf(&sb, " H %s %d %d %d %d", hexName(h.Name), h.Type, h.Class, h.TTL, h.Length)
						}
					}
				}
				if err == dm.ErrSectionDone {
					break
				}
				if err != nil {
					return "err " + tag(err)
				}
				si++
			}
		}
		return fmt.Sprintf("ok %d%s", dm.VerifParserOff(&p), sb.String())
	})
	if res == "panic" {
		o.Fail("panic", fmt.Sprintf("Parser walk %q panicked on %x", script, b))
	}
	return res
}

func dumpResources2(sb *strings.Builder, r dm.Resource) {
	h := &r.Header
	fmt.Fprintf(sb, " %s %d %d %d %d", hexName(h.Name), h.Type, h.Class, h.TTL, h.Length)
	dumpBody(sb, r.Body)
}

// oracleSkipParse: at every record, skipping and parsing (from copies of the
// parser) must land on the same offset whenever both succeed.
func oracleSkipParse(o *vu.Out, msg []byte) {
	var p dm.Parser
	if _, err := p.Start(msg); err != nil {
		return
	}
	for {
		ps, pp := p, p
		es := ps.SkipQuestion()
		_, ep := pp.Question()
		if ep == dm.ErrSectionDone {
			if es != dm.ErrSectionDone {
				o.Fail("", fmt.Sprintf("SkipQuestion=%v but Question=ErrSectionDone on %x", es, msg))
			}
			p = pp
			break
		}
		if es == nil && ep == nil && dm.VerifParserOff(&ps) != dm.VerifParserOff(&pp) {
			o.Fail("", fmt.Sprintf("SkipQuestion advances to %d, Question to %d on %x", dm.VerifParserOff(&ps), dm.VerifParserOff(&pp), msg))
		}
		if es == nil && ep == nil {
			o.Stat("oracle:skip-parse-question-both-ok")
		}
		if ep != nil {
			return
		}
		p = pp
	}
	type api struct {
		skip   func(*dm.Parser) error
		parse  func(*dm.Parser) (dm.Resource, error)
		header func(*dm.Parser) (dm.ResourceHeader, error)
	}
	apis := []api{
		{(*dm.Parser).SkipAnswer, (*dm.Parser).Answer, (*dm.Parser).AnswerHeader},
		{(*dm.Parser).SkipAuthority, (*dm.Parser).Authority, (*dm.Parser).AuthorityHeader},
		{(*dm.Parser).SkipAdditional, (*dm.Parser).Additional, (*dm.Parser).AdditionalHeader},
	}
	for _, a := range apis {
		for {
			ps, pp, ph := p, p, p
			es := a.skip(&ps)
			_, ep := a.parse(&pp)
			_, eh := a.header(&ph)
			var ehs error = eh
			if eh == nil {
				ehs = a.skip(&ph) // header, then skip the body
			}
			// A Skip path never leaves the parser beyond the end of the message, and skipping after
			// XHeader() may succeed only if the plain SkipX() succeeds on the same record, at the
			// same offset (the header call validates more, the length arithmetic is the same).
			if es == nil && dm.VerifParserOff(&ps) > len(msg) {
				o.Fail("", fmt.Sprintf("SkipX moved the parser to %d, past the end (%d) of %x", dm.VerifParserOff(&ps), len(msg), msg))
			}
			if eh == nil && ehs == nil {
				o.Stat("oracle:header-skip-ok")
				if ho := dm.VerifParserOff(&ph); ho > len(msg) {
					o.Fail("", fmt.Sprintf("XHeader+SkipX moved the parser to %d, past the end (%d) of %x", ho, len(msg), msg))
				} else if es != nil {
					o.Fail("", fmt.Sprintf("XHeader+SkipX succeeds (offset %d) but SkipX fails (%v) on the same record of %x", ho, es, msg))
				} else if so := dm.VerifParserOff(&ps); so != ho {
					o.Fail("", fmt.Sprintf("XHeader+SkipX advances to %d, SkipX to %d on %x", ho, so, msg))
				}
			}
			// Where X() succeeds, SkipX() succeeds too (same position is checked below) and the
			// parser stays inside the message.
			if ep == nil {
				if es != nil {
					o.Fail("", fmt.Sprintf("X succeeds (offset %d) but SkipX fails (%v) on the same record of %x", dm.VerifParserOff(&pp), es, msg))
				}
				if po := dm.VerifParserOff(&pp); po > len(msg) {
					o.Fail("", fmt.Sprintf("X moved the parser to %d, past the end (%d) of %x", po, len(msg), msg))
				}
			}
			// A call for another section fails (ErrNotStarted / ErrSectionDone) and must leave the
			// parser alone: XHeader(), a wrong-section header call, then the typed XResource() must
			// give what X() gives.
			if eh == nil && ep == nil {
				pw := p
				if h, err := a.header(&pw); err == nil {
					for _, other := range apis {
						other.header(&pw) // same section: re-parses the header, harmless; others: must fail and change nothing
					}
					body, err2 := typedBody(&pw, h)
					pp2 := p
					r2, _ := a.parse(&pp2)
					var s1, s2 strings.Builder
					if err2 == nil {
						dumpResources2(&s1, dm.Resource{Header: h, Body: body})
					}
					dumpResources2(&s2, r2)
					if err2 != nil || s1.String() != s2.String() || dm.VerifParserOff(&pw) != dm.VerifParserOff(&pp2) {
						o.Fail("", fmt.Sprintf("after a failed header call for another section the typed method decodes [%s] (err %v, offset %d), X() gives [%s] (offset %d) on %x", s1.String(), err2, dm.VerifParserOff(&pw), s2.String(), dm.VerifParserOff(&pp2), msg))
					}
				}
			}
			if ep == dm.ErrSectionDone {
				if es != dm.ErrSectionDone || eh != dm.ErrSectionDone {
					o.Fail("", fmt.Sprintf("skip=%v header=%v but parse=ErrSectionDone on %x", es, eh, msg))
				}
				p = pp
				break
			}
			po := dm.VerifParserOff(&pp)
			if es == nil && ep == nil {
				o.Stat("oracle:skip-parse-resource-both-ok")
				if so := dm.VerifParserOff(&ps); so != po {
					o.Fail("", fmt.Sprintf("SkipX advances to %d, X to %d on %x", so, po, msg))
				}
			}
			if ehs == nil && ep == nil {
				if ho := dm.VerifParserOff(&ph); ho != po {
					o.Fail("", fmt.Sprintf("XHeader+SkipX advances to %d, X to %d on %x", ho, po, msg))
				}
			}
			if ep != nil {
				return
			}
			p = pp
		}
	}
}

func execUnpack(b []byte, o *vu.Out) string {
	var m *dm.Message
	var uerr error
	res := vu.Catch(func() string {
		m = &dm.Message{}
		uerr = m.Unpack(b)
		if uerr != nil {
			return "err " + tag(uerr)
		}
		return "ok " + dumpMessage(m)
	})
	if res == "panic" {
		o.Fail("panic", fmt.Sprintf("Message.Unpack panicked on %x", b))
		return res
	}
	// C37 oracles
	r2 := vu.Catch(func() string {
		m2, err := parserWalk(b)
		if err != nil {
			return "err " + tag(err)
		}
		return "ok " + dumpMessage(m2)
	})
	if r2 != res {
		o.Fail("", fmt.Sprintf("Parser and Message.Unpack disagree on %x: parser [%s] unpack [%s]", b, r2, res))
	}
	if r := vu.Catch(func() string { oracleSkipParse(o, b); return "" }); r == "panic" {
		o.Fail("panic", fmt.Sprintf("Parser skip/parse panicked on %x", b))
	}
	if uerr != nil {
		return res
	}
	forEachName(m, func(n dm.Name) {
		if !nameShapeOK(n.Data[:n.Length]) {
			o.Fail("", fmt.Sprintf("decoded name %q is too long or has a '.' inside a label (input %x)", n.Data[:n.Length], b))
		}
	})
	// Record types whose decoder checks the body against RDLENGTH (TXT, OPT, SVCB, HTTPS, unknown)
	// must re-pack to exactly the Length that was parsed (Pack refreshes the Length fields of m).
	type lenAt struct {
		sec, i int
		l      uint16
	}
	var strict []lenAt
	for si, sec := range [][]dm.Resource{m.Answers, m.Authorities, m.Additionals} {
		for i := range sec {
			switch sec[i].Body.(type) {
			case *dm.TXTResource, *dm.OPTResource, *dm.SVCBResource, *dm.HTTPSResource, *dm.UnknownResource:
				strict = append(strict, lenAt{si, i, sec[i].Header.Length})
			}
		}
	}
	r3 := vu.Catch(func() string {
		packed, err := m.Pack()
		if err != nil {
			o.Fail("", fmt.Sprintf("accepted message does not re-pack: %v (input %x)", err, b))
			return ""
		}
		for _, x := range strict {
			r := [][]dm.Resource{m.Answers, m.Authorities, m.Additionals}[x.sec][x.i]
			if r.Header.Length != x.l {
				o.Fail("", fmt.Sprintf("accepted record (section %d, #%d, type %d) was parsed with Length %d but its body re-packs to %d bytes: the decoder read outside the record (input %x)", x.sec+1, x.i, r.Header.Type, x.l, r.Header.Length, b))
			}
		}
		var m2 dm.Message
		if err := m2.Unpack(packed); err != nil {
			o.Fail("", fmt.Sprintf("re-packed message does not unpack: %v (input %x)", err, b))
			return ""
		}
		// as FuzzUnpackPack: m (whose Type/Length fields Pack has just refreshed) against m2
		if x, y := dumpMessage(m), dumpMessage(&m2); x != y {
			o.Fail("", fmt.Sprintf("unpack(pack(unpack b)) != unpack b for %x: [%s] vs [%s]", b, x, y))
		}
		o.Stat("oracle:repack-stable")
		return ""
	})
	if r3 == "panic" {
		o.Fail("panic", fmt.Sprintf("re-pack panicked on %x", b))
	}
	return res
}

func execSkipAll(b []byte, o *vu.Out) string {
	res := vu.Catch(func() string {
		var p dm.Parser
		if _, err := p.Start(b); err != nil {
			return "err " + tag(err)
		}
		for _, f := range []func() error{p.SkipAllQuestions, p.SkipAllAnswers, p.SkipAllAuthorities, p.SkipAllAdditionals} {
			if err := f(); err != nil {
				return "err " + tag(err)
			}
		}
		return fmt.Sprintf("ok %d", dm.VerifParserOff(&p))
	})
	if res == "panic" {
		o.Fail("panic", fmt.Sprintf("Parser.SkipAll* panicked on %x", b))
	}
	return res
}

func execUName(b []byte, off int, o *vu.Out) string {
	var name string
	var newOff int
	var err error
	res := vu.Catch(func() string {
		name, newOff, err = dm.VerifUnpackName(b, off)
		if err != nil {
			return "err " + tag(err)
		}
		return fmt.Sprintf("ok %s %d", vu.Hex([]byte(name)), newOff)
	})
	if res == "panic" {
		o.Fail("panic", fmt.Sprintf("Name.unpack panicked on %x off %d", b, off))
		return res
	}
	if err == nil {
		if !nameShapeOK([]byte(name)) {
			o.Fail("", fmt.Sprintf("decoded name %q is too long or has a '.' inside a label (input %x off %d)", name, b, off))
		}
		if newOff <= off || newOff > len(b) {
			o.Fail("", fmt.Sprintf("Name.unpack(%x,%d) returns offset %d", b, off, newOff))
		}
		if so, serr := dm.VerifSkipName(b, off); serr == nil && so != newOff {
			o.Fail("", fmt.Sprintf("skipName advances to %d, Name.unpack to %d (input %x off %d)", so, newOff, b, off))
		} else if serr == nil {
			o.Stat("oracle:skipname-unpack-both-ok")
		}
		// accepted names re-pack and re-unpack to themselves
		n := dm.MustNewName(name)
		if packed, perr := dm.VerifPackName(n, nil, nil, 0); perr != nil {
			o.Fail("", fmt.Sprintf("decoded name %q does not pack: %v", name, perr))
		} else if n2, o2, uerr := dm.VerifUnpackName(packed, 0); uerr != nil || n2 != name || o2 != len(packed) {
			o.Fail("", fmt.Sprintf("decoded name %q does not survive pack/unpack: %q %d %v", name, n2, o2, uerr))
		}
	}
	return res
}

func execSName(b []byte, off int, o *vu.Out) string {
	res := vu.Catch(func() string {
		n, err := dm.VerifSkipName(b, off)
		if err != nil {
			return "err " + tag(err)
		}
		return fmt.Sprintf("ok %d", n)
	})
	if res == "panic" {
		o.Fail("panic", fmt.Sprintf("skipName panicked on %x off %d", b, off))
	}
	return res
}

// pnames <comp> <k> (<gap> <name>)*: names packed one after another with a shared map.
func execPNames(t []string, o *vu.Out) string {
	if len(t) < 2 || (t[0] != "0" && t[0] != "1") {
		return "bad-op"
	}
	s := &toks{t: t[1:]}
	k := s.count()
	type item struct {
		gap  []byte
		name dm.Name
	}
	var items []item
	for i := 0; i < k && !s.bad; i++ {
		g := s.bytes()
		items = append(items, item{g, s.name()})
	}
	if s.bad || s.i != len(s.t) {
		return "bad-op"
	}
	var comp map[string]uint16
	if t[0] == "1" {
		comp = map[string]uint16{}
	}
	var msg []byte
	var starts []int
	var perr error
	res := vu.Catch(func() string {
		for _, it := range items {
			msg = append(msg, it.gap...)
			starts = append(starts, len(msg))
			var err error
			if msg, err = dm.VerifPackName(it.name, msg, comp, 0); err != nil {
				perr = err
				return "err " + tag(err)
			}
		}
		return "ok " + vu.Hex(msg)
	})
	if res == "panic" {
		o.Fail("panic", "Name.pack panicked")
		return res
	}
	if perr != nil {
		return res
	}
	// C36 at the name level: compression never changes the decoded names
	for i, it := range items {
		end := len(msg)
		if i+1 < len(items) {
			end = starts[i+1] - len(items[i+1].gap)
		}
		want := string(it.name.Data[:it.name.Length])
		got, newOff, err := dm.VerifUnpackName(msg, starts[i])
		if err != nil {
			o.Fail("", fmt.Sprintf("packed name %q (#%d at %d of %x) does not unpack: %v", want, i, starts[i], msg, err))
		} else if got != want || newOff != end {
			o.Fail("", fmt.Sprintf("packed name %q (#%d at %d of %x) unpacks to %q, offset %d want %d", want, i, starts[i], msg, got, newOff, end))
		}
	}
	return res
}

func exec(ops []string, o *vu.Out) {
	for _, op := range ops {
		t := strings.Fields(op)
		if len(t) == 0 {
			o.Op(op, "bad-op")
			continue
		}
		o.Stat("op:" + t[0])
		res := "bad-op"
		switch t[0] {
		case "rt":
			res = execRT(t[1:], o)
		case "build":
			res = execBuild(t[1:], o)
		case "bseq":
			res = execBSeq(t[1:], o)
		case "unpack", "skipall":
			if len(t) == 2 {
				if b, ok := vu.ParseHex(t[1]); ok {
					if t[0] == "unpack" {
						res = execUnpack(b, o)
					} else {
						res = execSkipAll(b, o)
					}
				}
			}
		case "walk":
			if len(t) == 3 && strings.Trim(t[2], "pshkw") == "" || len(t) == 3 && t[2] == "-" {
				if b, ok := vu.ParseHex(t[1]); ok {
					res = execWalk(b, t[2], o)
				}
			}
		case "uname", "sname":
			if len(t) == 3 {
				b, ok := vu.ParseHex(t[1])
				off, err := strconv.Atoi(t[2])
				if ok && err == nil && off >= 0 && off < 1<<20 {
					if t[0] == "uname" {
						res = execUName(b, off, o)
					} else {
						res = execSName(b, off, o)
					}
				}
			}
		case "pnames":
			res = execPNames(t[1:], o)
		}
		if f := strings.Fields(res); len(f) > 0 {
			key := f[0]
			if f[0] == "err" && len(f) > 1 {
				key += "-" + f[1]
			}
			if t[0] == "bseq" {
				key = f[0]
				for _, x := range f[1:] {
					if x != "." && !strings.HasPrefix(x, "x") {
						o.Stat("res:bseq:call-" + x)
					}
				}
			}
			if f[0] == "ok" && len(f) > 2 && (t[0] == "rt" || t[0] == "build") {
				key += "-" + f[2]
				if f[2] == "E" && len(f) > 3 {
					key += "-" + f[3]
				}
			}
			o.Stat("res:" + t[0] + ":" + key)
		}
		o.Op(op, res)
	}
}

// ---------------------------------------------------------------- generators (shared)

const labelAlphabet = "abcxyz019-_"

func genLabel(r *vu.Rng, ill bool) []byte {
	n := 1 + r.Intn(4)
	switch r.Intn(40) {
	case 0:
		n = 63
	case 1:
		n = 62
	case 2:
		if ill {
			n = 64
		}
	case 3:
		n = r.Range(5, 40)
	}
	l := r.BytesFrom(labelAlphabet, n)
	if r.Chance(1, 12) { // arbitrary octets, but never '.'
		for i := range l {
			if r.Chance(1, 2) {
				c := byte(r.Uint64())
				if c == '.' {
					c = 0
				}
				l[i] = c
			}
		}
	}
	return l
}

// namePool hands out names that share suffixes, so that compression has work to do.
type namePool struct{ names []string }

func suffixAt(s string, k int) string { // drop k leading labels
	for ; k > 0; k-- {
		i := strings.IndexByte(s, '.')
		if i < 0 || i == len(s)-1 {
			return s
		}
		s = s[i+1:]
	}
	return s
}

func (p *namePool) gen(r *vu.Rng, ill bool) string {
	var s string
	switch k := r.Intn(20); {
	case k == 0:
		s = "."
	case k <= 5 || len(p.names) == 0:
		for i, n := 0, 1+r.Intn(3); i < n; i++ {
			s += string(genLabel(r, ill)) + "."
		}
	case k <= 9: // nest: one more label in front of the most recent name
		s = p.names[len(p.names)-1]
		if s == "." {
			s = ""
		}
		s = string(genLabel(r, false)) + "." + s
	case k <= 12: // exact repeat
		s = p.names[r.Intn(len(p.names))]
	case k == 13: // length boundary: 253/254 are accepted, 255 is not
		want := 253 + r.Intn(2)
		if ill && r.Chance(1, 3) {
			want = 255
		}
		for len(s) < want {
			n := min(want-len(s)-1, 1+r.Intn(63))
			if n <= 0 {
				break
			}
			if want-len(s)-1-n == 1 { // do not leave room for an empty label
				n--
			}
			if n <= 0 {
				break
			}
			s += string(r.BytesFrom(labelAlphabet, n)) + "."
		}
	default: // shared suffix with fresh labels in front
		base := p.names[r.Intn(len(p.names))]
		s = suffixAt(base, r.Intn(3))
		if s == "." {
			s = ""
		}
		for i, n := 0, r.Intn(3); i < n; i++ {
			s = string(genLabel(r, ill)) + "." + s
		}
		if s == "" {
			s = "."
		}
	}
	// case variants: names that share a suffix with a pooled name only up to ASCII case
	// (compression must treat them as different suffixes: decoded names keep their spelling)
	if r.Chance(1, 4) {
		s = flipCase(r, s)
	}
	if ill && r.Chance(1, 6) {
		switch r.Intn(5) {
		case 0:
			s = strings.TrimSuffix(s, ".")
		case 1:
			s = "a.." + s
		case 2:
			s = "." + s
		case 3:
			s = ""
		default:
			s += "x"
		}
	}
	if len(s) > 255 {
		s = s[len(s)-255:]
	}
	p.names = append(p.names, s)
	return s
}

// flipCase changes the case of the letters of some labels (whole labels, or single letters).
func flipCase(r *vu.Rng, s string) string {
	b := []byte(s)
	mode := r.Intn(3) // 0 upper-case some labels, 1 flip single letters, 2 everything upper
	flip := mode == 2 || r.Bool()
	for i, c := range b {
		if c == '.' {
			flip = mode == 2 || r.Bool()
			continue
		}
		letter := 'a' <= c && c <= 'z' || 'A' <= c && c <= 'Z'
		if !letter {
			continue
		}
		if mode == 1 && r.Chance(1, 3) || mode != 1 && flip {
			b[i] = c ^ 0x20
		}
	}
	return string(b)
}

func hexS(s string) string { return vu.Hex([]byte(s)) }

var typePool = []int{1, 2, 5, 6, 12, 15, 16, 28, 33, 41, 64, 65, 11, 13, 14, 252, 255, 0, 3, 99, 65535, 256}

func genU16(r *vu.Rng) int {
	switch r.Intn(4) {
	case 0:
		return int(r.Boundary(16))
	case 1:
		return r.Intn(4)
	}
	return r.Intn(65536)
}

func genU32(r *vu.Rng) uint64 { return r.Boundary(32) }

func genPairs(r *vu.Rng, sorted, ill bool) string {
	k := r.Intn(4)
	if r.Chance(1, 2) {
		k = 0
	}
	var sb strings.Builder
	fmt.Fprintf(&sb, " %d", k)
	key := r.Intn(3)
	for i := 0; i < k; i++ {
		if !sorted {
			key = genU16(r)
		}
		n := r.Intn(6)
		if r.Chance(1, 10) {
			n = r.Range(250, 260)
		}
		fmt.Fprintf(&sb, " %d %s", key, vu.Hex(r.Bytes(n)))
		if ill && r.Chance(1, 8) {
			key -= r.Intn(2) // repeated or decreasing key
			if key < 0 {
				key = 0
			}
		} else {
			key += 1 + r.Intn(3)
			if r.Chance(1, 6) {
				key += r.Intn(30000)
			}
		}
		if key > 65535 {
			key = 65535
		}
	}
	return sb.String()
}

// genBody returns the tokens of a body; ill allows malformed fields.
func genBody(r *vu.Rng, p *namePool, ill bool) string {
	switch r.Intn(14) {
	case 0:
		return "A " + vu.Hex(r.Bytes(4))
	case 1:
		return "AAAA " + vu.Hex(r.Bytes(16))
	case 2:
		return "NS " + hexS(p.gen(r, ill))
	case 3:
		return "CNAME " + hexS(p.gen(r, ill))
	case 4:
		return "PTR " + hexS(p.gen(r, ill))
	case 5:
		return fmt.Sprintf("MX %d %s", genU16(r), hexS(p.gen(r, ill)))
	case 6:
		k := r.Intn(4)
		s := fmt.Sprintf("TXT %d", k)
		for i := 0; i < k; i++ {
			n := r.Intn(8)
			switch r.Intn(12) {
			case 0:
				n = 255
			case 1:
				if ill {
					n = 256
				}
			case 2:
				n = 0
			}
			s += " " + vu.Hex(r.Bytes(n))
		}
		return s
	case 7:
		return fmt.Sprintf("SOA %s %s %d %d %d %d %d", hexS(p.gen(r, ill)), hexS(p.gen(r, ill)), genU32(r), genU32(r), genU32(r), genU32(r), genU32(r))
	case 8:
		return fmt.Sprintf("SRV %d %d %d %s", genU16(r), genU16(r), genU16(r), hexS(p.gen(r, ill)))
	case 9:
		return "OPT" + genPairs(r, false, false)
	case 10:
		return fmt.Sprintf("SVCB %d %s", genU16(r), hexS(p.gen(r, ill))) + genPairs(r, true, ill)
	case 11:
		return fmt.Sprintf("HTTPS %d %s", genU16(r), hexS(p.gen(r, ill))) + genPairs(r, true, ill)
	case 12:
		t := typePool[r.Intn(len(typePool))]
		if !ill || r.Chance(3, 4) {
			for knownTypes[dm.Type(t)] {
				t = r.Intn(65536)
			}
		}
		return fmt.Sprintf("UNK %d %s", t, vu.Hex(r.Bytes(r.Intn(10))))
	default:
		return "A " + vu.Hex(r.Bytes(4))
	}
}

func genResource(r *vu.Rng, p *namePool, ill bool) string {
	cls := []int{1, 1, 1, 2, 3, 4, 255, 0, 65535}[r.Intn(9)]
	if r.Chance(1, 8) {
		cls = genU16(r)
	}
	return fmt.Sprintf("%s %d %d %d %d %s", hexS(p.gen(r, ill)), genU16(r), cls, genU32(r), genU16(r), genBody(r, p, ill))
}

func genSection(r *vu.Rng, p *namePool, ill bool, maxN int) string {
	k := r.Intn(maxN + 1)
	s := fmt.Sprintf(" %d", k)
	for i := 0; i < k; i++ {
		s += " " + genResource(r, p, ill)
	}
	return s
}

// genMessage returns the tokens of a message. ill: allow malformed parts.
func genMessage(r *vu.Rng, ill bool) string {
	p := &namePool{}
	op, rc := r.Intn(16), r.Intn(16)
	if ill && r.Chance(1, 4) {
		op, rc = genU16(r), genU16(r)
	}
	fl := ""
	for i := 0; i < 7; i++ {
		fl += bit(r.Bool())
	}
	s := fmt.Sprintf("%d %s %d %d", genU16(r), fl, op, rc)
	nq := []int{0, 1, 1, 1, 2, 3}[r.Intn(6)]
	s += fmt.Sprintf(" %d", nq)
	for i := 0; i < nq; i++ {
		s += fmt.Sprintf(" %s %d %d", hexS(p.gen(r, ill)), typePool[r.Intn(len(typePool))], []int{1, 1, 255, 3, 0}[r.Intn(5)])
	}
	s += genSection(r, p, ill, 4) + genSection(r, p, ill, 2) + genSection(r, p, ill, 2)
	return s
}

// genChainMessage: names nested `depth` deep (each one label longer than the
// previous one) - what Pack's compression turns into a pointer chain.
func genChainMessage(r *vu.Rng, depth int) string {
	name := ""
	var names []string
	for i := 0; i < depth; i++ {
		name = string(r.BytesFrom("abc", 1+r.Intn(2))) + "." + name
		names = append(names, name)
	}
	s := fmt.Sprintf("%d 0000000 0 0", genU16(r))
	nq := r.Intn(depth + 1)
	s += fmt.Sprintf(" %d", nq)
	for i := 0; i < nq; i++ {
		s += fmt.Sprintf(" %s 1 1", hexS(names[i]))
	}
	s += fmt.Sprintf(" %d", depth-nq)
	for i := nq; i < depth; i++ {
		if r.Bool() {
			s += fmt.Sprintf(" %s 0 1 60 0 A %s", hexS(names[i]), vu.Hex(r.Bytes(4)))
		} else { // the chain continues through a body name
			s += fmt.Sprintf(" %s 0 1 60 0 NS %s", hexS("."), hexS(names[i]))
		}
	}
	return s + " 0 0"
}
