//go:build verif

// C47 harness: WebDAV dead properties through real PROPPATCH / PROPFIND requests
// (webdav.Handler over NewMemFS/NewMemLS, httptest recorder, real XML both ways).
package main

import (
	"bytes"
	"context"
	"encoding/hex"
	"encoding/xml"
	"fmt"
	"net/http/httptest"
	"os"
	"strconv"
	"strings"

	vu "golang.org/x/net/internal/verifutil"
	"golang.org/x/net/webdav"
)

var nsPool = []string{"urn:x", "http://example.com/ns", "DAV:", "urn:y:z", "http://example.com/ns#frag", "urn:uuid:1234", ""}
var localPool = []string{"a", "author", "prop-1", "Z_9", "displayname", "getetag", "lockdiscovery", "creationdate", "b.c", "x"}
var textAlphabet = []string{"a", "b", "Z", " ", "<", ">", "&", "\"", "'", "é", "漢", "\t", "]]>", "&amp;", "=", ",", "|", "+", "/", "0"}
var elemPool = []string{"b", "i", "item", "a", "author"}

var liveNames = map[string]bool{"resourcetype": true, "displayname": true, "getcontentlength": true, "getlastmodified": true,
	"creationdate": true, "getcontentlanguage": true, "getcontenttype": true, "getetag": true, "lockdiscovery": true, "supportedlock": true}

func isLive(ns, local string) bool { return ns == "DAV:" && liveNames[local] }

func tok(s string) string { return vu.Hex([]byte(s)) }
func untok(s string) string {
	return string(vu.MustHex(s))
}

// value items: text or <name>text</name>
type item struct {
	elem string // "" for text
	text string
}

func genText(r *vu.Rng) string {
	n := r.Range(1, 6)
	var b strings.Builder
	for i := 0; i < n; i++ {
		b.WriteString(textAlphabet[r.Intn(len(textAlphabet))])
	}
	return b.String()
}

func genValue(r *vu.Rng, local string, ns string) []item {
	switch r.Intn(8) {
	case 0:
		return nil // empty value
	case 1, 2, 3, 4:
		return []item{{"", genText(r)}}
	default:
		var its []item
		n := r.Range(1, 3)
		lastText := false
		for i := 0; i < n; i++ {
			if !lastText && r.Bool() {
				its = append(its, item{"", genText(r)})
				lastText = true
			} else {
				name := elemPool[r.Intn(len(elemPool))]
				if r.Chance(1, 12) && ns != "" {
					// nested element with the property's own local name but in no namespace (a different
					// XML name). For a property that is itself in no namespace this would be a nested element
					// with the SAME name, which xmlValue.UnmarshalXML cannot represent (it ends the value at the
					// first end tag with the property's name): outside C47's "XML-escaped value" domain, not generated.
					name = local
				}
				if ns == "" && name == local {
					name = "q" + name
				}
				t := ""
				if r.Bool() {
					t = genText(r)
				}
				its = append(its, item{name, t})
				lastText = false
			}
		}
		return its
	}
}

func canonValue(its []item) string {
	if len(its) == 0 {
		return "-"
	}
	var parts []string
	for _, it := range its {
		if it.elem == "" {
			parts = append(parts, "t"+hex.EncodeToString([]byte(it.text)))
		} else {
			parts = append(parts, "e"+hex.EncodeToString([]byte(it.elem))+"."+hex.EncodeToString([]byte(it.text)))
		}
	}
	return strings.Join(parts, "+")
}

func parseCanon(s string) []item {
	if s == "-" {
		return nil
	}
	var its []item
	for _, p := range strings.Split(s, "+") {
		if p[0] == 't' {
			b, _ := hex.DecodeString(p[1:])
			its = append(its, item{"", string(b)})
		} else {
			q := strings.SplitN(p[1:], ".", 2)
			n, _ := hex.DecodeString(q[0])
			t, _ := hex.DecodeString(q[1])
			its = append(its, item{string(n), string(t)})
		}
	}
	return its
}

func esc(s string) string {
	var b bytes.Buffer
	xml.EscapeText(&b, []byte(s))
	return b.String()
}

func renderValue(its []item) string {
	var b strings.Builder
	for _, it := range its {
		if it.elem == "" {
			b.WriteString(esc(it.text))
		} else {
			b.WriteString("<" + it.elem + ` xmlns="">` + esc(it.text) + "</" + it.elem + ">")
		}
	}
	return b.String()
}

func genName(r *vu.Rng) (string, string) {
	ns := nsPool[r.Intn(len(nsPool))]
	local := localPool[r.Intn(len(localPool))]
	if r.Chance(1, 10) {
		ns, local = "DAV:", []string{"displayname", "getetag", "lockdiscovery", "resourcetype"}[r.Intn(4)]
	} else if ns == "DAV:" && r.Chance(2, 3) {
		local = []string{"a", "author", "x"}[r.Intn(3)] // a dead property in the DAV: namespace
	}
	return ns, local
}

func gen(r *vu.Rng, i int) []string {
	ops := []string{"reset"}
	// a small working set of names so that set/remove/find hit each other
	type nm struct{ ns, local string }
	var names []nm
	for k := 0; k < r.Range(2, 5); k++ {
		ns, l := genName(r)
		names = append(names, nm{ns, l})
	}
	pick := func() nm {
		if r.Chance(1, 8) {
			ns, l := genName(r)
			return nm{ns, l}
		}
		return names[r.Intn(len(names))]
	}
	n := r.Range(2, 8)
	for k := 0; k < n; k++ {
		tgt := []string{"f", "d"}[r.Intn(2)]
		if r.Chance(3, 5) {
			var parts []string
			np := r.Range(1, 3)
			for j := 0; j < np; j++ {
				if j > 0 {
					parts = append(parts, "|")
				}
				flag := "S"
				if r.Chance(1, 3) {
					flag = "R"
				}
				parts = append(parts, flag)
				for q := 0; q < r.Range(1, 3); q++ {
					x := pick()
					v := "-"
					if flag == "S" {
						v = canonValue(genValue(r, x.local, x.ns))
					}
					parts = append(parts, tok(x.ns), tok(x.local), v)
				}
			}
			ops = append(ops, "patch "+tgt+" "+strings.Join(parts, " "))
		}
		var q []string
		for j := 0; j < r.Range(1, 4); j++ {
			x := pick()
			q = append(q, tok(x.ns), tok(x.local))
		}
		ops = append(ops, "find "+tgt+" "+strings.Join(q, " "))
	}
	return ops
}

// ---- minimal DOM over encoding/xml (independent of the package under test)
type node struct {
	name     xml.Name
	children []*node
	text     string // for text nodes name.Local == ""
}

func parseDOM(b []byte) (*node, error) {
	d := xml.NewDecoder(bytes.NewReader(b))
	root := &node{}
	stack := []*node{root}
	for {
		t, err := d.Token()
		if err != nil {
			if err.Error() == "EOF" {
				break
			}
			return nil, err
		}
		switch x := t.(type) {
		case xml.StartElement:
			n := &node{name: x.Name}
			top := stack[len(stack)-1]
			top.children = append(top.children, n)
			stack = append(stack, n)
		case xml.EndElement:
			stack = stack[:len(stack)-1]
		case xml.CharData:
			top := stack[len(stack)-1]
			if k := len(top.children); k > 0 && top.children[k-1].name.Local == "" {
				top.children[k-1].text += string(x)
			} else {
				top.children = append(top.children, &node{text: string(x)})
			}
		}
	}
	return root, nil
}

func (n *node) find(local string) []*node {
	var out []*node
	for _, c := range n.children {
		if c.name.Local == local && c.name.Space == "DAV:" {
			out = append(out, c)
		}
	}
	return out
}

func canonFromNode(p *node) string {
	var its []item
	for _, c := range p.children {
		if c.name.Local == "" {
			its = append(its, item{"", c.text})
		} else {
			t := ""
			for _, cc := range c.children {
				if cc.name.Local == "" {
					t += cc.text
				} else {
					t += "<" + cc.name.Local + ">" // deeper nesting is never generated; make it visible
				}
			}
			its = append(its, item{c.name.Local, t})
		}
	}
	return canonValue(its)
}

type world struct {
	h   *webdav.Handler
	ref map[string]map[[2]string]string // target -> name -> canonical value (the property's own reference)
}

func newWorld() *world {
	fs := webdav.NewMemFS()
	ctx := context.Background()
	fs.Mkdir(ctx, "/d", 0o777)
	f, err := fs.OpenFile(ctx, "/f", os.O_RDWR|os.O_CREATE, 0o666)
	if err != nil {
		panic(err)
	}
	f.Write([]byte("hello"))
	f.Close()
	return &world{h: &webdav.Handler{FileSystem: fs, LockSystem: webdav.NewMemLS()},
		ref: map[string]map[[2]string]string{"f": {}, "d": {}}}
}

func (w *world) do(method, tgt, body string) (int, []byte) {
	req := httptest.NewRequest(method, "/"+tgt, strings.NewReader(body))
	req.Header.Set("Depth", "0")
	req.Header.Set("Content-Type", "application/xml")
	rec := httptest.NewRecorder()
	w.h.ServeHTTP(rec, req)
	return rec.Code, rec.Body.Bytes()
}

// propstats of the (single) response: status and props in document order
func parseMultistatus(b []byte) ([]int, [][]*node, error) {
	root, err := parseDOM(b)
	if err != nil {
		return nil, nil, err
	}
	ms := root.find("multistatus")
	if len(ms) != 1 {
		return nil, nil, fmt.Errorf("no multistatus")
	}
	rs := ms[0].find("response")
	if len(rs) != 1 {
		return nil, nil, fmt.Errorf("%d responses", len(rs))
	}
	var codes []int
	var props [][]*node
	for _, ps := range rs[0].find("propstat") {
		st := ps.find("status")
		if len(st) != 1 || len(st[0].children) != 1 {
			return nil, nil, fmt.Errorf("bad status")
		}
		f := strings.Fields(st[0].children[0].text)
		if len(f) < 2 {
			return nil, nil, fmt.Errorf("bad status line")
		}
		code, err := strconv.Atoi(f[1])
		if err != nil {
			return nil, nil, err
		}
		var pl []*node
		for _, pr := range ps.find("prop") {
			for _, c := range pr.children {
				if c.name.Local != "" {
					pl = append(pl, c)
				}
			}
		}
		codes = append(codes, code)
		props = append(props, pl)
	}
	return codes, props, nil
}

func propElem(ns, local, inner string, empty bool) string {
	if ns == "" {
		// a property in no namespace: a prefix cannot be bound to "", so use the default namespace
		open := fmt.Sprintf(`<%s xmlns=""`, local)
		if empty {
			return open + "/>"
		}
		return open + ">" + inner + "</" + local + ">"
	}
	open := fmt.Sprintf(`<p:%s xmlns:p="%s"`, local, esc(ns))
	if empty {
		return open + "/>"
	}
	return open + ">" + inner + "</p:" + local + ">"
}

func exec(ops []string, o *vu.Out) {
	var w *world
	for _, op := range ops {
		t := strings.Fields(op)
		if len(t) == 0 {
			o.Op(op, "bad-op")
			continue
		}
		switch {
		case t[0] == "reset" && len(t) == 1:
			w = newWorld()
			o.Op(op, "ok")
		case t[0] == "patch" && len(t) >= 6 && w != nil && (t[1] == "f" || t[1] == "d"):
			o.Op(op, vu.Catch(func() string { return w.patch(t[1], t[2:], o) }))
		case t[0] == "find" && len(t) >= 4 && len(t)%2 == 0 && w != nil && (t[1] == "f" || t[1] == "d"):
			o.Op(op, vu.Catch(func() string { return w.find(t[1], t[2:], o) }))
		default:
			o.Op(op, "bad-op")
		}
	}
}

func (w *world) patch(tgt string, ts []string, o *vu.Out) string {
	type pop struct {
		remove    bool
		ns, local string
		val       string
	}
	var groups [][]pop
	var cur []pop
	var flag string
	i := 0
	for i < len(ts) {
		if ts[i] == "|" {
			groups = append(groups, cur)
			cur, flag = nil, ""
			i++
			continue
		}
		if flag == "" {
			if ts[i] != "S" && ts[i] != "R" {
				return "bad-op"
			}
			flag = ts[i]
			i++
			continue
		}
		if i+2 >= len(ts) {
			return "bad-op"
		}
		cur = append(cur, pop{flag == "R", untok(ts[i]), untok(ts[i+1]), ts[i+2]})
		i += 3
	}
	groups = append(groups, cur)
	var body strings.Builder
	body.WriteString(`<?xml version="1.0" encoding="utf-8"?><D:propertyupdate xmlns:D="DAV:">`)
	anyLive := false
	var flat []pop
	for _, g := range groups {
		if len(g) == 0 {
			return "bad-op"
		}
		tag := "D:set"
		if g[0].remove {
			tag = "D:remove"
		}
		body.WriteString("<" + tag + "><D:prop>")
		for _, p := range g {
			if p.remove {
				body.WriteString(propElem(p.ns, p.local, "", true))
			} else {
				body.WriteString(propElem(p.ns, p.local, renderValue(parseCanon(p.val)), false))
			}
			if isLive(p.ns, p.local) {
				anyLive = true
			}
			flat = append(flat, p)
		}
		body.WriteString("</D:prop></" + tag + ">")
	}
	body.WriteString(`</D:propertyupdate>`)
	code, resp := w.do("PROPPATCH", tgt, body.String())
	if code != 207 {
		return fmt.Sprintf("err %d", code)
	}
	codes, props, err := parseMultistatus(resp)
	if err != nil {
		return "err xml"
	}
	// the property's own reference: protected names refuse the whole request, otherwise apply in order
	if anyLive {
		o.Stat("patch:conflict")
		for k, c := range codes {
			if c == 200 && len(props[k]) > 0 {
				o.Fail("", "PROPPATCH naming a protected live property reported 200 for some property")
			}
		}
	} else {
		o.Stat("patch:applied")
		for _, p := range flat {
			if p.remove {
				delete(w.ref[tgt], [2]string{p.ns, p.local})
			} else {
				w.ref[tgt][[2]string{p.ns, p.local}] = p.val
			}
		}
		if len(codes) != 1 || codes[0] != 200 {
			o.Fail("", fmt.Sprintf("PROPPATCH of dead properties did not report a single 200 propstat: %v", codes))
		}
	}
	var parts []string
	for k, c := range codes {
		var ns []string
		for _, p := range props[k] {
			ns = append(ns, tok(p.name.Space)+"/"+tok(p.name.Local))
		}
		parts = append(parts, fmt.Sprintf("%d:%s", c, strings.Join(ns, ",")))
	}
	return "ok " + strings.Join(parts, " ")
}

func (w *world) find(tgt string, ts []string, o *vu.Out) string {
	var body strings.Builder
	body.WriteString(`<?xml version="1.0" encoding="utf-8"?><D:propfind xmlns:D="DAV:"><D:prop>`)
	type nm struct{ ns, local string }
	var names []nm
	for i := 0; i+1 < len(ts); i += 2 {
		n := nm{untok(ts[i]), untok(ts[i+1])}
		names = append(names, n)
		body.WriteString(propElem(n.ns, n.local, "", true))
	}
	body.WriteString(`</D:prop></D:propfind>`)
	code, resp := w.do("PROPFIND", tgt, body.String())
	if code != 207 {
		return fmt.Sprintf("err %d", code)
	}
	codes, props, err := parseMultistatus(resp)
	if err != nil {
		return "err xml"
	}
	got := map[[2]string]string{} // name -> "404" or value
	var parts []string
	for k, c := range codes {
		var ns []string
		for _, p := range props[k] {
			name := tok(p.name.Space) + "/" + tok(p.name.Local)
			key := [2]string{p.name.Space, p.name.Local}
			if c == 200 {
				v := "live"
				if !isLive(p.name.Space, p.name.Local) {
					v = canonFromNode(p)
				}
				got[key] = v
				ns = append(ns, name+"="+v)
			} else {
				got[key] = fmt.Sprint(c)
				ns = append(ns, name)
			}
		}
		parts = append(parts, fmt.Sprintf("%d:%s", c, strings.Join(ns, ",")))
	}
	// oracle: C47 itself, against the reference map
	for _, n := range names {
		if isLive(n.ns, n.local) {
			continue
		}
		key := [2]string{n.ns, n.local}
		want, present := w.ref[tgt][key]
		g, ok := got[key]
		switch {
		case !ok:
			o.Fail("", fmt.Sprintf("PROPFIND response does not mention requested property {%s}%s", n.ns, n.local))
		case present && g != want:
			sig := ""
			for _, it := range parseCanon(want) {
				if it.elem == n.local && n.ns == "" {
					sig = "propvalue-nested-same-name"
				}
			}
			o.Fail(sig, fmt.Sprintf("dead property {%s}%s was set to %s but PROPFIND returned %s", n.ns, n.local, want, g))
		case !present && g != "404":
			o.Fail("", fmt.Sprintf("dead property {%s}%s was never set / was removed but PROPFIND returned %s", n.ns, n.local, g))
		}
	}
	return "ok " + strings.Join(parts, " ")
}

func main() { vu.Main(gen, exec) }
