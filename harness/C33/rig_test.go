//go:build verif

// C33 harness: QPACK wire encoding of internal/http3 (qpack*.go), driven through
// real *quic.Stream pairs of the package's own test rig inside a synctest bubble.
package http3

import (
	"bytes"
	"context"
	"fmt"
	"io"
	"os"
	"os/exec"
	"runtime/metrics"
	"sort"
	"strings"
	"syscall"
	"testing"
	"testing/synctest"

	"golang.org/x/net/http2/hpack"
	vu "golang.org/x/net/internal/verifutil"
	"golang.org/x/net/quic"
)

// ---------------------------------------------------------------- rig

type c33Rig struct {
	t      *testing.T
	c1, c2 *quic.Conn
}

func newC33Rig(t *testing.T) *c33Rig {
	config := &quic.Config{TLSConfig: testTLSConfig}
	e1, e2 := newQUICEndpointPair(t)
	c1, err := e1.Dial(context.Background(), "udp", e2.LocalAddr().String(), config)
	if err != nil {
		t.Fatal(err)
	}
	c2, err := e2.Accept(context.Background())
	if err != nil {
		t.Fatal(err)
	}
	return &c33Rig{t: t, c1: c1, c2: c2}
}

// withStream delivers data (followed by FIN) on a fresh QUIC stream, waits until
// every byte has arrived, and runs f on the receiving *stream.
func (r *c33Rig) withStream(data []byte, lim int64, f func(st *stream)) {
	s1, err := r.c1.NewStream(context.Background())
	if err != nil {
		r.t.Fatal(err)
	}
	s1.Write(data)
	s1.CloseWrite() // flushes; also creates the stream on the peer when data is empty
	s2, err := r.c2.AcceptStream(context.Background())
	if err != nil {
		r.t.Fatal(err)
	}
	synctest.Wait()
	st := newStream(s2)
	st.lim = lim
	f(st)
	s2.CloseRead()
	s2.CloseWrite()
	s1.CloseRead()
}

// state renders the observable stream state after an operation.
func c33State(st *stream, big bool) string {
	b := 0
	if big {
		b = 1
	}
	if st.stream == nil {
		return fmt.Sprintf("lim=%d rem=- dead=1 big=%d", st.lim, b)
	}
	rest, _ := io.ReadAll(st.stream)
	return fmt.Sprintf("lim=%d rem=%d dead=0 big=%d", st.lim, len(rest), b)
}

func c33ErrTag(err error) string {
	switch e := err.(type) {
	case http3Error:
		return fmt.Sprintf("h3:%d", int(e))
	case *connectionError:
		return fmt.Sprintf("conn:%d", int(e.code))
	case *streamError:
		return fmt.Sprintf("strm:%d", int(e.code))
	}
	if err == io.EOF {
		return "eof"
	}
	return "other"
}

// measure runs f and reports whether it allocated at least 1 MiB.
func c33Measure(f func()) (bigAlloc bool, bytes uint64) {
	sample := []metrics.Sample{{Name: "/gc/heap/allocs:bytes"}}
	metrics.Read(sample)
	m0 := sample[0].Value.Uint64()
	f()
	metrics.Read(sample)
	d := sample[0].Value.Uint64() - m0
	return d >= 1<<20, d
}

// ---------------------------------------------------------------- generator

var c33Names = []string{":authority", ":path", ":method", ":scheme", ":status", "accept", "accept-encoding",
	"content-type", "content-length", "cookie", "x-frame-options", "vary", "user-agent", "Content-Type", "ACCEPT",
	"x-custom", "foo", "X-Verif-Long-Header-Name", "a", "set-cookie", "location", "te", "x"}
var c33Values = []string{"", "/", "GET", "POST", "https", "200", "404", "*/*", "gzip, deflate, br", "text/html; charset=utf-8",
	"0", "bar", "deny", "sameorigin", "custom-value", "A", "\x00\xff", "TRACE", "100", "max-age=0"}

func c33GenName(r *vu.Rng) []byte {
	switch r.Intn(12) {
	case 0:
		return r.Bytes(r.Intn(6)) // arbitrary bytes (often non-ASCII -> skipped); may be empty
	case 1:
		return r.BytesFrom("abcXYZ-:_09 ~", r.Range(1, 12))
	case 2:
		n := []int{6, 7, 8, 126, 127, 128, 130}[r.Intn(7)] // around the 3-bit and 7-bit prefix limits
		return r.BytesFrom("abcdefghijklmnopqrstuvwxyz-", n)
	case 3:
		return []byte{}
	default:
		return []byte(c33Names[r.Intn(len(c33Names))])
	}
}

func c33GenValue(r *vu.Rng) []byte {
	switch r.Intn(10) {
	case 0:
		return r.Bytes(r.Intn(20))
	case 1:
		n := []int{126, 127, 128, 129, 254, 255, 256, 300}[r.Intn(8)]
		if r.Bool() {
			return r.BytesFrom("abcdefghijklmnopqrstuvwxyz0123456789 /=;", n)
		}
		return r.Bytes(n)
	case 2:
		return r.BytesFrom("ABCDEFGHIJKLMNOPQRSTUVWXYZ#$%^&*(){}", r.Intn(12)) // Huffman expands these
	default:
		return []byte(c33Values[r.Intn(len(c33Values))])
	}
}

type c33Field struct {
	never       bool
	name, value []byte
}

func c33GenFields(r *vu.Rng, wellFormed bool) []c33Field {
	n := r.Intn(7)
	var fs []c33Field
	for i := 0; i < n; i++ {
		var f c33Field
		f.never = r.Chance(1, 4)
		if r.Chance(1, 3) {
			// an exact static-table entry (possibly upper-cased name)
			e := staticTableEntries[r.Intn(len(staticTableEntries))]
			f.name, f.value = []byte(e.name), []byte(e.value)
			if r.Chance(1, 5) {
				f.name = bytes.ToUpper(f.name)
			}
		} else {
			f.name, f.value = c33GenName(r), c33GenValue(r)
		}
		fs = append(fs, f)
	}
	if wellFormed {
		// names non-empty, pseudo-headers first (what the decoder demands of a field section)
		var ps, rs []c33Field
		for _, f := range fs {
			if len(f.name) == 0 {
				continue
			}
			if f.name[0] == ':' {
				ps = append(ps, f)
			} else {
				rs = append(rs, f)
			}
		}
		fs = append(ps, rs...)
	}
	return fs
}

func c33FieldsOp(fs []c33Field) string {
	var b strings.Builder
	b.WriteString("enc")
	for _, f := range fs {
		t := "M"
		if f.never {
			t = "N"
		}
		fmt.Fprintf(&b, " %s %s %s", t, vu.Hex(f.name), vu.Hex(f.value))
	}
	return b.String()
}

func c33Encode(fs []c33Field) []byte {
	var enc qpackEncoder
	enc.init()
	return enc.encode(func(f func(itype indexType, name, value string)) {
		for _, x := range fs {
			it := indexType(mayIndex)
			if x.never {
				it = neverIndex
			}
			f(it, string(x.name), string(x.value))
		}
	})
}

// c33GenFieldLine builds one syntactically plausible field line by hand (all representations,
// including the ones this decoder must reject).
func c33GenFieldLine(r *vu.Rng) []byte {
	var b []byte
	str := func(first byte, p uint8, s []byte) {
		if r.Chance(1, 3) {
			h := hpack.AppendHuffmanString(nil, string(s))
			b = appendPrefixedInt(b, first|byte(1)<<p, p, int64(len(h)))
			b = append(b, h...)
		} else {
			b = appendPrefixedInt(b, first, p, int64(len(s)))
			b = append(b, s...)
		}
	}
	idx := func() int64 {
		switch r.Intn(6) {
		case 0:
			return int64([]int{98, 99, 100, 62, 63, 64, 14, 15, 16, 1000}[r.Intn(10)])
		case 1:
			return int64(r.Boundary(63))
		default:
			return int64(r.Intn(99))
		}
	}
	switch r.Intn(12) {
	case 0, 1, 2: // indexed, static
		b = appendPrefixedInt(b, 0xc0, 6, idx())
	case 3: // indexed, dynamic
		b = appendPrefixedInt(b, 0x80, 6, idx())
	case 4, 5, 6: // literal with name reference
		first := byte(0x40)
		if r.Chance(4, 5) {
			first |= 0x10 // static
		}
		if r.Chance(1, 3) {
			first |= 0x20 // never-index
		}
		b = appendPrefixedInt(b, first, 4, idx())
		str(0, 7, c33GenValue(r))
	case 7, 8, 9: // literal with literal name
		first := byte(0x20)
		if r.Chance(1, 3) {
			first |= 0x10
		}
		str(first, 3, c33GenName(r))
		str(0, 7, c33GenValue(r))
	case 10: // post-base forms / unassigned first bytes
		b = append(b, byte(r.Intn(32)))
		b = append(b, r.Bytes(r.Intn(3))...)
	default:
		b = r.Bytes(r.Range(1, 6))
	}
	return b
}

func c33GenSection(r *vu.Rng) []byte {
	var b []byte
	// prefix: Required Insert Count, Delta Base
	switch r.Intn(10) {
	case 0:
		b = appendPrefixedInt(b, 0, 8, int64(r.Boundary(20)))
	case 1:
		b = append(b, 0xff)
		b = append(b, r.Bytes(r.Intn(3))...)
	default:
		b = append(b, 0)
	}
	switch r.Intn(10) {
	case 0:
		b = appendPrefixedInt(b, byte(r.Intn(2))<<7, 7, int64(r.Boundary(20)))
	default:
		b = append(b, 0)
	}
	for n := r.Intn(5); n > 0; n-- {
		b = append(b, c33GenFieldLine(r)...)
	}
	return b
}

// c33Mutate applies the malformed-stream mutations: truncation, bit flip, byte insert/delete.
func c33Mutate(r *vu.Rng, b []byte) []byte {
	b = append([]byte{}, b...)
	for n := r.Range(1, 2); n > 0 && len(b) > 0; n-- {
		switch r.Intn(5) {
		case 0:
			b = b[:r.Intn(len(b)+1)]
		case 1:
			b[r.Intn(len(b))] ^= 1 << r.Intn(8)
		case 2:
			i := r.Intn(len(b) + 1)
			b = append(b[:i], append([]byte{byte(r.Uint64())}, b[i:]...)...)
		case 3:
			i := r.Intn(len(b))
			b = append(b[:i], b[i+1:]...)
		default:
			b[r.Intn(len(b))] = []byte{0xff, 0x7f, 0x3f, 0x1f, 0x0f, 0x07, 0x80, 0x00}[r.Intn(8)]
		}
	}
	return b
}

// c33Lim chooses the read limit for a section of n bytes: mostly exact, sometimes short/long.
// c33LimOrNone additionally allows "no limit" (-1); that is only used for prefixed integers:
// strings and field sections are only ever read inside a frame (lim >= 0), and outside a frame
// nothing at all bounds the declared string length.
func c33Lim(r *vu.Rng, n int) int64 {
	for {
		if l := c33LimOrNone(r, n); l >= 0 {
			return l
		}
	}
}

func c33LimOrNone(r *vu.Rng, n int) int64 {
	switch r.Intn(10) {
	case 0:
		return int64(r.Intn(n + 1))
	case 1:
		return int64(n + r.Range(1, 5))
	case 2:
		return -1
	default:
		return int64(n)
	}
}

// c33BigLiteral: a section whose literal declares a length far beyond the bytes present,
// inside a frame whose declared length (lim) allows it. Declared sizes are either < 64 KiB
// or in [2 MiB, 24 MiB] so that the 1 MiB "big allocation" flag is unambiguous.
func c33BigLiteral(r *vu.Rng) (data []byte, lim int64) {
	size := int64(r.Range(2<<20, 8<<20))
	if r.Chance(1, 4) {
		size = int64(r.Range(300, 60000))
	}
	b := []byte{0, 0}
	if r.Bool() {
		b = appendPrefixedInt(b, 0x20, 3, size) // literal name
	} else {
		b = appendPrefixedInt(b, 0x50|byte(r.Intn(2))<<5, 4, int64(r.Intn(99)))
		b = appendPrefixedInt(b, 0, 7, size) // literal value
	}
	b = append(b, r.Bytes(r.Intn(8))...)
	lim = size + int64(r.Range(16, 64))
	if r.Chance(1, 6) {
		lim = size + int64(r.Intn(4)) // around "size > lim"
	}
	return b, lim
}

func c33Gen(r *vu.Rng, i int) []string {
	if i == 0 {
		return []string{"table"}
	}
	switch k := r.Intn(100); {
	case k < 8: // prefixed integers, append side
		p := r.Range(1, 8)
		first := (r.Intn(256) >> uint(p)) << uint(p)
		v := r.Boundary(63)
		if r.Chance(1, 3) {
			v = uint64(1<<uint(p)) - 1 + uint64(r.Intn(3)) - 1 + uint64(r.Intn(2))*127
		}
		return []string{fmt.Sprintf("pint %d %d %d", first, p, v)}
	case k < 20: // prefixed integers, read side
		p := r.Range(1, 8)
		var b []byte
		switch r.Intn(4) {
		case 0:
			b = r.Bytes(r.Intn(13))
		case 1: // long / overflowing continuation
			b = append(b, 0xff)
			for n := r.Range(7, 11); n > 0; n-- {
				b = append(b, 0x80|byte(r.Uint64()))
			}
			b = append(b, byte(r.Intn(4)))
		default:
			b = appendPrefixedInt(nil, byte((r.Intn(256)>>uint(p))<<uint(p)), uint8(p), int64(r.Boundary(63)))
			if r.Chance(1, 4) {
				b = c33Mutate(r, b)
			}
		}
		b = append(b, r.Bytes(r.Intn(3))...)
		return []string{fmt.Sprintf("rpint %d %d %s", p, c33LimOrNone(r, len(b)), vu.Hex(b))}
	case k < 26: // strings, append side
		p := r.Range(1, 7)
		first := (r.Intn(256) >> uint(p+1)) << uint(p+1)
		return []string{fmt.Sprintf("pstr %d %d %s", first, p, vu.Hex(c33GenValue(r)))}
	case k < 36: // strings, read side
		p := r.Range(1, 7)
		first := byte((r.Intn(256) >> uint(p+1)) << uint(p+1))
		b := appendPrefixedString(nil, first, uint8(p), string(c33GenValue(r)))
		if r.Chance(1, 3) {
			b = c33Mutate(r, b)
		}
		if r.Chance(1, 8) {
			b = r.Bytes(r.Intn(12))
		}
		b = append(b, r.Bytes(r.Intn(3))...)
		return []string{fmt.Sprintf("rpstr %d %d %s", p, c33Lim(r, len(b)), vu.Hex(b))}
	case k < 40:
		s := c33GenValue(r)
		if r.Bool() {
			return []string{"huffenc " + vu.Hex(s)}
		}
		h := hpack.AppendHuffmanString(nil, string(s))
		if r.Chance(1, 2) {
			h = c33Mutate(r, h)
		}
		return []string{"huffdec " + vu.Hex(h)}
	case k < 44:
		if r.Bool() {
			e := staticTableEntries[r.Intn(len(staticTableEntries))]
			v := []byte(e.value)
			if r.Chance(1, 3) {
				v = c33GenValue(r)
			}
			return []string{fmt.Sprintf("lookup %s %s", vu.Hex([]byte(e.name)), vu.Hex(v))}
		}
		return []string{fmt.Sprintf("lookup %s %s", vu.Hex(c33GenName(r)), vu.Hex(c33GenValue(r)))}
	case k < 62: // encoder, then the decoder on its output
		fs := c33GenFields(r, r.Chance(5, 6))
		enc := c33Encode(fs)
		return []string{c33FieldsOp(fs), fmt.Sprintf("dec %d %s", len(enc), vu.Hex(enc))}
	case k < 80: // hand-built sections
		b := c33GenSection(r)
		return []string{fmt.Sprintf("dec %d %s", c33Lim(r, len(b)), vu.Hex(b))}
	case k < 95: // mutated encoder output
		b := c33Mutate(r, c33Encode(c33GenFields(r, true)))
		return []string{fmt.Sprintf("dec %d %s", c33Lim(r, len(b)), vu.Hex(b))}
	case k < 99:
		b := r.Bytes(r.Intn(24))
		return []string{fmt.Sprintf("dec %d %s", c33Lim(r, len(b)), vu.Hex(b))}
	default:
		b, lim := c33BigLiteral(r)
		return []string{fmt.Sprintf("dec %d %s", lim, vu.Hex(b))}
	}
}

// ---------------------------------------------------------------- executor

const c33InProcessLimit = 64 << 20 // larger declared limits run in a child process

type c33Exec struct {
	rig *c33Rig
}

func (x *c33Exec) exec(ops []string, o *vu.Out) {
	var lastEnc []c33Field
	var lastEncOK bool
	for _, op := range ops {
		t := strings.Fields(op)
		if len(t) == 0 {
			o.Op(op, "bad-op")
			continue
		}
		o.Stat("op:" + t[0])
		switch {
		case t[0] == "pint" && len(t) == 4:
			first, p, v := vu.Atoi(t[1]), vu.Atoi(t[2]), vu.Atou64(t[3])
			if p < 1 || p > 8 || first > 255 || first%(1<<uint(p)) != 0 || v > 1<<63-1 {
				o.Op(op, "bad-op")
				continue
			}
			res := vu.Catch(func() string {
				return "ok " + vu.Hex(appendPrefixedInt(nil, byte(first), uint8(p), int64(v)))
			})
			o.Op(op, res)
			x.oraclePint(byte(first), uint8(p), int64(v), o)
		case t[0] == "pstr" && len(t) == 4:
			first, p, s := vu.Atoi(t[1]), vu.Atoi(t[2]), vu.MustHex(t[3])
			if p < 1 || p > 7 || first > 255 || first%(1<<uint(p+1)) != 0 {
				o.Op(op, "bad-op")
				continue
			}
			o.Op(op, vu.Catch(func() string {
				return "ok " + vu.Hex(appendPrefixedString(nil, byte(first), uint8(p), string(s)))
			}))
			x.oraclePstr(byte(first), uint8(p), s, o)
		case t[0] == "rpint" && len(t) == 4:
			p, lim, data := vu.Atoi(t[1]), vu.Atoi64(t[2]), vu.MustHex(t[3])
			if p < 1 || p > 8 || lim < -1 {
				o.Op(op, "bad-op")
				continue
			}
			var res string
			x.rig.withStream(data, lim, func(st *stream) {
				res = vu.Catch(func() string {
					first, v, err := st.readPrefixedInt(uint8(p))
					if err != nil {
						o.Stat("rpint:err:" + c33ErrTag(err))
						return "err " + c33ErrTag(err) + " " + c33State(st, false)
					}
					return fmt.Sprintf("ok %d %d %s", first, v, c33State(st, false))
				})
			})
			o.Op(op, res)
		case t[0] == "rpstr" && len(t) == 4:
			p, lim, data := vu.Atoi(t[1]), vu.Atoi64(t[2]), vu.MustHex(t[3])
			if p < 1 || p > 7 || lim < 0 || lim > c33InProcessLimit {
				o.Op(op, "bad-op")
				continue
			}
			var res string
			x.rig.withStream(data, lim, func(st *stream) {
				res = vu.Catch(func() string {
					first, s, err := st.readPrefixedString(uint8(p))
					if err != nil {
						o.Stat("rpstr:err:" + c33ErrTag(err))
						return "err " + c33ErrTag(err) + " " + c33State(st, false)
					}
					return fmt.Sprintf("ok %d %s %s", first, vu.Hex([]byte(s)), c33State(st, false))
				})
			})
			o.Op(op, res)
		case t[0] == "enc" && len(t)%3 == 1:
			fs, ok := c33ParseFields(t[1:])
			if !ok {
				o.Op(op, "bad-op")
				continue
			}
			var enc []byte
			res := vu.Catch(func() string {
				enc = c33Encode(fs)
				return "ok " + vu.Hex(enc)
			})
			o.Op(op, res)
			lastEnc, lastEncOK = fs, res != "panic"
			if lastEncOK {
				x.oracleRoundTrip(fs, enc, o)
			} else {
				o.Fail("", "qpackEncoder.encode panicked on "+op)
			}
		case t[0] == "dec" && len(t) == 3:
			lim, data := vu.Atoi64(t[1]), vu.MustHex(t[2])
			if lim < 0 {
				o.Op(op, "bad-op")
				continue
			}
			if lim > c33InProcessLimit {
				o.Op(op, c33RunChild(op, o))
				continue
			}
			res, _, _ := x.decode(data, lim, o)
			o.Op(op, res)
		case t[0] == "table" && len(t) == 1:
			var b strings.Builder
			fmt.Fprintf(&b, "ok %d", len(staticTableEntries))
			for _, e := range staticTableEntries {
				fmt.Fprintf(&b, " %s:%s", vu.Hex([]byte(e.name)), vu.Hex([]byte(e.value)))
			}
			o.Op(op, b.String())
		case t[0] == "lookup" && len(t) == 3:
			var enc qpackEncoder
			enc.init()
			n, v := string(vu.MustHex(t[1])), string(vu.MustHex(t[2]))
			a, b := "-", "-"
			if i, ok := staticTableByNameValue[tableEntry{n, v}]; ok {
				a = fmt.Sprint(i)
				if staticTableEntries[i] != (tableEntry{n, v}) {
					o.Fail("", fmt.Sprintf("staticTableByNameValue[%q,%q]=%d names a different entry", n, v, i))
				}
			}
			if i, ok := staticTableByName[n]; ok {
				b = fmt.Sprint(i)
				if staticTableEntries[i].name != n {
					o.Fail("", fmt.Sprintf("staticTableByName[%q]=%d names a different entry", n, i))
				}
			}
			o.Op(op, "ok "+a+" "+b)
		case t[0] == "huffenc" && len(t) == 2:
			s := vu.MustHex(t[1])
			o.Op(op, fmt.Sprintf("ok %d %s", hpack.HuffmanEncodeLength(string(s)), vu.Hex(hpack.AppendHuffmanString(nil, string(s)))))
		case t[0] == "huffdec" && len(t) == 2:
			s, err := hpack.HuffmanDecodeToString(vu.MustHex(t[1]))
			if err != nil {
				o.Op(op, "err")
			} else {
				o.Op(op, "ok "+vu.Hex([]byte(s)))
			}
		default:
			o.Op(op, "bad-op")
		}
	}
	_ = lastEnc
}

func c33ParseFields(t []string) ([]c33Field, bool) {
	var fs []c33Field
	for i := 0; i+2 < len(t); i += 3 {
		if t[i] != "N" && t[i] != "M" {
			return nil, false
		}
		n, ok1 := vu.ParseHex(t[i+1])
		v, ok2 := vu.ParseHex(t[i+2])
		if !ok1 || !ok2 {
			return nil, false
		}
		fs = append(fs, c33Field{t[i] == "N", n, v})
	}
	return fs, true
}

// decode runs qpackDecoder.decode on a fresh stream carrying data with read limit lim.
func (x *c33Exec) decode(data []byte, lim int64, o *vu.Out) (res string, got []c33Field, err error) {
	x.rig.withStream(data, lim, func(st *stream) {
		var big bool
		var nbytes uint64
		var panicked bool
		big, nbytes = c33Measure(func() {
			defer func() {
				if e := recover(); e != nil {
					panicked = true
				}
			}()
			var dec qpackDecoder
			err = dec.decode(st, func(itype indexType, name, value string) error {
				got = append(got, c33Field{itype == neverIndex, []byte(name), []byte(value)})
				return nil
			})
		})
		if panicked {
			res = "panic"
			o.Fail("", fmt.Sprintf("qpackDecoder.decode panicked on lim=%d data=%x", lim, data))
			return
		}
		// Oracle: memory allocated while decoding is bounded by the bytes actually received.
		if nbytes > 1<<20+64*uint64(len(data)) {
			o.Fail("", fmt.Sprintf(
				"qpackDecoder.decode allocated %d bytes for a %d-byte stream (frame limit %d): a declared literal length is trusted before the bytes arrive; data=%x",
				nbytes, len(data), lim, data))
		}
		head := "ok -"
		if err != nil {
			head = "err " + c33ErrTag(err)
			o.Stat("dec:err:" + c33ErrTag(err))
		} else {
			o.Stat("dec:ok")
		}
		var b strings.Builder
		fmt.Fprintf(&b, "%s %s n=%d ", head, c33State(st, big), len(got))
		for i, f := range got {
			if i > 0 {
				b.WriteByte(' ')
			}
			t := "M"
			if f.never {
				t = "N"
			}
			fmt.Fprintf(&b, "%s:%s:%s", t, vu.Hex(f.name), vu.Hex(f.value))
		}
		res = b.String()
		x.oracleDecoded(data, lim, got, err, o)
	})
	return res, got, err
}

// ---------------------------------------------------------------- oracles (the property on the implementation)

func c33Lower(name []byte) ([]byte, bool) {
	out := make([]byte, len(name))
	for i, c := range name {
		if c < ' ' || c > '~' {
			return nil, false
		}
		if 'A' <= c && c <= 'Z' {
			c += 'a' - 'A'
		}
		out[i] = c
	}
	return out, true
}

// oracleRoundTrip: decode(encode(fs)) = fs with names lower-cased, non-ASCII names dropped,
// never-index flag preserved — for field lists the decoder is specified to accept
// (no empty names, pseudo-headers first).
func (x *c33Exec) oracleRoundTrip(fs []c33Field, enc []byte, o *vu.Out) {
	var want []c33Field
	wellFormed := true
	sawRegular := false
	for _, f := range fs {
		n, ok := c33Lower(f.name)
		if !ok {
			continue
		}
		if len(n) == 0 {
			wellFormed = false
		} else if n[0] == ':' {
			if sawRegular {
				wellFormed = false
			}
		} else {
			sawRegular = true
		}
		want = append(want, c33Field{f.never, n, f.value})
	}
	_, got, err := x.decode(enc, int64(len(enc)), o)
	if !wellFormed {
		o.Stat("roundtrip:not-wellformed")
		if err == nil {
			o.Fail("", fmt.Sprintf("decoder accepted a section with an empty name or a pseudo-header after a regular field: %x", enc))
		}
		return
	}
	o.Stat("roundtrip:checked")
	if err != nil {
		o.Fail("", fmt.Sprintf("decode(encode(fs)) failed with %v; enc=%x", err, enc))
		return
	}
	if len(got) != len(want) {
		o.Fail("", fmt.Sprintf("decode(encode(fs)) returned %d fields, want %d; enc=%x", len(got), len(want), enc))
		return
	}
	for i := range got {
		if got[i].never != want[i].never || !bytes.Equal(got[i].name, want[i].name) || !bytes.Equal(got[i].value, want[i].value) {
			o.Fail("", fmt.Sprintf("decode(encode(fs)) field %d = (%v,%q,%q), want (%v,%q,%q); enc=%x", i,
				got[i].never, got[i].name, got[i].value, want[i].never, want[i].name, want[i].value, enc))
			return
		}
	}
}

// oracleDecoded: whatever the bytes, accepted output satisfies the decoder's contract.
func (x *c33Exec) oracleDecoded(data []byte, lim int64, got []c33Field, err error, o *vu.Out) {
	sawRegular := false
	for _, f := range got {
		if len(f.name) == 0 {
			o.Fail("", fmt.Sprintf("decoder delivered an empty field name; data=%x", data))
			return
		}
		if f.name[0] == ':' {
			if sawRegular {
				o.Fail("", fmt.Sprintf("decoder delivered pseudo-header %q after a regular field; data=%x", f.name, data))
				return
			}
		} else {
			sawRegular = true
		}
	}
	if err == nil && len(data) >= 1 && data[0] != 0 {
		o.Fail("", fmt.Sprintf("decoder accepted a non-zero Required Insert Count; data=%x", data))
	}
}

func (x *c33Exec) oraclePint(first byte, p uint8, v int64, o *vu.Out) {
	enc := appendPrefixedInt(nil, first, p, v)
	tail := []byte{0x55, 0xaa}
	x.rig.withStream(append(append([]byte{}, enc...), tail...), -1, func(st *stream) {
		fb, got, err := st.readPrefixedInt(p)
		if err != nil || got != v || fb != enc[0] {
			o.Fail("", fmt.Sprintf("readPrefixedInt(appendPrefixedInt(%#x,%d,%d)) = %#x,%d,%v", first, p, v, fb, got, err))
			return
		}
		rest, _ := io.ReadAll(st.stream)
		if !bytes.Equal(rest, tail) {
			o.Fail("", fmt.Sprintf("readPrefixedInt consumed the wrong number of bytes for (%#x,%d,%d): rest=%x", first, p, v, rest))
		}
	})
}

func (x *c33Exec) oraclePstr(first byte, p uint8, s []byte, o *vu.Out) {
	enc := appendPrefixedString(nil, first, p, string(s))
	x.rig.withStream(append(append([]byte{}, enc...), 0x55), int64(len(enc)), func(st *stream) {
		_, got, err := st.readPrefixedString(p)
		if err != nil || got != string(s) || st.lim != 0 {
			o.Fail("", fmt.Sprintf("readPrefixedString(appendPrefixedString(%#x,%d,%q)) = %q,%v lim=%d", first, p, s, got, err, st.lim))
		}
	})
}

// ---------------------------------------------------------------- child process for huge declared limits

// c33RunChild executes one `dec` op whose declared frame limit exceeds the in-process
// bound in a re-exec of this test binary under a 4 GiB address-space limit, so that a
// fatal out-of-memory abort of the Go runtime is observed as the result "crash".
func c33RunChild(op string, o *vu.Out) string {
	cmd := exec.Command(os.Args[0], "-test.run", "^TestVerifC33Child$", "-test.count=1")
	cmd.Env = append(os.Environ(), "VERIF_C33_CHILD_OP="+op, "GOMEMLIMIT=1GiB", "GOTRACEBACK=none")
	cmd.SysProcAttr = &syscall.SysProcAttr{}
	out, err := c33RunLimited(cmd)
	const marker = "C33CHILD-RESULT: "
	if i := strings.Index(out, marker); i >= 0 {
		line := out[i+len(marker):]
		if j := strings.IndexByte(line, '\n'); j >= 0 {
			line = line[:j]
		}
		return line
	}
	if err != nil && (strings.Contains(out, "out of memory") || strings.Contains(out, "cannot allocate memory")) {
		o.Stat("dec:child-crash")
		o.Fail("", "process died with a fatal out-of-memory error (not recoverable) decoding "+op)
		return "crash"
	}
	return "child-failed"
}

func c33RunLimited(cmd *exec.Cmd) (string, error) {
	// run through /bin/sh so that `ulimit -v` applies to the child only
	sh := exec.Command("/bin/sh", "-c", "ulimit -v 4194304; exec \"$0\" \"$@\"", cmd.Path)
	sh.Args = append(sh.Args, cmd.Args[1:]...)
	sh.Env = cmd.Env
	b, err := sh.CombinedOutput()
	return string(b), err
}

func TestVerifC33Child(t *testing.T) {
	op := os.Getenv("VERIF_C33_CHILD_OP")
	if op == "" {
		t.Skip("child mode only")
	}
	f := strings.Fields(op)
	synctest.Test(t, func(t *testing.T) {
		x := &c33Exec{rig: newC33Rig(t)}
		dir, _ := os.MkdirTemp("", "c33child")
		defer os.RemoveAll(dir)
		o := vu.OpenOut(dir)
		res, _, _ := x.decode(vu.MustHex(f[2]), vu.Atoi64(f[1]), o)
		fmt.Println("C33CHILD-RESULT: " + res)
	})
}

// ---------------------------------------------------------------- entry point

func TestVerifC33(t *testing.T) {
	synctest.Test(t, func(t *testing.T) {
		x := &c33Exec{rig: newC33Rig(t)}
		vu.Run(vu.ConfigFromEnv(), c33Gen, x.exec)
	})
}

var _ = sort.Strings
