//go:build verif

package idna

// White-box shims for the C50 harness (injected with -overlay, never committed).

func VerifDecode(s string) (string, error)         { return decode(s) }
func VerifEncode(prefix, s string) (string, error) { return encode(prefix, s) }
func VerifAdapt(delta, numPoints int32, first bool) int32 {
	return adapt(delta, numPoints, first)
}
func VerifMadd(a, b, c int32) (int32, bool) { return madd(a, b, c) }
func VerifDecodeDigit(x byte) (int32, bool) { return decodeDigit(x) }
func VerifEncodeDigit(d int32) byte         { return encodeDigit(d) }

const VerifUnicode16 = unicode16
const VerifAcePrefix = acePrefix
