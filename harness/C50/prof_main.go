//go:build verif

// C50 harness, tie `profiles` (V-tie): every exported profile (and New(...) with
// options) is run on generated domains; the observations are recorded as one
// `obs` line that the Lean monitor judges, and the same clauses are stated on
// the implementation as oracles.
package main

import (
	"fmt"
	"strings"

	"golang.org/x/net/idna"
	vu "golang.org/x/net/internal/verifutil"
)

type prof struct {
	name string
	p    *idna.Profile
	maps bool // has a mapping step that folds ASCII case
	// flags handed to the monitor: "t" transitional processing; "v" decoded A-labels are validated
	// (fromPuny) but the mapping step does not validate U-labels; "-" none
	flags string
}

var profiles = []prof{
	{"Punycode", idna.Punycode, false, "-"},
	{"Lookup", idna.Lookup, true, "-"},
	{"Display", idna.Display, true, "-"},
	{"Registration", idna.Registration, false, "-"},
	{"New()", idna.New(), false, "-"},
	{"New(MapForLookup,BidiRule)", idna.New(idna.MapForLookup(), idna.BidiRule()), true, "-"},
	{"New(ValidateLabels)", idna.New(idna.ValidateLabels(true)), false, "v"},
	{"New(ValidateForRegistration)", idna.New(idna.ValidateForRegistration()), false, "-"},
	{"New(MapForLookup,Transitional)", idna.New(idna.MapForLookup(), idna.Transitional(true)), true, "t"},
	{"New(MapForLookup,!STD3,!CheckHyphens)", idna.New(idna.MapForLookup(), idna.StrictDomainName(false), idna.CheckHyphens(false)), true, "-"},
	{"New(VerifyDNSLength)", idna.New(idna.VerifyDNSLength(true)), false, "-"},
	{"New(CheckHyphens,CheckJoiners)", idna.New(idna.CheckHyphens(true), idna.CheckJoiners(true)), false, "-"},
}

func gen(r *vu.Rng, i int) []string {
	p := r.Intn(len(profiles))
	return []string{fmt.Sprintf("obs %d %s %s", p, profiles[p].flags, runesTok(genDomain(r)))}
}

func lowerASCII(s string) string {
	b := []byte(s)
	for i, c := range b {
		if c >= 'A' && c <= 'Z' {
			b[i] = c + 32
		}
	}
	return string(b)
}

func isASCIILower(s string) bool {
	for i := 0; i < len(s); i++ {
		if s[i] >= 0x80 || (s[i] >= 'A' && s[i] <= 'Z') {
			return false
		}
	}
	return true
}

const ace = "xn--"

// foldDots maps the full stops that UTS 46 maps to '.' (mapping profiles split labels there).
var foldDots = strings.NewReplacer("\u3002", ".", "\uff0e", ".", "\uff61", ".").Replace

// asciiOnlyALabel: "xn--"+p with decode(p) = u, nil and u all ASCII (possibly empty).
func asciiOnlyALabel(l string) bool {
	if !strings.HasPrefix(l, ace) {
		return false
	}
	u, err := idna.VerifDecode(l[4:])
	return err == nil && isASCIIStr(u)
}

func anyLabel(s string, f func(string) bool) bool {
	for _, l := range strings.Split(s, ".") {
		if f(l) {
			return true
		}
	}
	return false
}

func hasAce(l string) bool { return strings.HasPrefix(l, ace) }

func exec(ops []string, o *vu.Out) {
	for _, op := range ops {
		t := strings.Fields(op)
		if len(t) < 4 || t[0] != "obs" {
			o.Op(op, "bad-op")
			continue
		}
		pi := vu.Atoi(t[1])
		x, ok := parseRunesTok(t[3])
		if !ok || pi < 0 || pi >= len(profiles) || t[2] != profiles[pi].flags {
			o.Op(op, "bad-op")
			continue
		}
		pr := profiles[pi]
		a, ae := pr.p.ToASCII(x)
		aa, aae := pr.p.ToASCII(a)
		u, ue := pr.p.ToUnicode(x)
		au, aue := pr.p.ToASCII(u)
		o.Stat("profile:" + pr.name)
		if ae == nil {
			o.Stat("toascii:accepted")
		} else {
			o.Stat("toascii:rejected")
		}
		line := fmt.Sprintf("obs %d %s %s %s %s %s %s %s %s %s %s", pi, pr.flags, runesTok(x), runesTok(a), b01(ae != nil),
			runesTok(aa), b01(aae != nil), runesTok(u), b01(ue != nil), runesTok(au), b01(aue != nil))
		o.Op(line, "ok")

		// ---- oracles: the clauses of C50 stated on the implementation.
		// (1) A processed "xn--" label whose payload decodes to ASCII only (or to nothing) must be rejected.
		procLabels := x
		if pr.maps {
			procLabels = foldDots(lowerASCII(x))
		}
		if anyLabel(procLabels, asciiOnlyALabel) {
			o.Stat("region:ascii-only-alabel")
			if ae == nil {
				o.Fail("", fmt.Sprintf("%s.ToASCII(%q) = %q, nil: an 'xn--' label decoding to ASCII only is accepted (unicode16=%v)", pr.name, x, a, idna.VerifUnicode16))
			}
			if ue == nil {
				o.Fail("", fmt.Sprintf("%s.ToUnicode(%q) = %q, nil: an 'xn--' label decoding to ASCII only is accepted (unicode16=%v)", pr.name, x, u, idna.VerifUnicode16))
			}
		}
		// (2) A processed "xn--" label whose payload contains a non-ASCII code point is invalid Punycode.
		if anyLabel(procLabels, func(l string) bool { return hasAce(l) && !isASCIIStr(l) }) {
			o.Stat("region:non-ascii-payload")
			if ae == nil {
				o.Fail("", fmt.Sprintf("%s.ToASCII(%q) = %q, nil: an 'xn--' label with a non-ASCII payload is accepted", pr.name, x, a))
			}
		}
		if isASCIILower(x) {
			undec := anyLabel(x, func(l string) bool {
				if !hasAce(l) {
					return false
				}
				_, err := idna.VerifDecode(l[4:])
				return err != nil
			})
			if undec {
				o.Stat("region:undecodable-alabel")
				if ae == nil || ue == nil {
					o.Fail("", fmt.Sprintf("%s: %q has an undecodable 'xn--' label but ToASCII err=%v ToUnicode err=%v", pr.name, x, ae, ue))
				}
			}
		}
		if ae != nil {
			continue
		}
		vonly := strings.Contains(pr.flags, "v")
		if aae != nil || aa != a {
			sig := ""
			if vonly {
				o.Stat("region:validatelabels-only-profile")
				sig = "idna-validatelabels-ulabel-runes-unchecked"
			}
			o.Fail(sig, fmt.Sprintf("%s.ToASCII not idempotent: %q -> %q -> %q,%v", pr.name, x, a, aa, aae))
		}
		if vonly {
			// covered by the idempotence clause above for this profile
		} else if strings.Contains(pr.flags, "t") && strings.ContainsAny(u, "\u00df\u03c2\u200c\u200d") {
			// transitional processing maps/drops the deviation characters in U-labels but keeps them in
			// decoded A-labels (ToUnicode is always non-transitional)
			o.Stat("region:transitional-deviation")
			if aue != nil || au != a {
				o.Fail("idna-transitional-alabel-deviation-roundtrip", fmt.Sprintf("%s: ToASCII(%q)=%q but ToUnicode gives %q (holds a UTS 46 deviation character) and ToASCII of that = %q,%v", pr.name, x, a, u, au, aue))
			}
		} else if anyLabel(u, hasAce) {
			o.Stat("region:tounicode-yields-ace-label")
			if aue != nil || au != a {
				o.Fail("idna-tounicode-yields-ace-label", fmt.Sprintf("%s: ToASCII(%q)=%q but ToUnicode gives %q (a label that again starts with 'xn--') and ToASCII of that = %q,%v", pr.name, x, a, u, au, aue))
			}
		} else if aue != nil || au != a {
			o.Fail("", fmt.Sprintf("%s: ToASCII(ToUnicode(x)) != ToASCII(x): x=%q a=%q u=%q,%v au=%q,%v", pr.name, x, a, u, ue, au, aue))
		}
		for _, l := range strings.Split(a, ".") {
			if !hasAce(l) {
				continue
			}
			du, err := idna.VerifDecode(l[4:])
			back, err2 := idna.VerifEncode("", du)
			if err != nil || isASCIIStr(du) || err2 != nil || back != l[4:] {
				o.Fail("", fmt.Sprintf("%s.ToASCII(%q) = %q has a non-canonical A-label %q (decode=%q,%v encode=%q,%v)", pr.name, x, a, l, du, err, back, err2))
			}
		}
	}
}

func main() { vu.Main(gen, exec) }
