//go:build verif

package main

// Shared helpers of the two C50 harness mains (token format, rune pools).

import (
	"strconv"
	"strings"

	"golang.org/x/net/idna"
	vu "golang.org/x/net/internal/verifutil"
)

// runesTok renders a string the way the Lean driver reads it: the code points
// `for _, r := range s` yields, comma separated ("-" when empty).
func runesTok(s string) string {
	if s == "" {
		return "-"
	}
	var b strings.Builder
	first := true
	for _, r := range s {
		if !first {
			b.WriteByte(',')
		}
		first = false
		b.WriteString(strconv.Itoa(int(r)))
	}
	return b.String()
}

func parseRunesTok(t string) (string, bool) {
	if t == "-" {
		return "", true
	}
	var rs []rune
	for _, p := range strings.Split(t, ",") {
		v, err := strconv.Atoi(p)
		if err != nil || v < 0 || v > 0x10ffff {
			return "", false
		}
		rs = append(rs, rune(v))
	}
	return string(rs), true
}

func b01(b bool) string {
	if b {
		return "1"
	}
	return "0"
}

func isASCIIStr(s string) bool {
	for i := 0; i < len(s); i++ {
		if s[i] >= 0x80 {
			return false
		}
	}
	return true
}

var unicodeLabels = []string{
	"bücher", "faß", "straße", "ΒΌΛΟΣ", "βόλος", "βόλοσ", "пример", "例え", "中文", "他们为什么不说中文",
	"日本語", "ａｂｃ", "İstanbul", "ü", "é", "ä", "ä", "ñandú", "💩", "a💩b", "\U0010ffff", "\u0080",
	"�", "a‍b", "a‌b", "a­b", "́a", "㈱", "ǆ", "ß", "ς", "ẞ", "ＸＮ", "né", "𐌀𐌁", "١٢٣", "שלום", "مثال",
	"a्‍b", "l·l", "ü-", "-ü", "ab--ü", str("ü").repeat3(), "ı", "K", "ﬁ",
}

type str string

func (s str) repeat3() string { return strings.Repeat(string(s), 3) }

var asciiLabels = []string{
	"a", "abc", "example", "www", "com", "a-b", "a1", "123", "-a", "a-", "ab--c", "a_b", "", "x", "xn", "xn-", "x--n",
	strings.Repeat("a", 63), strings.Repeat("a", 64), "A", "Example", "a b", "a*b",
}

func randRune(r *vu.Rng) rune {
	for {
		var c rune
		switch r.Intn(9) {
		case 0:
			c = rune(r.Range(0x80, 0xff))
		case 1:
			c = rune(r.Range(0x100, 0x24f))
		case 2:
			c = rune(r.Range(0x370, 0x3ff))
		case 3:
			c = rune(r.Range(0x400, 0x4ff))
		case 4:
			c = rune(r.Range(0x4e00, 0x4e80))
		case 5:
			c = rune(r.Range(0x3040, 0x30ff))
		case 6:
			c = rune(r.Range(0x10000, 0x10ffff))
		case 7:
			c = []rune{0x80, 0xd7ff, 0xe000, 0xfffd, 0xffff, 0x10000, 0x10ffff, 0x10fffe}[r.Intn(8)]
		default:
			c = rune(r.Range(0x80, 0xffff))
		}
		if c >= 0xd800 && c <= 0xdfff {
			continue
		}
		return c
	}
}

func randLDH(r *vu.Rng, n int) string {
	return string(r.BytesFrom("abcdefghijklmnopqrstuvwxyz0123456789-", n))
}

// randUnicodeLabel: a mix of LDH ASCII and non-ASCII code points.
func randUnicodeLabel(r *vu.Rng) string {
	n := r.Range(1, 8)
	var rs []rune
	script := r.Intn(5)
	for i := 0; i < n; i++ {
		if r.Chance(1, 3) {
			rs = append(rs, rune(randLDH(r, 1)[0]))
			continue
		}
		switch script {
		case 0:
			rs = append(rs, rune(r.Range(0xe0, 0xff)))
		case 1:
			rs = append(rs, rune(r.Range(0x3b1, 0x3c9)))
		case 2:
			rs = append(rs, rune(r.Range(0x430, 0x44f)))
		case 3:
			rs = append(rs, rune(r.Range(0x4e00, 0x4e80)))
		default:
			rs = append(rs, randRune(r))
		}
	}
	return string(rs)
}

func mutateALabelPayload(r *vu.Rng, p string) string {
	b := []byte(p)
	switch r.Intn(6) {
	case 0: // upper-case one letter
		if len(b) > 0 {
			i := r.Intn(len(b))
			if b[i] >= 'a' && b[i] <= 'z' {
				b[i] -= 32
			}
		}
	case 1: // truncate
		if len(b) > 0 {
			b = b[:r.Intn(len(b))]
		}
	case 2: // append digits
		b = append(b, randLDH(r, r.Range(1, 3))...)
	case 3: // replace one byte
		if len(b) > 0 {
			b[r.Intn(len(b))] = randLDH(r, 1)[0]
		}
	case 4: // overflow-ish
		b = append(b, "99999999999"...)
	default: // non-digit byte
		b = append(b, "!_ ~"[r.Intn(4)])
	}
	return string(b)
}

// genLabel produces one label (no dots unless a pool entry maps to one).
func genLabel(r *vu.Rng) string {
	switch r.Intn(12) {
	case 0, 1:
		return asciiLabels[r.Intn(len(asciiLabels))]
	case 2:
		return randLDH(r, r.Range(1, 10))
	case 3, 4:
		return unicodeLabels[r.Intn(len(unicodeLabels))]
	case 5:
		return randUnicodeLabel(r)
	case 6, 7: // well-formed A-label
		var u string
		if r.Bool() {
			u = unicodeLabels[r.Intn(len(unicodeLabels))]
		} else {
			u = randUnicodeLabel(r)
		}
		a, err := idna.VerifEncode("xn--", u)
		if err != nil {
			return "xn--a"
		}
		if r.Chance(1, 8) {
			return "XN--" + a[4:]
		}
		return a
	case 8: // mutated A-label
		a, _ := idna.VerifEncode("", randUnicodeLabel(r))
		return "xn--" + mutateALabelPayload(r, a)
	case 9: // ASCII-only A-label (the C50 deviation region)
		switch r.Intn(5) {
		case 0:
			return "xn--"
		case 1:
			return "xn--xn--" + randLDH(r, r.Range(1, 4)) + "--"
		case 2:
			return "XN--" + strings.ToUpper(randLDH(r, r.Range(1, 5))) + "-"
		default:
			return "xn--" + randLDH(r, r.Range(1, 6)) + "-"
		}
	case 10: // payload with non-ASCII literal part, or nested ACE prefix after decoding
		if r.Bool() {
			return "xn--" + randUnicodeLabel(r) + "-" + randLDH(r, r.Intn(4))
		}
		a, _ := idna.VerifEncode("xn--", "xn--"+randUnicodeLabel(r))
		return a
	default: // raw LDH after the prefix
		return "xn--" + randLDH(r, r.Range(1, 8))
	}
}

func genDomain(r *vu.Rng) string {
	n := 1
	if r.Chance(2, 3) {
		n = r.Range(1, 4)
	}
	ls := make([]string, n)
	for i := range ls {
		ls[i] = genLabel(r)
	}
	d := strings.Join(ls, ".")
	if r.Chance(1, 8) {
		d += "."
	}
	if r.Chance(1, 20) {
		d = "." + d
	}
	if r.Chance(1, 30) {
		d = strings.Replace(d, ".", "。", 1)
	}
	// what the harness hands to Go is always valid UTF-8 without surrogates
	return string([]rune(d))
}
