//go:build verif

// C50 harness, tie `puny`: idna/punycode.go (encode, decode, adapt, madd, digit
// maps) and Profile.process of the Punycode profile, differentially against
// the Lean model; Punycode-inverse oracles on the implementation.
package main

import (
	"fmt"
	"strings"

	"golang.org/x/net/idna"
	vu "golang.org/x/net/internal/verifutil"
)

func genRunes(r *vu.Rng) string {
	n := r.Intn(12)
	switch r.Intn(40) {
	case 0:
		n = r.Range(1020, 1030)
	case 1:
		n = r.Range(40, 90)
	}
	var rs []rune
	mode := r.Intn(5)
	for i := 0; i < n; i++ {
		switch {
		case mode == 0:
			rs = append(rs, rune(r.Range(0x20, 0x7e)))
		case mode == 1 && r.Chance(2, 3):
			rs = append(rs, rune(randLDH(r, 1)[0]))
		case mode == 2 && len(rs) > 0 && r.Bool():
			rs = append(rs, rs[r.Intn(len(rs))]) // repeats
		case mode == 3:
			rs = append(rs, rune(r.Range(0x80, 0x90))) // clustered
		default:
			rs = append(rs, randRune(r))
		}
	}
	s := string(rs)
	switch r.Intn(60) {
	case 0: // madd overflow: (m-n)*(h+1) > MaxInt32
		s = strings.Repeat("a", r.Range(1900, 2100)) + string(rune(r.Range(0x10ff00, 0x10ffff)))
	case 1:
		s = strings.Repeat("a", r.Range(1000, 1100)) + "ü"
	case 2:
		s = strings.Repeat("ü", r.Range(1020, 1030))
	}
	return s
}

func genEncoded(r *vu.Rng) string {
	switch r.Intn(10) {
	case 0:
		return []string{"", "-", "a-", "-a", "--", "a", "z", "9", "A", "a--", "-a-", "abc-", "tda", "tDa", "TDA", "bcher-kva", "Bcher-KVA", "99999999", "a-99999a", "zzzzzzzz", "9999999", "ü-", "ü-tda", "é"}[r.Intn(24)]
	case 1:
		return randLDH(r, r.Range(1, 12))
	case 2:
		return string(r.BytesFrom("abcxyzABZ019-", r.Range(1, 8)))
	case 3: // non-ASCII / non-digit bytes
		return randUnicodeLabel(r) + "-" + randLDH(r, r.Intn(5))
	case 4: // long basic prefix: len(output) >= 1024 check
		return strings.Repeat("a", r.Range(1020, 1030)) + "-" + randLDH(r, r.Range(0, 6))
	default:
		a, err := idna.VerifEncode("", genRunes(r))
		if err != nil {
			return "a"
		}
		if r.Chance(1, 3) {
			a = mutateALabelPayload(r, a)
		}
		return a
	}
}

func gen(r *vu.Rng, i int) []string {
	switch r.Intn(16) {
	case 0:
		return []string{fmt.Sprintf("digit %d", r.Intn(256))}
	case 1:
		return []string{fmt.Sprintf("edigit %d", r.Intn(40))}
	case 2:
		f := func() uint64 { return r.Boundary(31) }
		if r.Bool() {
			return []string{fmt.Sprintf("madd %d %d %d", f(), f()>>uint(r.Intn(31)), f()>>uint(r.Intn(31)))}
		}
		return []string{fmt.Sprintf("madd %d %d %d", f(), f(), f())}
	case 3, 4:
		np := r.Range(1, 1100)
		if r.Chance(1, 4) {
			np = r.Range(1, 4)
		}
		return []string{fmt.Sprintf("adapt %d %d %s", r.Boundary(31), np, b01(r.Bool()))}
	case 5, 6, 7, 8:
		return []string{"decode " + runesTok(genEncoded(r))}
	case 9, 10, 11, 12:
		return []string{"encode " + runesTok(genRunes(r))}
	case 13, 14:
		return []string{"toascii " + b01(idna.VerifUnicode16) + " " + runesTok(genDomain(r))}
	default:
		return []string{"tounicode " + b01(idna.VerifUnicode16) + " " + runesTok(genDomain(r))}
	}
}

func lowerExtended(a string) string {
	i := strings.LastIndex(a, "-")
	return a[:i+1] + strings.ToLower(a[i+1:])
}

func exec(ops []string, o *vu.Out) {
	for _, op := range ops {
		t := strings.Fields(op)
		if len(t) < 2 {
			o.Op(op, "bad-op")
			continue
		}
		o.Stat("op:" + t[0])
		switch {
		case t[0] == "digit" && len(t) == 2:
			x := vu.Atoi(t[1])
			d, ok := idna.VerifDecodeDigit(byte(x))
			if !ok {
				o.Op(op, "err")
				break
			}
			o.Op(op, fmt.Sprintf("ok %d", d))
			c := idna.VerifEncodeDigit(d)
			lower := byte(x)
			if lower >= 'A' && lower <= 'Z' {
				lower += 32
			}
			if c != lower {
				o.Fail("", fmt.Sprintf("encodeDigit(decodeDigit(%d)) = %d, want %d", x, c, lower))
			}
		case t[0] == "edigit" && len(t) == 2:
			d := int32(vu.Atoi(t[1]))
			res := vu.Catch(func() string { return fmt.Sprintf("ok %d", idna.VerifEncodeDigit(d)) })
			o.Op(op, res)
			if d < 36 {
				if res == "panic" {
					o.Fail("", fmt.Sprintf("encodeDigit(%d) panicked", d))
				} else if back, ok := idna.VerifDecodeDigit(idna.VerifEncodeDigit(d)); !ok || back != d {
					o.Fail("", fmt.Sprintf("decodeDigit(encodeDigit(%d)) = %d,%v", d, back, ok))
				}
			}
		case t[0] == "madd" && len(t) == 4:
			a, b, c := vu.Atoi64(t[1]), vu.Atoi64(t[2]), vu.Atoi64(t[3])
			v, ov := idna.VerifMadd(int32(a), int32(b), int32(c))
			if ov {
				o.Op(op, "err")
			} else {
				o.Op(op, fmt.Sprintf("ok %d", v))
			}
			if want := a + b*c; (want > 0x7fffffff) != ov || (!ov && int64(v) != want) {
				o.Fail("", fmt.Sprintf("madd(%d,%d,%d) = %d,%v", a, b, c, v, ov))
			}
		case t[0] == "adapt" && len(t) == 4:
			d, np := vu.Atoi64(t[1]), vu.Atoi64(t[2])
			o.Op(op, vu.Catch(func() string { return fmt.Sprintf("ok %d", idna.VerifAdapt(int32(d), int32(np), t[3] == "1")) }))
		case t[0] == "decode" && len(t) == 2:
			enc, ok := parseRunesTok(t[1])
			if !ok {
				o.Op(op, "bad-op")
				break
			}
			u, err := idna.VerifDecode(enc)
			if err != nil {
				o.Stat("decode:err")
				o.Op(op, "err")
				break
			}
			o.Stat("decode:ok")
			o.Op(op, "ok "+runesTok(u))
			// Punycode inverse: encode(decode a) = a (extended digits are case-insensitive).
			if isASCIIStr(enc) && !strings.ContainsRune(u, 0xfffd) {
				back, err := idna.VerifEncode("", u)
				if err != nil || back != lowerExtended(enc) {
					o.Fail("", fmt.Sprintf("encode(decode(%q)) = %q,%v", enc, back, err))
				}
			}
		case t[0] == "encode" && len(t) == 2:
			s, ok := parseRunesTok(t[1])
			if !ok {
				o.Op(op, "bad-op")
				break
			}
			a, err := idna.VerifEncode("", s)
			if err != nil {
				o.Stat("encode:err")
				o.Op(op, "err")
				break
			}
			o.Stat("encode:ok")
			o.Op(op, "ok "+runesTok(a))
			if !isASCIIStr(a) {
				o.Fail("", fmt.Sprintf("encode(%q) = %q is not ASCII", s, a))
			}
			back, err := idna.VerifDecode(a)
			n := len([]rune(s))
			if n <= 1024 || isASCIIStr(s) {
				if err != nil || back != s {
					o.Fail("", fmt.Sprintf("decode(encode(%q)) = %q,%v", s, back, err))
				}
			} else if err == nil && back != s {
				o.Fail("", fmt.Sprintf("decode(encode(%q)) = %q", s, back))
			}
		case (t[0] == "toascii" || t[0] == "tounicode") && len(t) == 3:
			s, ok := parseRunesTok(t[2])
			if !ok || (t[1] != "0" && t[1] != "1") {
				o.Op(op, "bad-op")
				break
			}
			var res string
			var err error
			if t[0] == "toascii" {
				res, err = idna.Punycode.ToASCII(s)
			} else {
				res, err = idna.Punycode.ToUnicode(s)
			}
			if err != nil {
				o.Op(op, "err "+runesTok(res))
			} else {
				o.Op(op, "ok "+runesTok(res))
			}
		default:
			o.Op(op, "bad-op")
		}
	}
}

func main() { vu.Main(gen, exec) }
