//go:build verif

// Canonical printing of http2 frames / errors and payload tokens, shared by
// the C06 and C07 harnesses (overlaid into both main packages).
package main

import (
	"errors"
	"fmt"
	"io"
	"strconv"
	"strings"

	"golang.org/x/net/http2"
	vu "golang.org/x/net/internal/verifutil"
)

// payload token: `-` | `x<hex>` | `z<n>` | `g<n>.<a>` (byte i = (a+13*i)%251)
func parsePayloadTok(s string) ([]byte, bool) {
	if strings.HasPrefix(s, "z") {
		n, err := strconv.Atoi(s[1:])
		if err != nil || n < 0 {
			return nil, false
		}
		return make([]byte, n), true
	}
	if strings.HasPrefix(s, "g") {
		parts := strings.Split(s[1:], ".")
		if len(parts) != 2 {
			return nil, false
		}
		n, err1 := strconv.Atoi(parts[0])
		a, err2 := strconv.Atoi(parts[1])
		if err1 != nil || err2 != nil || n < 0 || a < 0 {
			return nil, false
		}
		b := make([]byte, n)
		for i := range b {
			b[i] = byte((a + 13*i) % 251)
		}
		return b, true
	}
	return vu.ParseHex(s)
}

func hashBytes(b []byte) uint32 {
	h := uint32(7)
	for _, c := range b {
		h = h*31 + uint32(c)
	}
	return h
}

func dig(b []byte) string {
	if len(b) <= 64 {
		return vu.Hex(b)
	}
	return fmt.Sprintf("L%dH%d", len(b), hashBytes(b))
}

func b01(b bool) string {
	if b {
		return "1"
	}
	return "0"
}

func showHeader(h http2.FrameHeader) string {
	return fmt.Sprintf("t=%d f=%d s=%d l=%d", uint8(h.Type), uint8(h.Flags), h.StreamID, h.Length)
}

func showPrio(p http2.PriorityParam) string {
	return fmt.Sprintf("%d %s %d", p.StreamDep, b01(p.Exclusive), p.Weight)
}

func showFrame(f http2.Frame) string {
	hs := showHeader(f.Header())
	switch f := f.(type) {
	case *http2.DataFrame:
		return "DATA " + hs + " " + dig(f.Data())
	case *http2.HeadersFrame:
		return "HEADERS " + hs + " " + showPrio(f.Priority) + " " + dig(f.HeaderBlockFragment())
	case *http2.PriorityFrame:
		return "PRIORITY " + hs + " " + showPrio(f.PriorityParam)
	case *http2.RSTStreamFrame:
		return fmt.Sprintf("RST_STREAM %s %d", hs, uint32(f.ErrCode))
	case *http2.SettingsFrame:
		var parts []string
		for i := 0; i < f.NumSettings(); i++ {
			s := f.Setting(i)
			parts = append(parts, fmt.Sprintf("%d:%d", uint16(s.ID), s.Val))
		}
		if len(parts) == 0 {
			return "SETTINGS " + hs + " -"
		}
		return "SETTINGS " + hs + " " + strings.Join(parts, ",")
	case *http2.PushPromiseFrame:
		return fmt.Sprintf("PUSH_PROMISE %s %d %s", hs, f.PromiseID, dig(f.HeaderBlockFragment()))
	case *http2.PingFrame:
		return "PING " + hs + " " + dig(f.Data[:])
	case *http2.GoAwayFrame:
		return fmt.Sprintf("GOAWAY %s %d %d %s", hs, f.LastStreamID, uint32(f.ErrCode), dig(f.DebugData()))
	case *http2.WindowUpdateFrame:
		return fmt.Sprintf("WINDOW_UPDATE %s %d", hs, f.Increment)
	case *http2.ContinuationFrame:
		return "CONTINUATION " + hs + " " + dig(f.HeaderBlockFragment())
	case *http2.PriorityUpdateFrame:
		return fmt.Sprintf("PRIORITY_UPDATE %s %d %s", hs, f.PrioritizedStreamID, dig([]byte(f.Priority)))
	case *http2.UnknownFrame:
		return "UNKNOWN " + hs + " " + dig(f.Payload())
	}
	return fmt.Sprintf("OTHER %T", f)
}

// showReadErr maps a ReadFrame error to the fixed enum of the model.
func showReadErr(err error) string {
	var se http2.StreamError
	var ce http2.ConnectionError
	switch {
	case errors.Is(err, http2.ErrFrameTooLarge):
		return "err toolarge"
	case errors.Is(err, io.ErrUnexpectedEOF):
		return "err ueof"
	case errors.Is(err, io.EOF):
		return "err eof"
	case errors.As(err, &se):
		return fmt.Sprintf("err stream %d %d", se.StreamID, uint32(se.Code))
	case errors.As(err, &ce):
		return fmt.Sprintf("err conn %d", uint32(ce))
	}
	return "err other"
}

func showWriteErr(err error) string {
	if errors.Is(err, http2.ErrFrameTooLarge) {
		return "werr FrameTooLarge"
	}
	switch err.Error() {
	case "invalid stream ID":
		return "werr StreamID"
	case "invalid dependent stream ID":
		return "werr DepStreamID"
	case "pad length too large":
		return "werr PadLength"
	case "padding bytes must all be zeros unless AllowIllegalWrites is enabled":
		return "werr PadBytes"
	case "illegal window increment value":
		return "werr WindowIncr"
	}
	return "werr Other"
}
