//go:build verif

// C06 harness: every Framer.Write* method on a fresh Framer, then ReadFrame of
// the bytes written. Result line: `werr <Tag>` or `ok <bytes> | <read result> rest=<n>`.
// The oracle states the round trip directly from the op's arguments.
package main

import (
	"bytes"
	"fmt"
	"strconv"
	"strings"

	"golang.org/x/net/http2"
	vu "golang.org/x/net/internal/verifutil"
)

var sidPool = []uint32{0, 1, 2, 3, 0x7ffffffe, 0x7fffffff, 0x80000000, 0x80000001, 0xfffffffe, 0xffffffff}

func genSid(r *vu.Rng) uint32 {
	switch r.Intn(10) {
	case 0, 1:
		return sidPool[r.Intn(len(sidPool))]
	case 2:
		return uint32(r.Uint64()) // any uint32
	case 3:
		return uint32(r.Boundary(32))
	default:
		v := uint32(r.Uint64()) & 0x7fffffff
		if r.Bool() {
			v >>= uint(r.Intn(31))
		}
		if v == 0 {
			v = 1
		}
		return v
	}
}

func genU32(r *vu.Rng) uint32 {
	if r.Chance(1, 3) {
		return sidPool[r.Intn(len(sidPool))]
	}
	return uint32(r.Boundary(32))
}

// genPayloadTok picks a payload token; sizes hit 0, small, 16384±, and (rarely) the 2^24 limit.
func genPayloadTok(r *vu.Rng) string {
	switch k := r.Intn(400); {
	case k == 0 && r.Chance(1, 8):
		n := (1 << 24) - 14 + r.Intn(17) // around ErrFrameTooLarge for every header overhead
		if r.Bool() {
			return fmt.Sprintf("z%d", n)
		}
		return fmt.Sprintf("g%d.%d", n, r.Intn(251))
	case k < 20:
		return fmt.Sprintf("g%d.%d", 16384-3+r.Intn(7), r.Intn(251))
	case k < 60:
		return fmt.Sprintf("g%d.%d", r.Intn(3000), r.Intn(251))
	case k < 80:
		return fmt.Sprintf("z%d", r.Intn(300))
	case k < 120:
		return "-"
	default:
		return vu.Hex(r.Bytes(r.Intn(40)))
	}
}

func genPadLen(r *vu.Rng) int {
	switch r.Intn(6) {
	case 0:
		return 0
	case 1:
		return 255
	case 2:
		return 1
	default:
		return r.Intn(256)
	}
}

func genOp(r *vu.Rng) []string {
	switch r.Intn(16) {
	case 0, 1:
		pad := "nil"
		switch r.Intn(8) {
		case 0:
			pad = "-" // non-nil empty pad: PADDED flag with pad length 0
		case 1:
			pad = fmt.Sprintf("z%d", 254+r.Intn(4)) // 254..257: errPadLength boundary
		case 2:
			b := make([]byte, 1+r.Intn(20))
			b[r.Intn(len(b))] = byte(1 + r.Intn(255)) // non-zero pad byte
			pad = vu.Hex(b)
		case 3, 4, 5:
			pad = fmt.Sprintf("z%d", genPadLen(r))
		}
		return []string{fmt.Sprintf("data %d %s %s %s", genSid(r), b01(r.Bool()), genPayloadTok(r), pad)}
	case 2, 3, 4:
		dep, excl, weight := uint32(0), false, 0
		if r.Chance(2, 3) {
			dep, excl, weight = genSid(r), r.Bool(), r.Intn(256)
			if r.Chance(1, 4) {
				dep = 0
			}
			if r.Chance(1, 4) {
				weight = 0
			}
		}
		padLen := 0
		if r.Bool() {
			padLen = genPadLen(r)
		}
		return []string{fmt.Sprintf("headers %d %s %s %d %d %s %d %s", genSid(r), b01(r.Bool()), b01(r.Bool()),
			padLen, dep, b01(excl), weight, genPayloadTok(r))}
	case 5:
		return []string{fmt.Sprintf("priority %d %d %s %d", genSid(r), genSid(r), b01(r.Bool()), r.Intn(256))}
	case 6:
		return []string{fmt.Sprintf("rst %d %d", genSid(r), genU32(r))}
	case 7:
		if r.Chance(1, 8) {
			return []string{"settingsack"}
		}
		n := r.Intn(6)
		if r.Chance(1, 40) {
			n = 10 + r.Intn(40)
		}
		var parts []string
		for j := 0; j < n; j++ {
			id := r.Intn(12)
			if r.Chance(1, 6) {
				id = int(r.Boundary(16))
			}
			val := genU32(r)
			if id == 4 && r.Chance(2, 3) {
				val &= 0x7fffffff
			}
			parts = append(parts, fmt.Sprintf("%d:%d", id, val))
		}
		if len(parts) == 0 {
			return []string{"settings -"}
		}
		return []string{"settings " + strings.Join(parts, ",")}
	case 8:
		return []string{fmt.Sprintf("ping %s %s", b01(r.Bool()), vu.Hex(r.Bytes(8)))}
	case 9:
		return []string{fmt.Sprintf("goaway %d %d %s", genSid(r), genU32(r), genPayloadTok(r))}
	case 10:
		sid := genSid(r)
		if r.Chance(1, 4) {
			sid = 0
		}
		incr := genU32(r)
		if r.Chance(2, 3) {
			incr &= 0x7fffffff
		}
		return []string{fmt.Sprintf("winupdate %d %d", sid, incr)}
	case 11:
		return []string{fmt.Sprintf("continuation %d %s %s", genSid(r), b01(r.Bool()), genPayloadTok(r))}
	case 12, 13:
		padLen := 0
		if r.Bool() {
			padLen = genPadLen(r)
		}
		return []string{fmt.Sprintf("pushpromise %d %d %s %d %s", genSid(r), genSid(r), b01(r.Bool()), padLen, genPayloadTok(r))}
	case 14:
		p := vu.Hex([]byte([]string{"u=3", "u=1, i", "i", "u=7,i=?0", ""}[r.Intn(5)]))
		if r.Chance(1, 3) {
			p = genPayloadTok(r)
		}
		return []string{fmt.Sprintf("prioupdate %d %s", genSid(r), p)}
	default:
		t := r.Intn(256)
		if r.Chance(2, 3) {
			t = []int{0, 1, 2, 3, 4, 5, 6, 7, 8, 9, 10, 11, 15, 16, 17, 255}[r.Intn(16)]
		}
		return []string{fmt.Sprintf("raw %d %d %d %s", t, r.Intn(256), genSid(r), genPayloadTok(r))}
	}
}

// genLateReject: a call the method rejects AFTER startWrite has put a partial frame into the
// Framer's write buffer (WriteHeaders: invalid StreamDep, WritePushPromise: invalid PromiseID),
// or in endWrite (ErrFrameTooLarge, rarely: 16 MiB).
func genLateReject(r *vu.Rng) string {
	sid := uint32(1 + r.Intn(0x7ffffffe))
	padLen := 0
	if r.Bool() {
		padLen = genPadLen(r)
	}
	switch k := r.Intn(40); {
	case k == 0 && r.Chance(1, 10):
		return fmt.Sprintf("raw %d %d %d z%d", r.Intn(256), r.Intn(256), sid, (1<<24)+r.Intn(3))
	case k < 20:
		dep := uint32(1<<31) + uint32(r.Intn(1<<20))*uint32(r.Intn(2048))
		return fmt.Sprintf("headers %d %s %s %d %d %s %d %s", sid, b01(r.Bool()), b01(r.Bool()), padLen, dep, b01(r.Bool()), r.Intn(256), genPayloadTok(r))
	default:
		pid := uint32(0)
		if r.Bool() {
			pid = uint32(1<<31) + uint32(r.Intn(1<<30))
		}
		return fmt.Sprintf("pushpromise %d %d %s %d %s", sid, pid, b01(r.Bool()), padLen, genPayloadTok(r))
	}
}

// gen: a case is a sequence of Write calls on one Framer.
func gen(r *vu.Rng, i int) []string {
	ops := []string{"reset"}
	n := 1
	if r.Chance(11, 20) {
		n = 2 + r.Intn(3)
	}
	if r.Chance(1, 25) {
		// a long session on one Framer: the same frame many times (header blocks up to 16 KiB;
		// rarely enough of them to pass 16 MiB of HEADERS/CONTINUATION payload in total)
		cnt := 2 + r.Intn(60)
		size := r.Intn(2000)
		if r.Chance(1, 12) {
			cnt, size = 1030+r.Intn(200), 16384
		}
		sid := 1 + r.Intn(1000)
		frag := fmt.Sprintf("g%d.%d", size, r.Intn(251))
		var inner string
		switch r.Intn(4) {
		case 0:
			inner = fmt.Sprintf("continuation %d 1 %s", sid, frag)
		case 1:
			inner = fmt.Sprintf("data %d 0 %s nil", sid, frag)
		default:
			inner = fmt.Sprintf("headers %d %s 1 0 0 0 0 %s", sid, b01(r.Bool()), frag)
		}
		return append(ops, fmt.Sprintf("rep %d %s", cnt, inner))
	}
	for j := 0; j < n; j++ {
		if n > 1 && j < n-1 && r.Chance(1, 2) {
			ops = append(ops, genLateReject(r))
		} else {
			ops = append(ops, genOp(r)...)
		}
	}
	return ops
}

type args struct {
	t  []string
	ok bool
}

func (a *args) u32(i int) uint32 {
	v, err := strconv.ParseUint(a.t[i], 10, 32)
	if err != nil {
		a.ok = false
	}
	return uint32(v)
}
func (a *args) u8(i int) uint8 {
	v, err := strconv.ParseUint(a.t[i], 10, 8)
	if err != nil {
		a.ok = false
	}
	return uint8(v)
}
func (a *args) bool(i int) bool {
	if a.t[i] != "0" && a.t[i] != "1" {
		a.ok = false
	}
	return a.t[i] == "1"
}
func (a *args) bytes(i int) []byte {
	b, ok := parsePayloadTok(a.t[i])
	if !ok {
		a.ok = false
	}
	return b
}

var arity = map[string]int{"data": 5, "headers": 9, "priority": 5, "rst": 3, "settings": 2, "settingsack": 1,
	"ping": 3, "goaway": 4, "winupdate": 3, "continuation": 4, "pushpromise": 6, "prioupdate": 3, "raw": 5}

// wstate is the ONE writing Framer of a case (`reset` makes a new one): the ops of a case are a
// sequence of Write calls on it, so that whatever a rejected call leaves in the Framer's write
// buffer would show up in the bytes of the next accepted call.
type wstate struct {
	buf bytes.Buffer
	fr  *http2.Framer
	rep *repReader // during a `rep` op: ONE reading Framer for all the frames of the op
}

// repReader is a reading Framer that lives as long as a `rep` op (thousands of frames), so that
// state a Framer accumulates while reading shows up in the round trip.
type repReader struct {
	buf bytes.Buffer
	fr  *http2.Framer
}

func newWstate() *wstate {
	st := &wstate{}
	st.fr = http2.NewFramer(&st.buf, nil)
	return st
}

func exec(ops []string, o *vu.Out) {
	st := newWstate()
	for _, op := range ops {
		if op == "reset" {
			st = newWstate()
			o.Op(op, "ok")
			continue
		}
		if strings.HasPrefix(op, "rep ") {
			o.Op(op, execRep(op, st, o))
			continue
		}
		o.Op(op, vu.Catch(func() string { return execOne(op, st, o) }))
	}
}

// execRep: `rep <n> <write-op>` = the same Write call n times on the writing Framer, every frame
// read back by one long-lived reading Framer. One result line: how many calls gave the same result
// as the first, the first divergence (if any), and the first result.
func execRep(op string, st *wstate, o *vu.Out) string {
	t := strings.SplitN(op, " ", 3)
	if len(t) != 3 {
		return "bad-op"
	}
	n, err := strconv.Atoi(t[1])
	if err != nil || n < 1 || n > 100000 || strings.HasPrefix(t[2], "rep") {
		return "bad-op"
	}
	rr := &repReader{}
	rr.fr = http2.NewFramer(nil, &rr.buf)
	st.rep = rr
	defer func() { st.rep = nil }()
	first, same, div := "", 0, "-"
	for i := 0; i < n; i++ {
		r := vu.Catch(func() string { return execOne(t[2], st, o) })
		if i == 0 {
			first = r
		}
		if r == first {
			same++
		} else if div == "-" {
			div = fmt.Sprintf("%d:[%s]", i, r)
		}
	}
	o.Stat("op:rep")
	o.StatN("rep:frames", n)
	return fmt.Sprintf("rep n=%d same=%d div=%s | %s", n, same, div, first)
}

// expectation of the oracle: what ReadFrame must return for the accepted arguments.
type expect struct {
	typ    http2.FrameType
	flags  http2.Flags
	sid    uint32
	fields string // canonical field part of showFrame (after the header)
	plen   int    // payload length the arguments imply
	skip   bool   // outside the quantified domain (32-bit stream ids, raw frames of known types)
	sig    string
}

func execOne(op string, st *wstate, o *vu.Out) string {
	t := strings.Fields(op)
	if len(t) == 0 || arity[t[0]] != len(t) {
		return "bad-op"
	}
	a := &args{t: t, ok: true}
	buf := &st.buf
	buf.Reset()
	fr := st.fr
	var werr error
	var ex expect
	var pre bool
	var preLen int
	fl := func(b bool, f http2.Flags) http2.Flags {
		if b {
			return f
		}
		return 0
	}
	o.Stat("op:" + t[0])
	switch t[0] {
	case "data":
		sid, es, data := a.u32(1), a.bool(2), a.bytes(3)
		var pad []byte
		if t[4] != "nil" {
			pad = a.bytes(4)
			if pad == nil {
				pad = []byte{}
			}
		}
		if !a.ok {
			return "bad-op"
		}
		werr = fr.WriteDataPadded(sid, es, data, pad)
		ex = expect{typ: http2.FrameData, flags: fl(es, http2.FlagDataEndStream) | fl(pad != nil, http2.FlagDataPadded),
			sid: sid, fields: dig(data), plen: len(data)}
		if pad != nil {
			ex.plen += 1 + len(pad)
		}
	case "headers":
		p := http2.HeadersFrameParam{StreamID: a.u32(1), EndStream: a.bool(2), EndHeaders: a.bool(3), PadLength: a.u8(4),
			Priority: http2.PriorityParam{StreamDep: a.u32(5), Exclusive: a.bool(6), Weight: a.u8(7)}, BlockFragment: a.bytes(8)}
		if !a.ok {
			return "bad-op"
		}
		werr = fr.WriteHeaders(p)
		ex = expect{typ: http2.FrameHeaders, sid: p.StreamID,
			flags: fl(p.EndStream, http2.FlagHeadersEndStream) | fl(p.EndHeaders, http2.FlagHeadersEndHeaders) |
				fl(p.PadLength != 0, http2.FlagHeadersPadded) | fl(!p.Priority.IsZero(), http2.FlagHeadersPriority),
			fields: showPrio(p.Priority) + " " + dig(p.BlockFragment), plen: len(p.BlockFragment) + int(p.PadLength)}
		if p.PadLength != 0 {
			ex.plen++
		}
		if !p.Priority.IsZero() {
			ex.plen += 5
		}
	case "priority":
		sid := a.u32(1)
		p := http2.PriorityParam{StreamDep: a.u32(2), Exclusive: a.bool(3), Weight: a.u8(4)}
		if !a.ok {
			return "bad-op"
		}
		werr = fr.WritePriority(sid, p)
		ex = expect{typ: http2.FramePriority, sid: sid, fields: showPrio(p), plen: 5}
	case "rst":
		sid, code := a.u32(1), a.u32(2)
		if !a.ok {
			return "bad-op"
		}
		werr = fr.WriteRSTStream(sid, http2.ErrCode(code))
		ex = expect{typ: http2.FrameRSTStream, sid: sid, fields: fmt.Sprint(code), plen: 4}
	case "settings":
		var ss []http2.Setting
		iwsBad := false
		seenIWS := false
		if t[1] != "-" {
			for _, kv := range strings.Split(t[1], ",") {
				p := strings.Split(kv, ":")
				if len(p) != 2 {
					return "bad-op"
				}
				id, err1 := strconv.ParseUint(p[0], 10, 16)
				val, err2 := strconv.ParseUint(p[1], 10, 32)
				if err1 != nil || err2 != nil {
					return "bad-op"
				}
				ss = append(ss, http2.Setting{ID: http2.SettingID(id), Val: uint32(val)})
				if id == 4 && !seenIWS {
					seenIWS = true
					iwsBad = val > 1<<31-1
				}
			}
		}
		werr = fr.WriteSettings(ss...)
		var canon []string
		for _, s := range ss {
			canon = append(canon, fmt.Sprintf("%d:%d", uint16(s.ID), s.Val))
		}
		ex = expect{typ: http2.FrameSettings, fields: "-", plen: 6 * len(ss)}
		if len(canon) > 0 {
			ex.fields = strings.Join(canon, ",")
		}
		if iwsBad {
			// known literal-reading finding: WriteSettings accepts what ReadFrame rejects
			ex.sig = "settings-initial-window-size-over-2^31-1"
			o.Stat("branch:settings-iws-overflow")
		}
	case "settingsack":
		werr = fr.WriteSettingsAck()
		ex = expect{typ: http2.FrameSettings, flags: http2.FlagSettingsAck, fields: "-"}
	case "ping":
		ack, d := a.bool(1), a.bytes(2)
		if !a.ok || len(d) != 8 {
			return "bad-op"
		}
		var d8 [8]byte
		copy(d8[:], d)
		werr = fr.WritePing(ack, d8)
		ex = expect{typ: http2.FramePing, flags: fl(ack, http2.FlagPingAck), fields: dig(d), plen: 8}
	case "goaway":
		m, c, d := a.u32(1), a.u32(2), a.bytes(3)
		if !a.ok {
			return "bad-op"
		}
		werr = fr.WriteGoAway(m, http2.ErrCode(c), d)
		ex = expect{typ: http2.FrameGoAway, fields: fmt.Sprintf("%d %d %s", m, c, dig(d)), skip: m >= 1<<31, plen: 8 + len(d)}
	case "winupdate":
		sid, incr := a.u32(1), a.u32(2)
		if !a.ok {
			return "bad-op"
		}
		werr = fr.WriteWindowUpdate(sid, incr)
		ex = expect{typ: http2.FrameWindowUpdate, sid: sid, fields: fmt.Sprint(incr), skip: sid >= 1<<31, plen: 4}
	case "continuation":
		sid, eh, frag := a.u32(1), a.bool(2), a.bytes(3)
		if !a.ok {
			return "bad-op"
		}
		// an unfinished HEADERS on the same stream first, so that checkFrameOrder admits the CONTINUATION
		if fr.WriteHeaders(http2.HeadersFrameParam{StreamID: sid}) == nil {
			pre = true
		}
		preLen = buf.Len()
		werr = fr.WriteContinuation(sid, eh, frag)
		ex = expect{typ: http2.FrameContinuation, sid: sid, flags: fl(eh, http2.FlagContinuationEndHeaders), fields: dig(frag), plen: len(frag)}
	case "pushpromise":
		p := http2.PushPromiseParam{StreamID: a.u32(1), PromiseID: a.u32(2), EndHeaders: a.bool(3), PadLength: a.u8(4), BlockFragment: a.bytes(5)}
		if !a.ok {
			return "bad-op"
		}
		werr = fr.WritePushPromise(p)
		ex = expect{typ: http2.FramePushPromise, sid: p.StreamID,
			flags:  fl(p.EndHeaders, http2.FlagPushPromiseEndHeaders) | fl(p.PadLength != 0, http2.FlagPushPromisePadded),
			fields: fmt.Sprintf("%d %s", p.PromiseID, dig(p.BlockFragment)), plen: 4 + len(p.BlockFragment) + int(p.PadLength)}
		if p.PadLength != 0 {
			ex.plen++
		}
	case "prioupdate":
		sid, p := a.u32(1), a.bytes(2)
		if !a.ok {
			return "bad-op"
		}
		werr = fr.WritePriorityUpdate(sid, string(p))
		ex = expect{typ: http2.FramePriorityUpdate, fields: fmt.Sprintf("%d %s", sid, dig(p)), plen: 4 + len(p)}
	case "raw":
		ty, fl8, sid, p := a.u8(1), a.u8(2), a.u32(3), a.bytes(4)
		if !a.ok {
			return "bad-op"
		}
		werr = fr.WriteRawFrame(http2.FrameType(ty), http2.Flags(fl8), sid, p)
		known := ty <= 9 || ty == 16
		ex = expect{typ: http2.FrameType(ty), flags: http2.Flags(fl8), sid: sid, fields: dig(p), skip: known || sid >= 1<<31, plen: len(p)}
		if known {
			o.Stat("branch:raw-known-type")
		} else {
			o.Stat("branch:raw-unknown-type")
		}
	}
	if werr != nil {
		o.Stat("branch:" + showWriteErr(werr))
		if buf.Len() != preLen {
			o.Fail("write-error-but-bytes", fmt.Sprintf("%s: write failed (%v) but %d bytes reached the writer", op, werr, buf.Len()-preLen))
		}
		return showWriteErr(werr)
	}
	all := append([]byte{}, buf.Bytes()...)
	var rfr *http2.Framer
	var left func() int
	if st.rep != nil { // the long-lived reading Framer of a `rep` op
		st.rep.buf.Write(all)
		rfr, left = st.rep.fr, st.rep.buf.Len
	} else {
		rd0 := bytes.NewReader(all)
		rfr, left = http2.NewFramer(nil, rd0), rd0.Len // a fresh reading Framer
	}
	if pre {
		if f, err := rfr.ReadFrame(); err != nil || f.Header().Type != http2.FrameHeaders || preLen != 9 {
			o.Fail("pre-headers", op+": the preparatory HEADERS frame did not read back")
		}
	}
	if preLen > len(all) {
		preLen = len(all)
	}
	written := all[preLen:]
	f, err := rfr.ReadFrame()
	var rd string
	if err != nil {
		rd = showReadErr(err)
	} else {
		rd = "ok " + showFrame(f)
	}
	// ---- property oracle (C06) ----
	if !ex.skip {
		want := fmt.Sprintf("ok %s t=%d f=%d s=%d l=%d %s", typeName(ex.typ), uint8(ex.typ), uint8(ex.flags), ex.sid, ex.plen, ex.fields)
		if rd != want || left() != 0 {
			o.Fail(ex.sig, fmt.Sprintf("%s: accepted by the Write method but ReadFrame gives [%s] (%d bytes left), want [%s]", op, rd, left(), want))
		}
	}
	if len(written) != 9+ex.plen {
		o.Fail("bytes-written", fmt.Sprintf("%s: the call handed %d bytes to the writer, the frame is %d bytes", op, len(written), 9+ex.plen))
	}
	if len(written) < 9 || int(written[0])<<16|int(written[1])<<8|int(written[2]) != len(written)-9 {
		o.Fail("length-field", fmt.Sprintf("%s: 24-bit length field does not match the %d bytes written", op, len(written)))
	}
	if len(written)-9 > 16384 {
		o.Stat("branch:payload>16384")
	}
	return fmt.Sprintf("ok %s | %s rest=%d", dig(written), rd, left())
}

func typeName(t http2.FrameType) string {
	switch t {
	case http2.FrameData:
		return "DATA"
	case http2.FrameHeaders:
		return "HEADERS"
	case http2.FramePriority:
		return "PRIORITY"
	case http2.FrameRSTStream:
		return "RST_STREAM"
	case http2.FrameSettings:
		return "SETTINGS"
	case http2.FramePushPromise:
		return "PUSH_PROMISE"
	case http2.FramePing:
		return "PING"
	case http2.FrameGoAway:
		return "GOAWAY"
	case http2.FrameWindowUpdate:
		return "WINDOW_UPDATE"
	case http2.FrameContinuation:
		return "CONTINUATION"
	case http2.FramePriorityUpdate:
		return "PRIORITY_UPDATE"
	}
	return "UNKNOWN"
}

func main() { vu.Main(gen, exec) }
