//go:build verif

// C28 harness: QUIC frame / transport-parameter / packet codecs.
// Injected into package quic as a _test.go file (white-box access).
package quic

import (
	"bytes"
	"fmt"
	"reflect"
	"strings"
	"testing"

	"golang.org/x/net/internal/quic/quicwire"
	vu "golang.org/x/net/internal/verifutil"
)

func TestVerifC28(t *testing.T) {
	vu.Run(vu.ConfigFromEnv(), c28Gen, c28Exec)
}

// ---------------------------------------------------------------- generator

func c28Gen(r *vu.Rng, i int) []string {
	switch r.Intn(20) {
	case 0, 1, 2, 3, 4, 5:
		return []string{c28GenWrite(r)}
	case 6, 7, 8, 9, 10:
		return []string{"parse " + vu.Hex(c28GenFrameBytes(r))}
	case 11:
		b := c28GenAckBytes(r)
		return []string{"ack " + vu.Hex(b)}
	case 12, 13, 14:
		return []string{c28GenTPMarshal(r)}
	case 15, 16, 17:
		return []string{"tpunmarshal " + vu.Hex(c28GenTPBytes(r))}
	default:
		return c28GenPacket(r)
	}
}

// v62 is a varint-sized value, rarely one that is too large.
func c28V(r *vu.Rng) uint64 {
	if r.Chance(1, 40) {
		return r.Boundary(64)
	}
	return r.Boundary(62)
}

func c28Small(r *vu.Rng) uint64 {
	if r.Chance(1, 6) {
		return c28V(r)
	}
	return uint64(r.Intn(70))
}

func c28Data(r *vu.Rng) []byte {
	switch r.Intn(6) {
	case 0:
		return nil
	case 1:
		return r.Bytes(r.Range(60, 70))
	default:
		return r.Bytes(r.Intn(12))
	}
}

func b01(b bool) int {
	if b {
		return 1
	}
	return 0
}

// c28GenRanges returns an ascending rangeset rendering "s-e,s-e" (mostly well formed).
func c28GenRanges(r *vu.Rng) string {
	n := 1 + r.Intn(4)
	switch r.Intn(8) {
	case 0:
		n = 1 + r.Intn(9)
	case 1:
		n = r.Range(60, 70)
	case 2:
		if r.Chance(1, 4) {
			n = 0
		}
	}
	if n == 0 {
		return "-"
	}
	var parts []string
	cur := uint64(r.Intn(5))
	if r.Chance(1, 5) {
		cur = r.Boundary(40)
	}
	if r.Chance(1, 40) {
		cur = (1 << 62) - 40
	}
	for k := 0; k < n; k++ {
		size := uint64(1 + r.Intn(3))
		if r.Chance(1, 10) {
			size = 1 + r.Boundary(20)
		}
		s, e := cur, cur+size
		if r.Chance(1, 150) {
			e = s // empty range: uint64(size-1) wraps
		}
		parts = append(parts, fmt.Sprintf("%d-%d", s, e))
		gap := uint64(1 + r.Intn(3))
		if r.Chance(1, 10) {
			gap = 1 + r.Boundary(20)
		}
		if r.Chance(1, 150) {
			gap = 0 // adjacent: gap-1 wraps
		}
		cur = e + gap
	}
	return strings.Join(parts, ",")
}

func c28GenWrite(r *vu.Rng) string {
	var body string
	need := 40 // rough size, used to pick tight avail values
	switch r.Intn(23) {
	case 0:
		body, need = "ping", 1
	case 1:
		body, need = "hsdone", 1
	case 2:
		body = fmt.Sprintf("reset %d %d %d", c28V(r), c28V(r), c28V(r))
	case 3:
		body = fmt.Sprintf("stop %d %d", c28V(r), c28V(r))
	case 4:
		d := c28Data(r)
		body, need = fmt.Sprintf("crypto %d %s", c28V(r), vu.Hex(d)), len(d)+4
	case 5:
		d := c28Data(r)
		body, need = fmt.Sprintf("newtoken %s", vu.Hex(d)), len(d)+2
	case 6, 7:
		d := c28Data(r)
		off := c28V(r)
		if r.Chance(1, 3) {
			off = 0
		}
		if r.Chance(1, 12) {
			off = (1 << 62) - uint64(r.Intn(80))
		}
		body, need = fmt.Sprintf("stream %d %d %d %s", c28V(r), off, r.Intn(2), vu.Hex(d)), len(d)+6
	case 8:
		body = fmt.Sprintf("maxdata %d", c28V(r))
	case 9:
		body = fmt.Sprintf("maxstreamdata %d %d", c28V(r), c28V(r))
	case 10:
		m := c28V(r)
		if r.Chance(1, 3) {
			m = (1 << 60) - 1 + uint64(r.Intn(3))
		}
		body = fmt.Sprintf("maxstreams %d %d", r.Intn(2), m)
	case 11:
		body = fmt.Sprintf("datablocked %d", c28V(r))
	case 12:
		body = fmt.Sprintf("sdblocked %d %d", c28V(r), c28V(r))
	case 13:
		m := c28V(r)
		if r.Chance(1, 3) {
			m = (1 << 60) - 1 + uint64(r.Intn(3))
		}
		body = fmt.Sprintf("streamsblocked %d %d", r.Intn(2), m)
	case 14:
		seq, ret := c28Small(r), c28Small(r)
		if r.Chance(3, 4) && seq < ret {
			seq, ret = ret, seq
		}
		n := r.Range(1, 20)
		if r.Chance(1, 6) {
			n = []int{0, 21, 63, 64, 65, 255, 256, 300}[r.Intn(8)]
		}
		body, need = fmt.Sprintf("newcid %d %d %s %s", seq, ret, vu.Hex(r.Bytes(n)), vu.Hex(r.Bytes(16))), n+20
	case 15:
		body = fmt.Sprintf("retirecid %d", c28V(r))
	case 16:
		body, need = fmt.Sprintf("pathch %s", vu.Hex(r.Bytes(8))), 9
	case 17:
		body, need = fmt.Sprintf("pathresp %s", vu.Hex(r.Bytes(8))), 9
	case 18:
		d := c28Data(r)
		body, need = fmt.Sprintf("cctransport %d %d %s", c28V(r), c28V(r), vu.Hex(d)), len(d)+5
	case 19:
		d := c28Data(r)
		body, need = fmt.Sprintf("ccapp %d %s", c28V(r), vu.Hex(d)), len(d)+3
	case 20:
		if r.Bool() {
			body, need = fmt.Sprintf("padding %d", r.Intn(40)), 20
		} else {
			body, need = fmt.Sprintf("padto %d", r.Range(-5, 80)), 30
		}
	default:
		ecn := [3]uint64{}
		if r.Bool() {
			for k := range ecn {
				if r.Bool() {
					ecn[k] = c28Small(r)
				}
			}
		}
		rs := c28GenRanges(r)
		body = fmt.Sprintf("ack %d %d %d %d %s", c28Small(r), ecn[0], ecn[1], ecn[2], rs)
		need = 8 + 2*strings.Count(rs, ",")
	}
	avail := 1500
	switch r.Intn(4) {
	case 0:
		avail = r.Intn(need + 12)
	case 1:
		avail = r.Intn(30)
	}
	return fmt.Sprintf("w %d %s", avail, body)
}

// appendVarintAny appends v, sometimes in a longer-than-necessary encoding.
func c28AppendVarintAny(r *vu.Rng, b []byte, v uint64) []byte {
	if v > quicwire.MaxVarint {
		v &= quicwire.MaxVarint
	}
	if !r.Chance(1, 8) {
		return quicwire.AppendVarint(b, v)
	}
	switch {
	case v < 1<<14 && r.Bool():
		return append(b, 0x40|byte(v>>8), byte(v))
	case v < 1<<30 && r.Bool():
		return append(b, 0x80|byte(v>>24), byte(v>>16), byte(v>>8), byte(v))
	default:
		return append(b, 0xc0|byte(v>>56), byte(v>>48), byte(v>>40), byte(v>>32), byte(v>>24), byte(v>>16), byte(v>>8), byte(v))
	}
}

func c28GenAckBytes(r *vu.Rng) []byte {
	t := byte(frameTypeAck)
	if r.Bool() {
		t = frameTypeAckECN
	}
	b := []byte{t}
	largest := c28V(r)
	if r.Chance(2, 3) {
		largest = uint64(r.Intn(300))
	}
	b = c28AppendVarintAny(r, b, largest)
	b = c28AppendVarintAny(r, b, c28Small(r))
	n := r.Intn(5)
	if r.Chance(1, 10) {
		n = r.Range(60, 70)
	}
	cnt := uint64(n)
	if r.Chance(1, 12) {
		cnt = uint64(n) + uint64(r.Intn(3)) - 1
	}
	if r.Chance(1, 40) {
		cnt = c28V(r)
	}
	b = c28AppendVarintAny(r, b, cnt)
	b = c28AppendVarintAny(r, b, uint64(r.Intn(4)))
	for k := 0; k < n; k++ {
		b = c28AppendVarintAny(r, b, uint64(r.Intn(4)))
		b = c28AppendVarintAny(r, b, uint64(r.Intn(4)))
	}
	if t == frameTypeAckECN {
		for k := 0; k < 3; k++ {
			b = c28AppendVarintAny(r, b, c28Small(r))
		}
	}
	return c28Mutate(r, b)
}

func c28Mutate(r *vu.Rng, b []byte) []byte {
	switch r.Intn(8) {
	case 0:
		if len(b) > 0 {
			b = b[:r.Intn(len(b)+1)]
		}
	case 1:
		if len(b) > 0 {
			k := r.Intn(len(b))
			b[k] ^= 1 << uint(r.Intn(8))
		}
	case 2:
		b = append(b, r.Bytes(r.Intn(5))...)
	case 3:
		if len(b) > 1 {
			k := 1 + r.Intn(len(b)-1)
			b[k] += byte(r.Intn(3)) - 1
		}
	}
	return b
}

// c28GenFrameBytes: a (mostly valid) frame encoding built independently of the writer.
func c28GenFrameBytes(r *vu.Rng) []byte {
	if r.Chance(1, 12) {
		return r.Bytes(r.Intn(24))
	}
	if r.Chance(1, 12) {
		b := r.Bytes(1 + r.Intn(24))
		b[0] = byte(r.Intn(0x22))
		return b
	}
	v := func(b []byte, x uint64) []byte { return c28AppendVarintAny(r, b, x) }
	vb := func(b []byte, d []byte) []byte { return append(v(b, uint64(len(d))), d...) }
	var b []byte
	switch r.Intn(24) {
	case 0:
		b = make([]byte, 1+r.Intn(6))
		if r.Bool() {
			b = append(b, byte(1+r.Intn(0x1e)))
		}
		return b
	case 1:
		b = []byte{frameTypePing}
	case 2, 3:
		return c28GenAckBytes(r)
	case 4:
		b = v(v(v([]byte{frameTypeResetStream}, c28V(r)), c28V(r)), c28V(r))
	case 5:
		b = v(v([]byte{frameTypeStopSending}, c28V(r)), c28V(r))
	case 6:
		b = vb(v([]byte{frameTypeCrypto}, c28V(r)), c28Data(r))
	case 7:
		b = vb([]byte{frameTypeNewToken}, c28Data(r))
	case 8, 9, 10:
		t := byte(frameTypeStreamBase + r.Intn(8))
		b = v([]byte{t}, c28V(r))
		if t&streamOffBit != 0 {
			off := c28V(r)
			if r.Chance(1, 6) {
				off = (1 << 62) - uint64(r.Intn(40))
			}
			b = v(b, off)
		}
		if t&streamLenBit != 0 {
			b = vb(b, c28Data(r))
		} else {
			b = append(b, c28Data(r)...)
		}
	case 11:
		b = v([]byte{frameTypeMaxData}, c28V(r))
	case 12:
		b = v(v([]byte{frameTypeMaxStreamData}, c28V(r)), c28V(r))
	case 13:
		m := c28V(r)
		if r.Bool() {
			m = (1 << 60) - 1 + uint64(r.Intn(3))
		}
		b = v([]byte{byte(frameTypeMaxStreamsBidi + r.Intn(2))}, m)
	case 14:
		b = v([]byte{frameTypeDataBlocked}, c28V(r))
	case 15:
		b = v(v([]byte{frameTypeStreamDataBlocked}, c28V(r)), c28V(r))
	case 16:
		m := c28V(r)
		if r.Bool() {
			m = (1 << 60) - 1 + uint64(r.Intn(3))
		}
		b = v([]byte{byte(frameTypeStreamsBlockedBidi + r.Intn(2))}, m)
	case 17, 18:
		seq, ret := c28Small(r), c28Small(r)
		if r.Chance(4, 5) && seq < ret {
			seq, ret = ret, seq
		}
		n := r.Range(1, 20)
		if r.Chance(1, 6) {
			n = []int{0, 21, 22, 63}[r.Intn(4)]
		}
		b = v(v([]byte{frameTypeNewConnectionID}, seq), ret)
		if r.Chance(1, 5) {
			// the Length field written as a longer varint: its first byte, read as the
			// 8-bit length of RFC 9000 section 19.15, is >= 64
			b = append(b, 0x40, byte(n))
		} else {
			b = append(b, byte(n))
		}
		b = append(b, r.Bytes(n)...)
		b = append(b, r.Bytes(16)...)
	case 19:
		b = v([]byte{frameTypeRetireConnectionID}, c28V(r))
	case 20:
		b = append([]byte{byte(frameTypePathChallenge + r.Intn(2))}, r.Bytes(8)...)
	case 21:
		b = vb(v(v([]byte{frameTypeConnectionCloseTransport}, c28V(r)), c28V(r)), c28Data(r))
	case 22:
		b = vb(v([]byte{frameTypeConnectionCloseApplication}, c28V(r)), c28Data(r))
	default:
		b = []byte{frameTypeHandshakeDone}
	}
	return c28Mutate(r, b)
}

// ---------------------------------------------------------------- rendering

func c28Ranges(rs []i64range[packetNumber]) string {
	if len(rs) == 0 {
		return "-"
	}
	var p []string
	for _, x := range rs {
		p = append(p, fmt.Sprintf("%d-%d", uint64(x.start), uint64(x.end)))
	}
	return strings.Join(p, ",")
}

func c28Render(f debugFrame) string {
	switch f := f.(type) {
	case debugFramePadding:
		return fmt.Sprintf("PADDING %d", f.size)
	case debugFramePing:
		return "PING"
	case debugFrameAck:
		return fmt.Sprintf("ACK %d %s %d %d %d", uint64(f.ackDelay), c28Ranges(f.ranges), f.ecn.t0, f.ecn.t1, f.ecn.ce)
	case debugFrameResetStream:
		return fmt.Sprintf("RESET_STREAM %d %d %d", uint64(f.id), f.code, uint64(f.finalSize))
	case debugFrameStopSending:
		return fmt.Sprintf("STOP_SENDING %d %d", uint64(f.id), f.code)
	case debugFrameCrypto:
		return fmt.Sprintf("CRYPTO %d %s", uint64(f.off), vu.Hex(f.data))
	case debugFrameNewToken:
		return fmt.Sprintf("NEW_TOKEN %s", vu.Hex(f.token))
	case debugFrameStream:
		return fmt.Sprintf("STREAM %d %d %d %s", uint64(f.id), uint64(f.off), b01(f.fin), vu.Hex(f.data))
	case debugFrameMaxData:
		return fmt.Sprintf("MAX_DATA %d", uint64(f.max))
	case debugFrameMaxStreamData:
		return fmt.Sprintf("MAX_STREAM_DATA %d %d", uint64(f.id), uint64(f.max))
	case debugFrameMaxStreams:
		return fmt.Sprintf("MAX_STREAMS %d %d", b01(f.streamType == uniStream), uint64(f.max))
	case debugFrameDataBlocked:
		return fmt.Sprintf("DATA_BLOCKED %d", uint64(f.max))
	case debugFrameStreamDataBlocked:
		return fmt.Sprintf("STREAM_DATA_BLOCKED %d %d", uint64(f.id), uint64(f.max))
	case debugFrameStreamsBlocked:
		return fmt.Sprintf("STREAMS_BLOCKED %d %d", b01(f.streamType == uniStream), uint64(f.max))
	case debugFrameNewConnectionID:
		return fmt.Sprintf("NEW_CONNECTION_ID %d %d %s %s", uint64(f.seq), uint64(f.retirePriorTo), vu.Hex(f.connID), vu.Hex(f.token[:]))
	case debugFrameRetireConnectionID:
		return fmt.Sprintf("RETIRE_CONNECTION_ID %d", uint64(f.seq))
	case debugFramePathChallenge:
		return fmt.Sprintf("PATH_CHALLENGE %s", vu.Hex(f.data[:]))
	case debugFramePathResponse:
		return fmt.Sprintf("PATH_RESPONSE %s", vu.Hex(f.data[:]))
	case debugFrameConnectionCloseTransport:
		return fmt.Sprintf("CONNECTION_CLOSE_TRANSPORT %d %d %s", uint64(f.code), f.frameType, vu.Hex([]byte(f.reason)))
	case debugFrameConnectionCloseApplication:
		return fmt.Sprintf("CONNECTION_CLOSE_APP %d %s", f.code, vu.Hex([]byte(f.reason)))
	case debugFrameHandshakeDone:
		return "HANDSHAKE_DONE"
	}
	return fmt.Sprintf("UNKNOWN %T", f)
}

// ---------------------------------------------------------------- executor

func c28NewWriter(avail int) *packetWriter {
	return &packetWriter{b: make([]byte, 0, avail+64), pktLim: avail, dgramLim: avail + 16, sent: newSentPacket()}
}

func c28ParseRanges(s string) (rangeset[packetNumber], bool) {
	if s == "-" {
		return nil, true
	}
	var rs rangeset[packetNumber]
	for _, p := range strings.Split(s, ",") {
		var a, b uint64
		if n, err := fmt.Sscanf(p, "%d-%d", &a, &b); n != 2 || err != nil {
			return nil, false
		}
		rs = append(rs, i64range[packetNumber]{packetNumber(a), packetNumber(b)})
	}
	return rs, true
}

// c28Frame builds the debugFrame a "w" op describes. expectReject says that the frame is
// invalid on the wire (the parser must refuse it); trunc says the writer may shorten data.
func c28Frame(t []string) (f debugFrame, ok bool) {
	u := func(i int) uint64 { return vu.Atou64(t[i]) }
	defer func() {
		if e := recover(); e != nil {
			f, ok = nil, false
		}
	}()
	switch {
	case t[0] == "ping" && len(t) == 1:
		return debugFramePing{}, true
	case t[0] == "hsdone" && len(t) == 1:
		return debugFrameHandshakeDone{}, true
	case t[0] == "reset" && len(t) == 4:
		return debugFrameResetStream{id: streamID(u(1)), code: u(2), finalSize: int64(u(3))}, true
	case t[0] == "stop" && len(t) == 3:
		return debugFrameStopSending{id: streamID(u(1)), code: u(2)}, true
	case t[0] == "crypto" && len(t) == 3:
		return debugFrameCrypto{off: int64(u(1)), data: vu.MustHex(t[2])}, true
	case t[0] == "newtoken" && len(t) == 2:
		return debugFrameNewToken{token: vu.MustHex(t[1])}, true
	case t[0] == "stream" && len(t) == 5:
		return debugFrameStream{id: streamID(u(1)), off: int64(u(2)), fin: u(3) == 1, data: vu.MustHex(t[4])}, true
	case t[0] == "maxdata" && len(t) == 2:
		return debugFrameMaxData{max: int64(u(1))}, true
	case t[0] == "maxstreamdata" && len(t) == 3:
		return debugFrameMaxStreamData{id: streamID(u(1)), max: int64(u(2))}, true
	case t[0] == "maxstreams" && len(t) == 3:
		return debugFrameMaxStreams{streamType: c28ST(u(1)), max: int64(u(2))}, true
	case t[0] == "datablocked" && len(t) == 2:
		return debugFrameDataBlocked{max: int64(u(1))}, true
	case t[0] == "sdblocked" && len(t) == 3:
		return debugFrameStreamDataBlocked{id: streamID(u(1)), max: int64(u(2))}, true
	case t[0] == "streamsblocked" && len(t) == 3:
		return debugFrameStreamsBlocked{streamType: c28ST(u(1)), max: int64(u(2))}, true
	case t[0] == "newcid" && len(t) == 5:
		tok := vu.MustHex(t[4])
		if len(tok) != 16 {
			return nil, false
		}
		return debugFrameNewConnectionID{seq: int64(u(1)), retirePriorTo: int64(u(2)), connID: vu.MustHex(t[3]), token: statelessResetToken(tok)}, true
	case t[0] == "retirecid" && len(t) == 2:
		return debugFrameRetireConnectionID{seq: int64(u(1))}, true
	case (t[0] == "pathch" || t[0] == "pathresp") && len(t) == 2:
		d := vu.MustHex(t[1])
		if len(d) != 8 {
			return nil, false
		}
		if t[0] == "pathch" {
			return debugFramePathChallenge{data: pathChallengeData(d)}, true
		}
		return debugFramePathResponse{data: pathChallengeData(d)}, true
	case t[0] == "cctransport" && len(t) == 4:
		return debugFrameConnectionCloseTransport{code: transportError(u(1)), frameType: u(2), reason: string(vu.MustHex(t[3]))}, true
	case t[0] == "ccapp" && len(t) == 3:
		return debugFrameConnectionCloseApplication{code: u(1), reason: string(vu.MustHex(t[2]))}, true
	case t[0] == "padding" && len(t) == 2:
		return debugFramePadding{size: vu.Atoi(t[1])}, true
	case t[0] == "ack" && len(t) == 6:
		rs, ok := c28ParseRanges(t[5])
		if !ok {
			return nil, false
		}
		return debugFrameAck{ackDelay: unscaledAckDelay(u(1)), ranges: rs, ecn: ecnCounts{t0: int(u(2)), t1: int(u(3)), ce: int(u(4))}}, true
	}
	return nil, false
}

func c28ST(v uint64) streamType {
	if v == 1 {
		return uniStream
	}
	return bidiStream
}

func c28Exec(ops []string, o *vu.Out) {
	for _, op := range ops {
		t := strings.Fields(op)
		if len(t) < 2 {
			o.Op(op, "bad-op")
			continue
		}
		switch t[0] {
		case "w":
			c28ExecWrite(op, t, o)
		case "parse":
			b, ok := vu.ParseHex(t[1])
			if !ok || len(t) != 2 {
				o.Op(op, "bad-op")
				continue
			}
			c28ExecParse(op, b, o)
		case "ack":
			b, ok := vu.ParseHex(t[1])
			if !ok || len(t) != 2 || len(b) == 0 {
				o.Op(op, "bad-op")
				continue
			}
			o.Stat("op:ack")
			res := vu.Catch(func() string {
				var rs []i64range[packetNumber]
				largest, delay, ecn, n := consumeAckFrame(b, func(_ int, s, e packetNumber) {
					rs = append(rs, i64range[packetNumber]{s, e})
				})
				if n < 0 {
					return "err"
				}
				return fmt.Sprintf("ok %d %d %d %s %d %d %d", n, uint64(largest), uint64(delay), c28Ranges(rs), ecn.t0, ecn.t1, ecn.ce)
			})
			if res == "panic" {
				o.Fail("", fmt.Sprintf("consumeAckFrame panics on %x", b))
			}
			o.Op(op, res)
		case "tpmarshal":
			c28ExecTPMarshal(op, t, o)
		case "tpunmarshal":
			b, ok := vu.ParseHex(t[1])
			if !ok || len(t) != 2 {
				o.Op(op, "bad-op")
				continue
			}
			c28ExecTPUnmarshal(op, b, o)
		case "pkt":
			c28ExecPacket(op, t, o)
		default:
			o.Op(op, "bad-op")
		}
	}
}

func c28ExecWrite(op string, t []string, o *vu.Out) {
	if len(t) < 3 {
		o.Op(op, "bad-op")
		return
	}
	avail, bad := 0, false
	func() {
		defer func() {
			if recover() != nil {
				bad = true
			}
		}()
		avail = vu.Atoi(t[1])
	}()
	if bad || avail < 0 || avail > 1<<20 {
		o.Op(op, "bad-op")
		return
	}
	o.Stat("w:" + t[2])
	if t[2] == "padto" && len(t) == 4 {
		n := 0
		func() {
			defer func() {
				if recover() != nil {
					bad = true
				}
			}()
			n = vu.Atoi(t[3])
		}()
		if bad {
			o.Op(op, "bad-op")
			return
		}
		o.Op(op, vu.Catch(func() string {
			w := c28NewWriter(avail)
			w.appendPaddingTo(n)
			return "ok " + vu.Hex(w.b)
		}))
		return
	}
	f, ok := c28Frame(t[2:])
	if !ok {
		o.Op(op, "bad-op")
		return
	}
	var wrote []byte
	kept := -1
	res := vu.Catch(func() string {
		w := c28NewWriter(avail)
		added := false
		switch f := f.(type) {
		case debugFrameCrypto: // debugFrameCrypto.write, keeping the length of the returned slice
			var b []byte
			b, added = w.appendCryptoFrame(f.off, len(f.data))
			copy(b, f.data)
			kept = len(b)
		case debugFrameStream:
			var b []byte
			b, added = w.appendStreamFrame(f.id, f.off, len(f.data), f.fin)
			copy(b, f.data)
			kept = len(b)
		default:
			added = f.write(w)
		}
		if !added {
			if len(w.b) != 0 {
				o.Fail("", fmt.Sprintf("%s: write reported false but appended %x", op, w.b))
			}
			return "full"
		}
		wrote = append([]byte{}, w.b...)
		return "ok " + vu.Hex(w.b)
	})
	o.Op(op, res)
	if !strings.HasPrefix(res, "ok") {
		o.Stat("w-result:" + res)
		return
	}
	o.Stat("w-result:ok")
	if len(wrote) > avail {
		o.Fail("", fmt.Sprintf("%s: wrote %d bytes with avail=%d", op, len(wrote), avail))
	}
	c28OracleRoundTrip(op, f, wrote, kept, o)
}

// c28OracleRoundTrip states C28 (frames) on the implementation: what the writer emitted
// parses back to the same frame, consuming exactly the emitted bytes whatever follows.
func c28OracleRoundTrip(op string, f debugFrame, wrote []byte, k int, o *vu.Out) {
	tail := []byte{0x1e, 0xff, 0x01}
	in := append(append([]byte{}, wrote...), tail...)
	var got debugFrame
	n := 0
	if vu.Catch(func() string { got, n = parseDebugFrame(in); return "" }) == "panic" {
		o.Fail("", fmt.Sprintf("%s: parseDebugFrame panics on the writer's output %x", op, wrote))
		return
	}
	want := f
	reject := false
	switch f := f.(type) {
	case debugFramePadding:
		want = debugFramePadding{size: len(wrote)}
		if len(wrote) == 0 {
			return
		}
	case debugFrameCrypto:
		// the writer may truncate: k is the length of the slice it handed back
		want = debugFrameCrypto{off: f.off, data: f.data[:k]}
	case debugFrameStream:
		want = debugFrameStream{id: f.id, off: f.off, fin: f.fin && k == len(f.data), data: f.data[:k]}
		reject = uint64(f.off)+uint64(k) >= 1<<62
	case debugFrameNewToken:
		reject = len(f.token) == 0
	case debugFrameMaxStreams:
		reject = f.max > maxStreamsLimit
	case debugFrameStreamsBlocked:
		reject = f.max > maxStreamsLimit
	case debugFrameNewConnectionID:
		reject = f.seq < f.retirePriorTo || len(f.connID) < 1 || len(f.connID) > 20
	case debugFrameAck:
		c28OracleAck(op, f, wrote, in, o)
		return
	}
	if reject {
		o.Stat("oracle:invalid-frame-rejected")
		if n >= 0 {
			o.Fail("", fmt.Sprintf("%s: parser accepts the out-of-range frame %x as %v", op, wrote, got))
		}
		return
	}
	if n != len(wrote) {
		o.Fail("", fmt.Sprintf("%s: wrote %x, parser consumed n=%d want %d", op, wrote, n, len(wrote)))
		return
	}
	if !c28Equal(got, want) {
		o.Fail("", fmt.Sprintf("%s: wrote %x, parsed back %v, want %v", op, wrote, got, want))
	}
}

func c28Equal(a, b debugFrame) bool {
	return c28Render(a) == c28Render(b) && reflect.TypeOf(a) == reflect.TypeOf(b)
}

func c28OracleAck(op string, f debugFrameAck, wrote, in []byte, o *vu.Out) {
	var rs []i64range[packetNumber]
	largest, delay, ecn, n := consumeAckFrame(in, func(_ int, s, e packetNumber) {
		rs = append(rs, i64range[packetNumber]{s, e})
	})
	if n != len(wrote) {
		o.Fail("", fmt.Sprintf("%s: wrote %x, consumeAckFrame n=%d want %d", op, wrote, n, len(wrote)))
		return
	}
	k := len(rs)
	okk := k >= 1 && k <= len(f.ranges) && k <= 64
	for i := 0; okk && i < k; i++ {
		okk = rs[i] == f.ranges[len(f.ranges)-1-i]
	}
	if !okk || largest != f.ranges[len(f.ranges)-1].end-1 || delay != f.ackDelay || ecn != f.ecn {
		o.Fail("", fmt.Sprintf("%s: wrote %x, consumeAckFrame gives largest=%d delay=%d ranges=%s ecn=%v", op, wrote, largest, delay, c28Ranges(rs), ecn))
		return
	}
	o.Stat(fmt.Sprintf("oracle:ack-ranges-%d", min(k, 5)))
	// the debug representation: same ranges, lowest first
	got, n2 := parseDebugFrame(in)
	ga, isAck := got.(debugFrameAck)
	if n2 != len(wrote) || !isAck || ga.ackDelay != f.ackDelay || ga.ecn != f.ecn || len(ga.ranges) != k {
		o.Fail("", fmt.Sprintf("%s: wrote %x, parseDebugFrame gives %v", op, wrote, got))
		return
	}
	for i := 0; i < k; i++ {
		if ga.ranges[i] != f.ranges[len(f.ranges)-k+i] {
			o.Fail("", fmt.Sprintf("%s: ACK with %d ranges: parseDebugFrameAck orders them %s, written %s", op, k, c28Ranges(ga.ranges), c28Ranges(f.ranges[len(f.ranges)-k:])))
			return
		}
	}
}

func c28ExecParse(op string, b []byte, o *vu.Out) {
	var f debugFrame
	n := 0
	res := vu.Catch(func() string {
		f, n = parseDebugFrame(b)
		if n < 0 {
			return "err"
		}
		return fmt.Sprintf("ok %d %s", n, c28Render(f))
	})
	o.Op(op, res)
	if res == "panic" {
		o.Fail("", fmt.Sprintf("parseDebugFrame panics on %x", b))
		return
	}
	if n < 0 {
		o.Stat("parse:err")
		return
	}
	o.Stat("parse:" + strings.Fields(c28Render(f))[0])
	if n < 1 || n > len(b) {
		o.Fail("", fmt.Sprintf("parseDebugFrame(%x) reports n=%d outside 1..%d", b, n, len(b)))
		return
	}
	// out-of-range values must have been rejected
	switch f := f.(type) {
	case debugFrameMaxStreams:
		if f.max > maxStreamsLimit {
			o.Fail("", fmt.Sprintf("MAX_STREAMS %d accepted", f.max))
		}
	case debugFrameStreamsBlocked:
		if f.max > maxStreamsLimit {
			o.Fail("", fmt.Sprintf("STREAMS_BLOCKED %d (stream count above 2^60) accepted: %x", f.max, b))
		}
	case debugFrameNewToken:
		if len(f.token) == 0 {
			o.Fail("", "empty NEW_TOKEN accepted")
		}
	case debugFrameStream:
		if uint64(f.off)+uint64(len(f.data)) >= 1<<62 {
			o.Fail("", fmt.Sprintf("STREAM beyond 2^62 accepted: %x", b))
		}
	case debugFrameNewConnectionID:
		if f.seq < f.retirePriorTo || len(f.connID) < 1 || len(f.connID) > 20 {
			o.Fail("", fmt.Sprintf("invalid NEW_CONNECTION_ID accepted: %x", b))
		}
		// RFC 9000 19.15: Length is an 8-bit field and values outside 1..20 are a
		// FRAME_ENCODING_ERROR. Locate it after the two varints.
		_, n1 := quicwire.ConsumeVarint(b[1:])
		_, n2 := quicwire.ConsumeVarint(b[1+n1:])
		if l := b[1+n1+n2]; l < 1 || l > 20 {
			o.Fail("", fmt.Sprintf("NEW_CONNECTION_ID whose 8-bit Length field is %d accepted: %x", l, b))
		}
	}
	// re-encoding what was parsed and parsing again is the identity
	if _, isAck := f.(debugFrameAck); isAck {
		c28OracleReencodeAck(b, n, o)
		return
	}
	if p, isPad := f.(debugFramePadding); isPad && p.size != n {
		o.Fail("", fmt.Sprintf("PADDING size %d but n=%d", p.size, n))
	}
	w := c28NewWriter(n + 64)
	if r := vu.Catch(func() string {
		if !f.write(w) {
			return "full"
		}
		return "ok"
	}); r != "ok" {
		o.Fail("", fmt.Sprintf("parsed frame %v (from %x) cannot be written: %s", f, b, r))
		return
	}
	f2, n2 := parseDebugFrame(append(append([]byte{}, w.b...), 0x1e))
	if n2 != len(w.b) || !c28Equal(f, f2) {
		o.Fail("", fmt.Sprintf("%x parses as %v; rewritten as %x it parses as %v (n=%d)", b, f, w.b, f2, n2))
	}
}

func c28OracleReencodeAck(b []byte, n int, o *vu.Out) {
	var rs rangeset[packetNumber]
	largest, delay, ecn, n1 := consumeAckFrame(b, func(_ int, s, e packetNumber) {
		rs = append(rs, i64range[packetNumber]{s, e})
	})
	if n1 != n || len(rs) == 0 || rs[0].end-1 != largest {
		o.Fail("", fmt.Sprintf("ACK %x: consumeAckFrame n=%d largest=%d ranges=%s", b, n1, largest, c28Ranges(rs)))
		return
	}
	for i := range rs {
		if rs[i].start < 0 || rs[i].start >= rs[i].end || (i > 0 && rs[i].end >= rs[i-1].start) {
			o.Fail("", fmt.Sprintf("ACK %x: reported ranges are not descending and disjoint: %s", b, c28Ranges(rs)))
			return
		}
	}
	if len(rs) > 64 {
		return // the writer never emits more than 64 ranges
	}
	asc := make(rangeset[packetNumber], len(rs))
	for i := range rs {
		asc[len(rs)-1-i] = rs[i]
	}
	w := c28NewWriter(len(b)*8 + 64)
	if !w.appendAckFrame(asc, delay, ecn) {
		o.Fail("", fmt.Sprintf("ACK parsed from %x cannot be written", b))
		return
	}
	var rs2 rangeset[packetNumber]
	l2, d2, e2, n2 := consumeAckFrame(w.b, func(_ int, s, e packetNumber) {
		rs2 = append(rs2, i64range[packetNumber]{s, e})
	})
	if n2 != len(w.b) || l2 != largest || d2 != delay || e2 != ecn || !reflect.DeepEqual(rs, rs2) {
		o.Fail("", fmt.Sprintf("ACK %x rewritten as %x parses differently", b, w.b))
	}
}

var _ = bytes.Equal
