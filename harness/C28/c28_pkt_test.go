//go:build verif

// C28 harness, protected packets. The real writer/parser run (a) with a toy AEAD and
// header-protection mask that the Lean model implements too (byte-exact D-tie of the
// header layout, padding, packet-number coding and masking), and (b) with the real
// cipher suites (oracle: protected packets round-trip).
package quic

import (
	"bytes"
	"crypto/cipher"
	"crypto/tls"
	"errors"
	"fmt"
	"strings"

	vu "golang.org/x/net/internal/verifutil"
)

// ---- toy crypto (must match NetVerif.Model.QuicPacket.toy)

type c28ToyAEAD struct{}

func c28Wsum(b []byte, k uint64) (s uint64) {
	for _, x := range b {
		s += uint64(x) * k
		k++
	}
	return s
}

func c28ToyTag(nonce, ad, p []byte) []byte {
	s := c28Wsum(ad, 1) + c28Wsum(p, 7) + c28Wsum(nonce, 3)
	tag := make([]byte, 16)
	for j := range tag {
		tag[j] = byte((s + 31*uint64(j)) % 256)
	}
	return tag
}

func (c28ToyAEAD) NonceSize() int { return 12 }
func (c28ToyAEAD) Overhead() int  { return 16 }
func (c28ToyAEAD) Seal(dst, nonce, plaintext, ad []byte) []byte {
	tag := c28ToyTag(nonce, ad, plaintext) // before writing: dst may alias plaintext/ad
	out := make([]byte, len(plaintext))
	for i, x := range plaintext {
		out[i] = x ^ nonce[11]
	}
	dst = append(dst, out...)
	return append(dst, tag...)
}
func (c28ToyAEAD) Open(dst, nonce, ct, ad []byte) ([]byte, error) {
	if len(ct) < 16 {
		return nil, errors.New("toy: short")
	}
	p := make([]byte, len(ct)-16)
	for i := range p {
		p[i] = ct[i] ^ nonce[11]
	}
	if !bytes.Equal(ct[len(ct)-16:], c28ToyTag(nonce, ad, p)) {
		return nil, errors.New("toy: bad tag")
	}
	return append(dst, p...), nil
}

var _ cipher.AEAD = c28ToyAEAD{}

type c28ToyHP struct{}

func (c28ToyHP) headerProtection(sample []byte) (mask [5]byte) {
	copy(mask[:], sample[:5])
	return mask
}

func c28ToyIV(k int) []byte {
	iv := make([]byte, 12)
	for i := range iv {
		iv[i] = byte(16*(k+1) + i)
	}
	return iv
}

func c28ToyFixed() fixedKeys {
	return fixedKeys{hdr: headerKey{hp: c28ToyHP{}}, pkt: packetKey{aead: c28ToyAEAD{}, iv: c28ToyIV(0)}}
}

func c28ToyUpdating(phase uint8) *updatingKeyPair {
	mk := func() updatingKeys {
		return updatingKeys{suite: tls.TLS_AES_128_GCM_SHA256, hdr: headerKey{hp: c28ToyHP{}},
			pkt: [2]packetKey{{aead: c28ToyAEAD{}, iv: c28ToyIV(0)}, {aead: c28ToyAEAD{}, iv: c28ToyIV(1)}}}
	}
	k := &updatingKeyPair{phase: phase, r: mk(), w: mk()}
	k.updateAfter = maxPacketNumber
	return k
}

var c28Suites = map[string]uint16{"aes128": tls.TLS_AES_128_GCM_SHA256, "aes256": tls.TLS_AES_256_GCM_SHA384, "chacha": tls.TLS_CHACHA20_POLY1305_SHA256}

func c28Fixed(suite string) (fixedKeys, bool) {
	if suite == "toy" {
		return c28ToyFixed(), true
	}
	s, ok := c28Suites[suite]
	if !ok {
		return fixedKeys{}, false
	}
	var k fixedKeys
	k.init(s, []byte("verif secret"))
	return k, true
}

func c28Updating(suite string, phase uint8) (*updatingKeyPair, bool) {
	if suite == "toy" {
		return c28ToyUpdating(phase), true
	}
	s, ok := c28Suites[suite]
	if !ok {
		return nil, false
	}
	k := &updatingKeyPair{phase: phase}
	k.r.init(s, []byte("verif secret"))
	k.w.init(s, []byte("verif secret"))
	k.updateAfter = maxPacketNumber
	return k, true
}

// ---- generator

func c28GenPN(r *vu.Rng) (pnum uint64, maxAcked, recvMax int64) {
	pnum = uint64(r.Intn(300))
	switch r.Intn(4) {
	case 0:
		pnum = r.Boundary(33)
	case 1:
		pnum = r.Boundary(62)
	}
	maxAcked = -1
	if r.Bool() && pnum > 0 {
		// acked numbers are below pnum; pick a gap around the length thresholds
		gap := []uint64{1, 2, 0x7f, 0x80, 0x81, 0x7fff, 0x8000, 0x7fffff, 0x800000, 0x800001, uint64(r.Intn(1 << 20)) + 1}[r.Intn(11)]
		if gap > pnum {
			gap = pnum
		}
		maxAcked = int64(pnum - gap)
	}
	// the receiver's largest seen number: close enough for the truncated number to decode,
	// sometimes far away (then the decoded number differs and the AEAD must fail)
	recvMax = int64(pnum) - 1
	switch r.Intn(5) {
	case 0:
		recvMax = maxAcked
	case 1:
		recvMax = int64(pnum) - 1 - int64(r.Intn(100))
	case 2:
		recvMax = int64(pnum) + int64(r.Intn(100))
	case 3:
		recvMax = int64(r.Boundary(62))
	}
	if recvMax < -1 {
		recvMax = -1
	}
	if recvMax >= 1<<62 {
		recvMax = 1<<62 - 1
	}
	return
}

func c28Suite(r *vu.Rng) string {
	return []string{"toy", "toy", "toy", "aes128", "aes256", "chacha"}[r.Intn(6)]
}

func c28GenCid(r *vu.Rng) []byte {
	n := r.Intn(21)
	if r.Chance(1, 15) {
		n = r.Range(21, 30)
	}
	if r.Chance(1, 80) {
		n = r.Range(254, 257)
	}
	return r.Bytes(n)
}

func c28GenPayload(r *vu.Rng) []byte {
	switch r.Intn(6) {
	case 0:
		return nil
	case 1:
		return r.Bytes(r.Range(1, 4))
	case 2:
		return r.Bytes(r.Range(100, 1300))
	default:
		return r.Bytes(r.Range(1, 40))
	}
}

func c28GenLim(r *vu.Rng) int {
	switch r.Intn(5) {
	case 0:
		return r.Range(30, 120)
	case 1:
		return r.Range(1150, 1250)
	default:
		return 1200
	}
}

// c28GenLongFill: a long-header packet whose payload fills the packet, with a datagram limit
// around (and well above) the capacity of the 2-byte Length field: header + 16383 +- a few bytes.
func c28GenLongFill(r *vu.Rng) string {
	pnum, ma, rm := c28GenPN(r)
	ptype := r.Range(1, 3)
	dcid, scid := r.Bytes(r.Intn(21)), r.Bytes(r.Intn(21))
	tok := []byte(nil)
	if r.Bool() {
		tok = r.Bytes(r.Intn(70))
	}
	hdr := 1 + 4 + 1 + len(dcid) + 1 + len(scid) + 2
	if ptype == 1 {
		hdr += 1 + len(tok)
		if len(tok) > 63 {
			hdr++
		}
	}
	lim := hdr + 16383 + r.Range(-6, 6)
	switch r.Intn(4) {
	case 0:
		lim = []int{20000, 32768, 65527, 65536}[r.Intn(4)]
	case 1:
		lim = r.Range(16300, 16500)
	}
	fill := lim + r.Range(-30, 10) // more than fits: the harness truncates to avail
	if r.Chance(1, 4) {
		fill = lim - hdr - 16 - r.Range(0, 8)
	}
	if fill < 1 {
		fill = 1
	}
	return fmt.Sprintf("pkt longfill %s %d %d %s %s %s %d %d %d %d %d %d", c28Suite(r), ptype,
		[]uint32{1, 0x11223344}[r.Intn(2)], vu.Hex(dcid), vu.Hex(scid), vu.Hex(tok), pnum, ma, rm, fill, r.Intn(256), lim)
}

func c28FillBytes(n, b int) []byte {
	p := make([]byte, n)
	for i := range p {
		p[i] = byte(b + i)
	}
	return p
}

func c28GenPacket(r *vu.Rng) []string {
	if r.Chance(1, 60) {
		return []string{c28GenLongFill(r)}
	}
	switch r.Intn(10) {
	case 0, 1, 2, 3:
		pnum, ma, rm := c28GenPN(r)
		tok := []byte(nil)
		if r.Bool() {
			tok = r.Bytes(r.Intn(70))
		}
		return []string{fmt.Sprintf("pkt long %s %d %d %s %s %s %d %d %d %s %d", c28Suite(r), r.Range(1, 3),
			[]uint32{1, 0x11223344, 0, 0xffffffff}[r.Intn(4)], vu.Hex(c28GenCid(r)), vu.Hex(c28GenCid(r)), vu.Hex(tok),
			pnum, ma, rm, vu.Hex(c28GenPayload(r)), c28GenLim(r))}
	case 4, 5, 6:
		pnum, ma, rm := c28GenPN(r)
		return []string{fmt.Sprintf("pkt short %s %d %s %d %d %d %s %d", c28Suite(r), 4*r.Intn(2), vu.Hex(c28GenCid(r)),
			pnum, ma, rm, vu.Hex(c28GenPayload(r)), c28GenLim(r))}
	case 7, 8:
		return []string{fmt.Sprintf("pkt parselong %s %d", vu.Hex(c28GenLongBytes(r)), int64(r.Intn(300))-1)}
	default:
		b := r.Bytes(r.Intn(60))
		if len(b) > 0 && r.Bool() {
			b[0] = 0x40 | b[0]&0x3f
		}
		return []string{fmt.Sprintf("pkt parseshort %s %d %d %d", vu.Hex(b), r.Intn(22), 4*r.Intn(2), int64(r.Intn(300))-1)}
	}
}

// c28GenLongBytes: a toy-protected long-header packet (built with the real writer, which is
// fine for a generator: the op is the byte string), then mutated; or hand-made junk.
func c28GenLongBytes(r *vu.Rng) []byte {
	if r.Chance(1, 6) {
		b := r.Bytes(r.Intn(50))
		if len(b) > 0 {
			b[0] |= 0x80
		}
		return b
	}
	if r.Chance(1, 6) {
		// Retry or version negotiation shaped
		b := []byte{0xc0 | byte(r.Intn(4))<<4 | byte(r.Intn(16))}
		if r.Bool() {
			b = append(b, 0, 0, 0, 0)
		} else {
			b = append(b, 0, 0, 0, 1)
		}
		d, s := c28GenCid(r), c28GenCid(r)
		if len(d) > 255 {
			d = d[:20]
		}
		if len(s) > 255 {
			s = s[:20]
		}
		b = append(append(b, byte(len(d))), d...)
		b = append(append(b, byte(len(s))), s...)
		return append(b, r.Bytes(r.Intn(40))...)
	}
	p := longPacket{ptype: packetType(r.Range(1, 3)), version: 1, num: packetNumber(r.Intn(300)),
		dstConnID: r.Bytes(r.Intn(21)), srcConnID: r.Bytes(r.Intn(21))}
	if p.ptype == packetTypeInitial {
		p.extra = r.Bytes(r.Intn(8))
	}
	var w packetWriter
	w.reset(1200)
	w.startProtectedLongHeaderPacket(-1, p)
	w.b = append(w.b, r.Bytes(r.Range(1, 30))...)
	w.finishProtectedLongHeaderPacket(-1, c28ToyFixed(), p)
	b := append([]byte{}, w.datagram()...)
	switch r.Intn(5) {
	case 0:
		b = b[:r.Intn(len(b)+1)]
	case 1:
		b[r.Intn(len(b))] ^= 1 << uint(r.Intn(8))
	case 2:
		b = append(b, r.Bytes(r.Intn(10))...)
	}
	return b
}

// ---- executor

func c28ExecPacket(op string, t []string, o *vu.Out) {
	res := "bad-op"
	func() {
		defer func() {
			if e := recover(); e != nil {
				if s, ok := e.(string); ok && strings.HasPrefix(s, "verifutil:") {
					res = "bad-op"
					return
				}
				res = "panic"
			}
		}()
		res = c28ExecPacket1(op, t, o)
	}()
	if res == "panic" {
		// the only panic in the contract: AppendUint8Bytes on a connection ID over 255 bytes
		expected := false
		if (len(t) == 13 && t[1] == "long") || (len(t) == 14 && t[1] == "longfill") {
			d, _ := vu.ParseHex(t[5])
			s, _ := vu.ParseHex(t[6])
			expected = len(d) > 255 || len(s) > 255
		}
		if !expected {
			o.Fail("", op+": panic")
		}
	}
	o.Op(op, res)
}

func c28PNArgs(a, b, c string) (pnum packetNumber, maxAcked, recvMax packetNumber, ok bool) {
	p := vu.Atou64(a)
	m, r := vu.Atoi64(b), vu.Atoi64(c)
	if p >= 1<<62 || m < -1 || m >= 1<<62 || r < -1 || r >= 1<<62 {
		return 0, 0, 0, false
	}
	return packetNumber(p), packetNumber(m), packetNumber(r), true
}

func c28ExecPacket1(op string, t []string, o *vu.Out) string {
	if t[1] == "longfill" && len(t) == 14 {
		// same as "long" with payload = fill bytes (b, b+1, ...) given by length
		n, b := vu.Atoi(t[11]), vu.Atoi(t[12])
		if n < 0 || n > 70000 || b < 0 || b > 255 {
			return "bad-op"
		}
		o.Stat("pkt:longfill")
		t = append(append(append([]string{}, t[:11]...), vu.Hex(c28FillBytes(n, b))), t[13])
		t[1] = "long"
	}
	switch {
	case t[1] == "long" && len(t) == 13:
		k, ok := c28Fixed(t[2])
		ptype := vu.Atoi(t[3])
		version := vu.Atou64(t[4])
		lim := vu.Atoi(t[12])
		pnum, maxAcked, recvMax, ok2 := c28PNArgs(t[8], t[9], t[10])
		if !ok || !ok2 || ptype < 1 || ptype > 3 || version >= 1<<32 || lim < 0 || lim > 65536 {
			return "bad-op"
		}
		p := longPacket{ptype: packetType(ptype), version: uint32(version), num: pnum,
			dstConnID: vu.MustHex(t[5]), srcConnID: vu.MustHex(t[6]), extra: vu.MustHex(t[7])}
		payload := vu.MustHex(t[11])
		o.Stat("pkt:long-" + t[2])
		var w packetWriter
		w.reset(lim)
		w.startProtectedLongHeaderPacket(maxAcked, p)
		if a := w.avail(); a < len(payload) {
			payload = payload[:max(a, 0)]
		}
		w.b = append(w.b, payload...)
		sent := w.finishProtectedLongHeaderPacket(maxAcked, k, p)
		if sent == nil {
			o.Stat("pkt:none")
			if len(w.datagram()) != 0 {
				o.Fail("", op+": no packet but datagram not empty")
			}
			return "none"
		}
		pkt := append([]byte{}, w.datagram()...)
		if len(pkt) > lim {
			o.Fail("", fmt.Sprintf("%s: %d-byte packet exceeds the datagram limit", op, len(pkt)))
		}
		// parse it back (with trailing bytes of a following packet)
		in := append(append([]byte{}, pkt...), 0x40, 0x01, 0x02)
		got, n := parseLongHeaderPacket(in, k, recvMax)
		c28OracleLong(op, t[2] == "toy", p, payload, pkt, got, n, maxAcked, recvMax, o)
		if t[2] != "toy" {
			return fmt.Sprintf("ok %d", len(pkt))
		}
		got, n = parseLongHeaderPacket(append([]byte{}, pkt...), k, recvMax)
		return "ok " + vu.Hex(pkt) + " " + c28ShowLong(got, n)
	case t[1] == "short" && len(t) == 10:
		phase := vu.Atoi(t[3])
		lim := vu.Atoi(t[9])
		pnum, maxAcked, recvMax, ok2 := c28PNArgs(t[5], t[6], t[7])
		if !ok2 || (phase != 0 && phase != 4) || lim < 0 || lim > 65536 {
			return "bad-op"
		}
		k, ok := c28Updating(t[2], uint8(phase))
		if !ok {
			return "bad-op"
		}
		dcid := vu.MustHex(t[4])
		payload := vu.MustHex(t[8])
		o.Stat("pkt:short-" + t[2])
		var w packetWriter
		w.reset(lim)
		w.start1RTTPacket(pnum, maxAcked, dcid)
		if a := w.avail(); a < len(payload) {
			payload = payload[:max(a, 0)]
		}
		w.b = append(w.b, payload...)
		sent := w.finish1RTTPacket(pnum, maxAcked, dcid, k)
		if sent == nil {
			o.Stat("pkt:none")
			return "none"
		}
		pkt := append([]byte{}, w.datagram()...)
		if len(pkt) > lim {
			o.Fail("", fmt.Sprintf("%s: %d-byte packet exceeds the datagram limit", op, len(pkt)))
		}
		// the receiver has its own key state (the sender may have scheduled a key update)
		kr, _ := c28Updating(t[2], uint8(phase))
		got, err := parse1RTTPacket(append([]byte{}, pkt...), kr, len(dcid), recvMax)
		decodes := decodePacketNumber(recvMax, pnum&(1<<(8*uint(packetNumberLength(pnum, maxAcked)))-1), packetNumberLength(pnum, maxAcked)) == pnum
		if decodes {
			o.Stat("pkt:roundtrip")
			want := append(append([]byte{}, payload...), make([]byte, max(0, 4-packetNumberLength(pnum, maxAcked)-len(payload)))...)
			if err != nil || got.num != pnum || !bytes.Equal(got.payload, want) {
				o.Fail("", fmt.Sprintf("%s: 1-RTT packet %x does not decrypt back: num=%d payload=%x err=%v", op, pkt, got.num, got.payload, err))
			}
		} else if err == nil && t[2] != "toy" { // (the toy tag is only a checksum: collisions are possible)
			o.Fail("", fmt.Sprintf("%s: 1-RTT packet accepted although the packet number decodes differently", op))
		}
		if t[2] != "toy" {
			return fmt.Sprintf("ok %d", len(pkt))
		}
		if err != nil {
			return "ok " + vu.Hex(pkt) + " err"
		}
		return fmt.Sprintf("ok %s %d %s", vu.Hex(pkt), uint64(got.num), vu.Hex(got.payload))
	case t[1] == "parselong" && len(t) == 4:
		b := vu.MustHex(t[2])
		rm := vu.Atoi64(t[3])
		if rm < -1 || rm >= 1<<62 {
			return "bad-op"
		}
		o.Stat("pkt:parselong")
		got, n := parseLongHeaderPacket(append([]byte{}, b...), c28ToyFixed(), packetNumber(rm))
		if n > len(b) {
			o.Fail("", fmt.Sprintf("%s: n=%d > len", op, n))
		}
		s := c28ShowLong(got, n)
		if s == "err" {
			return "err"
		}
		o.Stat("pkt:parselong-ok")
		return "ok " + s
	case t[1] == "parseshort" && len(t) == 6:
		b := vu.MustHex(t[2])
		cl, phase, rm := vu.Atoi(t[3]), vu.Atoi(t[4]), vu.Atoi64(t[5])
		if rm < -1 || rm >= 1<<62 || cl < 0 || cl > 255 || (phase != 0 && phase != 4) {
			return "bad-op"
		}
		o.Stat("pkt:parseshort")
		got, err := parse1RTTPacket(append([]byte{}, b...), c28ToyUpdating(uint8(phase)), cl, packetNumber(rm))
		if err != nil {
			return "err"
		}
		return fmt.Sprintf("ok %d %s", uint64(got.num), vu.Hex(got.payload))
	}
	return "bad-op"
}

func c28ShowLong(p longPacket, n int) string {
	if n < 0 {
		return "err"
	}
	return fmt.Sprintf("%d %d %d %d %s %s %s %s", n, p.ptype, p.version, uint64(p.num), vu.Hex(p.dstConnID), vu.Hex(p.srcConnID), vu.Hex(p.extra), vu.Hex(p.payload))
}

// c28OracleLong: a protected long-header packet decrypts back to the same header fields,
// packet number and payload (when the receiver's window lets the truncated number decode).
func c28OracleLong(op string, toy bool, p longPacket, payload, pkt []byte, got longPacket, n int, maxAcked, recvMax packetNumber, o *vu.Out) {
	pl := packetNumberLength(p.num, maxAcked)
	decodes := decodePacketNumber(recvMax, p.num&(1<<(8*uint(pl))-1), pl) == p.num
	valid := p.version != 0 && len(p.dstConnID) <= 20 && len(p.srcConnID) <= 20
	if !valid || !decodes {
		o.Stat("pkt:long-expect-reject")
		if n >= 0 && (!toy || !valid) { // (the toy tag is only a checksum: collisions are possible)
			o.Fail("", fmt.Sprintf("%s: packet %x accepted (version 0, oversized connection ID or undecodable packet number)", op, pkt))
		}
		return
	}
	o.Stat("pkt:roundtrip")
	want := append(append([]byte{}, payload...), make([]byte, max(0, 4-pl-len(payload)))...)
	extra := p.extra
	if p.ptype != packetTypeInitial {
		extra = nil
	}
	if n != len(pkt) || got.ptype != p.ptype || got.version != p.version || got.num != p.num ||
		!bytes.Equal(got.dstConnID, p.dstConnID) || !bytes.Equal(got.srcConnID, p.srcConnID) ||
		!bytes.Equal(got.extra, extra) || !bytes.Equal(got.payload, want) {
		o.Fail("", fmt.Sprintf("%s: packet %x does not parse back: n=%d (want %d) %+v", op, pkt, n, len(pkt), got))
	}
}
