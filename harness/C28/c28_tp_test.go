//go:build verif

// C28 harness, transport parameters.
package quic

import (
	"fmt"
	"net/netip"
	"strings"
	"time"

	"golang.org/x/net/internal/quic/quicwire"
	vu "golang.org/x/net/internal/verifutil"
)

// Op format (22 tokens after the op name); byte strings are `nil`, `-` (empty, non-nil) or x<hex>:
//   odcid idle_ns srt udp md sdbl sdbr sdu sb su ade mad_ns dam pacid v4 v4port v6 v6port patok acl iscid rscid

func c28OptBytes(b []byte) string {
	if b == nil {
		return "nil"
	}
	return vu.Hex(b)
}

func c28ParseOptBytes(s string) ([]byte, bool) {
	if s == "nil" {
		return nil, true
	}
	b, ok := vu.ParseHex(s)
	if ok && b == nil {
		b = []byte{}
	}
	return b, ok
}

func c28RenderTP(p transportParameters) string {
	return fmt.Sprintf("%s %d %s %d %d %d %d %d %d %d %d %d %d %s %s %d %s %d %s %d %s %s",
		c28OptBytes(p.originalDstConnID), int64(p.maxIdleTimeout), c28OptBytes(p.statelessResetToken),
		p.maxUDPPayloadSize, p.initialMaxData, p.initialMaxStreamDataBidiLocal, p.initialMaxStreamDataBidiRemote,
		p.initialMaxStreamDataUni, p.initialMaxStreamsBidi, p.initialMaxStreamsUni, p.ackDelayExponent,
		int64(p.maxAckDelay), b01(p.disableActiveMigration), c28OptBytes(p.preferredAddrConnID),
		vu.Hex(p.preferredAddrV4.Addr().AsSlice()), p.preferredAddrV4.Port(),
		vu.Hex(p.preferredAddrV6.Addr().AsSlice()), p.preferredAddrV6.Port(),
		c28OptBytes(p.preferredAddrResetToken), p.activeConnIDLimit,
		c28OptBytes(p.initialSrcConnID), c28OptBytes(p.retrySrcConnID))
}

func c28AddrPort(a []byte, port uint64) (netip.AddrPort, bool) {
	if port > 65535 {
		return netip.AddrPort{}, false
	}
	switch len(a) {
	case 0:
		return netip.AddrPortFrom(netip.Addr{}, uint16(port)), true
	case 4:
		return netip.AddrPortFrom(netip.AddrFrom4([4]byte(a)), uint16(port)), true
	case 16:
		return netip.AddrPortFrom(netip.AddrFrom16([16]byte(a)), uint16(port)), true
	}
	return netip.AddrPort{}, false
}

func c28ParseTP(t []string) (p transportParameters, ok bool) {
	if len(t) != 22 {
		return p, false
	}
	defer func() {
		if recover() != nil {
			ok = false
		}
	}()
	by := func(i int) []byte {
		b, ok := c28ParseOptBytes(t[i])
		if !ok {
			panic("bad")
		}
		return b
	}
	i64 := func(i int) int64 {
		v := vu.Atoi64(t[i])
		if v < 0 {
			panic("negative")
		}
		return v
	}
	p.originalDstConnID = by(0)
	p.maxIdleTimeout = time.Duration(i64(1))
	p.statelessResetToken = by(2)
	p.maxUDPPayloadSize = i64(3)
	p.initialMaxData = i64(4)
	p.initialMaxStreamDataBidiLocal = i64(5)
	p.initialMaxStreamDataBidiRemote = i64(6)
	p.initialMaxStreamDataUni = i64(7)
	p.initialMaxStreamsBidi = i64(8)
	p.initialMaxStreamsUni = i64(9)
	ade := i64(10)
	if ade > 127 {
		return p, false
	}
	p.ackDelayExponent = int8(ade)
	p.maxAckDelay = time.Duration(i64(11))
	switch t[12] {
	case "0":
	case "1":
		p.disableActiveMigration = true
	default:
		return p, false
	}
	p.preferredAddrConnID = by(13)
	var ok1, ok2 bool
	v4, v6 := by(14), by(16)
	if t[14] == "nil" || t[16] == "nil" {
		return p, false
	}
	p.preferredAddrV4, ok1 = c28AddrPort(v4, uint64(i64(15)))
	p.preferredAddrV6, ok2 = c28AddrPort(v6, uint64(i64(17)))
	if !ok1 || !ok2 {
		return p, false
	}
	p.preferredAddrResetToken = by(18)
	p.activeConnIDLimit = i64(19)
	p.initialSrcConnID = by(20)
	p.retrySrcConnID = by(21)
	return p, true
}

// c28TPValid: the values for which the round trip is claimed (mirrors `TPValid` in Lean).
func c28TPValid(p transportParameters) bool {
	const maxV = quicwire.MaxVarint
	ms := int64(time.Millisecond)
	in := func(v int64) bool { return v >= 0 && uint64(v) <= maxV }
	okCid := func(b []byte) bool { return true }
	_ = okCid
	if int64(p.maxIdleTimeout)%ms != 0 || int64(p.maxIdleTimeout)/ms > 1<<32 || p.maxIdleTimeout < 0 {
		return false
	}
	if p.statelessResetToken != nil && len(p.statelessResetToken) != 16 {
		return false
	}
	if p.maxUDPPayloadSize < 1200 || !in(p.maxUDPPayloadSize) {
		return false
	}
	for _, v := range []int64{p.initialMaxData, p.initialMaxStreamDataBidiLocal, p.initialMaxStreamDataBidiRemote, p.initialMaxStreamDataUni} {
		if !in(v) {
			return false
		}
	}
	if p.initialMaxStreamsBidi < 0 || p.initialMaxStreamsBidi > maxStreamsLimit || p.initialMaxStreamsUni < 0 || p.initialMaxStreamsUni > maxStreamsLimit {
		return false
	}
	if p.ackDelayExponent < 0 || p.ackDelayExponent > 20 {
		return false
	}
	if int64(p.maxAckDelay)%ms != 0 || int64(p.maxAckDelay)/ms >= 1<<14 || p.maxAckDelay < 0 {
		return false
	}
	if p.activeConnIDLimit < 2 || !in(p.activeConnIDLimit) {
		return false
	}
	if p.preferredAddrConnID != nil {
		if len(p.preferredAddrConnID) > 255 || len(p.preferredAddrResetToken) != 16 || p.preferredAddrResetToken == nil ||
			!p.preferredAddrV4.Addr().Is4() || !(p.preferredAddrV6.Addr().Is6()) {
			return false
		}
	} else {
		// without a preferred address the other preferred-address fields are not transmitted
		if p.preferredAddrResetToken != nil || p.preferredAddrV4 != (netip.AddrPort{}) || p.preferredAddrV6 != (netip.AddrPort{}) {
			return false
		}
	}
	return true
}

func c28GenTPFields(r *vu.Rng) []string {
	f := c28GenTPFields1(r)
	if r.Bool() {
		return f
	}
	// repair towards a valid parameter set (about half of the cases)
	g := c28GenTPFields1(r)
	p, ok := c28ParseTP(f)
	if !ok {
		return f
	}
	ms := int64(time.Millisecond)
	if int64(p.maxIdleTimeout)%ms != 0 || int64(p.maxIdleTimeout)/ms > 1<<32 {
		f[1] = fmt.Sprint(uint64(r.Intn(100000)) * 1000000)
	}
	if p.statelessResetToken != nil && len(p.statelessResetToken) != 16 {
		f[2] = vu.Hex(r.Bytes(16))
	}
	if p.maxUDPPayloadSize < 1200 || uint64(p.maxUDPPayloadSize) > quicwire.MaxVarint {
		f[3] = fmt.Sprint(1200 + r.Intn(70000))
	}
	for k := 4; k <= 7; k++ {
		if vu.Atou64(f[k]) > quicwire.MaxVarint {
			f[k] = fmt.Sprint(r.Boundary(62))
		}
	}
	for k := 8; k <= 9; k++ {
		if vu.Atou64(f[k]) > 1<<60 {
			f[k] = fmt.Sprint(r.Boundary(60))
		}
	}
	if p.ackDelayExponent > 20 {
		f[10] = fmt.Sprint(r.Intn(21))
	}
	if int64(p.maxAckDelay)%ms != 0 || int64(p.maxAckDelay)/ms >= 1<<14 {
		f[11] = fmt.Sprint(uint64(r.Intn(1<<14)) * 1000000)
	}
	if p.preferredAddrConnID != nil && !c28TPValid(transportParameters{maxUDPPayloadSize: 1200, activeConnIDLimit: 2,
		preferredAddrConnID: p.preferredAddrConnID, preferredAddrV4: p.preferredAddrV4, preferredAddrV6: p.preferredAddrV6,
		preferredAddrResetToken: p.preferredAddrResetToken}) {
		f[13], f[14], f[16], f[18] = vu.Hex(r.Bytes(r.Intn(21))), vu.Hex(r.Bytes(4)), vu.Hex(r.Bytes(16)), vu.Hex(r.Bytes(16))
	}
	if p.activeConnIDLimit < 2 || uint64(p.activeConnIDLimit) > quicwire.MaxVarint {
		f[19] = fmt.Sprint(2 + r.Boundary(40))
	}
	_ = g
	return f
}

func c28GenTPFields1(r *vu.Rng) []string {
	cid := func() string {
		switch r.Intn(5) {
		case 0, 1:
			return "nil"
		case 2:
			return "-"
		default:
			return vu.Hex(r.Bytes(r.Range(1, 20)))
		}
	}
	val := func(def uint64) uint64 {
		switch r.Intn(5) {
		case 0, 1:
			return def
		case 2:
			return uint64(r.Intn(100000))
		default:
			v := r.Boundary(62)
			if r.Chance(1, 30) {
				v = r.Boundary(63)
			}
			return v
		}
	}
	dur := func(defMs uint64, lim uint64) uint64 {
		switch r.Intn(6) {
		case 0, 1:
			return defMs * 1000000
		case 2:
			return uint64(r.Intn(int(min(lim, 1<<30)))) * 1000000
		case 3:
			return (lim - 2 + uint64(r.Intn(4))) * 1000000
		case 4:
			return uint64(r.Intn(3000000)) // not a whole millisecond
		default:
			return r.Boundary(62)
		}
	}
	f := make([]string, 22)
	f[0] = cid()
	f[1] = fmt.Sprint(dur(0, 1<<32+1))
	f[2] = "nil"
	if r.Chance(1, 3) {
		f[2] = vu.Hex(r.Bytes(16))
		if r.Chance(1, 6) {
			f[2] = vu.Hex(r.Bytes(r.Intn(20)))
		}
	}
	udp := val(defaultParamMaxUDPPayloadSize)
	if r.Chance(1, 4) {
		udp = uint64(r.Range(1198, 1202))
	}
	f[3] = fmt.Sprint(udp)
	for k := 4; k <= 7; k++ {
		f[k] = fmt.Sprint(val(0))
	}
	for k := 8; k <= 9; k++ {
		v := val(0)
		if r.Chance(1, 4) {
			v = (1 << 60) - 1 + uint64(r.Intn(3))
		}
		f[k] = fmt.Sprint(v)
	}
	ade := uint64(defaultParamAckDelayExponent)
	if r.Bool() {
		ade = uint64(r.Intn(23))
		if r.Chance(1, 10) {
			ade = uint64(r.Intn(128))
		}
	}
	f[10] = fmt.Sprint(ade)
	f[11] = fmt.Sprint(dur(defaultParamMaxAckDelayMilliseconds, 1<<14))
	f[12] = fmt.Sprint(r.Intn(2))
	f[13], f[14], f[15], f[16], f[17], f[18] = "nil", "-", "0", "-", "0", "nil"
	if r.Chance(1, 3) {
		f[13] = cid()
		f[14], f[15] = vu.Hex(r.Bytes(4)), fmt.Sprint(r.Intn(65536))
		f[16], f[17] = vu.Hex(r.Bytes(16)), fmt.Sprint(r.Intn(65536))
		f[18] = vu.Hex(r.Bytes(16))
		if r.Chance(1, 8) {
			f[18] = vu.Hex(r.Bytes(r.Intn(20)))
		}
		if r.Chance(1, 10) {
			f[14] = "-"
		}
		if r.Chance(1, 10) {
			f[16] = vu.Hex(r.Bytes(4))
		}
		if r.Chance(1, 12) && f[13] != "nil" {
			f[13] = vu.Hex(r.Bytes(r.Range(250, 260)))
		}
	}
	acl := val(defaultParamActiveConnIDLimit)
	if r.Chance(1, 4) {
		acl = uint64(r.Intn(5))
	}
	f[19] = fmt.Sprint(acl)
	f[20] = cid()
	f[21] = cid()
	return f
}

func c28GenTPMarshal(r *vu.Rng) string {
	return "tpmarshal " + strings.Join(c28GenTPFields(r), " ")
}

// c28GenTPBytes: a TLV sequence built independently of marshalTransportParameters.
func c28GenTPBytes(r *vu.Rng) []byte {
	if r.Chance(1, 15) {
		return r.Bytes(r.Intn(30))
	}
	var b []byte
	n := r.Intn(6)
	if r.Chance(1, 8) {
		n = r.Range(6, 20)
	}
	for k := 0; k < n; k++ {
		id := uint64(r.Intn(0x12))
		if r.Chance(1, 10) {
			id = 27 + 31*uint64(r.Intn(1000)) // reserved "grease" IDs
		}
		if r.Chance(1, 30) {
			id = r.Boundary(62)
		}
		var val []byte
		vi := func(v uint64) []byte { return c28AppendVarintAny(r, nil, v) }
		pick := func(vals ...uint64) uint64 { return vals[r.Intn(len(vals))] }
		switch id {
		case paramOriginalDestinationConnectionID, paramInitialSourceConnectionID, paramRetrySourceConnectionID:
			val = r.Bytes(r.Intn(22))
		case paramMaxIdleTimeout:
			val = vi(pick(0, 1, 30000, 1<<32-1, 1<<32, 1<<32+1, r.Boundary(62)))
		case paramStatelessResetToken:
			val = r.Bytes(int(pick(16, 16, 16, 15, 17, 0)))
		case paramMaxUDPPayloadSize:
			val = vi(pick(1199, 1200, 1201, 65527, 0, r.Boundary(62)))
		case paramInitialMaxStreamsBidi, paramInitialMaxStreamsUni:
			val = vi(pick(0, 100, 1<<60-1, 1<<60, 1<<60+1, r.Boundary(62)))
		case paramAckDelayExponent:
			val = vi(pick(0, 3, 19, 20, 21, 255, 256, r.Boundary(62)))
		case paramMaxAckDelay:
			val = vi(pick(0, 25, 1<<14-1, 1<<14, 1<<14+1, r.Boundary(62)))
		case paramDisableActiveMigration:
			if r.Chance(1, 5) {
				val = r.Bytes(1)
			}
		case paramPreferredAddress:
			cl := r.Intn(21)
			val = r.Bytes(4 + 2 + 16 + 2)
			val = append(val, byte(cl))
			val = append(val, r.Bytes(cl)...)
			val = append(val, r.Bytes(int(pick(16, 16, 16, 15, 17, 0)))...)
			if r.Chance(1, 6) {
				val = val[:r.Intn(len(val))]
			}
		case paramActiveConnectionIDLimit:
			val = vi(pick(0, 1, 2, 3, 8, r.Boundary(62)))
		default:
			if id < 0x12 {
				val = vi(r.Boundary(62))
			} else {
				val = r.Bytes(r.Intn(10))
			}
		}
		if r.Chance(1, 25) {
			val = append(val, r.Bytes(1)...) // trailing garbage inside the value
		}
		if r.Chance(1, 25) && len(val) > 0 {
			val = val[:len(val)-1]
		}
		b = c28AppendVarintAny(r, b, id)
		b = c28AppendVarintAny(r, b, uint64(len(val)))
		b = append(b, val...)
	}
	if r.Chance(1, 10) {
		b = c28Mutate(r, b)
	}
	return b
}

func c28ExecTPMarshal(op string, t []string, o *vu.Out) {
	p, ok := c28ParseTP(t[1:])
	if !ok {
		o.Op(op, "bad-op")
		return
	}
	var enc []byte
	res := vu.Catch(func() string {
		enc = marshalTransportParameters(p)
		return "ok " + vu.Hex(enc)
	})
	o.Op(op, res)
	valid := c28TPValid(p)
	if valid {
		o.Stat("tp:marshal-valid")
	} else {
		o.Stat("tp:marshal-invalid")
	}
	if res == "panic" {
		if valid {
			o.Fail("", op+": marshalTransportParameters panics on valid parameters")
		}
		return
	}
	if !valid {
		return
	}
	// valid values survive marshal/unmarshal unchanged
	got, err := unmarshalTransportParams(enc)
	if err != nil {
		o.Fail("", fmt.Sprintf("%s: valid parameters marshal to %x which unmarshal rejects", op, enc))
		return
	}
	if c28RenderTP(got) != c28RenderTP(p) {
		o.Fail("", fmt.Sprintf("%s: round trip changed the parameters: got %s", op, c28RenderTP(got)))
	}
}

func c28ExecTPUnmarshal(op string, b []byte, o *vu.Out) {
	var p transportParameters
	res := vu.Catch(func() string {
		var err error
		p, err = unmarshalTransportParams(b)
		if err != nil {
			return "err"
		}
		return "ok " + c28RenderTP(p)
	})
	o.Op(op, res)
	if res == "panic" {
		o.Fail("", fmt.Sprintf("unmarshalTransportParams panics on %x", b))
		return
	}
	if res == "err" {
		o.Stat("tp:unmarshal-err")
		return
	}
	o.Stat("tp:unmarshal-ok")
	// out-of-range values must have been rejected
	switch {
	case p.maxUDPPayloadSize < 1200:
		o.Fail("", fmt.Sprintf("max_udp_payload_size %d accepted: %x", p.maxUDPPayloadSize, b))
	case p.ackDelayExponent > 20 || p.ackDelayExponent < 0:
		o.Fail("", fmt.Sprintf("ack_delay_exponent %d accepted: %x", p.ackDelayExponent, b))
	case p.maxAckDelay >= (1<<14)*time.Millisecond || p.maxAckDelay < 0:
		o.Fail("", fmt.Sprintf("max_ack_delay %v accepted: %x", p.maxAckDelay, b))
	case p.initialMaxStreamsBidi > 1<<60 || p.initialMaxStreamsUni > 1<<60:
		o.Fail("", fmt.Sprintf("initial_max_streams above 2^60 accepted: %x", b))
	case p.activeConnIDLimit < 2:
		o.Fail("", fmt.Sprintf("active_connection_id_limit %d accepted: %x", p.activeConnIDLimit, b))
	case p.statelessResetToken != nil && len(p.statelessResetToken) != 16:
		o.Fail("", fmt.Sprintf("stateless_reset_token of %d bytes accepted: %x", len(p.statelessResetToken), b))
	case p.maxIdleTimeout < 0:
		o.Fail("", fmt.Sprintf("negative max_idle_timeout: %x", b))
	}
	// what was accepted is a valid parameter set, and survives another round trip
	if !c28TPValid(p) {
		o.Fail("", fmt.Sprintf("unmarshal of %x gives parameters outside the valid set: %s", b, c28RenderTP(p)))
		return
	}
	enc := marshalTransportParameters(p)
	p2, err := unmarshalTransportParams(enc)
	if err != nil || c28RenderTP(p2) != c28RenderTP(p) {
		o.Fail("", fmt.Sprintf("parameters parsed from %x do not survive marshal/unmarshal (%x)", b, enc))
	}
}
