//go:build verif

// Package verifutil is the shared part of every /verif Go harness. It is
// injected into module golang.org/x/net with `go build -overlay` as
// golang.org/x/net/internal/verifutil and is never committed to /repo.
//
// A harness is a generator `gen(rng, i) []string` producing the operation
// lines of case i, and an executor `exec(ops, out)` that runs those lines on
// the real implementation, recording one result line per op (out.Op) and any
// failure of the property itself on the implementation (out.Fail).
package verifutil

import (
	"bufio"
	"encoding/hex"
	"encoding/json"
	"flag"
	"fmt"
	"os"
	"path/filepath"
	"sort"
	"strconv"
	"strings"
)

// Rng is SplitMix64; every random choice of a run derives from one state.
type Rng struct{ s uint64 }

func NewRng(seed uint64) *Rng { return &Rng{s: seed} }

func (r *Rng) Uint64() uint64 {
	r.s += 0x9e3779b97f4a7c15
	z := r.s
	z = (z ^ (z >> 30)) * 0xbf58476d1ce4e5b9
	z = (z ^ (z >> 27)) * 0x94d049bb133111eb
	return z ^ (z >> 31)
}

// Intn returns a value in [0,n). n must be > 0.
func (r *Rng) Intn(n int) int { return int(r.Uint64() % uint64(n)) }

// Range returns a value in [lo,hi].
func (r *Rng) Range(lo, hi int) int { return lo + r.Intn(hi-lo+1) }

func (r *Rng) Bool() bool { return r.Uint64()&1 == 1 }

// Chance is true with probability num/den.
func (r *Rng) Chance(num, den int) bool { return r.Intn(den) < num }

func (r *Rng) Bytes(n int) []byte {
	b := make([]byte, n)
	for i := range b {
		b[i] = byte(r.Uint64())
	}
	return b
}

// BytesFrom returns n bytes drawn from alphabet.
func (r *Rng) BytesFrom(alphabet string, n int) []byte {
	b := make([]byte, n)
	for i := range b {
		b[i] = alphabet[r.Intn(len(alphabet))]
	}
	return b
}

// Fork derives an independent generator (for per-case streams).
func (r *Rng) Fork() *Rng { return &Rng{s: r.Uint64()} }

// Boundary returns a value near a power of two below 2^bits, or a random one.
func (r *Rng) Boundary(bits int) uint64 {
	switch r.Intn(4) {
	case 0:
		k := uint(r.Intn(bits + 1))
		var v uint64
		if k >= 64 {
			v = 0
		} else {
			v = uint64(1) << k
		}
		d := uint64(r.Intn(3))
		switch r.Intn(2) {
		case 0:
			v -= d
		default:
			v += d
		}
		if bits < 64 {
			v &= (uint64(1) << uint(bits)) - 1
		}
		return v
	case 1:
		return uint64(r.Intn(300))
	default:
		v := r.Uint64()
		if bits < 64 {
			v >>= uint(64 - bits)
		}
		// random magnitude
		return v >> uint(r.Intn(bits))
	}
}

func Hex(b []byte) string {
	if len(b) == 0 {
		return "-"
	}
	return "x" + hex.EncodeToString(b)
}

func ParseHex(s string) ([]byte, bool) {
	if s == "-" {
		return []byte{}, true
	}
	if !strings.HasPrefix(s, "x") {
		return nil, false
	}
	b, err := hex.DecodeString(s[1:])
	return b, err == nil
}

func MustHex(s string) []byte {
	b, ok := ParseHex(s)
	if !ok {
		panic("verifutil: bad hex token " + s)
	}
	return b
}

func Atoi(s string) int {
	v, err := strconv.Atoi(s)
	if err != nil {
		panic("verifutil: bad int token " + s)
	}
	return v
}

func Atoi64(s string) int64 {
	v, err := strconv.ParseInt(s, 10, 64)
	if err != nil {
		panic("verifutil: bad int64 token " + s)
	}
	return v
}

func Atou64(s string) uint64 {
	v, err := strconv.ParseUint(s, 10, 64)
	if err != nil {
		panic("verifutil: bad uint64 token " + s)
	}
	return v
}

// Catch runs f and maps a Go panic to the result "panic".
func Catch(f func() string) (res string) {
	defer func() {
		if e := recover(); e != nil {
			res = "panic"
		}
	}()
	return f()
}

// CatchMsg is Catch but keeps the panic text (for oracles).
func CatchMsg(f func() string) (res string, panicked bool, msg string) {
	defer func() {
		if e := recover(); e != nil {
			res, panicked, msg = "panic", true, fmt.Sprint(e)
		}
	}()
	return f(), false, ""
}

// Out collects the streams of one harness run.
type Out struct {
	dir     string
	ops     *bufio.Writer
	impl    *bufio.Writer
	oracle  *bufio.Writer
	files   []*os.File
	stats   map[string]int
	curCase int
	nops    int
	nfail   int
}

func OpenOut(dir string) *Out {
	if err := os.MkdirAll(dir, 0o755); err != nil {
		panic(err)
	}
	o := &Out{dir: dir, stats: map[string]int{}}
	mk := func(name string) *bufio.Writer {
		f, err := os.Create(filepath.Join(dir, name))
		if err != nil {
			panic(err)
		}
		o.files = append(o.files, f)
		return bufio.NewWriterSize(f, 1<<20)
	}
	o.ops, o.impl, o.oracle = mk("ops.txt"), mk("impl.out"), mk("oracle.txt")
	return o
}

// BeginCase marks a case boundary in both streams.
func (o *Out) BeginCase(i int) {
	o.curCase = i
	fmt.Fprintf(o.ops, "# case %d\n", i)
	fmt.Fprintf(o.impl, "#\n")
}

// Op records one operation line and the implementation's canonical result.
func (o *Out) Op(op, result string) {
	if strings.ContainsAny(op, "\n\r") || strings.ContainsAny(result, "\n\r") {
		panic("verifutil: newline in op/result")
	}
	o.ops.WriteString(op)
	o.ops.WriteByte('\n')
	o.impl.WriteString(result)
	o.impl.WriteByte('\n')
	o.nops++
}

// Fail records that the property itself failed on the implementation for
// the current case. sig is a short stable signature used to match
// known_findings.json (use "" when there is no narrower classification).
func (o *Out) Fail(sig, desc string) {
	o.nfail++
	if sig == "" {
		sig = "-"
	}
	desc = strings.ReplaceAll(strings.ReplaceAll(desc, "\n", " "), "\r", " ")
	fmt.Fprintf(o.oracle, "FAIL case=%d sig=%s %s\n", o.curCase, sig, desc)
}

// Stat counts an event for the coverage report.
func (o *Out) Stat(key string)         { o.stats[key]++ }
func (o *Out) StatN(key string, n int) { o.stats[key] += n }

func (o *Out) Close() {
	keys := make([]string, 0, len(o.stats))
	for k := range o.stats {
		keys = append(keys, k)
	}
	sort.Strings(keys)
	m := map[string]any{"ops": o.nops, "oracle_failures": o.nfail, "stats": o.stats}
	b, _ := json.Marshal(m)
	os.WriteFile(filepath.Join(o.dir, "stats.json"), b, 0o644)
	o.ops.Flush()
	o.impl.Flush()
	o.oracle.Flush()
	for _, f := range o.files {
		f.Close()
	}
}

// Config is what a harness run is given.
type Config struct {
	Seed   uint64
	N      int
	OutDir string
	Replay string
	Tier   string
}

// Run drives gen/exec according to cfg.
func Run(cfg Config, gen func(r *Rng, i int) []string, exec func(ops []string, o *Out)) {
	o := OpenOut(cfg.OutDir)
	defer o.Close()
	if cfg.Replay != "" {
		cur := openCaseFile(cfg.OutDir)
		for i, c := range ReadCases(cfg.Replay) {
			cur.put(i, c)
			o.BeginCase(i)
			exec(c, o)
		}
		cur.done()
		return
	}
	root := NewRng(cfg.Seed)
	cur := openCaseFile(cfg.OutDir)
	for i := 0; i < cfg.N; i++ {
		r := root.Fork()
		ops := gen(r, i)
		// Leave the case about to run on disk: if the real code kills the process
		// (a panic in a goroutine without recover, a fatal runtime error) or hangs,
		// the orchestrator reports this case as the failing input.
		cur.put(i, ops)
		o.BeginCase(i)
		exec(ops, o)
	}
	cur.done()
}

// caseFile keeps current_case.ops open for the whole run and overwrites it in
// place (WriteAt + Truncate to the new length): re-creating or truncating the
// file to zero for every case makes ext4 flush it on close, which costs
// milliseconds per case on a loaded disk.
type caseFile struct {
	path string
	f    *os.File
}

func openCaseFile(dir string) *caseFile {
	c := &caseFile{path: filepath.Join(dir, "current_case.ops")}
	c.f, _ = os.OpenFile(c.path, os.O_RDWR|os.O_CREATE, 0o644)
	return c
}

func (c *caseFile) put(i int, ops []string) {
	if c.f == nil {
		return
	}
	b := []byte(fmt.Sprintf("# case %d\n%s\n", i, strings.Join(ops, "\n")))
	c.f.WriteAt(b, 0)
	c.f.Truncate(int64(len(b)))
}

func (c *caseFile) done() {
	if c.f != nil {
		c.f.Close()
	}
	os.Remove(c.path)
}

// ReadCases reads an ops file; lines starting with "# case" separate cases,
// other lines starting with '#' and blank lines are ignored.
func ReadCases(path string) [][]string {
	f, err := os.Open(path)
	if err != nil {
		panic(err)
	}
	defer f.Close()
	var cases [][]string
	var cur []string
	started := false
	sc := bufio.NewScanner(f)
	sc.Buffer(make([]byte, 1<<20), 1<<28)
	for sc.Scan() {
		l := strings.TrimRight(sc.Text(), "\r\n")
		if strings.HasPrefix(l, "# case") {
			if started {
				cases = append(cases, cur)
			}
			cur, started = nil, true
			continue
		}
		if l == "" || strings.HasPrefix(l, "#") {
			continue
		}
		started = true
		cur = append(cur, l)
	}
	if started {
		cases = append(cases, cur)
	}
	return cases
}

// Main is the entry point of a `package main` harness.
func Main(gen func(r *Rng, i int) []string, exec func(ops []string, o *Out)) {
	var cfg Config
	flag.Uint64Var(&cfg.Seed, "seed", 1, "PRNG seed")
	flag.IntVar(&cfg.N, "n", 1000, "number of cases")
	flag.StringVar(&cfg.OutDir, "out", "", "output directory")
	flag.StringVar(&cfg.Replay, "replay", "", "ops file to replay instead of generating")
	flag.StringVar(&cfg.Tier, "tier", "quick", "quick|thorough")
	flag.Parse()
	if cfg.OutDir == "" {
		fmt.Fprintln(os.Stderr, "need -out")
		os.Exit(2)
	}
	Run(cfg, gen, exec)
}

// ConfigFromEnv is used by harnesses that are injected as _test.go files
// (VERIF_SEED, VERIF_N, VERIF_OUT, VERIF_REPLAY, VERIF_TIER).
func ConfigFromEnv() Config {
	var cfg Config
	cfg.Seed, _ = strconv.ParseUint(os.Getenv("VERIF_SEED"), 10, 64)
	cfg.N, _ = strconv.Atoi(os.Getenv("VERIF_N"))
	cfg.OutDir = os.Getenv("VERIF_OUT")
	cfg.Replay = os.Getenv("VERIF_REPLAY")
	cfg.Tier = os.Getenv("VERIF_TIER")
	if cfg.OutDir == "" {
		panic("VERIF_OUT not set")
	}
	return cfg
}
