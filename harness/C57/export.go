//go:build verif

package xsrftoken

import "time"

// White-box shims for the C57 harness (injected with -overlay; never written to /repo).
// Times are nanoseconds since the Unix epoch: the harness uses a fixed, explicit clock.

func VerifGenerateAt(key, userID, actionID string, nowNs int64) string {
	return generateTokenAtTime(key, userID, actionID, time.Unix(0, nowNs))
}

func VerifValidAt(token, key, userID, actionID string, nowNs int64, timeout int64) bool {
	return validTokenAtTime(token, key, userID, actionID, time.Unix(0, nowNs), time.Duration(timeout))
}

func VerifClean(s string) string { return clean(s) }
