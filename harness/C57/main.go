//go:build verif

// C57 harness: xsrftoken generateTokenAtTime / validTokenAtTime with an explicit clock.
//
// ops:  gen <key> <user> <action> <ns>                              -> ok <token> | panic
//
//	valid <token> <key> <user> <action> <now-ns> <timeout-ns>   -> ok 0|1 | panic
//	gv <key> <user> <action> <ns> <key2> <user2> <action2> <now-ns> <timeout-ns>
//	     token := generate(key,user,action,ns); valid(token,key2,user2,action2,now,timeout)
//	                                                            -> ok <token> 0|1 | panic
//
// strings are x<hex> / "-" (empty); times and durations are int64 nanoseconds.
package main

import (
	"bytes"
	"crypto/hmac"
	"crypto/sha1"
	"encoding/base64"
	"fmt"
	"math/big"
	"strconv"
	"strings"

	vu "golang.org/x/net/internal/verifutil"
	"golang.org/x/net/xsrftoken"
)

const (
	ms       = int64(1000000)
	minute   = 60 * 1000 * ms
	hour     = 60 * minute
	timeout0 = 24 * hour
	year2020 = int64(1577836800) * 1000 * ms
	saneNs   = int64(1) << 61 // |clock| below this: no int64 effect anywhere (years 1897..2043)
)

// ---- independent reference (naive re-statement of the token format) ----

func refClean(s string) string {
	var b []byte
	for i := 0; i < len(s); i++ {
		switch s[i] {
		case '_':
			b = append(b, '_', '_')
		case ':':
			b = append(b, '_', 'c')
		default:
			b = append(b, s[i])
		}
	}
	return string(b)
}

func ceilMilli(ns int64) int64 { // mathematical ceiling of ns/1e6
	q := ns / ms
	if ns%ms > 0 {
		q++
	}
	return q
}

func refToken(key, user, action string, milli int64) string {
	h := hmac.New(sha1.New, []byte(key))
	h.Write([]byte(refClean(user) + ":" + refClean(action) + ":" + strconv.FormatInt(milli, 10)))
	return base64.RawURLEncoding.EncodeToString(h.Sum(nil)) + ":" + strconv.FormatInt(milli, 10)
}

// hmacKeyBlock: HMAC identifies keys that have the same 64-byte key block.
func hmacKeyBlock(key string) [64]byte {
	var b [64]byte
	if len(key) > 64 {
		s := sha1.Sum([]byte(key))
		copy(b[:], s[:])
	} else {
		copy(b[:], key)
	}
	return b
}

// ---- generators ----

var alphabet = "ab_:c"

func genStr(r *vu.Rng) string {
	switch r.Intn(8) {
	case 0:
		return ""
	case 1:
		return string(r.Bytes(r.Intn(6)))
	case 2:
		return []string{"user", "u_c", "u:", "_", ":", "__", "_c", "a:b", "a_cb", "a__b", "/post/1", "u\x00"}[r.Intn(12)]
	default:
		return string(r.BytesFrom(alphabet, r.Intn(7)))
	}
}

func genKey(r *vu.Rng) string {
	switch r.Intn(10) {
	case 0:
		return "" // panic path
	case 1:
		return string(r.Bytes(1 + r.Intn(70)))
	case 2:
		return string(r.BytesFrom("k", 63+r.Intn(4)))
	default:
		return string(r.BytesFrom("abk:_", 1+r.Intn(8)))
	}
}

func genClock(r *vu.Rng) int64 {
	switch r.Intn(10) {
	case 0:
		return int64(r.Intn(3*int(ms))) - int64(ms) // around the epoch
	case 1:
		return -int64(r.Boundary(61)) // before the epoch
	case 2:
		return int64(r.Boundary(61))
	default:
		return year2020 + int64(r.Intn(1000))*hour + int64(r.Intn(int(hour)))
	}
}

func genTimeout(r *vu.Rng) int64 {
	switch r.Intn(8) {
	case 0:
		return []int64{0, 1, -1, ms, -ms, minute, 1<<63 - 1, -1 << 63}[r.Intn(8)]
	case 1:
		return int64(r.Boundary(63))
	case 2:
		return int64(r.Intn(int(10 * ms)))
	default:
		return timeout0
	}
}

// checkTime: boundary-biased check time relative to the issue time (ms) and timeout.
func genNow(r *vu.Rng, issueNs, timeout int64) int64 {
	d := []int64{-2, -1, 0, 1, 2, -ms, ms, ms - 1, -ms + 1}[r.Intn(9)]
	var base int64
	switch r.Intn(6) {
	case 0:
		base = issueNs - minute
	case 1:
		base = addSat(issueNs, timeout)
	case 2:
		base = issueNs
	case 3:
		base = issueNs + int64(r.Intn(int(hour)))
	case 4:
		return genClock(r)
	default:
		base = issueNs + int64(r.Uint64()%uint64(48*hour)) - 12*hour
	}
	return clampSane(addSat(base, d))
}

func addSat(a, b int64) int64 {
	s := new(big.Int).Add(big.NewInt(a), big.NewInt(b))
	if !s.IsInt64() {
		if s.Sign() > 0 {
			return 1<<63 - 1
		}
		return -1 << 63
	}
	return s.Int64()
}

func clampSane(v int64) int64 {
	if v > saneNs {
		return saneNs
	}
	if v < -saneNs {
		return -saneNs
	}
	return v
}

func mutate(r *vu.Rng, s string) string {
	switch r.Intn(5) {
	case 0: // differs only in where ':' / '_' appear
		t := strings.NewReplacer(":", "_c", "_c", ":", "__", "_", "_", "__").Replace(s)
		if t != s {
			return t
		}
		return s + ":"
	case 1:
		return s + string(r.BytesFrom(alphabet, 1))
	case 2:
		if len(s) > 0 {
			return s[:len(s)-1]
		}
		return "_"
	case 3:
		if len(s) > 0 {
			b := []byte(s)
			b[r.Intn(len(b))] ^= 1 << uint(r.Intn(8))
			return string(b)
		}
		return ":"
	default:
		return genStr(r)
	}
}

func gen(r *vu.Rng, i int) []string {
	key, user, action := genKey(r), genStr(r), genStr(r)
	ns := genClock(r)
	timeout := genTimeout(r)
	issue := ceilMilli(ns) * ms
	switch r.Intn(10) {
	case 0:
		return []string{fmt.Sprintf("gen %s %s %s %d", hx(key), hx(user), hx(action), ns)}
	case 1, 2, 3:
		// same triple, check time around the window edges
		var ops []string
		for k := 0; k < 3; k++ {
			ops = append(ops, fmt.Sprintf("gv %s %s %s %d %s %s %s %d %d", hx(key), hx(user), hx(action), ns,
				hx(key), hx(user), hx(action), genNow(r, issue, timeout), timeout))
		}
		return ops
	case 4, 5, 6:
		// another triple, check time inside the window
		k2, u2, a2 := key, user, action
		switch r.Intn(5) {
		case 0:
			k2 = mutate(r, key)
		case 1:
			u2 = mutate(r, user)
		case 2:
			a2 = mutate(r, action)
		case 3:
			// move the separator between user and action
			u2, a2 = user+":"+action, ""
			if r.Bool() {
				u2, a2 = "", user+":"+action
			}
		default:
			// HMAC-equivalent key (zero padding)
			k2 = key + "\x00"
			if r.Bool() && strings.HasSuffix(key, "\x00") {
				k2 = strings.TrimRight(key, "\x00")
			}
		}
		now := clampSane(issue + int64(r.Intn(int(minute))))
		return []string{fmt.Sprintf("gv %s %s %s %d %s %s %s %d %d", hx(key), hx(user), hx(action), ns,
			hx(k2), hx(u2), hx(a2), now, timeout0)}
	default:
		// arbitrary / malformed tokens against validTokenAtTime
		if key == "" {
			key = "k"
		}
		milli := ceilMilli(ns)
		tok := refToken(key, user, action, milli)
		sep := strings.LastIndex(tok, ":")
		switch r.Intn(9) {
		case 0:
			tok = tok[:sep] + ":+" + tok[sep+1:]
		case 1:
			tok = tok[:sep] + ":0" + tok[sep+1:]
		case 2:
			tok = tok[:sep] + tok[sep+1:] // no colon
		case 3:
			tok = tok[:sep+1]
		case 4:
			tok = tok[:sep] + ":" + strconv.FormatUint(r.Boundary(64), 10) // huge / overflowing millis
		case 5:
			tok = tok[:sep] + ":-" + strconv.FormatUint(r.Boundary(64), 10)
		case 6:
			b := []byte(tok)
			b[r.Intn(len(b))] ^= 1 << uint(r.Intn(7))
			tok = string(b)
		case 7:
			tok = string(r.BytesFrom("Ab:1-_+", r.Intn(12)))
		default:
			// a valid token for a different millisecond
			tok = refToken(key, user, action, milli+int64(r.Intn(3))-1)
		}
		now := genNow(r, issue, timeout)
		return []string{fmt.Sprintf("valid %s %s %s %s %d %d", hx(tok), hx(key), hx(user), hx(action), now, timeout)}
	}
}

func hx(s string) string   { return vu.Hex([]byte(s)) }
func unhx(s string) string { return string(vu.MustHex(s)) }

func b2i(b bool) int {
	if b {
		return 1
	}
	return 0
}

func sane(v int64) bool { return v >= -saneNs && v <= saneNs }

func exec(ops []string, o *vu.Out) {
	for _, op := range ops {
		t := strings.Fields(op)
		switch {
		case len(t) == 5 && t[0] == "gen":
			key, user, action, ns := unhx(t[1]), unhx(t[2]), unhx(t[3]), vu.Atoi64(t[4])
			o.Stat("op:gen")
			res := vu.Catch(func() string { return "ok " + hx(xsrftoken.VerifGenerateAt(key, user, action, ns)) })
			o.Op(op, res)
			oracleGen(key, user, action, ns, res, o)
		case len(t) == 7 && t[0] == "valid":
			tok, key, user, action := unhx(t[1]), unhx(t[2]), unhx(t[3]), unhx(t[4])
			now, timeout := vu.Atoi64(t[5]), vu.Atoi64(t[6])
			o.Stat("op:valid")
			res := vu.Catch(func() string {
				return fmt.Sprintf("ok %d", b2i(xsrftoken.VerifValidAt(tok, key, user, action, now, timeout)))
			})
			o.Op(op, res)
			oracleValid(tok, key, user, action, now, timeout, res, o)
		case len(t) == 10 && t[0] == "gv":
			key, user, action, ns := unhx(t[1]), unhx(t[2]), unhx(t[3]), vu.Atoi64(t[4])
			k2, u2, a2 := unhx(t[5]), unhx(t[6]), unhx(t[7])
			now, timeout := vu.Atoi64(t[8]), vu.Atoi64(t[9])
			var tok string
			var valid bool
			res := vu.Catch(func() string {
				tok = xsrftoken.VerifGenerateAt(key, user, action, ns)
				valid = xsrftoken.VerifValidAt(tok, k2, u2, a2, now, timeout)
				return fmt.Sprintf("ok %s %d", hx(tok), b2i(valid))
			})
			o.Op(op, res)
			if res != "panic" {
				oracleGen(key, user, action, ns, "ok "+hx(tok), o)
				oracleGV(key, user, action, ns, k2, u2, a2, now, timeout, valid, o)
			} else if key != "" && k2 != "" {
				o.Fail("", "panic with non-empty keys")
			}
		default:
			o.Op(op, "bad-op")
		}
	}
}

// oracleGen: token format, stated independently; millisecond = issue time rounded UP.
func oracleGen(key, user, action string, ns int64, res string, o *vu.Out) {
	if key == "" {
		if res != "panic" {
			o.Fail("", "generate with empty key did not panic")
		}
		return
	}
	if res == "panic" {
		o.Fail("", "generate panicked with a non-empty key")
		return
	}
	if !sane(ns) {
		return
	}
	want := refToken(key, user, action, ceilMilli(ns))
	if res != "ok "+hx(want) {
		sig := ""
		if ns <= -ms {
			// Go's '/' truncates toward zero: before the epoch the millisecond is not rounded up
			sig = "pre-epoch-issue-time"
		}
		o.Fail(sig, fmt.Sprintf("generate(%q,%q,%q,%d) = %q, want %q (ceil to ms)", key, user, action, ns, unhx(res[3:]), want))
	}
	if c := xsrftoken.VerifClean(user); strings.Contains(c, ":") || c != refClean(user) {
		o.Fail("", fmt.Sprintf("clean(%q) = %q", user, c))
	}
}

// oracleGV states C57 on the implementation.
func oracleGV(key, user, action string, ns int64, k2, u2, a2 string, now, timeout int64, valid bool, o *vu.Out) {
	if !sane(ns) || !sane(now) {
		return
	}
	if key == k2 && user == u2 && action == a2 {
		issue := new(big.Int).Mul(big.NewInt(ceilMilli(ns)), big.NewInt(ms))
		lo := new(big.Int).Sub(issue, big.NewInt(minute))
		hi := new(big.Int).Add(issue, big.NewInt(timeout))
		n := big.NewInt(now)
		want := lo.Cmp(n) <= 0 && n.Cmp(hi) < 0
		switch {
		case want:
			o.Stat("window:inside")
		case n.Cmp(lo) < 0:
			o.Stat("window:too-early")
		default:
			o.Stat("window:expired")
		}
		if valid != want {
			sig := ""
			if ns <= -ms {
				sig = "pre-epoch-issue-time"
			}
			o.Fail(sig, fmt.Sprintf("token of (%q,%q,%q) issued at %d ns: valid at %d with timeout %d = %v, window [%s, %s) says %v",
				key, user, action, ns, now, timeout, valid, lo, hi, want))
		}
		return
	}
	o.Stat("other-triple")
	if valid {
		sig := ""
		if user == u2 && action == a2 && hmacKeyBlock(key) == hmacKeyBlock(k2) {
			// HMAC itself identifies these keys (zero padding / hashing of long keys)
			sig = "hmac-equivalent-key"
		}
		o.Fail(sig, fmt.Sprintf("token of (%q,%q,%q) is valid for (%q,%q,%q)", key, user, action, k2, u2, a2))
	}
}

// oracleValid: an accepted token must be exactly the reference token of its own millisecond,
// and that millisecond must be inside the window.
func oracleValid(tok, key, user, action string, now, timeout int64, res string, o *vu.Out) {
	if key == "" {
		if res != "panic" {
			o.Fail("", "valid with empty key did not panic")
		}
		return
	}
	if res != "ok 1" {
		o.Stat("valid:rejected")
		return
	}
	o.Stat("valid:accepted")
	sep := strings.LastIndex(tok, ":")
	if sep < 0 {
		o.Fail("", fmt.Sprintf("token %q without ':' accepted", tok))
		return
	}
	milli, err := strconv.ParseInt(tok[sep+1:], 10, 64)
	if err != nil || !bytes.Equal([]byte(tok), []byte(refToken(key, user, action, milli))) {
		o.Fail("", fmt.Sprintf("accepted token %q is not the token of (%q,%q,%q) at its millisecond", tok, key, user, action))
		return
	}
	issue := new(big.Int).Mul(big.NewInt(milli), big.NewInt(ms))
	n := big.NewInt(now)
	if new(big.Int).Sub(issue, big.NewInt(minute)).Cmp(n) > 0 || n.Cmp(new(big.Int).Add(issue, big.NewInt(timeout))) >= 0 {
		o.Fail("", fmt.Sprintf("token %q accepted at %d outside its window (timeout %d)", tok, now, timeout))
	}
}

func main() { vu.Main(gen, exec) }
