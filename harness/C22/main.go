//go:build verif

// C22 harness: internal/quic/quicwire varints and length-prefixed helpers.
package main

import (
	"bytes"
	"fmt"
	"strings"

	"golang.org/x/net/internal/quic/quicwire"
	vu "golang.org/x/net/internal/verifutil"
)

func gen(r *vu.Rng, i int) []string {
	switch r.Intn(10) {
	case 0, 1:
		return []string{fmt.Sprintf("size %d", genValue(r))}
	case 2, 3, 4:
		return []string{fmt.Sprintf("append %d", genValue(r))}
	case 5, 6:
		return []string{"consume " + vu.Hex(genVarintBytes(r))}
	case 7:
		n := r.Intn(8)
		if r.Chance(1, 6) {
			n = r.Range(250, 260)
		}
		p := r.Bytes(n)
		if r.Bool() {
			return []string{"u8append " + vu.Hex(p)}
		}
		return []string{"vbappend " + vu.Hex(p)}
	case 8:
		b := genVarintBytes(r)
		b = append(b, r.Bytes(r.Intn(70))...)
		if r.Bool() {
			return []string{"u8consume " + vu.Hex(b)}
		}
		return []string{"vbconsume " + vu.Hex(b)}
	default:
		b := r.Bytes(r.Intn(12))
		if r.Bool() {
			return []string{"u32 " + vu.Hex(b)}
		}
		return []string{"u64 " + vu.Hex(b)}
	}
}

func genValue(r *vu.Rng) uint64 {
	if r.Chance(1, 20) {
		return r.Boundary(64) // includes values >= 2^62 (panic path)
	}
	return r.Boundary(62)
}

// genVarintBytes: mostly a valid encoding (maybe truncated / with a tail), sometimes random bytes.
func genVarintBytes(r *vu.Rng) []byte {
	switch r.Intn(5) {
	case 0:
		return r.Bytes(r.Intn(10))
	default:
		v := r.Boundary(62)
		b := quicwire.AppendVarint(nil, v)
		// non-shortest encodings too
		if r.Chance(1, 4) {
			b = r.Bytes([]int{1, 2, 4, 8}[r.Intn(4)])
			b[0] = b[0]&0x3f | byte(map[int]int{1: 0, 2: 1, 4: 2, 8: 3}[len(b)]<<6)
		}
		if r.Chance(1, 3) {
			b = b[:r.Intn(len(b)+1)]
		} else if r.Bool() {
			b = append(b, r.Bytes(r.Intn(4))...)
		}
		return b
	}
}

func exec(ops []string, o *vu.Out) {
	for _, op := range ops {
		t := strings.Fields(op)
		if len(t) != 2 {
			o.Op(op, "bad-op")
			continue
		}
		o.Stat("op:" + t[0])
		switch t[0] {
		case "size":
			v := vu.Atou64(t[1])
			o.Op(op, vu.Catch(func() string { return fmt.Sprintf("ok %d", quicwire.SizeVarint(v)) }))
		case "append":
			v := vu.Atou64(t[1])
			res := vu.Catch(func() string { return "ok " + vu.Hex(quicwire.AppendVarint(nil, v)) })
			o.Op(op, res)
			oracleAppend(v, res, o)
		case "consume":
			b := vu.MustHex(t[1])
			o.Op(op, vu.Catch(func() string {
				v, n := quicwire.ConsumeVarint(b)
				if n < 0 {
					return "err"
				}
				if n > len(b) {
					o.Fail("", fmt.Sprintf("ConsumeVarint(%x) reports n=%d > len=%d", b, n, len(b)))
				}
				return fmt.Sprintf("ok %d %d", v, n)
			}))
		case "u8append":
			b := vu.MustHex(t[1])
			res := vu.Catch(func() string { return "ok " + vu.Hex(quicwire.AppendUint8Bytes(nil, b)) })
			o.Op(op, res)
			// Whatever AppendUint8Bytes accepts (does not panic on) must read back: a value
			// too long for the 8-bit prefix has to be refused, not encoded with a wrapped length.
			if strings.HasPrefix(res, "ok ") {
				got, n := quicwire.ConsumeUint8Bytes(append(quicwire.AppendUint8Bytes(nil, b), 0xaa))
				if n != len(b)+1 || !bytes.Equal(got, b) {
					o.Fail("", fmt.Sprintf("uint8 bytes round-trip failed for a %d-byte value %x: consumed n=%d, %d bytes back", len(b), b, n, len(got)))
				}
			}
		case "vbappend":
			b := vu.MustHex(t[1])
			res := vu.Catch(func() string { return "ok " + vu.Hex(quicwire.AppendVarintBytes(nil, b)) })
			o.Op(op, res)
			enc := quicwire.AppendVarintBytes(nil, b)
			got, n := quicwire.ConsumeVarintBytes(append(enc, 0xaa))
			if n != len(enc) || !bytes.Equal(got, b) {
				o.Fail("", fmt.Sprintf("varint bytes round-trip failed for %x", b))
			}
		case "u8consume":
			b := vu.MustHex(t[1])
			o.Op(op, vu.Catch(func() string {
				p, n := quicwire.ConsumeUint8Bytes(b)
				if n < 0 {
					return "err"
				}
				return fmt.Sprintf("ok %s %d", vu.Hex(p), n)
			}))
		case "vbconsume":
			b := vu.MustHex(t[1])
			o.Op(op, vu.Catch(func() string {
				p, n := quicwire.ConsumeVarintBytes(b)
				if n < 0 {
					return "err"
				}
				return fmt.Sprintf("ok %s %d", vu.Hex(p), n)
			}))
		case "u32":
			b := vu.MustHex(t[1])
			o.Op(op, vu.Catch(func() string {
				v, n := quicwire.ConsumeUint32(b)
				if n < 0 {
					return "err"
				}
				return fmt.Sprintf("ok %d %d", v, n)
			}))
		case "u64":
			b := vu.MustHex(t[1])
			o.Op(op, vu.Catch(func() string {
				v, n := quicwire.ConsumeUint64(b)
				if n < 0 {
					return "err"
				}
				return fmt.Sprintf("ok %d %d", v, n)
			}))
		default:
			o.Op(op, "bad-op")
		}
	}
}

// oracleAppend states C22 directly on the implementation.
func oracleAppend(v uint64, res string, o *vu.Out) {
	if v > quicwire.MaxVarint {
		if res != "panic" {
			o.Fail("", fmt.Sprintf("AppendVarint(%d) did not panic for a value >= 2^62", v))
		}
		return
	}
	if res == "panic" {
		o.Fail("", fmt.Sprintf("AppendVarint(%d) panicked for a 62-bit value", v))
		return
	}
	enc := quicwire.AppendVarint(nil, v)
	want := 8
	switch {
	case v < 1<<6:
		want = 1
	case v < 1<<14:
		want = 2
	case v < 1<<30:
		want = 4
	}
	sz, _, _ := vu.CatchMsg(func() string { return fmt.Sprint(quicwire.SizeVarint(v)) })
	if len(enc) != want || sz != fmt.Sprint(want) {
		o.Fail("", fmt.Sprintf("v=%d: len(AppendVarint)=%d SizeVarint=%s, shortest is %d", v, len(enc), sz, want))
	}
	got, n := quicwire.ConsumeVarint(append(append([]byte{}, enc...), 0x55, 0xaa))
	if got != v || n != len(enc) {
		o.Fail("", fmt.Sprintf("v=%d: ConsumeVarint(AppendVarint v ++ tail) = (%d,%d)", v, got, n))
	}
	for k := 0; k < len(enc); k++ {
		if _, n := quicwire.ConsumeVarint(enc[:k]); n >= 0 {
			o.Fail("", fmt.Sprintf("v=%d: truncated encoding %x accepted", v, enc[:k]))
		}
	}
}

func main() { vu.Main(gen, exec) }
