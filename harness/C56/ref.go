//go:build verif

package main

// An independent reference parser for RFC 9651 §4.2, written from the RFC's
// algorithm text. It reports the same text spans the httpsfv callbacks get.

import (
	"strings"
	"unicode/utf8"
)

type ref struct {
	s string
	i int
}

func (p *ref) eof() bool  { return p.i >= len(p.s) }
func (p *ref) peek() byte { return p.s[p.i] }

func (p *ref) skipSP() {
	for !p.eof() && p.peek() == ' ' {
		p.i++
	}
}
func (p *ref) skipOWS() {
	for !p.eof() && (p.peek() == ' ' || p.peek() == '\t') {
		p.i++
	}
}

func rDigit(b byte) bool   { return '0' <= b && b <= '9' }
func rLcalpha(b byte) bool { return 'a' <= b && b <= 'z' }
func rAlpha(b byte) bool   { return rLcalpha(b) || ('A' <= b && b <= 'Z') }
func rTchar(b byte) bool {
	return rAlpha(b) || rDigit(b) || strings.IndexByte("!#$%&'*+-.^_`|~", b) >= 0
}

// §4.2.3.3
func (p *ref) key() (string, bool) {
	if p.eof() || !(rLcalpha(p.peek()) || p.peek() == '*') {
		return "", false
	}
	st := p.i
	for !p.eof() && (rLcalpha(p.peek()) || rDigit(p.peek()) || strings.IndexByte("_-.*", p.peek()) >= 0) {
		p.i++
	}
	return p.s[st:p.i], true
}

// §4.2.4; isDec reports the type.
func (p *ref) number() (text string, isDec bool, ok bool) {
	st := p.i
	if !p.eof() && p.peek() == '-' {
		p.i++
	}
	if p.eof() || !rDigit(p.peek()) {
		return "", false, false
	}
	n := 0 // characters of input_number
	for !p.eof() {
		c := p.peek()
		if rDigit(c) {
			n++
			p.i++
		} else if !isDec && c == '.' {
			if n > 12 {
				return "", false, false
			}
			n++
			p.i++
			isDec = true
		} else {
			break
		}
		if !isDec && n > 15 {
			return "", false, false
		}
		if isDec && n > 16 {
			return "", false, false
		}
	}
	if isDec {
		if p.s[p.i-1] == '.' {
			return "", false, false
		}
		dot := strings.IndexByte(p.s[st:p.i], '.')
		if p.i-st-dot-1 > 3 {
			return "", false, false
		}
	}
	return p.s[st:p.i], isDec, true
}

// §4.2.5 (syntax; returns the span including quotes and the unescaped value)
func (p *ref) str() (text, val string, ok bool) {
	st := p.i
	if p.eof() || p.peek() != '"' {
		return "", "", false
	}
	p.i++
	var out []byte
	for !p.eof() {
		c := p.peek()
		p.i++
		switch {
		case c == '\\':
			if p.eof() {
				return "", "", false
			}
			n := p.peek()
			p.i++
			if n != '"' && n != '\\' {
				return "", "", false
			}
			out = append(out, n)
		case c == '"':
			return p.s[st:p.i], string(out), true
		case c <= 0x1f || c >= 0x7f:
			return "", "", false
		default:
			out = append(out, c)
		}
	}
	return "", "", false
}

// §4.2.6
func (p *ref) token() (string, bool) {
	if p.eof() || !(rAlpha(p.peek()) || p.peek() == '*') {
		return "", false
	}
	st := p.i
	for !p.eof() && (rTchar(p.peek()) || p.peek() == ':' || p.peek() == '/') {
		p.i++
	}
	return p.s[st:p.i], true
}

// §4.2.7 (the decoded value itself is not returned by the package; only decodability matters)
func (p *ref) byteSeq() (string, bool) {
	st := p.i
	if p.eof() || p.peek() != ':' {
		return "", false
	}
	p.i++
	end := strings.IndexByte(p.s[p.i:], ':')
	if end < 0 {
		return "", false
	}
	content := p.s[p.i : p.i+end]
	p.i += end + 1
	for i := 0; i < len(content); i++ {
		c := content[i]
		if !(rAlpha(c) || rDigit(c) || c == '+' || c == '/' || c == '=') {
			return "", false
		}
	}
	// step 7: "base64-decoding b64_content, synthesizing padding if necessary … If base64
	// decoding fails, parsing fails."
	if !rBase64Decodable(content) {
		return "", false
	}
	return p.s[st:p.i], true
}

// rBase64Decodable: RFC 4648 §4 text over the alphabet above, where missing "=" padding may be
// synthesised (never removed): 4-character quanta followed by nothing, xx, xx=, xx==, xxx or xxx=.
// Non-zero pad bits are not an error (RFC 9651 §4.2.7, last paragraph).
func rBase64Decodable(c string) bool {
	d := strings.TrimRight(c, "=")
	pad := len(c) - len(d)
	if strings.Contains(d, "=") {
		return false
	}
	switch len(d) % 4 {
	case 0:
		return pad == 0
	case 2:
		return pad <= 2
	case 3:
		return pad <= 1
	}
	return false
}

// §4.2.8
func (p *ref) boolean() (string, bool) {
	st := p.i
	if p.eof() || p.peek() != '?' {
		return "", false
	}
	p.i++
	if !p.eof() && (p.peek() == '1' || p.peek() == '0') {
		p.i++
		return p.s[st:p.i], true
	}
	return "", false
}

// §4.2.9
func (p *ref) date() (string, bool) {
	st := p.i
	if p.eof() || p.peek() != '@' {
		return "", false
	}
	p.i++
	_, isDec, ok := p.number()
	if !ok || isDec {
		return "", false
	}
	return p.s[st:p.i], true
}

// §4.2.10
func (p *ref) displayString() (text, val string, ok bool) {
	st := p.i
	if !strings.HasPrefix(p.s[p.i:], "%\"") {
		return "", "", false
	}
	p.i += 2
	var out []byte
	for !p.eof() {
		c := p.peek()
		p.i++
		if c <= 0x1f || c >= 0x7f {
			return "", "", false
		}
		switch c {
		case '%':
			if p.i+2 > len(p.s) {
				return "", "", false
			}
			h := p.s[p.i : p.i+2]
			p.i += 2
			var o byte
			for k := 0; k < 2; k++ {
				d := h[k]
				switch {
				case '0' <= d && d <= '9':
					o = o<<4 | (d - '0')
				case 'a' <= d && d <= 'f':
					o = o<<4 | (d - 'a' + 10)
				default:
					return "", "", false
				}
			}
			out = append(out, o)
		case '"':
			if !utf8.Valid(out) {
				return "", "", false
			}
			return p.s[st:p.i], string(out), true
		default:
			out = append(out, c)
		}
	}
	return "", "", false
}

// §4.2.3.1
func (p *ref) bareItem() (string, bool) {
	if p.eof() {
		return "", false
	}
	c := p.peek()
	switch {
	case c == '-' || rDigit(c):
		t, _, ok := p.number()
		return t, ok
	case c == '"':
		t, _, ok := p.str()
		return t, ok
	case rAlpha(c) || c == '*':
		return p.token()
	case c == ':':
		return p.byteSeq()
	case c == '?':
		return p.boolean()
	case c == '@':
		return p.date()
	case c == '%':
		t, _, ok := p.displayString()
		return t, ok
	}
	return "", false
}

// §4.2.3.2: callbacks (key, value text; "?1" when omitted) and the text span.
func (p *ref) params() (cbs [][2]string, text string, ok bool) {
	st := p.i
	for !p.eof() {
		if p.peek() != ';' {
			break
		}
		p.i++
		p.skipSP()
		k, ok := p.key()
		if !ok {
			return nil, "", false
		}
		v := "?1"
		if !p.eof() && p.peek() == '=' {
			p.i++
			if v, ok = p.bareItem(); !ok {
				return nil, "", false
			}
		}
		cbs = append(cbs, [2]string{k, v})
	}
	return cbs, p.s[st:p.i], true
}

// §4.2.1.2 without the inner list's own parameters ("bare inner list").
func (p *ref) bareInnerList() (cbs [][2]string, text string, ok bool) {
	st := p.i
	if p.eof() || p.peek() != '(' {
		return nil, "", false
	}
	p.i++
	for !p.eof() {
		p.skipSP()
		if !p.eof() && p.peek() == ')' {
			p.i++
			return cbs, p.s[st:p.i], true
		}
		bi, ok := p.bareItem()
		if !ok {
			return nil, "", false
		}
		_, pt, ok := p.params()
		if !ok {
			return nil, "", false
		}
		if p.eof() || (p.peek() != ' ' && p.peek() != ')') {
			return nil, "", false
		}
		cbs = append(cbs, [2]string{bi, pt})
	}
	return nil, "", false
}

func (p *ref) member() (string, bool) {
	if !p.eof() && p.peek() == '(' {
		_, t, ok := p.bareInnerList()
		return t, ok
	}
	return p.bareItem()
}

// §4.2.1
func (p *ref) list() (cbs [][2]string, ok bool) {
	for !p.eof() {
		m, ok := p.member()
		if !ok {
			return nil, false
		}
		_, pt, ok := p.params()
		if !ok {
			return nil, false
		}
		cbs = append(cbs, [2]string{m, pt})
		p.skipOWS()
		if p.eof() {
			return cbs, true
		}
		if p.peek() != ',' {
			return nil, false
		}
		p.i++
		p.skipOWS()
		if p.eof() {
			return nil, false
		}
	}
	return cbs, true
}

// §4.2.2
func (p *ref) dict() (cbs [][3]string, ok bool) {
	for !p.eof() {
		k, ok := p.key()
		if !ok {
			return nil, false
		}
		v := "?1"
		if !p.eof() && p.peek() == '=' {
			p.i++
			if v, ok = p.member(); !ok {
				return nil, false
			}
		}
		_, pt, ok := p.params()
		if !ok {
			return nil, false
		}
		cbs = append(cbs, [3]string{k, v, pt})
		p.skipOWS()
		if p.eof() {
			return cbs, true
		}
		if p.peek() != ',' {
			return nil, false
		}
		p.i++
		p.skipOWS()
		if p.eof() {
			return nil, false
		}
	}
	return cbs, true
}
