//go:build verif

package httpsfv

// White-box shims for the C56 harness (injected with -overlay; never committed).

func VerifConsumeBareItem(s string) (string, string, bool)         { return consumeBareItem(s) }
func VerifConsumeKey(s string) (string, string, bool)              { return consumeKey(s) }
func VerifConsumeIntegerOrDecimal(s string) (string, string, bool) { return consumeIntegerOrDecimal(s) }
func VerifConsumeParameter(s string) (string, string, bool)        { return consumeParameter(s, nil) }
func VerifConsumeBareInnerList(s string) (string, string, bool)    { return consumeBareInnerList(s, nil) }
func VerifConsumeItem(s string) (string, string, bool)             { return consumeItem(s, nil) }
