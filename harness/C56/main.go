//go:build verif

// C56 harness: internal/httpsfv structured-field parsers against the Lean model (D-tie)
// and against an independent RFC 9651 reference parser (oracle).
package main

import (
	"fmt"
	"math/big"
	"strconv"
	"strings"

	"golang.org/x/net/internal/httpsfv"
	vu "golang.org/x/net/internal/verifutil"
)

// ---------------------------------------------------------------- generators

const lc = "abcdefghijklmnopqrstuvwxyz"
const uc = "ABCDEFGHIJKLMNOPQRSTUVWXYZ"
const dg = "0123456789"
const tcharSpecials = "!#$%&'*+-.^_`|~"
const sfAlphabet = lc + uc + dg + tcharSpecials + ":/;=,()\"\\ \t?@<>[]{}"

func genKey(r *vu.Rng) string {
	if r.Chance(1, 6) { // small pool: repeated keys
		return []string{"u", "i", "a"}[r.Intn(3)]
	}
	first := lc + "*"
	if r.Chance(1, 12) {
		first = uc + dg + "_-"
	}
	return string(r.BytesFrom(first, 1)) + string(r.BytesFrom(lc+dg+"_-.*", r.Intn(4)))
}

func genDigits(r *vu.Rng, n int) string { return string(r.BytesFrom(dg, n)) }

func genInteger(r *vu.Rng) string {
	n := []int{1, 1, 2, 3, 5, 9, 14, 15, 15, 16, 17}[r.Intn(11)]
	s := genDigits(r, n)
	if r.Chance(1, 3) {
		s = "-" + s
	}
	if r.Chance(1, 25) {
		s = "-"
	}
	return s
}

func genDecimal(r *vu.Rng) string {
	ni := []int{1, 1, 2, 3, 6, 11, 12, 12, 13, 14}[r.Intn(10)]
	nf := []int{1, 1, 2, 3, 3, 3, 0, 4}[r.Intn(8)]
	s := genDigits(r, ni) + "." + genDigits(r, nf)
	if r.Chance(1, 3) {
		s = "-" + s
	}
	if r.Chance(1, 20) {
		s += "." + genDigits(r, 1)
	}
	return s
}

func genString(r *vu.Rng) string {
	var b []byte
	b = append(b, '"')
	n := r.Intn(8)
	for i := 0; i < n; i++ {
		switch r.Intn(12) {
		case 0:
			b = append(b, '\\', '"')
		case 1:
			b = append(b, '\\', '\\')
		case 2:
			if r.Chance(1, 4) {
				b = append(b, '\\', 'n') // bad escape
			} else {
				b = append(b, ' ')
			}
		case 3:
			if r.Chance(1, 6) {
				b = append(b, []byte{0x7f, 0x1f, 0x80, '\t', 0}[r.Intn(5)])
			} else {
				b = append(b, ',')
			}
		default:
			b = append(b, byte(r.Range(0x20, 0x7e)))
			if b[len(b)-1] == '"' || b[len(b)-1] == '\\' {
				b[len(b)-1] = 'x'
			}
		}
	}
	if !r.Chance(1, 15) {
		b = append(b, '"')
	}
	return string(b)
}

func genToken(r *vu.Rng) string {
	first := lc + uc + "*"
	if r.Chance(1, 15) {
		first = dg + ":/!"
	}
	return string(r.BytesFrom(first, 1)) + string(r.BytesFrom(lc+uc+dg+tcharSpecials+":/", r.Intn(6)))
}

func genByteSeq(r *vu.Rng) string {
	s := ":" + string(r.BytesFrom(lc+uc+dg+"+/=", r.Intn(9)))
	if r.Chance(1, 10) {
		s += string(r.BytesFrom("-_ .", 1))
	}
	if !r.Chance(1, 12) {
		s += ":"
	}
	return s
}

func genBoolean(r *vu.Rng) string {
	return []string{"?0", "?1", "?0", "?1", "?2", "?", "?t", "?01"}[r.Intn(8)]
}

func genDate(r *vu.Rng) string {
	if r.Chance(1, 8) {
		return "@" + genDecimal(r)
	}
	return "@" + genInteger(r)
}

var runePool = []rune{'a', 'Z', ' ', 0x7f, 0x80, 0xe9, 0x7ff, 0x800, 0x20ac, 0xd7ff, 0xe000, 0xfffd, 0xfffc, 0xfffe, 0xffff, 0x10000, 0x1f600, 0x10ffff}

func pct(b []byte) string {
	var sb strings.Builder
	for _, c := range b {
		fmt.Fprintf(&sb, "%%%02x", c)
	}
	return sb.String()
}

func genDisplayString(r *vu.Rng) string {
	var sb strings.Builder
	sb.WriteString("%\"")
	n := r.Intn(5)
	for i := 0; i < n; i++ {
		switch r.Intn(10) {
		case 0, 1, 2:
			c := byte(r.Range(0x20, 0x7e))
			if c == '"' || c == '%' {
				c = 'y'
			}
			sb.WriteByte(c)
		case 3, 4, 5, 6:
			var ru rune
			if r.Bool() {
				ru = runePool[r.Intn(len(runePool))]
			} else {
				ru = rune(r.Intn(0x110000))
				if 0xd800 <= ru && ru <= 0xdfff {
					ru = 0xfffd
				}
			}
			sb.WriteString(pct([]byte(string(ru))))
		case 7: // malformed UTF-8: surrogates, overlongs, truncations, stray continuation
			bad := [][]byte{{0xed, 0xa0, 0x80}, {0xc0, 0xaf}, {0xe0, 0x80, 0xaf}, {0xf4, 0x90, 0x80, 0x80}, {0xe2, 0x82}, {0x80}, {0xf0, 0x9f, 0x98}, {0xc3}, {0xff}, {0xf8, 0x88, 0x80, 0x80, 0x80}, {0xef, 0xbf}, {0xe2, 0x28, 0xa1}}
			sb.WriteString(pct(bad[r.Intn(len(bad))]))
		case 8:
			sb.WriteString([]string{"%E9", "%4", "%", "%g0", "%0G", "%c3%A9"}[r.Intn(6)])
		default:
			sb.WriteByte([]byte{0x7f, '\t', 0x80, 0x1f}[r.Intn(4)])
		}
	}
	if !r.Chance(1, 15) {
		sb.WriteByte('"')
	}
	return sb.String()
}

func genBareItem(r *vu.Rng) string {
	switch r.Intn(9) {
	case 0, 1:
		return genInteger(r)
	case 2:
		return genDecimal(r)
	case 3:
		return genString(r)
	case 4:
		return genToken(r)
	case 5:
		return genByteSeq(r)
	case 6:
		return genBoolean(r)
	case 7:
		return genDate(r)
	default:
		return genDisplayString(r)
	}
}

func genSimpleItem(r *vu.Rng) string {
	switch r.Intn(5) {
	case 0:
		return genDigits(r, r.Range(1, 3))
	case 1:
		return genToken(r)
	case 2:
		return []string{"?0", "?1"}[r.Intn(2)]
	default:
		return genBareItem(r)
	}
}

func sp(r *vu.Rng, tabToo bool) string {
	k := []int{0, 0, 0, 1, 1, 2}[r.Intn(6)]
	if tabToo && r.Chance(1, 6) {
		return string(r.BytesFrom(" \t", k+1))
	}
	return strings.Repeat(" ", k)
}

func genParams(r *vu.Rng) string {
	var sb strings.Builder
	n := []int{0, 0, 0, 1, 1, 2, 3}[r.Intn(7)]
	for i := 0; i < n; i++ {
		sb.WriteString(";")
		if r.Chance(1, 3) {
			sb.WriteString(sp(r, true))
		}
		sb.WriteString(genKey(r))
		if r.Bool() {
			sb.WriteString("=" + genSimpleItem(r))
		}
	}
	return sb.String()
}

func genItem(r *vu.Rng) string { return genSimpleItem(r) + genParams(r) }

func genInner(r *vu.Rng) string {
	var sb strings.Builder
	sb.WriteString("(")
	n := r.Intn(4)
	sb.WriteString(sp(r, true))
	for i := 0; i < n; i++ {
		if i > 0 {
			sb.WriteString(" " + sp(r, true))
			if r.Chance(1, 20) {
				sb.Reset()
				sb.WriteString("(a\t")
			}
		}
		sb.WriteString(genItem(r))
	}
	sb.WriteString(sp(r, true))
	if !r.Chance(1, 12) {
		sb.WriteString(")")
	}
	return sb.String()
}

func genMember(r *vu.Rng) string {
	if r.Chance(1, 4) {
		return genInner(r) + genParams(r)
	}
	return genItem(r)
}

func genSep(r *vu.Rng, allowMissing bool) string {
	if allowMissing && r.Chance(1, 10) {
		return []string{" ", "", "\t", "  "}[r.Intn(4)]
	}
	if r.Chance(1, 15) {
		return []string{",,", ", ,", ";", ",;"}[r.Intn(4)]
	}
	return sp(r, true) + "," + sp(r, true)
}

func genList(r *vu.Rng) string {
	n := r.Intn(4)
	var parts []string
	for i := 0; i < n; i++ {
		parts = append(parts, genMember(r))
	}
	s := ""
	for i, p := range parts {
		if i > 0 {
			s += genSep(r, true)
		}
		s += p
	}
	if r.Chance(1, 10) {
		s += sp(r, true)
	}
	if r.Chance(1, 15) {
		s += ","
	}
	if r.Chance(1, 20) {
		s = " " + s
	}
	return s
}

func genDict(r *vu.Rng) string {
	n := r.Intn(4)
	s := ""
	for i := 0; i < n; i++ {
		if i > 0 {
			s += genSep(r, true)
		}
		s += genKey(r)
		switch r.Intn(3) {
		case 0:
			s += genParams(r)
		default:
			s += "=" + genMember(r)
		}
	}
	if r.Chance(1, 10) {
		s += sp(r, true)
	}
	if r.Chance(1, 15) {
		s += ","
	}
	return s
}

func mutate(r *vu.Rng, s string) string {
	b := []byte(s)
	switch r.Intn(5) {
	case 0:
		if len(b) > 0 {
			b = b[:r.Intn(len(b))] // truncation
		}
	case 1:
		if len(b) > 0 {
			i := r.Intn(len(b))
			b = append(b[:i], b[i+1:]...)
		}
	case 2:
		i := r.Intn(len(b) + 1)
		c := sfAlphabet[r.Intn(len(sfAlphabet))]
		b = append(b[:i], append([]byte{c}, b[i:]...)...)
	case 3:
		if len(b) > 0 {
			b[r.Intn(len(b))] = sfAlphabet[r.Intn(len(sfAlphabet))]
		}
	default:
		if len(b) > 0 {
			b[r.Intn(len(b))] = byte(r.Uint64())
		}
	}
	return string(b)
}

var bareOps = []string{"int", "dec", "str", "tok", "bseq", "bool", "date", "dstr"}
var allOps = []string{"int", "dec", "str", "tok", "bseq", "bool", "date", "dstr", "item", "params", "inner", "list", "dict",
	"cbare", "ckey", "cnum", "cparam", "cinner", "citem"}

var corpus = []string{
	"list -", "dict -", "inner x28", "list x28", "dict x613d28", "dict x612062", "dict x613d3f3162", "inner x2809612029",
	"params x3b0961", "dstr x252225656625626625626422", "item x6120", "item x2061", "list x6109", "list x2061",
	"dict x753d332c2069", "dict x753d332069", "str x22615c226222", "dec x2d302e30", "int x2d30",
}

func gen(r *vu.Rng, i int) []string {
	if i < len(corpus) {
		return []string{corpus[i]}
	}
	var op, s string
	switch r.Intn(14) {
	case 0:
		op, s = "int", genInteger(r)
	case 1:
		op, s = "dec", genDecimal(r)
	case 2:
		op, s = "str", genString(r)
	case 3:
		op, s = "tok", genToken(r)
	case 4:
		op, s = []string{"bseq", "bool", "date"}[r.Intn(3)], ""
		switch op {
		case "bseq":
			s = genByteSeq(r)
		case "bool":
			s = genBoolean(r)
		default:
			s = genDate(r)
		}
	case 5:
		op, s = "dstr", genDisplayString(r)
	case 6:
		op, s = "item", genItem(r)
	case 7:
		op, s = "params", genParams(r)
	case 8:
		op, s = "inner", genInner(r)
	case 9, 10:
		op, s = "list", genList(r)
	case 11, 12:
		op, s = "dict", genDict(r)
	default:
		op = []string{"cbare", "ckey", "cnum", "cparam", "cinner", "citem"}[r.Intn(6)]
		switch op {
		case "cbare":
			s = genBareItem(r)
		case "ckey":
			s = genKey(r)
		case "cnum":
			s = []string{genInteger(r), genDecimal(r)}[r.Intn(2)]
		case "cparam":
			s = genParams(r)
		case "cinner":
			s = genInner(r)
		default:
			s = genItem(r)
		}
		s += string(r.BytesFrom(sfAlphabet, r.Intn(3)))
	}
	if (op == "item" || op == "list" || op == "dict") && r.Chance(1, 20) { // §4.2 surrounding SP
		switch r.Intn(3) {
		case 0:
			s = " " + s
		case 1:
			s = s + " "
		default:
			s = "  " + s + " "
		}
	}
	if r.Chance(1, 20) { // any op on any text
		op = allOps[r.Intn(len(allOps))]
	}
	if r.Chance(1, 25) {
		s = string(r.BytesFrom(sfAlphabet, r.Intn(10)))
	}
	if r.Chance(1, 5) {
		s = mutate(r, s)
	}
	return []string{op + " " + vu.Hex([]byte(s))}
}

// ---------------------------------------------------------------- execution

func hx(s string) string { return vu.Hex([]byte(s)) }

func fmtPairs(cbs [][2]string) string {
	var sb strings.Builder
	sb.WriteString("ok")
	for _, c := range cbs {
		sb.WriteString(" " + hx(c[0]) + ":" + hx(c[1]))
	}
	return sb.String()
}

func fmtTriples(cbs [][3]string) string {
	var sb strings.Builder
	sb.WriteString("ok")
	for _, c := range cbs {
		sb.WriteString(" " + hx(c[0]) + ":" + hx(c[1]) + ":" + hx(c[2]))
	}
	return sb.String()
}

func consumed(c, rest string, ok bool, s string) string {
	if !ok {
		return "err"
	}
	return fmt.Sprintf("ok %d %d", len(c), len(rest))
}

// runImpl executes op on the real package and returns the canonical result.
func runImpl(op, s string) string {
	switch op {
	case "int":
		if n, ok := httpsfv.ParseInteger(s); ok {
			return fmt.Sprintf("ok %d", n)
		}
		return "err"
	case "dec":
		if f, ok := httpsfv.ParseDecimal(s); ok {
			t := strconv.FormatFloat(f, 'f', 3, 64)
			if t == "-0.000" {
				t = "0.000"
			}
			return "ok " + t
		}
		return "err"
	case "str":
		if v, ok := httpsfv.ParseString(s); ok {
			return "ok " + hx(v)
		}
		return "err"
	case "tok":
		if v, ok := httpsfv.ParseToken(s); ok {
			return "ok " + hx(v)
		}
		return "err"
	case "bseq":
		if v, ok := httpsfv.ParseByteSequence(s); ok {
			return "ok " + vu.Hex(v)
		}
		return "err"
	case "bool":
		if v, ok := httpsfv.ParseBoolean(s); ok {
			return fmt.Sprintf("ok %v", v)
		}
		return "err"
	case "date":
		if v, ok := httpsfv.ParseDate(s); ok {
			return fmt.Sprintf("ok %d", v.Unix())
		}
		return "err"
	case "dstr":
		if v, ok := httpsfv.ParseDisplayString(s); ok {
			return "ok " + hx(v)
		}
		return "err"
	case "item":
		var cbs [][2]string
		if httpsfv.ParseItem(s, func(a, b string) { cbs = append(cbs, [2]string{a, b}) }) && len(cbs) == 1 {
			return "ok " + hx(cbs[0][0]) + " " + hx(cbs[0][1])
		}
		return "err"
	case "params":
		var cbs [][2]string
		if httpsfv.ParseParameter(s, func(a, b string) { cbs = append(cbs, [2]string{a, b}) }) {
			return fmtPairs(cbs)
		}
		return "err"
	case "inner":
		var cbs [][2]string
		if httpsfv.ParseBareInnerList(s, func(a, b string) { cbs = append(cbs, [2]string{a, b}) }) {
			return fmtPairs(cbs)
		}
		return "err"
	case "list":
		var cbs [][2]string
		if httpsfv.ParseList(s, func(a, b string) { cbs = append(cbs, [2]string{a, b}) }) {
			return fmtPairs(cbs)
		}
		return "err"
	case "dict":
		var cbs [][3]string
		if httpsfv.ParseDictionary(s, func(a, b, c string) { cbs = append(cbs, [3]string{a, b, c}) }) {
			return fmtTriples(cbs)
		}
		return "err"
	case "cbare":
		c, rest, ok := httpsfv.VerifConsumeBareItem(s)
		return consumed(c, rest, ok, s)
	case "ckey":
		c, rest, ok := httpsfv.VerifConsumeKey(s)
		return consumed(c, rest, ok, s)
	case "cnum":
		c, rest, ok := httpsfv.VerifConsumeIntegerOrDecimal(s)
		return consumed(c, rest, ok, s)
	case "cparam":
		c, rest, ok := httpsfv.VerifConsumeParameter(s)
		return consumed(c, rest, ok, s)
	case "cinner":
		c, rest, ok := httpsfv.VerifConsumeBareInnerList(s)
		return consumed(c, rest, ok, s)
	case "citem":
		c, rest, ok := httpsfv.VerifConsumeItem(s)
		return consumed(c, rest, ok, s)
	}
	return "bad-op"
}

// runRef executes op on the RFC reference parser; ("", false) when the op has no
// container-level reference (consume* ops are D-tied only).
func runRef(op, s string) (string, bool) {
	p := &ref{s: s}
	switch op {
	case "item":
		bi, ok := p.bareItem()
		if !ok {
			return "err", true
		}
		_, pt, ok := p.params()
		if !ok || !p.eof() {
			return "err", true
		}
		return "ok " + hx(bi) + " " + hx(pt), true
	case "params":
		cbs, _, ok := p.params()
		if !ok || !p.eof() {
			return "err", true
		}
		return fmtPairs(cbs), true
	case "inner":
		cbs, _, ok := p.bareInnerList()
		if !ok || !p.eof() {
			return "err", true
		}
		return fmtPairs(cbs), true
	case "list":
		cbs, ok := p.list()
		if !ok {
			return "err", true
		}
		return fmtPairs(cbs), true
	case "dict":
		cbs, ok := p.dict()
		if !ok {
			return "err", true
		}
		return fmtTriples(cbs), true
	}
	return "", false
}

const sigTopSP = "C56:top-level-sp-not-discarded"

// runRefTop is RFC 9651 §4.2 for the three top-level structures: discard leading SP (step 2), run the
// structure's algorithm, discard trailing SP (step 6), fail on anything left (step 7).
func runRefTop(op, s string) (string, bool) {
	t := strings.TrimLeft(s, " ")
	switch op {
	case "list", "dict":
		return runRef(op, t)
	case "item":
		return runRef(op, strings.TrimRight(t, " "))
	}
	return runRef(op, s)
}

const sigDup = "C56:duplicate-key-instances-all-reported"

// lastWins turns the canonical "ok k:v[:p] …" sequence of a dictionary / parameter list into the RFC's
// ordered map (§4.2.2 steps 2.4–2.5, §4.2.3.2 steps 2.7–2.8): a repeated key overwrites the earlier
// member in place, a new key is appended.
func lastWins(res string) string {
	if !strings.HasPrefix(res, "ok") {
		return res
	}
	var out []string
	for _, m := range strings.Fields(res)[1:] {
		k := m[:strings.IndexByte(m, ':')]
		done := false
		for i, e := range out {
			if e[:strings.IndexByte(e, ':')] == k {
				out[i], done = m, true
				break
			}
		}
		if !done {
			out = append(out, m)
		}
	}
	return strings.Join(append([]string{"ok"}, out...), " ")
}

func oracleContainer(op, s, got string, o *vu.Out) {
	strict, has := runRef(op, s)
	if !has {
		return
	}
	seq, _ := runRefTop(op, s)
	want := seq
	if op == "dict" || op == "params" {
		want = lastWins(seq)
	}
	if got == want {
		return
	}
	if got == strict && got == "err" {
		// known finding: the package implements §4.2.1 / §4.2.2 / §4.2.3 but not the §4.2 wrapper.
		o.Fail(sigTopSP, fmt.Sprintf("%s(%q) rejected; RFC 9651 §4.2 discards the surrounding SP and yields %q", op, s, want))
		o.Stat("deviation:" + sigTopSP)
		return
	}
	if got == seq && want != seq {
		// known finding: every instance of a repeated key is reported to the callback, in order; the RFC's
		// dictionary / parameters keep only the last one (a last-wins consumer reconstructs it).
		o.Fail(sigDup, fmt.Sprintf("%s(%q) reports %q; RFC 9651 yields %q (repeated keys overwrite)", op, s, got, want))
		o.Stat("deviation:" + sigDup)
		return
	}
	o.Fail("", fmt.Sprintf("%s(%q): package says %q, RFC 9651 reference says %q", op, s, got, want))
}

func oracleBare(op, s, got string, o *vu.Out) {
	p := &ref{s: s}
	want := "err"
	switch op {
	case "int":
		if t, isDec, ok := p.number(); ok && !isDec && p.eof() {
			n, _ := new(big.Int).SetString(t, 10)
			want = "ok " + n.String()
		}
	case "dec":
		if t, isDec, ok := p.number(); ok && isDec && p.eof() {
			rat, _ := new(big.Rat).SetString(t)
			f, _ := rat.Float64() // nearest float64 to the RFC's decimal value
			fs := strconv.FormatFloat(f, 'f', 3, 64)
			if fs == "-0.000" {
				fs = "0.000"
			}
			want = "ok " + fs
			if g, ok := httpsfv.ParseDecimal(s); ok && g != f {
				o.Fail("", fmt.Sprintf("ParseDecimal(%q)=%v, nearest float64 to the RFC value is %v", s, g, f))
			}
		}
	case "tok":
		if t, ok := p.token(); ok && p.eof() {
			want = "ok " + hx(t)
		}
	case "bool":
		if t, ok := p.boolean(); ok && p.eof() {
			want = fmt.Sprintf("ok %v", t == "?1")
		}
	case "date":
		if t, ok := p.date(); ok && p.eof() {
			n, _ := new(big.Int).SetString(t[1:], 10)
			want = "ok " + n.String()
		}
	case "dstr":
		if _, v, ok := p.displayString(); ok && p.eof() {
			want = "ok " + hx(v)
		}
	case "str":
		// Not in the property's list: ParseString returns the RAW text between the quotes.
		if t, v, ok := p.str(); ok && p.eof() {
			want = "ok " + hx(t[1:len(t)-1])
			if v != t[1:len(t)-1] {
				o.Stat("str:raw-value-differs-from-rfc-unescaped-value")
			}
		}
	case "bseq":
		// Not in the property's list: ParseByteSequence returns the RAW base64 text.
		if t, ok := p.byteSeq(); ok && p.eof() {
			want = "ok " + hx(t[1:len(t)-1])
		}
	default:
		return
	}
	if got == want {
		return
	}
	o.Fail("", fmt.Sprintf("%s(%q): package says %q, RFC 9651 reference says %q", op, s, got, want))
}

func exec(ops []string, o *vu.Out) {
	for _, op := range ops {
		t := strings.Fields(op)
		if len(t) != 2 {
			o.Op(op, "bad-op")
			continue
		}
		b, okh := vu.ParseHex(t[1])
		if !okh {
			o.Op(op, "bad-op")
			continue
		}
		s := string(b)
		got := vu.Catch(func() string { return runImpl(t[0], s) })
		o.Op(op, got)
		kind := "err"
		if strings.HasPrefix(got, "ok") {
			kind = "ok"
		}
		o.Stat("op:" + t[0] + ":" + kind)
		if got == "panic" {
			o.Fail("", fmt.Sprintf("%s(%q) panicked", t[0], s))
			continue
		}
		oracleBare(t[0], s, got, o)
		oracleContainer(t[0], s, got, o)
	}
}

func main() { vu.Main(gen, exec) }
