//go:build verif

// White-box state-machine harness shared by C19 / C20 / C32 (tie "sm").
//
// A bare *Conn (no TLS, no goroutines, no timers: only the stream table, the stream
// limits and the connection-level flow-control counters are initialised) carries real
// *Stream values.  Peer frames enter through the real conn_recv.go handlers
// (handleStreamFrame, handleResetStreamFrame, handleStopSendingFrame, handleMaxDataFrame,
// handleMaxStreamDataFrame -> streamForFrame -> Stream.handle*), user calls go through the
// public Stream API with already-cancelled contexts, packets are built with a real
// packetWriter whose remaining capacity is set by the op, and the fate of a packet is
// reported through the real Conn.handleAckOrLoss.  Messages the code posts to the conn
// loop (MAX_DATA updates) are run immediately after each op.
//
// Every result line carries the complete state of the stream that was touched and of
// the connection-level counters, so the Lean model (Model/QuicStream.lean) is compared
// field by field after every operation.
package quic

import (
	"context"
	"fmt"
	"strings"
	"testing"
	"time"

	vu "golang.org/x/net/internal/verifutil"
)

func TestVerifC19sm(t *testing.T) {
	vu.Run(vu.ConfigFromEnv(), func(r *vu.Rng, i int) []string { return smGen(r, i, 19) },
		func(ops []string, o *vu.Out) { smExec(ops, o, 19) })
}
func TestVerifC20sm(t *testing.T) {
	vu.Run(vu.ConfigFromEnv(), func(r *vu.Rng, i int) []string { return smGen(r, i, 20) },
		func(ops []string, o *vu.Out) { smExec(ops, o, 20) })
}
func TestVerifC32sm(t *testing.T) {
	vu.Run(vu.ConfigFromEnv(), func(r *vu.Rng, i int) []string { return smGen(r, i, 32) },
		func(ops []string, o *vu.Out) { smExec(ops, o, 32) })
}

// ---------------------------------------------------------------- rig

type smSentFrame struct {
	id       int64
	off, end int64
	fin      bool
}

type smRig struct {
	c       *Conn
	now     time.Time
	streams map[int64]*Stream
	ids     []int64
	w       packetWriter
	pnum    int64
	pkts    map[int64]*sentPacket
	dead    bool
	cfg     [7]int64

	// ---- oracle bookkeeping (not used to compute results)
	prop        int
	inData      map[int64]int64 // bytes delivered by Read so far
	inFinal     map[int64]int64 // final size announced by the peer (fin / reset), -1 unknown
	inHigh      map[int64]int64 // highest offset the peer sent
	inResetSeen map[int64]bool
	sawEOF      map[int64]bool
	written     map[int64]int64 // bytes accepted by Write
	peerMSD     map[int64]int64 // peer's MAX_STREAM_DATA for our sending (largest seen)
	peerMaxData int64
	advMSD      map[int64]int64 // last MAX_STREAM_DATA we put on the wire (or initial)
	advMaxData  int64
	sentHigh    map[int64]int64 // highest offset placed in a STREAM frame
	resetSent   map[int64]int64 // final size of the first RESET_STREAM, -1 if none
	resetCalled map[int64]bool
	inflight    map[int64][]smSentFrame // pnum -> STREAM frames
	inHighRec   map[int64]int64         // like inHigh / inFinal, but only frames the stream recorded
	inFinalRec  map[int64]int64         // (frames arriving after CloseRead / RESET_STREAM are discarded unseen)
}

// smByteIn / smByteOut: the two byte sequences W (peer -> us, us -> peer) of stream id.
func smByteIn(id, off int64) byte  { return byte((off*31 + id*17 + (off >> 8)) & 0xff) }
func smByteOut(id, off int64) byte { return byte((off*29 + id*11 + 7 + (off >> 7)) & 0xff) }

func smNewRig(cfg [7]int64, prop int) *smRig {
	conf := &Config{
		MaxStreamReadBufferSize:  cfg[0],
		MaxStreamWriteBufferSize: cfg[1],
		MaxConnReadBufferSize:    cfg[2],
	}
	c := &Conn{side: serverSide, config: conf, msgc: make(chan any, 4096), donec: make(chan struct{})}
	c.streamsInit()
	c.lifetimeInit()
	// what receiveTransportParameters does with the peer's parameters
	c.streams.outflow.setMaxData(cfg[3])
	c.streams.localLimit[bidiStream].setMax(1 << 20)
	c.streams.localLimit[uniStream].setMax(1 << 20)
	c.streams.peerInitialMaxStreamDataBidiLocal = cfg[4]
	c.streams.peerInitialMaxStreamDataRemote[bidiStream] = cfg[5]
	c.streams.peerInitialMaxStreamDataRemote[uniStream] = cfg[6]
	return &smRig{c: c, cfg: cfg, now: time.Now(), streams: map[int64]*Stream{}, pkts: map[int64]*sentPacket{}, prop: prop,
		inData: map[int64]int64{}, inFinal: map[int64]int64{}, inHigh: map[int64]int64{}, inResetSeen: map[int64]bool{},
		sawEOF: map[int64]bool{}, written: map[int64]int64{}, peerMSD: map[int64]int64{}, peerMaxData: cfg[3],
		advMSD: map[int64]int64{}, advMaxData: conf.maxConnReadBufferSize(), sentHigh: map[int64]int64{},
		resetSent: map[int64]int64{}, resetCalled: map[int64]bool{}, inflight: map[int64][]smSentFrame{},
		inHighRec: map[int64]int64{}, inFinalRec: map[int64]int64{}}
}

func (r *smRig) pump() {
	for {
		select {
		case m := <-r.c.msgc:
			switch f := m.(type) {
			case func(time.Time, *Conn):
				f(r.now, r.c)
			case func(now, next time.Time, _ *Conn):
				f(r.now, time.Time{}, r.c)
			}
		default:
			return
		}
	}
}

func (r *smRig) open(id int64) bool {
	if _, ok := r.streams[id]; ok || id < 0 {
		return false
	}
	c := r.c
	sid := streamID(id)
	var s *Stream
	if sid.initiator() == c.side {
		// the real newLocalStream; it finishes on the conn loop (runOnLoop), which this rig plays itself
		styp := sid.streamType()
		if sid.num() != c.streams.localLimit[styp].opened {
			return false
		}
		done := make(chan struct{})
		var err error
		go func() {
			defer close(done)
			s, err = c.newLocalStream(context.Background(), styp)
		}()
	pump:
		for {
			select {
			case <-done:
				break pump
			case m := <-c.msgc:
				if f, ok := m.(func(time.Time, *Conn)); ok {
					f(r.now, c)
				}
			}
		}
		if err != nil || s == nil || int64(s.id) != id {
			return false
		}
	} else {
		if sid.num() != c.streams.remoteLimit[sid.streamType()].opened {
			return false
		}
		s = c.streamForFrame(r.now, sid, recvStream)
		if s == nil {
			return false
		}
	}
	s.SetReadContext(canceledContext())
	s.SetWriteContext(canceledContext())
	r.streams[id] = s
	r.ids = append(r.ids, id)
	r.inFinal[id] = -1
	r.inFinalRec[id] = -1
	r.resetSent[id] = -1
	// the peer's limit for our sending comes from ITS transport parameters, by stream type and initiator
	// (not from the stream's own outwin, which is what is being checked):
	// peer-opened bidi -> initial_max_stream_data_bidi_local, our bidi -> bidi_remote, our uni -> uni
	switch id & 3 {
	case 0:
		r.peerMSD[id] = r.cfg[4]
	case 1:
		r.peerMSD[id] = r.cfg[5]
	case 3:
		r.peerMSD[id] = r.cfg[6]
	default:
		r.peerMSD[id] = 0 // peer-opened unidirectional: we never send
	}
	// what this endpoint ADVERTISED for the stream in its transport parameters (initial_max_stream_data_*
	// are all config.maxStreamReadBufferSize()); a stream we only send on has no receive window
	r.advMSD[id] = 0
	if id&3 != 3 {
		r.advMSD[id] = c.config.maxStreamReadBufferSize()
	}
	return true
}

func smSV(v sentVal) string {
	switch v.state() >> 62 {
	case 0:
		return "-"
	case 1:
		return "U"
	case 2:
		return fmt.Sprintf("S%d", uint64(v)&(1<<62-1))
	}
	return "R"
}

func smRS(rs rangeset[int64]) string {
	var b strings.Builder
	b.WriteByte('[')
	for i, x := range rs {
		if i > 0 {
			b.WriteByte(',')
		}
		fmt.Fprintf(&b, "%d-%d", x.start, x.end)
	}
	b.WriteByte(']')
	return b.String()
}

func smB(b bool) int {
	if b {
		return 1
	}
	return 0
}

func (r *smRig) dumpStream(s *Stream) string {
	done := s.outclosed.isReceived() && s.outacked.isrange(0, s.out.end)
	return fmt.Sprintf("in=%d,%d win=%d sm=%s size=%d set=%s cl=%s rc=%d ib=%d,%d out=%d,%d fl=%d win=%d ms=%d un=%s ak=%s op=%s cl=%s bl=%s rs=%s ob=%d,%d done=%d",
		s.in.start, s.in.end, s.inwin, smSV(s.insendmax), s.insize, smRS(s.inset), smSV(s.inclosed), s.inresetcode,
		len(s.inbuf), s.inbufoff,
		s.out.start, s.out.end, s.outflushed, s.outwin, s.outmaxsent, smRS(s.outunsent), smRS(s.outacked),
		smSV(s.outopened), smSV(s.outclosed), smSV(s.outblocked), smSV(s.outreset), len(s.outbuf), s.outbufoff, smB(done))
}

func (r *smRig) dumpConn() string {
	f := &r.c.streams.inflow
	o := &r.c.streams.outflow
	return fmt.Sprintf("cf u=%d s=%d n=%d c=%d sv=%s om=%d ou=%d", f.usedLimit, f.sentLimit, f.newLimit, f.credit.Load(), smSV(f.sent), o.max, o.used)
}

func (r *smRig) errCode() string {
	err := r.c.lifetime.localErr
	if err == nil {
		return ""
	}
	if te, ok := err.(localTransportError); ok {
		switch te.code {
		case errFlowControl:
			return "flow"
		case errFinalSize:
			return "finalsize"
		}
	}
	return "other"
}

func smEncode(f func(w *packetWriter)) []byte {
	var w packetWriter
	w.reset(1 << 16)
	w.start1RTTPacket(0, -1, []byte{1, 2, 3, 4, 5, 6, 7, 8})
	w.sent.reset()
	w.pktLim = cap(w.b)
	f(&w)
	return append([]byte(nil), w.payload()...)
}

// startPacket prepares r.w so that exactly capacity bytes of payload are available.
func (r *smRig) startPacket(capacity int) {
	r.w.reset(capacity + 128)
	r.w.start1RTTPacket(packetNumber(r.pnum), -1, []byte{1, 2, 3, 4, 5, 6, 7, 8})
	r.w.sent.reset()
	r.w.pktLim = len(r.w.b) + capacity
}

// finishPacket renders the frames written, remembers the sentPacket record and advances pnum.
func (r *smRig) finishPacket(o smOut) (string, bool) {
	pay := r.w.payload()
	var sb strings.Builder
	var sfs []smSentFrame
	for len(pay) > 0 {
		f, n := parseDebugFrame(pay)
		if n < 0 {
			return "", false
		}
		pay = pay[n:]
		switch f := f.(type) {
		case debugFrameStream:
			fmt.Fprintf(&sb, " stream %d %d %d %s", int64(f.id), f.off, smB(f.fin), vu.Hex(f.data))
			sfs = append(sfs, smSentFrame{int64(f.id), f.off, f.off + int64(len(f.data)), f.fin})
			r.oracleSentStream(o, int64(f.id), f.off, f.data, f.fin)
		case debugFrameMaxData:
			fmt.Fprintf(&sb, " maxdata %d", f.max)
			r.oracleSentMaxData(o, f.max)
		case debugFrameMaxStreamData:
			fmt.Fprintf(&sb, " maxsd %d %d", int64(f.id), f.max)
			r.oracleSentMaxStreamData(o, int64(f.id), f.max)
		case debugFrameResetStream:
			fmt.Fprintf(&sb, " reset %d %d %d", int64(f.id), f.code, f.finalSize)
			r.oracleSentReset(o, int64(f.id), f.finalSize)
		case debugFrameStopSending:
			fmt.Fprintf(&sb, " stop %d %d", int64(f.id), f.code)
		case debugFrameStreamDataBlocked:
			fmt.Fprintf(&sb, " blocked %d %d", int64(f.id), f.max)
		default:
			return "", false
		}
	}
	sent := &sentPacket{}
	*sent = *r.w.sent
	sent.b = append([]byte(nil), r.w.sent.b...)
	sent.num = packetNumber(r.pnum)
	r.pkts[r.pnum] = sent
	r.inflight[r.pnum] = sfs
	r.pnum++
	return sb.String(), true
}

// ---------------------------------------------------------------- exec

func smExec(ops []string, out *vu.Out, prop int) {
	var rig *smRig
	o := smOut{out}
	for _, op := range ops {
		res := vu.Catch(func() string { return smStep(&rig, op, o, prop) })
		out.Op(op, res)
	}
}

// smOut lets the generator's shadow run share smStep without an output.
type smOut struct{ o *vu.Out }

func (s smOut) Stat(k string) {
	if s.o != nil {
		s.o.Stat(k)
	}
}
func (s smOut) Fail(sig, d string) {
	if s.o != nil {
		s.o.Fail(sig, d)
	}
}

func smStep(rp **smRig, op string, o smOut, prop int) string {
	t := strings.Fields(op)
	if len(t) == 0 {
		return "bad-op"
	}
	if t[0] == "reset" && len(t) == 8 {
		var cfg [7]int64
		for i := range cfg {
			cfg[i] = vu.Atoi64(t[1+i])
			if cfg[i] < 1 || cfg[i] > 1<<40 {
				return "bad-op"
			}
		}
		*rp = smNewRig(cfg, prop)
		return "ok | " + (*rp).dumpConn()
	}
	r := *rp
	if r == nil {
		return "bad-op"
	}
	if r.dead {
		return "dead"
	}
	o.Stat("op:" + t[0])
	stream := func(i int) *Stream {
		if len(t) <= i {
			return nil
		}
		return r.streams[vu.Atoi64(t[i])]
	}
	tail := func(s *Stream) string {
		r.pump()
		r.oracleState(o, op)
		if s == nil {
			return " | " + r.dumpConn()
		}
		return " | " + r.dumpStream(s) + " | " + r.dumpConn()
	}
	afterFrame := func(s *Stream, n, want int) string {
		if n != want {
			return "err parse"
		}
		if code := r.errCode(); code != "" {
			r.dead = true
			o.Stat("err:" + code)
			return "err " + code
		}
		return "ok" + tail(s)
	}
	switch {
	case t[0] == "open" && len(t) == 2:
		id := vu.Atoi64(t[1])
		if !r.open(id) {
			return "bad-op"
		}
		return "ok" + tail(r.streams[id])

	case t[0] == "rstream" && len(t) == 5:
		s := stream(1)
		off, data, fin := vu.Atoi64(t[2]), vu.MustHex(t[3]), t[4] == "1"
		if s == nil || s.IsWriteOnly() || off < 0 {
			return "bad-op"
		}
		pay := smEncode(func(w *packetWriter) {
			b, _ := w.appendStreamFrame(s.id, off, len(data), fin)
			copy(b, data)
		})
		pre := r.preRecv(s)
		n := r.c.handleStreamFrame(r.now, appDataSpace, pay)
		res := afterFrame(s, n, len(pay))
		r.oracleRecv(o, s, pre, off+int64(len(data)), fin, false, res, op)
		return res
	case t[0] == "rreset" && len(t) == 4:
		s := stream(1)
		code, final := vu.Atou64(t[2]), vu.Atoi64(t[3])
		if s == nil || s.IsWriteOnly() || final < 0 {
			return "bad-op"
		}
		pay := smEncode(func(w *packetWriter) { w.appendResetStreamFrame(s.id, code, final) })
		pre := r.preRecv(s)
		n := r.c.handleResetStreamFrame(r.now, appDataSpace, pay)
		res := afterFrame(s, n, len(pay))
		r.oracleRecv(o, s, pre, final, true, true, res, op)
		return res
	case t[0] == "rstop" && len(t) == 3:
		s := stream(1)
		if s == nil || s.IsReadOnly() {
			return "bad-op"
		}
		code := vu.Atou64(t[2])
		pay := smEncode(func(w *packetWriter) { w.appendStopSendingFrame(s.id, code) })
		n := r.c.handleStopSendingFrame(r.now, appDataSpace, pay)
		r.resetCalled[int64(s.id)] = true
		return afterFrame(s, n, len(pay))
	case t[0] == "rmaxdata" && len(t) == 2:
		v := vu.Atoi64(t[1])
		if v < 0 {
			return "bad-op"
		}
		pay := smEncode(func(w *packetWriter) { w.appendMaxDataFrame(v) })
		n := r.c.handleMaxDataFrame(r.now, pay)
		if v > r.peerMaxData {
			r.peerMaxData = v
		}
		return afterFrame(nil, n, len(pay))
	case t[0] == "rmaxsd" && len(t) == 3:
		s := stream(1)
		v := vu.Atoi64(t[2])
		if s == nil || s.IsReadOnly() || v < 0 {
			return "bad-op"
		}
		pay := smEncode(func(w *packetWriter) { w.appendMaxStreamDataFrame(s.id, v) })
		n := r.c.handleMaxStreamDataFrame(r.now, pay)
		if v > r.peerMSD[int64(s.id)] {
			r.peerMSD[int64(s.id)] = v
		}
		return afterFrame(s, n, len(pay))

	case t[0] == "write" && len(t) == 3:
		s := stream(1)
		if s == nil {
			return "bad-op"
		}
		data := vu.MustHex(t[2])
		n, err := s.Write(data)
		r.written[int64(s.id)] += int64(n)
		var res string
		switch {
		case err == nil:
			res = fmt.Sprintf("ok %d", n)
		case err == canceledContext().Err():
			res = fmt.Sprintf("blocked %d", n)
			o.Stat("write:blocked")
		case s.IsReadOnly():
			res = "err readonly"
		default:
			res = fmt.Sprintf("closed %d", n)
		}
		return res + tail(s)
	case t[0] == "flush" && len(t) == 2:
		s := stream(1)
		if s == nil {
			return "bad-op"
		}
		err := s.Flush()
		return fmt.Sprintf("ok %d", smB(err == nil)) + tail(s)
	case t[0] == "read" && len(t) == 3:
		s := stream(1)
		n := vu.Atoi(t[2])
		if s == nil || n < 0 || n > 1<<20 {
			return "bad-op"
		}
		return r.doRead(o, s, n, op) + tail(s)
	case t[0] == "closeread" && len(t) == 2:
		s := stream(1)
		if s == nil {
			return "bad-op"
		}
		s.CloseRead()
		return "ok" + tail(s)
	case t[0] == "closewrite" && len(t) == 2:
		s := stream(1)
		if s == nil {
			return "bad-op"
		}
		s.CloseWrite()
		return "ok" + tail(s)
	case t[0] == "sreset" && len(t) == 3:
		s := stream(1)
		if s == nil {
			return "bad-op"
		}
		s.Reset(vu.Atou64(t[2]))
		if !s.IsReadOnly() {
			r.resetCalled[int64(s.id)] = true
		}
		return "ok" + tail(s)

	case t[0] == "send" && len(t) == 4:
		s := stream(1)
		capacity, pto := vu.Atoi(t[2]), t[3] == "1"
		if s == nil || capacity < 0 || capacity > 1<<16 {
			return "bad-op"
		}
		r.startPacket(capacity)
		pn := packetNumber(r.pnum)
		s.ingate.lock()
		ok := s.appendInFramesLocked(&r.w, pn, pto)
		s.inUnlock()
		if ok {
			s.outgate.lock()
			ok = s.appendOutFramesLocked(&r.w, pn, pto)
			s.outUnlock()
		}
		frames, good := r.finishPacket(o)
		if !good {
			return "err frames"
		}
		return fmt.Sprintf("ok %d %d%s", smB(ok), int64(pn), frames) + tail(s)
	case t[0] == "sendmd" && len(t) == 3:
		capacity, pto := vu.Atoi(t[1]), t[2] == "1"
		if capacity < 0 || capacity > 1<<16 {
			return "bad-op"
		}
		r.startPacket(capacity)
		pn := packetNumber(r.pnum)
		ok := r.c.appendMaxDataFrame(&r.w, pn, pto)
		frames, good := r.finishPacket(o)
		if !good {
			return "err frames"
		}
		return fmt.Sprintf("ok %d %d%s", smB(ok), int64(pn), frames) + tail(nil)
	case (t[0] == "ack" || t[0] == "lose") && len(t) == 2:
		pn := vu.Atoi64(t[1])
		sent := r.pkts[pn]
		if sent == nil {
			return "bad-op"
		}
		delete(r.pkts, pn)
		fate := packetAcked
		if t[0] == "lose" {
			fate = packetLost
		}
		r.c.handleAckOrLoss(appDataSpace, sent, fate)
		sfs := r.inflight[pn]
		delete(r.inflight, pn)
		r.pump()
		r.oracleFate(o, sfs, fate == packetLost, op)
		// all streams may have changed: dump every stream a record of the packet referred to
		var sb strings.Builder
		sb.WriteString("ok")
		for _, id := range r.ids {
			sb.WriteString(" | " + r.dumpStream(r.streams[id]))
		}
		r.oracleState(o, op)
		return sb.String() + " | " + r.dumpConn()
	}
	return "bad-op"
}

func (r *smRig) doRead(o smOut, s *Stream, n int, op string) string {
	id := int64(s.id)
	buf := make([]byte, n)
	k, err := s.Read(buf)
	var res string
	switch {
	case err == nil:
		res = "ok " + vu.Hex(buf[:k])
	case err.Error() == "EOF":
		res = "eof " + vu.Hex(buf[:k])
	case err == canceledContext().Err():
		res = "blocked"
	case s.IsWriteOnly():
		res = "err writeonly"
	case strings.HasPrefix(err.Error(), "stream reset by peer"):
		res = "err reset"
	default:
		res = "err closed"
	}
	// ---- oracle C19 / C32 (receive side)
	if r.prop == 19 || r.prop == 32 {
		for i := 0; i < k; i++ {
			if buf[i] != smByteIn(id, r.inData[id]+int64(i)) {
				o.Fail("", fmt.Sprintf("%s: Read on stream %d returned byte %#x at stream offset %d, peer sent %#x", op, id, buf[i], r.inData[id]+int64(i), smByteIn(id, r.inData[id]+int64(i))))
				break
			}
		}
		r.inData[id] += int64(k)
		if strings.HasPrefix(res, "eof") {
			r.sawEOF[id] = true
			if r.inFinal[id] < 0 || r.inData[id] != r.inFinal[id] {
				o.Fail("", fmt.Sprintf("%s: EOF on stream %d after %d bytes, final size %d", op, id, r.inData[id], r.inFinal[id]))
			}
			if r.inResetSeen[id] {
				o.Fail("", fmt.Sprintf("%s: Read on stream %d returned EOF after RESET_STREAM was received", op, id))
			}
		}
		if k > 0 && r.inData[id] > r.inHigh[id] {
			o.Fail("", fmt.Sprintf("%s: Read on stream %d returned %d bytes, peer sent only %d", op, id, r.inData[id], r.inHigh[id]))
		}
	}
	return res
}

// ---------------------------------------------------------------- oracles

type smPre struct {
	inclosed bool
	reset    bool
}

func (r *smRig) preRecv(s *Stream) smPre {
	return smPre{inclosed: s.inclosed.isSet(), reset: s.inresetcode != -1}
}

// oracleRecv states the receive-side halves of C20 and C32 on one STREAM/RESET_STREAM frame.
//
// Two views of the history are kept: the literal one (every frame the peer sent) and the
// recorded one (frames that arrived while the stream was neither read-closed nor reset; later
// frames are discarded by handleData before any bookkeeping).  A disagreement with the
// recorded view is an unexpected failure; a disagreement with the literal view only is the
// known leniency of the code as it is, reported under a narrow signature.
func (r *smRig) oracleRecv(o smOut, s *Stream, pre smPre, end int64, fin, isReset bool, res, op string) {
	id := int64(s.id)
	gotFlow := res == "err flow"
	gotFinal := res == "err finalsize"
	blind := pre.inclosed || pre.reset
	sum := func(high map[int64]int64, add bool) int64 {
		total := int64(0)
		for _, sid := range r.ids {
			h := high[sid]
			if sid == id && add && end > h {
				h = end
			}
			total += h
		}
		return total
	}
	contra := func(final, high int64) bool {
		return (final >= 0 && end > final) || (fin && final >= 0 && end != final) || (fin && end < high)
	}
	exceedStream := end > r.advMSD[id]
	// a RESET_STREAM is accounted even on a read-closed stream (handleReset has no early return for inclosed)
	recCounts := !blind || (isReset && !pre.reset)
	totalLit := sum(r.inHigh, true)
	totalRec := sum(r.inHighRec, recCounts)
	contraLit := contra(r.inFinal[id], r.inHigh[id])
	contraRec := contra(r.inFinalRec[id], r.inHighRec[id])
	if r.prop == 20 {
		switch {
		case exceedStream != gotFlow && !(gotFlow && totalRec > r.advMaxData) && !(exceedStream && gotFinal):
			o.Fail("", fmt.Sprintf("%s: stream end %d vs advertised MAX_STREAM_DATA %d gave %q", op, end, r.advMSD[id], res))
		case !exceedStream && !gotFinal && !contraRec && (totalRec > r.advMaxData) != gotFlow:
			o.Fail("", fmt.Sprintf("%s: recorded peer total %d vs advertised MAX_DATA %d gave %q", op, totalRec, r.advMaxData, res))
		case !exceedStream && !gotFlow && !gotFinal && totalLit > r.advMaxData:
			o.Fail("c20-closed-stream-bytes-not-counted", fmt.Sprintf("%s: the peer's highest offsets sum to %d > advertised MAX_DATA %d, no FLOW_CONTROL_ERROR (bytes arriving on a read-closed stream are dropped by handleData before handleStreamBytesReceived)", op, totalLit, r.advMaxData))
		}
	}
	if r.prop == 32 && !exceedStream && !gotFlow {
		switch {
		case contraRec != gotFinal:
			o.Fail("", fmt.Sprintf("%s: recorded final size %d / highest offset %d of stream %d, got %q", op, r.inFinalRec[id], r.inHighRec[id], id, res))
		case contraLit && !gotFinal:
			o.Fail("c32-final-size-not-tracked-after-closeread", fmt.Sprintf("%s: contradicts final size %d / highest offset %d the peer sent on stream %d, got %q (frames arriving after CloseRead are discarded before their offsets and FIN are recorded)", op, r.inFinal[id], r.inHigh[id], id, res))
		}
	}
	if strings.HasPrefix(res, "ok") {
		if end > r.inHigh[id] {
			r.inHigh[id] = end
		}
		if fin && r.inFinal[id] < 0 {
			r.inFinal[id] = end
		}
		if recCounts {
			if end > r.inHighRec[id] {
				r.inHighRec[id] = end
			}
			if fin && r.inFinalRec[id] < 0 {
				r.inFinalRec[id] = end
			}
		}
		if isReset {
			r.inResetSeen[id] = true
		}
	}
}

// oracleDangling: bytes parked in s.inbuf must stay backed by a chunk the stream still owns
// (a released chunk goes back to pipebufPool and is overwritten by its next user).
func (r *smRig) oracleDangling(o smOut, s *Stream, op string) {
	if len(s.inbuf) <= s.inbufoff {
		return
	}
	ib := s.inbuf[:cap(s.inbuf)]
	last := &ib[len(ib)-1]
	for pb := s.in.head; pb != nil; pb = pb.next {
		full := pb.b[:cap(pb.b)]
		if len(full) > 0 && &full[len(full)-1] == last {
			return // still owned
		}
	}
	o.Fail("", fmt.Sprintf("%s: %d unread bytes of stream %d parked in Stream.inbuf alias a pipebuf the stream no longer owns (recycled into pipebufPool); later fast-path Reads return whatever reuses the chunk", op, len(s.inbuf)-s.inbufoff, int64(s.id)))
}

func (r *smRig) oracleSentStream(o smOut, id, off int64, data []byte, fin bool) {
	end := off + int64(len(data))
	if r.prop == 19 {
		for i := range data {
			if data[i] != smByteOut(id, off+int64(i)) {
				o.Fail("", fmt.Sprintf("STREAM frame of stream %d carries %#x at offset %d, written byte was %#x", id, data[i], off+int64(i), smByteOut(id, off+int64(i))))
				break
			}
		}
		if end > r.written[id] {
			o.Fail("", fmt.Sprintf("STREAM frame of stream %d ends at %d, only %d bytes were written", id, end, r.written[id]))
		}
	}
	if r.prop == 20 {
		if end > r.peerMSD[id] {
			o.Fail("", fmt.Sprintf("STREAM frame of stream %d ends at %d, beyond the peer's MAX_STREAM_DATA %d", id, end, r.peerMSD[id]))
		}
	}
	if r.prop == 32 && r.resetCalled[id] {
		o.Fail("", fmt.Sprintf("STREAM frame [%d,%d) of stream %d emitted after the send side was reset", off, end, id))
	}
	if end > r.sentHigh[id] {
		r.sentHigh[id] = end
	}
	if r.prop == 20 {
		total := int64(0)
		for _, sid := range r.ids {
			total += r.sentHigh[sid]
		}
		if total > r.peerMaxData {
			o.Fail("", fmt.Sprintf("sum of highest offsets sent %d exceeds the peer's MAX_DATA %d", total, r.peerMaxData))
		}
	}
}

func (r *smRig) oracleSentMaxData(o smOut, v int64) {
	if r.prop == 20 && v < r.advMaxData {
		o.Fail("", fmt.Sprintf("MAX_DATA on the wire decreased: %d after %d", v, r.advMaxData))
	}
	if v > r.advMaxData {
		r.advMaxData = v
	}
}

func (r *smRig) oracleSentMaxStreamData(o smOut, id, v int64) {
	if r.prop == 20 && v < r.advMSD[id] {
		o.Fail("", fmt.Sprintf("MAX_STREAM_DATA of stream %d decreased: %d after %d", id, v, r.advMSD[id]))
	}
	if v > r.advMSD[id] {
		r.advMSD[id] = v
	}
}

func (r *smRig) oracleSentReset(o smOut, id, final int64) {
	if r.prop == 32 {
		if final != r.sentHigh[id] {
			o.Fail("", fmt.Sprintf("RESET_STREAM of stream %d has final size %d, highest offset sent is %d", id, final, r.sentHigh[id]))
		}
		if r.resetSent[id] >= 0 && r.resetSent[id] != final {
			o.Fail("", fmt.Sprintf("RESET_STREAM of stream %d changed its final size %d -> %d", id, r.resetSent[id], final))
		}
	}
	if r.resetSent[id] < 0 {
		r.resetSent[id] = final
	}
}

// oracleFate: a lost STREAM frame's bytes are acked or scheduled for retransmission (C19).
func (r *smRig) oracleFate(o smOut, sfs []smSentFrame, lost bool, op string) {
	if r.prop != 19 || !lost {
		return
	}
	for _, f := range sfs {
		s := r.streams[f.id]
		if s == nil || s.outreset.isSet() {
			continue
		}
		for x := f.off; x < f.end; x++ {
			if !s.outacked.contains(x) && !s.outunsent.contains(x) {
				o.Fail("", fmt.Sprintf("%s: byte %d of stream %d was lost and is neither acked nor scheduled for retransmission", op, x, f.id))
				return
			}
		}
	}
}

// oracleState: invariants of the real structs after every op.
func (r *smRig) oracleState(o smOut, op string) {
	of := &r.c.streams.outflow
	if r.prop == 19 || r.prop == 32 {
		for _, id := range r.ids {
			r.oracleDangling(o, r.streams[id], op)
		}
	}
	if r.prop == 20 {
		// connection-level credit conservation: what has been handed back to the peer (applied to the
		// next MAX_DATA or still pending) is the configured window plus, per stream, the bytes the
		// application consumed or holds in its fast-path buffer (the final size once the stream is reset).
		f := &r.c.streams.inflow
		want := r.c.config.maxConnReadBufferSize()
		for _, id := range r.ids {
			s := r.streams[id]
			if s.inresetcode != -1 {
				want += s.insize
			} else {
				want += s.in.start + int64(len(s.inbuf))
			}
		}
		if got := f.newLimit + f.credit.Load(); got != want {
			o.Fail("", fmt.Sprintf("%s: connection flow-control credit not conserved: newLimit+credit=%d, window + bytes consumed=%d", op, got, want))
		}
	}
	if r.prop == 20 {
		if of.used > of.max {
			o.Fail("", fmt.Sprintf("%s: connOutflow used=%d > max=%d", op, of.used, of.max))
		}
		total := int64(0)
		for _, id := range r.ids {
			s := r.streams[id]
			total += s.outmaxsent
			if !s.IsWriteOnly() && s.inwin != r.advMSD[id] {
				o.Fail("", fmt.Sprintf("%s: stream %d enforces receive window inwin=%d, the limit advertised to the peer (transport parameter / last MAX_STREAM_DATA) is %d", op, id, s.inwin, r.advMSD[id]))
			}
			if s.outwin > r.peerMSD[id] {
				o.Fail("", fmt.Sprintf("%s: stream %d send window outwin=%d exceeds the largest limit the peer granted for it (%d: transport parameter by stream type/initiator, or MAX_STREAM_DATA)", op, id, s.outwin, r.peerMSD[id]))
			}
			if s.outmaxsent > s.outwin {
				o.Fail("", fmt.Sprintf("%s: stream %d outmaxsent=%d > outwin=%d", op, id, s.outmaxsent, s.outwin))
			}
		}
		if total != of.used {
			o.Fail("", fmt.Sprintf("%s: connOutflow used=%d but streams sent %d", op, of.used, total))
		}
	}
	if r.prop == 19 {
		// every flushed, permitted byte is acked, unsent or in flight
		for _, id := range r.ids {
			s := r.streams[id]
			if s.outreset.isSet() || s.IsReadOnly() {
				continue
			}
			lim := min(s.outflushed, s.outwin)
			for x := int64(0); x < lim; x++ {
				if s.outacked.contains(x) || s.outunsent.contains(x) {
					continue
				}
				fl := false
				for _, sfs := range r.inflight {
					for _, f := range sfs {
						if f.id == id && f.off <= x && x < f.end {
							fl = true
						}
					}
				}
				if !fl {
					o.Fail("", fmt.Sprintf("%s: byte %d of stream %d is neither acked, unsent nor in flight", op, x, id))
					return
				}
			}
			// a FIN recorded as "sent in packet pn" must really be in flight in that packet,
			// otherwise its loss can never be noticed and the stream never ends for the peer
			if st := s.outclosed.state() >> 62; st == 2 {
				pn := int64(uint64(s.outclosed) & (1<<62 - 1))
				carried := false
				for _, f := range r.inflight[pn] {
					if f.id == id && f.fin {
						carried = true
					}
				}
				if !carried {
					o.Fail("", fmt.Sprintf("%s: stream %d records its FIN as sent in packet %d, but no in-flight STREAM frame of that packet carries the FIN bit", op, id, pn))
					return
				}
			}
			// Close would return nil only when everything is acknowledged
			if s.outclosed.isReceived() && s.outacked.isrange(0, s.out.end) {
				if s.out.end != r.written[id] {
					o.Fail("", fmt.Sprintf("%s: stream %d reports all data acked at %d, %d bytes were written", op, id, s.out.end, r.written[id]))
				}
			}
		}
	}
}

// ---------------------------------------------------------------- generator

var smCfgPool = []int64{1, 2, 7, 8, 16, 63, 64, 100, 128, 300, 1000, 1173, 1174, 1175, 4095, 4096, 4097, 5000, 9000, 20000}

// smGen builds a case while running it on a shadow rig, so that offsets and sizes can
// be aimed at the current windows, buffer ends and final sizes.
func smGen(r *vu.Rng, i int, prop int) []string {
	var cfg [7]int64
	for k := range cfg {
		cfg[k] = smCfgPool[r.Intn(len(smCfgPool))]
	}
	if r.Chance(1, 3) {
		// conn-level limits close to the stream-level ones so both bind
		cfg[2] = cfg[0] + int64(r.Intn(64))
		cfg[3] = cfg[5] + int64(r.Intn(64))
	}
	if r.Chance(1, 3) {
		// asymmetric per-type stream limits of the peer: small for streams it opens, larger for ours
		cfg[4] = int64(r.Range(1, 64))
		cfg[5] = cfg[4] + int64(r.Range(1, 3000))
		cfg[6] = int64(r.Range(1, 200))
	}
	line := "reset"
	for _, v := range cfg {
		line += fmt.Sprintf(" %d", v)
	}
	ops := []string{line}
	var rig *smRig
	o := smOut{}
	apply := func(op string) {
		ops = append(ops, op)
		vu.Catch(func() string { return smStep(&rig, op, o, 0) })
	}
	vu.Catch(func() string { return smStep(&rig, line, o, 0) })
	// streams: next number per kind
	next := [4]int64{0, 1, 2, 3}
	nstreams := r.Range(1, 4)
	for k := 0; k < nstreams; k++ {
		kind := r.Intn(4)
		if k == 0 {
			kind = r.Intn(2) // at least one bidirectional stream
		}
		apply(fmt.Sprintf("open %d", next[kind]))
		next[kind] += 4
	}
	nops := r.Range(10, 90)
	for k := 0; k < nops && !rig.dead; k++ {
		id := rig.ids[r.Intn(len(rig.ids))]
		s := rig.streams[id]
		canRecv := !s.IsWriteOnly()
		canSend := !s.IsReadOnly()
		x := r.Intn(100)
		// property-specific emphasis
		wReset, wBad := 4, 4
		if prop == 32 {
			wReset, wBad = 14, 10
		}
		if prop == 20 {
			wBad = 8
		}
		switch {
		case x < 22 && canRecv: // peer STREAM frame
			off, n, fin := smPickRecv(r, rig, s, x < wBad)
			data := make([]byte, n)
			for j := range data {
				data[j] = smByteIn(id, off+int64(j))
			}
			apply(fmt.Sprintf("rstream %d %d %s %d", id, off, vu.Hex(data), smB(fin)))
		case x < 22+wReset && canRecv: // peer RESET_STREAM
			final := smPickFinal(r, rig, s)
			apply(fmt.Sprintf("rreset %d %d %d", id, r.Intn(300), final))
		case x < 36 && canRecv:
			n := []int{0, 1, 2, 3, 10, 50, 100, 1000, 4095, 4096, 4097, 5000, 100000}[r.Intn(13)]
			apply(fmt.Sprintf("read %d %d", id, n))
		case x < 39 && canRecv:
			apply(fmt.Sprintf("closeread %d", id))
		case x < 55 && canSend: // write
			var n int
			switch r.Intn(6) {
			case 0:
				n = r.Intn(4)
			case 1:
				n = int(max(0, min(6000, s.outwin-s.out.end+int64(r.Range(-2, 2)))))
			case 2:
				n = int(max(0, min(6000, s.out.start+s.outmaxbuf-s.out.end+int64(r.Range(-2, 2)))))
			case 3:
				n = r.Range(1170, 1180)
			default:
				n = r.Intn(300)
			}
			base := rig.written[id]
			data := make([]byte, n)
			for j := range data {
				data[j] = smByteOut(id, base+int64(j))
			}
			apply(fmt.Sprintf("write %d %s", id, vu.Hex(data)))
		case x < 60 && canSend:
			apply(fmt.Sprintf("flush %d", id))
		case x < 63 && canSend:
			apply(fmt.Sprintf("closewrite %d", id))
		case x < 63+wReset/2 && canSend:
			if r.Bool() {
				apply(fmt.Sprintf("sreset %d %d", id, r.Intn(1000)))
			} else {
				apply(fmt.Sprintf("rstop %d %d", id, r.Intn(1000)))
			}
		case x < 78: // build a packet for this stream
			capacity := []int{0, 1, 2, 3, 4, 5, 8, 20, 64, 100, 300, 1200, 1200, 1200, 5000}[r.Intn(15)]
			apply(fmt.Sprintf("send %d %d %d", id, capacity, smB(r.Chance(1, 6))))
		case x < 81:
			apply(fmt.Sprintf("sendmd %d %d", []int{0, 1, 2, 3, 5, 9, 100}[r.Intn(7)], smB(r.Chance(1, 6))))
		case x < 92: // fate of a packet
			if len(rig.pkts) == 0 {
				continue
			}
			// pick the k-th smallest outstanding packet number (deterministic)
			var pns []int64
			for pn := int64(0); pn < rig.pnum; pn++ {
				if rig.pkts[pn] != nil {
					pns = append(pns, pn)
				}
			}
			pn := pns[r.Intn(len(pns))]
			if r.Chance(2, 5) {
				apply(fmt.Sprintf("lose %d", pn))
			} else {
				apply(fmt.Sprintf("ack %d", pn))
			}
		case x < 96 && canSend: // peer MAX_STREAM_DATA: stale, duplicate, growing
			var v int64
			switch r.Intn(4) {
			case 0:
				v = max(0, s.outwin-int64(r.Intn(10)))
			case 1:
				v = s.outwin
			default:
				v = s.outwin + int64([]int{1, 2, 10, 100, 1000, 5000}[r.Intn(6)])
			}
			apply(fmt.Sprintf("rmaxsd %d %d", id, v))
		default: // peer MAX_DATA
			of := &rig.c.streams.outflow
			var v int64
			switch r.Intn(4) {
			case 0:
				v = max(0, of.max-int64(r.Intn(10)))
			case 1:
				v = of.max
			default:
				v = of.max + int64([]int{1, 2, 10, 100, 1000, 5000}[r.Intn(6)])
			}
			apply(fmt.Sprintf("rmaxdata %d", v))
		}
	}
	// drain: deliver what is readable so that delivery oracles see complete streams
	if !rig.dead {
		for _, id := range rig.ids {
			if !rig.streams[id].IsWriteOnly() {
				apply(fmt.Sprintf("read %d 100000", id))
				apply(fmt.Sprintf("read %d 100000", id))
			}
		}
	}
	return ops
}

// smPickRecv chooses (off, len, fin) for a peer STREAM frame: mostly a legal slice
// (new data at the end, a duplicate, an overlap, a gap), sometimes a violation.
func smPickRecv(r *vu.Rng, rig *smRig, s *Stream, bad bool) (int64, int, bool) {
	id := int64(s.id)
	high := rig.inHigh[id]
	final := rig.inFinal[id]
	win := rig.advMSD[id] // the advertised limit, not the window the stream happens to enforce
	connLeft := rig.c.streams.inflow.sentLimit - rig.c.streams.inflow.usedLimit
	if bad {
		switch r.Intn(5) {
		case 0: // one past the stream window
			n := int64(r.Range(1, 20))
			return max(0, win+1-n), int(min(n, win+1)), false
		case 1: // past the connection window
			n := connLeft + 1
			if n > 0 && n < 8000 {
				return high, int(n), false
			}
		case 2: // beyond / different final size
			if final >= 0 {
				return final, r.Range(0, 3), r.Bool()
			}
			return max(0, high-int64(r.Range(1, 5))), 0, true // fin below data already sent
		case 3:
			if final >= 0 {
				return max(0, final-int64(r.Range(1, 3))), 0, true
			}
		}
	}
	var off int64
	var n int
	limit := win
	if final >= 0 {
		limit = final
	}
	if connLeft < limit-high {
		limit = high + max(0, connLeft)
	}
	chunkEdge := func() int64 { // an offset at a pipe chunk boundary (4096) -1 / 0 / +1, near what was received
		k := (high/4096 + int64(r.Intn(2))) * 4096
		return max(0, k+int64(r.Range(-1, 1)))
	}
	switch r.Intn(9) {
	case 6: // ends or starts exactly at / around a chunk boundary, in order
		off = high
		n = int(max(0, chunkEdge()-high))
	case 7: // out of order / overlapping piece straddling a chunk boundary
		off = max(0, chunkEdge()-int64(r.Intn(40)))
		n = r.Intn(80)
	case 8: // duplicate or overlap of about a chunk
		off = int64(r.Intn(int(high) + 1))
		n = []int{4095, 4096, 4097}[r.Intn(3)]
	case 0, 1: // in order
		off = high
		n = r.Intn(200)
	case 2: // duplicate / overlap
		off = int64(r.Intn(int(high) + 1))
		n = r.Intn(200)
	case 3: // gap
		off = high + int64(r.Intn(50))
		n = r.Intn(100)
	case 4: // up to the limit exactly
		off = high
		n = int(max(0, min(limit-high, 6000)))
	default: // large
		off = high
		n = r.Intn(5000)
	}
	if off > limit {
		off = limit
	}
	if off+int64(n) > limit {
		n = int(limit - off)
	}
	fin := false
	if final >= 0 {
		fin = off+int64(n) == final && r.Bool()
	} else if off+int64(n) >= high && r.Chance(1, 6) {
		fin = true
	}
	return off, n, fin
}

func smPickFinal(r *vu.Rng, rig *smRig, s *Stream) int64 {
	id := int64(s.id)
	high := rig.inHigh[id]
	final := rig.inFinal[id]
	switch r.Intn(6) {
	case 0:
		return max(0, high-int64(r.Range(1, 3))) // below data already received
	case 1:
		if final >= 0 {
			return final + int64(r.Range(-1, 1))
		}
		return rig.advMSD[int64(s.id)] + int64(r.Range(0, 1))
	default:
		if final >= 0 {
			return final
		}
		return min(rig.advMSD[int64(s.id)], high+int64(r.Intn(40)))
	}
}

