//go:build verif

// Whole-connection harness shared by C19 / C20 / C32 (tie "net").
//
// Two real Endpoints/Conns (client and server, real TLS handshake) talk through an
// in-memory packetConn pair inside a testing/synctest bubble, i.e. under the package's
// synthetic clock.  A single driver goroutine (a) hands datagrams over one at a time,
// deciding drop / duplicate / delay (hence reordering) from the case PRNG, with a
// loss-free network once the fault budget is used up (eventual delivery), (b) performs the
// scripted application calls (Write, Flush, Read, Close, CloseWrite, Reset, CloseRead)
// non-blockingly with cancelled contexts, and (c) advances the clock to the next network or
// connection timer.  What each endpoint puts on / takes off the wire is recorded through
// the conn's own qlog hook (packet_sent / packet_received with frame detail).
//
// Recorded lines: `scn ...` (the scenario, so a case can be replayed) and `ev ...`
// (wire/API events) for the Lean monitor (Model/QuicMonitor.lean); impl result is `ok`.
// Go-side oracle: bytes read = bytes written, in order; EOF exactly at the end of a
// cleanly closed stream; Close nil only after the peer holds all data and FIN; everything
// delivered once the network has quiesced; no progress => a result line, not a hang.
package quic

import (
	"context"
	"fmt"
	"log/slog"
	"net/netip"
	"os"
	"sort"
	"strings"
	"sync"
	"testing"
	"testing/synctest"
	"time"

	vu "golang.org/x/net/internal/verifutil"
)

var vnetT *testing.T
var vnetHung bool
var vnetDebug = os.Getenv("VNET_DEBUG") != ""

func TestVerifC19net(t *testing.T) { vnetMain(t, 19) }
func TestVerifC20net(t *testing.T) { vnetMain(t, 20) }
func TestVerifC32net(t *testing.T) { vnetMain(t, 32) }

func vnetMain(t *testing.T, prop int) {
	vnetT = t
	vu.Run(vu.ConfigFromEnv(), func(r *vu.Rng, i int) []string { return vnetGen(r, i, prop) },
		func(ops []string, o *vu.Out) { vnetExec(ops, o, prop) })
}

// ---------------------------------------------------------------- scenario

type vnetStreamPlan struct {
	side       int // opener / writer
	uni        bool
	total      int
	chunk      int
	flushMode  int    // 0 never, 1 after each write, 2 sometimes
	end        string // close | cw | reset | none
	resetAfter int
	readSize   int
	readerStop int // -1: read to the end; n: CloseRead after n bytes
}

type vnetScenario struct {
	seed                 uint64
	drop, dup, maxDelay  int
	faultDatagrams       int
	sr, sw, cr           [2]int64 // stream read / stream write / conn read buffer per side
	streams              []vnetStreamPlan
	hsdrop               bool // scripted: lose the client's Handshake-Finished datagram(s) and the
	drop1RTT             int  // next drop1RTT client datagrams (1-RTT data sent right behind it)
	holdRetx             int  // then hold this many client datagrams back until the one after them
	hsLoss               int  // and before that: lose the server's first hsLoss large datagrams (its handshake flight)
}

func vnetGen(r *vu.Rng, i int, prop int) []string {
	sizes := []int64{64, 300, 1000, 1500, 4096, 5000, 20000, 70000}
	pick := func() int64 { return sizes[r.Intn(len(sizes))] }
	drop := []int{0, 5, 10, 20, 35}[r.Intn(5)]
	dup := []int{0, 5, 15}[r.Intn(3)]
	delay := []int{0, 2, 20, 120}[r.Intn(4)]
	ops := []string{fmt.Sprintf("scn net %d %d %d %d %d %d %d %d %d %d %d", r.Uint64()>>1, drop, dup, delay, r.Range(30, 200),
		pick(), pick(), pick()*2, pick(), pick(), pick()*2)}
	// some cases script a lossy handshake instead: the server's first handshake flights are lost (the
	// client keeps probing, its PTO back-off grows), then the client's Finished and the 1-RTT data
	// sent right behind it are lost; afterwards the network is perfect and default timeouts apply
	scripted := r.Chance(1, 8)
	if scripted {
		ops = append(ops, fmt.Sprintf("scn hsdrop %d %d %d", r.Intn(6), r.Intn(3), r.Intn(4)))
	}
	n := r.Range(1, 5)
	for k := 0; k < n; k++ {
		total := []int{0, 1, 100, 1200, 3000, 9000, 30000}[r.Intn(7)]
		end := []string{"close", "close", "cw", "close"}[r.Intn(4)]
		resetAfter, readerStop := 0, -1
		x := r.Intn(100)
		wReset := 8
		if prop == 32 {
			wReset = 45
		}
		if x < wReset {
			end = "reset"
			resetAfter = r.Intn(total + 1)
		} else if x < wReset+wReset/2 {
			readerStop = r.Intn(total + 1)
		}
		typ := "u"
		if r.Chance(1, 3) {
			typ = "b"
		}
		// keep the number of API events per stream bounded (~150 writes / reads)
		chunk := max([]int{1, 50, 700, 1173, 1174, 4000, 10000}[r.Intn(7)], total/150)
		readSize := max([]int{1, 10, 512, 4096, 10000}[r.Intn(5)], total/150)
		side := r.Intn(2)
		if scripted {
			side = 0 // the server conn exists only after the delayed handshake
		}
		ops = append(ops, fmt.Sprintf("scn stream %d %s %d %d %d %s %d %d %d", side, typ, total,
			chunk, r.Intn(3), end, resetAfter, readSize, readerStop))
	}
	return ops
}

func vnetParse(ops []string) (sc vnetScenario, ok bool) {
	for _, op := range ops {
		t := strings.Fields(op)
		if len(t) < 2 || t[0] != "scn" {
			continue // recorded `ev` lines of a replayed file
		}
		switch {
		case t[1] == "net" && len(t) == 13:
			sc.seed = vu.Atou64(t[2])
			sc.drop, sc.dup, sc.maxDelay, sc.faultDatagrams = vu.Atoi(t[3]), vu.Atoi(t[4]), vu.Atoi(t[5]), vu.Atoi(t[6])
			for s := 0; s < 2; s++ {
				sc.sr[s], sc.sw[s], sc.cr[s] = vu.Atoi64(t[7+3*s]), vu.Atoi64(t[8+3*s]), vu.Atoi64(t[9+3*s])
			}
			ok = true
		case t[1] == "hsdrop" && (len(t) >= 3 && len(t) <= 5):
			sc.hsdrop, sc.drop1RTT = true, vu.Atoi(t[2])
			if len(t) >= 4 {
				sc.holdRetx = vu.Atoi(t[3])
			}
			if len(t) == 5 {
				sc.hsLoss = vu.Atoi(t[4])
			}
		case t[1] == "stream" && len(t) == 11:
			p := vnetStreamPlan{side: vu.Atoi(t[2]) & 1, uni: t[3] == "u", total: vu.Atoi(t[4]), chunk: max(1, vu.Atoi(t[5])),
				flushMode: vu.Atoi(t[6]), end: t[7], resetAfter: vu.Atoi(t[8]), readSize: max(1, vu.Atoi(t[9])), readerStop: vu.Atoi(t[10])}
			if p.total < 0 || p.total > 1<<20 {
				return sc, false
			}
			sc.streams = append(sc.streams, p)
		default:
			return sc, false
		}
	}
	if sc.hsdrop {
		// scripted handshake-loss cases run with the default idle / handshake timeouts, so the only faults
		// are the scripted ones: random loss on top could legitimately outlast the 30 s idle timeout
		sc.faultDatagrams = 0
	}
	return sc, ok
}

func vnetByte(id int64, off int) byte { return byte((off*37 + int(id)*19 + (off >> 9) + 5) & 0xff) }

// ---------------------------------------------------------------- fake network

type vnetWire struct {
	mu  sync.Mutex
	out [2][][]byte // datagrams written by side s, not yet picked up by the driver
}

type vnetPC struct {
	w      *vnetWire
	side   int
	addr   netip.AddrPort
	recvc  chan *datagram
	closed chan struct{}
	once   sync.Once
}

func (p *vnetPC) Close() error              { p.once.Do(func() { close(p.closed) }); return nil }
func (p *vnetPC) LocalAddr() netip.AddrPort { return p.addr }
func (p *vnetPC) Read(f func(*datagram)) {
	for {
		select {
		case d := <-p.recvc:
			f(d)
		case <-p.closed:
			return
		}
	}
}
func (p *vnetPC) Write(d datagram) error {
	p.w.mu.Lock()
	defer p.w.mu.Unlock()
	p.w.out[p.side] = append(p.w.out[p.side], append([]byte(nil), d.b...))
	return nil
}

// ---------------------------------------------------------------- qlog hook

type vnetLog struct {
	side int
	mu   *sync.Mutex
	buf  *[]string
}

func (h vnetLog) Enabled(context.Context, slog.Level) bool { return true }
func (h vnetLog) WithAttrs([]slog.Attr) slog.Handler       { return h }
func (h vnetLog) WithGroup(string) slog.Handler            { return h }
func (h vnetLog) Handle(_ context.Context, r slog.Record) error {
	var dir string
	switch r.Message {
	case "transport:packet_sent":
		dir = "tx"
	case "transport:packet_received":
		dir = "rx"
	default:
		if vnetDebug && h.side == 0 {
			fmt.Fprintf(os.Stderr, "dbg %d %s", h.side, r.Message)
			r.Attrs(func(a slog.Attr) bool { fmt.Fprintf(os.Stderr, " %v", a); return true })
			fmt.Fprintln(os.Stderr)
		}
		return nil
	}
	if vnetDebug && h.side == 0 {
		fmt.Fprintf(os.Stderr, "dbg %d %s %s", h.side, time.Now().Format("05.000"), dir)
		r.Attrs(func(a slog.Attr) bool {
			if a.Key == "header" {
				fmt.Fprintf(os.Stderr, " %v", a.Value)
			}
			if a.Key == "frames" {
				vals, _ := a.Value.Any().([]slog.Value)
				for _, v := range vals {
					fmt.Fprintf(os.Stderr, " {%v}", v.Any())
				}
			}
			return true
		})
		fmt.Fprintln(os.Stderr)
	}
	r.Attrs(func(a slog.Attr) bool {
		if a.Key != "frames" {
			return true
		}
		vals, _ := a.Value.Any().([]slog.Value)
		for _, v := range vals {
			var line string
			switch f := v.Any().(type) {
			case debugFrameStream:
				line = fmt.Sprintf("ev %s %d stream %d %d %d %d", dir, h.side, int64(f.id), f.off, len(f.data), smB(f.fin))
			case debugFrameMaxData:
				line = fmt.Sprintf("ev %s %d maxdata %d", dir, h.side, f.max)
			case debugFrameMaxStreamData:
				line = fmt.Sprintf("ev %s %d maxsd %d %d", dir, h.side, int64(f.id), f.max)
			case debugFrameResetStream:
				line = fmt.Sprintf("ev %s %d reset %d %d", dir, h.side, int64(f.id), f.finalSize)
			case debugFrameConnectionCloseTransport:
				if dir == "tx" {
					line = fmt.Sprintf("ev tx %d close %d", h.side, uint64(f.code))
				}
			}
			if line != "" {
				h.mu.Lock()
				*h.buf = append(*h.buf, line)
				h.mu.Unlock()
			}
		}
		return false
	})
	return nil
}

// ---------------------------------------------------------------- the run

type vnetFlight struct {
	to  int
	b   []byte
	due time.Time
	seq int
}

type vnetStream struct {
	plan      vnetStreamPlan
	id        int64
	w, r      *Stream // writer-side / reader-side handle
	wrote     int
	wdone     bool
	closing   bool
	read      int
	rdone     bool
	sawEOF    bool
	sawErr    bool
	closeOK   bool
	closeRead bool
	revDone   bool // bidirectional: the opener has seen the (empty) reverse direction end
}

type vnetResult struct {
	events []string
	fails  [][2]string
	stats  map[string]int
}

func vnetExec(ops []string, o *vu.Out, prop int) {
	sc, ok := vnetParse(ops)
	if !ok {
		for _, op := range ops {
			o.Op(op, "bad-op")
		}
		return
	}
	for _, op := range ops {
		if strings.HasPrefix(op, "scn ") {
			o.Op(op, "ok")
		}
	}
	if vnetHung {
		o.Op("ev begin", "skipped-after-hang")
		return
	}
	resc := make(chan *vnetResult, 1)
	go func() {
		res := &vnetResult{stats: map[string]int{}}
		defer func() {
			if e := recover(); e != nil {
				res.fails = append(res.fails, [2]string{"", fmt.Sprint("panic in harness/conn: ", e)})
			}
			resc <- res
		}()
		synctest.Test(vnetT, func(t *testing.T) { vnetRun(t, sc, prop, res) })
	}()
	var res *vnetResult
	select {
	case res = <-resc:
	case <-time.After(120 * time.Second): // wall-clock watchdog: a hang becomes a result line
		vnetHung = true
		o.Op("ev begin", "hang")
		o.Fail("net-hang", "case did not finish within 120 s of wall-clock time")
		return
	}
	for _, f := range res.fails {
		if f[0] == "net-no-progress" {
			vnetHung = true // the verdict is already a failure; later cases would each cost the full budget
		}
	}
	o.Op("ev begin", "ok")
	for _, e := range res.events {
		o.Op(e, "ok")
	}
	for _, f := range res.fails {
		o.Fail(f[0], f[1])
	}
	for k, v := range res.stats {
		o.StatN(k, v)
	}
}

func vnetRun(t *testing.T, sc vnetScenario, prop int, res *vnetResult) {
	rng := vu.NewRng(sc.seed)
	wire := &vnetWire{}
	var logMu sync.Mutex
	var logBuf [2][]string
	fail := func(sig, format string, a ...any) { res.fails = append(res.fails, [2]string{sig, fmt.Sprintf(format, a...)}) }
	ev := func(format string, a ...any) { res.events = append(res.events, fmt.Sprintf(format, a...)) }
	flush := func() {
		synctest.Wait()
		logMu.Lock()
		for s := 0; s < 2; s++ {
			res.events = append(res.events, logBuf[s]...)
			logBuf[s] = logBuf[s][:0]
		}
		logMu.Unlock()
	}

	addrs := [2]netip.AddrPort{netip.MustParseAddrPort("10.0.0.1:4433"), netip.MustParseAddrPort("10.0.0.2:443")}
	var pcs [2]*vnetPC
	var eps [2]*Endpoint
	var confs [2]*Config
	for s := 0; s < 2; s++ {
		side := clientSide
		if s == 1 {
			side = serverSide
		}
		pcs[s] = &vnetPC{w: wire, side: s, addr: addrs[s], recvc: make(chan *datagram), closed: make(chan struct{})}
		confs[s] = &Config{
			TLSConfig:                newTestTLSConfig(side),
			MaxStreamReadBufferSize:  sc.sr[s],
			MaxStreamWriteBufferSize: sc.sw[s],
			MaxConnReadBufferSize:    sc.cr[s],
			QLogLogger:               slog.New(vnetLog{side: s, mu: &logMu, buf: &logBuf[s]}),
			// PTO back-off under heavy loss may exceed the default idle timeout; the property is about
			// delivery once traffic gets through, so idle expiry is taken out of the picture.
			HandshakeTimeout: map[bool]time.Duration{false: 0, true: 2 * time.Minute}[sc.hsdrop],
			MaxIdleTimeout: map[bool]time.Duration{false: 6 * time.Hour, true: 0}[sc.hsdrop], // scripted handshake-loss cases keep the default
		}
		var lc *Config
		if s == 1 {
			lc = confs[s]
		}
		e, err := newEndpoint(pcs[s], lc, nil)
		if err != nil {
			fail("", "newEndpoint: %v", err)
			return
		}
		eps[s] = e
		ev("ev init %d %d %d", s, confs[s].maxConnReadBufferSize(), confs[s].maxStreamReadBufferSize())
	}
	var conns [2]*Conn
	defer func() {
		for s := 0; s < 2; s++ {
			if conns[s] != nil {
				conns[s].exit()
			}
		}
		for s := 0; s < 2; s++ {
			eps[s].Close(canceledContext())
		}
	}()

	// ---- network
	var flights []vnetFlight
	seq, faultsLeft := 0, 0
	dropNextClient, holdLeft := 0, 0
	dropServerLarge := sc.hsLoss
	var held [][]byte
	collect := func() {
		wire.mu.Lock()
		out := wire.out
		wire.out = [2][][]byte{}
		wire.mu.Unlock()
		now := time.Now()
		for s := 0; s < 2; s++ {
			for _, b := range out[s] {
				res.stats["net:datagrams"]++
				if s == 1 && dropServerLarge > 0 && len(b) >= 600 {
					dropServerLarge--
					res.stats["net:scripted-drop"]++
					continue
				}
				if s == 0 && dropNextClient > 0 {
					dropNextClient--
					res.stats["net:scripted-drop"]++
					continue
				}
				if s == 0 && holdLeft > 0 {
					holdLeft--
					held = append(held, b)
					res.stats["net:scripted-hold"]++
					continue
				}
				if s == 0 && len(held) > 0 {
					for _, hb := range held {
						flights = append(flights, vnetFlight{to: 1, b: hb, due: now.Add(time.Millisecond), seq: seq})
						seq++
					}
					held = nil
				}
				copies := 1
				delay := time.Duration(0)
				if faultsLeft > 0 {
					faultsLeft--
					if rng.Intn(100) < sc.drop {
						res.stats["net:dropped"]++
						continue
					}
					if rng.Intn(100) < sc.dup {
						res.stats["net:duplicated"]++
						copies = 2
					}
				}
				for c := 0; c < copies; c++ {
					if faultsLeft > 0 && sc.maxDelay > 0 {
						delay = time.Duration(rng.Intn(sc.maxDelay*1000+1)) * time.Microsecond
					}
					flights = append(flights, vnetFlight{to: 1 - s, b: b, due: now.Add(time.Millisecond + delay), seq: seq})
					seq++
				}
			}
		}
		sort.SliceStable(flights, func(i, j int) bool {
			if !flights[i].due.Equal(flights[j].due) {
				return flights[i].due.Before(flights[j].due)
			}
			return flights[i].seq < flights[j].seq
		})
	}
	deliverDue := func() {
		for len(flights) > 0 && !flights[0].due.After(time.Now()) {
			f := flights[0]
			flights = flights[1:]
			d := newDatagram()
			d.b = d.b[:len(f.b)]
			copy(d.b, f.b)
			d.peerAddr = addrs[1-f.to]
			d.localAddr = addrs[f.to]
			select {
			case pcs[f.to].recvc <- d:
			case <-pcs[f.to].closed:
			}
			flush()
			collect()
		}
	}
	nextTimer := func(c *Conn) time.Time {
		if c == nil {
			return time.Time{}
		}
		nextc := make(chan time.Time, 1)
		c.sendMsg(func(now, next time.Time, c *Conn) { nextc <- next })
		synctest.Wait()
		select {
		case tm := <-nextc:
			return tm
		default:
			return time.Time{}
		}
	}
	// advance moves the clock to the next network or connection event; false if there is none.
	advance := func() bool {
		var next time.Time
		if len(flights) > 0 {
			next = flights[0].due
		}
		for s := 0; s < 2; s++ {
			if tm := nextTimer(conns[s]); !tm.IsZero() && (next.IsZero() || tm.Before(next)) {
				next = tm
			}
		}
		if next.IsZero() {
			return false
		}
		d := time.Until(next)
		if d > time.Hour {
			return false // only the idle timer is left
		}
		if d > 0 {
			time.Sleep(d)
		}
		flush()
		collect()
		return true
	}

	// ---- handshake over a perfect network
	type dialRes struct {
		c   *Conn
		err error
	}
	dialc := make(chan dialRes, 1)
	go func() {
		c, err := eps[0].Dial(context.Background(), "udp", addrs[1].String(), confs[0])
		dialc <- dialRes{c, err}
	}()
	for i := 0; conns[0] == nil; i++ {
		flush()
		collect()
		deliverDue()
		select {
		case dr := <-dialc:
			if dr.err != nil {
				fail("", "Dial: %v", dr.err)
				return
			}
			conns[0] = dr.c
		default:
			if i > 40000 {
				fail("net-no-progress", "handshake did not complete")
				return
			}
			if len(flights) > 0 {
				time.Sleep(time.Until(flights[0].due))
			} else {
				time.Sleep(time.Millisecond)
			}
		}
	}
	if sc.hsdrop {
		// lose whatever the client has in flight towards the server right now (its Handshake Finished)
		kept := flights[:0]
		for _, f := range flights {
			if f.to == 1 {
				res.stats["net:scripted-drop"]++
				continue
			}
			kept = append(kept, f)
		}
		flights = kept
		res.stats[fmt.Sprintf("net:client-pto-backoff-after-handshake=%d", conns[0].loss.ptoBackoffCount)]++
		dropNextClient = sc.drop1RTT
		holdLeft = sc.holdRetx
	}
	for i := 0; !sc.hsdrop && conns[1] == nil && i < 2000; i++ {
		flush()
		collect()
		deliverDue()
		if c, err := eps[1].Accept(canceledContext()); err == nil {
			conns[1] = c
		} else if len(flights) > 0 {
			time.Sleep(time.Until(flights[0].due))
		} else {
			time.Sleep(time.Millisecond)
		}
	}
	if conns[1] == nil && !sc.hsdrop {
		fail("net-no-progress", "server never accepted the connection")
		return
	}
	// let the handshake settle (HANDSHAKE_DONE, acks)
	for i := 0; !sc.hsdrop && i < 50 && (len(flights) > 0 || i < 5); i++ {
		flush()
		collect()
		deliverDue()
		if len(flights) > 0 {
			time.Sleep(time.Until(flights[0].due))
		}
	}
	faultsLeft = sc.faultDatagrams

	// ---- open the streams
	var sts []*vnetStream
	byID := [2]map[int64]*vnetStream{{}, {}}
	for _, p := range sc.streams {
		var s *Stream
		var err error
		errc := make(chan error, 1)
		go func() {
			if p.uni {
				s, err = conns[p.side].NewSendOnlyStream(context.Background())
			} else {
				s, err = conns[p.side].NewStream(context.Background())
			}
			errc <- err
		}()
		flush()
		select {
		case err := <-errc:
			if err != nil {
				fail("", "NewStream: %v", err)
				return
			}
		default:
			fail("net-no-progress", "NewStream blocked")
			return
		}
		s.SetReadContext(canceledContext())
		s.SetWriteContext(canceledContext())
		if want := confs[p.side].maxStreamReadBufferSize(); prop == 20 && !p.uni && s.inwin != want {
			fail("", "locally opened stream %d enforces receive window %d, advertised initial_max_stream_data_bidi_local is %d", s.ID(), s.inwin, want)
		}
		st := &vnetStream{plan: p, id: s.ID(), w: s}
		sts = append(sts, st)
		byID[p.side][st.id] = st
	}

	// ---- main loop
	ctxErr := canceledContext().Err()
	allDone := func() bool {
		for _, st := range sts {
			if !st.wdone || !st.rdone || (!st.plan.uni && !st.revDone) {
				return false
			}
		}
		return true
	}
	idle := 0
	completed := false
	for step := 0; step < 8000; step++ {
		deliverDue()
		progress := false
		if conns[1] == nil {
			if c, err := eps[1].Accept(canceledContext()); err == nil {
				conns[1] = c
				progress = true
			}
		}
		// accept peer-initiated streams
		for s := 0; s < 2; s++ {
			for conns[s] != nil {
				as, err := conns[s].AcceptStream(canceledContext())
				if err != nil {
					break
				}
				st := byID[1-s][as.ID()]
				if st == nil {
					fail("", "side %d accepted unknown stream %d", s, as.ID())
					return
				}
				as.SetReadContext(canceledContext())
				as.SetWriteContext(canceledContext())
				if want := confs[s].maxStreamReadBufferSize(); prop == 20 && as.inbufoff == 0 && len(as.inbuf) == 0 && as.in.start == 0 && as.inwin != want {
					fail("", "accepted stream %d enforces receive window %d, advertised initial_max_stream_data is %d", as.ID(), as.inwin, want)
				}
				st.r = as
				if !st.plan.uni {
					ev("ev wclose %d %d", s, as.ID())
					as.CloseWrite() // the reverse direction of a bidirectional stream carries no data
				}
				progress = true
			}
		}
		for _, st := range sts {
			p := st.plan
			ws := p.side
			// ---- the opener drains the empty reverse direction of a bidirectional stream
			if !p.uni && !st.revDone {
				var b [16]byte
				if n, err := st.w.Read(b[:]); n > 0 {
					fail("", "stream %d: %d bytes on the reverse direction, none were written", st.id, n)
				} else if err != nil && err != ctxErr {
					st.revDone, progress = true, true
					if err.Error() == "EOF" {
						ev("ev eof %d %d", ws, st.id)
					}
				}
			}
			// ---- writer
			if !st.wdone {
				switch {
				case p.end == "reset" && st.wrote >= p.resetAfter && !st.closing:
					st.w.Reset(uint64(rng.Intn(1000)))
					st.closing, st.wdone, progress = true, true, true
					res.stats["api:reset"]++
				case st.wrote < p.total && !st.closing:
					n := min(p.chunk, p.total-st.wrote)
					if p.end == "reset" {
						n = min(n, max(1, p.resetAfter-st.wrote))
					}
					data := make([]byte, n)
					for i := range data {
						data[i] = vnetByte(st.id, st.wrote+i)
					}
					k, err := st.w.Write(data)
					if k > 0 {
						ev("ev write %d %d %s", ws, st.id, vu.Hex(data[:k]))
						st.wrote += k
						progress = true
					}
					if err != nil && err != ctxErr {
						if p.readerStop < 0 {
							fail("", "Write on stream %d: %v", st.id, err)
						}
						st.wdone, progress = true, true // the peer stopped reading: the send side was reset
					}
					if err == nil && (p.flushMode == 1 || (p.flushMode == 2 && rng.Chance(1, 3))) {
						st.w.Flush()
					}
				default:
					switch p.end {
					case "close":
						if !st.closing {
							ev("ev wclose %d %d", ws, st.id)
							st.closing, progress = true, true
							if !p.uni && !st.revDone {
								ev("ev closeread %d %d", ws, st.id) // Close = CloseRead + CloseWrite
								st.revDone = true
							}
						}
						err := st.w.Close()
						if err == nil {
							ev("ev closeok %d %d", ws, st.id)
							st.closeOK, st.wdone, progress = true, true, true
							res.stats["api:closeok"]++
							// ---- oracle: Close nil only once the peer has everything
							if st.r == nil || !st.r.inset.isrange(0, int64(p.total)) && p.total > 0 || st.r.insize != int64(p.total) {
								if !(st.r != nil && (st.closeRead || st.r.inresetcode != -1)) {
									fail("", "Close on stream %d returned nil before the peer held all %d bytes and FIN", st.id, p.total)
								}
							}
						} else if err != ctxErr {
							// "stream reset": the peer stopped reading
							st.wdone, progress = true, true
							if p.readerStop < 0 {
								fail("", "Close on stream %d: %v", st.id, err)
							}
						}
					case "cw":
						ev("ev wclose %d %d", ws, st.id)
						st.w.CloseWrite()
						st.closing, st.wdone, progress = true, true, true
					default:
						st.w.Flush()
						st.closing, st.wdone, progress = true, true, true
					}
				}
			}
			// ---- reader
			if st.r != nil && !st.rdone {
				rs := 1 - ws
				for k := 0; k < 4 && !st.rdone; k++ {
					if p.readerStop >= 0 && st.read >= p.readerStop {
						ev("ev closeread %d %d", rs, st.id)
						st.r.CloseRead()
						st.closeRead, st.rdone, progress = true, true, true
						res.stats["api:closeread"]++
						break
					}
					buf := make([]byte, p.readSize)
					n, err := st.r.Read(buf)
					if n > 0 {
						ev("ev read %d %d %s", rs, st.id, vu.Hex(buf[:n]))
						for i := 0; i < n; i++ {
							if buf[i] != vnetByte(st.id, st.read+i) {
								fail("", "stream %d: Read returned %#x at offset %d, written byte was %#x", st.id, buf[i], st.read+i, vnetByte(st.id, st.read+i))
								break
							}
						}
						st.read += n
						progress = true
						if st.read > st.wrote {
							fail("", "stream %d: %d bytes read, only %d written", st.id, st.read, st.wrote)
						}
					}
					if err == nil {
						continue
					}
					if err == ctxErr {
						break
					}
					st.rdone, progress = true, true
					if err.Error() == "EOF" {
						ev("ev eof %d %d", rs, st.id)
						st.sawEOF = true
						if !st.closing || p.end == "reset" || p.end == "none" || st.read != p.total {
							fail("", "stream %d: EOF after %d bytes (written %d of %d, end=%s)", st.id, st.read, st.wrote, p.total, p.end)
						}
					} else {
						ev("ev readerr %d %d", rs, st.id)
						st.sawErr = true
						if p.end != "reset" {
							fail("", "stream %d: Read failed with %v, stream was not reset", st.id, err)
						}
					}
				}
			}
			if p.end == "none" && st.r != nil && st.read == st.wrote && st.wdone {
				st.rdone = true // nothing more will come and no EOF is due
			}
			if p.end == "reset" && st.wdone && st.r == nil && step > 0 {
				// a stream reset before any frame left may never become visible to the peer as data;
				// the RESET_STREAM still opens it, so keep waiting for the reader handle.
			}
		}
		flush()
		collect()
		if allDone() {
			completed = true
			break
		}
		if progress || len(flights) > 0 && !flights[0].due.After(time.Now()) {
			idle = 0
			continue
		}
		if !advance() {
			idle++
			if idle > 3 {
				break
			}
		}
	}
	res.stats["net:cases"]++
	if completed {
		res.stats["net:completed"]++
		// let the last acknowledgements travel, then claim quiescence
		for i := 0; i < 20 && len(flights) > 0; i++ {
			time.Sleep(time.Until(flights[0].due))
			deliverDue()
		}
		ev("ev fin")
		for _, st := range sts {
			p := st.plan
			if (p.end == "close" || p.end == "cw") && p.readerStop < 0 && !(st.sawEOF && st.read == p.total) {
				fail("", "stream %d: closed after %d bytes but the reader got %d bytes, eof=%v", st.id, p.total, st.read, st.sawEOF)
			}
		}
	} else {
		var sb strings.Builder
		for _, st := range sts {
			fmt.Fprintf(&sb, " [id=%d wrote=%d/%d wdone=%v read=%d rdone=%v accepted=%v", st.id, st.wrote, st.plan.total, st.wdone, st.read, st.rdone, st.r != nil)
			w := st.w
			fmt.Fprintf(&sb, " W: out=%d,%d fl=%d win=%d ms=%d un=%s ak=%s bl=%s", w.out.start, w.out.end, w.outflushed, w.outwin, w.outmaxsent, smRS(w.outunsent), smRS(w.outacked), smSV(w.outblocked))
			fmt.Fprintf(&sb, " cl=%s op=%s rs=%s", smSV(w.outclosed), smSV(w.outopened), smSV(w.outreset))
			if r := st.r; r != nil {
				fmt.Fprintf(&sb, " R: in=%d,%d win=%d sm=%s set=%s ib=%d,%d", r.in.start, r.in.end, r.inwin, smSV(r.insendmax), smRS(r.inset), len(r.inbuf), r.inbufoff)
			}
			sb.WriteString("]")
		}
		for s := 0; s < 2; s++ {
			if conns[s] == nil {
				fmt.Fprintf(&sb, " conn%d: never established", s)
				continue
			}
			f := &conns[s].streams.inflow
			of := &conns[s].streams.outflow
			ls := &conns[s].loss
			sp := &ls.spaces[appDataSpace]
			fmt.Fprintf(&sb, " loss%d: size=%d start=%d maxAcked=%d lastAE=%d next=%d timer0=%v ptoExp=%v armed=%v hsConf=%v inflight=%d cwnd=%d;", s, sp.size, sp.start(), sp.maxAcked, sp.lastAckEliciting, sp.nextNum, ls.timer.IsZero(), ls.ptoExpired, ls.ptoTimerArmed, ls.handshakeConfirmed, ls.cc.bytesInFlight, ls.cc.congestionWindow)
			for i := 0; i < sp.size && i < 6; i++ {
				sent := sp.nth(i)
				fmt.Fprintf(&sb, " [pn=%d st=%d ae=%v]", sent.num, sent.state, sent.ackEliciting)
			}
			fmt.Fprintf(&sb, " conn%d: in u=%d s=%d n=%d c=%d sv=%s out max=%d used=%d state=%d flights=%d", s, f.usedLimit, f.sentLimit, f.newLimit, f.credit.Load(), smSV(f.sent), of.max, of.used, conns[s].lifetime.state, len(flights))
		}
		fail("net-no-progress", "no progress although the network is loss-free again:%s", sb.String())
	}
}
