//go:build verif

package quic
