//go:build verif

// C13 harness entry point: RFC 9218 scheduler (shares harness/C12/{export,gen}.go, injected into package http2).
package main

import (
	"golang.org/x/net/http2"
	vu "golang.org/x/net/internal/verifutil"
)

func main() { vu.Main(http2.VerifC13Gen, http2.VerifC13Exec) }
