//go:build verif

// White-box shims for the C30 harness: pipe is unexported.
package quic

import "sync"

var verifOrigPipebufNew = pipebufPool.New

var verifPipebufNew func() any

// VerifPipeConfig installs a fresh pipebuf pool, so that newPipebuf always
// returns a zeroed chunk. chunk == 0 keeps the New function of the source;
// any other value makes chunks of that length (pipe.go only ever uses
// len(pb.b)). It returns the chunk length in effect.
func VerifPipeConfig(chunk int) int {
	if chunk == 0 {
		verifPipebufNew = verifOrigPipebufNew
	} else {
		verifPipebufNew = func() any { return &pipebuf{b: make([]byte, chunk)} }
	}
	verifFreshPool()
	pb := newPipebuf()
	return len(pb.b)
}

func verifFreshPool() { pipebufPool = sync.Pool{New: verifPipebufNew} }

// VerifPipe wraps a pipe.
type VerifPipe struct{ P pipe }

func (v *VerifPipe) WriteAt(b []byte, off int64) { v.P.writeAt(b, off) }

// Read returns copies of the slices handed to the callback.
func (v *VerifPipe) Read(off int64, n int) [][]byte {
	var out [][]byte
	v.P.read(off, n, func(c []byte) error {
		out = append(out, append([]byte{}, c...))
		return nil
	})
	return out
}

func (v *VerifPipe) Copy(off int64, n int) []byte {
	b := make([]byte, n)
	v.P.copy(off, b)
	return b
}

func (v *VerifPipe) Peek(n int64) []byte { return append([]byte{}, v.P.peek(n)...) }

func (v *VerifPipe) AvailableLen() int { return len(v.P.availableBuffer()) }

// DiscardBefore also replaces the pool, so recycled (dirty) chunks are never reused.
func (v *VerifPipe) DiscardBefore(off int64) {
	defer verifFreshPool()
	v.P.discardBefore(off)
}

func (v *VerifPipe) Start() int64 { return v.P.start }
func (v *VerifPipe) End() int64   { return v.P.end }

// Chain reports the number of chunks and the offset of the head chunk.
func (v *VerifPipe) Chain() (n int, headOff int64, tailIsLast bool) {
	var last *pipebuf
	for pb := v.P.head; pb != nil; pb = pb.next {
		n++
		last = pb
	}
	if v.P.head != nil {
		headOff = v.P.head.off
	}
	return n, headOff, last == v.P.tail
}
