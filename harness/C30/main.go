//go:build verif

// C30 harness: quic pipe against a reference (offset -> byte map with a window).
package main

import (
	"fmt"
	"strconv"
	"strings"

	vu "golang.org/x/net/internal/verifutil"
	"golang.org/x/net/quic"
)

// srcChunk is the chunk length of the unmodified source (`reset 0`).
var srcChunk = int64(quic.VerifPipeConfig(0))

func nzBytes(r *vu.Rng, n int) []byte {
	b := make([]byte, n)
	for i := range b {
		b[i] = byte(1 + r.Intn(255))
	}
	return b
}

// gen tracks the window [start,end) itself (the specification is simple enough)
// so that most reads are inside it.
func gen(r *vu.Rng, i int) []string {
	var C int64
	cfg := 0
	if r.Chance(2, 5) {
		C = srcChunk
	} else {
		cfg = []int{1, 2, 3, 4, 8, 16}[r.Intn(6)]
		C = int64(cfg)
	}
	ops := []string{fmt.Sprintf("reset %d", cfg)}
	var start, end int64
	length := func() int64 {
		switch r.Intn(8) {
		case 0:
			return int64(r.Intn(3))
		case 1:
			return C + int64(r.Range(-1, 1))
		case 2:
			return 2*C + int64(r.Range(-1, 1))
		case 3:
			return int64(r.Intn(int(3*C) + 1))
		case 4:
			return C - int64(r.Intn(int(min(C, 4))))
		default:
			return int64(r.Intn(int(min(C, 40)) + 2))
		}
	}
	// a position, biased to chunk boundaries relative to the first chunk offset
	near := func(lo, hi int64) int64 {
		if hi < lo {
			hi = lo
		}
		v := lo + int64(r.Uint64()%uint64(hi-lo+1))
		if r.Chance(1, 3) {
			v = v/C*C + int64(r.Range(-1, 1))
		}
		return v
	}
	discard := func(off int64) {
		ops = append(ops, fmt.Sprintf("d %d", off))
		start = off
		end = max(end, off)
	}
	write := func(off, n int64) {
		if n < 0 {
			n = 0
		}
		ops = append(ops, fmt.Sprintf("w %d %s", off, vu.Hex(nzBytes(r, int(n)))))
		if off+n > end {
			end = off + n
		} else if off+n <= start {
			return
		}
	}
	switch r.Intn(6) {
	case 0:
		discard([]int64{C - 1, C, C + 1, 5*C + 3, 1 << 40, 1<<40 + C - 1}[r.Intn(6)])
	case 1:
		write(0, length())
		discard(near(0, end))
	}
	nops := r.Range(3, 12)
	for k := 0; k < nops; k++ {
		switch j := r.Intn(100); {
		case j < 22: // append at the end
			write(end, length())
		case j < 40: // anywhere around the window: overlaps, gaps, before start
			off := near(start-min(C, 3), end+2*C)
			write(off, length())
		case j < 52: // in-window read
			off := near(start, end)
			off = min(max(off, start), end)
			n := end - off
			if n > 0 && r.Bool() {
				n = int64(r.Uint64() % uint64(n+1))
			}
			ops = append(ops, fmt.Sprintf("r %d %d", off, n))
		case j < 62: // in-window copy
			off := near(start, end)
			off = min(max(off, start), end)
			n := end - off
			if n > 0 && r.Bool() {
				n = int64(r.Uint64() % uint64(n+1))
			}
			ops = append(ops, fmt.Sprintf("c %d %d", off, n))
		case j < 68: // reads that may leave the window on either side
			off := near(start-2, end+C)
			n := int64(r.Intn(int(2*C)+2)) - 1
			if r.Bool() {
				ops = append(ops, fmt.Sprintf("r %d %d", off, n))
			} else {
				ops = append(ops, fmt.Sprintf("c %d %d", off, max(n, 0)))
			}
		case j < 78:
			n := end - start
			switch r.Intn(6) {
			case 0:
				n = int64(r.Intn(int(n) + 1))
			case 1:
				n += int64(r.Intn(int(C) + 2))
			case 2:
				n = -1
			}
			ops = append(ops, fmt.Sprintf("p %d", n))
		case j < 93:
			switch q := r.Intn(20); {
			case q < 15:
				discard(min(max(near(start, end), start), end))
			case q < 19:
				discard(near(end, end+2*C))
			default:
				discard(near(start-C, start)) // backwards: out of contract
			}
		case j < 97:
			ops = append(ops, "a")
		default:
			ops = append(ops, "st")
		}
	}
	return ops
}

func shape(p *quic.VerifPipe) string {
	n, h, _ := p.Chain()
	hs := "-"
	if n > 0 {
		hs = strconv.FormatInt(h, 10)
	}
	return fmt.Sprintf("%d %d %d %s", p.Start(), p.End(), n, hs)
}

func exec(ops []string, o *vu.Out) {
	var p quic.VerifPipe
	ref := map[int64]byte{}
	var rs, re int64
	outOfContract := false
	fail := func(desc string) {
		if !outOfContract {
			o.Fail("", desc)
		}
	}
	// whole-window read-back against the reference
	checkWindow := func(op string) {
		if outOfContract {
			return
		}
		if p.Start() != rs || p.End() != re {
			fail(fmt.Sprintf("%s: window [%d,%d), reference [%d,%d)", op, p.Start(), p.End(), rs, re))
			return
		}
		if _, _, ok := p.Chain(); !ok {
			fail(op + ": tail is not the last chunk of the chain")
		}
		// a non-empty window can always be peeked into (the head chunk reaches beyond the window start)
		if re > rs {
			var pk []byte
			if res := vu.Catch(func() string { pk = p.Peek(1); return "ok" }); res != "ok" || len(pk) != 1 {
				fail(fmt.Sprintf("%s: peek(1) returned %d bytes (%s) although the window [%d,%d) is not empty", op, len(pk), res, rs, re))
			} else if w, ok := ref[rs]; ok && w != pk[0] {
				fail(fmt.Sprintf("%s: peek(1) = %#x, last written at %d is %#x", op, pk[0], rs, w))
			}
		}
		if re-rs > 1<<16 {
			return
		}
		var got []byte
		res := vu.Catch(func() string { got = p.Copy(rs, int(re-rs)); return "ok" })
		if res != "ok" {
			fail(fmt.Sprintf("%s: copy of the whole window [%d,%d) panicked", op, rs, re))
			return
		}
		for i, b := range got {
			if w, ok := ref[rs+int64(i)]; ok && w != b {
				fail(fmt.Sprintf("%s: offset %d holds %#x, last written %#x", op, rs+int64(i), b, w))
				return
			}
		}
	}
	checkBytes := func(op string, off int64, got []byte) {
		for i, b := range got {
			x := off + int64(i)
			if w, ok := ref[x]; ok && x >= rs && x < re && w != b {
				fail(fmt.Sprintf("%s: offset %d read as %#x, last written %#x", op, x, b, w))
				return
			}
		}
	}
	for _, op := range ops {
		t := strings.Fields(op)
		if len(t) == 0 {
			o.Op(op, "bad-op")
			continue
		}
		switch {
		case t[0] == "reset" && len(t) == 2:
			c := quic.VerifPipeConfig(vu.Atoi(t[1]))
			p = quic.VerifPipe{}
			ref = map[int64]byte{}
			rs, re, outOfContract = 0, 0, false
			o.Op(op, fmt.Sprintf("ok %d", c))
			if t[1] == "0" {
				o.Stat("chunk:source")
			} else {
				o.Stat("chunk:small")
			}
		case t[0] == "w" && len(t) == 3:
			off, b := vu.Atoi64(t[1]), vu.MustHex(t[2])
			res := vu.Catch(func() string { p.WriteAt(b, off); return "ok " + shape(&p) })
			o.Op(op, res)
			if res == "panic" {
				fail(op + " panicked")
				outOfContract = true
				continue
			}
			e := off + int64(len(b))
			switch {
			case e <= rs && e <= re:
				o.Stat("w:before-window")
			default:
				if e > re {
					if off > re {
						o.Stat("w:gap")
					} else {
						o.Stat("w:extend")
					}
					re = e
				} else {
					o.Stat("w:inside")
				}
				if off < rs {
					o.Stat("w:trimmed")
				}
				for i, v := range b {
					if x := off + int64(i); x >= rs {
						ref[x] = v
					}
				}
			}
			checkWindow(op)
		case (t[0] == "r" || t[0] == "c") && len(t) == 3:
			off, n := vu.Atoi64(t[1]), vu.Atoi(t[2])
			if t[0] == "c" && n < 0 {
				o.Op(op, "bad-op")
				continue
			}
			var flat []byte
			res := vu.Catch(func() string {
				if t[0] == "c" {
					flat = p.Copy(off, n)
					return "ok " + vu.Hex(flat)
				}
				cs := p.Read(off, n)
				lens := []string{}
				for _, c := range cs {
					flat = append(flat, c...)
					lens = append(lens, strconv.Itoa(len(c)))
					if len(c) == 0 {
						fail(op + ": callback got an empty slice")
					}
				}
				if len(lens) == 0 {
					lens = []string{"-"}
				}
				return "ok " + vu.Hex(flat) + " " + strings.Join(lens, ",")
			})
			o.Op(op, res)
			inWin := off >= rs && n >= 0 && off+int64(n) <= re
			switch {
			case inWin && res == "panic":
				fail(fmt.Sprintf("%s panicked although [%d,%d) is inside the window [%d,%d)", op, off, off+int64(n), rs, re))
			case inWin:
				o.Stat("read:in-window")
				if len(flat) != n {
					fail(fmt.Sprintf("%s returned %d bytes", op, len(flat)))
				}
				checkBytes(op, off, flat)
			case off < rs && res != "panic":
				fail(fmt.Sprintf("%s did not panic although it starts before the window start %d", op, rs))
			case res == "panic":
				o.Stat("read:out-of-window:panic")
			default:
				o.Stat("read:out-of-window:no-panic")
			}
		case t[0] == "p" && len(t) == 2:
			n := vu.Atoi64(t[1])
			var got []byte
			res := vu.Catch(func() string { got = p.Peek(n); return "ok " + vu.Hex(got) })
			o.Op(op, res)
			if res == "panic" {
				if n >= 0 {
					fail(op + " panicked")
				}
				continue
			}
			if int64(len(got)) > max(n, 0) {
				fail(fmt.Sprintf("%s returned %d bytes", op, len(got)))
			}
			checkBytes(op, rs, got)
			if len(got) == 0 && n > 0 && re > rs {
				o.Stat("peek:empty-with-data")
				fail(fmt.Sprintf("%s returned nothing although the window [%d,%d) is not empty", op, rs, re))
			} else if int64(len(got)) < min(n, re-rs) {
				o.Stat("peek:short")
			} else {
				o.Stat("peek:full")
			}
		case t[0] == "a" && len(t) == 1:
			o.Op(op, vu.Catch(func() string { return fmt.Sprintf("ok %d", p.AvailableLen()) }))
		case t[0] == "st" && len(t) == 1:
			o.Op(op, "ok "+shape(&p))
		case t[0] == "d" && len(t) == 2:
			off := vu.Atoi64(t[1])
			if off < rs {
				outOfContract = true
				o.Stat("out-of-contract:backward-discard")
			} else if off > re {
				o.Stat("d:past-end")
			} else {
				o.Stat("d:in-window")
			}
			res := vu.Catch(func() string { p.DiscardBefore(off); return "ok " + shape(&p) })
			o.Op(op, res)
			if res == "panic" {
				fail(op + " panicked")
			}
			rs = off
			re = max(re, off)
			checkWindow(op)
		default:
			o.Op(op, "bad-op")
		}
	}
}

func main() { vu.Main(gen, exec) }
