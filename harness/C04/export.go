//go:build verif

package hpack

import "bytes"

// VerifHuffmanDecodeMax exposes huffmanDecode(buf, maxLen, v) on a fresh buffer.
func VerifHuffmanDecodeMax(maxLen int, v []byte) ([]byte, error) {
	var buf bytes.Buffer
	err := huffmanDecode(&buf, maxLen, v)
	return buf.Bytes(), err
}

// VerifHuffmanCode returns the (code, length) table entry of a symbol.
func VerifHuffmanCode(sym byte) (uint32, uint8) { return huffmanCodes[sym], huffmanCodeLen[sym] }
