//go:build verif

package hpack

import (
	"bytes"
	"sync"
)

// VerifHuffmanDecodeMax exposes huffmanDecode(buf, maxLen, v) on a fresh buffer.
func VerifHuffmanDecodeMax(maxLen int, v []byte) ([]byte, error) {
	var buf bytes.Buffer
	err := huffmanDecode(&buf, maxLen, v)
	return buf.Bytes(), err
}

// VerifHuffmanCode returns the (code, length) table entry of a symbol.
func VerifHuffmanCode(sym byte) (uint32, uint8) { return huffmanCodes[sym], huffmanCodeLen[sym] }

// VerifResetHuffmanRoot puts the lazily built decode tree back into its initial (not yet built)
// state, so that the next decodes are "first use" again. Only call while no decode is running.
func VerifResetHuffmanRoot() {
	buildRootOnce = sync.Once{}
	lazyRootHuffmanNode = nil
}
