//go:build verif

// C04 harness: http2/hpack Huffman coding (AppendHuffmanString, HuffmanEncodeLength,
// HuffmanDecode, huffmanDecode with a length limit).
package main

import (
	"bytes"
	"fmt"
	"strings"
	"sync"

	"golang.org/x/net/http2/hpack"
	vu "golang.org/x/net/internal/verifutil"
)

// symbol pools: short codes (5-8 bits), medium, the long tail (19-30 bits).
var shortSyms = []byte("012aceiost %-./3456789=A_bdfghlmnpru")
var longSyms = []byte{0, 1, 2, 9, 10, 13, 22, 127, 128, 192, 200, 249, 254, 255, 11, 12, 14, 30, 31, 92, 195, 208, 203, 204, 211, 212, 214, 221, 222, 223, 241, 244, 245, 246, 247, 248, 250, 251, 252, 253}

func genString(r *vu.Rng) []byte {
	n := r.Intn(12)
	switch r.Intn(8) {
	case 0:
		n = r.Intn(3)
	case 1:
		n = r.Range(10, 70)
	}
	b := make([]byte, n)
	mode := r.Intn(4)
	for i := range b {
		switch {
		case mode == 0:
			b[i] = shortSyms[r.Intn(len(shortSyms))]
		case mode == 1:
			b[i] = longSyms[r.Intn(len(longSyms))]
		case mode == 2 && r.Bool():
			b[i] = shortSyms[r.Intn(len(shortSyms))]
		default:
			b[i] = byte(r.Uint64())
		}
	}
	return b
}

// genEncoded: a valid encoding, possibly mutated (truncation, bit flip, extra padding bytes,
// EOS inside, zero bits in the padding).
func genEncoded(r *vu.Rng) []byte {
	switch r.Intn(10) {
	case 0:
		return r.Bytes(r.Intn(9))
	case 1:
		// all-ones runs around the EOS length
		n := r.Range(0, 6)
		b := bytes.Repeat([]byte{0xff}, n)
		if r.Bool() {
			b = append(b, []byte{0xfe, 0xfc, 0xf8, 0xf0, 0xe0, 0xc0, 0x80, 0x7f, 0x3f}[r.Intn(9)])
		}
		return b
	}
	v := hpack.AppendHuffmanString(nil, string(genString(r)))
	switch r.Intn(8) {
	case 0:
		if len(v) > 0 {
			v = v[:r.Intn(len(v))]
		}
	case 1:
		if len(v) > 0 {
			i := r.Intn(len(v))
			v[i] ^= 1 << uint(r.Intn(8))
		}
	case 2:
		v = append(v, bytes.Repeat([]byte{0xff}, r.Range(1, 4))...)
	case 3:
		if len(v) > 0 {
			v[len(v)-1] &^= 1 << uint(r.Intn(3)) // a zero bit near the end: non-EOS padding (or another symbol)
		}
	case 4:
		v = append(v, r.Bytes(r.Range(1, 3))...)
	}
	return v
}

func gen(r *vu.Rng, i int) []string {
	if i == 256 || i == 257 || (i > 257 && i%6000 == 0) {
		// concurrent FIRST use of the lazily initialised decode tree
		return []string{fmt.Sprintf("race %d %d %d", []int{8, 4, 16}[i%3], 250, r.Uint64()%1000000)}
	}
	if i < 256 {
		// every single byte once: pins each table entry to the RFC 7541 code
		s := vu.Hex([]byte{byte(i)})
		return []string{"enc " + s, "encspec " + s, "len " + s}
	}
	switch r.Intn(10) {
	case 0, 1, 2:
		s := vu.Hex(genString(r))
		return []string{"enc " + s, "encspec " + s, "len " + s}
	case 3:
		// exhaustive-ish small strings: index-driven 1-2 byte strings
		k := i % 65536
		b := []byte{byte(k >> 8), byte(k)}
		if r.Chance(1, 4) {
			b = b[1:]
		}
		s := vu.Hex(b)
		return []string{"enc " + s, "encspec " + s, "len " + s}
	case 4, 5, 6, 7:
		v := vu.Hex(genEncoded(r))
		return []string{"dec " + v, "decspec " + v}
	default:
		s := genString(r)
		v := genEncoded(r)
		if r.Bool() {
			v = hpack.AppendHuffmanString(nil, string(s))
		}
		m := r.Intn(len(s) + 3)
		return []string{fmt.Sprintf("decmax %d %s", m, vu.Hex(v)), fmt.Sprintf("decmaxspec %d %s", m, vu.Hex(v))}
	}
}

func errTag(err error) string {
	switch err {
	case hpack.ErrInvalidHuffman:
		return "err Invalid"
	case hpack.ErrStringLength:
		return "err StringLength"
	}
	return "err Other"
}

func exec(ops []string, o *vu.Out) {
	for _, op := range ops {
		t := strings.Fields(op)
		if len(t) < 2 {
			o.Op(op, "bad-op")
			continue
		}
		o.Stat("op:" + t[0])
		switch {
		case (t[0] == "enc" || t[0] == "encspec") && len(t) == 2:
			s := vu.MustHex(t[1])
			res := vu.Catch(func() string { return "ok " + vu.Hex(hpack.AppendHuffmanString(nil, string(s))) })
			o.Op(op, res)
			if t[0] == "enc" {
				oracleEncode(s, res, o)
			}
		case t[0] == "len" && len(t) == 2:
			s := vu.MustHex(t[1])
			o.Op(op, vu.Catch(func() string { return fmt.Sprintf("ok %d", hpack.HuffmanEncodeLength(string(s))) }))
		case (t[0] == "dec" || t[0] == "decspec") && len(t) == 2:
			v := vu.MustHex(t[1])
			res := vu.Catch(func() string {
				var w bytes.Buffer
				n, err := hpack.HuffmanDecode(&w, v)
				if err != nil {
					return errTag(err)
				}
				if n != w.Len() {
					o.Fail("", fmt.Sprintf("HuffmanDecode(%x) reports n=%d, wrote %d", v, n, w.Len()))
				}
				return "ok " + vu.Hex(w.Bytes())
			})
			o.Op(op, res)
			if t[0] == "dec" {
				o.Stat("dec:" + strings.Fields(res)[0])
				oracleDecode(v, res, o)
			}
		case (t[0] == "decmax" || t[0] == "decmaxspec") && len(t) == 3:
			m := vu.Atoi(t[1])
			v := vu.MustHex(t[2])
			res := vu.Catch(func() string {
				s, err := hpack.VerifHuffmanDecodeMax(m, v)
				if err != nil {
					return errTag(err)
				}
				if m != 0 && len(s) > m {
					o.Fail("", fmt.Sprintf("huffmanDecode(maxLen=%d, %x) produced %d bytes", m, v, len(s)))
				}
				return "ok " + vu.Hex(s)
			})
			o.Op(op, res)
			o.Stat("decmax:" + strings.Join(strings.Fields(res)[:1], ""))
		case t[0] == "race" && len(t) == 4:
			k, trials, seed := vu.Atoi(t[1]), vu.Atoi(t[2]), uint64(vu.Atoi(t[3]))
			if k < 1 || k > 64 || trials < 1 || trials > 100000 {
				o.Op(op, "bad-op")
				continue
			}
			bad, first := raceFirstUse(k, trials, seed)
			if bad > 0 {
				o.Fail("", fmt.Sprintf("concurrent first use of the decode tree: %d of %d decodes of a valid canonical encoding failed (%s)", bad, k*trials, first))
				o.Op(op, fmt.Sprintf("err %d", bad))
			} else {
				o.Op(op, "ok")
			}
		default:
			o.Op(op, "bad-op")
		}
	}
}

// raceFirstUse: trials times, put the package's lazy decode tree back to "not built" and let k
// goroutines decode canonical encodings at once from a start barrier. Every decode(encode(s)) must be s.
func raceFirstUse(k, trials int, seed uint64) (bad int, first string) {
	r := vu.NewRng(seed)
	type job struct{ s, enc []byte }
	jobs := make([]job, k)
	for i := range jobs {
		s := genString(r)
		if len(s) == 0 {
			s = []byte("www.example.com")
		}
		jobs[i] = job{s, rfcEncode(s)}
	}
	var mu sync.Mutex
	for t := 0; t < trials; t++ {
		hpack.VerifResetHuffmanRoot()
		start := make(chan struct{})
		var wg sync.WaitGroup
		for i := 0; i < k; i++ {
			wg.Add(1)
			go func(j job) {
				defer wg.Done()
				<-start
				got, err := hpack.HuffmanDecodeToString(j.enc)
				if err != nil || got != string(j.s) {
					mu.Lock()
					bad++
					if first == "" {
						first = fmt.Sprintf("HuffmanDecode(%x) = %x, %v; want %x", j.enc, got, err, j.s)
					}
					mu.Unlock()
				}
			}(jobs[i])
		}
		close(start)
		wg.Wait()
	}
	return bad, first
}

// refEncode is a naive bit-by-bit reference encoder built from the table entries.
func refEncode(s []byte) []byte {
	var bits []byte
	for _, c := range s {
		code, n := hpack.VerifHuffmanCode(c)
		for k := int(n) - 1; k >= 0; k-- {
			bits = append(bits, byte(code>>uint(k))&1)
		}
	}
	for len(bits)%8 != 0 {
		bits = append(bits, 1)
	}
	out := make([]byte, len(bits)/8)
	for i, b := range bits {
		out[i/8] |= b << uint(7-i%8)
	}
	return out
}

// rfcEncode encodes s bit by bit with the RFC 7541 Appendix B table of rfc_table.go
// (independent of package hpack's tables).
func rfcEncode(s []byte) []byte {
	var bits []byte
	for _, c := range s {
		code, n := rfcCodes[c], rfcLens[c]
		for k := int(n) - 1; k >= 0; k-- {
			bits = append(bits, byte(code>>uint(k))&1)
		}
	}
	for len(bits)%8 != 0 {
		bits = append(bits, 1)
	}
	out := make([]byte, len(bits)/8)
	for i, b := range bits {
		out[i/8] |= b << uint(7-i%8)
	}
	return out
}

// oracleEncode: C04 encode direction, stated directly on the implementation.
func oracleEncode(s []byte, res string, o *vu.Out) {
	if res == "panic" {
		o.Fail("", fmt.Sprintf("AppendHuffmanString(%x) panicked", s))
		return
	}
	enc := hpack.AppendHuffmanString(nil, string(s))
	if want := refEncode(s); !bytes.Equal(enc, want) {
		o.Fail("", fmt.Sprintf("AppendHuffmanString(%x)=%x, bit-by-bit reference %x", s, enc, want))
	}
	// canonical = the RFC 7541 code, not merely a self-consistent one
	rfc := rfcEncode(s)
	if !bytes.Equal(enc, rfc) {
		o.Fail("", fmt.Sprintf("AppendHuffmanString(%x)=%x is not the RFC 7541 Appendix B encoding %x", s, enc, rfc))
	}
	if got, err := hpack.HuffmanDecodeToString(rfc); err != nil || got != string(s) {
		o.Fail("", fmt.Sprintf("HuffmanDecode of the RFC 7541 encoding %x of %x = %x, %v", rfc, s, got, err))
	}
	if n := hpack.HuffmanEncodeLength(string(s)); n != uint64(len(enc)) {
		o.Fail("", fmt.Sprintf("HuffmanEncodeLength(%x)=%d but encoding has %d bytes", s, n, len(enc)))
	}
	got, err := hpack.HuffmanDecodeToString(enc)
	if err != nil || got != string(s) {
		o.Fail("", fmt.Sprintf("HuffmanDecode(AppendHuffmanString(%x)) = %x, %v", s, got, err))
	}
	// prefix dst is preserved
	if pre := hpack.AppendHuffmanString([]byte{0xaa, 0x55}, string(s)); !bytes.Equal(pre, append([]byte{0xaa, 0x55}, enc...)) {
		o.Fail("", fmt.Sprintf("AppendHuffmanString(dst, %x) does not extend dst", s))
	}
	// one more all-ones byte is over-long padding
	if _, err := hpack.HuffmanDecodeToString(append(append([]byte{}, enc...), 0xff)); err == nil {
		o.Fail("", fmt.Sprintf("over-long padding accepted after encoding of %x", s))
	}
}

// oracleDecode: C04 decode direction: whatever is accepted is the canonical encoding of the output.
func oracleDecode(v []byte, res string, o *vu.Out) {
	if res == "panic" {
		o.Fail("", fmt.Sprintf("HuffmanDecode(%x) panicked", v))
		return
	}
	s, err := hpack.HuffmanDecodeToString(v)
	if err != nil {
		return
	}
	if enc := hpack.AppendHuffmanString(nil, s); !bytes.Equal(enc, v) {
		o.Fail("", fmt.Sprintf("HuffmanDecode accepted %x as %x whose canonical encoding is %x", v, s, enc))
	}
	if enc := refEncode([]byte(s)); !bytes.Equal(enc, v) {
		o.Fail("", fmt.Sprintf("HuffmanDecode accepted %x as %x whose reference encoding is %x", v, s, enc))
	}
}

func main() { vu.Main(gen, exec) }
