//go:build verif

// C35 harness: HTTP/3 stream framing (stream.go, settings.go, body.go, conn.go) driven with
// arbitrary and mutated bytes through real *quic.Stream pairs of the package's test rig.
package http3

import (
	"bytes"
	"context"
	"fmt"
	"io"
	"net/http"
	"strings"
	"testing"
	"testing/synctest"

	"golang.org/x/net/internal/quic/quicwire"
	vu "golang.org/x/net/internal/verifutil"
	"golang.org/x/net/quic"
)

type c35Rig struct {
	t      *testing.T
	c1, c2 *quic.Conn
}

func newC35Rig(t *testing.T) *c35Rig {
	config := &quic.Config{TLSConfig: testTLSConfig}
	e1, e2 := newQUICEndpointPair(t)
	c1, err := e1.Dial(context.Background(), "udp", e2.LocalAddr().String(), config)
	if err != nil {
		t.Fatal(err)
	}
	c2, err := e2.Accept(context.Background())
	if err != nil {
		t.Fatal(err)
	}
	return &c35Rig{t: t, c1: c1, c2: c2}
}

// open delivers data followed by FIN on a fresh bidirectional QUIC stream and returns the
// receiving side once every byte has arrived, plus a cleanup function.
func (r *c35Rig) open(data []byte) (*stream, func()) {
	s1, err := r.c1.NewStream(context.Background())
	if err != nil {
		r.t.Fatal(err)
	}
	s1.Write(data)
	s1.CloseWrite()
	s2, err := r.c2.AcceptStream(context.Background())
	if err != nil {
		r.t.Fatal(err)
	}
	synctest.Wait()
	return newStream(s2), func() {
		s2.CloseRead()
		s2.CloseWrite()
		s1.CloseRead()
	}
}

func c35ErrTag(err error) string {
	switch e := err.(type) {
	case nil:
		return "nil"
	case http3Error:
		return fmt.Sprintf("h3:%d", int(e))
	case *connectionError:
		return fmt.Sprintf("conn:%d", int(e.code))
	case *streamError:
		return fmt.Sprintf("strm:%d", int(e.code))
	}
	if err == io.EOF {
		return "eof"
	}
	return "other"
}

func c35ErrCode(err error) int {
	switch e := err.(type) {
	case http3Error:
		return int(e)
	case *connectionError:
		return int(e.code)
	case *streamError:
		return int(e.code)
	}
	return -1
}

func c35State(st *stream) string {
	d := 0
	if st.stream == nil {
		d = 1
	}
	return fmt.Sprintf("lim=%d dead=%d", st.lim, d)
}

// ---------------------------------------------------------------- conn.go rig

// c35Handler records what genericConn does; control/push/encoder/decoder streams go to the
// real serverConn methods, request streams to reqHandler.
type c35Handler struct {
	sc      serverConn
	aborted error
	didAb   bool
	req     func(st *stream) error
	herr    error
}

func (h *c35Handler) handleControlStream(st *stream) error { return h.sc.handleControlStream(st) }
func (h *c35Handler) handlePushStream(st *stream) error    { return h.sc.handlePushStream(st) }
func (h *c35Handler) handleEncoderStream(st *stream) error { return h.sc.handleEncoderStream(st) }
func (h *c35Handler) handleDecoderStream(st *stream) error { return h.sc.handleDecoderStream(st) }
func (h *c35Handler) handleRequestStream(st *stream) error {
	h.herr = h.req(st)
	return h.herr
}
func (h *c35Handler) abort(err error) { h.aborted, h.didAb = err, true }

// c35ConnResult observes the effect of handleStreamError on a bidirectional stream: whether the
// connection was aborted, or the stream reset (visible to the peer as a reset code) or closed.
func c35ConnResult(h *c35Handler, err error) string {
	if h.didAb {
		return fmt.Sprintf("abort:%d", c35ErrCode(h.aborted))
	}
	switch e := err.(type) {
	case nil:
		return "closed"
	case *streamError:
		return fmt.Sprintf("reset:%d", int(e.code))
	default:
		_ = e
		return fmt.Sprintf("reset:%d", int(errH3InternalError))
	}
}

// ---------------------------------------------------------------- generator

func c35Varint(v uint64) []byte { return quicwire.AppendVarint(nil, v) }

func c35NonMinimalVarint(r *vu.Rng, v uint64) []byte {
	b := quicwire.AppendVarint(nil, v)
	if r.Chance(1, 6) && len(b) < 8 {
		// re-encode in a longer form
		n := len(b) * 2
		out := make([]byte, n)
		x := v
		for i := n - 1; i >= 0; i-- {
			out[i] = byte(x)
			x >>= 8
		}
		out[0] |= byte(map[int]int{2: 1, 4: 2, 8: 3}[n] << 6)
		return out
	}
	return b
}

var c35FrameTypes = []uint64{0, 0, 0, 1, 3, 4, 5, 7, 0xd, 0x21, 0x40, 0x2, 0x6, 0x8, 0x1f * 3 + 0x21, 1 << 20, 1<<62 - 1}

func c35QpackSection(r *vu.Rng) []byte {
	var enc qpackEncoder
	enc.init()
	n := r.Intn(4)
	return enc.encode(func(f func(itype indexType, name, value string)) {
		for i := 0; i < n; i++ {
			switch r.Intn(4) {
			case 0:
				f(mayIndex, ":method", "GET")
			case 1:
				f(mayIndex, "x-trailer", "v"+fmt.Sprint(r.Intn(100)))
			case 2:
				f(neverIndex, "cookie", "abc")
			default:
				f(mayIndex, "content-type", "text/plain")
			}
		}
	})
}

func c35Frame(r *vu.Rng, ft uint64) []byte {
	var payload []byte
	switch {
	case ft == 1 && r.Chance(4, 5):
		payload = c35QpackSection(r)
		if r.Chance(1, 6) {
			payload = append(payload, r.Bytes(r.Range(1, 3))...)
		}
	case ft == 4 && r.Chance(4, 5):
		for n := r.Intn(4); n > 0; n-- {
			id := []uint64{1, 6, 7, 0x21, 2, 3, 4, 5, 1 << 30}[r.Intn(9)]
			if r.Chance(3, 4) {
				id = []uint64{1, 6, 7, 0x21, 0x40}[r.Intn(5)]
			}
			payload = append(payload, c35Varint(id)...)
			payload = append(payload, c35Varint(r.Boundary(62))...)
		}
	default:
		payload = r.Bytes(r.Intn(12))
	}
	size := uint64(len(payload))
	switch r.Intn(14) {
	case 0:
		size++ // declared longer than present
	case 1:
		if size > 0 {
			size-- // declared shorter
		}
	case 2:
		size = r.Boundary(62)
	}
	b := c35NonMinimalVarint(r, ft)
	b = append(b, c35NonMinimalVarint(r, size)...)
	return append(b, payload...)
}

func c35Frames(r *vu.Rng, n int) []byte {
	var b []byte
	for ; n > 0; n-- {
		b = append(b, c35Frame(r, c35FrameTypes[r.Intn(len(c35FrameTypes))])...)
	}
	return b
}

func c35Mutate(r *vu.Rng, b []byte) []byte {
	b = append([]byte{}, b...)
	if len(b) == 0 {
		return b
	}
	switch r.Intn(6) {
	case 0:
		b = b[:r.Intn(len(b)+1)]
	case 1:
		b[r.Intn(len(b))] ^= 1 << r.Intn(8)
	case 2:
		i := r.Intn(len(b) + 1)
		b = append(b[:i], append([]byte{byte(r.Uint64())}, b[i:]...)...)
	case 3:
		i := r.Intn(len(b))
		b = append(b[:i], b[i+1:]...)
	}
	return b
}

func c35RequestStream(r *vu.Rng) []byte {
	var b []byte
	// leading HEADERS (mostly), DATA / unknown frames, sometimes trailers
	if r.Chance(9, 10) {
		b = append(b, c35Frame(r, 1)...)
	}
	for n := r.Intn(5); n > 0; n-- {
		switch r.Intn(6) {
		case 0, 1, 2:
			b = append(b, c35Frame(r, 0)...)
		case 3:
			b = append(b, c35Frame(r, []uint64{0x21, 0x40, 0x2, 0x6, 1 << 20}[r.Intn(5)])...)
		case 4:
			b = append(b, c35Frame(r, c35FrameTypes[r.Intn(len(c35FrameTypes))])...)
		default:
			b = append(b, c35Frame(r, 1)...)
		}
	}
	return b
}

// c35ValidRequestHeaders is a HEADERS frame carrying a complete valid request field section.
func c35ValidRequestHeaders() []byte {
	var enc qpackEncoder
	enc.init()
	sec := enc.encode(func(f func(itype indexType, name, value string)) {
		f(mayIndex, ":method", "GET")
		f(mayIndex, ":scheme", "https")
		f(mayIndex, ":authority", "example.com")
		f(mayIndex, ":path", "/")
		f(mayIndex, "accept", "*/*")
	})
	b := c35Varint(1)
	b = append(b, c35Varint(uint64(len(sec)))...)
	return append(b, sec...)
}

// c35ServerRequest builds a request stream for the real server path: a HEADERS frame with
// method / expect / content-length / trailer combinations, DATA frames that match, exceed or fall
// short of the declared length (or are absent), optional trailers, optional unknown frames.
func c35ServerRequest(r *vu.Rng) []byte {
	var enc qpackEncoder
	enc.init()
	method := []string{"GET", "POST", "POST", "PUT", "HEAD", "CONNECT", "OPTIONS"}[r.Intn(7)]
	expect := []string{"", "", "100-continue", "100-Continue", "bogus"}[r.Intn(5)]
	cl := []string{"", "", "0", "0", "5", "3", "abc", "-1"}[r.Intn(8)]
	trailer := []string{"", "", "", "X-T", "x-t, content-length"}[r.Intn(5)]
	sec := enc.encode(func(f func(itype indexType, name, value string)) {
		f(mayIndex, ":method", method)
		if method != "CONNECT" || r.Chance(1, 8) {
			f(mayIndex, ":scheme", "https")
			f(mayIndex, ":path", []string{"/", "/a?b=c", "*"}[r.Intn(3)])
		}
		if r.Chance(9, 10) {
			f(mayIndex, ":authority", "example.com")
		}
		if expect != "" {
			f(mayIndex, "expect", expect)
		}
		if cl != "" {
			f(mayIndex, "content-length", cl)
		}
		if trailer != "" {
			f(mayIndex, "trailer", trailer)
		}
		if r.Chance(1, 6) {
			f(mayIndex, []string{"connection", "te", "upgrade", "x-ok"}[r.Intn(4)], "trailers")
		}
	})
	frame := func(ft uint64, payload []byte) []byte {
		b := c35Varint(ft)
		b = append(b, c35Varint(uint64(len(payload)))...)
		return append(b, payload...)
	}
	var b []byte
	if r.Chance(1, 6) {
		b = append(b, frame(0x21, r.Bytes(r.Intn(4)))...)
	}
	b = append(b, frame(1, sec)...)
	switch r.Intn(5) {
	case 0: // no DATA at all
	case 1:
		b = append(b, frame(0, []byte("hello"))...)
	case 2:
		b = append(b, frame(0, []byte("hel"))...)
		if r.Bool() {
			b = append(b, frame(0x40, r.Bytes(2))...)
			b = append(b, frame(0, []byte("lo"))...)
		}
	case 3:
		b = append(b, frame(0, r.Bytes(r.Intn(9)))...)
	default:
		b = append(b, frame(0, nil)...)
	}
	if r.Chance(1, 4) {
		tsec := enc.encode(func(f func(itype indexType, name, value string)) { f(mayIndex, "x-t", "v") })
		b = append(b, frame(1, tsec)...)
	}
	if r.Chance(1, 10) && len(b) > 0 {
		b = b[:len(b)-1-r.Intn(min(3, len(b)))]
	}
	return b
}

func c35Gen(r *vu.Rng, i int) []string {
	switch k := r.Intn(100); {
	case k < 15: // free-form primitive sequence
		ops := []string{"open " + vu.Hex(c35Mutate(r, c35Frames(r, r.Range(1, 3))))}
		for n := r.Range(1, 8); n > 0; n-- {
			switch r.Intn(12) {
			case 0, 1, 2:
				ops = append(ops, "hdr")
			case 3:
				ops = append(ops, "end")
			case 4:
				ops = append(ops, "data")
			case 5, 6:
				ops = append(ops, "byte")
			case 7, 8:
				ops = append(ops, fmt.Sprintf("read %d", r.Intn(16)))
			case 9:
				ops = append(ops, "varint")
			case 10:
				ops = append(ops, "discard")
			default:
				ops = append(ops, fmt.Sprintf("discardunk %d", c35FrameTypes[r.Intn(len(c35FrameTypes))]))
			}
		}
		return append(ops, "rest")
	case k < 35: // frame walk
		nf := r.Range(1, 5)
		data := c35Frames(r, nf)
		if r.Chance(1, 3) {
			data = c35Mutate(r, data)
		}
		ops := []string{"open " + vu.Hex(data)}
		for j := 0; j < nf+1; j++ {
			ops = append(ops, "hdr")
			switch r.Intn(5) {
			case 0:
				ops = append(ops, "data", "end")
			case 1:
				ops = append(ops, "discard")
			case 2:
				ops = append(ops, fmt.Sprintf("discardunk %d", c35FrameTypes[r.Intn(len(c35FrameTypes))]))
			case 3:
				ops = append(ops, fmt.Sprintf("read %d", r.Intn(14)), "end")
			default:
				ops = append(ops, "byte", "byte", "end")
			}
		}
		return append(ops, "rest")
	case k < 45: // SETTINGS
		data := c35Frame(r, 4)
		if r.Chance(1, 5) {
			data = c35Frame(r, c35FrameTypes[r.Intn(len(c35FrameTypes))])
		}
		if r.Chance(1, 3) {
			data = c35Mutate(r, data)
		}
		data = append(data, r.Bytes(r.Intn(3))...)
		return []string{"open " + vu.Hex(data), "settings", "rest"}
	case k < 65: // body reader, call by call
		data := c35RequestStream(r)
		if r.Chance(1, 3) {
			data = c35Mutate(r, data)
		}
		remain := int64(-1)
		if r.Chance(1, 3) {
			remain = int64(r.Intn(30))
		}
		ops := []string{"open " + vu.Hex(data)}
		if r.Chance(1, 2) {
			ops = append(ops, "hdr", "discard")
		}
		ops = append(ops, fmt.Sprintf("bopen %d", remain))
		for n := r.Range(1, 8); n > 0; n-- {
			ops = append(ops, fmt.Sprintf("bread %d", r.Range(0, 9)))
		}
		return append(ops, "rest")
	case k < 80: // unidirectional stream through genericConn + the server's control-stream handler
		var data []byte
		stype := []uint64{0, 0, 0, 0, 1, 2, 3, 0x21, 0x40}[r.Intn(9)]
		data = append(data, c35NonMinimalVarint(r, stype)...)
		if r.Chance(9, 10) {
			data = append(data, c35Frame(r, 4)...)
		}
		for n := r.Intn(4); n > 0; n-- {
			ft := []uint64{0x21, 0x40, 0x2, 0x6, 1 << 20, 0x21, 0x40}[r.Intn(7)]
			if r.Chance(1, 4) {
				ft = c35FrameTypes[r.Intn(len(c35FrameTypes))]
			}
			data = append(data, c35Frame(r, ft)...)
		}
		if r.Chance(1, 3) {
			data = c35Mutate(r, data)
		}
		return []string{"uni " + vu.Hex(data)}
	case k < 86: // the frame loop of the real serverConn.parseHeader: frames before a valid HEADERS frame
		// Exact frame lengths only: the field validation of parseHeader is not modelled, so the only
		// HEADERS frame the parse may reach is the valid one appended at the end.
		var data []byte
		for n := r.Intn(4); n > 0; n-- {
			ft := []uint64{0x21, 0x40, 0x2, 0x6, 1 << 20, 0x21 + 0x1f*7}[r.Intn(6)]
			if r.Chance(1, 8) {
				ft = []uint64{0, 3, 4, 5, 7, 0xd}[r.Intn(6)]
			}
			payload := r.Bytes(r.Intn(12))
			data = append(data, c35NonMinimalVarint(r, ft)...)
			data = append(data, c35NonMinimalVarint(r, uint64(len(payload)))...)
			data = append(data, payload...)
		}
		if len(data) > 0 && r.Chance(1, 8) {
			return []string{"phdr " + vu.Hex(data[:r.Intn(len(data))])} // stream ends inside the prefix
		}
		data = append(data, c35ValidRequestHeaders()...)
		return []string{"phdr " + vu.Hex(data)}
	case k < 93: // a whole well-formed request through the REAL serverConn.handleRequestStream
		return []string{"sreq " + vu.Hex(c35ServerRequest(r))}
	default: // request stream through genericConn + the harness request handler
		data := c35RequestStream(r)
		if r.Chance(1, 3) {
			data = c35Mutate(r, data)
		}
		if r.Chance(1, 20) {
			data = r.Bytes(r.Intn(20))
		}
		return []string{fmt.Sprintf("req %d %s", r.Range(1, 9), vu.Hex(data))}
	}
}

// ---------------------------------------------------------------- executor

type c35Exec struct {
	rig *c35Rig
}

func (x *c35Exec) exec(ops []string, o *vu.Out) {
	var st *stream
	var cleanup func()
	var body *bodyReader
	broken := false
	defer func() {
		if cleanup != nil {
			cleanup()
		}
	}()
	run := func(f func() string) string {
		res := vu.Catch(f)
		if res == "panic" {
			broken = true
		}
		return res
	}
	for _, op := range ops {
		t := strings.Fields(op)
		if len(t) == 0 {
			o.Op(op, "bad-op")
			continue
		}
		o.Stat("op:" + t[0])
		switch {
		case t[0] == "open" && len(t) == 2:
			if cleanup != nil {
				cleanup()
			}
			st, cleanup = x.rig.open(vu.MustHex(t[1]))
			body = &bodyReader{st: st, remain: -1}
			broken = false
			o.Op(op, "ok")
			continue
		case t[0] == "uni" && len(t) == 2:
			o.Op(op, x.uni(vu.MustHex(t[1]), o))
			continue
		case t[0] == "sreq" && len(t) == 2:
			o.Op(op, x.sreq(vu.MustHex(t[1]), o))
			continue
		case t[0] == "phdr" && len(t) == 2:
			o.Op(op, x.phdr(vu.MustHex(t[1]), o))
			continue
		case t[0] == "req" && len(t) == 3:
			k := vu.Atoi(t[1])
			if k <= 0 {
				o.Op(op, "bad-op")
				continue
			}
			o.Op(op, x.req(k, vu.MustHex(t[2]), o))
			continue
		}
		if st == nil {
			o.Op(op, "bad-op")
			continue
		}
		if broken {
			o.Op(op, "skipped")
			continue
		}
		result := func(v string, err error) string {
			if err != nil {
				o.Stat(t[0] + ":err:" + c35ErrTag(err))
				return "err " + c35ErrTag(err) + " " + c35State(st)
			}
			return "ok " + v + " " + c35State(st)
		}
		switch {
		case t[0] == "hdr" && len(t) == 1:
			o.Op(op, run(func() string { ft, err := st.readFrameHeader(); return result(fmt.Sprint(int64(ft)), err) }))
		case t[0] == "end" && len(t) == 1:
			o.Op(op, run(func() string { return result("-", st.endFrame()) }))
		case t[0] == "data" && len(t) == 1:
			if st.lim > 65536 {
				o.Op(op, "skipped-big")
				continue
			}
			o.Op(op, run(func() string { b, err := st.readFrameData(); return result(vu.Hex(b), err) }))
		case t[0] == "byte" && len(t) == 1:
			o.Op(op, run(func() string { b, err := st.ReadByte(); return result(fmt.Sprint(b), err) }))
		case t[0] == "read" && len(t) == 2:
			k := vu.Atoi(t[1])
			o.Op(op, run(func() string {
				buf := make([]byte, k)
				n, err := st.Read(buf)
				if err == io.EOF {
					return result(vu.Hex(buf[:n])+" eof=1", nil)
				}
				return result(vu.Hex(buf[:n])+" eof=0", err)
			}))
		case t[0] == "varint" && len(t) == 1:
			o.Op(op, run(func() string { v, err := st.readVarint(); return result(fmt.Sprint(v), err) }))
		case t[0] == "discard" && len(t) == 1:
			o.Op(op, run(func() string { return result("-", st.discardFrame()) }))
		case t[0] == "discardunk" && len(t) == 2:
			ft := frameType(vu.Atou64(t[1]))
			o.Op(op, run(func() string { return result("-", st.discardUnknownFrame(ft)) }))
		case t[0] == "settings" && len(t) == 1:
			o.Op(op, run(func() string {
				var parts []string
				err := st.readSettings(func(ty, v int64) error {
					parts = append(parts, fmt.Sprintf("%d=%d", ty, v))
					if ty >= 2 && ty <= 5 {
						o.Fail("", fmt.Sprintf("readSettings accepted reserved HTTP/2 setting %#x (RFC 9114 7.2.4.1)", ty))
					}
					return nil
				})
				s := "-"
				if len(parts) > 0 {
					s = strings.Join(parts, ",")
				}
				return result(s, err)
			}))
		case t[0] == "bopen" && len(t) == 2:
			remain := vu.Atoi64(t[1])
			if remain < -1 {
				o.Op(op, "bad-op")
				continue
			}
			body = &bodyReader{st: st, remain: remain}
			o.Op(op, "ok")
		case t[0] == "bread" && len(t) == 2:
			k := vu.Atoi(t[1])
			o.Op(op, run(func() string {
				buf := make([]byte, k)
				n, err := body.Read(buf)
				return fmt.Sprintf("ok %s err=%s %s", vu.Hex(buf[:n]), c35ErrTag(err), c35State(st))
			}))
		case t[0] == "rest" && len(t) == 1:
			if st.stream == nil {
				o.Op(op, "ok dead")
			} else {
				b, _ := io.ReadAll(st.stream)
				o.Op(op, "ok "+vu.Hex(b))
			}
		default:
			o.Op(op, "bad-op")
		}
	}
}

// uni: genericConn.handleUnidirectionalStream on the bytes (stream type varint first), with the
// real serverConn control/push/encoder/decoder handlers.
func (x *c35Exec) uni(data []byte, o *vu.Out) string {
	st, cleanup := x.rig.open(data)
	defer cleanup()
	var gc genericConn
	h := &c35Handler{}
	var res string
	var herr error
	hw := &c35UniWrap{c35Handler: h}
	res = vu.Catch(func() string {
		gc.handleUnidirectionalStream(st, hw)
		herr = hw.err
		return "ok " + c35ConnResult(h, herr)
	})
	if res == "panic" {
		sig := ""
		if st.stream == nil {
			sig = "" // formerly the known finding overrun-nil-stream-panic (repaired upstream)
		}
		o.Fail(sig, fmt.Sprintf("handleUnidirectionalStream panicked on stream bytes %x", data))
		return "ok panic"
	}
	x.oracleUni(data, res, o)
	return res
}

// c35UniWrap remembers the error the control handler returned (after the io.EOF translation
// done by handleUnidirectionalStream this is only used to classify reset-vs-closed).
type c35UniWrap struct {
	*c35Handler
	err error
}

func (w *c35UniWrap) handleControlStream(st *stream) error {
	w.err = w.c35Handler.handleControlStream(st)
	return w.err
}
func (w *c35UniWrap) handlePushStream(st *stream) error {
	w.err = w.c35Handler.handlePushStream(st)
	return w.err
}

// req: genericConn.handleRequestStream with a handler that reads one HEADERS frame (QPACK section
// decoded, fields ignored), then the body to its end through bodyReader in k-byte reads.
func (x *c35Exec) req(k int, data []byte, o *vu.Out) string {
	st, cleanup := x.rig.open(data)
	defer cleanup()
	var gc genericConn
	var bodyBytes []byte
	reachedBody := false
	h := &c35Handler{}
	h.req = func(st *stream) error {
		ft, err := st.readFrameHeader()
		if err != nil {
			return err
		}
		if ft != frameTypeHeaders {
			return &connectionError{code: errH3FrameUnexpected, message: "want HEADERS"}
		}
		var dec qpackDecoder
		if err := dec.decode(st, func(indexType, string, string) error { return nil }); err != nil {
			return err
		}
		if err := st.endFrame(); err != nil {
			return err
		}
		reachedBody = true
		body := &bodyReader{st: st, remain: -1}
		buf := make([]byte, k)
		for {
			n, err := body.Read(buf)
			bodyBytes = append(bodyBytes, buf[:n]...)
			if err == io.EOF {
				return nil
			}
			if err != nil {
				return err
			}
		}
	}
	res := vu.Catch(func() string {
		gc.handleRequestStream(st, h)
		return "ok " + c35ConnResult(h, h.herr)
	})
	if res == "panic" {
		sig := ""
		if st.stream == nil {
			sig = "" // formerly the known finding overrun-nil-stream-panic (repaired upstream)
			// confirm on the real server path: serverConn.handleRequestStream on the same bytes
			// (only possible when the overrun happens in the leading HEADERS frame; later ones need a
			// complete valid request and a running HTTP handler)
			if x.realServerPanics(data) {
				o.Stat("req:panic-confirmed-on-serverConn")
			} else {
				o.Stat("req:panic-in-body-stage")
			}
		}
		o.Fail(sig, fmt.Sprintf("handleRequestStream panicked (nil *quic.Stream after a frame-limit overrun inside QPACK decoding; handleStreamError calls st.stream.CloseRead()) on request stream bytes %x", data))
		res = "ok panic"
	}
	if !reachedBody && res == fmt.Sprintf("ok reset:%d", int(errH3InternalError)) {
		// Known finding (literal reading of "reports ... as an H3_FRAME_ERROR-class failure"): a frame error in
		// the leading HEADERS frame reaches handleStreamError as a bare http3Error and is sent as H3_INTERNAL_ERROR.
		tag := c35ErrTag(h.herr)
		fr := c35RefParse(data)
		headersCut := len(fr) > 0 && fr[0].hdrOK && fr[0].ftype == 1 && fr[0].truncated
		if tag == fmt.Sprintf("h3:%d", int(errH3FrameError)) || (headersCut && tag == fmt.Sprintf("h3:%d", int(errQPACKDecompressionFailed))) {
			o.Fail("frame-error-reset-as-internal-error", fmt.Sprintf("truncated/over-read leading HEADERS frame (handler error %s) is signalled with RESET_STREAM H3_INTERNAL_ERROR, not H3_FRAME_ERROR: %x", tag, data))
		}
	}
	out := fmt.Sprintf("%s herr=%s body=%s", res, c35ErrTag(h.herr), vu.Hex(bodyBytes))
	if res != "ok panic" {
		x.oracleReq(data, bodyBytes, h.herr, reachedBody, o)
	}
	return out
}

// sreq runs the unmodified serverConn.handleRequestStream (under genericConn.handleRequestStream,
// as the accept loop does) on a whole request stream, with an http.Handler that reads the body to
// its end and answers 200. The model does not cover request construction in server.go: the only
// modelled outcome is "does not panic" (result "ok").
func (x *c35Exec) sreq(data []byte, o *vu.Out) string {
	st, cleanup := x.rig.open(data)
	defer cleanup()
	var gc genericConn
	ran := false
	h := &c35Handler{}
	h.sc.qconn = x.rig.c2
	h.sc.enc.init()
	h.sc.handler = http.HandlerFunc(func(w http.ResponseWriter, r *http.Request) {
		ran = true
		io.Copy(io.Discard, r.Body)
		w.WriteHeader(200)
	})
	h.req = func(st *stream) error { return h.sc.handleRequestStream(st) }
	res, panicked, msg := vu.CatchMsg(func() string {
		gc.handleRequestStream(st, h)
		return "ok"
	})
	if panicked {
		o.Fail("", fmt.Sprintf("serverConn.handleRequestStream panicked (%s) on request stream bytes %x", msg, data))
		return "panic"
	}
	if ran {
		o.Stat("sreq:handler-ran")
	} else {
		o.Stat("sreq:rejected:" + c35ErrTag(h.herr))
	}
	return res
}

// phdr runs the unmodified serverConn.parseHeader on the bytes. Oracle: complete frames of unknown
// type in front of a valid HEADERS frame are skipped ("skips unknown frame types").
func (x *c35Exec) phdr(data []byte, o *vu.Out) string {
	st, cleanup := x.rig.open(data)
	defer cleanup()
	var sc serverConn
	var err error
	res := vu.Catch(func() string {
		_, _, err = sc.parseHeader(st)
		if err != nil {
			return "err " + c35ErrTag(err)
		}
		return "ok"
	})
	if res == "panic" {
		o.Fail("", fmt.Sprintf("serverConn.parseHeader panicked on %x", data))
		return res
	}
	// reference: are all frames before the first HEADERS frame complete and of unknown type?
	clean := true
	sawHeaders := false
	for _, f := range c35RefParse(data) {
		if f.hdrOK && f.ftype == 1 && !f.truncated {
			// only the generator's valid request section counts (length mutations of the frames in
			// front can make the parse land on a different, invalid HEADERS frame)
			sawHeaders = bytes.Equal(f.payload, c35ValidRequestHeaders()[2:])
			break
		}
		if !f.hdrOK || f.truncated || c35Known(f.ftype) {
			clean = false
			break
		}
	}
	if clean && sawHeaders {
		o.Stat("phdr:oracle-clean")
		if err != nil {
			o.Fail("", fmt.Sprintf("request stream with only complete unknown frames before a valid HEADERS frame rejected with %s (unknown frame types must be skipped): %x", c35ErrTag(err), data))
		}
	}
	return res
}

// realServerPanics runs the unmodified serverConn.handleRequestStream (no handler is reached:
// header parsing fails) under genericConn.handleRequestStream on the same bytes.
func (x *c35Exec) realServerPanics(data []byte) (panicked bool) {
	st, cleanup := x.rig.open(data)
	defer cleanup()
	var gc genericConn
	h := &c35Handler{}
	h.req = func(st *stream) error { return h.sc.handleRequestStream(st) }
	defer func() {
		if e := recover(); e != nil {
			panicked = true
		}
	}()
	gc.handleRequestStream(st, h)
	return false
}

// ---------------------------------------------------------------- reference parser and oracles

type c35RefFrame struct {
	ftype     uint64
	size      uint64
	payload   []byte // bytes present
	truncated bool   // EOF inside the header or payload
	hdrOK     bool
}

// c35RefParse splits b into frames the naive way (RFC 9114 §7.1).
func c35RefParse(b []byte) []c35RefFrame {
	var out []c35RefFrame
	for len(b) > 0 {
		ft, n := quicwire.ConsumeVarint(b)
		if n < 0 {
			out = append(out, c35RefFrame{truncated: true})
			return out
		}
		b = b[n:]
		sz, n := quicwire.ConsumeVarint(b)
		if n < 0 {
			out = append(out, c35RefFrame{ftype: ft, truncated: true})
			return out
		}
		b = b[n:]
		f := c35RefFrame{ftype: ft, size: sz, hdrOK: true}
		if sz > uint64(len(b)) {
			f.payload, f.truncated = b, true
			out = append(out, f)
			return out
		}
		f.payload = b[:sz]
		b = b[sz:]
		out = append(out, f)
	}
	return out
}

func c35Known(ft uint64) bool {
	switch ft {
	case 0, 1, 3, 4, 5, 7, 0xd:
		return true
	}
	return false
}

// oracleReq: bytes handed to the body are a prefix of the concatenated DATA payloads that follow
// the leading HEADERS frame; bytes of unknown frames never reach the body; a DATA or unknown frame
// cut short by the end of the stream is reported with code H3_FRAME_ERROR.
func (x *c35Exec) oracleReq(data, body []byte, herr error, reachedBody bool, o *vu.Out) {
	frames := c35RefParse(data)
	if !reachedBody {
		if len(body) != 0 {
			o.Fail("", fmt.Sprintf("body bytes %x delivered before the HEADERS frame was accepted: %x", body, data))
		}
		return
	}
	if len(frames) == 0 || frames[0].ftype != 1 || !frames[0].hdrOK {
		if len(body) != 0 {
			o.Fail("", fmt.Sprintf("body bytes %x delivered although the stream does not start with a HEADERS frame: %x", body, data))
		}
		return
	}
	var want []byte
	cleanPrefix := true // every frame so far complete and DATA/unknown
	for _, f := range frames[1:] {
		if !f.hdrOK {
			// the stream ends inside a frame header: the last frame is truncated
			if cleanPrefix && herr == nil {
				o.Fail("", fmt.Sprintf("stream ends inside a frame header but the body ended cleanly (want H3_FRAME_ERROR): %x", data))
			} else if cleanPrefix && c35ErrCode(herr) != int(errH3FrameError) {
				o.Fail("", fmt.Sprintf("stream ends inside a frame header, reported as %s, want H3_FRAME_ERROR: %x", c35ErrTag(herr), data))
			}
			break
		}
		if f.ftype == 0 {
			want = append(want, f.payload...)
			if f.truncated {
				if cleanPrefix && herr != nil && c35ErrCode(herr) != int(errH3FrameError) {
					o.Fail("", fmt.Sprintf("DATA frame cut short by end of stream reported as %s, want H3_FRAME_ERROR: %x", c35ErrTag(herr), data))
				}
				if cleanPrefix && herr == nil {
					o.Fail("", fmt.Sprintf("DATA frame cut short by end of stream but the body ended cleanly: %x", data))
				}
				break
			}
			continue
		}
		if c35Known(f.ftype) {
			break // trailers or an unexpected known frame: the body ends here
		}
		if f.truncated {
			if cleanPrefix && c35ErrCode(herr) != int(errH3FrameError) {
				o.Fail("", fmt.Sprintf("unknown frame cut short by end of stream reported as %s, want H3_FRAME_ERROR: %x", c35ErrTag(herr), data))
			}
			break
		}
	}
	if !bytes.HasPrefix(want, body) {
		o.Fail("", fmt.Sprintf("body received %x which is not a prefix of the DATA payload bytes %x; stream %x", body, want, data))
		return
	}
	o.Stat("req:oracle-checked")
	if herr == nil && len(frames) > 1 {
		// clean end: every DATA payload byte up to the end / trailers must have been delivered
		full := true
		for _, f := range frames[1:] {
			if f.truncated || !f.hdrOK {
				full = false
			}
		}
		if full && !bytes.Equal(want, body) {
			o.Fail("", fmt.Sprintf("body ended cleanly with %x but the DATA payloads are %x; stream %x", body, want, data))
		}
	}
}

// oracleUni: on a control stream whose SETTINGS frame is followed only by complete unknown frames,
// every one of them is skipped and the end of the stream is reported as H3_CLOSED_CRITICAL_STREAM;
// an unknown frame cut short is an H3_FRAME_ERROR.
func (x *c35Exec) oracleUni(data []byte, res string, o *vu.Out) {
	st, n := quicwire.ConsumeVarint(data)
	if n < 0 || st != 0 {
		return
	}
	frames := c35RefParse(data[n:])
	if len(frames) == 0 || frames[0].ftype != 4 || frames[0].truncated {
		return
	}
	// SETTINGS payload must be a clean list of non-reserved id/value pairs
	p := frames[0].payload
	for len(p) > 0 {
		id, n1 := quicwire.ConsumeVarint(p)
		if n1 < 0 {
			return
		}
		_, n2 := quicwire.ConsumeVarint(p[n1:])
		if n2 < 0 || (id >= 2 && id <= 5) {
			return
		}
		p = p[n1+n2:]
	}
	wantFrameErr := fmt.Sprintf("ok abort:%d", int(errH3FrameError))
	for _, f := range frames[1:] {
		if !f.hdrOK {
			// the control stream ends inside a frame header
			if res != wantFrameErr {
				o.Fail("", fmt.Sprintf("control stream ends inside a frame header: result %q, want connection error H3_FRAME_ERROR: %x", res, data))
			}
			return
		}
		if c35Known(f.ftype) {
			return
		}
		if f.truncated {
			if res != wantFrameErr {
				o.Fail("", fmt.Sprintf("control stream: unknown frame cut short: result %q, want connection error H3_FRAME_ERROR (a reset of the receive-only stream tells the peer nothing): %x", res, data))
			}
			return
		}
	}
	o.Stat("uni:oracle-clean-control")
	if res != fmt.Sprintf("ok abort:%d", int(errH3ClosedCriticalStream)) {
		o.Fail("", fmt.Sprintf("control stream with only complete unknown frames after SETTINGS ended with %q, want H3_CLOSED_CRITICAL_STREAM (frames not skipped entirely?): %x", res, data))
	}
}

func TestVerifC35(t *testing.T) {
	synctest.Test(t, func(t *testing.T) {
		x := &c35Exec{rig: newC35Rig(t)}
		vu.Run(vu.ConfigFromEnv(), c35Gen, x.exec)
	})
}
