//go:build verif

// C42 harness: html/atom Lookup / Atom.String / String / fnv against the Lean model,
// with a naive reference dictionary as the property oracle.
package main

import (
	"fmt"
	"strconv"
	"strings"
	"sync"

	"golang.org/x/net/html/atom"
	vu "golang.org/x/net/internal/verifutil"
)

var (
	once     sync.Once
	ref      map[string]atom.Atom // name -> constant, built from the named constants
	isNamed  map[atom.Atom]string // constant -> Go identifier
	tabAtoms []atom.Atom          // non-zero table entries
)

func setup() {
	once.Do(func() {
		ref = map[string]atom.Atom{}
		isNamed = map[atom.Atom]string{}
		for _, c := range namedAtoms {
			isNamed[c.a] = c.id
			ref[c.a.String()] = c.a // a duplicate/empty name is reported by the per-atom oracle
		}
		for _, a := range atom.VerifTable() {
			if a != 0 {
				tabAtoms = append(tabAtoms, a)
			}
		}
	})
}

const lower = "abcdefghijklmnopqrstuvwxyz"
const nameAlpha = "abcdefghijklmnopqrstuvwxyz-123456O"

func edit(r *vu.Rng, s []byte) []byte {
	b := append([]byte{}, s...)
	switch r.Intn(7) {
	case 0: // substitute
		if len(b) > 0 {
			b[r.Intn(len(b))] = nameAlpha[r.Intn(len(nameAlpha))]
		}
	case 1: // delete
		if len(b) > 0 {
			i := r.Intn(len(b))
			b = append(b[:i], b[i+1:]...)
		}
	case 2: // insert
		i := r.Intn(len(b) + 1)
		b = append(b[:i], append([]byte{nameAlpha[r.Intn(len(nameAlpha))]}, b[i:]...)...)
	case 3: // case flip
		if len(b) > 0 {
			b[r.Intn(len(b))] ^= 0x20
		}
	case 4: // bit flip
		if len(b) > 0 {
			b[r.Intn(len(b))] ^= 1 << uint(r.Intn(8))
		}
	case 5: // append
		b = append(b, nameAlpha[r.Intn(len(nameAlpha))])
	default: // transpose
		if len(b) > 1 {
			i := r.Intn(len(b) - 1)
			b[i], b[i+1] = b[i+1], b[i]
		}
	}
	return b
}

// genPrefixCollision: a NON-atom that agrees with an atom on a prefix and whose hash selects that
// atom's table slot through one of the two probes: atom name + suffix of length 1..3, 255, 256, 257,
// 512 (the lengths where a truncated or missing length comparison would accept it). The suffix is
// searched (expected ~256 tries, at most 4000); if none is found the last candidate is used anyway.
func genPrefixCollision(r *vu.Rng) []byte {
	setup()
	tab := atom.VerifTable()
	a := tabAtoms[r.Intn(len(tabAtoms))]
	name := []byte(a.String())
	sufLen := []int{1, 2, 3, 255, 256, 257, 512, 256, 256}[r.Intn(9)]
	mask := uint32(len(tab) - 1)
	cand := make([]byte, len(name)+sufLen)
	copy(cand, name)
	for try := 0; try < 4000; try++ {
		suf := cand[len(name):]
		if sufLen <= 3 {
			copy(suf, r.Bytes(sufLen))
		} else {
			// vary only the first 4 suffix bytes, keep the rest plain
			for k := range suf {
				suf[k] = 'x'
			}
			copy(suf, r.Bytes(4))
		}
		h := atom.VerifFnv(atom.VerifHash0, cand)
		if tab[h&mask] == a || tab[(h>>16)&mask] == a {
			break
		}
	}
	return cand
}

func genBytes(r *vu.Rng, i int) []byte {
	setup()
	text := atom.VerifAtomText()
	switch r.Intn(14) {
	case 12, 13:
		return genPrefixCollision(r)
	case 0, 1, 2: // every atom, in turn
		return []byte(namedAtoms[i%len(namedAtoms)].a.String())
	case 3, 4, 5: // atom +- one edit
		return edit(r, []byte(namedAtoms[r.Intn(len(namedAtoms))].a.String()))
	case 6: // two edits
		return edit(r, edit(r, []byte(namedAtoms[r.Intn(len(namedAtoms))].a.String())))
	case 7: // substring of atomText (shares bytes with real names; mostly not an atom)
		n := r.Range(1, atom.VerifMaxAtomLen+2)
		if n > len(text) {
			n = len(text)
		}
		st := r.Intn(len(text) - n + 1)
		return []byte(text[st : st+n])
	case 8: // a table entry's text with the neighbouring byte
		a := tabAtoms[r.Intn(len(tabAtoms))]
		st, n := int(a>>8), int(a&0xff)
		if r.Bool() && st > 0 {
			st--
		} else if st+n < len(text) {
			n++
		}
		return []byte(text[st : st+n])
	case 9: // random lower-case word, all lengths incl. 0 and > maxAtomLen
		return r.BytesFrom(lower, r.Intn(atom.VerifMaxAtomLen+4))
	case 10: // short words: dense coverage of 1-3 letter strings
		return r.BytesFrom(lower, r.Range(1, 3))
	default: // arbitrary bytes
		return r.Bytes(r.Intn(30))
	}
}

func genAtom(r *vu.Rng, i int) uint32 {
	setup()
	text := atom.VerifAtomText()
	switch r.Intn(8) {
	case 0, 1, 2:
		return uint32(namedAtoms[i%len(namedAtoms)].a)
	case 3: // perturbed start/len
		a := uint32(namedAtoms[r.Intn(len(namedAtoms))].a)
		return a ^ (1 << uint(r.Intn(20)))
	case 4: // around the end of atomText
		n := uint32(r.Intn(40))
		st := uint32(len(text)) - n + uint32(r.Intn(5)) - 2
		return st<<8 | (n & 0xff)
	case 5:
		return uint32(r.Boundary(32))
	case 6:
		return uint32(r.Intn(len(text)+300))<<8 | uint32(r.Intn(256))
	default:
		return uint32(r.Uint64())
	}
}

func gen(r *vu.Rng, i int) []string {
	switch r.Intn(10) {
	case 0, 1, 2, 3, 4:
		return []string{"lookup " + vu.Hex(genBytes(r, i))}
	case 5:
		return []string{"str " + vu.Hex(genBytes(r, i))}
	case 6, 7:
		return []string{fmt.Sprintf("atom %d", genAtom(r, i))}
	case 8:
		return []string{fmt.Sprintf("string %d", genAtom(r, i))}
	default:
		h := uint32(r.Uint64())
		if r.Bool() {
			h = atom.VerifHash0
		}
		return []string{fmt.Sprintf("fnv %d %s", h, vu.Hex(genBytes(r, i)))}
	}
}

func exec(ops []string, o *vu.Out) {
	setup()
	for _, op := range ops {
		t := strings.Fields(op)
		if len(t) < 2 {
			o.Op(op, "bad-op")
			continue
		}
		o.Stat("op:" + t[0])
		switch {
		case t[0] == "lookup" && len(t) == 2:
			s := vu.MustHex(t[1])
			var got atom.Atom
			res := vu.Catch(func() string { got = atom.Lookup(s); return fmt.Sprintf("ok %d", uint32(got)) })
			o.Op(op, res)
			oracleLookup(s, got, res, o)
		case t[0] == "str" && len(t) == 2:
			s := vu.MustHex(t[1])
			var got string
			res := vu.Catch(func() string { got = atom.String(s); return "ok " + vu.Hex([]byte(got)) })
			o.Op(op, res)
			if res == "panic" || got != string(s) {
				o.Fail("", fmt.Sprintf("atom.String(%q) = %q (%s)", s, got, res))
			}
		case t[0] == "atom" && len(t) == 2:
			v, err := strconv.ParseUint(t[1], 10, 32)
			if err != nil {
				o.Op(op, "bad-op")
				continue
			}
			a := atom.Atom(v)
			var name string
			var back atom.Atom
			res := vu.Catch(func() string {
				name = a.String()
				back = atom.Lookup([]byte(name))
				return fmt.Sprintf("ok %s %d", vu.Hex([]byte(name)), uint32(back))
			})
			o.Op(op, res)
			if id, ok := isNamed[a]; ok {
				o.Stat("atom:named")
				if res == "panic" || name == "" || back != a {
					o.Fail("", fmt.Sprintf("atom.%s=%#x: String()=%q, Lookup(String())=%#x (%s)", id, uint32(a), name, uint32(back), res))
				}
			} else if res != "panic" && back != 0 && back.String() != name {
				o.Fail("", fmt.Sprintf("Lookup(%q)=%#x whose name is %q", name, uint32(back), back.String()))
			}
		case t[0] == "string" && len(t) == 2:
			v, err := strconv.ParseUint(t[1], 10, 32)
			if err != nil {
				o.Op(op, "bad-op")
				continue
			}
			o.Op(op, vu.Catch(func() string { return "ok " + vu.Hex([]byte(atom.Atom(v).String())) }))
		case t[0] == "fnv" && len(t) == 3:
			h, err := strconv.ParseUint(t[1], 10, 32)
			if err != nil {
				o.Op(op, "bad-op")
				continue
			}
			s := vu.MustHex(t[2])
			o.Op(op, vu.Catch(func() string { return fmt.Sprintf("ok %d", atom.VerifFnv(uint32(h), s)) }))
		default:
			o.Op(op, "bad-op")
		}
	}
}

// oracleLookup states C42 on the implementation: Lookup agrees with the naive dictionary of the
// named constants (so it is 0 on every non-atom), and a non-zero result spells the queried string.
func oracleLookup(s []byte, got atom.Atom, res string, o *vu.Out) {
	if res == "panic" {
		o.Fail("", fmt.Sprintf("Lookup(%q) panicked", s))
		return
	}
	want := ref[string(s)]
	if want != 0 {
		o.Stat("lookup:atom")
	} else {
		o.Stat("lookup:non-atom")
		if len(s) > 0 {
			tab := atom.VerifTable()
			h := atom.VerifFnv(atom.VerifHash0, s)
			for _, a := range []atom.Atom{tab[h&uint32(len(tab)-1)], tab[(h>>16)&uint32(len(tab)-1)]} {
				if a != 0 && strings.HasPrefix(string(s), a.String()) {
					o.Stat(fmt.Sprintf("lookup:non-atom-on-slot-of-its-prefix-atom:len%%256=%d", (len(s)-len(a.String()))%256))
					break
				}
			}
		}
	}
	if got != want {
		o.Fail("", fmt.Sprintf("Lookup(%q) = %#x, the dictionary of named atoms says %#x", s, uint32(got), uint32(want)))
		return
	}
	if got != 0 && got.String() != string(s) {
		o.Fail("", fmt.Sprintf("Lookup(%q) = %#x whose String() is %q", s, uint32(got), got.String()))
	}
}

func main() { vu.Main(gen, exec) }
