//go:build verif

package atom

// White-box shims for the C42 harness (injected with -overlay, never committed).

func VerifFnv(h uint32, s []byte) uint32 { return fnv(h, s) }

func VerifTable() []Atom { return table[:] }

func VerifAtomText() string { return atomText }

const VerifHash0 = hash0

const VerifMaxAtomLen = maxAtomLen
