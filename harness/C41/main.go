//go:build verif

// C41 harness.
//
//	VERIF_C41_MODE=ops  (D-tie)  InsertBefore/AppendChild/RemoveChild on a small
//	      pool of real *html.Node values, including panicking preconditions,
//	      aliasing arguments and poked (inconsistent) link fields; every result
//	      is the dump of all link fields, compared with the Lean model.
//	VERIF_C41_MODE=tree (V-tie)  Parse / ParseFragment (all context elements,
//	      scripting on/off) on generated inputs under a watchdog; every returned
//	      tree is serialised as `node …` event lines and checked by the Lean
//	      WFTree monitor; Render must succeed.
package main

import (
	"bytes"
	"fmt"
	"io"
	"os"
	"strconv"
	"strings"
	"time"

	"golang.org/x/net/html"
	"golang.org/x/net/html/atom"
	vu "golang.org/x/net/internal/verifutil"
)

var mode = os.Getenv("VERIF_C41_MODE")

// ======================================================================= ops

var fieldNames = []string{"parent", "first", "last", "prev", "next"}

func field(n *html.Node, f string) **html.Node {
	switch f {
	case "parent":
		return &n.Parent
	case "first":
		return &n.FirstChild
	case "last":
		return &n.LastChild
	case "prev":
		return &n.PrevSibling
	case "next":
		return &n.NextSibling
	}
	return nil
}

type pool struct {
	nodes []*html.Node
	id    map[*html.Node]int
}

func newPool(k int) *pool {
	p := &pool{id: map[*html.Node]int{}}
	for i := 0; i < k; i++ {
		n := &html.Node{Type: html.ElementNode, Data: "n" + strconv.Itoa(i)}
		p.nodes = append(p.nodes, n)
		p.id[n] = i
	}
	return p
}

func (p *pool) ptr(n *html.Node) string {
	if n == nil {
		return "-"
	}
	return strconv.Itoa(p.id[n])
}

func (p *pool) dump() string {
	var parts []string
	for _, n := range p.nodes {
		parts = append(parts, strings.Join([]string{p.ptr(n.Parent), p.ptr(n.FirstChild), p.ptr(n.LastChild), p.ptr(n.PrevSibling), p.ptr(n.NextSibling)}, ","))
	}
	return strings.Join(parts, ";")
}

// consistent is an independent Go statement of link consistency.
func consistent(nodes []*html.Node) bool {
	for _, x := range nodes {
		if (x.FirstChild == nil) != (x.LastChild == nil) {
			return false
		}
		if c := x.FirstChild; c != nil && (c.Parent != x || c.PrevSibling != nil) {
			return false
		}
		if c := x.LastChild; c != nil && (c.Parent != x || c.NextSibling != nil) {
			return false
		}
		if d := x.NextSibling; d != nil {
			if d.PrevSibling != x || d.Parent != x.Parent || x.Parent == nil {
				return false
			}
		} else if x.Parent != nil && x.Parent.LastChild != x {
			return false
		}
		if d := x.PrevSibling; d != nil {
			if d.NextSibling != x || d.Parent != x.Parent || x.Parent == nil {
				return false
			}
		} else if x.Parent != nil && x.Parent.FirstChild != x {
			return false
		}
	}
	return true
}

func chainEnds(x *html.Node, next func(*html.Node) *html.Node, fuel int) bool {
	for i := 0; i < fuel; i++ {
		x = next(x)
		if x == nil {
			return true
		}
	}
	return false
}

func acyclic(nodes []*html.Node) bool {
	k := len(nodes)
	for _, x := range nodes {
		if !chainEnds(x, func(n *html.Node) *html.Node { return n.Parent }, k) ||
			!chainEnds(x, func(n *html.Node) *html.Node { return n.NextSibling }, k) ||
			!chainEnds(x, func(n *html.Node) *html.Node { return n.PrevSibling }, k) {
			return false
		}
	}
	return true
}

func ancestorOrSelf(a, n *html.Node, fuel int) bool {
	for i := 0; n != nil && i <= fuel; i++ {
		if n == a {
			return true
		}
		n = n.Parent
	}
	return false
}

func b2s(b bool) string {
	if b {
		return "1"
	}
	return "0"
}

// genOps simulates on real nodes so that most generated ops are legal.
func genOps(r *vu.Rng) []string {
	k := r.Range(2, 7)
	p := newPool(k)
	ops := []string{fmt.Sprintf("reset %d", k)}
	pick := func() int { return r.Intn(k) }
	nops := r.Range(4, 24)
	for i := 0; i < nops; i++ {
		var op string
		switch c := r.Intn(20); {
		case c < 7: // append, usually of a detached node
			n, ch := pick(), pick()
			if r.Chance(3, 4) {
				for t := 0; t < 6 && (p.nodes[ch].Parent != nil || ch == n); t++ {
					ch = pick()
				}
			}
			op = fmt.Sprintf("append %d %d", n, ch)
		case c < 12: // insert before, usually a real child
			n, ch := pick(), pick()
			old := "-"
			if r.Chance(3, 4) {
				for t := 0; t < 6 && (p.nodes[ch].Parent != nil || ch == n); t++ {
					ch = pick()
				}
				var kids []int
				for c := p.nodes[n].FirstChild; c != nil && len(kids) < k; c = c.NextSibling {
					kids = append(kids, p.id[c])
				}
				if len(kids) > 0 && r.Chance(4, 5) {
					old = strconv.Itoa(kids[r.Intn(len(kids))])
				}
			} else if r.Bool() {
				old = strconv.Itoa(pick())
			}
			op = fmt.Sprintf("insert %d %d %s", n, ch, old)
		case c < 17: // remove, usually a real child
			ch := pick()
			n := pick()
			if r.Chance(4, 5) {
				for t := 0; t < 6 && p.nodes[ch].Parent == nil; t++ {
					ch = pick()
				}
				if p.nodes[ch].Parent != nil {
					n = p.id[p.nodes[ch].Parent]
				}
			}
			op = fmt.Sprintf("remove %d %d", n, ch)
		case c < 18:
			v := "-"
			if r.Chance(2, 3) {
				v = strconv.Itoa(pick())
			}
			op = fmt.Sprintf("poke %d %s %s", pick(), fieldNames[r.Intn(5)], v)
		default:
			op = "wf"
		}
		ops = append(ops, op)
		execOp(p, op, nil) // keep the shadow in step
	}
	ops = append(ops, "wf")
	return ops
}

// execOp runs one op on the pool; returns the canonical result.
func execOp(p *pool, op string, o *vu.Out) string {
	t := strings.Fields(op)
	k := len(p.nodes)
	num := func(s string) (int, bool) {
		v, err := strconv.Atoi(s)
		return v, err == nil && v >= 0 && v < k
	}
	optNode := func(s string) (*html.Node, bool) {
		if s == "-" {
			return nil, true
		}
		v, ok := num(s)
		if !ok {
			return nil, false
		}
		return p.nodes[v], true
	}
	if len(t) == 0 {
		return "bad-op"
	}
	consBefore := consistent(p.nodes)
	acycBefore := consBefore && acyclic(p.nodes)
	check := func(name string, panicked, shouldPanic, preCons, preAcyc bool) {
		if o == nil {
			return
		}
		if panicked != shouldPanic {
			o.Fail("panic-contract", fmt.Sprintf("%s: panicked=%v but the documented precondition says %v", op, panicked, shouldPanic))
		}
		if panicked {
			return
		}
		if consBefore && preCons && !consistent(p.nodes) {
			o.Fail("op-breaks-consistency", fmt.Sprintf("%s on a consistent store left inconsistent links: %s", op, p.dump()))
		}
		if acycBefore && preCons && preAcyc && !acyclic(p.nodes) {
			o.Fail("op-creates-cycle", fmt.Sprintf("%s on an acyclic store created a cycle: %s", op, p.dump()))
		}
		_ = name
	}
	switch t[0] {
	case "append":
		if len(t) != 3 {
			return "bad-op"
		}
		n, ok1 := num(t[1])
		c, ok2 := num(t[2])
		if !ok1 || !ok2 {
			return "bad-op"
		}
		N, C := p.nodes[n], p.nodes[c]
		should := C.Parent != nil || C.PrevSibling != nil || C.NextSibling != nil
		preAcyc := !ancestorOrSelf(C, N, k)
		res := vu.Catch(func() string { N.AppendChild(C); return "ok" })
		check("append", res == "panic", should, true, preAcyc)
		if res == "panic" {
			return "panic"
		}
		return "ok " + p.dump()
	case "insert":
		if len(t) != 4 {
			return "bad-op"
		}
		n, ok1 := num(t[1])
		c, ok2 := num(t[2])
		O, ok3 := optNode(t[3])
		if !ok1 || !ok2 || !ok3 {
			return "bad-op"
		}
		N, C := p.nodes[n], p.nodes[c]
		should := C.Parent != nil || C.PrevSibling != nil || C.NextSibling != nil
		preCons := O == nil || O.Parent == N
		preAcyc := !ancestorOrSelf(C, N, k)
		res := vu.Catch(func() string { N.InsertBefore(C, O); return "ok" })
		check("insert", res == "panic", should, preCons, preAcyc)
		if res == "panic" {
			return "panic"
		}
		return "ok " + p.dump()
	case "remove":
		if len(t) != 3 {
			return "bad-op"
		}
		n, ok1 := num(t[1])
		c, ok2 := num(t[2])
		if !ok1 || !ok2 {
			return "bad-op"
		}
		N, C := p.nodes[n], p.nodes[c]
		should := C.Parent != N
		res := vu.Catch(func() string { N.RemoveChild(C); return "ok" })
		check("remove", res == "panic", should, true, true)
		if res == "panic" {
			return "panic"
		}
		if o != nil && (C.Parent != nil || C.PrevSibling != nil || C.NextSibling != nil) {
			o.Fail("remove-leaves-links", op+": removed child still linked")
		}
		return "ok " + p.dump()
	case "poke":
		if len(t) != 4 {
			return "bad-op"
		}
		i, ok1 := num(t[1])
		V, ok2 := optNode(t[3])
		f := field(p.nodes[0], t[2])
		if !ok1 || !ok2 || f == nil {
			return "bad-op"
		}
		*field(p.nodes[i], t[2]) = V
		return "ok " + p.dump()
	case "wf":
		if len(t) != 1 {
			return "bad-op"
		}
		return fmt.Sprintf("ok consistent=%s acyclic=%s", b2s(consistent(p.nodes)), b2s(acyclic(p.nodes)))
	}
	return "bad-op"
}

func execOps(ops []string, o *vu.Out) {
	var p *pool
	for _, op := range ops {
		t := strings.Fields(op)
		if len(t) == 2 && t[0] == "reset" {
			k, err := strconv.Atoi(t[1])
			if err != nil || k < 1 || k > 64 {
				o.Op(op, "bad-op")
				continue
			}
			p = newPool(k)
			o.Op(op, "ok")
			continue
		}
		if p == nil {
			o.Op(op, "bad-op")
			continue
		}
		if len(t) > 0 {
			o.Stat("op:" + t[0])
		}
		res := execOp(p, op, o)
		if res == "panic" {
			o.Stat("result:panic")
		}
		o.Op(op, res)
	}
}

// ====================================================================== tree

var tagPool = []string{"html", "head", "body", "title", "base", "link", "meta", "style", "script", "noscript", "template",
	"p", "div", "span", "a", "b", "i", "em", "strong", "font", "nobr", "u", "s", "small", "big", "code", "tt", "strike",
	"table", "caption", "colgroup", "col", "tbody", "thead", "tfoot", "tr", "td", "th",
	"form", "input", "select", "option", "optgroup", "textarea", "button", "label", "fieldset", "keygen",
	"ul", "ol", "li", "dl", "dt", "dd", "h1", "h2", "h6", "pre", "listing", "plaintext", "xmp", "iframe", "noembed", "noframes",
	"frameset", "frame", "svg", "math", "mi", "mo", "mn", "ms", "mtext", "annotation-xml", "foreignObject", "desc", "image", "img",
	"br", "hr", "applet", "object", "marquee", "ruby", "rb", "rt", "rtc", "rp", "address", "center", "details", "summary", "dialog",
	"menu", "nav", "section", "main", "figure", "hgroup", "search", "wbr", "area", "embed", "param", "source", "track", "bgsound",
	"article", "aside", "blockquote", "dir", "header", "footer", "hr", "menuitem", "mglyph", "malignmark", "g", "path", "unknown-tag", "x"}

var hotTags = []string{"table", "tr", "td", "a", "b", "p", "div", "select", "template", "svg", "math", "form", "li", "nobr", "i", "caption", "tbody", "button", "option", "frameset", "body", "html", "head", "font", "foreignObject", "annotation-xml", "mi", "desc", "title", "textarea", "script", "style", "plaintext", "noscript", "input", "col", "colgroup", "br", "p", "image", "dd", "h1", "ruby", "rt", "applet", "marquee", "object", "optgroup", "hr", "pre", "listing", "noframes", "iframe", "xmp", "mglyph", "malignmark", "th", "thead", "tfoot"}

func pickTag(r *vu.Rng) string {
	if r.Chance(2, 3) {
		return hotTags[r.Intn(len(hotTags))]
	}
	return tagPool[r.Intn(len(tagPool))]
}

func caseMix(r *vu.Rng, s string) string {
	if r.Chance(5, 6) {
		return s
	}
	b := []byte(s)
	for i := range b {
		if 'a' <= b[i] && b[i] <= 'z' && r.Bool() {
			b[i] -= 'a' - 'A'
		}
	}
	return string(b)
}

func genAttrs(r *vu.Rng, tag string) string {
	if r.Chance(3, 5) {
		return ""
	}
	pool := []string{` a=b`, ` id="x"`, ` type=hidden`, ` type="HIDDEN"`, ` type=text`, ` encoding="text/html"`, ` encoding=application/xhtml+xml`, ` encoding=x`,
		` color=red`, ` face=x`, ` size=1`, ` xlink:href=y`, ` xml:lang=en`, ` xmlns="http://www.w3.org/2000/svg"`, ` definitionurl=x`, ` a=b a=c`, ` href`, ` action=x`, ` name=isindex`, ` prompt=x`,
		` selected`, ` x="&amp;<>"`, " \x00=\x00", ` /`, ` viewbox=1`}
	var b strings.Builder
	for i, n := 0, r.Range(1, 3); i < n; i++ {
		b.WriteString(pool[r.Intn(len(pool))])
	}
	return b.String()
}

// foreign content × HTML-significant element names × integration points × HTML payloads
// that reset the insertion mode (closing a table/select/template/caption/cell) × trailers.
var foreignNames = []string{"template", "select", "table", "td", "tr", "caption", "colgroup", "head", "body", "html", "frameset",
	"title", "style", "script", "textarea", "p", "a", "b", "form", "button", "li", "input", "option", "g", "path", "mrow", "font", "nobr", "plaintext", "noscript", "iframe"}
var svgPoints = []string{"desc", "title", "foreignObject"}
var mathPoints = []string{"mi", "mo", "mn", "ms", "mtext", "annotation-xml encoding=\"text/html\"", "annotation-xml encoding=application/xhtml+xml", "annotation-xml"}
var resetPayloads = []string{"<table></table>", "<table><tr><td>1</td></tr></table>", "<select></select>", "<select><option>a</select>", "<template></template>",
	"<table><caption></caption>", "<table><td></td>", "<table><tr></tr>", "<table><tbody></tbody>", "<table><colgroup></colgroup>", "<p></p>", "<table><select></table>",
	"<template><td></template>", "<table><td><select></td>", "<frameset></frameset>", "<table><template></template></table>", "<table>", "<select>", "<template>", "<table><caption>"}
var trailers = []string{"x", "<p>x", "</svg>", "</math>", "<b>", "<!--c-->", "</template>", "</table>", "<td>", "<tr>", "</desc>", "</mi>", "<svg>", "<math>", " ", "</p>", "<template>", "<select>", "</html>x", "</body>x", "<col>", "<caption>"}

func genForeignDoc(r *vu.Rng) []byte {
	var b strings.Builder
	if r.Chance(1, 5) {
		b.WriteString([]string{"<table>", "<template>", "<select>", "<p>", "<table><tr><td>", "<body>", "<head>", "<frameset>"}[r.Intn(8)])
	}
	ns := r.Intn(2)
	b.WriteString([]string{"<svg>", "<math>"}[ns])
	for lvl, n := 0, r.Range(1, 3); lvl < n; lvl++ {
		for i, k := 0, r.Intn(3); i < k; i++ {
			b.WriteString("<" + caseMix(r, foreignNames[r.Intn(len(foreignNames))]) + genAttrs(r, "") + ">")
		}
		// integration point (sometimes of the other namespace, sometimes none)
		if r.Chance(5, 6) {
			pts := svgPoints
			if ns == 1 != r.Chance(1, 8) {
				pts = mathPoints
			}
			b.WriteString("<" + pts[r.Intn(len(pts))] + ">")
		}
		for i, k := 0, r.Range(1, 2); i < k; i++ {
			b.WriteString(resetPayloads[r.Intn(len(resetPayloads))])
		}
		if r.Chance(1, 3) {
			ns = r.Intn(2)
			b.WriteString([]string{"<svg>", "<math>"}[ns])
		}
	}
	for i, k := 0, r.Range(1, 4); i < k; i++ {
		b.WriteString(trailers[r.Intn(len(trailers))])
	}
	return []byte(b.String())
}

func genDoc(r *vu.Rng) []byte {
	var b strings.Builder
	var open []string
	if r.Chance(1, 5) {
		return genForeignDoc(r)
	}
	switch r.Intn(30) {
	case 0:
		// deep nesting around the 512 limit
		tag := []string{"div", "b", "span", "table", "a", "svg", "select", "template", "i", "font", "p", "li", "math", "td"}[r.Intn(14)]
		n := []int{100, 300, 505, 510, 511, 512, 513, 520, 700}[r.Intn(9)]
		for i := 0; i < n; i++ {
			b.WriteString("<" + tag + ">")
		}
		if r.Bool() {
			b.WriteString("x</" + tag + "><p>y")
		}
		return []byte(b.String())
	case 1:
		// adoption agency stress: many formatting elements then blocks
		n := r.Range(5, 40)
		for i := 0; i < n; i++ {
			b.WriteString("<" + []string{"a", "b", "i", "em", "font", "nobr", "s", "u", "code"}[r.Intn(9)] + ">")
			if r.Chance(1, 3) {
				b.WriteString("<" + []string{"p", "div", "table", "li", "button", "td"}[r.Intn(6)] + ">")
			}
		}
		for i := 0; i < n; i++ {
			b.WriteString("</" + []string{"a", "b", "i", "em", "font", "nobr", "s", "u", "code", "p", "div"}[r.Intn(11)] + ">x")
		}
		return []byte(b.String())
	case 2:
		return r.Bytes(r.Intn(60))
	case 3:
		return r.BytesFrom("<>/!-=\"' abtdrpsvgmi\x00\n", r.Intn(60))
	}
	if r.Chance(1, 4) {
		b.WriteString([]string{"<!DOCTYPE html>", "<!doctype html PUBLIC \"-//W3C//DTD HTML 4.01 Frameset//EN\">", "<!DOCTYPE x SYSTEM 'a\"b'>", "<!DOCTYPE html SYSTEM \"about:legacy-compat\">", "<!DOCTYPE>", "<!DOCTYPE a PUBLIC 'x\"y' \"z'w\">"}[r.Intn(6)])
	}
	n := r.Range(1, 40)
	for i := 0; i < n; i++ {
		switch c := r.Intn(20); {
		case c < 9:
			tag := pickTag(r)
			b.WriteString("<" + caseMix(r, tag) + genAttrs(r, tag))
			if r.Chance(1, 10) {
				b.WriteString("/")
			}
			b.WriteString(">")
			open = append(open, tag)
		case c < 13:
			tag := pickTag(r)
			if len(open) > 0 && r.Chance(3, 4) {
				j := len(open) - 1 - r.Intn(min(len(open), 3))
				tag = open[j]
				open = append(open[:j], open[j+1:]...)
			}
			b.WriteString("</" + caseMix(r, tag) + ">")
		case c < 17:
			b.WriteString([]string{"x", " ", "\n", "text", "a\x00b", " \t", "&amp;", "\r\n", "é", "  y  ", "\x00", "\f"}[r.Intn(12)])
		case c < 18:
			b.WriteString([]string{"<!--c-->", "<!-->", "<!--", "<!x>", "<?pi?>", "</>", "<!---->", "<!--a--!>"}[r.Intn(8)])
		case c < 19:
			b.WriteString([]string{"<![CDATA[x]]>", "<![CDATA[<a>]]>", "<![CDATA[", "<![CDATA[]]>", "<![CDATA[\x00]]>"}[r.Intn(5)])
		default:
			b.WriteString([]string{"<!DOCTYPE html>", "<!doctype>", "</br>", "</p>", "</body>", "</html>", "</body></html>x<!--c--><p>"}[r.Intn(7)])
		}
	}
	out := []byte(b.String())
	if r.Chance(1, 6) && len(out) > 0 {
		for k, m := 0, r.Range(1, 3); k < m && len(out) > 0; k++ {
			i := r.Intn(len(out))
			switch r.Intn(3) {
			case 0:
				out[i] = mutAlpha[r.Intn(len(mutAlpha))]
			case 1:
				out = append(out[:i], out[i+1:]...)
			default:
				out = out[:i]
			}
		}
	}
	return out
}

const mutAlpha = "<>/! \x00\"'="

type treeCfg struct {
	kind      string // parse | frag
	scripting bool
	ctx       string // tag, "-" for nil context
	ns        string // "-" | svg | math
	ctxAttr   string // "-" | enc-html | enc-x
	formAnc   bool   // context has a <form> ancestor
	chunk     int
	seed      uint64
	input     []byte
}

var ctxNames = []string{"template", "td", "th", "tr", "tbody", "thead", "tfoot", "caption", "colgroup", "table", "head", "body", "frameset", "html",
	"select", "title", "textarea", "style", "script", "noscript", "plaintext", "xmp", "iframe", "noembed", "noframes", "foreignObject", "desc", "annotation-xml",
	"mi", "mo", "mn", "ms", "mtext", "mglyph", "malignmark", "svg", "math", "form", "p", "option", "optgroup", "button", "li", "dd", "dt", "a", "b", "nobr", "font",
	"applet", "object", "marquee", "input", "br", "img", "col", "frame", "base", "link", "meta", "div", "ruby", "rt", "unknown-tag"}

func genTreeCfg(r *vu.Rng) treeCfg {
	c := treeCfg{kind: "parse", scripting: r.Chance(2, 3), ctx: "-", ns: "-", ctxAttr: "-", chunk: []int{0, 0, 1, 3, 7}[r.Intn(5)], seed: r.Uint64() >> 1, input: genDoc(r)}
	if r.Chance(1, 2) {
		c.kind = "frag"
		// The context's name and namespace are drawn independently: every name that has its
		// own case in resetInsertionMode / the insertion modes, in the HTML, SVG and MathML namespace.
		if !r.Chance(1, 12) { // else: nil context
			switch r.Intn(3) {
			case 0:
				c.ctx = ctxNames[r.Intn(len(ctxNames))]
			case 1:
				c.ctx = foreignNames[r.Intn(len(foreignNames))]
			default:
				c.ctx = pickTag(r)
			}
			c.ns = []string{"-", "-", "svg", "math"}[r.Intn(4)]
			if c.ctx == "annotation-xml" || r.Chance(1, 20) {
				c.ctxAttr = []string{"-", "enc-html", "enc-x"}[r.Intn(3)]
			}
		}
		c.formAnc = r.Chance(1, 6)
	}
	return c
}

func (c treeCfg) line() string {
	return fmt.Sprintf("tree %s %s %s %s %s %s %d %d %s", c.kind, b2s(c.scripting), c.ctx, c.ns, c.ctxAttr, b2s(c.formAnc), c.chunk, c.seed, vu.Hex(c.input))
}

func parseTreeCfg(t []string) (c treeCfg, ok bool) {
	if len(t) != 9 || (t[0] != "parse" && t[0] != "frag") {
		return c, false
	}
	c.kind, c.scripting, c.ctx, c.ns, c.ctxAttr, c.formAnc = t[0], t[1] == "1", t[2], t[3], t[4], t[5] == "1"
	var err error
	if c.chunk, err = strconv.Atoi(t[6]); err != nil || c.chunk < 0 {
		return c, false
	}
	if c.seed, err = strconv.ParseUint(t[7], 10, 64); err != nil {
		return c, false
	}
	c.input, ok = vu.ParseHex(t[8])
	return c, ok
}

type shortReader struct {
	data []byte
	pos  int
	max  int
	r    *vu.Rng
}

func (s *shortReader) Read(p []byte) (int, error) {
	if s.pos >= len(s.data) {
		return 0, io.EOF
	}
	n := len(s.data) - s.pos
	if s.max > 0 {
		if k := 1 + s.r.Intn(s.max); k < n {
			n = k
		}
	}
	if n > len(p) {
		n = len(p)
	}
	copy(p, s.data[s.pos:s.pos+n])
	s.pos += n
	return n, nil
}

type parseOut struct {
	roots []*html.Node
	err   error
}

func runParse(c treeCfg) parseOut {
	rd := &shortReader{data: c.input, max: c.chunk, r: vu.NewRng(c.seed)}
	opt := html.ParseOptionEnableScripting(c.scripting)
	if c.kind == "parse" {
		doc, err := html.ParseWithOptions(rd, opt)
		if err != nil {
			return parseOut{err: err}
		}
		return parseOut{roots: []*html.Node{doc}}
	}
	var ctx *html.Node
	if c.ctx != "-" {
		ctx = &html.Node{Type: html.ElementNode, Data: c.ctx, DataAtom: atom.Lookup([]byte(c.ctx))}
		if c.ns != "-" {
			ctx.Namespace = c.ns
		}
		switch c.ctxAttr {
		case "enc-html":
			ctx.Attr = []html.Attribute{{Key: "encoding", Val: "text/html"}}
		case "enc-x":
			ctx.Attr = []html.Attribute{{Key: "encoding", Val: "x"}}
		}
		if c.formAnc {
			form := &html.Node{Type: html.ElementNode, Data: "form", DataAtom: atom.Form}
			form.AppendChild(ctx)
		}
	}
	nodes, err := html.ParseFragmentWithOptions(rd, ctx, opt)
	return parseOut{roots: nodes, err: err}
}

// serialise walks everything reachable from the roots through any of the five
// link fields (terminates on cyclic structures: ids are assigned once).
func serialise(roots []*html.Node, stop *html.Node) (lines []string, count int) {
	id := map[*html.Node]int{}
	var order []*html.Node
	add := func(n *html.Node) {
		if n == nil || n == stop {
			return
		}
		if _, ok := id[n]; !ok {
			id[n] = len(order)
			order = append(order, n)
		}
	}
	for _, r := range roots {
		add(r)
	}
	for i := 0; i < len(order); i++ {
		n := order[i]
		add(n.FirstChild)
		add(n.NextSibling)
		add(n.LastChild)
		add(n.PrevSibling)
		add(n.Parent)
	}
	p := func(n *html.Node) string {
		if n == nil {
			return "-"
		}
		if n == stop {
			return "999999999" // a link into the caller's context tree would be dangling for the checker
		}
		return strconv.Itoa(id[n])
	}
	for i, n := range order {
		lines = append(lines, fmt.Sprintf("node %d %d %s %s %s %s %s", i, n.Type, p(n.Parent), p(n.FirstChild), p(n.LastChild), p(n.PrevSibling), p(n.NextSibling)))
	}
	return lines, len(order)
}

type treeRes struct {
	out       parseOut
	lines     []string
	count     int
	consOK    bool
	renderErr []string
}

func execTree(c treeCfg) treeRes {
	var res treeRes
	res.out = runParse(c)
	if res.out.err != nil {
		return res
	}
	res.lines, res.count = serialise(res.out.roots, nil)
	// Go-side statement of the property on the returned tree
	var all []*html.Node
	{
		seen := map[*html.Node]bool{}
		var q []*html.Node
		for _, r := range res.out.roots {
			if !seen[r] {
				seen[r] = true
				q = append(q, r)
			}
		}
		for i := 0; i < len(q); i++ {
			for _, m := range []*html.Node{q[i].FirstChild, q[i].NextSibling, q[i].LastChild, q[i].PrevSibling, q[i].Parent} {
				if m != nil && !seen[m] {
					seen[m] = true
					q = append(q, m)
				}
			}
		}
		all = q
	}
	res.consOK = consistent(all) && acyclic(all)
	if res.consOK {
		for _, r := range res.out.roots {
			var b bytes.Buffer
			if err := html.Render(&b, r); err != nil {
				res.renderErr = append(res.renderErr, err.Error())
			}
		}
	}
	return res
}

func withWatchdog(f func() treeRes) (res treeRes, panicMsg string, hung bool) {
	type out struct {
		r treeRes
		p string
	}
	ch := make(chan out, 1)
	go func() {
		var o out
		defer func() {
			if e := recover(); e != nil {
				o.p = fmt.Sprint(e)
				if o.p == "" {
					o.p = "panic"
				}
			}
			ch <- o
		}()
		o.r = f()
	}()
	select {
	case o := <-ch:
		return o.r, o.p, false
	case <-time.After(60 * time.Second):
		return treeRes{}, "", true
	}
}

func execTrees(ops []string, o *vu.Out) {
	for _, op := range ops {
		t := strings.Fields(op)
		if len(t) == 0 {
			continue
		}
		switch t[0] {
		case "node", "check", "abort":
			continue // recorded events; regenerated
		case "tree":
		default:
			o.Op(op, "bad-op")
			continue
		}
		c, ok := parseTreeCfg(t[1:])
		if !ok {
			o.Op(op, "bad-op")
			continue
		}
		desc := fmt.Sprintf("kind=%s scripting=%v ctx=%s ns=%s attr=%s form=%v input=%q", c.kind, c.scripting, c.ctx, c.ns, c.ctxAttr, c.formAnc, c.input)
		res, pmsg, hung := withWatchdog(func() treeRes { return execTree(c) })
		o.Op(op, "ok")
		o.Stat("kind:" + c.kind)
		switch {
		case hung:
			o.Fail("hang", "Parse did not terminate within 60s: "+desc)
			o.Op("abort hang", "ok")
			continue
		case pmsg != "":
			o.Fail("panic", "panic escaped Parse/Render ("+pmsg+"): "+desc)
			o.Op("abort panic", "ok")
			continue
		}
		if err := res.out.err; err != nil {
			if strings.Contains(err.Error(), "open stack of elements exceeds 512 nodes") {
				// documented rejection ("Parse will reject HTML that is nested deeper than 512 elements")
				o.Stat("result:depth-limit")
				o.Op("check 0", "ok")
				continue
			}
			o.Fail("parse-error", fmt.Sprintf("no tree returned, err=%q: %s", err.Error(), desc))
			continue
		}
		o.Stat("result:tree")
		o.StatN("nodes", res.count)
		for _, l := range res.lines {
			o.Op(l, "ok")
		}
		o.Op(fmt.Sprintf("check %d", res.count), "ok")
		if !res.consOK {
			o.Fail("tree-not-wellformed", "returned tree has inconsistent or cyclic links: "+desc)
		}
		for _, n := range res.out.roots {
			if c.kind == "parse" && n.Type != html.DocumentNode {
				o.Fail("root-not-document", desc)
			}
		}
		for _, e := range res.renderErr {
			o.Fail("render-error", fmt.Sprintf("Render failed (%s): %s", e, desc))
		}
	}
}

func gen(r *vu.Rng, i int) []string {
	if mode == "tree" {
		return []string{genTreeCfg(r).line()}
	}
	return genOps(r)
}

func exec(ops []string, o *vu.Out) {
	if mode == "tree" {
		execTrees(ops, o)
		return
	}
	execOps(ops, o)
}

func main() { vu.Main(gen, exec) }
