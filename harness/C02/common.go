//go:build verif

// Shared by the C02 and C03 harnesses: a wrapped hpack.Decoder, the op executor with canonical
// result lines, a block generator and a naive reference decoder.
package main

import (
	"encoding/hex"
	"fmt"
	"strconv"
	"strings"

	"golang.org/x/net/http2/hpack"
	vu "golang.org/x/net/internal/verifutil"
)

type decw struct {
	d     *hpack.Decoder
	emits []hpack.HeaderField
}

func newDecw(maxTable uint32) *decw {
	w := &decw{}
	w.d = hpack.NewDecoder(maxTable, func(f hpack.HeaderField) { w.emits = append(w.emits, f) })
	return w
}

func errTag(err error) string {
	if err == nil {
		return "ok"
	}
	if hpack.VerifIsNeedMore(err) {
		return "err NeedMore"
	}
	switch err {
	case hpack.ErrStringLength:
		return "err StringLength"
	case hpack.ErrInvalidHuffman:
		return "err Huffman"
	}
	if de, ok := err.(hpack.DecodingError); ok {
		if _, ok := de.Err.(hpack.InvalidIndexError); ok {
			return "err InvalidIndex"
		}
		m := de.Err.Error()
		switch {
		case m == "truncated headers":
			return "err Truncated"
		case m == "dynamic table size update too large":
			return "err UpdateTooLarge"
		case strings.HasPrefix(m, "dynamic table size update MUST occur"):
			return "err UpdateNotAtStart"
		case m == "varint integer overflow":
			return "err VarintOverflow"
		case m == "invalid encoding":
			return "err InvalidEncoding"
		}
	}
	return "err Other"
}

func showEmits(em []hpack.HeaderField) string {
	if len(em) == 0 {
		return "-"
	}
	var p []string
	for _, f := range em {
		s := 0
		if f.Sensitive {
			s = 1
		}
		p = append(p, fmt.Sprintf("%s:%s:%d", hex.EncodeToString([]byte(f.Name)), hex.EncodeToString([]byte(f.Value)), s))
	}
	return strings.Join(p, ",")
}

func showEntries(es []hpack.HeaderField) string {
	if len(es) == 0 {
		return "-"
	}
	var p []string
	for _, f := range es {
		p = append(p, hex.EncodeToString([]byte(f.Name))+":"+hex.EncodeToString([]byte(f.Value)))
	}
	return strings.Join(p, ",")
}

func (w *decw) state() string {
	size, maxSize, allowed, ents, sl, ff := hpack.VerifDecState(w.d)
	f := 0
	if ff {
		f = 1
	}
	return fmt.Sprintf("T %d %d %d %s S %d %d", size, maxSize, allowed, showEntries(ents), sl, f)
}

// takeEmits returns and clears the fields emitted since the last call.
func (w *decw) takeEmits() []hpack.HeaderField {
	e := w.emits
	w.emits = nil
	return e
}

func chunksAt(b []byte, cuts []int) [][]byte {
	var out [][]byte
	pos := 0
	for _, c := range cuts {
		out = append(out, b[pos:c])
		pos = c
	}
	return append(out, b[pos:])
}

func parseCuts(s string) []int {
	if s == "-" {
		return nil
	}
	var out []int
	for _, t := range strings.Split(s, ",") {
		out = append(out, vu.Atoi(t))
	}
	return out
}

func showCuts(c []int) string {
	if len(c) == 0 {
		return "-"
	}
	var p []string
	for _, x := range c {
		p = append(p, strconv.Itoa(x))
	}
	return strings.Join(p, ",")
}

// runBlock feeds chunks with Write (stopping at the first error) and then calls Close.
func (w *decw) runBlock(chunks [][]byte) (emits []hpack.HeaderField, err error) {
	for _, c := range chunks {
		if _, err = w.d.Write(c); err != nil {
			return w.takeEmits(), err
		}
	}
	err = w.d.Close()
	return w.takeEmits(), err
}

// ---------------------------------------------------------------- generator of header blocks

var genNames = []string{"a", "x-k", ":path", "cookie", "content-type", "long-name-0123456789012345678901234567890", ""}
var genValues = []string{"", "1", "GET", "/index.html", "gzip, deflate", "v\x00\xff\x80", "0123456789abcdefghijklmnopqrstuvwxyz0123456789abcdefghijklmnopqrstuvwxyz"}

// appendVarInt encodes i with an n-bit prefix; extra > 0 makes the encoding over-long by
// appending that many 0x80 continuation bytes before the final 0x00 (only when a continuation exists).
func appendVarInt(dst []byte, n uint, first byte, i uint64, extra int) []byte {
	k := uint64(1<<n) - 1
	if i < k {
		return append(dst, first|byte(i))
	}
	dst = append(dst, first|byte(k))
	i -= k
	for i >= 128 {
		dst = append(dst, byte(0x80|(i&0x7f)))
		i >>= 7
	}
	if extra == 0 {
		return append(dst, byte(i))
	}
	dst = append(dst, byte(i)|0x80)
	for j := 0; j < extra-1; j++ {
		dst = append(dst, 0x80)
	}
	return append(dst, 0)
}

type blockGen struct {
	r        *vu.Rng
	maxStr   int
	overlong bool // allow over-long varints
}

func (g *blockGen) str(dst []byte, s string) []byte {
	r := g.r
	extra := 0
	if g.overlong && r.Chance(1, 3) {
		extra = r.Range(1, 9)
	}
	if r.Chance(1, 3) {
		h := hpack.AppendHuffmanString(nil, s)
		if r.Chance(1, 12) && len(h) > 0 {
			h[r.Intn(len(h))] ^= 1 << uint(r.Intn(8)) // probably invalid Huffman
		}
		dst = g.lenPrefix(dst, 0x80, uint64(len(h)), extra)
		return append(dst, h...)
	}
	dst = g.lenPrefix(dst, 0, uint64(len(s)), extra)
	return append(dst, s...)
}

func (g *blockGen) lenPrefix(dst []byte, first byte, l uint64, extra int) []byte {
	if l < 127 {
		if extra > 0 {
			// a value below the prefix limit has no over-long form
			return append(dst, first|byte(l))
		}
		return append(dst, first|byte(l))
	}
	return appendVarInt(dst, 7, first, l, extra)
}

func (g *blockGen) pickStr(pool []string) string {
	r := g.r
	switch r.Intn(8) {
	case 0:
		n := r.Intn(6)
		if g.maxStr > 0 && r.Bool() {
			n = g.maxStr + r.Range(-1, 1)
			if n < 0 {
				n = 0
			}
		}
		return string(r.BytesFrom("abc/=\x00\xfe", n))
	case 1:
		if g.maxStr > 0 {
			return strings.Repeat("z", g.maxStr)
		}
	}
	return pool[r.Intn(len(pool))]
}

// rep appends one field representation. dynCount is a guess of the dynamic table length.
func (g *blockGen) rep(dst []byte, dynCount int, first bool) []byte {
	r := g.r
	staticLen := 61
	idx := func() uint64 {
		switch r.Intn(10) {
		case 0:
			return 0
		case 1:
			return uint64(staticLen + dynCount + r.Range(1, 3))
		case 2, 3, 4:
			return uint64(staticLen + r.Range(1, dynCount+1))
		case 5:
			return uint64(staticLen)
		}
		return uint64(r.Range(1, staticLen))
	}
	vextra := 0
	if g.overlong && r.Chance(1, 4) {
		vextra = r.Range(1, 9)
	}
	switch k := r.Intn(20); {
	case k < 5: // indexed
		i := idx()
		return appendVarInt(dst, 7, 0x80, i, vextra)
	case k < 17: // literal
		var n uint
		var fb byte
		switch r.Intn(3) {
		case 0:
			n, fb = 6, 0x40
		case 1:
			n, fb = 4, 0x00
		default:
			n, fb = 4, 0x10
		}
		if r.Bool() {
			i := idx()
			if i == 0 && r.Chance(9, 10) {
				i = 1
			}
			dst = appendVarInt(dst, n, fb, i, vextra)
		} else {
			dst = append(dst, fb)
			dst = g.str(dst, g.pickStr(genNames))
		}
		return g.str(dst, g.pickStr(genValues))
	case k < 19: // size update
		v := uint64(r.Intn(300))
		if r.Chance(1, 4) {
			v = r.Boundary(33)
		}
		return appendVarInt(dst, 5, 0x20, v, vextra)
	default:
		if r.Bool() {
			// varint overflow / very long varint
			dst = append(dst, 0xff)
			for j := r.Range(8, 11); j > 0; j-- {
				dst = append(dst, 0x80|byte(r.Intn(128)))
			}
			return append(dst, byte(r.Intn(128)))
		}
		return append(dst, r.Bytes(r.Range(1, 4))...)
	}
}

// block generates a header block: mostly valid representations, sometimes mutated.
func (g *blockGen) block(dynCount int) []byte {
	r := g.r
	var b []byte
	n := r.Range(1, 5)
	if r.Chance(1, 4) {
		b = appendVarInt(b, 5, 0x20, uint64(r.Intn(200)), 0)
	}
	for i := 0; i < n; i++ {
		b = g.rep(b, dynCount+i, i == 0)
	}
	switch r.Intn(12) {
	case 0:
		if len(b) > 1 {
			b = b[:r.Range(1, len(b)-1)]
		}
	case 1:
		b[r.Intn(len(b))] ^= 1 << uint(r.Intn(8))
	case 2:
		b = append(b, r.Bytes(r.Range(1, 3))...)
	}
	return b
}

func randomCuts(r *vu.Rng, n int) []int {
	if n < 2 {
		return nil
	}
	k := r.Intn(4)
	if r.Chance(1, 6) {
		k = n - 1 // every byte on its own
	}
	seen := map[int]bool{}
	var cuts []int
	for i := 0; i < n-1 && len(cuts) < k; i++ {
		_ = i
		c := r.Range(0, n)
		if r.Chance(1, 8) {
			c = []int{0, n}[r.Intn(2)] // empty first / last chunk
		}
		if !seen[c] {
			seen[c] = true
			cuts = append(cuts, c)
		}
	}
	// sort
	for i := range cuts {
		for j := i + 1; j < len(cuts); j++ {
			if cuts[j] < cuts[i] {
				cuts[i], cuts[j] = cuts[j], cuts[i]
			}
		}
	}
	if k == n-1 {
		cuts = cuts[:0]
		for c := 1; c < n; c++ {
			cuts = append(cuts, c)
		}
	}
	return cuts
}

// ---------------------------------------------------------------- naive reference decoder

// refDec decodes complete header blocks at once (RFC 7541), with its own table; no resumption,
// no paranoia bound. It mirrors only the documented limits (max string length, allowed table size).
type refDec struct {
	ents       [][2]string // newest first
	maxSize    uint64
	allowed    uint64
	maxStr     int
	emitOn     bool
	firstField bool
}

func (t *refDec) size() uint64 {
	var s uint64
	for _, e := range t.ents {
		s += uint64(len(e[0]) + len(e[1]) + 32)
	}
	return s
}

func (t *refDec) evict() {
	for t.size() > t.maxSize && len(t.ents) > 0 {
		t.ents = t.ents[:len(t.ents)-1]
	}
}

func (t *refDec) at(i uint64) (string, string, bool) {
	st := uint64(hpack.VerifStaticLen())
	if i == 0 {
		return "", "", false
	}
	if i <= st {
		// static entries through a throw-away real decoder
		hf, ok := hpack.VerifAt(hpack.NewDecoder(0, nil), i)
		return hf.Name, hf.Value, ok
	}
	k := i - st
	if k > uint64(len(t.ents)) {
		return "", "", false
	}
	return t.ents[k-1][0], t.ents[k-1][1], true
}

var errRef = fmt.Errorf("ref: error")
var errRefTrunc = fmt.Errorf("ref: truncated")

func refVarInt(n uint, p []byte) (uint64, []byte, error) {
	if len(p) == 0 {
		return 0, nil, errRefTrunc
	}
	k := uint64(1<<n) - 1
	i := uint64(p[0]) & k
	p = p[1:]
	if i < k {
		return i, p, nil
	}
	for cnt := 0; ; cnt++ {
		if len(p) == 0 {
			return 0, nil, errRefTrunc
		}
		b := p[0]
		p = p[1:]
		i += uint64(b&0x7f) << (7 * uint(cnt))
		if b&0x80 == 0 {
			return i, p, nil
		}
		if cnt >= 8 {
			return 0, nil, errRef
		}
	}
}

// str reads one string literal. status: 0 decoded, 1 not decoded (not wanted), 2 undecodable / too long.
func (t *refDec) str(p []byte, decode bool) (s string, status int, rest []byte, err error) {
	if len(p) == 0 {
		return "", 0, nil, errRefTrunc
	}
	huff := p[0]&0x80 != 0
	l, p, err := refVarInt(7, p)
	if err != nil {
		return "", 0, nil, err
	}
	if t.maxStr != 0 && l > uint64(t.maxStr) {
		return "", 0, nil, errRef
	}
	if uint64(len(p)) < l {
		return "", 0, nil, errRefTrunc
	}
	raw := p[:l]
	p = p[l:]
	if !decode {
		return "", 1, p, nil
	}
	if !huff {
		return string(raw), 0, p, nil
	}
	s, err = hpack.HuffmanDecodeToString(raw)
	if err != nil {
		return "", 2, p, nil // reported by the caller after all strings were read
	}
	if t.maxStr != 0 && len(s) > t.maxStr {
		return "", 2, p, nil
	}
	return s, 0, p, nil
}

// block decodes one complete block; returns the emitted fields and whether it failed.
func (t *refDec) block(p []byte) (em []hpack.HeaderField, failed bool) {
	defer func() {
		if !failed {
			t.firstField = true
		}
	}()
	for len(p) > 0 {
		b := p[0]
		var err error
		switch {
		case b&0x80 != 0:
			var i uint64
			i, p, err = refVarInt(7, p)
			if err != nil {
				return em, true
			}
			n, v, ok := t.at(i)
			if !ok {
				return em, true
			}
			t.firstField = false
			if t.maxStr != 0 && (len(n) > t.maxStr || len(v) > t.maxStr) {
				return em, true
			}
			if t.emitOn {
				em = append(em, hpack.HeaderField{Name: n, Value: v})
			}
		case b&0xe0 == 0x20:
			if !t.firstField && t.size() > 0 {
				return em, true
			}
			var v uint64
			v, p, err = refVarInt(5, p)
			if err != nil || v > t.allowed {
				return em, true
			}
			// a table size update does not end the beginning of the block (RFC 7541 §4.2, several
			// updates are allowed there): firstField is kept (repaired Decoder.Write, fix for C01)
			t.maxSize = v
			t.evict()
		default:
			n := uint(4)
			indexed, sensitive := false, b&0xf0 == 0x10
			if b&0xc0 == 0x40 {
				n, indexed = 6, true
			}
			var i uint64
			i, p, err = refVarInt(n, p)
			if err != nil {
				return em, true
			}
			want := t.emitOn || indexed
			var name, value string
			var ns, vs int
			if i > 0 {
				nm, _, ok := t.at(i)
				if !ok {
					return em, true
				}
				name = nm
			} else {
				name, ns, p, err = t.str(p, want)
				if err != nil {
					return em, true
				}
			}
			value, vs, p, err = t.str(p, want)
			if err != nil {
				return em, true
			}
			t.firstField = false
			if ns == 2 || vs == 2 {
				return em, true
			}
			if indexed {
				t.ents = append([][2]string{{name, value}}, t.ents...)
				t.evict()
			}
			if t.maxStr != 0 && (len(name) > t.maxStr || len(value) > t.maxStr) {
				return em, true
			}
			if t.emitOn {
				em = append(em, hpack.HeaderField{Name: name, Value: value, Sensitive: sensitive})
			}
		}
	}
	return em, false
}

func sameFields(a, b []hpack.HeaderField) bool {
	if len(a) != len(b) {
		return false
	}
	for i := range a {
		if a[i] != b[i] {
			return false
		}
	}
	return true
}
