//go:build verif

// C02 harness: hpack.Decoder safety and limits on arbitrary input.
// A case: new + config ops, then header blocks fed as Write chunks + Close, with config changes
// between blocks; plus readVarInt / Decoder.at probes.
package main

import (
	"fmt"
	"strings"

	"golang.org/x/net/http2/hpack"
	vu "golang.org/x/net/internal/verifutil"
)

var tableSizes = []int{0, 32, 33, 64, 100, 128, 256, 4096}
var strLens = []int{0, 0, 1, 3, 10, 40, 127}

func gen(r *vu.Rng, i int) []string {
	if r.Chance(1, 10) {
		return genVarint(r)
	}
	var ops []string
	maxTable := tableSizes[r.Intn(len(tableSizes))]
	ops = append(ops, fmt.Sprintf("new %d", maxTable))
	g := &blockGen{r: r, overlong: r.Chance(1, 3)}
	dyn := 0
	nblocks := r.Range(1, 4)
	for b := 0; b < nblocks; b++ {
		if r.Chance(1, 2) {
			g.maxStr = strLens[r.Intn(len(strLens))]
			ops = append(ops, fmt.Sprintf("maxstr %d", g.maxStr))
		}
		if r.Chance(1, 5) {
			ops = append(ops, fmt.Sprintf("allowed %d", tableSizes[r.Intn(len(tableSizes))]))
		}
		if r.Chance(1, 6) {
			ops = append(ops, fmt.Sprintf("setmax %d", tableSizes[r.Intn(len(tableSizes))]))
		}
		if r.Chance(1, 8) {
			ops = append(ops, fmt.Sprintf("emit %d", r.Intn(2)))
		}
		blk := g.block(dyn)
		dyn += 2
		for _, c := range chunksAt(blk, randomCuts(r, len(blk))) {
			ops = append(ops, "write "+vu.Hex(c))
		}
		ops = append(ops, "close")
		if r.Chance(1, 6) {
			ops = append(ops, fmt.Sprintf("at %d", r.Range(0, 70)))
		}
	}
	return ops
}

func genVarint(r *vu.Rng) []string {
	n := r.Range(1, 8)
	var b []byte
	switch r.Intn(4) {
	case 0:
		b = r.Bytes(r.Intn(13))
	case 1:
		b = append([]byte{0xff}, r.Bytes(r.Intn(12))...)
		for i := 1; i < len(b)-1; i++ {
			b[i] |= 0x80
		}
	default:
		b = appendVarInt(nil, uint(n), byte(r.Uint64())&^byte(1<<uint(n)-1), r.Boundary(63), r.Intn(3)*r.Intn(5))
		if r.Chance(1, 4) && len(b) > 0 {
			b = b[:r.Intn(len(b))]
		}
		b = append(b, r.Bytes(r.Intn(3))...)
	}
	return []string{fmt.Sprintf("varint %d %s", n, vu.Hex(b))}
}

type caseState struct {
	w       *decw
	ref     *refDec
	refOK   bool   // reference still in sync (no aborted block so far)
	blk     []byte // bytes written since the last Close
	blkEm   []hpack.HeaderField
	blkErr  bool
	maxStr  int
	entered bool
	// why maxSize may legitimately exceed allowedMaxSize right now:
	loweredAllowed bool // SetAllowedMaxDynamicTableSize(v) was called with v below the then-current maxSize (finding region)
	raisedMax      bool // SetMaxDynamicTableSize(v) was called with v above allowedMaxSize (local override; outside C02)
}

func exec(ops []string, o *vu.Out) {
	var cs caseState
	for _, op := range ops {
		t := strings.Fields(op)
		if len(t) == 0 {
			o.Op(op, "bad-op")
			continue
		}
		o.Stat("op:" + t[0])
		res := vu.Catch(func() string { return cs.step(t, o) })
		if res == "panic" {
			o.Fail("", "hpack decoder panicked on "+op)
		}
		o.Op(op, res)
	}
}

func (cs *caseState) step(t []string, o *vu.Out) string {
	if t[0] == "new" && len(t) == 2 {
		n := uint32(vu.Atoi(t[1]))
		*cs = caseState{w: newDecw(n), ref: &refDec{maxSize: uint64(n), allowed: uint64(n), emitOn: true, firstField: true}, refOK: true}
		return "ok"
	}
	if t[0] == "varint" && len(t) == 3 {
		n := vu.Atoi(t[1])
		p := vu.MustHex(t[2])
		v, rem, err := hpack.VerifReadVarInt(byte(n), p)
		if err != nil {
			o.Stat("varint:" + errTag(err))
			return errTag(err)
		}
		o.Stat("varint:ok")
		if len(p)-rem > 10 || len(p)-rem < 1 {
			o.Fail("", fmt.Sprintf("readVarInt(%d,%x) consumed %d bytes", n, p, len(p)-rem))
		}
		// independent recomputation with big-enough arithmetic: value < 2^63 + 2^8 cannot wrap
		if rv, rp, rerr := refVarInt(uint(n), p); rerr != nil || rv != v || len(rp) != rem {
			o.Fail("", fmt.Sprintf("readVarInt(%d,%x) = %d rem %d; reference %d rem %d err %v", n, p, v, rem, rv, len(rp), rerr))
		}
		return fmt.Sprintf("ok %d %d", v, rem)
	}
	if cs.w == nil {
		return "bad-op"
	}
	w := cs.w
	switch {
	case t[0] == "maxstr" && len(t) == 2:
		cs.maxStr = vu.Atoi(t[1])
		w.d.SetMaxStringLength(cs.maxStr)
		cs.ref.maxStr = cs.maxStr
		return "ok"
	case t[0] == "allowed" && len(t) == 2:
		_, maxBefore, _, _, _, _ := hpack.VerifDecState(w.d)
		w.d.SetAllowedMaxDynamicTableSize(uint32(vu.Atoi(t[1])))
		cs.ref.allowed = uint64(vu.Atoi(t[1]))
		if uint32(vu.Atoi(t[1])) < maxBefore {
			cs.loweredAllowed = true
			o.Stat("allowed:lowered-below-maxSize")
		}
		cs.invariants(o, "allowed")
		return "ok"
	case t[0] == "setmax" && len(t) == 2:
		w.d.SetMaxDynamicTableSize(uint32(vu.Atoi(t[1])))
		cs.ref.maxSize = uint64(vu.Atoi(t[1]))
		if _, _, al, _, _, _ := hpack.VerifDecState(w.d); uint32(vu.Atoi(t[1])) > al {
			cs.raisedMax = true
		}
		cs.ref.evict()
		cs.invariants(o, "setmax")
		return "ok " + w.state()
	case t[0] == "emit" && len(t) == 2:
		w.d.SetEmitEnabled(t[1] == "1")
		cs.ref.emitOn = t[1] == "1"
		return "ok"
	case t[0] == "at" && len(t) == 2:
		hf, ok := hpack.VerifAt(w.d, uint64(vu.Atoi(t[1])))
		if !ok {
			return "err InvalidIndex"
		}
		return "ok " + showEntries([]hpack.HeaderField{hf})
	case t[0] == "write" && len(t) == 2:
		p := vu.MustHex(t[1])
		n, err := w.d.Write(p)
		em := w.takeEmits()
		if err == nil && n != len(p) {
			o.Fail("", fmt.Sprintf("Write returned n=%d for %d bytes without error", n, len(p)))
		}
		cs.blk = append(cs.blk, p...)
		cs.blkEm = append(cs.blkEm, em...)
		o.Stat("write:" + errTag(err))
		cs.afterCall(o, em, err)
		if err != nil {
			cs.blkErr = true
			cs.blockDone(o, true)
		}
		return errTag(err) + " E " + showEmits(em) + " " + w.state()
	case t[0] == "close" && len(t) == 1:
		_, _, _, _, saved, _ := hpack.VerifDecState(w.d)
		err := w.d.Close()
		o.Stat("close:" + errTag(err))
		if (saved > 0) != (err != nil) {
			o.Fail("", fmt.Sprintf("Close with %d unparsed bytes returned %v", saved, err))
		}
		cs.afterCall(o, nil, err)
		if !cs.blkErr {
			cs.blockDone(o, err != nil)
		}
		cs.blk, cs.blkEm, cs.blkErr = nil, nil, false
		return errTag(err) + " E - " + w.state()
	}
	return "bad-op"
}

// invariants: limits that must hold after every public call (C02).
func (cs *caseState) invariants(o *vu.Out, where string) {
	size, maxSize, _, ents, _, _ := hpack.VerifDecState(cs.w.d)
	var sum uint64
	for _, e := range ents {
		sum += uint64(e.Size())
	}
	if uint64(size) != sum {
		o.Fail("", fmt.Sprintf("after %s: dynTab.size=%d but entries sum to %d", where, size, sum))
	}
	if size > maxSize {
		o.Fail("", fmt.Sprintf("after %s: dynamic table size %d exceeds maxSize %d", where, size, maxSize))
	}
	// C02 "never lets its dynamic table exceed the allowed maximum size": the peer can never get
	// maxSize above allowedMaxSize; maxSize > allowedMaxSize can only come from the two local calls.
	_, _, allowed, _, _, _ := hpack.VerifDecState(cs.w.d)
	if maxSize <= allowed {
		cs.loweredAllowed, cs.raisedMax = false, false
	} else if !cs.loweredAllowed && !cs.raisedMax {
		o.Fail("", fmt.Sprintf("after %s: maxSize %d exceeds allowedMaxSize %d without a local call causing it", where, maxSize, allowed))
	}
	if size > allowed {
		switch {
		case cs.loweredAllowed:
			// known finding: lowering the allowed maximum is not enforced against the current table
			o.Fail("c02-allowed-lowered-not-enforced", fmt.Sprintf("after %s: dynamic table size %d exceeds allowedMaxSize %d (lowered below maxSize %d by SetAllowedMaxDynamicTableSize)", where, size, allowed, maxSize))
		case cs.raisedMax:
			o.Stat("size>allowed:local-SetMaxDynamicTableSize")
		default:
			o.Fail("", fmt.Sprintf("after %s: dynamic table size %d exceeds allowedMaxSize %d", where, size, allowed))
		}
	}
}

func (cs *caseState) afterCall(o *vu.Out, em []hpack.HeaderField, err error) {
	cs.invariants(o, "write/close")
	if cs.maxStr != 0 {
		for _, f := range em {
			if len(f.Name) > cs.maxStr || len(f.Value) > cs.maxStr {
				o.Fail("", fmt.Sprintf("emitted field %q=%q exceeds max string length %d", f.Name, f.Value, cs.maxStr))
			}
		}
	}
	if err != nil && hpack.VerifIsNeedMore(err) {
		o.Fail("", "internal errNeedMore escaped")
	}
}

// blockDone compares the finished (or aborted) block with the naive reference decoder:
// same emitted fields, same success/failure, same table afterwards.
func (cs *caseState) blockDone(o *vu.Out, failed bool) {
	if !cs.refOK {
		return
	}
	em, rfailed := cs.ref.block(cs.blk)
	if failed || rfailed {
		cs.refOK = false // the reference cannot resume after an aborted block
	}
	if failed != rfailed {
		// the saveBuf paranoia bound turns a (truncated-so-far) long representation into an error early;
		// both are failures of the block in the end only if the block really is bad
		o.Fail("", fmt.Sprintf("block %x: decoder failed=%v, reference failed=%v (fabricated or lost error)", cs.blk, failed, rfailed))
		return
	}
	if !sameFields(em, cs.blkEm) {
		o.Fail("", fmt.Sprintf("block %x: emitted %s, reference %s", cs.blk, showEmits(cs.blkEm), showEmits(em)))
	}
	if !failed {
		_, _, _, ents, _, _ := hpack.VerifDecState(cs.w.d)
		var re []hpack.HeaderField
		for _, e := range cs.ref.ents {
			re = append(re, hpack.HeaderField{Name: e[0], Value: e[1]})
		}
		if showEntries(ents) != showEntries(re) {
			o.Fail("", fmt.Sprintf("block %x: table %s, reference %s", cs.blk, showEntries(ents), showEntries(re)))
		}
	}
}

func main() { vu.Main(gen, exec) }
