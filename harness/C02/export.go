//go:build verif

package hpack

// White-box accessors for the /verif harnesses of C02 and C03 (injected with -overlay).

// VerifDecState returns the observable and internal decoder state:
// table size fields, entries NEWEST FIRST, bytes held in saveBuf, firstField.
func VerifDecState(d *Decoder) (size, maxSize, allowed uint32, ents []HeaderField, saveLen int, firstField bool) {
	t := d.dynTab.table
	for i := len(t.ents) - 1; i >= 0; i-- {
		ents = append(ents, t.ents[i])
	}
	return d.dynTab.size, d.dynTab.maxSize, d.dynTab.allowedMaxSize, ents, d.saveBuf.Len(), d.firstField
}

// VerifReadVarInt exposes readVarInt; rem is len(remain).
func VerifReadVarInt(n byte, p []byte) (v uint64, rem int, err error) {
	v, r, err := readVarInt(n, p)
	return v, len(r), err
}

// VerifIsNeedMore reports the internal sentinel.
func VerifIsNeedMore(err error) bool { return err == errNeedMore }

// VerifAt exposes Decoder.at.
func VerifAt(d *Decoder, i uint64) (HeaderField, bool) { return d.at(i) }

// VerifStaticLen is staticTable.len().
func VerifStaticLen() int { return staticTable.len() }
