//go:build verif

// C55 harness: http/httpguts header validity checks.
package main

import (
	"fmt"
	"strconv"
	"strings"

	"golang.org/x/net/http/httpguts"
	vu "golang.org/x/net/internal/verifutil"
)

const tcharSpecials = "!#$%&'*+-.^_`|~"
const tokenAlphabet = tcharSpecials + "0123456789abcdefghijklmnopqrstuvwxyzABCDEFGHIJKLMNOPQRSTUVWXYZ"

// ---- reference definitions (RFC 9110 §5.6.2, §5.5; written independently) ----

func refTchar(b byte) bool {
	switch {
	case '0' <= b && b <= '9', 'a' <= b && b <= 'z', 'A' <= b && b <= 'Z':
		return true
	}
	return strings.IndexByte(tcharSpecials, b) >= 0
}

func refName(s string) bool {
	if s == "" {
		return false
	}
	for i := 0; i < len(s); i++ {
		if !refTchar(s[i]) {
			return false
		}
	}
	return true
}

func refValue(s string) bool {
	for i := 0; i < len(s); i++ {
		b := s[i]
		if (b < 0x20 && b != '\t') || b == 0x7f {
			return false
		}
	}
	return true
}

func asciiLower(s string) string {
	b := []byte(s)
	for i, c := range b {
		if 'A' <= c && c <= 'Z' {
			b[i] = c + 32
		}
	}
	return string(b)
}

func isASCII(s string) bool {
	for i := 0; i < len(s); i++ {
		if s[i] >= 0x80 {
			return false
		}
	}
	return true
}

// refContains: some comma-separated element, trimmed of SP/HTAB, equals token ASCII-case-insensitively.
// literal=false additionally requires the element to be pure ASCII (what the code documents:
// "No UTF-8 or non-ASCII allowed in tokens").
func refContains(values []string, token string, literal bool) bool {
	for _, v := range values {
		for _, e := range strings.Split(v, ",") {
			e = strings.Trim(e, " \t")
			if asciiLower(e) == asciiLower(token) && (literal || isASCII(e)) {
				return true
			}
		}
	}
	return false
}

// ---- generators ----

func genToken(r *vu.Rng) []byte {
	n := r.Range(1, 8)
	if r.Chance(1, 10) {
		n = 0
	}
	return r.BytesFrom(tokenAlphabet, n)
}

var interesting = []byte{0, 9, 10, 13, 31, 32, 33, 34, 44, 47, 58, 64, 65, 90, 91, 96, 97, 122, 123, 126, 127, 128, 0xc3, 0xa9, 0xe2, 0x84, 0xaa, 0xff}

func mutate(r *vu.Rng, b []byte) []byte {
	b = append([]byte{}, b...)
	switch r.Intn(6) {
	case 0:
		if len(b) > 0 {
			b[r.Intn(len(b))] = interesting[r.Intn(len(interesting))]
		}
	case 1:
		p := r.Intn(len(b) + 1)
		b = append(b[:p], append([]byte{interesting[r.Intn(len(interesting))]}, b[p:]...)...)
	case 2:
		if len(b) > 0 {
			b[r.Intn(len(b))] = byte(r.Uint64())
		}
	case 3:
		if len(b) > 0 {
			i := r.Intn(len(b))
			b[i] ^= 0x20 // ASCII case flip (or something else for non-letters)
		}
	case 4:
		if len(b) > 0 {
			b = b[:len(b)-1]
		}
	default:
	}
	return b
}

func flipCase(r *vu.Rng, b []byte) []byte {
	b = append([]byte{}, b...)
	for i, c := range b {
		if (('a' <= c && c <= 'z') || ('A' <= c && c <= 'Z')) && r.Bool() {
			b[i] = c ^ 0x20
		}
	}
	return b
}

func ows(r *vu.Rng) []byte { return r.BytesFrom(" \t", []int{0, 0, 1, 1, 2, 3}[r.Intn(6)]) }

func genValue(r *vu.Rng, token []byte) []byte {
	var v []byte
	n := r.Intn(5)
	hit := r.Chance(1, 2)
	hitAt := r.Intn(n + 1)
	for i := 0; i <= n; i++ {
		if i > 0 {
			v = append(v, ',')
		}
		var e []byte
		if hit && i == hitAt {
			e = flipCase(r, token)
			if r.Chance(1, 5) {
				e = mutate(r, e)
			}
		} else {
			e = genToken(r)
			if r.Chance(1, 6) {
				e = mutate(r, e)
			}
			if r.Chance(1, 8) { // inner whitespace
				e = append(append(e, ' '), genToken(r)...)
			}
		}
		v = append(append(append(v, ows(r)...), e...), ows(r)...)
	}
	if r.Chance(1, 10) {
		v = mutate(r, v)
	}
	return v
}

func gen(r *vu.Rng, i int) []string {
	if i < 256 { // exhaustive single bytes and the runes around them
		h := vu.Hex([]byte{byte(i)})
		return []string{
			"name " + h, "value " + h, "host " + h,
			fmt.Sprintf("rune %d", i), fmt.Sprintf("rune %d", i+256), fmt.Sprintf("rune %d", i+0x10000),
			fmt.Sprintf("rune %d", i-256), fmt.Sprintf("rune %d", i-0x80000000),
			"teq " + h + " " + h, "teq " + h + " " + vu.Hex([]byte{byte(i) ^ 0x20}), "teq " + vu.Hex([]byte{byte(i) ^ 0x20}) + " " + h,
			"contains " + h + " " + h, "trim " + vu.Hex([]byte{' ', byte(i), '\t'}),
			"name " + vu.Hex([]byte{'a', byte(i)}), "value " + vu.Hex([]byte{'a', byte(i), 'b'}),
		}
	}
	switch r.Intn(10) {
	case 0, 1:
		b := genToken(r)
		if r.Chance(1, 2) {
			b = mutate(r, b)
		}
		return []string{"name " + vu.Hex(b)}
	case 2, 3:
		n := r.Intn(20)
		var b []byte
		switch r.Intn(3) {
		case 0:
			b = r.Bytes(n)
		case 1:
			b = r.BytesFrom(tokenAlphabet+" \t,;=\"()/", n)
			b = mutate(r, b)
		default:
			b = r.BytesFrom(tokenAlphabet+" \t,;=\"()/\x80\xff\xc3\xa9", n)
		}
		if r.Bool() {
			return []string{"value " + vu.Hex(b)}
		}
		return []string{"host " + vu.Hex(b)}
	case 4:
		var v int64
		switch r.Intn(5) {
		case 0:
			v = int64(r.Intn(256))
		case 1:
			v = int64(int32(uint32(r.Uint64())))
		case 2:
			v = int64(r.Intn(0x110000))
		case 3:
			v = -int64(r.Intn(70000))
		default:
			v = []int64{-2147483648, 2147483647, 127, 128, 255, 256, -1, 0xfffd, 0x10ffff}[r.Intn(9)]
		}
		return []string{"rune " + strconv.FormatInt(v, 10)}
	case 5:
		b := append(append(ows(r), genToken(r)...), ows(r)...)
		if r.Chance(1, 3) {
			b = mutate(r, b)
		}
		if r.Chance(1, 8) {
			b = r.BytesFrom(" \t", r.Intn(4))
		}
		return []string{"trim " + vu.Hex(b)}
	case 6:
		a := genToken(r)
		b := flipCase(r, a)
		if r.Chance(1, 3) {
			b = mutate(r, b)
		}
		if r.Chance(1, 4) {
			a = mutate(r, a)
		}
		if r.Chance(1, 6) { // equal non-ASCII strings
			a = append(a, 0xc3, 0xa9)
			b = append(b, 0xc3, 0xa9)
		}
		return []string{"teq " + vu.Hex(a) + " " + vu.Hex(b)}
	default:
		tok := genToken(r)
		if r.Chance(1, 8) {
			tok = mutate(r, tok)
		}
		if r.Chance(1, 12) {
			tok = append(tok, 0xc3, 0xa9)
		}
		nv := r.Intn(4)
		parts := []string{"contains", vu.Hex(tok)}
		for k := 0; k < nv; k++ {
			parts = append(parts, vu.Hex(genValue(r, tok)))
		}
		return []string{strings.Join(parts, " ")}
	}
}

func okb(b bool) string {
	if b {
		return "ok true"
	}
	return "ok false"
}

func exec(ops []string, o *vu.Out) {
	for _, op := range ops {
		t := strings.Fields(op)
		if len(t) < 2 {
			o.Op(op, "bad-op")
			continue
		}
		o.Stat("op:" + t[0])
		switch {
		case t[0] == "name" && len(t) == 2:
			s := string(vu.MustHex(t[1]))
			var got bool
			o.Op(op, vu.Catch(func() string { got = httpguts.ValidHeaderFieldName(s); return okb(got) }))
			if got != refName(s) {
				o.Fail("", fmt.Sprintf("ValidHeaderFieldName(%q)=%v, RFC 9110 token says %v", s, got, refName(s)))
			}
			o.Stat(fmt.Sprintf("name:%v", got))
		case t[0] == "value" && len(t) == 2:
			s := string(vu.MustHex(t[1]))
			var got bool
			o.Op(op, vu.Catch(func() string { got = httpguts.ValidHeaderFieldValue(s); return okb(got) }))
			if got != refValue(s) {
				o.Fail("", fmt.Sprintf("ValidHeaderFieldValue(%q)=%v, want %v", s, got, refValue(s)))
			}
			if got && strings.ContainsAny(s, "\r\n\x00") {
				o.Fail("", fmt.Sprintf("ValidHeaderFieldValue(%q) accepts CR/LF/NUL", s))
			}
			o.Stat(fmt.Sprintf("value:%v", got))
		case t[0] == "host" && len(t) == 2:
			s := string(vu.MustHex(t[1]))
			o.Op(op, vu.Catch(func() string { return okb(httpguts.ValidHostHeader(s)) }))
		case t[0] == "rune" && len(t) == 2:
			v, err := strconv.ParseInt(t[1], 10, 64)
			if err != nil || v < -2147483648 || v > 2147483647 {
				o.Op(op, "bad-op")
				continue
			}
			var got bool
			o.Op(op, vu.Catch(func() string { got = httpguts.IsTokenRune(rune(v)); return okb(got) }))
			if v >= 0 {
				want := v < 128 && refTchar(byte(v))
				if got != want {
					o.Fail("", fmt.Sprintf("IsTokenRune(%d)=%v, tchar says %v", v, got, want))
				}
				if v < 256 && httpguts.VerifIsTokenTable(byte(v)) != refTchar(byte(v)) {
					o.Fail("", fmt.Sprintf("isTokenTable[%d]=%v, tchar says %v", v, !refTchar(byte(v)), refTchar(byte(v))))
				}
			} else if got {
				// Negative int32 values are not runes of any string (outside the property's
				// domain); byte(r) wraps, so some of them are reported as token runes.
				o.Stat("rune:negative-wraps-to-tchar")
			}
		case t[0] == "trim" && len(t) == 2:
			s := string(vu.MustHex(t[1]))
			var got string
			o.Op(op, vu.Catch(func() string { got = httpguts.VerifTrimOWS(s); return "ok " + vu.Hex([]byte(got)) }))
			if got != strings.Trim(s, " \t") {
				o.Fail("", fmt.Sprintf("trimOWS(%q)=%q", s, got))
			}
		case t[0] == "teq" && len(t) == 3:
			a, b := string(vu.MustHex(t[1])), string(vu.MustHex(t[2]))
			var got bool
			o.Op(op, vu.Catch(func() string { got = httpguts.VerifTokenEqual(a, b); return okb(got) }))
			want := isASCII(a) && asciiLower(a) == asciiLower(b)
			if got != want {
				o.Fail("", fmt.Sprintf("tokenEqual(%q,%q)=%v, want %v", a, b, got, want))
			}
			o.Stat(fmt.Sprintf("teq:%v", got))
		case t[0] == "contains":
			tok := string(vu.MustHex(t[1]))
			var vals []string
			for _, h := range t[2:] {
				vals = append(vals, string(vu.MustHex(h)))
			}
			var got bool
			o.Op(op, vu.Catch(func() string { got = httpguts.HeaderValuesContainsToken(vals, tok); return okb(got) }))
			// The statement read literally ("All strings"): equality after ASCII case folding.
			want := refContains(vals, tok, true)
			if got != want {
				if !isASCII(tok) && want && !got && got == refContains(vals, tok, false) {
					// known finding: tokenEqual gives up at the first byte >= 0x80
					// ("No UTF-8 or non-ASCII allowed in tokens"), so a non-ASCII "token" never matches.
					o.Fail("C55:non-ascii-token-never-matches", fmt.Sprintf("HeaderValuesContainsToken(%q,%q)=false although an element equals the token", vals, tok))
					o.Stat("contains:non-ascii-token-present-but-never-matched")
				} else {
					o.Fail("", fmt.Sprintf("HeaderValuesContainsToken(%q,%q)=%v, split/trim/fold reference says %v", vals, tok, got, want))
				}
			}
			o.Stat(fmt.Sprintf("contains:%v", got))
		default:
			o.Op(op, "bad-op")
		}
	}
}

func main() { vu.Main(gen, exec) }
