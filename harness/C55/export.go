//go:build verif

package httpguts

// White-box shims for the C55 harness (injected with -overlay; never committed).

func VerifTrimOWS(x string) string                   { return trimOWS(x) }
func VerifTokenEqual(a, b string) bool               { return tokenEqual(a, b) }
func VerifIsTokenTable(b byte) bool                  { return isTokenTable[b] }
func VerifHeaderValueContainsToken(v, t string) bool { return headerValueContainsToken(v, t) }
