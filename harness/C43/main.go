//go:build verif

// C43 harness: webdav.NewMemLS() through the public LockSystem interface.
//
//	reset
//	create <now> <root> <zeroDepth 0|1> <duration>     -> ok <token#> | err Locked
//	refresh <now> <tok> <duration>                     -> ok <root> <zd> <duration> | err NoSuchLock | err Locked
//	unlock <now> <tok>                                 -> ok | err NoSuchLock | err Locked
//	confirm <now> <name0> <name1> <tok>*               -> ok <hold#> | err ConfirmationFailed
//	release <hold#>                                    -> ok | err NoHold
//
// names are hex tokens ("-" = empty string); <tok> is t<k> (the token returned by the k-th
// successful Create of the case; a string that is no token while k is still in the future) or
// "-" (the empty token string). Clock and durations are integer seconds (negative duration =
// infinite). Tokens are renamed to creation indices; release funcs are called at most once
// (releasing an unknown / already released hold is answered "err NoHold" without touching the
// LockSystem).
//
// `sim` is a naive list-of-locks reference written directly from the property text. The
// generator runs a private copy of it to steer the op mix (live / expired / held / future
// tokens, covered / uncovered names); the executor runs another copy next to the real
// LockSystem and the oracle reports every answer of the implementation that differs from what
// the property demands, classified by the violated clause.
package main

import (
	"fmt"
	"strings"
	"time"

	vu "golang.org/x/net/internal/verifutil"
	"golang.org/x/net/webdav"
)

// ---------------------------------------------------------------- naive reference

type refLock struct {
	tok    int
	root   string // cleaned
	zd     bool
	inf    bool
	dur    int
	expiry int
	held   bool
}

type sim struct {
	locks  []*refLock
	dead   map[int]string // token# -> why it is gone ("expired at 7", "unlocked")
	ntok   int
	holds  [][]*refLock // per successful confirm; nil once released
	active []bool
}

func newSim() *sim { return &sim{dead: map[int]string{}} }

func refClean(name string) string {
	var st []string
	for _, c := range strings.Split(name, "/") {
		switch c {
		case "", ".":
		case "..":
			if len(st) > 0 {
				st = st[:len(st)-1]
			}
		default:
			st = append(st, c)
		}
	}
	return "/" + strings.Join(st, "/")
}

// under reports whether resource x is anc or below anc.
func under(x, anc string) bool {
	return x == anc || anc == "/" || strings.HasPrefix(x, anc+"/")
}

func (s *sim) collect(now int) {
	out := s.locks[:0]
	for _, l := range s.locks {
		if !l.held && !l.inf && l.expiry <= now {
			s.dead[l.tok] = fmt.Sprintf("it expired at %d", l.expiry)
			continue
		}
		out = append(out, l)
	}
	s.locks = out
}

func (s *sim) byTok(t int) *refLock {
	for _, l := range s.locks {
		if l.tok == t {
			return l
		}
	}
	return nil
}

func (s *sim) conflict(root string, zd bool) *refLock {
	for _, l := range s.locks {
		if l.root == root || (!zd && under(l.root, root)) || (!l.zd && under(root, l.root)) {
			return l
		}
	}
	return nil
}

func (s *sim) create(now int, root string, zd bool, d int) (string, string) {
	s.collect(now)
	root = refClean(root)
	if c := s.conflict(root, zd); c != nil {
		return "err Locked", fmt.Sprintf("the live lock t%d on %q (zeroDepth=%v, held=%v) conflicts", c.tok, c.root, c.zd, c.held)
	}
	s.locks = append(s.locks, &refLock{tok: s.ntok, root: root, zd: zd, inf: d < 0, dur: d, expiry: now + d})
	s.ntok++
	return fmt.Sprintf("ok %d", s.ntok-1), "no live lock conflicts"
}

func b2i(b bool) int {
	if b {
		return 1
	}
	return 0
}

func (s *sim) gone(t int) string {
	if w, ok := s.dead[t]; ok {
		return w
	}
	return "the token names no lock"
}

func (s *sim) refresh(now, t, d int) (string, string) {
	s.collect(now)
	l := s.byTok(t)
	switch {
	case l == nil:
		return "err NoSuchLock", s.gone(t)
	case l.held:
		return "err Locked", "the lock is held (confirmed and not yet released)"
	}
	l.inf, l.dur, l.expiry = d < 0, d, now+d
	return fmt.Sprintf("ok %s %d %d", h(l.root), b2i(l.zd), d), "the lock is live and unheld"
}

func (s *sim) unlock(now, t int) (string, string) {
	s.collect(now)
	l := s.byTok(t)
	switch {
	case l == nil:
		return "err NoSuchLock", s.gone(t)
	case l.held:
		return "err Locked", "the lock is held (confirmed and not yet released)"
	}
	out := s.locks[:0]
	for _, x := range s.locks {
		if x != l {
			out = append(out, x)
		}
	}
	s.locks = out
	s.dead[t] = "it was unlocked"
	return "ok", "the lock is live and unheld"
}

func (s *sim) lookup(name string, toks []int) (*refLock, string) {
	why := "no presented token names a lock covering the resource"
	for _, t := range toks {
		l := s.byTok(t)
		if l == nil {
			if w, ok := s.dead[t]; ok {
				why = fmt.Sprintf("t%d is gone: %s", t, w)
			}
			continue
		}
		if l.root == name || (!l.zd && under(name, l.root)) {
			if l.held {
				why = fmt.Sprintf("the lock t%d on %q is held", t, l.root)
				continue
			}
			return l, ""
		}
	}
	return nil, why
}

func (s *sim) confirm(now int, n0, n1 string, toks []int) (string, string) {
	s.collect(now)
	var hs []*refLock
	for _, n := range []string{n0, n1} {
		if n == "" {
			continue
		}
		l, why := s.lookup(refClean(n), toks)
		if l == nil {
			return "err ConfirmationFailed", why
		}
		if len(hs) == 0 || hs[0] != l {
			hs = append(hs, l)
		}
	}
	for _, l := range hs {
		l.held = true
	}
	if hs == nil {
		hs = []*refLock{}
	}
	s.holds = append(s.holds, hs)
	return fmt.Sprintf("ok %d", len(s.holds)-1), "live unheld locks named by the conditions cover every name"
}

func (s *sim) release(k int) string {
	if k < 0 || k >= len(s.holds) || s.holds[k] == nil {
		return "err NoHold"
	}
	for _, l := range s.holds[k] {
		l.held = false
	}
	s.holds[k] = nil
	return "ok"
}

// ---------------------------------------------------------------- generator

var comps = []string{"a", "b", "c"}

func genRes(r *vu.Rng) []string {
	d := r.Intn(4)
	if r.Chance(1, 10) {
		d = r.Intn(6)
	}
	cs := make([]string, d)
	for i := range cs {
		cs[i] = comps[r.Intn(len(comps))]
		if r.Chance(1, 30) {
			cs[i] = "ab"
		}
	}
	return cs
}

func splitRes(clean string) []string {
	if clean == "/" {
		return nil
	}
	return strings.Split(clean[1:], "/")
}

// spell renders a resource with a random spelling that slashClean maps back to it.
func spell(r *vu.Rng, cs []string) string {
	if r.Chance(3, 4) {
		return "/" + strings.Join(cs, "/")
	}
	var sb strings.Builder
	if r.Bool() {
		sb.WriteString("/")
	}
	for i, c := range cs {
		switch r.Intn(6) {
		case 0:
			sb.WriteString("./")
		case 1:
			sb.WriteString("x/../")
		case 2:
			sb.WriteString("/")
		}
		sb.WriteString(c)
		if i+1 < len(cs) || r.Chance(1, 3) {
			sb.WriteString("/")
		}
	}
	s := sb.String()
	if s == "" && r.Bool() {
		s = "."
	}
	return s
}

func h(s string) string { return vu.Hex([]byte(s)) }

var durPool = []int{-1, -1, -5, 0, 1, 2, 3, 5, 8, 10, 30, 100}

func gen(r *vu.Rng, i int) []string {
	ops := []string{"reset"}
	n := r.Range(4, 40)
	if r.Chance(1, 20) {
		n = r.Range(60, 150)
	}
	monotone := !r.Chance(1, 12)
	now := r.Intn(5)
	s := newSim()
	nconf := 0

	// pickTok: mostly live tokens, sometimes dead, future or empty ones
	pickTok := func() int {
		switch k := r.Intn(20); {
		case k == 0:
			return -1
		case k <= 2:
			return s.ntok + r.Intn(3)
		case k <= 5 && s.ntok > 0:
			return r.Intn(s.ntok)
		case len(s.locks) > 0:
			return s.locks[r.Intn(len(s.locks))].tok
		case s.ntok > 0:
			return r.Intn(s.ntok)
		}
		return r.Intn(2)
	}
	tokStr := func(t int) string {
		if t < 0 {
			return "-"
		}
		return fmt.Sprintf("t%d", t)
	}
	// a resource related to an existing lock: the same, an ancestor, a descendant, a sibling
	related := func() []string {
		if len(s.locks) == 0 || r.Chance(1, 4) {
			return genRes(r)
		}
		base := splitRes(s.locks[r.Intn(len(s.locks))].root)
		switch r.Intn(5) {
		case 0:
			return base
		case 1:
			return base[:r.Intn(len(base)+1)]
		case 2:
			return append(append([]string{}, base...), genRes(r)...)
		case 3:
			return append(append([]string{}, base...), comps[r.Intn(3)])
		default:
			if len(base) > 0 {
				sib := append([]string{}, base...)
				sib[len(sib)-1] = comps[r.Intn(3)]
				return sib
			}
			return genRes(r)
		}
	}
	for j := 0; j < n; j++ {
		switch r.Intn(5) {
		case 0:
			now += r.Intn(3)
		case 1:
			now += r.Intn(12)
		}
		if !monotone && r.Chance(1, 4) {
			now -= r.Intn(15)
		}
		// sometimes aim the clock exactly at an expiry boundary
		if len(s.locks) > 0 && r.Chance(1, 8) {
			l := s.locks[r.Intn(len(s.locks))]
			if !l.inf && (l.expiry >= now || !monotone) {
				now = l.expiry - r.Intn(2)
				if now < 0 && monotone {
					now = 0
				}
			}
		}
		switch k := r.Intn(20); {
		case k < 6:
			res := related()
			root, zd, d := spell(r, res), r.Bool(), durPool[r.Intn(len(durPool))]
			ops = append(ops, fmt.Sprintf("create %d %s %d %d", now, h(root), b2i(zd), d))
			s.create(now, root, zd, d)
		case k < 9:
			t, d := pickTok(), durPool[r.Intn(len(durPool))]
			ops = append(ops, fmt.Sprintf("refresh %d %s %d", now, tokStr(t), d))
			s.refresh(now, t, d)
		case k < 11:
			t := pickTok()
			ops = append(ops, fmt.Sprintf("unlock %d %s", now, tokStr(t)))
			s.unlock(now, t)
		case k < 16:
			var toks []int
			for q := r.Intn(4); q > 0; q-- {
				toks = append(toks, pickTok())
			}
			name := func() string {
				// a name covered by one of the presented tokens, most of the time
				if len(toks) > 0 && r.Chance(4, 5) {
					if l := s.byTok(toks[r.Intn(len(toks))]); l != nil {
						res := splitRes(l.root)
						if r.Chance(1, 3) {
							res = append(append([]string{}, res...), genRes(r)...)
						}
						return spell(r, res)
					}
				}
				return spell(r, related())
			}
			n0, n1 := name(), name()
			switch r.Intn(5) {
			case 0:
				n1 = ""
			case 1:
				n0 = ""
			case 2:
				n1 = n0
			}
			if r.Chance(1, 40) {
				n0, n1 = "", ""
			}
			var ts []string
			for _, t := range toks {
				ts = append(ts, tokStr(t))
			}
			ops = append(ops, strings.TrimRight(fmt.Sprintf("confirm %d %s %s %s", now, h(n0), h(n1), strings.Join(ts, " ")), " "))
			s.confirm(now, n0, n1, toks)
			nconf = len(s.holds)
		default:
			k := nconf + r.Intn(2)
			var act []int
			for q, hd := range s.holds {
				if hd != nil {
					act = append(act, q)
				}
			}
			if len(act) > 0 && r.Chance(5, 6) {
				k = act[r.Intn(len(act))]
			} else if nconf > 0 && r.Bool() {
				k = r.Intn(nconf)
			}
			ops = append(ops, fmt.Sprintf("release %d", k))
			s.release(k)
		}
	}
	return ops
}

// ---------------------------------------------------------------- executor

var base = time.Unix(1_700_000_000, 0)

func at(t int) time.Time { return base.Add(time.Duration(t) * time.Second) }

func dur(d int) time.Duration { return time.Duration(d) * time.Second }

func errTag(err error) string {
	switch err {
	case webdav.ErrLocked:
		return "err Locked"
	case webdav.ErrNoSuchLock:
		return "err NoSuchLock"
	case webdav.ErrConfirmationFailed:
		return "err ConfirmationFailed"
	case webdav.ErrForbidden:
		return "err Forbidden"
	}
	return "err Other"
}

type world struct {
	ls       webdav.LockSystem
	tokens   []string
	seen     map[string]bool
	owners   []string
	releases []func()
	s        *sim
	diverged bool
}

func newWorld() *world {
	return &world{ls: webdav.NewMemLS(), seen: map[string]bool{}, s: newSim()}
}

// tok maps an op-line token to (real token string, token# or -1).
func (w *world) tok(s string) (string, int, bool) {
	if s == "-" {
		return "", -1, true
	}
	if !strings.HasPrefix(s, "t") {
		return "", 0, false
	}
	k := vu.Atoi(s[1:])
	if k < len(w.tokens) {
		return w.tokens[k], k, true
	}
	return fmt.Sprintf("nosuch-%d", k), k, true
}

func exec(ops []string, o *vu.Out) {
	w := newWorld()
	for _, op := range ops {
		t := strings.Fields(op)
		res := vu.Catch(func() string { return w.do(t, o) })
		o.Op(op, res)
		if len(t) > 0 {
			f := strings.Fields(res)
			key := f[0]
			if key == "err" && len(f) > 1 {
				key += "_" + f[1]
			}
			o.Stat("op:" + t[0] + ":" + key)
		}
		if res == "panic" {
			w.fail(o, "panic", "%s panicked", op)
		}
	}
}

func parseName(s string) (string, bool) {
	b, ok := vu.ParseHex(s)
	return string(b), ok
}

func (w *world) fail(o *vu.Out, sig, format string, a ...any) {
	if w.diverged {
		return
	}
	w.diverged = true // the reference no longer mirrors the implementation: later answers of this case are not judged
	o.Fail(sig, fmt.Sprintf(format, a...))
}

// judge compares the implementation's answer with the one the property demands.
func (w *world) judge(o *vu.Out, call, got, want, why string) {
	if got == want || w.diverged {
		return
	}
	sig := "wrong-answer"
	switch {
	case strings.HasPrefix(call, "Create") && strings.HasPrefix(got, "ok"):
		sig = "create-despite-conflict"
	case strings.HasPrefix(call, "Create"):
		sig = "create-refused-without-conflict"
	case strings.HasPrefix(got, "ok") && strings.Contains(why, "expired"):
		sig = "expired-lock-not-inert"
	case strings.HasPrefix(got, "ok") && strings.Contains(why, "held"):
		sig = "held-lock-not-rejected"
	case strings.HasPrefix(got, "ok") && strings.HasPrefix(want, "err"):
		sig = "dead-or-foreign-lock-accepted"
	case strings.HasPrefix(want, "ok") && strings.HasPrefix(got, "err"):
		sig = "live-lock-rejected"
	case want == "err Locked" || got == "err Locked":
		sig = "held-lock-not-rejected"
	}
	w.fail(o, sig, "%s = %q, the property demands %q because %s", call, got, want, why)
}

func (w *world) do(t []string, o *vu.Out) string {
	if len(t) == 0 {
		return "bad-op"
	}
	switch {
	case t[0] == "reset" && len(t) == 1:
		*w = *newWorld()
		return "ok"

	case t[0] == "create" && len(t) == 5:
		now, d := vu.Atoi(t[1]), vu.Atoi(t[4])
		root, ok := parseName(t[2])
		if !ok || (t[3] != "0" && t[3] != "1") {
			return "bad-op"
		}
		zd := t[3] == "1"
		owner := fmt.Sprintf("<o>%d</o>", len(w.tokens))
		token, err := w.ls.Create(at(now), webdav.LockDetails{Root: root, Duration: dur(d), OwnerXML: owner, ZeroDepth: zd})
		got := errTag(err)
		if err == nil {
			if w.seen[token] || token == "" || strings.ContainsAny(token, " \t\r\n") {
				w.fail(o, "token-not-unique", "Create returned the token %q which is empty, contains whitespace or was handed out before", token)
			}
			w.seen[token] = true
			w.tokens = append(w.tokens, token)
			w.owners = append(w.owners, owner)
			got = fmt.Sprintf("ok %d", len(w.tokens)-1)
		} else if token != "" {
			w.fail(o, "create-result", "Create returned both a token and an error")
		}
		want, why := w.s.create(now, root, zd, d)
		w.judge(o, fmt.Sprintf("Create(now=%d, %q, zeroDepth=%v, %ds)", now, root, zd, d), got, want, why)
		return got

	case t[0] == "refresh" && len(t) == 4:
		now, d := vu.Atoi(t[1]), vu.Atoi(t[3])
		token, k, ok := w.tok(t[2])
		if !ok {
			return "bad-op"
		}
		det, err := w.ls.Refresh(at(now), token, dur(d))
		got := errTag(err)
		if err == nil {
			got = fmt.Sprintf("ok %s %d %d", h(det.Root), b2i(det.ZeroDepth), int64(det.Duration/time.Second))
			if k >= 0 && k < len(w.owners) && det.OwnerXML != w.owners[k] {
				w.fail(o, "refresh-details", "Refresh(t%d) returned the owner %q, the lock was created with %q", k, det.OwnerXML, w.owners[k])
			}
		}
		want, why := w.s.refresh(now, k, d)
		w.judge(o, fmt.Sprintf("Refresh(now=%d, t%d, %ds)", now, k, d), got, want, why)
		return got

	case t[0] == "unlock" && len(t) == 3:
		now := vu.Atoi(t[1])
		token, k, ok := w.tok(t[2])
		if !ok {
			return "bad-op"
		}
		err := w.ls.Unlock(at(now), token)
		got := errTag(err)
		if err == nil {
			got = "ok"
		}
		want, why := w.s.unlock(now, k)
		w.judge(o, fmt.Sprintf("Unlock(now=%d, t%d)", now, k), got, want, why)
		return got

	case t[0] == "confirm" && len(t) >= 4:
		now := vu.Atoi(t[1])
		n0, ok0 := parseName(t[2])
		n1, ok1 := parseName(t[3])
		if !ok0 || !ok1 {
			return "bad-op"
		}
		var conds []webdav.Condition
		var toks []int
		for _, s := range t[4:] {
			token, k, ok := w.tok(s)
			if !ok {
				return "bad-op"
			}
			conds = append(conds, webdav.Condition{Token: token})
			toks = append(toks, k)
		}
		release, err := w.ls.Confirm(at(now), n0, n1, conds...)
		if (release == nil) == (err == nil) {
			w.fail(o, "confirm-result", "Confirm: exactly one of release and err must be non-nil")
		}
		got := errTag(err)
		if err == nil {
			w.releases = append(w.releases, release)
			got = fmt.Sprintf("ok %d", len(w.releases)-1)
		}
		want, why := w.s.confirm(now, n0, n1, toks)
		w.judge(o, fmt.Sprintf("Confirm(now=%d, %q, %q, %v)", now, n0, n1, t[4:]), got, want, why)
		return got

	case t[0] == "release" && len(t) == 2:
		k := vu.Atoi(t[1])
		got := "err NoHold"
		if k >= 0 && k < len(w.releases) && w.releases[k] != nil {
			w.releases[k]()
			w.releases[k] = nil
			got = "ok"
		}
		if !w.diverged {
			w.s.release(k)
		}
		return got
	}
	return "bad-op"
}

func main() { vu.Main(gen, exec) }
