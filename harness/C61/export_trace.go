//go:build verif

package trace

// White-box shims for the C61 harness: the histogram observable.

type VerifHist struct{ h *histogram }

func VerifNewHist() *VerifHist { return &VerifHist{new(histogram)} }

func (v *VerifHist) AddMeasurement(x int64) { v.h.addMeasurement(x) }
func (v *VerifHist) Add(o *VerifHist)       { v.h.Add(o.h) }
func (v *VerifHist) Clear()                 { v.h.Clear() }
func (v *VerifHist) Total() int64           { return v.h.total() }

// State returns sum, value, valueCount, buckets (nil when not allocated).
func (v *VerifHist) State() (int64, int, int64, []int64) {
	return v.h.sum, v.h.value, v.h.valueCount, v.h.buckets
}

func VerifGetBucket(i int64) int { return getBucket(i) }

const VerifBucketCount = bucketCount
