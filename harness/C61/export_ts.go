//go:build verif

package timeseries

import "time"

// White-box shims for the C61 harness (injected with -overlay, never committed).

// VerifTS wraps the unexported timeSeries.
type VerifTS struct{ ts *timeSeries }

// VerifNew builds a time series through timeSeries.init; the two public
// configurations are built through their public constructors.
func VerifNew(kind string, resolutions []time.Duration, numBuckets int, f func() Observable, clock Clock) *VerifTS {
	switch kind {
	case "ts":
		return &VerifTS{&NewTimeSeriesWithClock(f, clock).timeSeries}
	case "mh":
		return &VerifTS{&NewMinuteHourSeriesWithClock(f, clock).timeSeries}
	}
	ts := new(timeSeries)
	ts.init(resolutions, f, numBuckets, clock)
	return &VerifTS{ts}
}

func VerifStdConfig(kind string) ([]time.Duration, int) {
	if kind == "ts" {
		return timeSeriesResolutions, timeSeriesNumBuckets
	}
	return minuteHourSeriesResolutions, minuteHourSeriesNumBuckets
}

func (v *VerifTS) Add(o Observable)                       { v.ts.Add(o) }
func (v *VerifTS) AddWithTime(o Observable, t time.Time)  { v.ts.AddWithTime(o, t) }
func (v *VerifTS) Total() Observable                      { return v.ts.Total() }
func (v *VerifTS) Latest(level, num int) Observable       { return v.ts.Latest(level, num) }
func (v *VerifTS) LatestBuckets(level, num int) []Observable { return v.ts.LatestBuckets(level, num) }
func (v *VerifTS) Range(a, b time.Time) Observable        { return v.ts.Range(a, b) }
func (v *VerifTS) ComputeRange(a, b time.Time, num int) []Observable {
	return v.ts.ComputeRange(a, b, num)
}
func (v *VerifTS) Clear() { v.ts.Clear() }

type VerifLevel struct {
	Oldest, Newest int
	End            time.Time
	Size           time.Duration
	Buckets        []Observable
}

type VerifState struct {
	NumBuckets  int
	LastAdd     time.Time
	PendingTime time.Time
	Dirty       bool
	Pending     Observable
	Total       Observable
	Levels      []VerifLevel
}

// State exposes the fields (no copies: read immediately).
func (v *VerifTS) State() VerifState {
	s := VerifState{NumBuckets: v.ts.numBuckets, LastAdd: v.ts.lastAdd, PendingTime: v.ts.pendingTime,
		Dirty: v.ts.dirty, Pending: v.ts.pending, Total: v.ts.total}
	for _, l := range v.ts.levels {
		s.Levels = append(s.Levels, VerifLevel{l.oldest, l.newest, l.end, l.size, l.buckets})
	}
	return s
}
