//go:build verif

// C61 harness: internal/timeseries (levels, buckets, pending) with an integer
// Observable and harness-supplied times, and trace/histogram.go bucket bookkeeping.
//
// Times are decimal nanoseconds relative to the Unix epoch (arbitrary precision:
// time.Time covers far more than int64 nanoseconds).
package main

import (
	"fmt"
	"io"
	"log"
	"math/big"
	"math/bits"
	"strings"
	"time"

	"golang.org/x/net/internal/timeseries"
	vu "golang.org/x/net/internal/verifutil"
	"golang.org/x/net/trace"
)

// ---------------------------------------------------------------- observable

type iobs struct {
	v      big.Int
	approx bool
}

func newObs() timeseries.Observable { return new(iobs) }

func (o *iobs) Multiply(ratio float64) { o.approx = true }
func (o *iobs) Add(other timeseries.Observable) {
	x := other.(*iobs)
	o.v.Add(&o.v, &x.v)
	o.approx = o.approx || x.approx
}
func (o *iobs) Clear() { o.v.SetInt64(0); o.approx = false }
func (o *iobs) CopyFrom(other timeseries.Observable) {
	x := other.(*iobs)
	o.v.Set(&x.v)
	o.approx = x.approx
}

func showObs(o timeseries.Observable) string {
	x := o.(*iobs)
	if x.approx {
		return x.v.String() + "~"
	}
	return x.v.String()
}

func showSlot(o timeseries.Observable) string {
	if o == nil {
		return "."
	}
	return showObs(o)
}

// ---------------------------------------------------------------- time

var (
	e9      = big.NewInt(1_000_000_000)
	minI64  = new(big.Int).Lsh(big.NewInt(-1), 63)
	maxI64  = new(big.Int).Sub(new(big.Int).Lsh(big.NewInt(1), 63), big.NewInt(1))
	zeroT   = mustBig("-62135596800000000000")
	capTime = mustBig("8000000000000000000") // generator never goes beyond (see report: UnixNano wrap makes advance loop ~2^64/size times)
)

func mustBig(s string) *big.Int {
	v, ok := new(big.Int).SetString(s, 10)
	if !ok {
		panic("bad int " + s)
	}
	return v
}

func toTime(T *big.Int) time.Time {
	sec, nsec := new(big.Int).DivMod(T, e9, new(big.Int)) // Euclidean: 0 <= nsec < 1e9
	if !sec.IsInt64() {
		panic("time out of harness range")
	}
	return time.Unix(sec.Int64(), nsec.Int64())
}

func fromTime(t time.Time) *big.Int {
	r := new(big.Int).Mul(big.NewInt(t.Unix()), e9)
	return r.Add(r, big.NewInt(int64(t.Nanosecond())))
}

func inRange(T *big.Int) bool { return T.Cmp(minI64) >= 0 && T.Cmp(maxI64) <= 0 }

type clock struct{ now time.Time }

func (c *clock) Time() time.Time { return c.now }

// ---------------------------------------------------------------- generator

type genState struct {
	r     *vu.Rng
	n     int
	sizes []int64
	cur   *big.Int
	maxT  *big.Int
	ops   []string
}

var stdTS = []int64{1e9, 10e9, 60e9, 600e9, 3600e9, 6 * 3600e9, 24 * 3600e9, 7 * 24 * 3600e9, 4 * 7 * 24 * 3600e9, 16 * 7 * 24 * 3600e9}
var stdMH = []int64{1e9, 60e9}

func gen(r *vu.Rng, i int) []string {
	if r.Chance(1, 6) {
		return genHist(r)
	}
	g := &genState{r: r}
	switch r.Intn(10) {
	case 0, 1, 2:
		g.n, g.sizes = 64, stdTS
	case 3, 4:
		g.n, g.sizes = 60, stdMH
	default:
		g.n = r.Range(1, 5)
		s0 := []int64{1, 2, 3, 10, 1000, 1e9}[r.Intn(6)]
		g.sizes = []int64{s0}
		nl := r.Range(1, 3)
		chain := !r.Chance(1, 5)
		for k := 1; k < nl; k++ {
			prev := g.sizes[k-1]
			if chain {
				g.sizes = append(g.sizes, prev*int64(r.Range(2, 5)))
			} else {
				g.sizes = append(g.sizes, prev+int64(r.Range(1, int(min(prev*3, 1000)))))
			}
		}
	}
	line := fmt.Sprintf("reset %d", g.n)
	for _, s := range g.sizes {
		line += fmt.Sprintf(" %d", s)
	}
	g.ops = append(g.ops, line)
	// base time
	switch r.Intn(12) {
	case 0:
		g.cur = big.NewInt(int64(r.Uint64() % 1_000_000_000_000))
	case 1:
		g.cur = new(big.Int).Neg(big.NewInt(int64(r.Uint64() >> 2)))
	case 2:
		g.cur = new(big.Int).Add(minI64, big.NewInt(int64(r.Uint64()%1_000_000_000_000)))
	case 3: // out of the UnixNano range: around year 1 / before / just below int64
		switch r.Intn(4) {
		case 0:
			g.cur = new(big.Int).Add(zeroT, big.NewInt(int64(r.Uint64()%(200*1_000_000_000))))
		case 1:
			g.cur = new(big.Int).Sub(zeroT, big.NewInt(int64(r.Uint64()%(200*1_000_000_000))))
		case 2:
			g.cur = new(big.Int).Sub(minI64, big.NewInt(int64(r.Uint64()%1_000_000_000_000)))
		default:
			g.cur = new(big.Int).Neg(new(big.Int).Lsh(big.NewInt(1), uint(r.Range(64, 68))))
		}
	case 4:
		g.cur = big.NewInt(int64(r.Intn(100)))
	default:
		g.cur = new(big.Int).Add(big.NewInt(1_700_000_000_000_000_000), big.NewInt(int64(r.Uint64()%1_000_000_000_000_000)))
	}
	g.cur = safeTime(g.cur)
	g.maxT = new(big.Int).Set(g.cur)
	nops := r.Range(3, 50)
	for k := 0; k < nops; k++ {
		g.one()
	}
	g.ops = append(g.ops, "total", "dump")
	return g.ops
}

// delta relative to a random level's geometry.
func (g *genState) delta() int64 {
	r := g.r
	s := g.sizes[r.Intn(len(g.sizes))]
	switch r.Intn(8) {
	case 0:
		return 0
	case 1:
		return int64(r.Intn(3)) - 1
	case 2:
		return s * int64(r.Range(0, 3))
	case 3:
		return s*int64(r.Range(0, g.n+1)) + int64(r.Intn(3)) - 1
	case 4:
		return int64(r.Uint64() % uint64(3*s*int64(g.n)+1))
	default:
		return int64(r.Uint64() % uint64(2*s+1))
	}
}

func (g *genState) pickTime() *big.Int {
	r := g.r
	d := g.delta()
	var t *big.Int
	switch r.Intn(10) {
	case 0, 1, 2: // in the past of the newest time
		t = new(big.Int).Sub(g.maxT, big.NewInt(d))
	case 3: // relative to cur, backwards
		t = new(big.Int).Sub(g.cur, big.NewInt(d))
	case 4: // far past
		if r.Bool() {
			t = new(big.Int).Sub(g.cur, big.NewInt(int64(r.Uint64()>>uint(r.Range(2, 40)))))
		} else {
			t = new(big.Int).Add(zeroT, big.NewInt(int64(r.Intn(5))-2))
		}
	default:
		t = new(big.Int).Add(g.maxT, big.NewInt(d))
	}
	return safeTime(t)
}

// safeTime keeps generated times away from the two regions where Time.UnixNano's
// int64 wrap-around makes advance() spin for up to 2^64/size iterations (times after
// capTime, and out-of-range times whose wrapped value lands just below 2^63).
func safeTime(t *big.Int) *big.Int {
	if t.Cmp(capTime) > 0 {
		return new(big.Int).Set(capTime)
	}
	if !inRange(t) {
		two64 := new(big.Int).Lsh(big.NewInt(1), 64)
		w := new(big.Int).Sub(t, minI64)
		w.Mod(w, two64)
		w.Add(w, minI64) // wrap64(t)
		if w.Cmp(capTime) > 0 {
			return new(big.Int).Sub(t, mustBig("2000000000000000000"))
		}
	}
	return t
}

func (g *genState) see(t *big.Int) {
	g.cur = t
	if t.Cmp(g.maxT) > 0 {
		g.maxT = t
	}
}

// gridEnd: where an in-range level end would be after advancing to maxT.
func gridEnd(T *big.Int, s int64) *big.Int {
	S := big.NewInt(s)
	q, m := new(big.Int).DivMod(T, S, new(big.Int))
	if m.Sign() != 0 {
		q.Add(q, big.NewInt(1))
	}
	return q.Mul(q, S)
}

func (g *genState) one() {
	r := g.r
	switch x := r.Intn(100); {
	case x < 55:
		t := g.pickTime()
		g.see(t)
		v := int64(r.Intn(2000)) - 500
		if r.Chance(1, 10) {
			v = int64(r.Uint64()) >> uint(r.Intn(40))
		}
		op := "add"
		if r.Chance(1, 4) {
			op = "addnow"
		}
		g.ops = append(g.ops, fmt.Sprintf("%s %s %d", op, t, v))
	case x < 63:
		g.ops = append(g.ops, "total")
	case x < 72:
		t := g.pickTime()
		g.see(t)
		level := r.Intn(len(g.sizes))
		if r.Chance(1, 15) {
			level = r.Range(-1, len(g.sizes)+1)
		}
		num := r.Range(0, g.n)
		if r.Chance(1, 10) {
			num = r.Range(-1, 2*g.n+1)
		}
		op := "latest"
		if r.Chance(1, 3) {
			op = "lbuckets"
		}
		g.ops = append(g.ops, fmt.Sprintf("%s %s %d %d", op, t, level, num))
	case x < 96:
		// range: mostly aligned to the grid of a level, start inside its window
		j := r.Intn(len(g.sizes))
		s := g.sizes[j]
		end := gridEnd(g.maxT, s)
		k := r.Range(0, g.n+1)
		start := new(big.Int).Sub(end, big.NewInt(s*int64(k)))
		num := 1
		if r.Chance(1, 3) {
			num = r.Range(1, 4)
		}
		m := int64(r.Range(0, g.n+1))
		if r.Chance(2, 3) {
			m = int64(r.Range(1, 3))
		}
		finish := new(big.Int).Add(start, big.NewInt(s*m*int64(num)))
		if r.Chance(1, 6) { // unaligned / odd
			start.Add(start, big.NewInt(int64(r.Intn(5))-2))
			if r.Bool() {
				finish.Add(finish, big.NewInt(int64(r.Uint64()%uint64(s+1))))
			}
		}
		if r.Chance(1, 40) {
			num = r.Range(-1, 0)
		}
		if r.Chance(1, 40) {
			start, finish = finish, start
		}
		if r.Chance(1, 4) && num == 1 {
			g.ops = append(g.ops, fmt.Sprintf("range1 %s %s", start, finish))
		} else {
			g.ops = append(g.ops, fmt.Sprintf("range %s %s %d", start, finish, num))
		}
	case x < 98:
		g.ops = append(g.ops, "dump")
	default:
		g.ops = append(g.ops, "clear")
	}
}

func genHist(r *vu.Rng) []string {
	ops := []string{"hreset"}
	n := r.Range(2, 30)
	same := r.Chance(1, 3)
	base := int64(r.Boundary(40))
	merges := 0
	for k := 0; k < n; k++ {
		switch x := r.Intn(20); {
		case x < 12:
			v := int64(r.Boundary(44))
			if same {
				v = base
			}
			if r.Chance(1, 12) {
				v = -v
			}
			ops = append(ops, fmt.Sprintf("hadd %d %d", r.Intn(2), v))
		case x < 15 && merges < 6:
			merges++
			ops = append(ops, fmt.Sprintf("hmerge %d", r.Intn(2)))
		case x < 16:
			ops = append(ops, fmt.Sprintf("hclear %d", r.Intn(2)))
		default:
			v := int64(r.Boundary(63))
			if r.Chance(1, 8) {
				v = -v
			}
			ops = append(ops, fmt.Sprintf("bucket %d", v))
		}
	}
	return ops
}

// ---------------------------------------------------------------- executor

type added struct {
	t *big.Int
	v int64
}

type run struct {
	ts        *timeseries.VerifTS
	clk       *clock
	n         int
	sizes     []int64
	hist      []added
	sum       big.Int
	allIn     bool // every add / latest time so far is inside the int64-nanosecond range
	chain     bool // each resolution divides the next
	h         [2]*trace.VerifHist
	hcount    [2]int64
}

func newRun() *run {
	r := &run{}
	r.reset(1, []int64{1})
	r.h[0], r.h[1] = trace.VerifNewHist(), trace.VerifNewHist()
	return r
}

func eqI64(a, b []int64) bool {
	if len(a) != len(b) {
		return false
	}
	for i := range a {
		if a[i] != b[i] {
			return false
		}
	}
	return true
}

func (r *run) reset(n int, sizes []int64) {
	r.clk = &clock{}
	kind := "custom"
	if n == 64 && eqI64(sizes, stdTS) {
		kind = "ts"
	} else if n == 60 && eqI64(sizes, stdMH) {
		kind = "mh"
	}
	res := make([]time.Duration, len(sizes))
	for i, s := range sizes {
		res[i] = time.Duration(s)
	}
	r.ts = timeseries.VerifNew(kind, res, n, newObs, r.clk)
	r.n, r.sizes = n, sizes
	r.chain = true
	for i := 1; i < len(sizes); i++ {
		if sizes[i]%sizes[i-1] != 0 {
			r.chain = false
		}
	}
	r.clearRef()
}

func (r *run) clearRef() {
	r.hist = nil
	r.sum.SetInt64(0)
	r.allIn = true
}

func showList(xs []timeseries.Observable) string {
	if xs == nil {
		return "nil"
	}
	var b strings.Builder
	fmt.Fprintf(&b, "ok %d", len(xs))
	for _, x := range xs {
		b.WriteByte(' ')
		b.WriteString(showObs(x))
	}
	return b.String()
}

func (r *run) dump() string {
	s := r.ts.State()
	var b strings.Builder
	d := 0
	if s.Dirty {
		d = 1
	}
	fmt.Fprintf(&b, "ok %s %s %d %s %s", fromTime(s.LastAdd), fromTime(s.PendingTime), d, showObs(s.Pending), showObs(s.Total))
	for _, l := range s.Levels {
		fmt.Fprintf(&b, " [%d %d %s %d", l.Oldest, l.Newest, fromTime(l.End), int64(l.Size))
		for _, x := range l.Buckets {
			b.WriteByte(' ')
			b.WriteString(showSlot(x))
		}
		b.WriteByte(']')
	}
	return b.String()
}

// invariant: total + (dirty ? pending : 0) = sum of all observations.
func (r *run) checkInvariant(o *vu.Out, after string) {
	s := r.ts.State()
	got := new(big.Int).Set(&s.Total.(*iobs).v)
	if s.Dirty {
		got.Add(got, &s.Pending.(*iobs).v)
	}
	if got.Cmp(&r.sum) != 0 {
		o.Fail("", fmt.Sprintf("after %q: total+pending = %s, sum of observations = %s", after, got, &r.sum))
	}
}

func (r *run) rangeOracle(o *vu.Out, op string, start, finish *big.Int, num int, res []timeseries.Observable, st timeseries.VerifState) {
	if res == nil || num < 1 || !r.allIn || !r.chain || !inRange(start) || !inRange(finish) {
		return
	}
	span := new(big.Int).Sub(finish, start)
	if span.Sign() < 0 || !span.IsInt64() {
		return
	}
	// level chosen by ComputeRange
	li := -1
	for i, l := range st.Levels {
		lo := new(big.Int).Sub(fromTime(l.End), big.NewInt(int64(l.Size)*int64(r.n)))
		if start.Cmp(lo) >= 0 {
			li = i
			break
		}
	}
	if li < 0 {
		o.Stat("range:outside-retention")
		return
	}
	size := big.NewInt(int64(st.Levels[li].Size))
	off := new(big.Int).Sub(fromTime(st.Levels[li].End), start)
	if new(big.Int).Mod(off, size).Sign() != 0 {
		o.Stat("range:unaligned")
		return
	}
	if new(big.Int).Mod(span, big.NewInt(int64(num))).Sign() != 0 {
		o.Stat("range:unaligned")
		return
	}
	iv := new(big.Int).Div(span, big.NewInt(int64(num)))
	if new(big.Int).Mod(iv, size).Sign() != 0 {
		o.Stat("range:unaligned")
		return
	}
	if li == 0 {
		o.Stat("range:aligned-level0")
	} else {
		o.Stat("range:aligned-coarser")
	}
	for k := 0; k < num; k++ {
		a := new(big.Int).Add(start, new(big.Int).Mul(iv, big.NewInt(int64(k))))
		b := new(big.Int).Add(a, iv)
		want := new(big.Int)
		for _, h := range r.hist {
			if h.t.Cmp(a) > 0 && h.t.Cmp(b) <= 0 {
				want.Add(want, big.NewInt(h.v))
			}
		}
		got := res[k].(*iobs)
		if got.approx || got.v.Cmp(want) != 0 {
			sig := ""
			if want.Sign() != 0 || got.v.Sign() != 0 {
				o.Stat("range:nonzero-checked")
			}
			o.Fail(sig, fmt.Sprintf("%s: bucket-aligned sub-range %d (%s,%s] of level %d reports %s, observations added in it sum to %s", op, k, a, b, li, showObs(res[k]), want))
			return
		}
		if want.Sign() != 0 {
			o.Stat("range:nonzero-checked")
		}
	}
}

func parseBig(s string) (*big.Int, bool) {
	v, ok := new(big.Int).SetString(s, 10)
	if !ok {
		return nil, false
	}
	// keep time.Unix's seconds comfortably inside int64
	if v.BitLen() > 80 {
		return nil, false
	}
	return v, true
}

func exec(ops []string, o *vu.Out) {
	r := newRun()
	for _, op := range ops {
		t := strings.Fields(op)
		if len(t) == 0 {
			o.Op(op, "bad-op")
			continue
		}
		o.Stat("op:" + t[0])
		switch {
		case t[0] == "reset" && len(t) >= 3:
			n := vu.Atoi(t[1])
			var sizes []int64
			ok := n >= 1 && n <= 4096
			for _, x := range t[2:] {
				s := vu.Atoi64(x)
				if s < 1 || (len(sizes) > 0 && sizes[len(sizes)-1] >= s) {
					ok = false
				}
				sizes = append(sizes, s)
			}
			if !ok {
				o.Op(op, "bad-op")
				continue
			}
			r.reset(n, sizes)
			o.Op(op, "ok")
		case (t[0] == "add" || t[0] == "addnow") && len(t) == 3:
			T, ok := parseBig(t[1])
			if !ok {
				o.Op(op, "bad-op")
				continue
			}
			v := vu.Atoi64(t[2])
			st := r.ts.State()
			pt, e0 := fromTime(st.PendingTime), fromTime(st.Levels[0].End)
			if T.Cmp(pt) > 0 && T.Cmp(new(big.Int).Sub(e0, big.NewInt(int64(st.Levels[0].Size)))) <= 0 {
				o.Stat("add:behind-advanced-level") // was mis-filed before the repair of Latest/LatestBuckets
			}
			ob := new(iobs)
			ob.v.SetInt64(v)
			res := vu.Catch(func() string {
				if t[0] == "add" {
					r.ts.AddWithTime(ob, toTime(T))
				} else {
					r.clk.now = toTime(T)
					r.ts.Add(ob)
				}
				return "ok"
			})
			o.Op(op, res)
			r.hist = append(r.hist, added{T, v})
			r.sum.Add(&r.sum, big.NewInt(v))
			if !inRange(T) {
				r.allIn = false
				o.Stat("time:outside-int64ns")
			}
			r.checkInvariant(o, op)
		case t[0] == "total" && len(t) == 1:
			res := vu.Catch(func() string { return "ok " + showObs(r.ts.Total()) })
			o.Op(op, res)
			if want := "ok " + r.sum.String(); res != want {
				o.Fail("", fmt.Sprintf("Total() = %q, sum of the %d observations = %s", res, len(r.hist), &r.sum))
			}
			r.checkInvariant(o, op)
		case (t[0] == "latest" || t[0] == "lbuckets") && len(t) == 4:
			T, ok := parseBig(t[1])
			if !ok {
				o.Op(op, "bad-op")
				continue
			}
			level, num := vu.Atoi(t[2]), vu.Atoi(t[3])
			r.clk.now = toTime(T)
			if !inRange(T) {
				r.allIn = false
			}
			o.Op(op, vu.Catch(func() string {
				if t[0] == "latest" {
					return "ok " + showObs(r.ts.Latest(level, num))
				}
				return showList(r.ts.LatestBuckets(level, num))
			}))
			r.checkInvariant(o, op)
		case t[0] == "range" && len(t) == 4, t[0] == "range1" && len(t) == 3:
			a, ok1 := parseBig(t[1])
			b, ok2 := parseBig(t[2])
			if !ok1 || !ok2 {
				o.Op(op, "bad-op")
				continue
			}
			num := 1
			if t[0] == "range" {
				num = vu.Atoi(t[3])
			}
			if num > 1<<16 {
				o.Op(op, "bad-op")
				continue
			}
			st := r.ts.State()
			var out []timeseries.Observable
			res := vu.Catch(func() string {
				if t[0] == "range1" {
					x := r.ts.Range(toTime(a), toTime(b))
					out = []timeseries.Observable{x}
					return "ok " + showObs(x)
				}
				out = r.ts.ComputeRange(toTime(a), toTime(b), num)
				return showList(out)
			})
			o.Op(op, res)
			if res != "panic" {
				r.rangeOracle(o, op, a, b, num, out, st)
			}
			r.checkInvariant(o, op)
		case t[0] == "clear" && len(t) == 1:
			r.ts.Clear()
			r.clearRef()
			o.Op(op, "ok")
		case t[0] == "dump" && len(t) == 1:
			o.Op(op, r.dump())
		case t[0] == "bucket" && len(t) == 2:
			v := vu.Atoi64(t[1])
			got := trace.VerifGetBucket(v)
			o.Op(op, fmt.Sprintf("ok %d", got))
			want := 0
			if v >= 2 {
				want = min(bits.Len64(uint64(v))-1, trace.VerifBucketCount-1)
			}
			if got != want {
				o.Fail("", fmt.Sprintf("getBucket(%d) = %d, want %d", v, got, want))
			}
		case t[0] == "hreset" && len(t) == 1:
			r.h[0], r.h[1] = trace.VerifNewHist(), trace.VerifNewHist()
			r.hcount = [2]int64{}
			o.Op(op, "ok")
		case t[0] == "hadd" && len(t) == 3 && (t[1] == "0" || t[1] == "1"):
			k := vu.Atoi(t[1])
			v := vu.Atoi64(t[2])
			o.Op(op, vu.Catch(func() string { r.h[k].AddMeasurement(v); return showHist(r.h[k]) }))
			r.hcount[k]++
			r.histOracle(o, op, k)
		case t[0] == "hclear" && len(t) == 2 && (t[1] == "0" || t[1] == "1"):
			k := vu.Atoi(t[1])
			r.h[k].Clear()
			r.hcount[k] = 0
			o.Op(op, showHist(r.h[k]))
		case t[0] == "hmerge" && len(t) == 2 && (t[1] == "0" || t[1] == "1"):
			k := vu.Atoi(t[1])
			o.Op(op, vu.Catch(func() string { r.h[k].Add(r.h[1-k]); return showHist(r.h[k]) }))
			r.hcount[k] += r.hcount[1-k]
			r.histOracle(o, op, k)
		default:
			o.Op(op, "bad-op")
		}
	}
}

func (r *run) histOracle(o *vu.Out, op string, k int) {
	tot, _, _ := vu.CatchMsg(func() string { return fmt.Sprint(r.h[k].Total()) })
	if tot != fmt.Sprint(r.hcount[k]) {
		o.Fail("", fmt.Sprintf("after %q: histogram total() = %s, measurements recorded = %d", op, tot, r.hcount[k]))
	}
}

func showHist(h *trace.VerifHist) string {
	sum, value, vc, bs := h.State()
	b := "nil"
	if bs != nil {
		parts := make([]string, len(bs))
		for i, x := range bs {
			parts[i] = fmt.Sprint(x)
		}
		b = "[" + strings.Join(parts, " ") + "]"
	}
	return fmt.Sprintf("ok %d %d %d %s %d", sum, value, vc, b, h.Total())
}

func main() {
	log.SetOutput(io.Discard) // the package logs rejected arguments
	vu.Main(gen, exec)
}
