//go:build verif

package main

// Socket control messages (ancillary data) of ipv4 / ipv6, linux/amd64 layouts, through the exported
// ControlMessage.Marshal / Parse API.

import (
	"encoding/binary"
	"fmt"
	"net"

	vu "golang.org/x/net/internal/verifutil"
	"golang.org/x/net/ipv4"
	"golang.org/x/net/ipv6"
)

func ipOf(b []byte) net.IP {
	if len(b) == 0 {
		return nil
	}
	return net.IP(b)
}

func cmErr(err error) string {
	switch err.Error() {
	case "invalid header length":
		return "err-hdr"
	case "invalid message length":
		return "err-msg"
	case "short buffer":
		return "err-short"
	}
	return "err-other"
}

func renderCM4(cm *ipv4.ControlMessage) string {
	return fmt.Sprintf("ok %d %s %s %d", cm.TTL, vu.Hex(cm.Src), vu.Hex(cm.Dst), cm.IfIndex)
}

func renderCM6(cm *ipv6.ControlMessage) string {
	return fmt.Sprintf("ok %d %d %s %s %d %s %d", cm.TrafficClass, cm.HopLimit, vu.Hex(cm.Src), vu.Hex(cm.Dst), cm.IfIndex, vu.Hex(cm.NextHop), cm.MTU)
}

func parse4(b []byte) (res string, cm *ipv4.ControlMessage) {
	cm = new(ipv4.ControlMessage)
	res = vu.Catch(func() string {
		if err := cm.Parse(b); err != nil {
			return cmErr(err)
		}
		return renderCM4(cm)
	})
	return
}

func parse6(b []byte) (res string, cm *ipv6.ControlMessage) {
	cm = new(ipv6.ControlMessage)
	res = vu.Catch(func() string {
		if err := cm.Parse(b); err != nil {
			return cmErr(err)
		}
		return renderCM6(cm)
	})
	return
}

func runCtl(op string, t []string, o *vu.Out) bool {
	k := &toks{t: t[1:]}
	switch t[0] {
	case "cm4m":
		ttl, src, dst, ifi := k.int(), k.bytes(), k.bytes(), k.int()
		if k.bad || len(k.t) != 0 {
			o.Op(op, "bad-op")
			return true
		}
		cm := &ipv4.ControlMessage{TTL: ttl, Src: ipOf(src), Dst: ipOf(dst), IfIndex: ifi}
		var w []byte
		res := vu.Catch(func() string { w = cm.Marshal(); return "" })
		var back *ipv4.ControlMessage
		if res == "" {
			var pr string
			pr, back = parse4(w)
			res = fmt.Sprintf("ok %s %s", vu.Hex(w), pr)
			if pr == "panic" || pr[:2] != "ok" {
				o.Fail("", "ipv4.ControlMessage.Parse failed on the output of Marshal: "+pr)
				back = nil
			}
		} else {
			o.Fail("", "ipv4.ControlMessage.Marshal panicked")
		}
		o.Op(op, res)
		// fields both directions carry on Linux: IfIndex (Src is sent as Spec_dst, Dst is receive-only)
		if back != nil && inRange(ifi, 0, 1<<31-1) {
			if back.IfIndex != ifi || back.TTL != 0 || back.Src != nil {
				o.Fail("", fmt.Sprintf("ipv4 control message round trip: sent ifindex=%d, parsed %s", ifi, renderCM4(back)))
			} else {
				o.Stat("cm4:roundtrip-ok")
			}
		}
		return true
	case "cm6m":
		tc, hl, src, dst, ifi, nh, mtu := k.int(), k.int(), k.bytes(), k.bytes(), k.int(), k.bytes(), k.int()
		if k.bad || len(k.t) != 0 {
			o.Op(op, "bad-op")
			return true
		}
		cm := &ipv6.ControlMessage{TrafficClass: tc, HopLimit: hl, Src: ipOf(src), Dst: ipOf(dst), IfIndex: ifi, NextHop: ipOf(nh), MTU: mtu}
		var w []byte
		res := vu.Catch(func() string { w = cm.Marshal(); return "" })
		var back *ipv6.ControlMessage
		if res == "" {
			var pr string
			pr, back = parse6(w)
			res = fmt.Sprintf("ok %s %s", vu.Hex(w), pr)
			if pr == "panic" || pr[:2] != "ok" {
				o.Fail("", "ipv6.ControlMessage.Parse failed on the output of Marshal: "+pr)
				back = nil
			}
		} else {
			o.Fail("", "ipv6.ControlMessage.Marshal panicked")
		}
		o.Op(op, res)
		if back != nil && inRange(tc, 0, 1<<32-1) && inRange(hl, 0, 1<<32-1) && inRange(ifi, 0, 1<<31-1) {
			v6src := len(src) == 16 && net.IP(src).To4() == nil
			okAddr := true
			if v6src { // the address travels in in6_pktinfo.Addr: sent as Src, received as Dst
				okAddr = net.IP(src).Equal(back.Dst)
			}
			if back.TrafficClass != tc || back.HopLimit != hl || back.IfIndex != ifi || !okAddr {
				o.Fail("", fmt.Sprintf("ipv6 control message round trip: sent tclass=%d hoplim=%d ifindex=%d src=%x, parsed %s", tc, hl, ifi, src, renderCM6(back)))
			} else {
				o.Stat("cm6:roundtrip-ok")
			}
		}
		return true
	case "cm4p", "cm6p":
		b := k.bytes()
		if k.bad || len(k.t) != 0 {
			o.Op(op, "bad-op")
			return true
		}
		var res string
		if t[0] == "cm4p" {
			res, _ = parse4(b)
		} else {
			res, _ = parse6(b)
		}
		o.Op(op, res)
		if res == "panic" {
			o.Fail("", fmt.Sprintf("%s: ControlMessage.Parse panicked on %x", t[0], b))
		}
		return true
	}
	return false
}

// ---------------------------------------------------------------- generators

func genIP(r *vu.Rng) []byte {
	switch r.Intn(6) {
	case 0:
		return nil
	case 1, 2:
		return r.Bytes(4)
	case 3:
		return append(append(make([]byte, 10), 0xff, 0xff), r.Bytes(4)...)
	default:
		b := r.Bytes(16)
		b[0] = 0x20
		return b
	}
}

func genIdx(r *vu.Rng) int {
	switch r.Intn(8) {
	case 0:
		return 0
	case 1:
		return -int(r.Intn(5)) - 1
	case 2:
		return int(r.Boundary(40))
	default:
		return int(r.Boundary(31))
	}
}

func cmsg(lvl, typ int32, hdrLen uint64, data []byte, pad int) []byte {
	b := make([]byte, 16, 16+len(data)+pad)
	binary.LittleEndian.PutUint64(b[:8], hdrLen)
	binary.LittleEndian.PutUint32(b[8:12], uint32(lvl))
	binary.LittleEndian.PutUint32(b[12:16], uint32(typ))
	b = append(b, data...)
	return append(b, make([]byte, pad)...)
}

func genCmsgSeq(r *vu.Rng, v6 bool) []byte {
	var out []byte
	n := r.Range(1, 4)
	for i := 0; i < n; i++ {
		lvl := int32(0)
		types := []int32{2, 8, 8, 2, 0, 1, 12}
		sizes := []int{1, 12, 12, 4, 0, 8, 16}
		if v6 {
			lvl = 41
			types = []int32{67, 52, 50, 61, 9, 0, 50, 61}
			sizes = []int{4, 4, 20, 32, 28, 0, 24, 40}
		}
		j := r.Intn(len(types))
		typ, dl := types[j], sizes[j]
		if r.Chance(1, 6) {
			dl = r.Intn(44)
		}
		if r.Chance(1, 8) {
			typ = int32(r.Intn(80))
		}
		if r.Chance(1, 7) {
			lvl = []int32{0, 41, 1, 6, -1, int32(r.Intn(300))}[r.Intn(6)]
		}
		data := r.Bytes(dl)
		hl := uint64(16 + dl)
		if r.Chance(1, 10) {
			hl = []uint64{0, 1, 15, 16, hl + 1, hl - 1, hl + 8, 1 << 63, ^uint64(0), uint64(r.Intn(100))}[r.Intn(10)]
		}
		pad := (8 - dl%8) % 8
		if r.Chance(1, 8) {
			pad = r.Intn(9)
		}
		out = append(out, cmsg(lvl, typ, hl, data, pad)...)
	}
	if r.Chance(1, 8) && len(out) > 0 {
		out = out[:r.Intn(len(out))]
	}
	return out
}

func genCtl(r *vu.Rng) []string {
	switch r.Intn(8) {
	case 0, 1:
		return []string{fmt.Sprintf("cm4m %d %s %s %d", r.Intn(300), vu.Hex(genIP(r)), vu.Hex(genIP(r)), genIdx(r))}
	case 2, 3:
		tc, hl := int(r.Boundary(32)), int(r.Boundary(32))
		if r.Chance(1, 6) {
			tc = -tc
		}
		if r.Chance(1, 8) {
			hl = int(r.Boundary(40))
		}
		return []string{fmt.Sprintf("cm6m %d %d %s %s %d %s %d", tc, hl, vu.Hex(genIP(r)), vu.Hex(genIP(r)), genIdx(r), vu.Hex(genIP(r)), r.Intn(70000))}
	case 4:
		return []string{"cm4p " + vu.Hex(genCmsgSeq(r, false))}
	case 5:
		return []string{"cm6p " + vu.Hex(genCmsgSeq(r, true))}
	case 6:
		return []string{"cm4p " + vu.Hex(r.Bytes(r.Intn(60)))}
	default:
		return []string{"cm6p " + vu.Hex(r.Bytes(r.Intn(80)))}
	}
}
