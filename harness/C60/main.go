//go:build verif

// C60 harness: icmp message / extension / multipart codecs, the RFC 1071
// checksum, and ipv4.Header (Linux field order).
//
// Grammar (also the canonical rendering of parsed messages):
//   body: echo id seq xD | xreq id seq loc EXTS | xrep id seq state a v4 v6 | du xD EXTS | te xD EXTS |
//         pp ptr xD EXTS | ptb mtu xD | raw xD | nil
//   EXTS: n EXT*      EXT: mpls cls typ k (label tc s ttl)* | info cls typ (if0|if1 idx xNAME mtu) (ad0|ad1 xIP xZONE) |
//                          ident cls typ xNAME idx afi xADDR | rawx xD
package main

import (
	"bytes"
	"encoding/binary"
	"fmt"
	"net"
	"strconv"
	"strings"

	"golang.org/x/net/icmp"
	vu "golang.org/x/net/internal/verifutil"
	"golang.org/x/net/ipv4"
	"golang.org/x/net/ipv6"
)

const (
	protoV4 = 1
	protoV6 = 58
)

// ---------------------------------------------------------------- spec structs (mirror of the op grammar)

type label struct {
	label, tc int
	s         bool
	ttl       int
}

type ext struct {
	kind     string // mpls info ident rawx
	cls, typ int
	labels   []label
	hasIf    bool
	ifIdx    int
	ifName   []byte
	ifMTU    int
	hasAddr  bool
	ip, zone []byte
	name     []byte
	index    int
	afi      int
	addr     []byte
	data     []byte
}

type body struct {
	kind          string // echo xreq xrep du te pp ptb raw nil
	id, seq       int
	loc           bool
	state         int
	active, v4, v6 bool
	ptr           uint64
	mtu           int
	data          []byte
	exts          []ext
}

type toks struct {
	t   []string
	bad bool
}

func (k *toks) next() string {
	if len(k.t) == 0 {
		k.bad = true
		return ""
	}
	s := k.t[0]
	k.t = k.t[1:]
	return s
}
func (k *toks) int() int {
	v, err := strconv.ParseInt(k.next(), 10, 64)
	if err != nil {
		k.bad = true
	}
	return int(v)
}
func (k *toks) nat() int {
	v := k.int()
	if v < 0 {
		k.bad = true
	}
	return v
}
func (k *toks) bytes() []byte {
	b, ok := vu.ParseHex(k.next())
	if !ok {
		k.bad = true
	}
	return b
}
func (k *toks) bool() bool {
	switch k.next() {
	case "1":
		return true
	case "0":
		return false
	}
	k.bad = true
	return false
}

func (k *toks) ext() ext {
	e := ext{kind: k.next()}
	switch e.kind {
	case "mpls":
		e.cls, e.typ = k.int(), k.int()
		n := k.nat()
		if n > 4096 {
			k.bad = true
			return e
		}
		for i := 0; i < n && !k.bad; i++ {
			e.labels = append(e.labels, label{k.int(), k.int(), k.bool(), k.int()})
		}
	case "info":
		e.cls, e.typ = k.int(), k.int()
		switch k.next() {
		case "if1":
			e.hasIf = true
			e.ifIdx, e.ifName, e.ifMTU = k.int(), k.bytes(), k.int()
		case "if0":
		default:
			k.bad = true
		}
		switch k.next() {
		case "ad1":
			e.hasAddr = true
			e.ip, e.zone = k.bytes(), k.bytes()
		case "ad0":
		default:
			k.bad = true
		}
	case "ident":
		e.cls, e.typ, e.name, e.index, e.afi, e.addr = k.int(), k.int(), k.bytes(), k.int(), k.int(), k.bytes()
	case "rawx":
		e.data = k.bytes()
	default:
		k.bad = true
	}
	return e
}

func (k *toks) exts() []ext {
	n := k.nat()
	if n > 4096 {
		k.bad = true
		return nil
	}
	var es []ext
	for i := 0; i < n && !k.bad; i++ {
		es = append(es, k.ext())
	}
	return es
}

func (k *toks) body() body {
	b := body{kind: k.next()}
	switch b.kind {
	case "echo":
		b.id, b.seq, b.data = k.int(), k.int(), k.bytes()
	case "xreq":
		b.id, b.seq, b.loc, b.exts = k.int(), k.int(), k.bool(), k.exts()
	case "xrep":
		b.id, b.seq, b.state, b.active, b.v4, b.v6 = k.int(), k.int(), k.int(), k.bool(), k.bool(), k.bool()
	case "du", "te":
		b.data, b.exts = k.bytes(), k.exts()
	case "pp":
		p := k.int()
		b.ptr = uint64(p)
		b.data, b.exts = k.bytes(), k.exts()
	case "ptb":
		b.mtu, b.data = k.int(), k.bytes()
	case "raw":
		b.data = k.bytes()
	case "nil":
	default:
		k.bad = true
	}
	return b
}

// ---------------------------------------------------------------- spec -> icmp structs

func (e ext) toGo() icmp.Extension {
	switch e.kind {
	case "mpls":
		ls := &icmp.MPLSLabelStack{Class: e.cls, Type: e.typ}
		for _, l := range e.labels {
			ls.Labels = append(ls.Labels, icmp.MPLSLabel{Label: l.label, TC: l.tc, S: l.s, TTL: l.ttl})
		}
		return ls
	case "info":
		ii := &icmp.InterfaceInfo{Class: e.cls, Type: e.typ}
		if e.hasIf {
			ii.Interface = &net.Interface{Index: e.ifIdx, Name: string(e.ifName), MTU: e.ifMTU}
		}
		if e.hasAddr {
			ii.Addr = &net.IPAddr{IP: net.IP(e.ip), Zone: string(e.zone)}
			if len(e.ip) == 0 {
				ii.Addr.IP = nil
			}
		}
		return ii
	case "ident":
		return &icmp.InterfaceIdent{Class: e.cls, Type: e.typ, Name: string(e.name), Index: e.index, AFI: e.afi, Addr: e.addr}
	default:
		return &icmp.RawExtension{Data: e.data}
	}
}

func extsToGo(es []ext) []icmp.Extension {
	var out []icmp.Extension
	for _, e := range es {
		out = append(out, e.toGo())
	}
	return out
}

func (b body) toGo() icmp.MessageBody {
	switch b.kind {
	case "echo":
		return &icmp.Echo{ID: b.id, Seq: b.seq, Data: b.data}
	case "xreq":
		return &icmp.ExtendedEchoRequest{ID: b.id, Seq: b.seq, Local: b.loc, Extensions: extsToGo(b.exts)}
	case "xrep":
		return &icmp.ExtendedEchoReply{ID: b.id, Seq: b.seq, State: b.state, Active: b.active, IPv4: b.v4, IPv6: b.v6}
	case "du":
		return &icmp.DstUnreach{Data: b.data, Extensions: extsToGo(b.exts)}
	case "te":
		return &icmp.TimeExceeded{Data: b.data, Extensions: extsToGo(b.exts)}
	case "pp":
		return &icmp.ParamProb{Pointer: uintptr(b.ptr), Data: b.data, Extensions: extsToGo(b.exts)}
	case "ptb":
		return &icmp.PacketTooBig{MTU: b.mtu, Data: b.data}
	case "raw":
		return &icmp.RawBody{Data: b.data}
	}
	return nil
}

func mkType(proto, typ int) icmp.Type {
	if proto == protoV4 {
		return ipv4.ICMPType(typ)
	}
	return ipv6.ICMPType(typ)
}

// ---------------------------------------------------------------- rendering

func b01(b bool) string {
	if b {
		return "1"
	}
	return "0"
}

func (e ext) render() string {
	switch e.kind {
	case "mpls":
		s := fmt.Sprintf("mpls %d %d %d", e.cls, e.typ, len(e.labels))
		for _, l := range e.labels {
			s += fmt.Sprintf(" %d %d %s %d", l.label, l.tc, b01(l.s), l.ttl)
		}
		return s
	case "info":
		s := fmt.Sprintf("info %d %d ", e.cls, e.typ)
		if e.hasIf {
			s += fmt.Sprintf("if1 %d %s %d", e.ifIdx, vu.Hex(e.ifName), e.ifMTU)
		} else {
			s += "if0"
		}
		if e.hasAddr {
			s += fmt.Sprintf(" ad1 %s %s", vu.Hex(e.ip), vu.Hex(e.zone))
		} else {
			s += " ad0"
		}
		return s
	case "ident":
		return fmt.Sprintf("ident %d %d %s %d %d %s", e.cls, e.typ, vu.Hex(e.name), e.index, e.afi, vu.Hex(e.addr))
	}
	return "rawx " + vu.Hex(e.data)
}

func renderExts(es []ext) string {
	s := strconv.Itoa(len(es))
	for _, e := range es {
		s += " " + e.render()
	}
	return s
}

func (b body) render() string {
	switch b.kind {
	case "echo":
		return fmt.Sprintf("echo %d %d %s", b.id, b.seq, vu.Hex(b.data))
	case "xreq":
		return fmt.Sprintf("xreq %d %d %s %s", b.id, b.seq, b01(b.loc), renderExts(b.exts))
	case "xrep":
		return fmt.Sprintf("xrep %d %d %d %s %s %s", b.id, b.seq, b.state, b01(b.active), b01(b.v4), b01(b.v6))
	case "du", "te":
		return fmt.Sprintf("%s %s %s", b.kind, vu.Hex(b.data), renderExts(b.exts))
	case "pp":
		return fmt.Sprintf("pp %d %s %s", b.ptr, vu.Hex(b.data), renderExts(b.exts))
	case "ptb":
		return fmt.Sprintf("ptb %d %s", b.mtu, vu.Hex(b.data))
	case "raw":
		return "raw " + vu.Hex(b.data)
	}
	return "nil"
}

func extFromGo(x icmp.Extension) ext {
	switch v := x.(type) {
	case *icmp.MPLSLabelStack:
		e := ext{kind: "mpls", cls: v.Class, typ: v.Type}
		for _, l := range v.Labels {
			e.labels = append(e.labels, label{l.Label, l.TC, l.S, l.TTL})
		}
		return e
	case *icmp.InterfaceInfo:
		e := ext{kind: "info", cls: v.Class, typ: v.Type}
		if v.Interface != nil {
			e.hasIf, e.ifIdx, e.ifName, e.ifMTU = true, v.Interface.Index, []byte(v.Interface.Name), v.Interface.MTU
		}
		if v.Addr != nil {
			e.hasAddr, e.ip, e.zone = true, []byte(v.Addr.IP), []byte(v.Addr.Zone)
		}
		return e
	case *icmp.InterfaceIdent:
		return ext{kind: "ident", cls: v.Class, typ: v.Type, name: []byte(v.Name), index: v.Index, afi: v.AFI, addr: v.Addr}
	case *icmp.RawExtension:
		return ext{kind: "rawx", data: v.Data}
	}
	return ext{kind: "rawx"}
}

func extsFromGo(xs []icmp.Extension) []ext {
	var out []ext
	for _, x := range xs {
		out = append(out, extFromGo(x))
	}
	return out
}

func bodyFromGo(mb icmp.MessageBody) body {
	switch v := mb.(type) {
	case *icmp.Echo:
		return body{kind: "echo", id: v.ID, seq: v.Seq, data: v.Data}
	case *icmp.ExtendedEchoRequest:
		return body{kind: "xreq", id: v.ID, seq: v.Seq, loc: v.Local, exts: extsFromGo(v.Extensions)}
	case *icmp.ExtendedEchoReply:
		return body{kind: "xrep", id: v.ID, seq: v.Seq, state: v.State, active: v.Active, v4: v.IPv4, v6: v.IPv6}
	case *icmp.DstUnreach:
		return body{kind: "du", data: v.Data, exts: extsFromGo(v.Extensions)}
	case *icmp.TimeExceeded:
		return body{kind: "te", data: v.Data, exts: extsFromGo(v.Extensions)}
	case *icmp.ParamProb:
		return body{kind: "pp", ptr: uint64(v.Pointer), data: v.Data, exts: extsFromGo(v.Extensions)}
	case *icmp.PacketTooBig:
		return body{kind: "ptb", mtu: v.MTU, data: v.Data}
	case *icmp.RawBody:
		return body{kind: "raw", data: v.Data}
	}
	return body{kind: "nil"}
}

func typeNum(t icmp.Type) int {
	switch v := t.(type) {
	case ipv4.ICMPType:
		return int(v)
	case ipv6.ICMPType:
		return int(v)
	}
	return -1
}

func renderMsg(m *icmp.Message) string {
	return fmt.Sprintf("%d %d %d %s", typeNum(m.Type), m.Code, m.Checksum, bodyFromGo(m.Body).render())
}

// ---------------------------------------------------------------- reference checksum (RFC 1071, 64-bit accumulator)

func refSum(b []byte) uint16 {
	var s uint64
	for i := 0; i+1 < len(b); i += 2 {
		s += uint64(b[i])<<8 | uint64(b[i+1])
	}
	if len(b)%2 == 1 {
		s += uint64(b[len(b)-1]) << 8
	}
	for s>>16 != 0 {
		s = s>>16 + s&0xffff
	}
	return uint16(s)
}

// valid: the one's-complement sum over the data (checksum included) is 0xffff.
func csumValid(b []byte) bool { return refSum(b) == 0xffff }

// mustRefuse marks messages the wire format cannot represent: Marshal has to return an error.
const mustRefuse = "<must-refuse>"

// ---------------------------------------------------------------- oracle: expected parse-back, domain, finding regions

func padTo(d []byte, n int) []byte {
	out := make([]byte, n)
	copy(out, d)
	return out
}

func origLen(proto, n int) int {
	if n < 128 {
		return 128
	}
	if proto == protoV4 {
		return (n + 3) &^ 3
	}
	return (n + 7) &^ 7
}

func inRange(v, lo, hi int) bool { return lo <= v && v <= hi }

func cleanName(n []byte) bool {
	return len(n) == 0 || (n[0] != 0 && n[len(n)-1] != 0)
}

func isV4(ip []byte) bool { return net.IP(ip).To4() != nil }

// extInDomain: the extension is one the codec represents faithfully; returns the expected parse-back.
func extInDomain(proto int, e ext) (ext, bool) {
	switch e.kind {
	case "mpls":
		if e.cls != 1 || e.typ != 1 {
			return e, false
		}
		for _, l := range e.labels {
			if !inRange(l.label, 0, 1<<20-1) || !inRange(l.tc, 0, 7) || !inRange(l.ttl, 0, 255) {
				return e, false
			}
		}
		return e, true
	case "info":
		attrs := 0
		if e.hasIf {
			if len(e.ifName) > 63 {
				// the 64-octet name field holds at most 63 bytes: the rest is cut off — the neighbouring
				// objects must stay intact
				full := e.ifName
				e.ifName = full[:63]
				if bytes.Equal(e.zone, full) {
					e.zone = e.ifName
				}
			}
			if e.ifIdx <= 0 || e.ifIdx > 1<<32-1 || !cleanName(e.ifName) || !inRange(e.ifMTU, 0, 1<<32-1) {
				return e, false
			}
			attrs |= 8
			if len(e.ifName) > 0 {
				attrs |= 2
			}
			if e.ifMTU > 0 {
				attrs |= 1
			}
		}
		if e.hasAddr {
			want := []byte(nil)
			if proto == protoV4 && len(e.ip) == 4 {
				attrs |= 4
			} else if proto == protoV6 && len(e.ip) == 16 && !isV4(e.ip) {
				attrs |= 4
				if e.hasIf && len(e.ifName) > 0 {
					want = e.ifName
				}
			} else {
				return e, false
			}
			if !bytes.Equal(want, e.zone) {
				return e, false
			}
		}
		// Type is written from the struct field, parsing is driven by it
		if e.cls != 2 || e.typ != attrs {
			return e, false
		}
		// an Interface carrying only an index parses back with the same fields
		return e, true
	case "ident":
		if e.cls != 3 {
			return e, false
		}
		switch e.typ {
		case 1:
			if len(e.name) > 256 {
				e.name = e.name[:256] // Len caps the name at 255 -> 256 payload bytes; the rest is cut off
			}
			return e, cleanName(e.name) && e.index == 0 && e.afi == 0 && len(e.addr) == 0
		case 2:
			return e, len(e.name) == 0 && inRange(e.index, 0, 1<<32-1) && e.afi == 0 && len(e.addr) == 0
		case 3:
			return e, len(e.name) == 0 && e.index == 0 && inRange(e.afi, 0, 65535) && len(e.addr) <= 255
		}
		return e, false
	default: // raw: must be a well-formed object of an unknown class
		d := e.data
		if len(d) < 4 || len(d) > 65535 || int(binary.BigEndian.Uint16(d[:2])) != len(d) || (d[2] >= 1 && d[2] <= 3) {
			return e, false
		}
		return e, true
	}
}

func kindMatches(proto, typ int, kind string) bool {
	if proto == protoV4 {
		switch typ {
		case 0, 8:
			return kind == "echo"
		case 3:
			return kind == "du"
		case 11:
			return kind == "te"
		case 12:
			return kind == "pp"
		case 42:
			return kind == "xreq"
		case 43:
			return kind == "xrep"
		}
		return kind == "raw"
	}
	switch typ {
	case 128, 129:
		return kind == "echo"
	case 1:
		return kind == "du"
	case 2:
		return kind == "ptb"
	case 3:
		return kind == "te"
	case 4:
		return kind == "pp"
	case 160:
		return kind == "xreq"
	case 161:
		return kind == "xrep"
	}
	return kind == "raw"
}

// refValidExtHeader mirrors RFC 4884's test for an extension header (version 2, checksum absent or valid).
func refValidExtHeader(b []byte) bool {
	if len(b) < 4 || b[0]>>4 != 2 {
		return false
	}
	if b[2] == 0 && b[3] == 0 {
		return true
	}
	return csumValid(b)
}

// expectBack: (expected body after a round trip, in-domain?, finding signature if the message lies in a
// region where the unchanged code is known not to round-trip).
func expectBack(proto, typ, code int, b body) (body, bool, string) {
	if !inRange(code, 0, 255) || !kindMatches(proto, typ, b.kind) {
		return b, false, ""
	}
	want := b
	var exts []ext
	for _, e := range b.exts {
		x, ok := extInDomain(proto, e)
		if !ok {
			return b, false, ""
		}
		exts = append(exts, x)
	}
	want.exts = exts
	sig := ""
	switch b.kind {
	case "echo":
		if !inRange(b.id, 0, 65535) || !inRange(b.seq, 0, 65535) {
			return b, false, ""
		}
	case "xreq":
		if !inRange(b.id, 0, 65535) || !inRange(b.seq, 0, 255) {
			return b, false, ""
		}
		nident := 0
		for _, e := range b.exts {
			if e.kind == "mpls" || e.kind == "info" {
				return b, false, "" // Marshal refuses
			}
			if e.kind == "ident" {
				nident++
			}
		}
		if nident == 1 && len(b.exts) > 1 {
			return b, false, ""
		}
	case "xrep":
		if !inRange(b.id, 0, 65535) || !inRange(b.seq, 0, 255) || !inRange(b.state, 0, 7) {
			return b, false, ""
		}
	case "ptb":
		if !inRange(b.mtu, 0, 1<<32-1) {
			return b, false, ""
		}
	case "pp":
		if proto == protoV4 && b.ptr > 255 || b.ptr > 1<<32-1 {
			return b, false, ""
		}
		fallthrough
	case "du", "te":
		for _, e := range b.exts {
			if e.kind == "ident" {
				return b, false, "" // Marshal refuses
			}
		}
		if b.kind == "pp" && proto == protoV6 {
			if len(b.exts) > 0 {
				sig = mustRefuse // RFC 4884 does not extend the ICMPv6 parameter problem: Marshal must refuse
			}
			break
		}
		if len(b.exts) > 0 {
			n := origLen(proto, len(b.data))
			want.data = padTo(b.data, n)
			unit := 4
			if proto == protoV6 {
				unit = 8
			}
			if n/unit > 255 {
				sig = mustRefuse // the length attribute does not fit its octet: Marshal must refuse
			}
		} else if len(b.data) >= 136 && refValidExtHeader(b.data[128:]) {
			sig = "rfc4884-legacy-128-heuristic"
		}
	}
	return want, true, sig
}

// ---------------------------------------------------------------- executor

func runMsg(op string, k *toks, o *vu.Out) {
	proto := k.nat()
	pshTok := k.next()
	var psh []byte
	if pshTok != "nopsh" {
		var ok bool
		psh, ok = vu.ParseHex(pshTok)
		if !ok || (proto == protoV6 && len(psh) != 40) || (proto != protoV6 && len(psh) > 64) {
			k.bad = true
		}
	}
	pshArgGiven := psh != nil
	pshGiven := psh
	if proto != protoV6 {
		psh = nil // the pseudo header belongs to ICMPv6 only: an ICMPv4 message must come out the same
	}
	typ, code := k.nat(), k.int()
	b := k.body()
	if k.bad || len(k.t) != 0 || (proto != protoV4 && proto != protoV6) || typ > 255 {
		o.Op(op, "bad-op")
		return
	}
	o.Stat("msg:" + b.kind)
	m := &icmp.Message{Type: mkType(proto, typ), Code: code, Body: b.toGo()}
	var wire []byte
	var back *icmp.Message
	var perr error
	res := vu.Catch(func() string {
		var pshArg []byte
		if pshArgGiven {
			pshArg = append(make([]byte, 0, len(pshGiven)), pshGiven...)
		}
		w, err := m.Marshal(pshArg)
		if err != nil {
			return "merr"
		}
		wire = append([]byte(nil), w...)
		var full []byte
		if psh != nil {
			p := append([]byte(nil), psh...)
			binary.BigEndian.PutUint32(p[32:36], uint32(len(wire)))
			full = append(p, wire...)
		} else {
			full = wire
		}
		v := icmp.VerifChecksum(full)
		back, perr = icmp.ParseMessage(proto, wire)
		if perr != nil {
			return fmt.Sprintf("ok %s %d perr", vu.Hex(wire), v)
		}
		return fmt.Sprintf("ok %s %d %s", vu.Hex(wire), v, renderMsg(back))
	})
	o.Op(op, res)
	if res == "panic" {
		o.Fail("", "Marshal/ParseMessage panicked on "+op[:min(len(op), 200)])
		return
	}
	if proto == protoV4 && pshArgGiven && res != "merr" {
		// ICMPv4 output does not depend on the pseudo-header argument
		ref, _ := (&icmp.Message{Type: mkType(proto, typ), Code: code, Body: b.toGo()}).Marshal(nil)
		if !bytes.Equal(ref, wire) {
			o.Fail("", fmt.Sprintf("ICMPv4 Marshal with a non-nil pseudo header returned %d bytes %.60x, with nil %d bytes %.60x", len(wire), wire, len(ref), ref))
		} else {
			o.Stat("msg:v4-psh-ignored")
		}
	}
	want, inDom, sig := expectBack(proto, typ, code, b)
	if !inDom {
		o.Stat("msg:outside-domain")
		return
	}
	if sig == mustRefuse {
		if res != "merr" {
			o.Fail("", "Marshal accepted a message that the wire format cannot represent (it cannot round-trip): "+op[:min(len(op), 200)])
		} else {
			o.Stat("msg:refused-unrepresentable")
		}
		return
	}
	if res == "merr" {
		o.Fail("", "Marshal refused an in-domain message: "+op)
		return
	}
	// checksum validity (ICMPv4 always; ICMPv6 when a pseudo-header was supplied)
	if proto == protoV4 || psh != nil {
		full := wire
		if psh != nil {
			p := append([]byte(nil), psh...)
			binary.BigEndian.PutUint32(p[32:36], uint32(len(wire)))
			full = append(p, wire...)
		}
		if !csumValid(full) {
			o.Fail("", fmt.Sprintf("marshalled message of %d bytes does not carry a valid RFC 1071 checksum", len(full)))
		}
	}
	if sig != "" {
		o.Stat("msg:region:" + sig)
	}
	got := "perr"
	if perr == nil {
		got = fmt.Sprintf("%d %d %s", typeNum(back.Type), back.Code, bodyFromGo(back.Body).render())
	}
	exp := fmt.Sprintf("%d %d %s", typ, code, want.render())
	if got != exp {
		o.Fail(sig, fmt.Sprintf("round trip differs: sent %.300s parsed back %.300s", exp, got))
	} else {
		o.Stat("msg:roundtrip-ok")
	}
	// multipart extension header checksum is valid too
	if len(b.exts) > 0 && sig == "" && (b.kind == "du" || b.kind == "te" || (b.kind == "pp" && proto == protoV4)) {
		n := origLen(proto, len(b.data))
		if 8+n+4 <= len(wire) && !csumValid(wire[8+n:]) {
			o.Fail("", "extension structure checksum invalid")
		}
	}
}

type hdrSpec struct {
	version, length, tos, totalLen, id, flags, fragOff, ttl, protocol, cksum int
	src, dst, options                                                        []byte
}

func renderHeader(h *ipv4.Header) string {
	ip := func(x net.IP) []byte {
		if v := x.To4(); v != nil {
			return v
		}
		return x
	}
	return fmt.Sprintf("%d %d %d %d %d %d %d %d %d %d %s %s %s", h.Version, h.Len, h.TOS, h.TotalLen, h.ID, int(h.Flags),
		h.FragOff, h.TTL, h.Protocol, h.Checksum, vu.Hex(ip(h.Src)), vu.Hex(ip(h.Dst)), vu.Hex(h.Options))
}

func herr(err error) string {
	switch err.Error() {
	case "header too short":
		return "short"
	case "extension header too short":
		return "ext"
	case "missing address":
		return "addr"
	case "invalid options length":
		return "opt"
	}
	return "other"
}

func runHdr(op string, k *toks, o *vu.Out) {
	s := hdrSpec{k.int(), k.int(), k.int(), k.int(), k.int(), k.int(), k.int(), k.int(), k.int(), k.int(), k.bytes(), k.bytes(), k.bytes()}
	if k.bad || len(k.t) != 0 {
		o.Op(op, "bad-op")
		return
	}
	h := &ipv4.Header{Version: s.version, Len: s.length, TOS: s.tos, TotalLen: s.totalLen, ID: s.id, Flags: ipv4.HeaderFlags(s.flags),
		FragOff: s.fragOff, TTL: s.ttl, Protocol: s.protocol, Checksum: s.cksum, Options: s.options}
	if len(s.src) > 0 {
		h.Src = net.IP(s.src)
	}
	if len(s.dst) > 0 {
		h.Dst = net.IP(s.dst)
	}
	var back *ipv4.Header
	res := vu.Catch(func() string {
		w, err := h.Marshal()
		if err != nil {
			return "merr-" + herr(err)
		}
		b, err := ipv4.ParseHeader(w)
		if err != nil {
			return fmt.Sprintf("ok %s perr-%s", vu.Hex(w), herr(err))
		}
		back = b
		return fmt.Sprintf("ok %s %s", vu.Hex(w), renderHeader(b))
	})
	o.Op(op, res)
	if res == "panic" {
		o.Fail("", "Header.Marshal/Parse panicked on "+op)
		return
	}
	// options the header length field cannot represent must be refused, never silently mis-encoded
	if len(s.options)%4 != 0 || len(s.options) > 40 {
		if s.length >= 20 && back != nil {
			o.Fail("", fmt.Sprintf("Header.Marshal accepted %d option bytes, which the 4-bit header length cannot represent; parsed back %s", len(s.options), renderHeader(back)))
		} else if s.length >= 20 && strings.HasPrefix(res, "ok") {
			o.Fail("", "Header.Marshal accepted unrepresentable options: "+res[:min(len(res), 120)])
		} else {
			o.Stat("hdr:refused-options")
		}
		return
	}
	inDom := s.version == 4 && s.length == 20+len(s.options) && len(s.options)%4 == 0 && len(s.options) <= 40 &&
		inRange(s.tos, 0, 255) && inRange(s.totalLen, 0, 65535) && inRange(s.id, 0, 65535) && inRange(s.flags, 0, 7) &&
		inRange(s.fragOff, 0, 8191) && inRange(s.ttl, 0, 255) && inRange(s.protocol, 0, 255) && inRange(s.cksum, 0, 65535) &&
		len(s.src) == 4 && len(s.dst) == 4
	if !inDom {
		o.Stat("hdr:outside-domain")
		return
	}
	if back == nil {
		o.Fail("", "in-domain header failed to marshal/parse: "+res)
		return
	}
	want := fmt.Sprintf("%d %d %d %d %d %d %d %d %d %d %s %s %s", s.version, s.length, s.tos, s.totalLen, s.id, s.flags, s.fragOff,
		s.ttl, s.protocol, s.cksum, vu.Hex(s.src), vu.Hex(s.dst), vu.Hex(s.options))
	if got := renderHeader(back); got != want {
		o.Fail("", fmt.Sprintf("ipv4.Header round trip differs: sent %s parsed back %s", want, got))
	} else {
		o.Stat("hdr:roundtrip-ok")
	}
}

func exec(ops []string, o *vu.Out) {
	for _, op := range ops {
		t := strings.Fields(op)
		if len(t) == 0 {
			o.Op(op, "bad-op")
			continue
		}
		o.Stat("op:" + t[0])
		if runCtl(op, t, o) {
			continue
		}
		k := &toks{t: t[1:]}
		switch t[0] {
		case "msg":
			runMsg(op, k, o)
		case "hdr":
			runHdr(op, k, o)
		case "parse":
			proto, b := k.nat(), k.bytes()
			if k.bad || len(k.t) != 0 {
				o.Op(op, "bad-op")
				continue
			}
			res := vu.Catch(func() string {
				m, err := icmp.ParseMessage(proto, b)
				if err != nil {
					return "perr"
				}
				return "ok " + renderMsg(m)
			})
			o.Op(op, res)
			if res == "panic" {
				o.Fail("", "ParseMessage panicked on "+op)
			}
		case "phdr2":
			a, b := k.bytes(), k.bytes()
			if k.bad || len(k.t) != 0 {
				o.Op(op, "bad-op")
				continue
			}
			// Header.Parse into a Header that already holds the result of an earlier Parse
			var fresh string
			res := vu.Catch(func() string {
				h := new(ipv4.Header)
				_ = h.Parse(a)
				if err := h.Parse(b); err != nil {
					return "perr-" + herr(err)
				}
				return "ok " + renderHeader(h)
			})
			o.Op(op, res)
			fresh = vu.Catch(func() string {
				h, err := ipv4.ParseHeader(b)
				if err != nil {
					return "perr-" + herr(err)
				}
				return "ok " + renderHeader(h)
			})
			if res != fresh {
				o.Fail("", fmt.Sprintf("Header.Parse into a re-used Header differs from a fresh parse: %s vs %s", res, fresh))
			}
		case "phdr":
			b := k.bytes()
			if k.bad || len(k.t) != 0 {
				o.Op(op, "bad-op")
				continue
			}
			res := vu.Catch(func() string {
				h, err := ipv4.ParseHeader(b)
				if err != nil {
					return "perr-" + herr(err)
				}
				return "ok " + renderHeader(h)
			})
			o.Op(op, res)
			if res == "panic" {
				o.Fail("", "ParseHeader panicked on "+op)
			}
		case "csum":
			b := k.bytes()
			if k.bad || len(k.t) != 0 {
				o.Op(op, "bad-op")
				continue
			}
			c := icmp.VerifChecksum(b)
			o.Op(op, fmt.Sprintf("ok %d", c))
			// reference: complement of the one's-complement sum, byte-swapped (the code sums little-endian words)
			r := ^refSum(b)
			r = r<<8 | r>>8
			if c != r && !(refSum(b) == 0 && c == 0xffff) {
				o.Fail("", fmt.Sprintf("checksum(%d bytes) = %#04x, reference %#04x", len(b), c, r))
			}
		case "bigecho":
			n, fill, id, seq := k.nat(), k.nat(), k.int(), k.int()
			if k.bad || len(k.t) != 0 || fill > 255 || n > 600000 {
				o.Op(op, "bad-op")
				continue
			}
			m := &icmp.Message{Type: ipv4.ICMPTypeEcho, Body: &icmp.Echo{ID: id, Seq: seq, Data: bytes.Repeat([]byte{byte(fill)}, n)}}
			w, err := m.Marshal(nil)
			if err != nil {
				o.Op(op, "merr")
				continue
			}
			o.Op(op, fmt.Sprintf("ok %d %s %d", len(w), vu.Hex(w[:8]), icmp.VerifChecksum(w)))
			if !csumValid(w) {
				o.Fail("", fmt.Sprintf("ICMPv4 echo of %d bytes (data %d x %#02x) carries checksum %02x%02x which does not verify", len(w), n, fill, w[2], w[3]))
			} else {
				o.Stat("bigecho:valid")
			}
		default:
			o.Op(op, "bad-op")
		}
	}
}

func main() { vu.Main(gen, exec) }
