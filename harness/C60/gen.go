//go:build verif

package main

import (
	"encoding/binary"
	"fmt"

	"golang.org/x/net/icmp"
	vu "golang.org/x/net/internal/verifutil"
)

func genInt(r *vu.Rng, bits int, wild bool) int {
	if wild {
		switch r.Intn(4) {
		case 0:
			return -int(r.Intn(1000)) - 1
		case 1:
			return 1<<uint(bits) + r.Intn(1000)
		default:
			return int(int64(r.Uint64()) >> uint(r.Intn(40)))
		}
	}
	return int(r.Boundary(bits))
}

func genName(r *vu.Rng, max int) []byte {
	n := r.Intn(12)
	if r.Chance(1, 8) {
		n = r.Range(max-3, max)
	}
	if n > max {
		n = max
	}
	b := r.BytesFrom("abcdefghijklmnopqrstuvwxyz0123456789-._", n)
	if r.Chance(1, 25) && n > 2 {
		b[r.Intn(n)] = 0 // NUL somewhere (inner NULs survive, outer ones are trimmed)
	}
	return b
}

func genExt(r *vu.Rng, proto int, forXreq, wild bool) ext {
	kinds := []string{"mpls", "mpls", "info", "info", "rawx"}
	if forXreq {
		kinds = []string{"ident", "ident", "ident", "rawx"}
	}
	if wild && r.Chance(1, 3) {
		kinds = []string{"mpls", "info", "ident", "rawx"}
	}
	e := ext{kind: kinds[r.Intn(len(kinds))]}
	switch e.kind {
	case "mpls":
		e.cls, e.typ = 1, 1
		if wild && r.Bool() {
			e.cls, e.typ = r.Intn(300), r.Intn(300)
		}
		n := r.Intn(4)
		for i := 0; i < n; i++ {
			e.labels = append(e.labels, label{genInt(r, 20, wild && r.Chance(1, 3)), genInt(r, 3, wild && r.Chance(1, 3)), r.Bool(), genInt(r, 8, wild && r.Chance(1, 3))})
		}
	case "info":
		e.cls = 2
		attrs := 0
		if r.Chance(3, 4) {
			e.hasIf = true
			e.ifIdx = 1 + int(r.Boundary(31))
			attrs |= 8
			if r.Chance(1, 12) {
				e.ifName = r.BytesFrom("abcdefghijklmnopqrstuvwxyz", r.Range(64, 130)) // longer than the name field
				attrs |= 2
			} else if r.Bool() {
				e.ifName = genName(r, 63)
				if len(e.ifName) > 0 {
					attrs |= 2
				}
			}
			if r.Bool() {
				e.ifMTU = int(r.Boundary(32))
				if e.ifMTU > 0 {
					attrs |= 1
				}
			}
			if wild && r.Chance(1, 3) {
				e.ifIdx = genInt(r, 32, true)
			}
		}
		if r.Chance(2, 3) {
			e.hasAddr = true
			if proto == protoV4 {
				e.ip = r.Bytes(4)
			} else {
				e.ip = r.Bytes(16)
				e.ip[0] = 0x20
				if e.hasIf && len(e.ifName) > 0 && e.ifIdx > 0 {
					e.zone = append([]byte(nil), e.ifName...)
				}
			}
			attrs |= 4
			if wild && r.Chance(1, 2) {
				switch r.Intn(3) {
				case 0:
					e.ip = r.Bytes(16) // v6 literal under ICMPv4 and vice versa
					if proto == protoV6 {
						e.ip = r.Bytes(4)
					}
				case 1:
					e.ip = nil
				default:
					e.ip = append(append(make([]byte, 10), 0xff, 0xff), r.Bytes(4)...) // v4-mapped
				}
			}
		}
		e.typ = attrs
		if wild && r.Chance(1, 2) {
			e.typ = r.Intn(20)
		}
	case "ident":
		e.cls = 3
		e.typ = r.Range(1, 3)
		switch e.typ {
		case 1:
			e.name = genName(r, 255)
			if r.Chance(1, 10) {
				e.name = r.BytesFrom("abcdefghijklmnopqrstuvwxyz", r.Range(256, 420)) // longer than the object can carry
			}
		case 2:
			e.index = int(r.Boundary(32))
		case 3:
			e.afi = int(r.Boundary(16))
			e.addr = r.Bytes([]int{0, 4, 6, 16, r.Intn(40)}[r.Intn(5)])
		}
		if wild {
			switch r.Intn(4) {
			case 0:
				e.typ = r.Intn(7)
			case 1:
				e.index = genInt(r, 32, true)
			case 2:
				e.name = genName(r, 255)
				e.addr = r.Bytes(r.Intn(9))
			default:
				e.afi = genInt(r, 16, true)
			}
		}
	default:
		n := 4 + r.Intn(12)
		if r.Chance(1, 6) {
			n = 4 + 4*r.Intn(6)
		}
		e.data = r.Bytes(n)
		binary.BigEndian.PutUint16(e.data[:2], uint16(n))
		e.data[2] = byte(4 + r.Intn(200))
		if wild {
			switch r.Intn(4) {
			case 0:
				e.data = r.Bytes(r.Intn(8)) // malformed / empty object
			case 1:
				e.data[2] = byte(1 + r.Intn(3)) // a raw object of a known class
			case 2:
				e.data[1]++
			default:
				e.data = nil
			}
		}
	}
	return e
}

func genExts(r *vu.Rng, proto int, forXreq, wild bool) []ext {
	n := 0
	switch r.Intn(6) {
	case 0, 1, 2:
		n = 0
	case 3, 4:
		n = 1
	default:
		n = r.Range(2, 3)
	}
	var es []ext
	for i := 0; i < n; i++ {
		es = append(es, genExt(r, proto, forXreq, wild))
	}
	if forXreq && !wild {
		// Marshal refuses exactly one InterfaceIdent mixed with other objects
		ni := 0
		for _, e := range es {
			if e.kind == "ident" {
				ni++
			}
		}
		if ni == 1 && len(es) > 1 {
			es = es[:1]
			if es[0].kind != "ident" {
				es = nil
			}
		}
	}
	return es
}

// genOrigDatagram: sizes around the RFC 4884 thresholds; sometimes an extension-header look-alike at octet 128.
func genOrigDatagram(r *vu.Rng, proto int, withExts bool) []byte {
	var n int
	switch r.Intn(12) {
	case 0:
		n = 0
	case 1, 2, 3:
		n = r.Intn(64)
	case 4, 5:
		n = r.Range(120, 140)
	case 6:
		n = r.Range(136, 200)
	case 7:
		n = r.Range(200, 600)
	case 8:
		if withExts {
			if proto == protoV4 {
				n = r.Range(1010, 1030)
			} else {
				n = r.Range(2030, 2050)
			}
		} else {
			n = r.Range(1000, 1100)
		}
	default:
		n = r.Intn(160)
	}
	d := r.Bytes(n)
	if !withExts && n >= 136 && r.Chance(1, 4) {
		d[128] = 0x20 | byte(r.Intn(16))
		if r.Bool() {
			d[130], d[131] = 0, 0
		} else {
			d[130], d[131] = 0, 0
			s := icmp.VerifChecksum(d[128:])
			d[130], d[131] = byte(s), byte(s>>8)
		}
	}
	return d
}

var v4Types = map[string][]int{"echo": {8, 0}, "du": {3}, "te": {11}, "pp": {12}, "xreq": {42}, "xrep": {43}, "raw": {5, 13, 40, 9}}
var v6Types = map[string][]int{"echo": {128, 129}, "du": {1}, "te": {3}, "pp": {4}, "ptb": {2}, "xreq": {160}, "xrep": {161}, "raw": {133, 135, 200}}

func genMsgSpec(r *vu.Rng) (proto int, psh []byte, typ, code int, b body) {
	proto = protoV4
	if r.Bool() {
		proto = protoV6
	}
	wild := r.Chance(1, 8)
	kinds := []string{"echo", "echo", "du", "du", "te", "te", "pp", "pp", "xreq", "xreq", "xrep", "raw", "nil"}
	if proto == protoV6 {
		kinds = append(kinds, "ptb", "ptb")
	}
	b.kind = kinds[r.Intn(len(kinds))]
	tm := v4Types
	if proto == protoV6 {
		tm = v6Types
	}
	if ts, ok := tm[b.kind]; ok {
		typ = ts[r.Intn(len(ts))]
	} else {
		typ = r.Intn(256)
	}
	if wild && r.Chance(1, 3) {
		typ = r.Intn(256)
	}
	code = r.Intn(16)
	if r.Chance(1, 6) {
		code = genInt(r, 8, wild)
	}
	switch b.kind {
	case "echo":
		b.id, b.seq = genInt(r, 16, wild && r.Bool()), genInt(r, 16, wild && r.Bool())
		b.data = r.Bytes([]int{0, 1, 8, 56, r.Intn(300)}[r.Intn(5)])
	case "xreq":
		b.id, b.seq, b.loc = genInt(r, 16, wild && r.Bool()), genInt(r, 8, wild && r.Bool()), r.Bool()
		b.exts = genExts(r, proto, true, wild)
	case "xrep":
		b.id, b.seq, b.state = genInt(r, 16, wild && r.Bool()), genInt(r, 8, wild && r.Bool()), genInt(r, 3, wild && r.Bool())
		b.active, b.v4, b.v6 = r.Bool(), r.Bool(), r.Bool()
	case "du", "te", "pp":
		b.exts = genExts(r, proto, false, wild)
		if b.kind == "pp" && proto == protoV6 && !r.Chance(1, 10) {
			b.exts = nil
		}
		b.data = genOrigDatagram(r, proto, len(b.exts) > 0)
		if b.kind == "pp" {
			if proto == protoV4 {
				b.ptr = uint64(r.Boundary(8))
			} else {
				b.ptr = r.Boundary(32)
			}
			if wild && r.Bool() {
				b.ptr = r.Boundary(40)
			}
		}
	case "ptb":
		b.mtu = genInt(r, 32, wild && r.Bool())
		b.data = r.Bytes(r.Intn(80))
	case "raw":
		b.data = r.Bytes(r.Intn(40))
	}
	if proto == protoV4 && r.Chance(1, 8) {
		// callers that share one code path hand the IPv6 pseudo header (or anything) to ICMPv4 messages
		if r.Bool() {
			psh = r.Bytes(40)
		} else {
			psh = r.Bytes(r.Intn(65))
		}
	}
	if proto == protoV6 && r.Chance(2, 3) {
		psh = r.Bytes(40)
		psh[32], psh[33], psh[34], psh[35] = 0, 0, 0, 0
		psh[36], psh[37], psh[38], psh[39] = 0, 0, 0, 58
	}
	return
}

func msgOp(proto int, psh []byte, typ, code int, b body) string {
	p := "nopsh"
	if psh != nil {
		p = vu.Hex(psh)
	}
	return fmt.Sprintf("msg %d %s %d %d %s", proto, p, typ, code, b.render())
}

func mutate(r *vu.Rng, w []byte) []byte {
	w = append([]byte(nil), w...)
	switch r.Intn(6) {
	case 0:
		if len(w) > 0 {
			w = w[:r.Intn(len(w))]
		}
	case 1:
		w = append(w, r.Bytes(1+r.Intn(12))...)
	case 2, 3:
		for k := 0; k < 1+r.Intn(3) && len(w) > 0; k++ {
			w[r.Intn(len(w))] ^= 1 << uint(r.Intn(8))
		}
	case 4:
		if len(w) > 6 {
			i := 4 + r.Intn(2)
			w[i] += byte(r.Intn(3)) - 1 // length attribute ±1
		}
	}
	return w
}

func genHdr(r *vu.Rng) hdrSpec {
	wild := r.Chance(1, 6)
	nopt := 4 * r.Intn(11)
	if wild && r.Bool() {
		nopt = r.Intn(70)
	}
	if r.Chance(1, 10) {
		nopt = []int{1, 2, 3, 5, 6, 7, 41, 42, 43, 44, 60}[r.Intn(11)]
	}
	s := hdrSpec{version: 4, length: 20 + nopt, tos: genInt(r, 8, false), totalLen: genInt(r, 16, false), id: genInt(r, 16, false),
		flags: r.Intn(8), fragOff: genInt(r, 13, false), ttl: genInt(r, 8, false), protocol: genInt(r, 8, false), cksum: genInt(r, 16, false),
		src: r.Bytes(4), dst: r.Bytes(4), options: r.Bytes(nopt)}
	if wild {
		switch r.Intn(8) {
		case 0:
			s.version = r.Intn(16)
		case 1:
			s.length = r.Intn(70)
		case 2:
			s.flags = genInt(r, 3, true)
		case 3:
			s.fragOff = genInt(r, 13, true)
		case 4:
			s.src = nil
		case 5:
			s.dst = [][]byte{nil, r.Bytes(16), r.Bytes(3)}[r.Intn(3)]
		case 6:
			s.totalLen, s.id = genInt(r, 16, true), genInt(r, 16, true)
		default:
			s.src = append(append(make([]byte, 10), 0xff, 0xff), r.Bytes(4)...)
		}
	}
	return s
}

func hdrOp(s hdrSpec) string {
	return fmt.Sprintf("hdr %d %d %d %d %d %d %d %d %d %d %s %s %s", s.version, s.length, s.tos, s.totalLen, s.id, s.flags, s.fragOff,
		s.ttl, s.protocol, s.cksum, vu.Hex(s.src), vu.Hex(s.dst), vu.Hex(s.options))
}

func gen(r *vu.Rng, i int) []string {
	if r.Chance(1, 6) {
		return genCtl(r)
	}
	switch x := r.Intn(1000); {
	case x < 520:
		return []string{msgOp(genMsgSpec(r))}
	case x < 700:
		// parse: a marshalled message, mutated (or handed to the other protocol)
		proto, _, typ, code, b := genMsgSpec(r)
		m := &icmp.Message{Type: mkType(proto, typ), Code: code, Body: b.toGo()}
		w, _, _ := vu.CatchMsg(func() string {
			wb, err := m.Marshal(nil)
			if err != nil {
				return ""
			}
			return string(wb)
		})
		wire := []byte(w)
		if w == "panic" || len(wire) == 0 {
			wire = r.Bytes(r.Intn(30))
		}
		if r.Chance(3, 4) {
			wire = mutate(r, wire)
		}
		if r.Chance(1, 10) {
			proto = protoV4 + protoV6 - proto
		}
		if r.Chance(1, 50) {
			proto = r.Intn(70)
		}
		return []string{fmt.Sprintf("parse %d %s", proto, vu.Hex(wire))}
	case x < 760:
		n := r.Intn(12)
		if r.Bool() {
			n = r.Intn(200)
		}
		proto := protoV4
		if r.Bool() {
			proto = protoV6
		}
		return []string{fmt.Sprintf("parse %d %s", proto, vu.Hex(r.Bytes(n)))}
	case x < 880:
		return []string{hdrOp(genHdr(r))}
	case x < 940:
		var b []byte
		if r.Bool() {
			b = r.Bytes(r.Intn(70))
		} else {
			s := genHdr(r)
			b = append(append([]byte{byte(0x40 | (5 + len(s.options)/4))}, r.Bytes(19)...), s.options...)
			b = mutate(r, b)
		}
		if r.Chance(1, 3) {
			s1, s2 := genHdr(r), genHdr(r)
			if r.Bool() {
				s2.options, s2.length = nil, 20
			}
			mk := func(s hdrSpec) []byte {
				n := len(s.options) / 4 * 4
				return append(append([]byte{byte(0x40 | (5 + n/4))}, r.Bytes(19)...), s.options[:n]...)
			}
			return []string{"phdr2 " + vu.Hex(mk(s1)) + " " + vu.Hex(mk(s2))}
		}
		return []string{"phdr " + vu.Hex(b)}
	case x < 999:
		n := r.Intn(70)
		if r.Chance(1, 10) {
			n = r.Intn(3000)
		}
		b := r.Bytes(n)
		if r.Chance(1, 6) {
			for k := range b {
				b[k] = 0xff
			}
		}
		return []string{"csum " + vu.Hex(b)}
	default:
		n := []int{131060, 131064, 131066, 131067, 131068, 131069, 131070, 131080, 200000, 262144}[r.Intn(10)]
		fill := []int{255, 255, 0, 1, r.Intn(256)}[r.Intn(5)]
		return []string{fmt.Sprintf("bigecho %d %d %d %d", n, fill, r.Intn(65536), r.Intn(65536))}
	}
}
