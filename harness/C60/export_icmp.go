//go:build verif

package icmp

// White-box shims for the C60 harness.

func VerifChecksum(b []byte) uint16 { return checksum(b) }

func VerifMultipartLens(proto int, withOrigDgram bool, b []byte, exts []Extension) (int, int) {
	return multipartMessageBodyDataLen(proto, withOrigDgram, b, exts)
}
