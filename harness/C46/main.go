//go:build verif

// C46 harness: WebDAV COPY / MOVE through webdav.Handler over NewMemFS/NewMemLS,
// real HTTP requests (httptest), tree snapshots before and after as the oracle.
package main

import (
	"context"
	"encoding/xml"
	"fmt"
	"io"
	"net/http"
	"net/http/httptest"
	"os"
	"path"
	"sort"
	"strconv"
	"strings"
	"time"

	vu "golang.org/x/net/internal/verifutil"
	"golang.org/x/net/webdav"
)

// ---------------------------------------------------------------- deterministic Readdir order

// sortedFS wraps a FileSystem so that Readdir results are sorted by name (memFS
// iterates a Go map). Everything else is delegated unchanged.
type sortedFS struct{ webdav.FileSystem }

func (s sortedFS) OpenFile(ctx context.Context, name string, flag int, perm os.FileMode) (webdav.File, error) {
	f, err := s.FileSystem.OpenFile(ctx, name, flag, perm)
	if err != nil {
		return nil, err
	}
	return &sortedFile{File: f}, nil
}

type sortedFile struct{ webdav.File }

func (f *sortedFile) Readdir(n int) ([]os.FileInfo, error) {
	fis, err := f.File.Readdir(n)
	sort.Slice(fis, func(i, j int) bool { return fis[i].Name() < fis[j].Name() })
	return fis, err
}

func (f *sortedFile) DeadProps() (map[xml.Name]webdav.Property, error) {
	if h, ok := f.File.(webdav.DeadPropsHolder); ok {
		return h.DeadProps()
	}
	return nil, nil
}

func (f *sortedFile) Patch(p []webdav.Proppatch) ([]webdav.Propstat, error) {
	if h, ok := f.File.(webdav.DeadPropsHolder); ok {
		return h.Patch(p)
	}
	return nil, nil
}

// ---------------------------------------------------------------- state of one case

type world struct {
	prefix string
	fs     webdav.FileSystem
	ls     webdav.LockSystem
	h      *webdav.Handler
	tokens []string
}

func newWorld(prefix string) *world {
	w := &world{prefix: prefix, fs: webdav.NewMemFS(), ls: webdav.NewMemLS()}
	w.h = &webdav.Handler{Prefix: prefix, FileSystem: sortedFS{w.fs}, LockSystem: w.ls}
	return w
}

var ctx = context.Background()

// snapshot returns cleaned path -> "d" | "f:<hex>".
func (w *world) snapshot() map[string]string {
	m := map[string]string{}
	var rec func(p string)
	rec = func(p string) {
		f, err := w.fs.OpenFile(ctx, p, os.O_RDONLY, 0)
		if err != nil {
			panic(fmt.Sprintf("snapshot: open %q: %v", p, err))
		}
		defer f.Close()
		st, _ := f.Stat()
		if !st.IsDir() {
			b := readAll(f)
			m[p] = "f:" + vu.Hex(b)
			return
		}
		if p != "/" {
			m[p] = "d"
		}
		fis, err := f.Readdir(-1)
		if err != nil {
			panic(err)
		}
		for _, fi := range fis {
			rec(path.Join(p, fi.Name()))
		}
	}
	rec("/")
	return m
}

func showSnap(m map[string]string) string {
	if len(m) == 0 {
		return "-"
	}
	keys := make([]string, 0, len(m))
	for k := range m {
		keys = append(keys, k)
	}
	sort.Strings(keys)
	var sb strings.Builder
	for i, k := range keys {
		if i > 0 {
			sb.WriteByte(',')
		}
		sb.WriteString(k + "=" + m[k])
	}
	return sb.String()
}

// under reports whether q is p or below p (cleaned, rooted paths).
func under(p, q string) bool {
	if p == "/" {
		return true
	}
	return q == p || strings.HasPrefix(q, p+"/")
}

// subtree returns the entries at or below p, keyed by the path relative to p.
func subtree(m map[string]string, p string, except string) map[string]string {
	r := map[string]string{}
	for k, v := range m {
		if under(p, k) && (except == "" || !under(except, k)) {
			r[strings.TrimPrefix(k, strings.TrimSuffix(p, "/"))] = v
		}
	}
	return r
}

func sameMap(a, b map[string]string) bool {
	if len(a) != len(b) {
		return false
	}
	for k, v := range a {
		if w, ok := b[k]; !ok || w != v {
			return false
		}
	}
	return true
}

// ---------------------------------------------------------------- exec

func pathTok(s string) (string, bool) {
	if !strings.HasPrefix(s, "p:") {
		return "", false
	}
	return s[2:], true
}

func (w *world) strip(p string) (string, bool) {
	if w.prefix == "" {
		return p, true
	}
	if r := strings.TrimPrefix(p, w.prefix); len(r) < len(p) {
		return r, true
	}
	return p, false
}

func pctEncode(p string) string {
	var sb strings.Builder
	for i := 0; i < len(p); i++ {
		if c := p[i]; c >= 'a' && c <= 'z' || c == '.' {
			fmt.Fprintf(&sb, "%%%02x", c)
		} else {
			sb.WriteByte(c)
		}
	}
	return sb.String()
}

func exec(ops []string, o *vu.Out) {
	w := newWorld("")
	for _, op := range ops {
		t := strings.Fields(op)
		res := vu.Catch(func() string { return w.step(t, op, o) })
		if strings.HasPrefix(res, "reset:") {
			w = newWorld(res[len("reset:"):])
			res = "ok"
		}
		o.Op(op, res)
	}
}

func (w *world) step(t []string, op string, o *vu.Out) string {
	if len(t) == 0 {
		return "bad-op"
	}
	o.Stat("op:" + t[0])
	switch {
	case t[0] == "reset" && len(t) == 2:
		if t[1] == "-" {
			return "reset:"
		}
		return "reset:" + t[1]
	case t[0] == "mkdir" && len(t) == 2:
		p, ok := pathTok(t[1])
		if !ok {
			return "bad-op"
		}
		if err := w.fs.Mkdir(ctx, p, 0777); err != nil {
			return "err"
		}
		return "ok"
	case t[0] == "put" && len(t) == 3:
		p, ok := pathTok(t[1])
		d, ok2 := vu.ParseHex(t[2])
		if !ok || !ok2 {
			return "bad-op"
		}
		f, err := w.fs.OpenFile(ctx, p, os.O_RDWR|os.O_CREATE|os.O_TRUNC, 0666)
		if err != nil {
			return "err"
		}
		defer f.Close()
		if _, err := f.Write(d); err != nil {
			return "err"
		}
		return "ok"
	case t[0] == "lock" && len(t) == 3:
		p, ok := pathTok(t[1])
		if !ok {
			return "bad-op"
		}
		tok, err := w.ls.Create(time.Now(), webdav.LockDetails{Root: p, Duration: -1, ZeroDepth: t[2] == "1"})
		if err != nil {
			return "err"
		}
		w.tokens = append(w.tokens, tok)
		return fmt.Sprintf("ok %d", len(w.tokens)-1)
	case (t[0] == "copy" || t[0] == "move") && len(t) == 7:
		return w.copyMove(t, o)
	}
	return "bad-op"
}

func (w *world) copyMove(t []string, o *vu.Out) string {
	src, ok1 := pathTok(t[1])
	dst, ok2 := pathTok(t[3])
	if !ok1 || !ok2 {
		return "bad-op"
	}
	method := strings.ToUpper(t[0])
	if !strings.HasPrefix(src, "/") {
		return "bad-op"
	}
	req := httptest.NewRequest(method, "http://example.com"+src, nil)
	if req.URL.Path != src {
		panic("request target was rewritten: " + req.URL.Path)
	}
	hostClass := t[2]
	switch hostClass {
	case "none":
		// a path-only destination; percent-encode some of them (same parsed path)
		if strings.Contains(dst, "c") {
			req.Header.Set("Destination", pctEncode(dst))
		} else {
			req.Header.Set("Destination", dst)
		}
	case "same":
		req.Header.Set("Destination", "http://example.com"+dst)
	case "other":
		req.Header.Set("Destination", "http://other.example"+dst)
	case "absent":
	case "invalid":
		req.Header.Set("Destination", "/%zz"+dst)
	default:
		return "bad-op"
	}
	switch t[4] {
	case "-":
	case "T", "F", "X":
		req.Header.Set("Overwrite", t[4])
	default:
		return "bad-op"
	}
	switch t[5] {
	case "-":
	case "0", "1", "infinity", "bad":
		req.Header.Set("Depth", t[5])
	default:
		return "bad-op"
	}
	if t[6] != "-" {
		var sb strings.Builder
		sb.WriteString("(")
		for i, s := range strings.Split(t[6], ",") {
			k, err := strconv.Atoi(s)
			if err != nil {
				return "bad-op"
			}
			if i > 0 {
				sb.WriteByte(' ')
			}
			if k >= 0 && k < len(w.tokens) {
				sb.WriteString("<" + w.tokens[k] + ">")
			} else {
				sb.WriteString("<urn:nosuch:" + s + ">")
			}
		}
		sb.WriteString(")")
		req.Header.Set("If", sb.String())
	}

	before := w.snapshot()
	rec := httptest.NewRecorder()
	w.h.ServeHTTP(rec, req)
	after := w.snapshot()
	status := rec.Code
	o.Stat(fmt.Sprintf("status:%s:%d", t[0], status))

	// ---- property oracle (C46)
	srcS, okS := w.strip(src)
	dstS, okD := w.strip(dst)
	resolved := okS && okD && (hostClass == "none" || hostClass == "same")
	desc := fmt.Sprintf("%s %s -> %s (prefix %q, host %s, Overwrite %s, Depth %s, If %s): status %d, before {%s}, after {%s}",
		method, src, dst, w.prefix, hostClass, t[4], t[5], t[6], status, showSnap(before), showSnap(after))
	if !resolved {
		// no source/destination pair is named: the request must not change anything
		if !sameMap(before, after) {
			o.Fail("", "a request that names no source/destination pair changed the tree: "+desc)
		}
	} else {
		S, D := path.Clean("/"+srcS), path.Clean("/"+dstS)
		rel := "incomparable"
		switch {
		case S == D:
			rel = "equal"
		case under(D, S):
			rel = "dst-ancestor"
		case under(S, D):
			rel = "dst-inside"
		}
		o.Stat("rel:" + t[0] + ":" + rel)
		sb := subtree(before, S, "")
		if method == "COPY" {
			except := ""
			if rel == "dst-inside" {
				except = D // the destination itself is what the client asked to (over)write
			}
			if !sameMap(subtree(before, S, except), subtree(after, S, except)) {
				o.Stat("violation:copy:" + rel)
				o.Fail("", "COPY changed its source ("+rel+"): "+desc)
			}
		} else {
			intact := sameMap(sb, subtree(after, S, ""))
			moved := len(subtree(after, S, "")) == 0 && sameMap(sb, subtree(after, D, ""))
			if rel == "equal" {
				moved = false // same resource: only "left intact" makes sense
			}
			if !intact && !moved {
				o.Stat("violation:move:" + rel)
				o.Fail("", "MOVE neither left its source intact nor moved it intact ("+rel+"): "+desc)
			}
			if status == http.StatusCreated || status == http.StatusNoContent {
				o.Stat("move:success")
			}
		}
	}
	return fmt.Sprintf("ok %d %s", status, showSnap(after))
}

// readAll is io.ReadAll with a guard against a Read that returns (0, nil) forever.
func readAll(f io.Reader) []byte {
	var out []byte
	buf := make([]byte, 512)
	stalls := 0
	for {
		n, err := f.Read(buf)
		out = append(out, buf[:n]...)
		if err == io.EOF {
			return out
		}
		if err != nil {
			panic(err)
		}
		if n == 0 {
			if stalls++; stalls > 2 {
				panic("Read keeps returning (0, nil)")
			}
		}
	}
}

func main() { vu.Main(gen, exec) }
