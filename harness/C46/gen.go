//go:build verif

package main

import (
	"fmt"
	"strings"

	vu "golang.org/x/net/internal/verifutil"
)

var names = []string{"a", "b", "c"}

func joinComps(c []string) string { return "/" + strings.Join(c, "/") }

// spell renders a cleaned component list as one of its equivalent raw spellings.
func spell(r *vu.Rng, c []string, allowRelative bool) string {
	base := joinComps(c)
	switch r.Intn(12) {
	case 0, 1, 2, 3, 4:
		return base
	case 5, 6:
		if len(c) == 0 {
			return "/."
		}
		return base + "/"
	case 7:
		if len(c) == 0 {
			return "/./"
		}
		k := r.Intn(len(c))
		d := append(append(append([]string{}, c[:k]...), "."), c[k:]...)
		return joinComps(d)
	case 8:
		k := r.Intn(len(c) + 1)
		d := append(append(append([]string{}, c[:k]...), names[r.Intn(3)], ".."), c[k:]...)
		return joinComps(d)
	case 9:
		if len(c) < 2 {
			return base + "/."
		}
		k := 1 + r.Intn(len(c)-1)
		return joinComps(c[:k]) + "//" + strings.Join(c[k:], "/")
	case 10:
		return "/.." + base
	default:
		if allowRelative && len(c) > 0 {
			return strings.Join(c, "/")
		}
		return base + "/./"
	}
}

func randomPath(r *vu.Rng) []string {
	n := r.Intn(4)
	c := make([]string, n)
	for i := range c {
		c[i] = names[r.Intn(3)]
	}
	return c
}

func gen(r *vu.Rng, i int) []string {
	prefix := ""
	if r.Chance(1, 6) {
		prefix = "/dav"
	}
	ops := []string{"reset " + map[bool]string{true: "-", false: prefix}[prefix == ""]}

	// ---- tree
	dirs := [][]string{{}}
	var all [][]string
	n := r.Range(1, 7)
	for k := 0; k < n; k++ {
		parent := dirs[r.Intn(len(dirs))]
		if r.Chance(1, 15) && len(all) > 0 {
			parent = all[r.Intn(len(all))] // maybe below a file: setup op fails
		}
		if len(parent) >= 3 {
			continue
		}
		p := append(append([]string{}, parent...), names[r.Intn(3)])
		if r.Chance(11, 20) {
			ops = append(ops, "mkdir p:"+joinComps(p))
			dirs = append(dirs, p)
		} else {
			ops = append(ops, "put p:"+joinComps(p)+" "+vu.Hex(r.Bytes(r.Intn(4))))
		}
		all = append(all, p)
	}

	// ---- locks
	nlocks := 0
	if r.Chance(2, 5) {
		for k := r.Range(1, 2); k > 0; k-- {
			var p []string
			if len(all) > 0 && r.Chance(4, 5) {
				p = all[r.Intn(len(all))]
				if r.Chance(1, 4) {
					p = p[:r.Intn(len(p)+1)]
				}
			} else {
				p = randomPath(r)
			}
			zd := 1
			if r.Chance(1, 3) {
				zd = 0
			}
			ops = append(ops, fmt.Sprintf("lock p:%s %d", spell(r, p, false), zd))
			nlocks++
		}
	}

	// ---- requests
	for k := r.Range(1, 3); k > 0; k-- {
		var src []string
		if len(all) > 0 && r.Chance(5, 6) {
			src = all[r.Intn(len(all))]
		} else {
			src = randomPath(r)
		}
		var dst []string
		switch r.Intn(14) {
		case 0, 1:
			dst = src
		case 10, 11, 12, 13:
			// a fresh or existing name in some directory (mostly unrelated to src)
			par := dirs[r.Intn(len(dirs))]
			dst = append(append([]string{}, par...), names[r.Intn(3)])
			if r.Chance(1, 3) {
				dst = append(dst, names[r.Intn(3)])
			}
		case 2, 3:
			dst = src[:r.Intn(len(src)+1)]
			if len(dst) == len(src) && len(src) > 0 {
				dst = src[:len(src)-1]
			}
		case 4, 5:
			dst = append(append([]string{}, src...), names[r.Intn(3)])
			if r.Chance(1, 4) {
				dst = append(dst, names[r.Intn(3)])
			}
		case 6, 7:
			par := dirs[r.Intn(len(dirs))]
			dst = append(append([]string{}, par...), names[r.Intn(3)])
		case 8:
			if len(all) > 0 {
				dst = all[r.Intn(len(all))]
			}
		default:
			dst = randomPath(r)
		}
		method := "copy"
		if r.Bool() {
			method = "move"
		}
		host := "none"
		switch r.Intn(40) {
		case 0, 1, 2, 3, 4, 5, 6:
			host = "same"
		case 7:
			host = "other"
		case 8:
			host = "absent"
		case 9:
			host = "invalid"
		}
		srcRaw := prefix + spell(r, src, false)
		dstRaw := spell(r, dst, host == "none" && r.Chance(1, 3))
		if strings.HasPrefix(dstRaw, "/") || prefix == "" {
			switch {
			case prefix != "" && r.Chance(1, 12):
				// prefix missing: 404
			case prefix != "" && r.Chance(1, 12) && len(dstRaw) > 1:
				dstRaw = prefix + dstRaw[1:] // "/dava/b": TrimPrefix leaves "a/b"
			default:
				dstRaw = prefix + dstRaw
			}
		}
		if prefix != "" && r.Chance(1, 15) {
			srcRaw = srcRaw[len(prefix):]
		}
		if r.Chance(1, 40) && host == "same" {
			dstRaw = "" // "http://example.com": empty path
		}
		if host == "none" && (dstRaw == "" || strings.HasPrefix(dstRaw, "//")) {
			host = "same"
			if !strings.HasPrefix(dstRaw, "/") {
				dstRaw = "/" + dstRaw
			}
		}
		if (host == "same" || host == "other") && dstRaw != "" && !strings.HasPrefix(dstRaw, "/") {
			dstRaw = "/" + dstRaw
		}
		ow := []string{"T", "T", "T", "T", "-", "-", "F", "F", "X", "T"}[r.Intn(10)]
		depth := []string{"-", "-", "-", "-", "-", "-", "-", "-", "-", "-", "infinity", "infinity", "infinity", "0", "0", "0", "1", "bad"}[r.Intn(18)]
		// COPY with Depth infinity into a destination two or more levels below the source
		// re-reads directories it has just created and runs into copyFiles' recursion limit
		// (1000 nested collections, status 500; the TODO in copyFiles). The model follows it
		// (fuel 1000) but at a cost that does not fit a differential run: not generated.
		if method == "copy" && len(dst) >= len(src)+2 && isPrefix(src, dst) && (depth == "-" || depth == "infinity") {
			depth = "0"
		}
		ift := "-"
		if nlocks > 0 && r.Chance(2, 3) {
			var idx []string
			for j := 0; j < nlocks; j++ {
				if r.Chance(3, 4) {
					idx = append(idx, fmt.Sprint(j))
				}
			}
			if r.Chance(1, 8) {
				idx = append(idx, "9")
			}
			if len(idx) > 0 {
				ift = strings.Join(idx, ",")
			}
		} else if r.Chance(1, 25) {
			ift = "9"
		}
		ops = append(ops, fmt.Sprintf("%s p:%s %s p:%s %s %s %s", method, srcRaw, host, dstRaw, ow, depth, ift))
	}
	return ops
}

func isPrefix(a, b []string) bool {
	if len(a) > len(b) {
		return false
	}
	for i := range a {
		if a[i] != b[i] {
			return false
		}
	}
	return true
}
