//go:build verif

// C52 harness: http/httpproxy — NO_PROXY matcher construction and proxy selection.
//
// Op lines (facts are tabulated results of the standard-library parsers, which the Lean model
// takes as parameters; the executor recomputes them and refuses lines whose facts are stale):
//
//	init <cgi> <HTTPProxy> <hpfact> <HTTPSProxy> <spfact> <NoProxy> <fact>*
//	req <mode u|d> <raw1> <raw2> <scheme> <host> <port> <ip|n>
//
// host/port are canonicalHostPort(url): the IDNA form of url.Hostname() and url.Port() or the scheme default.
package main

import (
	"fmt"
	"net"
	"net/netip"
	"net/url"
	"strconv"
	"strings"

	"golang.org/x/net/http/httpproxy"
	vu "golang.org/x/net/internal/verifutil"
)

func hx(s string) string { return vu.Hex([]byte(s)) }

func isASCII(s string) bool {
	for i := 0; i < len(s); i++ {
		if s[i] >= 0x80 {
			return false
		}
	}
	return true
}

// asciiLowerTrim is what the Lean model computes for strings.ToLower(strings.TrimSpace(s)).
func asciiLowerTrim(s string) string {
	isSp := func(c byte) bool { return (c >= 9 && c <= 13) || c == ' ' }
	for len(s) > 0 && isSp(s[0]) {
		s = s[1:]
	}
	for len(s) > 0 && isSp(s[len(s)-1]) {
		s = s[:len(s)-1]
	}
	b := []byte(s)
	for i, c := range b {
		if c >= 'A' && c <= 'Z' {
			b[i] = c + 32
		}
	}
	return string(b)
}

// stable: Unicode case mapping / Unicode white space do not differ from the ASCII model on s.
func stable(s string) bool { return strings.ToLower(strings.TrimSpace(s)) == asciiLowerTrim(s) }

func stableList(s string) bool {
	for _, p := range strings.Split(s, ",") {
		if !stable(p) {
			return false
		}
	}
	return true
}

func stripNonASCII(s string) string {
	var b []byte
	for i := 0; i < len(s); i++ {
		if s[i] < 0x80 {
			b = append(b, s[i])
		}
	}
	return string(b)
}

// ---------------------------------------------------------------- facts

func initFacts(np string) []string {
	var facts []string
	seen := map[string]bool{}
	add := func(f string) {
		if !seen[f] {
			seen[f] = true
			facts = append(facts, f)
		}
	}
	for _, piece := range strings.Split(np, ",") {
		p := strings.ToLower(strings.TrimSpace(piece))
		if p == "" {
			continue
		}
		if _, n, err := net.ParseCIDR(p); err == nil {
			ones, bits := n.Mask.Size()
			add(fmt.Sprintf("C:%s:%s:%d:%d", hx(p), vu.Hex(n.IP), ones, bits))
		}
		cands := []string{p}
		if h, po, err := net.SplitHostPort(p); err == nil {
			add(fmt.Sprintf("S:%s:%s:%s", hx(p), hx(h), hx(po)))
			cands = append(cands, h)
			if len(h) >= 2 && h[0] == '[' && h[len(h)-1] == ']' {
				cands = append(cands, h[1:len(h)-1])
			}
		}
		for _, c := range cands {
			if ip := net.ParseIP(c); ip != nil {
				add(fmt.Sprintf("I:%s:%s", hx(c), vu.Hex(ip)))
			}
			c = strings.TrimSuffix(c, ".")
			if c == "" {
				continue
			}
			c1 := c
			if strings.HasPrefix(c1, "*.") {
				c1 = c1[1:]
			}
			if c1[0] != '.' {
				c1 = "." + c1
			}
			if !isASCII(c1) {
				if v, err := httpproxy.VerifIdnaASCII(c1); err == nil {
					add(fmt.Sprintf("A:%s:%s", hx(c1), hx(v)))
				}
			}
		}
	}
	return facts
}

func proxyFact(u *url.URL) string {
	if u == nil {
		return "n"
	}
	return "u:" + hx(u.String())
}

func initLine(cgi bool, hp, sp, np string) string {
	hu, su, _, _ := httpproxy.VerifInit(httpproxy.Config{HTTPProxy: hp, HTTPSProxy: sp})
	c := "0"
	if cgi {
		c = "1"
	}
	t := []string{"init", c, hx(hp), proxyFact(hu), hx(sp), proxyFact(su), hx(np)}
	t = append(t, initFacts(np)...)
	return strings.Join(t, " ")
}

type reqInfo struct {
	scheme string
	host   string
	port   string
	ip     net.IP // nil if the host is not an IP literal
}

var defaultPort = map[string]string{"http": "80", "https": "443", "socks5": "1080"}

// reqInfoOf computes what proxyForURL hands to the NO_PROXY evaluation (net/url and IDNA are not
// modelled): host = IDNA form of url.Hostname(), port = url.Port() or the scheme default.
func reqInfoOf(u *url.URL) reqInfo {
	ri := reqInfo{scheme: u.Scheme}
	h := u.Hostname()
	if v, err := httpproxy.VerifIdnaASCII(h); err == nil {
		h = v
	}
	p := u.Port()
	if p == "" {
		p = defaultPort[u.Scheme]
	}
	ri.host, ri.port = h, p
	if a, err := netip.ParseAddr(h); err == nil {
		ri.ip = net.IP(a.AsSlice())
	}
	return ri
}

func (ri reqInfo) facts() string {
	ip := "n"
	if ri.ip != nil {
		ip = vu.Hex(ri.ip)
	}
	return fmt.Sprintf("%s %s %s %s", hx(ri.scheme), hx(ri.host), hx(ri.port), ip)
}

func mkURL(mode, raw1, raw2 string) *url.URL {
	if mode == "u" {
		u, err := url.Parse(raw1)
		if err != nil {
			return nil
		}
		return u
	}
	return &url.URL{Scheme: raw1, Host: raw2, Path: "/"}
}

func reqLine(mode, raw1, raw2 string) (string, bool) {
	u := mkURL(mode, raw1, raw2)
	if u == nil {
		return "", false
	}
	ri := reqInfoOf(u)
	if !stable(ri.host) {
		return "", false
	}
	return fmt.Sprintf("req %s %s %s %s", mode, hx(raw1), hx(raw2), ri.facts()), true
}

// ---------------------------------------------------------------- generator

var domPool = []string{"foo.com", "bar.foo.com", "example.org", "a.b.c", "x", "localhost", "foo.com.",
	"internal", "corp.example", "bücher.example", "例え.jp", "xn--bcher-kva.example", "ñandú.es", "co.uk", "1.2.3.4.nip.io", "0"}
var v4Pool = []string{"1.2.3.4", "10.0.0.1", "127.0.0.1", "127.1.2.3", "126.255.255.255", "128.0.0.0", "192.168.1.77",
	"0.0.0.0", "255.255.255.255", "172.16.5.5", "10.255.255.255", "11.0.0.0"}
var v6Pool = []string{"::1", "2001:db8::1", "fe80::1", "::ffff:1.2.3.4", "::ffff:127.0.0.1", "::", "::2", "2001:db8:ffff::",
	"ff02::1", "::ffff:10.0.0.1", "64:ff9b::102:304", "2001:db8::1:80"}
var portPool = []string{"80", "443", "8080", "0", "65535", "3128", "http", "080"}
var proxyPool = []string{"", "", "proxy.example:3128", "http://proxy.example:3128", "https://secure.proxy:443/",
	"socks5://s:1080", "http://user:pw@p:80", "://bad", "http://[::1", " ", "proxy", "http://%zz", "cache.corp.example", "HTTP://UP.example:8"}

const junkAlpha = "abcfoo.*:[]/0123456789 -_%\t.com,"

type genCtx struct {
	r     *vu.Rng
	doms  []string // domains mentioned in NO_PROXY
	ips   []string // IPs mentioned
	cidrs []string // CIDRs mentioned
	ports []string // ports mentioned
}

func pick(r *vu.Rng, p []string) string { return p[r.Intn(len(p))] }

func (g *genCtx) randIP() string {
	r := g.r
	switch r.Intn(6) {
	case 0, 1:
		return pick(r, v4Pool)
	case 2, 3:
		return pick(r, v6Pool)
	case 4:
		b := r.Bytes(4)
		return netip.AddrFrom4([4]byte(b)).String()
	default:
		b := r.Bytes(16)
		if r.Bool() {
			for i := 2; i < 14; i++ {
				b[i] = 0
			}
		}
		return netip.AddrFrom16([16]byte(b)).String()
	}
}

func (g *genCtx) randDomain() string {
	r := g.r
	d := pick(r, domPool)
	if r.Chance(1, 4) {
		d = string(r.BytesFrom("abcxyz", r.Range(1, 4))) + "." + d
	}
	if r.Chance(1, 6) {
		d = strings.ToUpper(d)
		if !stable(d) {
			d = strings.ToUpper(stripNonASCII(d))
		}
	}
	return d
}

func (g *genCtx) entry() string {
	r := g.r
	port := ""
	if r.Chance(1, 3) {
		port = pick(r, portPool)
		g.ports = append(g.ports, port)
	}
	withPort := func(h string, v6 bool) string {
		if port == "" {
			if v6 && r.Chance(1, 4) {
				return "[" + h + "]"
			}
			return h
		}
		if v6 && !r.Chance(1, 8) {
			return "[" + h + "]:" + port
		}
		return h + ":" + port
	}
	var e string
	switch k := r.Intn(20); {
	case k < 6: // domain forms
		d := g.randDomain()
		g.doms = append(g.doms, d)
		switch r.Intn(4) {
		case 0:
			d = "." + d
		case 1:
			d = "*." + d
		}
		e = withPort(d, false)
	case k < 10: // IP
		ip := g.randIP()
		g.ips = append(g.ips, ip)
		e = withPort(ip, strings.Contains(ip, ":"))
	case k < 14: // CIDR
		ip := g.randIP()
		a, _ := netip.ParseAddr(ip)
		ones := r.Intn(a.BitLen() + 1)
		if r.Chance(1, 3) {
			ones = []int{0, 1, 7, 8, 9, 16, 24, 31, 32, 64, 95, 96, 97, 120, 127, 128}[r.Intn(16)]
			if ones > a.BitLen() && !r.Chance(1, 10) {
				ones = a.BitLen()
			}
		}
		c := ip + "/" + strconv.Itoa(ones)
		g.cidrs = append(g.cidrs, c)
		e = c
		if port != "" && r.Chance(1, 4) {
			e = c + ":" + port
		}
	case k < 15:
		e = "*"
	case k < 16:
		e = pick(r, []string{"", " ", ".", "*.", ":", ":80", "[]:80", "[", "]", "*x", "a:b:c", "**", "* ", "/", "1.2.3.4/", "/8", "[::1]:", "foo.com:", "*.*", "..foo.com", "*..foo.com", ".*.foo.com"})
	default:
		e = string(r.BytesFrom(junkAlpha, r.Intn(9)))
	}
	if r.Chance(1, 5) {
		e = pick(r, []string{" ", "\t", "  "}) + e
	}
	if r.Chance(1, 5) {
		e = e + pick(r, []string{" ", "\t", " \n"})
	}
	return e
}

func (g *genCtx) noProxy() string {
	r := g.r
	n := r.Intn(6)
	if r.Chance(1, 8) {
		n = 0
	}
	var es []string
	for i := 0; i < n; i++ {
		es = append(es, g.entry())
	}
	np := strings.Join(es, ",")
	if !stableList(np) {
		np = stripNonASCII(np)
	}
	return np
}

// flipBit returns ip with bit k (0 = most significant) flipped.
func flipBit(a netip.Addr, k int) netip.Addr {
	b := a.AsSlice()
	if k < 0 || k >= len(b)*8 {
		return a
	}
	b[k/8] ^= 0x80 >> uint(k%8)
	x, _ := netip.AddrFromSlice(b)
	return x
}

func (g *genCtx) reqHost() string {
	r := g.r
	switch k := r.Intn(20); {
	case k < 6 && len(g.doms) > 0: // related to a NO_PROXY domain
		d := pick(r, g.doms)
		switch r.Intn(8) {
		case 0:
			return "www." + d
		case 1:
			return "x" + d // suffix without a dot
		case 2:
			if i := strings.IndexByte(d, '.'); i >= 0 {
				return d[i+1:]
			}
			return d
		case 3:
			return strings.ToUpper(stripNonASCII(d))
		case 4:
			return d + "."
		case 5:
			return "a.b." + d
		default:
			return d
		}
	case k < 9 && len(g.ips) > 0:
		ip := pick(r, g.ips)
		a, _ := netip.ParseAddr(ip)
		switch r.Intn(5) {
		case 0:
			return flipBit(a, r.Intn(a.BitLen())).String()
		case 1:
			if a.Is4() {
				return netip.AddrFrom16(a.As16()).String() // v4-mapped form
			}
			if a.Is4In6() {
				return a.Unmap().String()
			}
			return ip
		default:
			return ip
		}
	case k < 13 && len(g.cidrs) > 0:
		c := pick(r, g.cidrs)
		pfx, err := netip.ParsePrefix(c)
		if err != nil {
			return g.randIP()
		}
		a := pfx.Addr()
		// random low bits
		b := a.AsSlice()
		rb := r.Bytes(len(b))
		for i := pfx.Bits(); i < len(b)*8; i++ {
			if rb[i/8]&(0x80>>uint(i%8)) != 0 {
				b[i/8] ^= 0x80 >> uint(i%8)
			}
		}
		a, _ = netip.AddrFromSlice(b)
		switch r.Intn(6) {
		case 0:
			a = flipBit(a, pfx.Bits()-1) // just outside
		case 1:
			a = flipBit(a, pfx.Bits()) // just inside
		case 2:
			if a.Is4() {
				a = netip.AddrFrom16(a.As16())
			} else if a.Is4In6() {
				a = a.Unmap()
			}
		}
		return a.String()
	case k < 15:
		return g.randIP()
	case k < 16:
		return pick(r, []string{"localhost", "LOCALHOST", "localhost.", "Localhost", "127.0.0.1", "::1", "127.255.255.254", "::ffff:127.0.0.1", "a.localhost", "localhost.localdomain"})
	case k < 17:
		return pick(r, []string{"a]b", "exa[mple.com", "fe80::1%eth0", "fe80::1%25eth0", "", " foo.com", "foo.com ", "127.0.0.1.", "1.2.3.4.", "foo..com", "[", "]", "a%b"})
	default:
		return g.randDomain()
	}
}

func (g *genCtx) req() string {
	r := g.r
	for try := 0; ; try++ {
		h := g.reqHost()
		if try > 4 {
			h = "fallback.example"
		}
		scheme := pick(r, []string{"http", "http", "http", "http", "http", "https", "https", "https", "https", "ftp", "HTTP", "", "socks5", "httpss", "https", "http"})
		port := ""
		switch r.Intn(6) {
		case 0, 1:
			if len(g.ports) > 0 {
				port = pick(r, g.ports)
			}
		case 2:
			port = pick(r, portPool)
		}
		hp := h
		if strings.Contains(h, ":") || strings.Contains(h, "%") {
			hp = "[" + strings.ReplaceAll(h, "%", "%25") + "]"
			if r.Chance(1, 10) {
				hp = "[" + h + "]"
			}
		}
		if port != "" {
			hp += ":" + port
		}
		if r.Chance(2, 3) {
			raw := scheme + "://" + hp + "/p?q=1"
			if l, ok := reqLine("u", raw, ""); ok {
				return l
			}
		}
		if l, ok := reqLine("d", scheme, hp); ok {
			return l
		}
	}
}

func gen(r *vu.Rng, i int) []string {
	g := &genCtx{r: r}
	np := g.noProxy()
	hp, sp := pick(r, proxyPool), pick(r, proxyPool)
	if r.Chance(3, 4) {
		hp = "http://hp.example:3128"
	}
	if r.Chance(3, 4) {
		sp = "http://sp.example:3129"
	}
	ops := []string{initLine(r.Chance(1, 10), hp, sp, np)}
	for k := r.Range(2, 8); k > 0; k-- {
		ops = append(ops, g.req())
	}
	return ops
}

// ---------------------------------------------------------------- executor

func showMatchers(ms []httpproxy.VerifMatcher) string {
	if len(ms) == 0 {
		return "-"
	}
	var s []string
	for _, m := range ms {
		switch m.Kind {
		case "all":
			s = append(s, "all")
		case "cidr":
			s = append(s, fmt.Sprintf("cidr/%s/%d/%d", vu.Hex(m.IP), m.Ones, m.Bits))
		case "ip":
			s = append(s, fmt.Sprintf("ip/%s/%s", vu.Hex(m.IP), hx(m.Port)))
		case "dom":
			mh := 0
			if m.MatchHost {
				mh = 1
			}
			s = append(s, fmt.Sprintf("dom/%s/%s/%d", hx(m.Host), hx(m.Port), mh))
		default:
			s = append(s, "unknown")
		}
	}
	return strings.Join(s, ",")
}

type state struct {
	ok     bool
	cfg    httpproxy.Config
	pf     func(*url.URL) (*url.URL, error)
	hu, su *url.URL
}

func hexStr(tok string) (string, bool) {
	b, ok := vu.ParseHex(tok)
	return string(b), ok
}

func exec(ops []string, o *vu.Out) {
	var st state
	for _, op := range ops {
		t := strings.Fields(op)
		if len(t) == 0 {
			o.Op(op, "bad-op")
			continue
		}
		switch t[0] {
		case "init":
			if len(t) < 7 || (t[1] != "0" && t[1] != "1") {
				o.Op(op, "bad-op")
				continue
			}
			hp, ok1 := hexStr(t[2])
			sp, ok2 := hexStr(t[4])
			np, ok3 := hexStr(t[6])
			if !ok1 || !ok2 || !ok3 || !stableList(np) || initLine(t[1] == "1", hp, sp, np) != strings.Join(t, " ") {
				o.Op(op, "bad-op") // stale or foreign facts
				continue
			}
			o.Stat("op:init")
			res := vu.Catch(func() string {
				st = state{ok: true, cfg: httpproxy.Config{HTTPProxy: hp, HTTPSProxy: sp, NoProxy: np, CGI: t[1] == "1"}}
				st.pf = st.cfg.ProxyFunc()
				var ipM, domM []httpproxy.VerifMatcher
				st.hu, st.su, ipM, domM = httpproxy.VerifInit(st.cfg)
				if len(ipM) == 1 && ipM[0].Kind == "all" {
					o.Stat("cfg:star")
				}
				o.StatN("cfg:ipMatchers", len(ipM))
				o.StatN("cfg:domainMatchers", len(domM))
				return "ok " + showMatchers(ipM) + " " + showMatchers(domM)
			})
			o.Op(op, res)
		case "req":
			if len(t) != 8 || !st.ok || (t[1] != "u" && t[1] != "d") {
				o.Op(op, "bad-op")
				continue
			}
			raw1, ok1 := hexStr(t[2])
			raw2, ok2 := hexStr(t[3])
			if !ok1 || !ok2 {
				o.Op(op, "bad-op")
				continue
			}
			l, ok := reqLine(t[1], raw1, raw2)
			if !ok || l != strings.Join(t, " ") {
				o.Op(op, "bad-op")
				continue
			}
			u := mkURL(t[1], raw1, raw2)
			ri := reqInfoOf(u)
			if net.JoinHostPort(ri.host, ri.port) != httpproxy.VerifCanonicalAddr(u) {
				o.Fail("", fmt.Sprintf("canonicalAddr(%q) = %q, expected host %q port %q", u.String(), httpproxy.VerifCanonicalAddr(u), ri.host, ri.port))
			}
			var got *url.URL
			var gerr error
			res := vu.Catch(func() string {
				got, gerr = st.pf(u)
				switch {
				case gerr != nil:
					return "err cgi"
				case got == nil:
					return "ok none"
				default:
					return "ok proxy " + hx(got.String())
				}
			})
			o.Op(op, res)
			oracle(o, &st, u, ri, res)
		default:
			o.Op(op, "bad-op")
		}
	}
}

// ---------------------------------------------------------------- property oracle (naive reference)

// prefixEq: the first n bits of a and b agree.
func prefixEq(a, b []byte, n int) bool {
	for i := 0; i < n; i++ {
		if (a[i/8]^b[i/8])&(0x80>>uint(i%8)) != 0 {
			return false
		}
	}
	return true
}

// specBypass is the documented rule, written directly: localhost / loopback, or some NO_PROXY
// value matches ("*", IP[:port], CIDR, domain[:port] with leading "." / "*." = subdomains only).
func specBypass(np string, host, port string, ip net.IP) (bool, string) {
	// names are compared case-insensitively and without the trailing dot of a rooted spelling
	h := strings.TrimSuffix(strings.ToLower(strings.TrimSpace(host)), ".")
	if h == "localhost" {
		return true, "localhost"
	}
	var a netip.Addr
	isIP := false
	if ip != nil {
		a, _ = netip.AddrFromSlice(ip)
		a = a.Unmap()
		isIP = true
		if a.IsLoopback() {
			return true, "loopback"
		}
	}
	for _, p := range strings.Split(np, ",") {
		p = strings.ToLower(strings.TrimSpace(p))
		if p == "" {
			continue
		}
		if p == "*" {
			return true, "star"
		}
		if _, n, err := net.ParseCIDR(p); err == nil {
			if !isIP {
				continue
			}
			ones, _ := n.Mask.Size()
			na, _ := netip.AddrFromSlice(n.IP)
			if na.Is4In6() && ones >= 96 {
				na, ones = na.Unmap(), ones-96
			}
			if na.BitLen() == a.BitLen() && prefixEq(na.AsSlice(), a.AsSlice(), ones) {
				return true, "cidr"
			}
			continue
		}
		ph, pp := p, ""
		if h1, p1, err := net.SplitHostPort(p); err == nil {
			if h1 == "" {
				continue
			}
			ph, pp = h1, p1
		}
		portOK := pp == "" || pp == port
		if pip := net.ParseIP(ph); pip != nil {
			pa, _ := netip.AddrFromSlice(pip)
			if isIP && pa.Unmap() == a && portOK {
				return true, "ip"
			}
			continue
		}
		if isIP {
			continue
		}
		subOnly := false
		d := strings.TrimSuffix(ph, ".")
		if d == "" {
			continue
		}
		if strings.HasPrefix(d, "*.") {
			d, subOnly = d[2:], true
		} else if strings.HasPrefix(d, ".") {
			d, subOnly = d[1:], true
		}
		if !isASCII(d) {
			if v, err := httpproxy.VerifIdnaASCII(d); err == nil {
				d = v
			}
		}
		if portOK && (strings.HasSuffix(h, "."+d) || (!subOnly && h == d)) {
			if subOnly {
				return true, "subdomain"
			}
			return true, "domain"
		}
	}
	return false, "no-match"
}

func oracle(o *vu.Out, st *state, u *url.URL, ri reqInfo, res string) {
	var proxy *url.URL
	which := "other-scheme"
	switch u.Scheme {
	case "https":
		proxy, which = st.su, "https"
	case "http":
		proxy, which = st.hu, "http"
	}
	o.Stat("scheme:" + which)
	want := ""
	switch {
	case proxy == nil:
		want = "ok none"
		o.Stat("want:no-proxy-configured")
	case which == "http" && st.cfg.CGI:
		want = "err cgi"
		o.Stat("want:cgi-refusal")
	default:
		by, why := specBypass(st.cfg.NoProxy, ri.host, ri.port, ri.ip)
		o.Stat("spec:" + why)
		if _, _, err := net.SplitHostPort(net.JoinHostPort(ri.host, ri.port)); err != nil {
			o.Stat("host:stray-bracket") // region of the repaired defect unsplittable-addr-bypass
		}
		if by {
			want = "ok none"
		} else {
			want = "ok proxy " + hx(proxy.String())
		}
	}
	if res == want {
		return
	}
	o.Fail("", fmt.Sprintf("NO_PROXY=%q HTTP_PROXY=%q HTTPS_PROXY=%q CGI=%v url{scheme=%q host=%q}: ProxyFunc gives %q, the documented rule gives %q",
		st.cfg.NoProxy, st.cfg.HTTPProxy, st.cfg.HTTPSProxy, st.cfg.CGI, u.Scheme, u.Host, res, want))
}

func main() { vu.Main(gen, exec) }
