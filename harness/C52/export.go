//go:build verif

// White-box shims for the C52 harness (injected as http/httpproxy/zz_verif_c52.go).
package httpproxy

import "net/url"

// VerifMatcher is a canonical dump of one matcher built by config.init.
type VerifMatcher struct {
	Kind      string // all | cidr | ip | dom | unknown
	IP        []byte
	Ones      int
	Bits      int
	Host      string
	Port      string
	MatchHost bool
}

func verifDump(ms []matcher) []VerifMatcher {
	out := make([]VerifMatcher, 0, len(ms))
	for _, m := range ms {
		switch m := m.(type) {
		case allMatch:
			out = append(out, VerifMatcher{Kind: "all"})
		case cidrMatch:
			ones, bits := m.cidr.Mask.Size()
			out = append(out, VerifMatcher{Kind: "cidr", IP: []byte(m.cidr.IP), Ones: ones, Bits: bits})
		case ipMatch:
			out = append(out, VerifMatcher{Kind: "ip", IP: []byte(m.ip), Port: m.port})
		case domainMatch:
			out = append(out, VerifMatcher{Kind: "dom", Host: m.host, Port: m.port, MatchHost: m.matchHost})
		default:
			out = append(out, VerifMatcher{Kind: "unknown"})
		}
	}
	return out
}

// VerifInit runs config.init on cfg and dumps the parsed state.
func VerifInit(cfg Config) (httpProxy, httpsProxy *url.URL, ipM, domM []VerifMatcher) {
	c := &config{Config: cfg}
	c.init()
	return c.httpProxy, c.httpsProxy, verifDump(c.ipMatchers), verifDump(c.domainMatchers)
}

func VerifCanonicalAddr(u *url.URL) string { return canonicalAddr(u) }

func VerifIdnaASCII(s string) (string, error) { return idnaASCII(s) }
