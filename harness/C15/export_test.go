//go:build verif

// White-box shims for the C15 / C16 rigs. Injected as http2/zz_verif_c15_export_test.go
// (package http2, test-only), so the rig in package http2_test can read the serve loop's
// private counters. Nothing here changes server behaviour: the counters are read by a
// func(int) message executed on the serve goroutine, like TestStreamState does.
package http2

import (
	"net/http"
	"testing/synctest"
)

// VerifCounters is a snapshot of the scheduler state owned by the serve goroutine.
type VerifCounters struct {
	CurHandlers       int
	Unstarted         int // len(sc.unstartedHandlers)
	CurClientStreams  int
	Streams           int // len(sc.streams)
	AdvMaxStreams     int
	QueuedControl     int
	UnackedSettings   int
	MaxClientStreamID uint32
	InGoAway          bool
	GoAwayCode        uint32
}

// VerifCounters returns ok=false when the serve loop has exited.
func (sc *serverConn) VerifCounters() (c VerifCounters, ok bool) {
	ch := make(chan VerifCounters, 1)
	f := func(int) {
		ch <- VerifCounters{
			CurHandlers:       int(sc.curHandlers),
			Unstarted:         len(sc.unstartedHandlers),
			CurClientStreams:  int(sc.curClientStreams),
			Streams:           len(sc.streams),
			AdvMaxStreams:     int(sc.advMaxStreams),
			QueuedControl:     sc.queuedControlFrames,
			UnackedSettings:   sc.unackedSettings,
			MaxClientStreamID: sc.maxClientStreamID,
			InGoAway:          sc.inGoAway,
			GoAwayCode:        uint32(sc.goAwayCode),
		}
	}
	// Never block here: a blocked root goroutine lets the bubble's fake clock run on to the next
	// timer (e.g. prefaceTimeout while serve() is still in readPreface).
	select {
	case sc.serveMsgCh <- f:
	default:
		return c, false
	}
	synctest.Wait()
	select {
	case c = <-ch:
		return c, true
	default:
		return c, false
	}
}

// VerifServeDone reports whether serverConn.serve has returned.
func (sc *serverConn) VerifServeDone() bool {
	select {
	case <-sc.doneServing:
		return true
	default:
		return false
	}
}

func VerifCheckValidHTTP2RequestHeaders(h http.Header) bool {
	return checkValidHTTP2RequestHeaders(h) == nil
}

func VerifValidWireHeaderFieldName(v string) bool { return validWireHeaderFieldName(v) }

const (
	VerifMaxQueuedControlFrames = maxQueuedControlFrames
	VerifDefaultMaxStreams      = defaultMaxStreams
)
