//go:build verif

// C15 trace harness: HTTP/2 server stream-state and connection-control rules.
//
// A case is a script of client frames, handler commands and fake-time advances run against
// the package's own server rig (newServerTester) inside a synctest bubble. One op line is one
// step: the step is performed, the bubble is run to quiescence (synctest.Wait) and everything
// observable is appended after "=>": handler start/finish events, every frame the server wrote
// (in wire order) and a white-box snapshot of the scheduler counters
// (curHandlers, len(unstartedHandlers), curClientStreams).  The Lean monitor
// (Model/H2Server.lean, Driver/C15.lean) validates every line; this file states the property
// directly on the recorded events as well (out.Fail).
//
// Line grammar (tokens separated by one space):
//
//	reset <adv> <ack>            new connection, MaxConcurrentStreams=adv, ack=1: client acks the server SETTINGS
//	c <frame>...                 client frames, written in ONE conn write (a burst) then Wait
//	h write|flush|fin|panic <sid>  one command to the user handler of stream sid
//	sleep <ms>                   advance fake time
//	block | unblock              client stops / resumes reading (server writes block)
//	end                          every user handler returns (one at a time, lowest stream first)
//	chk <fields>                 differential op: checkValidHTTP2RequestHeaders on the real code
//
// frames: H:<sid>:<es>:<kind>:<ncont>:<fields>  T:<sid>:<es>  D:<sid>:<len>:<es>  R:<sid>
//
//	P:<hex8>  PA:<hex8>  S:<id>=<val>,...|S:-  SA  W:<sid>:<inc>  PR:<sid>:<dep>  G
//
// fields: <hexname>=<hexvalue>,...  ('.' = empty string)
// kind: the generator's intent (ok | mw | mp | cs); the Lean model recomputes it from the fields.
//
// Injected as http2/zz_verif_c15_test.go (package http2_test) with `go test -overlay`.
package http2_test

import (
	"bytes"
	"encoding/hex"
	"fmt"
	"net/http"
	"os"
	"sort"
	"strconv"
	"strings"
	"sync"
	"testing"
	"testing/synctest"
	"time"

	. "golang.org/x/net/http2"
	"golang.org/x/net/http2/hpack"
	vu "golang.org/x/net/internal/verifutil"
)

const (
	v15SigConn400   = "connspecific-answered-400"
	v15SigBadCL     = "bad-content-length-reaches-handler"
)

func TestVerifC15(t *testing.T) {
	cfg := vu.ConfigFromEnv()
	vu.Run(cfg, v15Gen, func(ops []string, o *vu.Out) {
		wd := time.AfterFunc(120*time.Second, func() {
			fmt.Fprintf(os.Stderr, "C15 watchdog: case stuck for 120 s of wall-clock time:\n%s\n", strings.Join(ops, "\n"))
			os.Exit(3)
		})
		defer wd.Stop()
		synctest.Test(t, func(t *testing.T) { v15Exec(t, ops, o) })
	})
}

// ---------------------------------------------------------------- executor

type v15Handler struct {
	sid  uint32
	cmd  chan func(http.ResponseWriter, *http.Request)
	busy bool // a command did not return (blocked write)
	gone bool
}

type v15Stream struct {
	// oracle view, from the wire
	cls        string // kind of the opening HEADERS
	localEnd   bool   // server sent END_STREAM
	srvRst     bool   // server sent RST_STREAM
	cliRst     bool   // client sent RST_STREAM (in an earlier step or earlier in this burst)
	started    bool
	rejectDue  bool // mw/mp: RST expected by the end of the step
	responded  bool
	status     int
	pendingRej bool // cs: response or reset expected eventually
	clBad      bool // the request's content-length is malformed (RFC 9113 8.1.1 / RFC 9110 8.6)
}

type v15Conn struct {
	t   *testing.T
	st  *serverTester
	o   *vu.Out
	adv int

	mu       sync.Mutex
	hev      []string
	handlers map[uint32]*v15Handler
	running  int

	wbuf bytes.Buffer
	wfr  *Framer
	hbuf bytes.Buffer
	henc *hpack.Encoder

	obs     []string
	streams map[uint32]*v15Stream
	dead    bool // error GOAWAY seen or connection closed
	closed  bool
	gaSeen  bool
	blocked bool
	wasBlk  bool // a blocked period happened since the last SETTINGS accounting reset
	pings   [][8]byte
	nset    int // client SETTINGS not yet acknowledged
	nack    int
}

func (c *v15Conn) serveHTTP(w http.ResponseWriter, r *http.Request) {
	sid64, _ := strconv.ParseUint(r.Header.Get("X-Sid"), 10, 32)
	sid := uint32(sid64)
	h := &v15Handler{sid: sid, cmd: make(chan func(http.ResponseWriter, *http.Request))}
	c.mu.Lock()
	c.hev = append(c.hev, fmt.Sprintf("hs:%d", sid))
	c.handlers[sid] = h
	c.running++
	c.mu.Unlock()
	fin := "hf"
	defer func() {
		c.mu.Lock()
		c.hev = append(c.hev, fmt.Sprintf("%s:%d", fin, sid))
		h.gone = true
		c.running--
		c.mu.Unlock()
	}()
	for f := range h.cmd {
		if f == nil {
			fin = "hp"
			panic(http.ErrAbortHandler)
		}
		f(w, r)
	}
}

func (c *v15Conn) stream(sid uint32) *v15Stream {
	s := c.streams[sid]
	if s == nil {
		s = &v15Stream{}
		c.streams[sid] = s
	}
	return s
}

// flushBurst writes the buffered client frames in one conn write and waits for quiescence.
func (c *v15Conn) flushBurst() {
	if c.wbuf.Len() > 0 {
		c.st.cc.Write(c.wbuf.Bytes()) // autoWait: synctest.Wait after the write
		c.wbuf.Reset()
	}
	synctest.Wait()
}

// collect appends handler events, then the frames the server wrote, then the white-box counters.
func (c *v15Conn) collect(sortStarts bool) {
	synctest.Wait()
	c.mu.Lock()
	hev := c.hev
	c.hev = nil
	running := c.running
	c.mu.Unlock()
	if sortStarts {
		sort.SliceStable(hev, func(i, j int) bool {
			a, _ := strconv.Atoi(strings.SplitN(hev[i], ":", 2)[1])
			b, _ := strconv.Atoi(strings.SplitN(hev[j], ":", 2)[1])
			return a < b
		})
	}
	for _, e := range hev {
		c.obs = append(c.obs, e)
		f := strings.SplitN(e, ":", 2)
		sid64, _ := strconv.ParseUint(f[1], 10, 32)
		s := c.stream(uint32(sid64))
		switch f[0] {
		case "hs":
			s.started = true
			c.o.Stat("ev:handler-start")
			if s.cls != "ok" {
				c.o.Fail("", fmt.Sprintf("the handler was started for stream %d whose request is %q (malformed / connection-specific)", sid64, s.cls))
			} else if s.clBad {
				c.o.Stat("ev:bad-content-length-reached-handler")
				c.o.Fail(v15SigBadCL, fmt.Sprintf("the handler was started for stream %d whose request carries a malformed content-length (not a number, conflicting values, or non-zero on a request that ends with HEADERS)", sid64))
			}
		default:
			c.o.Stat("ev:handler-finish")
		}
	}
	if running > c.adv {
		c.o.Fail("", fmt.Sprintf("%d handlers run concurrently, advertised SETTINGS_MAX_CONCURRENT_STREAMS is %d", running, c.adv))
	}
	if !c.blocked {
		c.drain()
	}
	// white-box
	if c.st.sc != nil {
		if wb, ok := c.st.sc.VerifCounters(); ok {
			c.obs = append(c.obs, fmt.Sprintf("wb:%d:%d:%d", wb.CurHandlers, wb.Unstarted, wb.CurClientStreams))
			if wb.InGoAway && wb.GoAwayCode != 0 {
				// a connection error after a graceful GOAWAY is not announced by a second GOAWAY:
				// the server stops processing frames and closes after goAwayTimeout
				c.dead = true
			}
			if wb.CurHandlers > wb.AdvMaxStreams {
				c.o.Fail("", fmt.Sprintf("curHandlers=%d exceeds advMaxStreams=%d", wb.CurHandlers, wb.AdvMaxStreams))
			}
			if running > wb.CurHandlers {
				c.o.Fail("", fmt.Sprintf("%d user handlers run but curHandlers=%d", running, wb.CurHandlers))
			}
			if wb.CurClientStreams > wb.AdvMaxStreams {
				c.o.Fail("", fmt.Sprintf("curClientStreams=%d exceeds advMaxStreams=%d", wb.CurClientStreams, wb.AdvMaxStreams))
			}
			if wb.Unstarted > 4*wb.AdvMaxStreams+1 {
				c.o.Fail("", fmt.Sprintf("%d unstarted handlers queued, bound is 4*%d+1", wb.Unstarted, wb.AdvMaxStreams))
			}
			if wb.AdvMaxStreams != c.adv {
				c.o.Fail("", fmt.Sprintf("advMaxStreams=%d but the server was configured with %d", wb.AdvMaxStreams, c.adv))
			}
			if wb.QueuedControl > VerifMaxQueuedControlFrames {
				c.o.Fail("", fmt.Sprintf("queuedControlFrames=%d above the limit on a live connection", wb.QueuedControl))
			}
		} else {
			c.obs = append(c.obs, "wb:x")
		}
	}
}

func (c *v15Conn) drain() {
	for {
		f, err := c.st.fr.ReadFrame()
		if err != nil {
			if err == os.ErrDeadlineExceeded || err == errWouldBlock {
				return
			}
			if !c.closed {
				c.obs = append(c.obs, "closed")
				c.o.Stat("ev:closed")
			}
			c.closed, c.dead = true, true
			return
		}
		switch f := f.(type) {
		case *HeadersFrame:
			sid := f.Header().StreamID
			block := append([]byte(nil), f.HeaderBlockFragment()...)
			ended := f.HeadersEnded()
			for !ended {
				g, err := c.st.fr.ReadFrame()
				cf, ok := g.(*ContinuationFrame)
				if err != nil || !ok {
					c.o.Fail("", "server HEADERS not followed by CONTINUATION")
					return
				}
				block = append(block, cf.HeaderBlockFragment()...)
				ended = cf.HeadersEnded()
			}
			status := 0
			for _, kv := range c.st.decodeHeader(block) {
				if kv[0] == ":status" {
					status, _ = strconv.Atoi(kv[1])
				}
			}
			c.obs = append(c.obs, fmt.Sprintf("rh:%d:%s:%d", sid, v15b(f.StreamEnded()), status))
			c.serverStreamFrame(sid, "HEADERS", f.StreamEnded())
			s := c.stream(sid)
			if status >= 200 {
				s.responded, s.status = true, status
			}
		case *DataFrame:
			sid := f.Header().StreamID
			c.obs = append(c.obs, fmt.Sprintf("rd:%d:%d:%s", sid, len(f.Data()), v15b(f.StreamEnded())))
			c.serverStreamFrame(sid, "DATA", f.StreamEnded())
		case *RSTStreamFrame:
			sid := f.Header().StreamID
			c.obs = append(c.obs, fmt.Sprintf("rst:%d:%d", sid, uint32(f.ErrCode)))
			s := c.stream(sid)
			s.srvRst = true
			if s.rejectDue {
				if f.ErrCode == ErrCodeProtocol || f.ErrCode == ErrCodeRefusedStream {
					s.rejectDue = false
					c.o.Stat("ev:malformed-rejected")
				}
			}
			s.pendingRej = false
		case *PingFrame:
			if !f.IsAck() {
				c.obs = append(c.obs, "ping")
				break
			}
			c.obs = append(c.obs, "pa:"+hex.EncodeToString(f.Data[:]))
			found := false
			for i, p := range c.pings {
				if p == f.Data {
					c.pings = append(c.pings[:i], c.pings[i+1:]...)
					found = true
					break
				}
			}
			if !found {
				c.o.Fail("", fmt.Sprintf("PING ACK %x does not answer any outstanding PING", f.Data))
			}
			c.o.Stat("ev:ping-ack")
		case *SettingsFrame:
			if f.IsAck() {
				c.obs = append(c.obs, "sa")
				c.nack++
				if c.nack > c.nset {
					c.o.Fail("", "SETTINGS ACK without a SETTINGS frame to acknowledge")
				}
			} else {
				mcs := "-"
				if v, ok := f.Value(SettingMaxConcurrentStreams); ok {
					mcs = strconv.Itoa(int(v))
				}
				c.obs = append(c.obs, "set:"+mcs)
			}
		case *GoAwayFrame:
			c.obs = append(c.obs, fmt.Sprintf("ga:%d:%d", f.LastStreamID, uint32(f.ErrCode)))
			c.gaSeen = true
			if f.ErrCode != ErrCodeNo {
				c.dead = true
			}
			c.o.Stat(fmt.Sprintf("ev:goaway-%d", uint32(f.ErrCode)))
		case *WindowUpdateFrame:
			c.obs = append(c.obs, fmt.Sprintf("wu:%d:%d", f.Header().StreamID, f.Increment))
		case *PushPromiseFrame:
			c.obs = append(c.obs, "pp")
		default:
			c.obs = append(c.obs, "frame")
		}
	}
}

// serverStreamFrame is clause 1 of the statement on the implementation.
func (c *v15Conn) serverStreamFrame(sid uint32, what string, es bool) {
	s := c.stream(sid)
	switch {
	case s.localEnd:
		c.o.Fail("", fmt.Sprintf("server sent %s on stream %d after it had sent END_STREAM", what, sid))
	case s.srvRst:
		c.o.Fail("", fmt.Sprintf("server sent %s on stream %d after it had sent RST_STREAM", what, sid))
	case s.cliRst:
		c.o.Fail("", fmt.Sprintf("server sent %s on stream %d after it had received RST_STREAM", what, sid))
	}
	if es {
		s.localEnd = true
		s.pendingRej = false
	}
	c.o.Stat("ev:server-" + what)
}

func v15b(b bool) string {
	if b {
		return "1"
	}
	return "0"
}

type v15Field struct{ n, v string }

func v15EncFields(fs []v15Field) string {
	if len(fs) == 0 {
		return "-"
	}
	var parts []string
	for _, f := range fs {
		parts = append(parts, v15hex(f.n)+"="+v15hex(f.v))
	}
	return strings.Join(parts, ",")
}

func v15hex(s string) string {
	if s == "" {
		return "."
	}
	return hex.EncodeToString([]byte(s))
}

func v15unhex(s string) (string, bool) {
	if s == "." {
		return "", true
	}
	b, err := hex.DecodeString(s)
	return string(b), err == nil
}

func v15DecFields(s string) ([]v15Field, bool) {
	if s == "-" {
		return nil, true
	}
	var fs []v15Field
	for _, p := range strings.Split(s, ",") {
		kv := strings.Split(p, "=")
		if len(kv) != 2 {
			return nil, false
		}
		n, ok1 := v15unhex(kv[0])
		v, ok2 := v15unhex(kv[1])
		if !ok1 || !ok2 {
			return nil, false
		}
		fs = append(fs, v15Field{n, v})
	}
	return fs, true
}

// v15ClBad: is the content-length of the request malformed? Every value must be a non-empty string of
// digits, all values must be equal, and a request that ends with its HEADERS frame has no content.
func v15ClBad(fs []v15Field, endStream bool) bool {
	var vals []string
	reg := false
	for _, f := range fs {
		if !strings.HasPrefix(f.n, ":") {
			reg = true
		}
		if reg && f.n == "content-length" {
			vals = append(vals, f.v)
		}
	}
	for _, v := range vals {
		if v == "" || strings.Trim(v, "0123456789") != "" {
			return true
		}
		if v != vals[0] {
			return true
		}
		if endStream && strings.Trim(v, "0") != "" {
			return true
		}
	}
	return false
}

func v15u32(s string) (uint32, bool) {
	v, err := strconv.ParseUint(s, 10, 32)
	return uint32(v), err == nil
}

// burstSafe: frames whose processing cannot leave a server-side stream closure pending, so that
// the server's stream accounting after each frame of a burst is determined by the frames alone.
func v15BurstSafe(tok string) bool {
	f := strings.Split(tok, ":")
	switch f[0] {
	case "H":
		return len(f) == 6 && (f[3] == "ok" || f[3] == "mw")
	case "R", "P", "PA":
		return true
	}
	return false
}

// addFrame appends one client frame to the burst buffer and updates the oracle's view.
func (c *v15Conn) addFrame(tok string) bool {
	f := strings.Split(tok, ":")
	switch f[0] {
	case "H":
		if len(f) != 6 {
			return false
		}
		sid, ok1 := v15u32(f[1])
		ncont, err := strconv.Atoi(f[4])
		fs, ok2 := v15DecFields(f[5])
		if !ok1 || !ok2 || err != nil || ncont < 0 || ncont > 8 || (f[2] != "0" && f[2] != "1") {
			return false
		}
		switch f[3] {
		case "ok", "mw", "mp", "cs":
		default:
			return false
		}
		// The block is split at field boundaries: fragment i of ncont+1 carries the fields
		// [i*n/(ncont+1), (i+1)*n/(ncont+1)), so the model knows which fragment completes which field.
		c.hbuf.Reset()
		offs := []int{0}
		for _, x := range fs {
			c.henc.WriteField(hpack.HeaderField{Name: x.n, Value: x.v})
			offs = append(offs, c.hbuf.Len())
		}
		block := append([]byte(nil), c.hbuf.Bytes()...)
		first := block
		var rest [][]byte
		if ncont > 0 {
			n := len(fs)
			cut := func(i int) int { return offs[i*n/(ncont+1)] }
			first = block[:cut(1)]
			for k := 1; k <= ncont; k++ {
				rest = append(rest, block[cut(k):cut(k+1)])
			}
		}
		c.wfr.WriteHeaders(HeadersFrameParam{StreamID: sid, BlockFragment: first, EndStream: f[2] == "1", EndHeaders: ncont == 0})
		for k, fr := range rest {
			c.wfr.WriteContinuation(sid, k == len(rest)-1, fr)
		}
		if _, known := c.streams[sid]; !known {
			s := c.stream(sid)
			s.cls = f[3]
			s.clBad = v15ClBad(fs, f[2] == "1")
			alive := !c.dead && !c.gaSeen
			switch f[3] {
			case "mw", "mp":
				s.rejectDue = alive
			case "cs":
				s.pendingRej = alive
			}
		}
		c.o.Stat("frame:H-" + f[3])
	case "T":
		if len(f) != 3 {
			return false
		}
		sid, ok := v15u32(f[1])
		if !ok {
			return false
		}
		c.hbuf.Reset()
		c.henc.WriteField(hpack.HeaderField{Name: "x-trailer", Value: "t"})
		c.wfr.WriteHeaders(HeadersFrameParam{StreamID: sid, BlockFragment: append([]byte(nil), c.hbuf.Bytes()...), EndStream: f[2] == "1", EndHeaders: true})
		c.o.Stat("frame:T")
	case "D":
		if len(f) != 4 {
			return false
		}
		sid, ok := v15u32(f[1])
		n, err := strconv.Atoi(f[2])
		if !ok || err != nil || n < 0 || n > 16384 {
			return false
		}
		c.wfr.WriteData(sid, f[3] == "1", make([]byte, n))
		c.o.Stat("frame:D")
	case "R":
		if len(f) != 2 {
			return false
		}
		sid, ok := v15u32(f[1])
		if !ok {
			return false
		}
		c.wfr.WriteRSTStream(sid, ErrCodeCancel)
		if s, known := c.streams[sid]; known {
			s.cliRst = true
			s.pendingRej = false
		}
		c.o.Stat("frame:R")
	case "P", "PA":
		if len(f) != 2 {
			return false
		}
		b, err := hex.DecodeString(f[1])
		if err != nil || len(b) != 8 {
			return false
		}
		var d [8]byte
		copy(d[:], b)
		c.wfr.WritePing(f[0] == "PA", d)
		if f[0] == "P" && !c.dead {
			c.pings = append(c.pings, d)
		}
		c.o.Stat("frame:" + f[0])
	case "S":
		if len(f) != 2 {
			return false
		}
		var ss []Setting
		if f[1] != "-" {
			for _, kv := range strings.Split(f[1], ",") {
				p := strings.Split(kv, "=")
				if len(p) != 2 {
					return false
				}
				id, e1 := strconv.ParseUint(p[0], 10, 16)
				val, e2 := strconv.ParseUint(p[1], 10, 32)
				if e1 != nil || e2 != nil {
					return false
				}
				ss = append(ss, Setting{ID: SettingID(id), Val: uint32(val)})
			}
		}
		c.wfr.WriteSettings(ss...)
		if !c.dead {
			c.nset++
		}
		c.o.Stat("frame:S")
	case "SA":
		if len(f) != 1 {
			return false
		}
		c.wfr.WriteSettingsAck()
		c.o.Stat("frame:SA")
	case "W":
		if len(f) != 3 {
			return false
		}
		sid, ok1 := v15u32(f[1])
		inc, ok2 := v15u32(f[2])
		if !ok1 || !ok2 {
			return false
		}
		c.wfr.WriteWindowUpdate(sid, inc)
		c.o.Stat("frame:W")
	case "PR":
		if len(f) != 3 {
			return false
		}
		sid, ok1 := v15u32(f[1])
		dep, ok2 := v15u32(f[2])
		if !ok1 || !ok2 {
			return false
		}
		c.wfr.WritePriority(sid, PriorityParam{StreamDep: dep, Weight: 15})
		c.o.Stat("frame:PR")
	case "G":
		if len(f) != 1 {
			return false
		}
		c.wfr.WriteGoAway(0, ErrCodeNo, nil)
		c.o.Stat("frame:G")
	default:
		return false
	}
	return true
}

func v15NewConn(t *testing.T, o *vu.Out, adv int, ack bool) *v15Conn {
	c := &v15Conn{t: t, o: o, adv: adv, handlers: map[uint32]*v15Handler{}, streams: map[uint32]*v15Stream{}}
	DisableGoroutineTracking(t)
	SetTestHookOnPanic(t, func(sc *ServerConn, v interface{}) bool {
		o.Fail("", fmt.Sprintf("serverConn.serve panicked: %v", v))
		return false
	})
	c.st = newServerTester(t, c.serveHTTP, func(s *Server) {
		s.MaxConcurrentStreams = uint32(adv)
	}, optQuiet)
	t.Cleanup(c.releaseAll)
	c.wfr = NewFramer(&c.wbuf, nil)
	c.wfr.AllowIllegalWrites = true
	c.henc = hpack.NewEncoder(&c.hbuf)
	c.henc.SetMaxDynamicTableSizeLimit(0)
	c.henc.SetMaxDynamicTableSize(0)
	c.wbuf.WriteString(ClientPreface)
	c.wfr.WriteSettings(Setting{ID: SettingInitialWindowSize, Val: 1 << 24})
	c.wfr.WriteWindowUpdate(0, 1<<28)
	c.nset++
	c.flushBurst()
	c.collect(false)
	if ack {
		c.wfr.WriteSettingsAck()
		c.flushBurst()
		c.collect(false)
	}
	return c
}

func (c *v15Conn) releaseAll() {
	c.mu.Lock()
	var hs []*v15Handler
	for _, h := range c.handlers {
		if !h.gone {
			hs = append(hs, h)
		}
	}
	c.handlers = map[uint32]*v15Handler{}
	c.mu.Unlock()
	for _, h := range hs {
		close(h.cmd)
	}
}

func (c *v15Conn) handler(sid uint32) *v15Handler {
	c.mu.Lock()
	defer c.mu.Unlock()
	h := c.handlers[sid]
	if h == nil || h.gone || h.busy {
		return nil
	}
	return h
}

// command runs f on the handler goroutine; if it does not return by quiescence the handler is
// marked busy (blocked write) and no further commands are sent to it.
func (c *v15Conn) command(h *v15Handler, f func(http.ResponseWriter, *http.Request)) {
	var mu sync.Mutex
	done := false
	h.cmd <- func(w http.ResponseWriter, r *http.Request) {
		f(w, r)
		mu.Lock()
		done = true
		mu.Unlock()
	}
	synctest.Wait()
	mu.Lock()
	d := done
	mu.Unlock()
	if !d {
		c.mu.Lock()
		h.busy = true
		c.mu.Unlock()
		c.obs = append(c.obs, "hblocked")
	}
}

// endOfStep: obligations that must be discharged at every quiescent point of a live, unblocked connection.
func (c *v15Conn) endOfStep(line string) {
	if c.dead || c.blocked {
		for _, s := range c.streams {
			if c.dead {
				s.rejectDue, s.pendingRej = false, false
			}
		}
		if c.dead {
			c.pings, c.nset, c.nack = nil, 0, 0
		}
		return
	}
	if len(c.pings) > 0 {
		c.o.Fail("", fmt.Sprintf("%q: %d PING frame(s) not answered at quiescence (first %x)", line, len(c.pings), c.pings[0]))
		c.pings = nil
	}
	if c.nset > 0 {
		if c.nack == c.nset {
			c.o.Stat("ev:settings-acked")
		} else {
			c.o.Fail("", fmt.Sprintf("%q: %d SETTINGS frames, %d SETTINGS ACK at quiescence (one ACK is due per frame)", line, c.nset, c.nack))
		}
		c.nset, c.nack = 0, 0
	}
	ids := make([]int, 0, len(c.streams))
	for id := range c.streams {
		ids = append(ids, int(id))
	}
	sort.Ints(ids)
	for _, id := range ids {
		s := c.streams[uint32(id)]
		if s.rejectDue {
			s.rejectDue = false
			if !c.gaSeen {
				c.o.Fail("", fmt.Sprintf("%q: malformed request on stream %d (%s) was not rejected with a stream error", line, id, s.cls))
			}
		}
	}
}

// final: eventual obligations (connection-specific requests answered or reset).
func (c *v15Conn) final(line string) {
	if c.dead || c.blocked {
		return
	}
	ids := make([]int, 0, len(c.streams))
	for id := range c.streams {
		ids = append(ids, int(id))
	}
	sort.Ints(ids)
	for _, id := range ids {
		s := c.streams[uint32(id)]
		if s.cls == "cs" && s.pendingRej && !c.gaSeen {
			c.o.Fail("", fmt.Sprintf("%q: request with connection-specific fields on stream %d was neither answered nor reset", line, id))
		}
		if s.cls == "cs" && s.responded && !s.srvRst {
			c.o.Stat("ev:connspecific-400")
			c.o.Fail(v15SigConn400, fmt.Sprintf("request with connection-specific header fields on stream %d was answered with HTTP status %d, not with a stream error", id, s.status))
		}
		if s.cls == "cs" && s.responded && s.status != 400 {
			c.o.Fail("", fmt.Sprintf("request with connection-specific header fields on stream %d answered with status %d", id, s.status))
		}
	}
}

func v15Exec(t *testing.T, ops []string, o *vu.Out) {
	var c *v15Conn
	for _, op := range ops {
		base := strings.TrimSpace(strings.SplitN(op, "=>", 2)[0])
		f := strings.Fields(base)
		emit := func() {
			line := base
			if c != nil && len(c.obs) > 0 {
				line += " => " + strings.Join(c.obs, " ")
			}
			o.Op(line, "ok")
		}
		if len(f) == 0 {
			o.Op(op, "bad-op")
			continue
		}
		if f[0] == "chk" {
			if len(f) != 2 {
				o.Op(op, "bad-op")
				continue
			}
			fs, ok := v15DecFields(f[1])
			if !ok {
				o.Op(op, "bad-op")
				continue
			}
			h := http.Header{}
			for _, x := range fs {
				h[http.CanonicalHeaderKey(x.n)] = append(h[http.CanonicalHeaderKey(x.n)], x.v)
			}
			o.Op(base, "ok "+v15b(VerifCheckValidHTTP2RequestHeaders(h)))
			o.Stat("op:chk")
			continue
		}
		if c != nil {
			c.obs = nil
		}
		if f[0] == "reset" {
			adv, e1 := strconv.Atoi(f[min(1, len(f)-1)])
			if len(f) != 3 || e1 != nil || adv < 1 || adv > 1000 || (f[2] != "0" && f[2] != "1") {
				o.Op(op, "bad-op")
				continue
			}
			if c != nil { // a second connection in the same case: the first one is torn down
				c.releaseAll()
				c.st.Close()
				synctest.Wait()
			}
			c = v15NewConn(t, o, adv, f[2] == "1")
			o.Stat("op:reset")
			c.endOfStep(base)
			emit()
			continue
		}
		if c == nil {
			o.Op(op, "bad-op")
			continue
		}
		valid := true
		switch f[0] {
		case "c":
			if len(f) < 2 {
				valid = false
				break
			}
			if len(f) > 2 {
				nS := 0
				for _, tok := range f[1:] {
					if !v15BurstSafe(tok) {
						valid = false
					}
					if strings.HasPrefix(tok, "S") {
						nS++
					}
				}
				if nS > 1 {
					valid = false
				}
				if !valid {
					break
				}
				o.Stat("op:burst")
			}
			// validate all tokens before touching the connection
			for _, tok := range f[1:] {
				if !c.addFrame(tok) {
					valid = false
					break
				}
			}
			if !valid {
				c.wbuf.Reset()
				break
			}
			if c.closed {
				c.wbuf.Reset()
			}
			c.flushBurst()
			c.collect(true)
		case "h":
			if len(f) != 3 {
				valid = false
				break
			}
			sid, ok := v15u32(f[2])
			if !ok {
				valid = false
				break
			}
			switch f[1] {
			case "write", "flush", "fin", "panic":
			default:
				valid = false
			}
			if !valid {
				break
			}
			h := c.handler(sid)
			if h == nil || c.blocked {
				c.obs = append(c.obs, "skip")
				c.collect(false)
				break
			}
			o.Stat("op:h-" + f[1])
			switch f[1] {
			case "write":
				c.command(h, func(w http.ResponseWriter, r *http.Request) {
					w.Write(make([]byte, 10))
					w.(http.Flusher).Flush()
				})
			case "flush":
				c.command(h, func(w http.ResponseWriter, r *http.Request) { w.(http.Flusher).Flush() })
			case "fin":
				c.mu.Lock()
				delete(c.handlers, sid)
				c.mu.Unlock()
				close(h.cmd)
			case "panic":
				c.mu.Lock()
				delete(c.handlers, sid)
				c.mu.Unlock()
				h.cmd <- nil
			}
			c.collect(false)
		case "sleep":
			ms, err := strconv.Atoi(f[min(1, len(f)-1)])
			if len(f) != 2 || err != nil || ms < 0 || ms > 60000 {
				valid = false
				break
			}
			time.Sleep(time.Duration(ms) * time.Millisecond)
			c.collect(false)
			o.Stat("op:sleep")
		case "block":
			if len(f) != 1 {
				valid = false
				break
			}
			if !c.blocked {
				c.st.cc.(*synctestNetConn).SetReadBufferSize(0)
				c.blocked, c.wasBlk = true, true
			}
			c.collect(false)
			o.Stat("op:block")
		case "unblock":
			if len(f) != 1 {
				valid = false
				break
			}
			if c.blocked {
				c.st.cc.(*synctestNetConn).SetReadBufferSize(1 << 30)
				c.blocked = false
			}
			c.collect(false)
			o.Stat("op:unblock")
		case "end":
			if len(f) != 1 {
				valid = false
				break
			}
			if c.blocked {
				c.st.cc.(*synctestNetConn).SetReadBufferSize(1 << 30)
				c.blocked = false
			}
			for round := 0; round < 2000; round++ {
				c.mu.Lock()
				var pick *v15Handler
				for _, h := range c.handlers {
					if !h.gone && !h.busy && (pick == nil || h.sid < pick.sid) {
						pick = h
					}
				}
				if pick != nil {
					delete(c.handlers, pick.sid)
				}
				c.mu.Unlock()
				if pick == nil {
					break
				}
				close(pick.cmd)
				c.collect(false)
			}
			c.collect(false)
			c.endOfStep(base)
			c.final(base)
			o.Stat("op:end")
		default:
			valid = false
		}
		if !valid {
			o.Op(op, "bad-op")
			continue
		}
		if f[0] != "end" {
			c.endOfStep(base)
		}
		emit()
	}
}
