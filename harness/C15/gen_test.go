//go:build verif

// Generator of C15 client/handler scripts (see rig_test.go for the line grammar).
package http2_test

import (
	"fmt"
	"strings"

	vu "golang.org/x/net/internal/verifutil"
)

type v15g struct {
	r       *vu.Rng
	ops     []string
	adv     int
	next    uint32   // next fresh client stream id
	open    []uint32 // streams the generator believes are open (approximate)
	all     []uint32 // every stream id used so far
	handler []uint32 // streams whose user handler probably runs (approximate)
	pingN   int
	hadCL   bool // the last headers() call added content-length fields
}

func (g *v15g) fresh() uint32 {
	id := g.next
	g.next += 2
	if g.r.Chance(1, 12) {
		g.next += 2 * uint32(g.r.Intn(3)) // skipped ids are implicitly closed
	}
	return id
}

func (g *v15g) pick(xs []uint32) (uint32, bool) {
	if len(xs) == 0 {
		return 0, false
	}
	return xs[g.r.Intn(len(xs))], true
}

func v15Remove(xs []uint32, x uint32) []uint32 {
	out := xs[:0:0]
	for _, y := range xs {
		if y != x {
			out = append(out, y)
		}
	}
	return out
}

// baseFields returns a well-formed request (pseudo fields in random order, then x-sid).
func (g *v15g) baseFields(sid uint32) []v15Field {
	r := g.r
	methods := []string{"GET", "POST", "PUT", "HEAD", "DELETE"}
	paths := []string{"/", "/r", "/a/b?q=1", "*", "/x.y_z-~"}
	ps := []v15Field{
		{":method", methods[r.Intn(len(methods))]},
		{":scheme", []string{"https", "http"}[r.Intn(2)]},
		{":path", paths[r.Intn(len(paths))]},
	}
	if r.Chance(4, 5) {
		ps = append(ps, v15Field{":authority", "dummy.tld"})
	}
	if r.Chance(1, 10) { // CONNECT: only :method and :authority
		ps = []v15Field{{":method", "CONNECT"}, {":authority", "dummy.tld:443"}}
	}
	for i := len(ps) - 1; i > 0; i-- {
		j := r.Intn(i + 1)
		ps[i], ps[j] = ps[j], ps[i]
	}
	fs := append(ps, v15Field{"x-sid", fmt.Sprint(sid)})
	extras := []v15Field{{"te", "trailers"}, {"te", ""}, {"user-agent", "v"}, {"cookie", "a=b"}, {"x-up", "Value With CAPS"},
		{"priority", "u=3"}, {"via", "1.1 x"}, {"host", "other.tld"}, {"accept", "*/*"}, {"x-empty", ""}, {"trailer", "x-t"}}
	for k := r.Intn(3); k > 0; k-- {
		e := extras[r.Intn(len(extras))]
		if e.n == "te" {
			dup := false
			for _, f := range fs {
				if f.n == "te" {
					dup = true
				}
			}
			if dup {
				continue
			}
		}
		fs = append(fs, e)
	}
	return fs
}

func v15Insert(fs []v15Field, at int, f v15Field) []v15Field {
	out := append([]v15Field{}, fs[:at]...)
	out = append(out, f)
	return append(out, fs[at:]...)
}

func v15NumPseudo(fs []v15Field) int {
	n := 0
	for n < len(fs) && strings.HasPrefix(fs[n].n, ":") {
		n++
	}
	return n
}

func v15Drop(fs []v15Field, name string) []v15Field {
	var out []v15Field
	for _, f := range fs {
		if f.n != name {
			out = append(out, f)
		}
	}
	return out
}

func v15Has(fs []v15Field, name string) bool {
	for _, f := range fs {
		if f.n == name {
			return true
		}
	}
	return false
}

// malformWire makes the block invalid for readMetaFrame (stream error at the framer).
func (g *v15g) malformWire(fs []v15Field) []v15Field {
	r := g.r
	np := v15NumPseudo(fs)
	regPos := np + r.Intn(len(fs)-np+1)
	switch r.Intn(9) {
	case 0:
		return v15Insert(fs, regPos, v15Field{[]string{"X-Up", "x-uP", "Te", "CONNECTION"}[r.Intn(4)], "1"})
	case 1:
		return v15Insert(fs, regPos, v15Field{[]string{"x y", "x:y", "", "x\x00", "x\xc3\xa9", "x(y)", "x\x7f"}[r.Intn(7)], "1"})
	case 2:
		return v15Insert(fs, regPos, v15Field{"x-v", []string{"a\nb", "a\x00b", "a\x7fb", "a\rb", "\x01"}[r.Intn(5)]})
	case 3: // pseudo after regular
		return append(fs, v15Field{[]string{":path", ":method", ":scheme", ":authority", ":foo"}[r.Intn(5)], "/late"})
	case 4: // unknown pseudo
		return v15Insert(fs, r.Intn(np+1), v15Field{[]string{":foo", ":", ":Method", ":path ", ":version"}[r.Intn(5)], "bar"})
	case 5: // duplicate pseudo
		k := r.Intn(np)
		return v15Insert(fs, r.Intn(np+1), v15Field{fs[k].n, fs[k].v})
	case 6: // response pseudo mixed in
		return v15Insert(fs, r.Intn(np+1), v15Field{":status", "200"})
	case 7: // pseudo with an invalid value
		k := r.Intn(np)
		out := append([]v15Field{}, fs...)
		out[k].v += "\n"
		return out
	default: // move a pseudo field behind the regular ones
		k := r.Intn(np)
		f := fs[k]
		out := append([]v15Field{}, fs[:k]...)
		out = append(out, fs[k+1:]...)
		return append(out, f)
	}
}

// malformPseudo makes the request invalid for newWriterAndRequest / NewServerRequest.
func (g *v15g) malformPseudo(fs []v15Field, sid uint32) []v15Field {
	r := g.r
	set := func(name, v string) []v15Field {
		out := append([]v15Field{}, fs...)
		for i := range out {
			if out[i].n == name {
				out[i].v = v
				return out
			}
		}
		return v15Insert(out, 0, v15Field{name, v})
	}
	isConnect := false
	for _, f := range fs {
		if f.n == ":method" && f.v == "CONNECT" {
			isConnect = true
		}
	}
	if isConnect {
		switch r.Intn(3) {
		case 0:
			return v15Insert(fs, 0, v15Field{":path", "/"})
		case 1:
			return v15Insert(fs, 0, v15Field{":scheme", "https"})
		default:
			return v15Drop(fs, ":authority")
		}
	}
	switch r.Intn(10) {
	case 0:
		return v15Drop(fs, ":method")
	case 1:
		return v15Drop(fs, ":path")
	case 2:
		return v15Drop(fs, ":scheme")
	case 3:
		return set(":scheme", []string{"ftp", "", "HTTPS", "ws"}[r.Intn(4)])
	case 4:
		return set(":path", "")
	case 5:
		return set(":path", []string{"r", "a/b", "**", "http://x/"}[r.Intn(4)])
	case 6:
		return set(":authority", "user@dummy.tld")
	case 7:
		return set(":method", "")
	case 8:
		return v15Insert(fs, 0, v15Field{":protocol", "websocket"})
	default: // userinfo through the Host fallback
		out := v15Drop(v15Drop(fs, ":authority"), "host")
		return append(out, v15Field{"host", "u@h"})
	}
}

// connSpecific adds a connection-specific field (checkValidHTTP2RequestHeaders fails).
func (g *v15g) connSpecific(fs []v15Field) []v15Field {
	r := g.r
	np := v15NumPseudo(fs)
	pos := np + r.Intn(len(fs)-np+1)
	switch r.Intn(8) {
	case 0:
		return v15Insert(fs, pos, v15Field{"connection", []string{"keep-alive", "close", ""}[r.Intn(3)]})
	case 1:
		return v15Insert(fs, pos, v15Field{"keep-alive", "timeout=5"})
	case 2:
		return v15Insert(fs, pos, v15Field{"proxy-connection", "keep-alive"})
	case 3:
		return v15Insert(fs, pos, v15Field{"transfer-encoding", []string{"chunked", "identity"}[r.Intn(2)]})
	case 4:
		return v15Insert(fs, pos, v15Field{"upgrade", "h2c"})
	case 5:
		fs = v15Drop(fs, "te")
		np = v15NumPseudo(fs)
		return v15Insert(fs, np+r.Intn(len(fs)-np+1), v15Field{"te", []string{"gzip", "trailers, deflate", "Trailers", " trailers", "deflate"}[r.Intn(5)]})
	default:
		fs = v15Drop(fs, "te")
		fs = append(fs, v15Field{"te", []string{"trailers", "", "gzip"}[r.Intn(3)]})
		return append(fs, v15Field{"te", []string{"trailers", ""}[r.Intn(2)]})
	}
}

// contentLength adds content-length field(s): well-formed for the END_STREAM flag the request gets, or
// malformed (not a number, conflicting values, non-zero with END_STREAM). The server treats both alike
// (class ok); the oracle does not.
func (g *v15g) contentLength(fs []v15Field, es int) []v15Field {
	r := g.r
	good := "0"
	add := func(vs ...string) []v15Field {
		for _, v := range vs {
			fs = append(fs, v15Field{"content-length", v})
		}
		return fs
	}
	switch r.Intn(8) {
	case 0:
		return add(good)
	case 1:
		return add(good, good)
	case 2:
		return add([]string{"abc", "+0", "-0", "", "0x0", "0 ", "1e0", "٣"}[r.Intn(8)])
	case 3:
		return add("0", "1")
	case 4:
		return add("0", "abc")
	case 5:
		if es == 1 {
			return add([]string{"5", "1", "007"}[r.Intn(3)])
		}
		return add(good)
	case 6:
		return add("00")
	default:
		return add("-1")
	}
}

// headers builds an H token of the given kind on stream sid.
func (g *v15g) headers(sid uint32, kind string) string {
	fs := g.baseFields(sid)
	switch kind {
	case "mw":
		if g.r.Chance(1, 4) {
			fs = g.connSpecific(fs) // the wire error wins
		}
		fs = g.malformWire(fs)
	case "mp":
		if g.r.Chance(1, 4) {
			fs = g.connSpecific(fs) // the pseudo-header error wins
		}
		fs = g.malformPseudo(fs, sid)
	case "cs":
		fs = g.connSpecific(fs)
	}
	es := 1
	if g.r.Chance(1, 3) {
		es = 0
	}
	g.hadCL = false
	if g.r.Chance(1, 7) {
		fs = g.contentLength(fs, es)
		g.hadCL = true
	}
	ncont := 0
	if g.r.Chance(1, 8) {
		ncont = g.r.Range(1, 3)
	}
	return fmt.Sprintf("H:%d:%d:%s:%d:%s", sid, es, kind, ncont, v15EncFields(fs))
}

func (g *v15g) kind() string {
	switch k := g.r.Intn(20); {
	case k < 11:
		return "ok"
	case k < 14:
		return "mw"
	case k < 17:
		return "mp"
	default:
		return "cs"
	}
}

func (g *v15g) ping() string {
	g.pingN++
	if g.r.Chance(1, 5) {
		return "P:0102030405060708" // repeated payloads
	}
	return fmt.Sprintf("P:%016x", g.r.Uint64())
}

func (g *v15g) settings() string {
	r := g.r
	type kv struct{ id, val uint64 }
	pool := []kv{{2, 0}, {2, 1}, {3, 0}, {3, 100}, {5, 16384}, {5, 1 << 20}, {6, 1 << 16}, {1, 4096}, {1, 0}, {8, 0}, {8, 1}, {9, 1}, {9, 0}, {0xf0, 7}, {4, 1 << 24}}
	if r.Chance(1, 12) { // invalid value: connection error
		pool = []kv{{2, 2}, {5, 100}, {5, 1 << 24}, {4, 1 << 31}, {8, 2}, {9, 2}}
	}
	n := r.Intn(4)
	used := map[uint64]bool{}
	var parts []string
	for k := 0; k < n; k++ {
		e := pool[r.Intn(len(pool))]
		if used[e.id] && !r.Chance(1, 15) {
			continue
		}
		used[e.id] = true
		parts = append(parts, fmt.Sprintf("%d=%d", e.id, e.val))
	}
	if len(parts) == 0 {
		return "S:-"
	}
	return "S:" + strings.Join(parts, ",")
}

func (g *v15g) emit(s string) { g.ops = append(g.ops, s) }

func (g *v15g) openOne(kind string) string {
	sid := g.fresh()
	tok := g.headers(sid, kind)
	// streams with a declared content-length stay out of the DATA pool: the accounting model does
	// not track declared lengths (DATA beyond the declaration is a stream error)
	if (kind != "mw" || g.r.Chance(1, 10)) && !g.hadCL {
		g.all = append(g.all, sid)
	}
	if kind == "ok" || kind == "cs" {
		g.open = append(g.open, sid)
	}
	if kind == "ok" {
		g.handler = append(g.handler, sid)
	}
	return tok
}

func (g *v15g) rst() string {
	r := g.r
	switch k := r.Intn(20); {
	case k < 13:
		if sid, ok := g.pick(g.open); ok {
			g.open = v15Remove(g.open, sid)
			return fmt.Sprintf("R:%d", sid)
		}
	case k < 18:
		if sid, ok := g.pick(g.all); ok {
			g.open = v15Remove(g.open, sid)
			return fmt.Sprintf("R:%d", sid)
		}
	case k == 18:
		return fmt.Sprintf("R:%d", g.next+uint32(2*r.Intn(3))) // idle stream: connection error
	}
	return fmt.Sprintf("R:%d", uint32(2*r.Range(1, 4))) // even (server-initiated, idle)
}

func (g *v15g) step() {
	r := g.r
	switch k := r.Intn(100); {
	case k < 22: // single HEADERS
		g.emit("c " + g.openOne(g.kind()))
	case k < 32: // burst
		n := r.Range(2, 7)
		var toks []string
		usedS := false
		for i := 0; i < n; i++ {
			switch j := r.Intn(10); {
			case j < 5:
				kind := "ok"
				if r.Chance(1, 4) {
					kind = "mw"
				}
				toks = append(toks, g.openOne(kind))
			case j < 8:
				toks = append(toks, g.rst())
			case j == 8 && !usedS:
				toks = append(toks, g.ping())
			default:
				toks = append(toks, g.ping())
			}
		}
		_ = usedS
		g.emit("c " + strings.Join(toks, " "))
	case k < 42:
		g.emit("c " + g.rst())
	case k < 50:
		g.emit("c " + g.ping())
	case k < 53:
		g.emit(fmt.Sprintf("c PA:%016x", r.Uint64()))
	case k < 59:
		g.emit("c " + g.settings())
	case k < 61:
		g.emit("c SA")
	case k < 66: // DATA
		sid, ok := g.pick(g.all)
		if !ok || r.Chance(1, 40) {
			sid = g.next
		}
		es := r.Intn(2)
		g.emit(fmt.Sprintf("c D:%d:%d:%d", sid, r.Intn(40), es))
	case k < 69: // trailers
		sid, ok := g.pick(g.open)
		if !ok {
			sid, ok = g.pick(g.all)
		}
		if ok {
			g.emit(fmt.Sprintf("c T:%d:%d", sid, r.Intn(2)))
		}
	case k < 72:
		sid, ok := g.pick(g.all)
		if ok {
			dep := uint32(0)
			if r.Chance(1, 5) {
				dep = sid
			}
			g.emit(fmt.Sprintf("c PR:%d:%d", sid, dep))
		}
	case k < 74:
		sid, ok := g.pick(g.all)
		if ok && r.Chance(2, 3) {
			g.emit(fmt.Sprintf("c W:%d:%d", sid, r.Range(1, 1000)))
		} else {
			g.emit(fmt.Sprintf("c W:0:%d", r.Range(1, 1000)))
		}
	case k < 96: // handler commands
		sid, ok := g.pick(g.handler)
		if !ok {
			g.emit("c " + g.openOne("ok"))
			return
		}
		switch j := r.Intn(10); {
		case j < 3:
			g.emit(fmt.Sprintf("h write %d", sid))
		case j < 4:
			g.emit(fmt.Sprintf("h flush %d", sid))
		case j < 9:
			g.emit(fmt.Sprintf("h fin %d", sid))
			g.handler = v15Remove(g.handler, sid)
			g.open = v15Remove(g.open, sid)
		default:
			g.emit(fmt.Sprintf("h panic %d", sid))
			g.handler = v15Remove(g.handler, sid)
			g.open = v15Remove(g.open, sid)
		}
	case k < 98:
		g.emit(fmt.Sprintf("sleep %d", []int{1, 10, 30, 3000}[r.Intn(4)]))
	default:
		g.emit("c G")
	}
}

func v15Gen(r *vu.Rng, i int) []string {
	g := &v15g{r: r, next: 1}
	if r.Chance(1, 10) {
		g.next = uint32(2*r.Intn(50) + 1)
	}
	g.adv = []int{1, 1, 2, 2, 3, 4, 6}[r.Intn(7)]
	ack := 1
	if r.Chance(1, 6) {
		ack = 0
	}
	g.emit(fmt.Sprintf("reset %d %d", g.adv, ack))
	switch sc := r.Intn(20); {
	case sc < 12: // mixed
		for n := r.Range(5, 40); n > 0; n-- {
			g.step()
		}
	case sc < 16: // reset storm: HEADERS+RST pairs in bursts, handlers finishing in between
		for round := r.Range(2, 6); round > 0; round-- {
			var toks []string
			for n := r.Range(1, 5*g.adv+3); n > 0; n-- {
				sid := g.fresh()
				toks = append(toks, g.headers(sid, "ok"))
				g.all = append(g.all, sid)
				g.handler = append(g.handler, sid)
				if r.Chance(9, 10) {
					toks = append(toks, fmt.Sprintf("R:%d", sid))
				} else {
					g.open = append(g.open, sid)
				}
				if len(toks) >= 8 || r.Chance(1, 4) {
					g.emit("c " + strings.Join(toks, " "))
					toks = nil
				}
			}
			if len(toks) > 0 {
				g.emit("c " + strings.Join(toks, " "))
			}
			for n := r.Intn(3); n > 0; n-- {
				if sid, ok := g.pick(g.handler); ok {
					g.emit(fmt.Sprintf("h fin %d", sid))
					g.handler = v15Remove(g.handler, sid)
				}
			}
			if r.Chance(1, 3) {
				g.emit("c " + g.ping())
			}
		}
	case sc < 18: // blocked client: PINGs and SETTINGS pile up behind a blocked write
		for n := r.Intn(4); n > 0; n-- {
			g.step()
		}
		g.emit("c " + g.ping())
		g.emit("block")
		for n := r.Range(1, 8); n > 0; n-- {
			if r.Chance(1, 2) {
				g.emit("c " + g.ping())
			} else {
				g.emit("c S:-")
			}
		}
		g.emit("unblock")
		for n := r.Intn(4); n > 0; n-- {
			g.step()
		}
	default: // malformed gallery
		for n := r.Range(4, 16); n > 0; n-- {
			kind := []string{"mw", "mp", "cs", "ok"}[r.Intn(4)]
			g.emit("c " + g.openOne(kind))
			if r.Chance(1, 4) {
				g.emit("c " + g.rst())
			}
			if r.Chance(1, 4) {
				if sid, ok := g.pick(g.handler); ok {
					g.emit(fmt.Sprintf("h fin %d", sid))
					g.handler = v15Remove(g.handler, sid)
				}
			}
		}
	}
	// differential ops on checkValidHTTP2RequestHeaders
	for n := r.Intn(3); n > 0; n-- {
		fs := g.baseFields(1)
		fs = fs[v15NumPseudo(fs):]
		if r.Chance(1, 2) {
			fs = g.connSpecific(fs)
		}
		g.emit("chk " + v15EncFields(fs))
	}
	g.emit("end")
	return g.ops
}
