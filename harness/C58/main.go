//go:build verif

// C58 harness: stress of netutil.LimitListener over an in-memory listener under many
// goroutines; logs linearisation events for the Lean monitor (drv_C58).
//
// Each case is ONE op line `run listen <n> <A> <K> <mode> <s>`; exec runs the scenario on the
// real code and emits the recorded events (sorted by their global atomic sequence number) as
// further op lines with result `ok`. Event lines of a replayed trace are skipped: the `run`
// line re-executes the scenario.
//
// `iacc <id>` is logged by the wrapped listener when it hands out a connection (LimitListener
// already holds the semaphore slot), `iclose <id>` by the wrapped connection's Close (the slot is
// released only afterwards): #iacc − #distinct iclose is exactly the number of accepted and
// unclosed connections at that point.
package main

import (
	"errors"
	"fmt"
	"net"
	"runtime"
	"sort"
	"strings"
	"sync"
	"sync/atomic"
	"time"

	vu "golang.org/x/net/internal/verifutil"
	"golang.org/x/net/netutil"
)

type event struct {
	seq int64
	s   string
}

var seqCounter int64

// hungOnce: a scenario hung; later cases are not run (each would cost the full watchdog time)
var hungOnce bool // hungOnce

type recorder struct {
	mu  sync.Mutex
	evs []event
}

// log takes the sequence number and appends under the recorder's lock (the inner listener's
// recorder is shared by all goroutines).
func (r *recorder) log(format string, a ...any) {
	r.mu.Lock()
	r.evs = append(r.evs, event{atomic.AddInt64(&seqCounter, 1), fmt.Sprintf(format, a...)})
	r.mu.Unlock()
}

type failures struct {
	mu sync.Mutex
	l  [][2]string
}

func (f *failures) add(sig, desc string) {
	f.mu.Lock()
	if len(f.l) < 20 {
		f.l = append(f.l, [2]string{sig, desc})
	}
	f.mu.Unlock()
}

func yield(r *vu.Rng, max int) {
	for n := r.Intn(max + 1); n > 0; n-- {
		runtime.Gosched()
	}
}

type memAddr struct{}

func (memAddr) Network() string { return "mem" }
func (memAddr) String() string  { return "mem" }

type memListener struct {
	rec       *recorder
	fails     *failures
	limit     int32
	nextID    int32
	open      int32
	closed    int32
	profile   int
	fmu       sync.Mutex
	frng      *vu.Rng
	faultsOff int32
	nTemp     int32
	nHard     int32
}

type memConn struct {
	net.Conn // nil: only Close is used
	l        *memListener
	id       int32
	closed   int32
}

var errMemClosed = errors.New("verif: listener closed")
var errMemHard = errors.New("verif: injected permanent accept failure")

// memTempErr is an injected temporary net.Error (what EMFILE / ECONNABORTED look like).
type memTempErr struct{}

func (memTempErr) Error() string   { return "verif: injected temporary accept failure" }
func (memTempErr) Timeout() bool   { return false }
func (memTempErr) Temporary() bool { return true }

// fault decides, from the seeded fault stream, what the next Accept of the wrapped listener does:
// 0 = hand out a connection, 1 = temporary net.Error, 2 = permanent error.
// profile 0: no faults; 1: temporary errors only; 2: temporary and permanent errors.
func (l *memListener) fault() int {
	if l.profile == 0 || atomic.LoadInt32(&l.faultsOff) != 0 {
		return 0
	}
	l.fmu.Lock()
	defer l.fmu.Unlock()
	x := l.frng.Intn(8)
	switch {
	case l.profile == 1 && x < 3, l.profile == 2 && x < 2:
		atomic.AddInt32(&l.nTemp, 1)
		return 1
	case l.profile == 2 && x == 2:
		atomic.AddInt32(&l.nHard, 1)
		return 2
	}
	return 0
}

func (l *memListener) Accept() (net.Conn, error) {
	if atomic.LoadInt32(&l.closed) != 0 {
		return nil, errMemClosed
	}
	switch l.fault() {
	case 1:
		return nil, memTempErr{}
	case 2:
		return nil, errMemHard
	}
	id := atomic.AddInt32(&l.nextID, 1) - 1
	if n := atomic.AddInt32(&l.open, 1); n > l.limit {
		l.fails.add("limit", fmt.Sprintf("%d accepted and unclosed connections with limit %d", n, l.limit))
	}
	l.rec.log("iacc %d", id)
	return &memConn{l: l, id: id}, nil
}

func (l *memListener) Close() error   { atomic.StoreInt32(&l.closed, 1); return nil }
func (l *memListener) Addr() net.Addr { return memAddr{} }

func (c *memConn) Close() error {
	c.l.rec.log("iclose %d", c.id)
	if atomic.CompareAndSwapInt32(&c.closed, 0, 1) {
		atomic.AddInt32(&c.l.open, -1)
	}
	return nil
}

func gen(r *vu.Rng, i int) []string {
	return []string{fmt.Sprintf("run listen %d %d %d %d %d", r.Range(1, 4), r.Range(1, 6), r.Range(1, 8), r.Intn(2)+2*r.Intn(3), r.Uint64()>>1)}
}

// runListen: A acceptors each call Accept up to K times; every accepted connection is closed by
// a closer goroutine after some yields, 40% of them a second time (half of those concurrently).
// mode%2 == 1: the listener is closed at a random moment by another goroutine; == 0: after all
// acceptors are done, and after checking that all n slots are free again.
// mode/2 = fault profile of the wrapped listener: 0 none, 1 temporary net.Errors, 2 temporary and
// permanent errors, injected from a seeded stream; after any failed Accept the slot must be free.
func runListen(n, A, K, mode int, s uint64, stats map[string]int) ([]event, [][2]string) {
	if hungOnce {
		return nil, nil
	}
	fails := &failures{}
	profile := mode / 2 // fault profile of the wrapped listener (see memListener.fault)
	mode = mode % 2
	inner := &memListener{rec: &recorder{}, fails: fails, limit: int32(n), profile: profile,
		frng: vu.NewRng(s ^ 0xd1b54a32d192ed03)}
	l := netutil.LimitListener(inner, n)
	recs := make([]*recorder, A+1)
	st := make([]map[string]int, A+1)
	for i := range recs {
		recs[i] = &recorder{}
		st[i] = map[string]int{}
	}
	var acceptors, closers, closer sync.WaitGroup
	var lret int64 = -1 // seq of the first lret, -1 while Close has not returned
	for a := 0; a < A; a++ {
		acceptors.Add(1)
		go func(a int) {
			defer acceptors.Done()
			defer func() {
				if e := recover(); e != nil {
					fails.add("panic", fmt.Sprint(e))
				}
			}()
			rng := vu.NewRng(s ^ (uint64(a)+1)*0x9e3779b97f4a7c15)
			rec := recs[a]
			for k := 0; k < K; k++ {
				yield(rng, 3)
				rec.mu.Lock()
				inv := atomic.AddInt64(&seqCounter, 1)
				rec.evs = append(rec.evs, event{inv, fmt.Sprintf("ainv %d", a)})
				rec.mu.Unlock()
				c, err := l.Accept()
				if err != nil {
					rec.log("aerr %d", a)
					st[a]["accept:err"]++
					if err == errMemClosed {
						return
					}
					continue // injected failure of the wrapped listener: the slot must have been given back
				}
				rec.log("acc %d", a)
				st[a]["accept:conn"]++
				if lr := atomic.LoadInt64(&lret); lr >= 0 && inv > lr {
					fails.add("accept-after-close", "an Accept invoked after Close returned handed out a connection")
				}
				y1, second, conc, y2 := rng.Intn(12), rng.Chance(2, 5), rng.Bool(), rng.Intn(6)
				closers.Add(1)
				go func() {
					defer closers.Done()
					for i := 0; i < y1; i++ {
						runtime.Gosched()
					}
					if second && conc {
						closers.Add(1)
						go func() { defer closers.Done(); c.Close() }()
					}
					c.Close()
					if second && !conc {
						for i := 0; i < y2; i++ {
							runtime.Gosched()
						}
						c.Close()
					}
				}()
				if second {
					st[a]["conn:closed-twice"]++
				}
			}
		}(a)
	}
	closeListener := func(rec *recorder) {
		rec.log("linv")
		l.Close()
		rec.mu.Lock()
		sq := atomic.AddInt64(&seqCounter, 1)
		rec.evs = append(rec.evs, event{sq, "lret"})
		rec.mu.Unlock()
		atomic.CompareAndSwapInt64(&lret, -1, sq)
	}
	if mode == 1 {
		closer.Add(1)
		go func() {
			defer closer.Done()
			rng := vu.NewRng(s ^ 0x94d049bb133111eb)
			yield(rng, 80)
			closeListener(recs[A])
		}()
	}
	done := make(chan struct{})
	go func() {
		acceptors.Wait()
		closers.Wait()
		closer.Wait()
		var pending []net.Conn
		if mode == 0 {
			// every slot must be free again: n more Accepts succeed without blocking
			atomic.StoreInt32(&inner.faultsOff, 1)
			var cs []net.Conn
			for i := 0; i < n; i++ {
				c, err := l.Accept()
				if err != nil {
					fails.add("leak", "Accept failed on an open listener")
					break
				}
				cs = append(cs, c)
			}
			// close the listener while all n slots are taken: Accept must still return at once
			closeListener(recs[A])
			pending = cs
		}
		// Accept after Close: returns an error, does not block (even with the semaphore full)
		if c, err := l.Accept(); err == nil {
			fails.add("accept-after-close", "Accept after Close returned a connection")
			c.Close()
		}
		for _, c := range pending {
			c.Close()
		}
		if o := atomic.LoadInt32(&inner.open); o != 0 {
			fails.add("leak", fmt.Sprintf("%d connections still counted open at the end", o))
		}
		close(done)
	}()
	select {
	case <-done:
	case <-time.After(20 * time.Second):
		// every goroutine still alive is blocked: what was recorded so far is still reported
		fails.add("hang", "listener scenario did not finish within 20 s (a semaphore slot was not released, or Accept blocked after Close)")
	}
	all := append([]event{}, inner.rec.evs...)
	for i, r := range recs {
		all = append(all, r.evs...)
		for k, v := range st[i] {
			stats[k] += v
		}
	}
	stats["inner:temporary-error"] += int(atomic.LoadInt32(&inner.nTemp))
	stats["inner:permanent-error"] += int(atomic.LoadInt32(&inner.nHard))
	stats[fmt.Sprintf("fault-profile:%d", profile)]++
	sort.Slice(all, func(i, j int) bool { return all[i].seq < all[j].seq })
	return all, fails.l
}

func exec(ops []string, o *vu.Out) {
	runtime.GOMAXPROCS(16)
	for _, op := range ops {
		t := strings.Fields(op)
		if len(t) == 0 || t[0] != "run" {
			continue // recorded event lines of a replayed trace: the run line re-executes
		}
		if len(t) != 7 || t[1] != "listen" {
			o.Op(op, "bad-op")
			continue
		}
		n, A, K, mode, s := vu.Atoi(t[2]), vu.Atoi(t[3]), vu.Atoi(t[4]), vu.Atoi(t[5]), vu.Atou64(t[6])
		if n < 1 || n > 64 || A < 1 || A > 64 || K < 0 || K > 1000 || mode < 0 || mode > 5 {
			o.Op(op, "bad-op")
			continue
		}
		stats := map[string]int{}
		evs, fails := runListen(n, A, K, mode, s, stats)
		for _, f := range fails {
			if f[0] == "hang" {
				hungOnce = true
			}
		}
		o.Op(op, "ok")
		for _, e := range evs {
			o.Op(e.s, "ok")
		}
		o.Op("end", "ok")
		for k, v := range stats {
			o.StatN(k, v)
		}
		for _, f := range fails {
			o.Fail(f[0], f[1])
		}
	}
}

func main() { vu.Main(gen, exec) }
