//go:build verif

// C09 trace harness: the Transport's outbound (request body) flow control on the package's own
// client rig (newTestClientConn inside a synctest bubble).
//
// A case is a script of server frames (SETTINGS, WINDOW_UPDATE, RST_STREAM, response HEADERS) and
// application steps (start a request with a streaming body, hand n more body bytes to the
// Transport, end the body, cancel the request). Every step is followed by synctest.Wait and every
// frame the client wrote is appended to the op line after "=>" in wire order. The Lean monitor
// (Model/SendWin.lean, `Mon`, the same one as for C08) validates each line; this file states the
// property directly on the recorded frames (safety per DATA frame; liveness: at quiescence no body
// bytes are pending on a stream whose stream and connection windows are both positive, and a
// finished body has been closed with END_STREAM) and compares the ClientConn's own counters with
// the server's view.
//
// Injected as http2/zz_verif_c09_test.go (package http2_test) together with harness/C08/rig_test.go
// (shared helpers: watchdog wrapper, value pools).
package http2_test

import (
	"errors"
	"fmt"
	"io"
	"net/http"
	"os"
	"sort"
	"strings"
	"sync"
	"testing"
	"testing/synctest"

	. "golang.org/x/net/http2"
	vu "golang.org/x/net/internal/verifutil"
)

func TestVerifC09(t *testing.T) {
	cfg := vu.ConfigFromEnv()
	vu.Run(cfg, c9Gen, func(ops []string, o *vu.Out) { c8Case(t, ops, o, c9Exec) })
}

type c9Stream struct {
	k         int
	id        uint32
	rt        *testRoundTrip
	body      *c9Body
	win       int64 // server's view of the stream window
	open      bool  // the client may still send DATA
	diverged  bool  // a SETTINGS change lifted the server's view above 2^31-1 (the client ignores such an add)
	eof       bool
	cancelled bool // request context cancelled: no liveness claim any more (the RST may be delayed, see c9Exec)
	committed int64
	received  int64
}

type c9Conn struct {
	t        *testing.T
	tc       *testClientConn
	o        *vu.Out
	conn     int64
	initWin  int64
	maxFrame int64
	dead     bool
	reqs     map[int]*c9Stream
	streams  map[uint32]*c9Stream
	pendingK []*c9Stream // requests whose HEADERS have not been seen yet
	obs      []string
}

// c9Body is a streaming request body whose Read blocks until the script provides bytes, ends the
// body, or the Transport closes it (unlike the rig's testRequestBody, Close unblocks a pending Read,
// as it does for pipes and network bodies; otherwise a reset stream could not finish its cleanup).
type c9Body struct {
	mu     sync.Mutex
	cond   *sync.Cond
	n      int
	eof    bool
	closed bool
}

func newC9Body() *c9Body {
	b := &c9Body{}
	b.cond = sync.NewCond(&b.mu)
	return b
}

func (b *c9Body) Read(p []byte) (int, error) {
	b.mu.Lock()
	defer b.mu.Unlock()
	for b.n == 0 && !b.eof && !b.closed {
		b.cond.Wait()
	}
	if b.closed {
		return 0, errors.New("request body closed")
	}
	if b.n > 0 {
		m := len(p)
		if m > b.n {
			m = b.n
		}
		b.n -= m
		for i := 0; i < m; i++ {
			p[i] = 'A'
		}
		return m, nil
	}
	return 0, io.EOF
}

func (b *c9Body) Close() error {
	b.mu.Lock()
	b.closed = true
	b.mu.Unlock()
	b.cond.Broadcast()
	return nil
}

func (b *c9Body) add(n int) {
	b.mu.Lock()
	b.n += n
	b.mu.Unlock()
	b.cond.Broadcast()
}

func (b *c9Body) end() {
	b.mu.Lock()
	b.eof = true
	b.mu.Unlock()
	b.cond.Broadcast()
}

func (c *c9Conn) sorted() []*c9Stream {
	ids := make([]int, 0, len(c.streams))
	for id := range c.streams {
		ids = append(ids, int(id))
	}
	sort.Ints(ids)
	out := make([]*c9Stream, 0, len(ids))
	for _, id := range ids {
		out = append(out, c.streams[uint32(id)])
	}
	return out
}

func (c *c9Conn) onData(sid uint32, n int64, fin bool) {
	s := c.streams[sid]
	if s == nil || !s.open {
		c.o.Fail("", fmt.Sprintf("DATA (%d bytes) on stream %d which is not open for sending", n, sid))
		return
	}
	if n > c.maxFrame {
		c.o.Fail("", fmt.Sprintf("DATA frame of %d bytes on stream %d exceeds the server's SETTINGS_MAX_FRAME_SIZE %d", n, sid, c.maxFrame))
	}
	if n > 0 && n > s.win {
		c.o.Fail("", fmt.Sprintf("DATA frame of %d bytes on stream %d exceeds the stream send window %d", n, sid, s.win))
	}
	if n > 0 && n > c.conn {
		c.o.Fail("", fmt.Sprintf("DATA frame of %d bytes on stream %d exceeds the connection send window %d", n, sid, c.conn))
	}
	if n > 0 {
		if n == s.win || n == c.conn {
			c.o.Stat("branch:data-exhausts-window")
		}
		if n == c.maxFrame {
			c.o.Stat("branch:data-at-max-frame")
		}
	}
	s.win -= n
	c.conn -= n
	s.received += n
	if s.received > s.committed {
		c.o.Fail("", fmt.Sprintf("stream %d: %d DATA bytes on the wire but the request body has produced only %d", sid, s.received, s.committed))
	}
	if fin {
		s.open = false
		if !s.eof {
			c.o.Fail("", fmt.Sprintf("stream %d: END_STREAM before the request body ended", sid))
		}
	}
}

func (c *c9Conn) drain() {
	for {
		f, err := c.tc.fr.ReadFrame()
		if err != nil {
			if err == os.ErrDeadlineExceeded || err == errWouldBlock {
				return
			}
			if !c.dead {
				c.obs = append(c.obs, "closed")
			}
			c.dead = true
			return
		}
		switch f := f.(type) {
		case *DataFrame:
			sid, n, fin := f.Header().StreamID, int64(len(f.Data())), f.StreamEnded()
			c.obs = append(c.obs, fmt.Sprintf("data:%d:%d:%d", sid, n, c8b(fin)))
			if int64(f.Header().Length) != n {
				c.o.Fail("", "client sent a padded DATA frame")
			}
			c.onData(sid, n, fin)
		case *HeadersFrame:
			sid := f.Header().StreamID
			if c.streams[sid] == nil {
				// request HEADERS: streams are opened in the order the requests were started
				c.obs = append(c.obs, fmt.Sprintf("open:%d", sid))
				if len(c.pendingK) == 0 {
					c.o.Fail("", fmt.Sprintf("HEADERS for stream %d without a pending request", sid))
					break
				}
				s := c.pendingK[0]
				c.pendingK = c.pendingK[1:]
				s.id, s.win, s.open = sid, c.initWin, true
				c.streams[sid] = s
				if f.StreamEnded() {
					c.obs = append(c.obs, fmt.Sprintf("end:%d", sid))
					s.open = false
				}
			} else {
				// trailers
				if f.StreamEnded() {
					c.obs = append(c.obs, fmt.Sprintf("end:%d", sid))
					c.streams[sid].open = false
				} else {
					c.obs = append(c.obs, fmt.Sprintf("hdrs:%d", sid))
				}
			}
		case *RSTStreamFrame:
			sid := f.Header().StreamID
			c.obs = append(c.obs, fmt.Sprintf("rst:%d:%d", sid, uint32(f.ErrCode)))
			if s := c.streams[sid]; s != nil {
				s.open = false
			}
		case *GoAwayFrame:
			c.obs = append(c.obs, fmt.Sprintf("goaway:%d", uint32(f.ErrCode)))
			if f.ErrCode != ErrCodeNo {
				c.dead = true
			}
		case *SettingsFrame:
			if f.IsAck() {
				c.obs = append(c.obs, "ack")
			} else {
				c.obs = append(c.obs, "frame")
				c.tc.writeSettingsAck()
				synctest.Wait()
			}
		case *WindowUpdateFrame:
			c.obs = append(c.obs, fmt.Sprintf("wuout:%d:%d", f.Header().StreamID, f.Increment))
		default:
			c.obs = append(c.obs, "frame")
		}
	}
}

func (c *c9Conn) settle() {
	synctest.Wait()
	c.drain()
}

func (c *c9Conn) quiescent(where string) {
	if c.dead {
		return
	}
	for _, s := range c.sorted() {
		if !s.open {
			continue
		}
		pending := s.committed - s.received
		switch {
		case s.cancelled:
			c.o.Stat("quiesce:cancelled-stream")
		case s.diverged:
			c.o.Stat("quiesce:diverged-stream")
		case pending > 0:
			if s.win > 0 && c.conn > 0 {
				c.o.Fail("", fmt.Sprintf("%s: stream %d has %d request-body bytes pending although the stream window (%d) and the connection window (%d) are both positive", where, s.id, pending, s.win, c.conn))
			} else if s.win <= 0 {
				c.o.Stat("quiesce:blocked-on-stream-window")
				if s.win < 0 {
					c.o.Stat("quiesce:stream-window-negative")
				}
			} else {
				c.o.Stat("quiesce:blocked-on-conn-window")
			}
		case s.eof:
			c.o.Fail("", fmt.Sprintf("%s: stream %d: the request body has ended and every byte is on the wire but END_STREAM was not sent", where, s.id))
		case s.committed > 0:
			c.o.Stat("quiesce:all-sent")
		}
	}
	if c.tc.cc != nil {
		conn, iw, mfs, ids, wins := c.tc.cc.VerifC09View()
		if int64(conn) != c.conn {
			c.o.Fail("", fmt.Sprintf("%s: client's connection send window %d differs from the server's view %d", where, conn, c.conn))
		}
		if int64(iw) != c.initWin {
			c.o.Fail("", fmt.Sprintf("%s: client's initial stream send window %d differs from the server's SETTINGS %d", where, iw, c.initWin))
		}
		if int64(mfs) != c.maxFrame {
			c.o.Fail("", fmt.Sprintf("%s: client's max frame size %d differs from the server's SETTINGS %d", where, mfs, c.maxFrame))
		}
		for i, id := range ids {
			s := c.streams[id]
			if s == nil || !s.open {
				continue
			}
			if !s.diverged && int64(wins[i]) != s.win {
				c.o.Fail("", fmt.Sprintf("%s: client's send window %d of stream %d differs from the server's view %d", where, wins[i], id, s.win))
			}
			if s.diverged && int64(wins[i]) > s.win {
				c.o.Fail("", fmt.Sprintf("%s: client's send window %d of stream %d is above the server's view %d", where, wins[i], id, s.win))
			}
		}
	}
}

func c9Exec(t *testing.T, ops []string, o *vu.Out) {
	var c *c9Conn
	defer func() {
		// release everything that is still blocked so that the bubble can end
		if c == nil {
			return
		}
		for _, s := range c.reqs {
			s.rt.cancel()
			s.body.Close()
		}
		c.tc.closeWrite()
		synctest.Wait()
	}()
	// every recorded case starts with the line "begin" (tells the Lean driver to forget the previous case)
	if len(ops) == 0 || strings.TrimSpace(ops[0]) != "begin" {
		o.Op("begin", "ok")
	}
	for i, op := range ops {
		base := strings.TrimSpace(strings.SplitN(op, "=>", 2)[0])
		f := strings.Fields(base)
		if len(f) == 0 {
			o.Op(op, "bad-op")
			continue
		}
		if base == "begin" {
			if i == 0 {
				o.Op("begin", "ok")
			} else {
				o.Op(op, "bad-op")
			}
			continue
		}
		if f[0] == "reset" {
			if len(f) != 2 || f[1] != "client" || c != nil {
				o.Op(op, "bad-op")
				continue
			}
			c = &c9Conn{t: t, o: o, conn: 65535, initWin: 65535, maxFrame: 16384,
				reqs: map[int]*c9Stream{}, streams: map[uint32]*c9Stream{}}
			c.tc = newTestClientConn(t)
			c.tc.fr.AllowIllegalWrites = true
			o.Stat("op:reset")
			c.settle()
			line := base
			if len(c.obs) > 0 {
				line += " => " + strings.Join(c.obs, " ")
			}
			o.Op(line, "ok")
			continue
		}
		if c == nil {
			o.Op(op, "bad-op")
			continue
		}
		if c.dead {
			o.Op(base, "ok")
			continue
		}
		c.obs = nil
		valid := true
		switch f[0] {
		case "settings":
			if len(f) != 3 {
				valid = false
				break
			}
			var ss []Setting
			mfs, hasM := c8OptInt(f[1])
			iw, hasI := c8OptInt(f[2])
			if (hasM && (mfs < 0 || mfs > 1<<32-1)) || (hasI && (iw < 0 || iw > 1<<32-1)) {
				valid = false
				break
			}
			bad := false
			if hasM {
				ss = append(ss, Setting{ID: SettingMaxFrameSize, Val: uint32(mfs)})
				if mfs < c8MinMFS || mfs > c8MaxMFS {
					bad = true
					o.Stat("branch:settings-invalid-mfs")
				} else {
					c.maxFrame = mfs
				}
			}
			if hasI && !bad {
				if iw > c8MaxWin {
					bad = true
					o.Stat("branch:settings-invalid-iw")
				} else {
					d := iw - c.initWin
					c.initWin = iw
					for _, s := range c.streams {
						if s.open {
							s.win += d
							if s.win > c8MaxWin {
								// RFC 9113 6.9.2 wants FLOW_CONTROL_ERROR; the Transport ignores the failed add
								s.diverged = true
								o.Stat("branch:settings-overflows-stream-window")
							}
							if s.win < 0 {
								o.Stat("branch:settings-drives-window-negative")
							}
						}
					}
				}
			}
			if hasI {
				ss = append(ss, Setting{ID: SettingInitialWindowSize, Val: uint32(iw)})
			}
			c.tc.writeSettings(ss...)
			c.settle()
			if bad && !c.dead {
				o.Fail("", fmt.Sprintf("%q: illegal SETTINGS were not answered with a connection error", base))
				c.dead = true
			}
		case "wu":
			if len(f) != 3 {
				valid = false
				break
			}
			sid, inc := uint32(vu.Atoi64(f[1])), vu.Atoi64(f[2])
			if inc < 0 || inc > c8MaxWin {
				valid = false
				break
			}
			expectDead, expectRst := false, false
			if sid == 0 {
				c.conn += inc
				if inc == 0 || c.conn > c8MaxWin {
					expectDead = true
					o.Stat("branch:wu-conn-illegal")
				}
			} else if s := c.streams[sid]; s != nil && s.open {
				s.win += inc
				if inc == 0 || (s.win > c8MaxWin && !s.diverged) {
					expectRst = true
					o.Stat("branch:wu-stream-illegal")
				}
			}
			c.tc.writeWindowUpdate(sid, uint32(inc))
			c.settle()
			if expectDead && !c.dead {
				o.Fail("", fmt.Sprintf("%q: illegal connection-level WINDOW_UPDATE was not answered with a connection error", base))
				c.dead = true
			}
			if expectRst {
				if s := c.streams[sid]; s.open && !c.dead {
					o.Fail("", fmt.Sprintf("%q: illegal stream-level WINDOW_UPDATE was not answered with RST_STREAM", base))
					s.open = false
				}
			}
		case "req":
			if len(f) != 3 {
				valid = false
				break
			}
			k := int(vu.Atoi64(f[1]))
			if c.reqs[k] != nil {
				c.obs = append(c.obs, "skip")
				break
			}
			s := &c9Stream{k: k}
			s.body = newC9Body()
			req, _ := http.NewRequest("POST", "https://dummy.tld/", s.body)
			c.reqs[k] = s
			c.pendingK = append(c.pendingK, s)
			s.rt = c.tc.roundTrip(req)
			c.settle()
		case "body":
			if len(f) != 3 {
				valid = false
				break
			}
			s := c.reqs[int(vu.Atoi64(f[1]))]
			n := vu.Atoi64(f[2])
			if n < 1 || n > c8MaxWrite {
				valid = false
				break
			}
			if s == nil || !s.open || s.eof {
				c.obs = append(c.obs, "skip")
				break
			}
			s.committed += n
			s.body.add(int(n))
			c.settle()
		case "eof":
			if len(f) != 2 {
				valid = false
				break
			}
			s := c.reqs[int(vu.Atoi64(f[1]))]
			if s == nil || !s.open || s.eof {
				c.obs = append(c.obs, "skip")
				break
			}
			s.eof = true
			s.body.end()
			c.settle()
		case "cancel":
			if len(f) != 2 {
				valid = false
				break
			}
			s := c.reqs[int(vu.Atoi64(f[1]))]
			if s == nil || !s.open {
				c.obs = append(c.obs, "skip")
				break
			}
			// A request whose body writer is parked in awaitFlowControl after RoundTrip has returned
			// notices the cancellation only at the next cc.cond broadcast, so the RST_STREAM may come
			// with a later step; until then the stream stays open for the monitor.
			s.cancelled = true
			s.rt.cancel()
			c.settle()
			if !s.open {
				o.Stat("branch:cancel-reset-immediately")
			} else {
				o.Stat("branch:cancel-reset-delayed")
			}
		case "prst":
			if len(f) != 2 {
				valid = false
				break
			}
			sid := uint32(vu.Atoi64(f[1]))
			s := c.streams[sid]
			if s == nil {
				c.obs = append(c.obs, "skip")
				break
			}
			s.open = false
			c.tc.writeRSTStream(sid, ErrCodeCancel)
			c.settle()
		case "resp":
			if len(f) != 3 {
				valid = false
				break
			}
			sid := uint32(vu.Atoi64(f[1]))
			s := c.streams[sid]
			if s == nil || !s.open {
				c.obs = append(c.obs, "skip")
				break
			}
			c.tc.writeHeaders(HeadersFrameParam{StreamID: sid, EndHeaders: true, EndStream: f[2] == "1",
				BlockFragment: c.tc.makeHeaderBlockFragment(":status", "200")})
			c.settle()
		case "quiesce":
			if len(f) != 1 {
				valid = false
				break
			}
			c.settle()
		default:
			valid = false
		}
		if !valid {
			o.Op(op, "bad-op")
			continue
		}
		o.Stat("op:" + f[0])
		c.quiescent(fmt.Sprintf("after %q", base))
		line := base
		if len(c.obs) > 0 {
			line += " => " + strings.Join(c.obs, " ")
		}
		o.Op(line, "ok")
	}
}

// ---------------------------------------------------------------- generator

type c9gs struct {
	k, id    int
	win      int64
	pending  int64
	open     bool
	eof      bool
	diverged bool
}

func c9Gen(r *vu.Rng, i int) []string {
	var ops []string
	add := func(format string, a ...any) { ops = append(ops, fmt.Sprintf(format, a...)) }
	add("reset client")
	conn, initWin, maxFrame := int64(65535), int64(65535), int64(16384)
	var streams []*c9gs
	dead := false
	nextK, nextID := 0, 1
	optS := func(v int64, has bool) string {
		if !has {
			return "-"
		}
		return fmt.Sprint(v)
	}
	flush := func() {
		for _, s := range streams {
			if !s.open {
				continue
			}
			n := s.pending
			if s.win < n {
				n = s.win
			}
			if conn < n {
				n = conn
			}
			if n > 0 {
				s.pending -= n
				s.win -= n
				conn -= n
			}
			if s.pending == 0 && s.eof {
				s.open = false
			}
		}
	}
	settings := func(first bool) {
		hasM, hasI := r.Chance(1, 3), r.Chance(3, 4)
		if first {
			hasM, hasI = r.Chance(1, 2), r.Chance(5, 6)
		}
		var mfs, iw int64
		if hasM {
			mfs = c8PickMFS(r)
			if r.Chance(1, 60) {
				mfs = []int64{16383, 1 << 24, 0, 1<<32 - 1}[r.Intn(4)]
			}
		}
		if hasI {
			iw = c8PickIW(r)
			if !first && r.Chance(1, 3) {
				for _, s := range streams {
					if s.open {
						switch r.Intn(4) {
						case 0:
							iw = initWin - s.win - int64(r.Range(0, 3))
						case 1:
							iw = initWin + (c8MaxWin - s.win) + int64(r.Range(-1, 1))
						case 2:
							iw = initWin - int64(r.Range(1, 70000))
						default:
							iw = initWin + s.pending + int64(r.Range(-1, 1))
						}
						break
					}
				}
				if iw < 0 {
					iw = 0
				}
				if iw > c8MaxWin {
					iw = c8MaxWin
				}
			}
			if r.Chance(1, 60) {
				iw = []int64{1 << 31, 1<<32 - 1}[r.Intn(2)]
			}
		}
		add("settings %s %s", optS(mfs, hasM), optS(iw, hasI))
		if hasM {
			if mfs < c8MinMFS || mfs > c8MaxMFS {
				dead = true
				return
			}
			maxFrame = mfs
		}
		if hasI {
			if iw > c8MaxWin {
				dead = true
				return
			}
			d := iw - initWin
			initWin = iw
			for _, s := range streams {
				if s.open {
					if s.win+d > c8MaxWin {
						s.diverged = true // the client keeps its old counter
					} else {
						s.win += d
					}
				}
			}
		}
		flush()
	}
	openStream := func() *c9gs {
		s := &c9gs{k: nextK, id: nextID, win: initWin, open: true}
		nextK++
		nextID += 2
		streams = append(streams, s)
		add("req %d -1", s.k)
		return s
	}
	pick := func() *c9gs {
		var live []*c9gs
		for _, s := range streams {
			if s.open {
				live = append(live, s)
			}
		}
		if len(live) == 0 || (len(live) < c8MaxStreams && r.Chance(1, 6)) {
			return openStream()
		}
		return live[r.Intn(len(live))]
	}
	body := func(s *c9gs) {
		if s.eof {
			return
		}
		var n int64
		w := s.win
		if conn < w {
			w = conn
		}
		switch r.Intn(12) {
		case 0:
			n = w + int64(r.Range(-1, 1))
		case 1:
			n = maxFrame + int64(r.Range(-1, 1))
		case 2:
			n = int64(r.Range(1, 10))
		case 3:
			n = 2*maxFrame + int64(r.Range(-1, 1))
		case 4:
			n = int64(r.Range(1, 300000))
		case 5:
			n = w + int64(r.Range(1, 70000))
		default:
			n = int64(r.Range(1, 70000))
		}
		if n < 1 {
			n = 1
		}
		if n > c8MaxWrite {
			n = c8MaxWrite
		}
		if r.Chance(1, 8) && s.pending == 0 && s.win >= 0 && !s.diverged {
			// boundary of awaitFlowControl: available == len(chunk)+1 (and -0, +2 around it)
			m := int64(r.Range(1, 5000))
			if m > maxFrame {
				m = maxFrame
			}
			target := m + int64(r.Range(0, 2))
			if s.win < target && conn >= target {
				add("wu %d %d", s.id, target-s.win)
				s.win = target
				n = m
			}
		}
		add("body %d %d", s.k, n)
		s.pending += n
		flush()
	}
	wu := func() {
		var sid int
		var cur, pend int64
		var tgt *c9gs
		if r.Chance(2, 5) || len(streams) == 0 {
			sid, cur = 0, conn
			for _, s := range streams {
				if s.open {
					pend += s.pending
				}
			}
		} else {
			tgt = pick()
			sid, cur, pend = tgt.id, tgt.win, tgt.pending
		}
		var inc int64
		switch r.Intn(14) {
		case 0:
			inc = 1
		case 1:
			inc = pend
		case 2:
			inc = pend + int64(r.Range(-1, 1))
		case 3:
			inc = -cur + int64(r.Range(0, 2))
		case 4:
			inc = c8MaxWin - cur
		case 5:
			if r.Chance(1, 3) {
				inc = c8MaxWin - cur + int64(r.Range(1, 2))
			} else {
				inc = int64(r.Range(1, 20000))
			}
		case 6:
			if r.Chance(1, 4) {
				inc = 0
			} else {
				inc = maxFrame
			}
		case 7:
			inc = int64(r.Range(1, 100))
		default:
			inc = int64(r.Range(1, 140000))
		}
		if inc < 0 {
			inc = 0
		}
		if inc > c8MaxWin {
			inc = c8MaxWin
		}
		if inc == 0 && !r.Chance(1, 6) {
			inc = 1
		}
		add("wu %d %d", sid, inc)
		if tgt == nil {
			conn += inc
			if inc == 0 || conn > c8MaxWin {
				dead = true
			}
		} else {
			tgt.win += inc
			if inc == 0 || tgt.win > c8MaxWin {
				tgt.open = false
			}
		}
		flush()
	}
	settings(true)
	steps := r.Range(4, 36)
	if !dead {
		openStream()
	}
	for j := 0; j < steps && !dead; j++ {
		switch k := r.Intn(100); {
		case k < 34:
			body(pick())
		case k < 68:
			wu()
		case k < 82:
			settings(false)
		case k < 85:
			s := pick()
			add("prst %d", s.id)
			s.open = false
		case k < 88:
			s := pick()
			add("cancel %d", s.k)
			s.open = false
		case k < 93:
			s := pick()
			add("eof %d", s.k)
			s.eof = true
			flush()
		case k < 96:
			s := pick()
			fin := 0
			if r.Chance(1, 3) {
				fin = 1
				s.open = false
			}
			add("resp %d %d", s.id, fin)
		default:
			if len(streams) < c8MaxStreams {
				openStream()
			}
		}
	}
	if !dead && r.Chance(2, 3) {
		if conn < c8MaxWin {
			add("wu 0 %d", c8MaxWin-conn)
		}
		for _, s := range streams {
			if s.open && !s.diverged && s.win < s.pending && s.pending-s.win <= c8MaxWin {
				add("wu %d %d", s.id, s.pending-s.win)
			}
		}
	}
	add("quiesce")
	return ops
}
