//go:build verif

// C38 harness: dnsmessage.ResourceHeader SetEDNS0 / ExtendedRCode / DNSSECAllowed.
//
// ops:  edns <len> <ext> <do>   h.SetEDNS0(len, ext, do==1)
//
//	                        -> ok <Type> <Class> <TTL> <ExtendedRCode(ext&15)> <DNSSECAllowed>
//	xr <ttl> <rcode>        ResourceHeader{TTL: ttl}.ExtendedRCode(rcode)  -> ok <rcode>
//	do <ttl>                ResourceHeader{TTL: ttl}.DNSSECAllowed()       -> ok 0|1
//
// Cases 0..8191 enumerate every (ext < 4096, do) pair with boundary + sampled payload sizes
// (exhaustive over ext × do in every run with n >= 8192); the oracle additionally sweeps all
// 65536 payload sizes for each pair on the Go side (once per pair and run, ~4 s in total), so the
// Go-side statement of C38 is checked on the complete 4096 × 65536 × 2 domain in every run.
package main

import (
	"fmt"
	"strings"

	"golang.org/x/net/dns/dnsmessage"
	vu "golang.org/x/net/internal/verifutil"
)

var lenPool = []int{0, 1, 255, 256, 511, 512, 513, 1232, 1280, 1452, 4095, 4096, 4097, 32767, 32768, 65534, 65535}

func b2i(b bool) int {
	if b {
		return 1
	}
	return 0
}

func genLen(r *vu.Rng) int {
	switch r.Intn(3) {
	case 0:
		return lenPool[r.Intn(len(lenPool))]
	default:
		return r.Intn(65536)
	}
}

func genTTL(r *vu.Rng) uint32 {
	switch r.Intn(4) {
	case 0:
		// shape written by SetEDNS0
		return uint32(r.Intn(256))<<24 | uint32(r.Intn(2))<<15
	case 1:
		// one stray bit in the version byte / Z field
		return uint32(r.Intn(256))<<24 | uint32(r.Intn(2))<<15 | 1<<uint(r.Intn(24))
	case 2:
		return uint32(r.Boundary(32))
	default:
		return uint32(r.Uint64())
	}
}

// genPrior: what a reused header may hold before SetEDNS0 is called on it.
func genPrior(r *vu.Rng) string {
	var ttl uint32
	switch r.Intn(8) {
	case 0:
		ttl = 0
	case 1:
		ttl = []uint32{60, 300, 3600, 32767, 32768, 86400, 604800, 2147483647, 0xffffffff, 0x00ff8000, 0x00010000}[r.Intn(11)]
	case 2:
		// an earlier OPT header (any ext, DO set or not, maybe a non-zero version / Z bits)
		ttl = uint32(r.Intn(256))<<24 | uint32(r.Intn(2))<<15
		if r.Chance(1, 3) {
			ttl |= uint32(r.Intn(256))<<16 | uint32(r.Intn(1<<15))
		}
	case 3:
		ttl = 1 << uint(r.Intn(32))
	default:
		ttl = genTTL(r)
	}
	typ := []int{41, 1, 28, 16, r.Intn(65536)}[r.Intn(5)]
	cls := []int{1, 0, 1232, 65535, r.Intn(65536)}[r.Intn(5)]
	return fmt.Sprintf("hdr %d %d %d", typ, cls, ttl)
}

func gen(r *vu.Rng, i int) []string {
	if i < 8192 {
		// every (ext, do) pair: on the fresh header, then on a dirty one, then a history of calls on
		// the same header with DO flipped and other RCodes in between
		ext, do := i%4096, i/4096
		ops := []string{
			fmt.Sprintf("edns 0 %d %d", ext, do),
			fmt.Sprintf("edns 65535 %d %d", ext, 1-do),
			fmt.Sprintf("edns %d %d %d", genLen(r), ext, do),
			genPrior(r),
			fmt.Sprintf("edns %d %d %d", genLen(r), ext, do),
			fmt.Sprintf("edns %d %d %d", genLen(r), r.Intn(4096), r.Intn(2)),
			fmt.Sprintf("edns %d %d %d", genLen(r), ext, 1-do),
			fmt.Sprintf("edns %d %d %d", genLen(r), ext, do),
		}
		return ops
	}
	switch r.Intn(8) {
	case 6, 7:
		// history on one header: prior contents, then several calls
		ops := []string{genPrior(r)}
		for k, n := 0, 1+r.Intn(4); k < n; k++ {
			if r.Chance(1, 6) {
				ops = append(ops, genPrior(r))
			}
			ops = append(ops, fmt.Sprintf("edns %d %d %d", genLen(r), r.Intn(4096), r.Intn(2)))
		}
		return ops
	case 0:
		// outside the representable range: uint16 ext >= 4096, int len >= 65536
		ext := r.Intn(65536)
		l := genLen(r)
		if r.Bool() {
			l = int(r.Boundary(31))
		}
		return []string{fmt.Sprintf("edns %d %d %d", l, ext, r.Intn(2))}
	case 1:
		return []string{fmt.Sprintf("edns %d %d %d", genLen(r), r.Intn(4096), r.Intn(2))}
	case 2, 3:
		rc := r.Intn(16)
		if r.Chance(1, 4) {
			rc = r.Intn(65536)
		}
		return []string{fmt.Sprintf("xr %d %d", genTTL(r), rc)}
	default:
		return []string{fmt.Sprintf("do %d", genTTL(r))}
	}
}

var dirtyName = dnsmessage.MustNewName("reused.example.")

func exec(ops []string, o *vu.Out) {
	var h dnsmessage.ResourceHeader // the one header of this case
	for _, op := range ops {
		t := strings.Fields(op)
		switch {
		case len(t) == 4 && t[0] == "hdr":
			typ, cls, ttl := vu.Atoi(t[1]), vu.Atoi(t[2]), vu.Atou64(t[3])
			if typ < 0 || typ > 65535 || cls < 0 || cls > 65535 || ttl > 0xffffffff {
				o.Op(op, "bad-op")
				continue
			}
			o.Stat("op:hdr")
			h = dnsmessage.ResourceHeader{Name: dirtyName, Type: dnsmessage.Type(typ), Class: dnsmessage.Class(cls), TTL: uint32(ttl), Length: 7}
			o.Op(op, "ok")
		case len(t) == 4 && t[0] == "edns":
			l, ext, do := vu.Atoi64(t[1]), vu.Atoi(t[2]), vu.Atoi(t[3])
			if l < 0 || ext < 0 || ext > 65535 || do < 0 || do > 1 {
				o.Op(op, "bad-op")
				continue
			}
			o.Op(op, vu.Catch(func() string {
				prior := h
				if prior.TTL != 0 || prior.Class != 0 || prior.Type != 0 {
					o.Stat("edns:on-reused-header")
				} else {
					o.Stat("edns:on-fresh-header")
				}
				if err := h.SetEDNS0(int(l), dnsmessage.RCode(ext), do == 1); err != nil {
					return "err"
				}
				xr := h.ExtendedRCode(dnsmessage.RCode(ext & 0xf))
				da := h.DNSSECAllowed()
				oracleReuse(int(l), ext, do == 1, &prior, &h, o)
				oracle(int(l), ext, do == 1, &h, o)
				return fmt.Sprintf("ok %d %d %d %d %d", h.Type, h.Class, h.TTL, xr, b2i(da))
			}))
		case len(t) == 3 && t[0] == "xr":
			ttl, rc := vu.Atou64(t[1]), vu.Atoi(t[2])
			if ttl > 0xffffffff || rc < 0 || rc > 65535 {
				o.Op(op, "bad-op")
				continue
			}
			o.Stat("op:xr")
			o.Op(op, vu.Catch(func() string {
				h := dnsmessage.ResourceHeader{TTL: uint32(ttl)}
				got := h.ExtendedRCode(dnsmessage.RCode(rc))
				// naive reference: version byte 0 -> upper 8 bits from TTL[31:24]; else unchanged
				want := dnsmessage.RCode(rc)
				if (ttl>>16)&0xff == 0 {
					want = dnsmessage.RCode((ttl>>24)<<4) | dnsmessage.RCode(rc)
				}
				if got != want {
					o.Fail("", fmt.Sprintf("TTL=%#x ExtendedRCode(%d)=%d want %d", ttl, rc, got, want))
				}
				return fmt.Sprintf("ok %d", got)
			}))
		case len(t) == 2 && t[0] == "do":
			ttl := vu.Atou64(t[1])
			if ttl > 0xffffffff {
				o.Op(op, "bad-op")
				continue
			}
			o.Stat("op:do")
			o.Op(op, vu.Catch(func() string {
				h := dnsmessage.ResourceHeader{TTL: uint32(ttl)}
				got := h.DNSSECAllowed()
				want := (ttl>>16)&0xff == 0 && (ttl>>15)&1 == 1
				if got != want {
					o.Fail("", fmt.Sprintf("TTL=%#x DNSSECAllowed=%v want %v", ttl, got, want))
				}
				return fmt.Sprintf("ok %d", b2i(got))
			}))
		default:
			o.Op(op, "bad-op")
		}
	}
}

// oracleReuse: SetEDNS0 configures the header; what the header held before must not matter.
// The expectation is computed from the RFC 6891 layout, not from the implementation.
func oracleReuse(l, ext int, do bool, prior, h *dnsmessage.ResourceHeader, o *vu.Out) {
	wantTTL := uint32(ext>>4&0xff) << 24
	if do {
		wantTTL |= 0x8000
	}
	where := fmt.Sprintf("SetEDNS0(%d,%d,%v) on a header with prior Type=%d Class=%d TTL=%d", l, ext, do, prior.Type, prior.Class, prior.TTL)
	if h.TTL != wantTTL {
		o.Fail("", fmt.Sprintf("%s: TTL=%#x want %#x; DNSSECAllowed=%v ExtendedRCode(%d)=%d", where, h.TTL, wantTTL,
			h.DNSSECAllowed(), ext&0xf, h.ExtendedRCode(dnsmessage.RCode(ext&0xf))))
	}
	if h.DNSSECAllowed() != do {
		o.Fail("", fmt.Sprintf("%s: DNSSECAllowed=%v", where, h.DNSSECAllowed()))
	}
	if ext < 4096 && int(h.ExtendedRCode(dnsmessage.RCode(ext&0xf))) != ext {
		o.Fail("", fmt.Sprintf("%s: ExtendedRCode=%d", where, h.ExtendedRCode(dnsmessage.RCode(ext&0xf))))
	}
	if h.Type != dnsmessage.TypeOPT || h.Class != dnsmessage.Class(l) || h.Name.Length != 1 || h.Name.Data[0] != '.' {
		o.Fail("", fmt.Sprintf("%s: Type=%v Class=%d Name=%q", where, h.Type, h.Class, h.Name.String()))
	}
}

// checkOne states C38 on the implementation for one (len, ext, do) in the representable range,
// on a header whose previous contents vary with len (fresh for len 0, dirty otherwise).
func checkOne(l, ext int, do bool) string {
	h := dnsmessage.ResourceHeader{Type: dnsmessage.Type(l), Class: dnsmessage.Class(^l), TTL: uint32(l) * 0x9e3779b1}
	if l%2 == 1 {
		h.Name = dirtyName
	}
	if err := h.SetEDNS0(l, dnsmessage.RCode(ext), do); err != nil {
		return "SetEDNS0 returned an error"
	}
	if got := h.ExtendedRCode(dnsmessage.RCode(ext & 0xf)); int(got) != ext {
		return fmt.Sprintf("ExtendedRCode=%d", got)
	}
	if got := h.DNSSECAllowed(); got != do {
		return fmt.Sprintf("DNSSECAllowed=%v", got)
	}
	if int(h.Class) != l {
		return fmt.Sprintf("Class=%d", h.Class)
	}
	if h.Type != dnsmessage.TypeOPT {
		return fmt.Sprintf("Type=%v", h.Type)
	}
	if h.Name.Length != 1 || h.Name.Data[0] != '.' {
		return fmt.Sprintf("Name=%q", h.Name.String())
	}
	return ""
}

var swept = map[int]bool{}

func oracle(l, ext int, do bool, h *dnsmessage.ResourceHeader, o *vu.Out) {
	if ext >= 4096 || l >= 65536 {
		o.Stat("edns:unrepresentable")
		// DO must survive even then
		if h.DNSSECAllowed() != do {
			o.Fail("", fmt.Sprintf("len=%d ext=%d do=%v: DNSSECAllowed=%v", l, ext, do, h.DNSSECAllowed()))
		}
		return
	}
	o.Stat("edns:representable")
	if msg := checkOne(l, ext, do); msg != "" {
		o.Fail("", fmt.Sprintf("len=%d ext=%d do=%v on a header with prior TTL=%d: %s", l, ext, do, uint32(l)*0x9e3779b1, msg))
	}
	{
		key := ext<<1 | b2i(do)
		if !swept[key] {
			swept[key] = true
			o.Stat("edns:full-length-sweeps")
			for ll := 0; ll < 65536; ll++ {
				if msg := checkOne(ll, ext, do); msg != "" {
					o.Fail("", fmt.Sprintf("len=%d ext=%d do=%v on a header with prior TTL=%d: %s", ll, ext, do, uint32(ll)*0x9e3779b1, msg))
					break
				}
			}
		}
	}
}

func main() { vu.Main(gen, exec) }
