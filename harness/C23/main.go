//go:build verif

// C23 harness: quic packet-number length selection, truncated encoding and decoding.
//
// ops:  len <pn> <A>        packetNumberLength(pn, A)                       -> ok <n>
//
//	app <pn> <A>        appendPacketNumber(nil, pn, A)                  -> ok x<hex>
//	dec <L> <t> <n>     decodePacketNumber(L, t, n), 0<=t<2^(8n), n=1..4 -> ok <pn>
//	rt <A> <L> <pn>     sender encodes pn given A, receiver with largest L decodes
//	                                                                    -> ok <n> x<hex> <decoded>
package main

import (
	"fmt"
	"strings"

	vu "golang.org/x/net/internal/verifutil"
	"golang.org/x/net/quic"
)

const maxPN = int64(1)<<62 - 1

// edges of the length classes and of the half windows
var gaps = []int64{1, 2, 0x7e, 0x7f, 0x80, 0x81, 0xff, 0x100, 0x101, 0x7ffe, 0x7fff, 0x8000, 0x8001, 0xffff, 0x10000,
	0x7ffffe, 0x7fffff, 0x800000, 0x800001, 0xffffff, 0x1000000, 0x7ffffffe, 0x7fffffff}
var hugeGaps = []int64{0x80000000, 0x80000001, 0x80000002, 0xffffffff, 0x100000000, 0x100000001, 0x180000002, 1 << 40, 1 << 61}

func genPN(r *vu.Rng) int64 {
	switch r.Intn(6) {
	case 0:
		return maxPN - int64(r.Intn(4))
	case 1:
		return int64(r.Intn(70000))
	default:
		return int64(r.Boundary(62))
	}
}

func clampPN(v int64) int64 {
	if v < 0 {
		return 0
	}
	if v > maxPN {
		return maxPN
	}
	return v
}

// genGap: mostly below 2^31 (where the property holds), sometimes in the huge region.
func genGap(r *vu.Rng) int64 {
	switch r.Intn(10) {
	case 0, 1, 2, 3:
		return gaps[r.Intn(len(gaps))]
	case 4:
		return hugeGaps[r.Intn(len(hugeGaps))]
	case 5:
		return 1 + int64(r.Uint64()>>uint(2+r.Intn(62))) // any magnitude below 2^62
	default:
		return 1 + int64(r.Uint64()>>uint(33+r.Intn(31))) // below 2^31
	}
}

func gen(r *vu.Rng, i int) []string {
	switch r.Intn(10) {
	case 0:
		// arbitrary pair, including A >= pn (outside the contract; d <= 0 selects 1 byte)
		pn, a := genPN(r), genPN(r)
		if r.Chance(1, 8) {
			a = -1
		}
		if r.Bool() {
			return []string{fmt.Sprintf("len %d %d", pn, a)}
		}
		return []string{fmt.Sprintf("app %d %d", pn, a)}
	case 1:
		pn := genPN(r)
		a := pn - genGap(r)
		if a < -1 {
			a = -1
		}
		return []string{fmt.Sprintf("len %d %d", pn, a), fmt.Sprintf("app %d %d", pn, a)}
	case 2, 3, 4:
		// decoder on arbitrary input: L anywhere, truncated anywhere in the window, boundary-biased
		n := 1 + r.Intn(4)
		win := int64(1) << (8 * uint(n))
		l := genPN(r)
		if r.Chance(1, 10) {
			l = -1
		}
		var t int64
		switch r.Intn(4) {
		case 0:
			t = int64(r.Uint64() % uint64(win))
		case 1:
			// near (L+1) mod win +- hwin: the two guard edges
			base := (l + 1) % win
			d := []int64{-2, -1, 0, 1, 2}[r.Intn(5)]
			if r.Bool() {
				base += win / 2
			}
			t = ((base+d)%win + win) % win
		case 2:
			t = []int64{0, 1, win/2 - 1, win / 2, win/2 + 1, win - 2, win - 1}[r.Intn(7)]
		default:
			t = int64(r.Intn(300)) % win
		}
		return []string{fmt.Sprintf("dec %d %d %d", l, t, n)}
	default:
		// round trip: A < pn, A <= L < pn
		pn := genPN(r)
		if pn == 0 {
			pn = 1 + int64(r.Intn(1000))
		}
		a := pn - genGap(r)
		if a < -1 {
			a = -1
		}
		l := a
		switch r.Intn(4) {
		case 0:
			l = a
		case 1:
			l = pn - 1
		case 2:
			l = a + int64(r.Uint64()%uint64(pn-a))
		default:
			l = a + int64(r.Intn(3))
			if l >= pn {
				l = pn - 1
			}
		}
		if l < a {
			l = a
		}
		if l < 0 && a < 0 {
			// receiver has seen nothing either
			l = -1
		}
		return []string{fmt.Sprintf("rt %d %d %d", a, l, pn)}
	}
}

func be(b []byte) int64 {
	var v int64
	for _, x := range b {
		v = v<<8 | int64(x)
	}
	return v
}

func inSpace(v int64, lo int64) bool { return v >= lo && v <= maxPN }

func exec(ops []string, o *vu.Out) {
	for _, op := range ops {
		t := strings.Fields(op)
		if len(t) < 1 {
			o.Op(op, "bad-op")
			continue
		}
		switch {
		case t[0] == "len" && len(t) == 3:
			pn, a := vu.Atoi64(t[1]), vu.Atoi64(t[2])
			o.Stat("op:len")
			o.Op(op, vu.Catch(func() string { return fmt.Sprintf("ok %d", quic.VerifPacketNumberLength(pn, a)) }))
		case t[0] == "app" && len(t) == 3:
			pn, a := vu.Atoi64(t[1]), vu.Atoi64(t[2])
			o.Stat("op:app")
			o.Op(op, vu.Catch(func() string {
				b := quic.VerifAppendPacketNumber(nil, pn, a)
				if len(b) != quic.VerifPacketNumberLength(pn, a) {
					o.Fail("", fmt.Sprintf("appendPacketNumber(%d,%d) wrote %d bytes, packetNumberLength says %d", pn, a, len(b), quic.VerifPacketNumberLength(pn, a)))
				}
				return "ok " + vu.Hex(b)
			}))
		case t[0] == "dec" && len(t) == 4:
			l, tr, n := vu.Atoi64(t[1]), vu.Atoi64(t[2]), vu.Atoi(t[3])
			if !inSpace(l, -1) || n < 1 || n > 4 || tr < 0 || tr >= int64(1)<<(8*uint(n)) {
				o.Op(op, "bad-op")
				continue
			}
			o.Stat("op:dec")
			o.Op(op, vu.Catch(func() string {
				got := quic.VerifDecodePacketNumber(l, tr, n)
				oracleDecode(l, tr, n, got, o)
				return fmt.Sprintf("ok %d", got)
			}))
		case t[0] == "rt" && len(t) == 4:
			a, l, pn := vu.Atoi64(t[1]), vu.Atoi64(t[2]), vu.Atoi64(t[3])
			if !inSpace(a, -1) || !inSpace(l, -1) || !inSpace(pn, 0) {
				o.Op(op, "bad-op")
				continue
			}
			o.Op(op, vu.Catch(func() string {
				n := quic.VerifPacketNumberLength(pn, a)
				enc := quic.VerifAppendPacketNumber(nil, pn, a)
				if len(enc) < 1 || len(enc) > 4 {
					o.Fail("", fmt.Sprintf("appendPacketNumber(%d,%d) wrote %d bytes", pn, a, len(enc)))
					return "ok " + fmt.Sprint(n) + " " + vu.Hex(enc) + " -"
				}
				got := quic.VerifDecodePacketNumber(l, be(enc), len(enc))
				oracleRoundTrip(a, l, pn, n, enc, got, o)
				return fmt.Sprintf("ok %d %s %d", n, vu.Hex(enc), got)
			}))
		default:
			o.Op(op, "bad-op")
		}
	}
}

// oracleDecode: RFC 9000 A.3 stated independently. Among the numbers congruent to t modulo win
// inside [0, 2^62), the decoder must return the one closest to L+1 (ties: the window
// (expected-hwin, expected+hwin]), unless that one is outside the space.
func oracleDecode(l, tr int64, n int, got int64, o *vu.Out) {
	win := int64(1) << (8 * uint(n))
	if got < 0 || got%win != tr {
		o.Fail("", fmt.Sprintf("decodePacketNumber(%d,%d,%d)=%d is not congruent to the truncated number", l, tr, n, got))
		return
	}
	exp := l + 1
	// the unique x ≡ tr (mod win) with exp-hwin < x <= exp+hwin
	x := exp - exp%win + tr
	if x <= exp-win/2 {
		x += win
	} else if x > exp+win/2 {
		x -= win
	}
	if c := exp - exp%win + tr; got == c+win && got > maxPN {
		o.Fail("", fmt.Sprintf("decodePacketNumber(%d,%d,%d)=%d: moved up one window out of the packet-number space", l, tr, n, got))
	}
	if x >= 0 && x <= maxPN && got != x {
		o.Fail("", fmt.Sprintf("decodePacketNumber(%d,%d,%d)=%d, the in-window candidate is %d", l, tr, n, got, x))
	}
}

// oracleRoundTrip states C23 on the implementation. Domain: -1 <= A < pn, A <= L < pn.
func oracleRoundTrip(a, l, pn int64, n int, enc []byte, got int64, o *vu.Out) {
	if !(a < pn && a <= l && l < pn) {
		return
	}
	win := int64(1) << (8 * uint(len(enc)))
	gap := pn - a
	windowOK := len(enc) == n && 2*gap < win
	decodeOK := got == pn
	if gap >= 1<<31 {
		o.Stat("region:huge-gap")
		// literal reading of C23 fails here: packetNumberLength's default branch returns 4
		if !windowOK {
			o.Fail("gap-ge-2^31", fmt.Sprintf("A=%d pn=%d: gap %d >= 2^31 but %d bytes chosen (half window %d); receiver L=%d decodes %d (%v)",
				a, pn, gap, len(enc), win/2, l, got, decodeOK))
		} else if !decodeOK {
			o.Fail("gap-ge-2^31", fmt.Sprintf("A=%d L=%d pn=%d decoded as %d", a, l, pn, got))
		}
		return
	}
	o.Stat(fmt.Sprintf("region:ok-len%d", n))
	if !windowOK {
		o.Fail("", fmt.Sprintf("A=%d pn=%d: gap %d not below half of the %d-byte window", a, pn, gap, len(enc)))
	}
	if !decodeOK {
		o.Fail("", fmt.Sprintf("A=%d L=%d pn=%d: %x decoded as %d", a, l, pn, enc, got))
	}
	// minimality: one byte fewer would not leave the gap below half the window
	if n > 1 && 2*gap < int64(1)<<(8*uint(n-1)) {
		o.Fail("", fmt.Sprintf("A=%d pn=%d: %d bytes chosen although %d suffice", a, pn, n, n-1))
	}
}

func main() { vu.Main(gen, exec) }
