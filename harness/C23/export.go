//go:build verif

package quic

// White-box shims for the C23 harness (injected with -overlay; never written to /repo).

func VerifPacketNumberLength(pnum, largestAck int64) int {
	return packetNumberLength(packetNumber(pnum), packetNumber(largestAck))
}

func VerifAppendPacketNumber(b []byte, pnum, largestAck int64) []byte {
	return appendPacketNumber(b, packetNumber(pnum), packetNumber(largestAck))
}

func VerifDecodePacketNumber(largest, truncated int64, numLenInBytes int) int64 {
	return int64(decodePacketNumber(packetNumber(largest), packetNumber(truncated), numLenInBytes))
}

const VerifMaxPacketNumber = int64(maxPacketNumber)
