//go:build verif

// C29 harness (tie "quic"): stress of the unexported quic gate and queue[int] under many
// goroutines (injected as quic/zz_verif_c29_test.go); logs linearisation events for the Lean
// monitor (drv_C29).
//
// Each case is ONE op line `run gate <G> <K> <init> <s>` or `run queue <P> <C> <K> <mode> <s>`;
// vc29Exec runs the scenario on the real code and emits the recorded events (sorted by their global
// atomic sequence number) as further op lines with result `ok`. When a recorded trace is
// replayed, the vc29Event lines in the input are skipped: the `run` line re-executes the scenario.
package quic

import (
	"context"
	"errors"
	"fmt"
	"runtime"
	"sort"
	"strings"
	"sync"
	"sync/atomic"
	"testing"
	"time"

	vu "golang.org/x/net/internal/verifutil"
)

type vc29Event struct {
	seq int64
	s   string
}

type vc29Recorder struct{ evs []vc29Event }

var vc29Seq int64

// vc29HungOnce: a scenario hung; later cases are not run (each would cost the full watchdog time)
var vc29HungOnce bool // hungOnce

func (r *vc29Recorder) log(format string, a ...any) {
	r.evs = append(r.evs, vc29Event{atomic.AddInt64(&vc29Seq, 1), fmt.Sprintf(format, a...)})
}

type vc29Failures struct {
	mu sync.Mutex
	l  [][2]string
}

func (f *vc29Failures) add(sig, desc string) {
	f.mu.Lock()
	if len(f.l) < 20 {
		f.l = append(f.l, [2]string{sig, desc})
	}
	f.mu.Unlock()
}

func vc29Yield(r *vu.Rng, max int) {
	for n := r.Intn(max + 1); n > 0; n-- {
		runtime.Gosched()
	}
}

func vc29B2i(b bool) int {
	if b {
		return 1
	}
	return 0
}

// vc29LongGets: history lengths around typical internal thresholds (64/256/1024 ± 1) and beyond.
var vc29LongGets = []int{63, 64, 65, 255, 256, 257, 300, 600, 1023, 1024, 1025, 1500}

func vc29Gen(r *vu.Rng, i int) []string {
	if r.Chance(1, 100) {
		// long sequential history on ONE queue with a standing backlog (never drains in between)
		return []string{fmt.Sprintf("run qlong %d %d %d %d", r.Intn(3), vc29LongGets[r.Intn(len(vc29LongGets))],
			[]int{1, 2, 5, 40, 300}[r.Intn(5)], r.Uint64()>>1)}
	}
	if r.Bool() {
		return []string{fmt.Sprintf("run gate %d %d %d %d", r.Range(2, 8), r.Range(1, 12), r.Intn(2), r.Uint64()>>1)}
	}
	return []string{fmt.Sprintf("run queue %d %d %d %d %d", r.Range(1, 4), r.Range(1, 4), r.Range(1, 10), r.Intn(2), r.Uint64()>>1)}
}

// vc29RunGate runs G goroutines × K iterations on one gate.
func vc29RunGate(G, K int, init bool, s uint64, stats map[string]int) ([]vc29Event, [][2]string) {
	if vc29HungOnce {
		return nil, nil
	}
	g := newGate()
	if init {
		g.lock()
		g.unlock(true)
	}
	var inCS int32
	cond := init // written only inside the critical section
	fails := &vc29Failures{}
	recs := make([]*vc29Recorder, G)
	st := make([]map[string]int, G)
	var wg, helpers sync.WaitGroup
	for gid := 0; gid < G; gid++ {
		recs[gid] = &vc29Recorder{}
		st[gid] = map[string]int{}
		wg.Add(1)
		go func(gid int) {
			defer wg.Done()
			defer func() {
				if e := recover(); e != nil {
					fails.add("panic", fmt.Sprint(e))
				}
			}()
			rng := vu.NewRng(s ^ (uint64(gid)+1)*0x9e3779b97f4a7c15)
			rec := recs[gid]
			for it := 0; it < K; it++ {
				vc29Yield(rng, 3)
				acquired := false
				switch op := rng.Intn(10); {
				case op < 4:
					b := g.lock()
					rec.log("acq %d lock %d", gid, vc29B2i(b))
					acquired = true
					if n := atomic.AddInt32(&inCS, 1); n != 1 {
						fails.add("mutex", fmt.Sprintf("%d goroutines inside the gate after Lock", n))
					}
					if b != cond {
						fails.add("cond", fmt.Sprintf("Lock reported %v but the last Unlock set %v", b, cond))
					}
					st[gid]["acq:lock"]++
				case op < 6:
					if g.lockIfSet() {
						rec.log("acq %d lockIfSet 1", gid)
						acquired = true
						if n := atomic.AddInt32(&inCS, 1); n != 1 {
							fails.add("mutex", fmt.Sprintf("%d goroutines inside the gate after LockIfSet", n))
						}
						if !cond {
							fails.add("cond", "LockIfSet acquired while the condition is unset")
						}
						st[gid]["acq:lockIfSet"]++
					} else {
						rec.log("miss %d lockIfSet", gid)
						st[gid]["miss:lockIfSet"]++
					}
				default:
					ctx, cancel := context.WithCancel(context.Background())
					if rng.Chance(1, 5) {
						cancel()
					} else {
						y := rng.Intn(60)
						helpers.Add(1)
						go func() {
							defer helpers.Done()
							for i := 0; i < y; i++ {
								runtime.Gosched()
							}
							cancel()
						}()
					}
					err := g.waitAndLock(ctx)
					if err == nil {
						rec.log("acq %d waitAndLock 1", gid)
						acquired = true
						if n := atomic.AddInt32(&inCS, 1); n != 1 {
							fails.add("mutex", fmt.Sprintf("%d goroutines inside the gate after WaitAndLock", n))
						}
						if !cond {
							fails.add("cond", "WaitAndLock returned nil while the condition is unset")
						}
						st[gid]["acq:waitAndLock"]++
					} else {
						rec.log("miss %d waitAndLock", gid)
						if ctx.Err() == nil {
							fails.add("ctx", "WaitAndLock returned an error but its context is not done")
						}
						st[gid]["miss:waitAndLock"]++
					}
					cancel()
				}
				if acquired {
					vc29Yield(rng, 4)
					b := rng.Bool()
					cond = b
					atomic.AddInt32(&inCS, -1)
					rec.log("rel %d %d", gid, vc29B2i(b))
					if rng.Chance(1, 4) {
						g.unlockFunc(func() bool { return b })
					} else {
						g.unlock(b)
					}
				}
			}
		}(gid)
	}
	done := make(chan struct{})
	go func() { wg.Wait(); helpers.Wait(); close(done) }()
	select {
	case <-done:
	case <-time.After(20 * time.Second):
		// every goroutine still alive is blocked: what was recorded so far is still reported
		fails.add("hang", "gate scenario did not finish within 20 s")
	}
	var all []vc29Event
	for gid, r := range recs {
		all = append(all, r.evs...)
		for k, v := range st[gid] {
			stats[k] += v
		}
	}
	sort.Slice(all, func(i, j int) bool { return all[i].seq < all[j].seq })
	return all, fails.l
}

var vc29ErrClosed = errors.New("verif: queue closed")

// vc29RunQueue: P producers put items p*1000+k (k = 0..K-1), C consumers get until the queue
// reports closed. mode 0: the consumer that receives the last of the P*K items closes the queue
// (everything is delivered); mode 1: a closer goroutine closes at a random moment.
func vc29RunQueue(P, C, K, mode int, s uint64, stats map[string]int) ([]vc29Event, [][2]string) {
	if vc29HungOnce {
		return nil, nil
	}
	q := newQueue[int]()
	total := int64(P * K)
	var got int64
	fails := &vc29Failures{}
	n := P + C + 1
	recs := make([]*vc29Recorder, n)
	st := make([]map[string]int, n)
	for i := range recs {
		recs[i] = &vc29Recorder{}
		st[i] = map[string]int{}
	}
	var wg, helpers sync.WaitGroup
	guard := func(f func()) {
		defer wg.Done()
		defer func() {
			if e := recover(); e != nil {
				fails.add("panic", fmt.Sprint(e))
				// let everybody else terminate
				func() {
					defer func() { recover() }()
					q.close(vc29ErrClosed)
				}()
			}
		}()
		f()
	}
	for p := 0; p < P; p++ {
		wg.Add(1)
		go func(p int) {
			guard(func() {
				rng := vu.NewRng(s ^ (uint64(p)+1)*0x9e3779b97f4a7c15)
				rec := recs[p]
				for k := 0; k < K; k++ {
					vc29Yield(rng, 4)
					rec.log("pinv %d %d", p, k)
					ok := q.put(p*1000 + k)
					rec.log("pret %d %d %d", p, k, vc29B2i(ok))
					if ok {
						st[p]["put:ok"]++
					} else {
						st[p]["put:closed"]++
					}
				}
			})
		}(p)
	}
	for c := 0; c < C; c++ {
		wg.Add(1)
		go func(c int) {
			guard(func() {
				rng := vu.NewRng(s ^ (uint64(c)+101)*0xbf58476d1ce4e5b9)
				rec := recs[P+c]
				for iter := 0; iter < 100000; iter++ {
					vc29Yield(rng, 4)
					ctx := context.Background()
					cancel := func() {}
					if rng.Chance(1, 4) {
						ctx, cancel = context.WithCancel(ctx)
						if rng.Chance(1, 4) {
							cancel()
						} else {
							y := rng.Intn(40)
							cf := cancel
							helpers.Add(1)
							go func() {
								defer helpers.Done()
								for i := 0; i < y; i++ {
									runtime.Gosched()
								}
								cf()
							}()
						}
					}
					rec.log("ginv %d", c)
					v, err := q.get(ctx)
					switch {
					case err == nil:
						rec.log("gret %d item %d %d", c, v/1000, v%1000)
						st[P+c]["get:item"]++
						if atomic.AddInt64(&got, 1) == total && mode == 0 {
							rec.log("cinv")
							q.close(vc29ErrClosed)
							rec.log("cret")
						}
					case err == vc29ErrClosed:
						rec.log("gret %d closed", c)
						st[P+c]["get:closed"]++
						cancel()
						return
					default:
						rec.log("gret %d ctx", c)
						st[P+c]["get:ctx"]++
						if ctx.Err() == nil {
							fails.add("ctx", "get returned a context error but its context is not done")
						}
					}
					cancel()
				}
				fails.add("hang", "consumer did not see the queue closed after 100000 gets")
			})
		}(c)
	}
	if mode == 1 {
		wg.Add(1)
		go func() {
			guard(func() {
				rng := vu.NewRng(s ^ 0x94d049bb133111eb)
				rec := recs[P+C]
				vc29Yield(rng, 60)
				rec.log("cinv")
				q.close(vc29ErrClosed)
				rec.log("cret")
				if rng.Bool() { // a second close keeps the first error
					q.close(errors.New("verif: second close"))
				}
			})
		}()
	}
	done := make(chan struct{})
	go func() { wg.Wait(); helpers.Wait(); close(done) }()
	select {
	case <-done:
	case <-time.After(20 * time.Second):
		// every goroutine still alive is blocked: what was recorded so far is still reported
		fails.add("hang", "queue scenario did not finish within 20 s")
	}
	var all []vc29Event
	for i, r := range recs {
		all = append(all, r.evs...)
		for k, v := range st[i] {
			stats[k] += v
		}
	}
	sort.Slice(all, func(i, j int) bool { return all[i].seq < all[j].seq })
	vc29QueueOracle(all, mode, fails)
	return all, fails.l
}

// vc29QueueOracle states the property directly on the recorded history.
func vc29QueueOracle(all []vc29Event, mode int, fails *vc29Failures) {
	type item struct{ p, k int }
	pinv := map[item]int64{}
	pret := map[item]bool{}
	deliv := map[item]int64{}
	lastK := map[[2]int]int{} // (consumer, producer) -> last k received
	ginv := map[int]int64{}
	var cinv, cret int64 = -1, -1
	for _, e := range all {
		t := strings.Fields(e.s)
		switch t[0] {
		case "pinv":
			pinv[item{vu.Atoi(t[1]), vu.Atoi(t[2])}] = e.seq
		case "pret":
			it := item{vu.Atoi(t[1]), vu.Atoi(t[2])}
			pret[it] = t[3] == "1"
			if t[3] == "1" && cret >= 0 && pinv[it] > cret {
				fails.add("after-close", fmt.Sprintf("put(%v) invoked after close returned was accepted", it))
			}
			if t[3] == "0" && cinv < 0 {
				fails.add("spurious-close", fmt.Sprintf("put(%v) rejected but close was never called", it))
			}
		case "ginv":
			ginv[vu.Atoi(t[1])] = e.seq
		case "gret":
			c := vu.Atoi(t[1])
			switch t[2] {
			case "item":
				it := item{vu.Atoi(t[3]), vu.Atoi(t[4])}
				if _, ok := pinv[it]; !ok {
					fails.add("phantom", fmt.Sprintf("get returned %v which was never put", it))
				}
				if _, dup := deliv[it]; dup {
					fails.add("dup", fmt.Sprintf("item %v delivered twice", it))
				}
				deliv[it] = e.seq
				key := [2]int{c, it.p}
				if last, ok := lastK[key]; ok && it.k <= last {
					fails.add("fifo", fmt.Sprintf("consumer %d received item %d of producer %d after item %d", c, it.k, it.p, last))
				}
				lastK[key] = it.k
				if cret >= 0 && ginv[c] > cret {
					fails.add("after-close", fmt.Sprintf("get invoked after close returned delivered %v", it))
				}
			case "closed":
				if cinv < 0 {
					fails.add("spurious-close", "get reported closed but close was never called")
				}
			}
		case "cinv":
			if cinv < 0 {
				cinv = e.seq
			}
		case "cret":
			if cret < 0 {
				cret = e.seq
			}
		}
	}
	for it, ok := range pret {
		if _, d := deliv[it]; ok && !d && mode == 0 {
			fails.add("lost", fmt.Sprintf("item %v was accepted but never delivered although the queue was drained before close", it))
		}
		if _, d := deliv[it]; !ok && d {
			fails.add("phantom", fmt.Sprintf("item %v was rejected by put but delivered", it))
		}
	}
	if mode == 0 && len(pret) != len(pinv) {
		fails.add("lost", "a put did not return")
	}
}

// vc29RunQLong: ONE goroutine, one queue, a reference slice. `gets` successful gets happen while
// the backlog never drops below 1 (pattern 0: steady put/get after a prefill of `backlog`;
// 1: random bursts keeping the backlog in [1, backlog+burst]; 2: everything is put first), then the
// queue is drained and closed. Every get uses an already cancelled context, so instead of blocking
// it reports the context error: the oracle is FIFO exactly-once against the reference and "get never
// blocks (never fails) while the reference is non-empty".
func vc29RunQLong(pattern, gets, backlog int, s uint64, stats map[string]int) ([]vc29Event, [][2]string) {
	q := newQueue[int]()
	rng := vu.NewRng(s)
	rec := &vc29Recorder{}
	fails := &vc29Failures{}
	ctx, cancel := context.WithCancel(context.Background())
	cancel()
	var ref []int
	next, done := 0, 0
	put := func() {
		rec.log("pinv 0 %d", next)
		ok := q.put(next)
		rec.log("pret 0 %d %d", next, vc29B2i(ok))
		if !ok {
			fails.add("spurious-close", fmt.Sprintf("put(%d) rejected on an open queue", next))
		}
		ref = append(ref, next)
		next++
	}
	get := func() bool {
		rec.log("ginv 0")
		v, err := q.get(ctx)
		if err != nil {
			rec.log("gret 0 ctx")
			if len(ref) > 0 {
				fails.add("blocked", fmt.Sprintf("get would block after %d gets although %d items are queued (oldest %d)", done, len(ref), ref[0]))
				return false
			}
			return true
		}
		rec.log("gret 0 item 0 %d", v)
		if len(ref) == 0 {
			fails.add("phantom", fmt.Sprintf("get returned %d from an empty queue", v))
			return false
		}
		if v != ref[0] {
			fails.add("fifo", fmt.Sprintf("get #%d returned item %d, the reference queue has %d at its head (backlog %d)", done+1, v, ref[0], len(ref)))
			return false
		}
		ref = ref[1:]
		done++
		return true
	}
	func() {
		defer func() {
			if e := recover(); e != nil {
				fails.add("panic", fmt.Sprint(e))
			}
		}()
		if pattern == 2 {
			for i := 0; i < gets+backlog; i++ {
				put()
			}
		} else {
			for i := 0; i < backlog; i++ {
				put()
			}
		}
		for done < gets {
			switch {
			case len(ref) <= 1: // keep a standing backlog: never let the queue drain
				put()
			case pattern == 0:
				if !get() {
					return
				}
				put()
			case pattern == 1 && rng.Bool() && len(ref) < backlog+8:
				for n := rng.Range(1, 8); n > 0; n-- {
					put()
				}
			default:
				if !get() {
					return
				}
			}
		}
		for len(ref) > 0 { // drain
			if !get() {
				return
			}
		}
		if !get() { // empty and open: the cancelled context must be reported
			return
		}
		rec.log("cinv")
		q.close(vc29ErrClosed)
		rec.log("cret")
		rec.log("ginv 0")
		if _, err := q.get(ctx); err != vc29ErrClosed {
			fails.add("after-close", "get on a closed empty queue did not report the close error")
			rec.log("gret 0 ctx")
		} else {
			rec.log("gret 0 closed")
		}
	}()
	stats["qlong:gets"] += done
	stats[fmt.Sprintf("qlong:pattern%d", pattern)]++
	return rec.evs, fails.l
}

func vc29Exec(ops []string, o *vu.Out) {
	runtime.GOMAXPROCS(16)
	for _, op := range ops {
		t := strings.Fields(op)
		if len(t) == 0 || t[0] != "run" {
			continue // recorded event lines of a replayed trace: the run line re-executes
		}
		stats := map[string]int{}
		var evs []vc29Event
		var fails [][2]string
		end := "end"
		switch {
		case len(t) == 6 && t[1] == "gate":
			G, K, init, s := vu.Atoi(t[2]), vu.Atoi(t[3]), t[4] == "1", vu.Atou64(t[5])
			if G < 1 || G > 64 || K < 0 || K > 1000 {
				o.Op(op, "bad-op")
				continue
			}
			evs, fails = vc29RunGate(G, K, init, s, stats)
			o.Stat("scenario:gate")
		case len(t) == 7 && t[1] == "queue":
			P, C, K, mode, s := vu.Atoi(t[2]), vu.Atoi(t[3]), vu.Atoi(t[4]), vu.Atoi(t[5]), vu.Atou64(t[6])
			if P < 1 || P > 32 || C < 1 || C > 32 || K < 1 || K > 999 || mode < 0 || mode > 1 {
				o.Op(op, "bad-op")
				continue
			}
			evs, fails = vc29RunQueue(P, C, K, mode, s, stats)
			end = fmt.Sprintf("end %d", vc29B2i(mode == 0))
			o.Stat("scenario:queue")
		case len(t) == 6 && t[1] == "qlong":
			pattern, gets, backlog, s := vu.Atoi(t[2]), vu.Atoi(t[3]), vu.Atoi(t[4]), vu.Atou64(t[5])
			if pattern < 0 || pattern > 2 || gets < 1 || gets > 5000 || backlog < 1 || backlog > 2000 {
				o.Op(op, "bad-op")
				continue
			}
			evs, fails = vc29RunQLong(pattern, gets, backlog, s, stats)
			end = fmt.Sprintf("end %d", vc29B2i(len(fails) == 0))
			o.Stat("scenario:qlong")
		default:
			o.Op(op, "bad-op")
			continue
		}
		for _, f := range fails {
			if f[0] == "hang" {
				vc29HungOnce = true
			}
		}
		o.Op(op, "ok")
		for _, e := range evs {
			o.Op(e.s, "ok")
		}
		o.Op(end, "ok")
		for k, v := range stats {
			o.StatN(k, v)
		}
		for _, f := range fails {
			o.Fail(f[0], f[1])
		}
	}
}

func TestVerifC29(t *testing.T) { vu.Run(vu.ConfigFromEnv(), vc29Gen, vc29Exec) }
