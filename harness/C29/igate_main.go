//go:build verif

// C29 harness (tie "igate"): stress of golang.org/x/net/internal/gate under many
// goroutines; logs linearisation events for the Lean monitor (drv_C29).
//
// Each case is ONE op line `run gate <G> <K> <init> <s>`; exec runs the scenario on the real
// code and emits the recorded events (sorted by their global atomic sequence number) as
// further op lines with result `ok`. When a recorded trace is replayed, the event lines in
// the input are skipped: the `run` line re-executes the scenario.
package main

import (
	"context"
	"fmt"
	"runtime"
	"sort"
	"strings"
	"sync"
	"sync/atomic"
	"time"

	"golang.org/x/net/internal/gate"
	vu "golang.org/x/net/internal/verifutil"
)

type event struct {
	seq int64
	s   string
}

type recorder struct{ evs []event }

var seqCounter int64

// hungOnce: a scenario hung; later cases are not run (each would cost the full watchdog time)
var hungOnce bool // hungOnce

func (r *recorder) log(format string, a ...any) {
	r.evs = append(r.evs, event{atomic.AddInt64(&seqCounter, 1), fmt.Sprintf(format, a...)})
}

type failures struct {
	mu sync.Mutex
	l  [][2]string
}

func (f *failures) add(sig, desc string) {
	f.mu.Lock()
	if len(f.l) < 20 {
		f.l = append(f.l, [2]string{sig, desc})
	}
	f.mu.Unlock()
}

func yield(r *vu.Rng, max int) {
	for n := r.Intn(max + 1); n > 0; n-- {
		runtime.Gosched()
	}
}

func b2i(b bool) int {
	if b {
		return 1
	}
	return 0
}

func gen(r *vu.Rng, i int) []string {
	return []string{fmt.Sprintf("run gate %d %d %d %d", r.Range(2, 8), r.Range(1, 12), r.Intn(2), r.Uint64()>>1)}
}

// runGate runs G goroutines × K iterations on one gate.
func runGate(G, K int, init bool, s uint64, stats map[string]int) ([]event, [][2]string) {
	if hungOnce {
		return nil, nil
	}
	g := gate.New(init)
	var inCS int32
	cond := init // written only inside the critical section
	fails := &failures{}
	recs := make([]*recorder, G)
	st := make([]map[string]int, G)
	var wg, helpers sync.WaitGroup
	for gid := 0; gid < G; gid++ {
		recs[gid] = &recorder{}
		st[gid] = map[string]int{}
		wg.Add(1)
		go func(gid int) {
			defer wg.Done()
			defer func() {
				if e := recover(); e != nil {
					fails.add("panic", fmt.Sprint(e))
				}
			}()
			rng := vu.NewRng(s ^ (uint64(gid)+1)*0x9e3779b97f4a7c15)
			rec := recs[gid]
			for it := 0; it < K; it++ {
				yield(rng, 3)
				acquired := false
				switch op := rng.Intn(10); {
				case op < 4:
					b := g.Lock()
					rec.log("acq %d lock %d", gid, b2i(b))
					acquired = true
					if n := atomic.AddInt32(&inCS, 1); n != 1 {
						fails.add("mutex", fmt.Sprintf("%d goroutines inside the gate after Lock", n))
					}
					if b != cond {
						fails.add("cond", fmt.Sprintf("Lock reported %v but the last Unlock set %v", b, cond))
					}
					st[gid]["acq:lock"]++
				case op < 6:
					if g.LockIfSet() {
						rec.log("acq %d lockIfSet 1", gid)
						acquired = true
						if n := atomic.AddInt32(&inCS, 1); n != 1 {
							fails.add("mutex", fmt.Sprintf("%d goroutines inside the gate after LockIfSet", n))
						}
						if !cond {
							fails.add("cond", "LockIfSet acquired while the condition is unset")
						}
						st[gid]["acq:lockIfSet"]++
					} else {
						rec.log("miss %d lockIfSet", gid)
						st[gid]["miss:lockIfSet"]++
					}
				default:
					ctx, cancel := context.WithCancel(context.Background())
					if rng.Chance(1, 5) {
						cancel()
					} else {
						y := rng.Intn(60)
						helpers.Add(1)
						go func() {
							defer helpers.Done()
							for i := 0; i < y; i++ {
								runtime.Gosched()
							}
							cancel()
						}()
					}
					err := g.WaitAndLock(ctx)
					if err == nil {
						rec.log("acq %d waitAndLock 1", gid)
						acquired = true
						if n := atomic.AddInt32(&inCS, 1); n != 1 {
							fails.add("mutex", fmt.Sprintf("%d goroutines inside the gate after WaitAndLock", n))
						}
						if !cond {
							fails.add("cond", "WaitAndLock returned nil while the condition is unset")
						}
						st[gid]["acq:waitAndLock"]++
					} else {
						rec.log("miss %d waitAndLock", gid)
						if ctx.Err() == nil {
							fails.add("ctx", "WaitAndLock returned an error but its context is not done")
						}
						st[gid]["miss:waitAndLock"]++
					}
					cancel()
				}
				if acquired {
					yield(rng, 4)
					b := rng.Bool()
					cond = b
					atomic.AddInt32(&inCS, -1)
					rec.log("rel %d %d", gid, b2i(b))
					g.Unlock(b)
				}
			}
		}(gid)
	}
	done := make(chan struct{})
	go func() { wg.Wait(); helpers.Wait(); close(done) }()
	select {
	case <-done:
	case <-time.After(20 * time.Second):
		// every goroutine still alive is blocked: what was recorded so far is still reported
		fails.add("hang", "gate scenario did not finish within 20 s")
	}
	var all []event
	for gid, r := range recs {
		all = append(all, r.evs...)
		for k, v := range st[gid] {
			stats[k] += v
		}
	}
	sort.Slice(all, func(i, j int) bool { return all[i].seq < all[j].seq })
	return all, fails.l
}

func exec(ops []string, o *vu.Out) {
	runtime.GOMAXPROCS(16)
	for _, op := range ops {
		t := strings.Fields(op)
		if len(t) == 0 || t[0] != "run" {
			continue // recorded event lines of a replayed trace: the run line re-executes
		}
		if len(t) != 6 || t[1] != "gate" {
			o.Op(op, "bad-op")
			continue
		}
		G, K, init, s := vu.Atoi(t[2]), vu.Atoi(t[3]), t[4] == "1", vu.Atou64(t[5])
		if G < 1 || G > 64 || K < 0 || K > 1000 {
			o.Op(op, "bad-op")
			continue
		}
		stats := map[string]int{}
		evs, fails := runGate(G, K, init, s, stats)
		for _, f := range fails {
			if f[0] == "hang" {
				hungOnce = true
			}
		}
		o.Op(op, "ok")
		for _, e := range evs {
			o.Op(e.s, "ok")
		}
		o.Op("end", "ok")
		for k, v := range stats {
			o.StatN(k, v)
		}
		for _, f := range fails {
			o.Fail(f[0], f[1])
		}
	}
}

func main() { vu.Main(gen, exec) }
