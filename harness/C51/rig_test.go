//go:build verif

// C51 harness (injected into package publicsuffix as a _test.go file so that it sees `rules`,
// `numICANNRules` of table_test.go and the unexported packed tables).
//
// Every run first dumps the rule list and the decoded trie tables (dump-begin … dump-end), then
// queries PublicSuffix / EffectiveTLDPlusOne on domains derived from every rule, wildcard and
// exception ± random labels. The Lean driver answers the queries with the PSL spec over the dumped
// rules (and its model of the loop over the dumped tables); the oracle is an independent naive
// PSL implementation (max/min over all rules).
package publicsuffix

import (
	"fmt"
	"net/netip"
	"strings"
	"testing"

	vu "golang.org/x/net/internal/verifutil"
)

type vRule struct {
	kind   int      // 0 normal, 1 wildcard, 2 exception
	labels []string // TLD first, without "*" / "!"
	icann  bool
}

var (
	vRules    []vRule
	vByTLD    = map[string][]int{}
	vPrefix   = map[string]bool{} // every non-empty TLD-first prefix of a rule's labels (joined with " ")
	vNormal   = map[string]bool{}
	vExc      = map[string]bool{}
	vWild     = map[string]bool{}
	vAllLabel []string
	vNodes    []string // every trie node path (domain order), rules and interior nodes alike, in first-seen order
	vDumped   bool
)

func vInit() {
	if vRules != nil {
		return
	}
	seen := map[string]bool{}
	for i, r := range rules {
		vr := vRule{icann: i < numICANNRules}
		s := r
		switch {
		case strings.HasPrefix(s, "*."):
			vr.kind, s = 1, s[2:]
		case strings.HasPrefix(s, "!"):
			vr.kind, s = 2, s[1:]
		}
		ls := strings.Split(s, ".")
		for j := len(ls) - 1; j >= 0; j-- {
			vr.labels = append(vr.labels, ls[j])
			if key := strings.Join(vr.labels, " "); !vPrefix[key] {
				vPrefix[key] = true
				vNodes = append(vNodes, strings.Join(ls[j:], "."))
			}
			if !seen[ls[j]] {
				seen[ls[j]] = true
				vAllLabel = append(vAllLabel, ls[j])
			}
		}
		key := strings.Join(vr.labels, " ")
		switch vr.kind {
		case 0:
			vNormal[key] = true
		case 1:
			vWild[key] = true
		case 2:
			vExc[key] = true
		}
		vByTLD[vr.labels[0]] = append(vByTLD[vr.labels[0]], len(vRules))
		vRules = append(vRules, vr)
	}
}

func revLabels(domain string) []string {
	ls := strings.Split(domain, ".")
	for i, j := 0, len(ls)-1; i < j; i, j = i+1, j-1 {
		ls[i], ls[j] = ls[j], ls[i]
	}
	return ls
}

// naivePSL is the algorithm of publicsuffix.org/list stated over all rules: a rule matches when its
// labels (a `*` matching any one label) are a suffix of the domain; an exception rule prevails
// (shortest one first); otherwise the matching rule with most labels; otherwise `*`.
// Returns the number of labels of the public suffix and the ICANN flag of the prevailing rule.
func naivePSL(d []string) (int, bool) {
	bestLen, bestIcann := 0, false
	excLen, excIcann := 0, false
	for _, ri := range vByTLD[d[0]] {
		r := vRules[ri]
		n := len(r.labels)
		if n > len(d) {
			continue
		}
		ok := true
		for i := 1; i < n; i++ {
			if r.labels[i] != d[i] {
				ok = false
				break
			}
		}
		if !ok {
			continue
		}
		switch r.kind {
		case 0:
			if n > bestLen {
				bestLen, bestIcann = n, r.icann
			}
		case 1:
			if n+1 <= len(d) && n+1 > bestLen {
				bestLen, bestIcann = n+1, r.icann
			}
		case 2:
			if excLen == 0 || n < excLen {
				excLen, excIcann = n, r.icann
			}
		}
	}
	if excLen > 0 {
		return excLen - 1, excIcann
	}
	if bestLen == 0 {
		return 1, false
	}
	return bestLen, bestIcann
}

// deepestNodeParentOnly: the deepest trie node on the path of d exists only as a parent of longer
// rules (no rule ends there, no `*.` rule hangs below it).
func deepestNodeParentOnly(d []string) bool {
	j := 0
	for j < len(d) && vPrefix[strings.Join(d[:j+1], " ")] {
		j++
	}
	if j == 0 {
		return false
	}
	key := strings.Join(d[:j], " ")
	return !vNormal[key] && !vExc[key] && !vWild[key]
}

func randLabel(r *vu.Rng) string {
	switch r.Intn(8) {
	case 0:
		return vAllLabel[r.Intn(len(vAllLabel))]
	case 1:
		return []string{"www", "com", "co", "city", "x", "a", "foo", "blogspot", "compute", "s3", "xn--p1ai", "COM", "Co"}[r.Intn(13)]
	case 2:
		return []string{"ü", "例え", "é-x", "a_b", "0", "-", "*", "!www", "a:b"}[r.Intn(9)]
	default:
		return string(r.BytesFrom("abcdefghijklmnopqrstuvwxyz0123456789-", r.Range(1, 6)))
	}
}

func gen(r *vu.Rng, i int) []string {
	vInit()
	// The first len(vNodes) cases enumerate every trie node path itself (rules AND interior nodes that
	// are not rules), alone and with one extra label: the walk ends exactly on that node.
	if i < len(vNodes) {
		d := vNodes[i]
		x := randLabel(r) + "." + d
		if strings.ContainsAny(x, " \t\r\n") {
			x = "x." + d
		}
		return []string{"ps d:" + d, "etld1 d:" + d, "ps d:" + x, "etld1 d:" + x}
	}
	i -= len(vNodes)
	var d string
	ri := i % len(rules)
	if i >= 2*len(rules) {
		ri = r.Intn(len(rules))
	}
	rule := strings.TrimPrefix(rules[ri], "!")
	for strings.Contains(rule, "*") {
		rule = strings.Replace(rule, "*", randLabel(r), 1)
	}
	ls := strings.Split(rule, ".")
	switch r.Intn(14) {
	case 0:
		d = rule
	case 1:
		d = randLabel(r) + "." + rule
	case 2:
		d = randLabel(r) + "." + randLabel(r) + "." + rule
	case 3:
		d = randLabel(r) + "." + randLabel(r) + "." + randLabel(r) + "." + rule
	case 4: // a proper suffix of the rule (parent), maybe with extra labels
		d = strings.Join(ls[r.Intn(len(ls)):], ".")
		if r.Bool() {
			d = randLabel(r) + "." + d
		}
		if r.Chance(1, 3) {
			d = randLabel(r) + "." + d
		}
	case 5: // sibling: first label replaced
		ls[0] = randLabel(r)
		d = strings.Join(ls, ".")
		if r.Bool() {
			d = randLabel(r) + "." + d
		}
	case 6: // some inner label replaced
		ls[r.Intn(len(ls))] = randLabel(r)
		d = randLabel(r) + "." + strings.Join(ls, ".")
	case 7: // random labels only
		n := r.Range(1, 4)
		p := make([]string, n)
		for k := range p {
			p[k] = randLabel(r)
		}
		d = strings.Join(p, ".")
	case 8: // IP addresses and look-alikes
		d = []string{"127.0.0.1", "1.2.3.4", "::1", "2001:db8::1", "::ffff:1.2.3.4", "1.2.3", "1.2.3.4.5", "256.1.1.1", "1.2.3.4.com", "fe80::1%eth0"}[r.Intn(10)]
	case 9: // empty labels
		switch r.Intn(5) {
		case 0:
			d = "." + rule
		case 1:
			d = rule + "."
		case 2:
			d = randLabel(r) + ".." + rule
		case 3:
			d = []string{"", ".", "..", "com.", ".com"}[r.Intn(5)]
		default:
			d = randLabel(r) + "." + rule + "."
		}
	case 10: // upper case (lookups are case sensitive)
		d = strings.ToUpper(randLabel(r) + "." + rule)
	default:
		d = randLabel(r) + "." + rule
	}
	if strings.ContainsAny(d, " \t\r\n") {
		d = "x." + rule
	}
	return []string{"ps d:" + d, "etld1 d:" + d}
}

func dump(o *vu.Out) {
	nNodes := len(nodes) / (nodesBits / 8)
	nChildren := len(children) / 4
	o.Op(fmt.Sprintf("dump-begin %d %d %d %d %d", numTLD, numICANNRules, len(rules), nNodes, nChildren), "ok")
	for i, r := range rules {
		o.Op(fmt.Sprintf("rule %d %s", i, r), "ok")
	}
	for i := 0; i < nNodes; i++ {
		o.Op(fmt.Sprintf("node %d %d %s", i, nodes.get(uint32(i)), nodeLabel(uint32(i))), "ok")
	}
	for i := 0; i < nChildren; i++ {
		o.Op(fmt.Sprintf("child %d %d", i, children.get(uint32(i))), "ok")
	}
	o.Op("dump-end", "ok")
}

func exec(ops []string, o *vu.Out) {
	vInit()
	for _, op := range ops {
		t := strings.SplitN(op, " ", 2)
		switch t[0] {
		case "dump-begin", "rule", "node", "child", "dump-end":
			// stale dump lines of a replayed case: the fresh dump below supersedes them
			o.Op(op, "ok")
			continue
		}
		if len(t) == 2 && (strings.HasPrefix(t[1], "0 ") || strings.HasPrefix(t[1], "1 ")) {
			t[1] = t[1][2:] // replayed line that already carries the is-IP token
		}
		if len(t) != 2 || !strings.HasPrefix(t[1], "d:") || (t[0] != "ps" && t[0] != "etld1") {
			o.Op(op, "bad-op")
			continue
		}
		if !vDumped {
			vDumped = true
			dump(o)
		}
		domain := t[1][2:]
		_, iperr := netip.ParseAddr(domain)
		isIP := iperr == nil
		d := revLabels(domain)
		// the op line recorded for the driver carries the stdlib's verdict on "is an IP address"
		line := fmt.Sprintf("%s %s d:%s", t[0], map[bool]string{false: "0", true: "1"}[isIP], domain)
		nk, nicann := naivePSL(d)
		if isIP {
			nk, nicann = len(d), false
		}
		hasEmpty := false
		for _, l := range d {
			if l == "" {
				hasEmpty = true
			}
		}
		o.Stat("op:" + t[0])
		switch t[0] {
		case "ps":
			var suffix string
			var icann bool
			res := vu.Catch(func() string {
				suffix, icann = PublicSuffix(domain)
				return "ok"
			})
			if res != "ok" {
				o.Op(line, "panic")
				o.Fail("", fmt.Sprintf("PublicSuffix(%q) panicked", domain))
				continue
			}
			k := strings.Count(suffix, ".") + 1
			o.Op(line, fmt.Sprintf("ok %d %s", k, map[bool]string{false: "0", true: "1"}[icann]))
			want := strings.Join(strings.Split(domain, ".")[len(d)-min(nk, len(d)):], ".")
			if suffix != want {
				o.Fail("", fmt.Sprintf("PublicSuffix(%q) = %q, the PSL algorithm over the rule list gives %q", domain, suffix, want))
			} else if icann != nicann {
				o.Fail("", fmt.Sprintf("PublicSuffix(%q) = (%q, icann=%v), the prevailing rule has icann=%v", domain, suffix, icann, nicann))
			}
			if !isIP && deepestNodeParentOnly(d) {
				o.Stat("ps:walk-ends-at-parent-only-node")
			}
			switch {
			case isIP:
				o.Stat("ps:ip")
			case nk == 1 && !vNormal[d[0]]:
				o.Stat("ps:default-rule")
			default:
				o.Stat(fmt.Sprintf("ps:labels=%d", nk))
			}
		case "etld1":
			var got string
			var err error
			res := vu.Catch(func() string {
				got, err = EffectiveTLDPlusOne(domain)
				return "ok"
			})
			if res != "ok" {
				o.Op(line, "panic")
				o.Fail("", fmt.Sprintf("EffectiveTLDPlusOne(%q) panicked", domain))
				continue
			}
			wantErr := hasEmpty || isIP || len(d) <= nk
			if err != nil {
				o.Op(line, "err")
				if !wantErr {
					o.Fail("", fmt.Sprintf("EffectiveTLDPlusOne(%q) failed (%v) but the domain has %d labels and a public suffix of %d", domain, err, len(d), nk))
				}
				continue
			}
			o.Op(line, fmt.Sprintf("ok %d", strings.Count(got, ".")+1))
			if wantErr {
				o.Fail("", fmt.Sprintf("EffectiveTLDPlusOne(%q) = %q, expected an error", domain, got))
			} else if want := strings.Join(strings.Split(domain, ".")[len(d)-nk-1:], "."); got != want {
				o.Fail("", fmt.Sprintf("EffectiveTLDPlusOne(%q) = %q, want %q", domain, got, want))
			}
		}
	}
}

func TestVerifC51(t *testing.T) {
	vu.Run(vu.ConfigFromEnv(), gen, exec)
}
