//go:build verif

// White-box accessors for the C17 / C18 trace harness. Injected as
// http2/zz_verif_c17_export_test.go (package http2, test-only) with `go test -overlay`.
package http2

import (
	"net/http"
	"sync"
)

// VerifCCState is a snapshot of the counters awaitOpenSlotForStreamLocked / idleStateLocked read.
type VerifCCState struct {
	Streams, Reserved, PendingResets, PendingRequests int
	Max, Next, ReadBefore                             uint32
	Closed, GoAway, DoNotReuse, RstBlocked, Strict    bool
	ClosedOnIdle, SingleUse, SeenSettings             bool
	GoAwayLast                                        uint32
	GoAwayCode                                        uint32
}

func (cc *ClientConn) VerifState() VerifCCState {
	cc.mu.Lock()
	defer cc.mu.Unlock()
	st := VerifCCState{
		Streams: len(cc.streams), Reserved: cc.streamsReserved, PendingResets: cc.pendingResets,
		PendingRequests: cc.pendingRequests, Max: cc.maxConcurrentStreams, Next: cc.nextStreamID,
		ReadBefore: cc.readBeforeStreamID, Closed: cc.closed, GoAway: cc.goAway != nil,
		DoNotReuse: cc.doNotReuse, RstBlocked: cc.rstStreamPingsBlocked, Strict: cc.strictMaxConcurrentStreams,
		ClosedOnIdle: cc.closedOnIdle, SingleUse: cc.singleUse, SeenSettings: cc.seenSettings,
	}
	if cc.goAway != nil {
		st.GoAwayLast = cc.goAway.LastStreamID
		st.GoAwayCode = uint32(cc.goAway.ErrCode)
	}
	return st
}

// VerifIdleCanTake is idleStateLocked().canTakeNewRequest without reserving.
func (cc *ClientConn) VerifIdleCanTake() bool { return cc.idleState().canTakeNewRequest }

// VerifPool wraps the package's own clientConnPool and reports every selection.
type VerifPool struct {
	inner *clientConnPool
	mu    sync.Mutex
	OnGet func(req *http.Request, cc *ClientConn, st VerifCCState, err error)
}

func NewVerifPool(t *Transport) *VerifPool {
	return &VerifPool{inner: &clientConnPool{t: t}}
}

func (p *VerifPool) GetClientConn(req *http.Request, addr string) (*ClientConn, error) {
	cc, err := p.inner.GetClientConn(req, addr)
	var st VerifCCState
	if cc != nil {
		st = cc.VerifState()
	}
	p.mu.Lock()
	if p.OnGet != nil {
		p.OnGet(req, cc, st, err)
	}
	p.mu.Unlock()
	return cc, err
}

func (p *VerifPool) MarkDead(cc *ClientConn) { p.inner.MarkDead(cc) }

func (p *VerifPool) closeIdleConnections() { p.inner.closeIdleConnections() }

// VerifPooled reports whether cc is still listed in the pool.
func (p *VerifPool) VerifPooled(cc *ClientConn) bool {
	p.inner.mu.Lock()
	defer p.inner.mu.Unlock()
	_, ok := p.inner.keys[cc]
	return ok
}

var (
	VerifErrGotGoAway      = errClientConnGotGoAway
	VerifErrUnusable       = errClientConnUnusable
	VerifErrNotEstablished = errClientConnNotEstablished
	VerifErrForceClosed    = errClientConnForceClosed
	VerifErrClosedBody     = errClosedResponseBody
	VerifErrCanceled       = errRequestCanceled
)

// The two pure classification functions C18 is anchored in.
func VerifCanRetryError(err error) bool { return canRetryError(err) }

// VerifShouldRetry reports whether shouldRetryRequest would replay req after err.
func VerifShouldRetry(req *http.Request, err error) bool {
	_, e := shouldRetryRequest(req, err)
	return e == nil
}

const (
	VerifInitialMaxConcurrentStreams = initialMaxConcurrentStreams
	VerifDefaultMaxConcurrentStreams = defaultMaxConcurrentStreams
)
