//go:build verif

// C17 / C18 trace harness on the package's own Transport rig (newTestTransport, synctest).
//
// A case is a script of client / server steps (one per op line). Every step is performed,
// the bubble is run to quiescence (synctest.Wait) and everything observable is appended to
// the op line after "=>":
//
//	pick:r:c:n      the connection pool returned conn c for request r (n=1: freshly dialed)
//	newconn:c       the transport dialed a new connection
//	hdr:c:id:r:es   client HEADERS on conn c, stream id, for request r, END_STREAM flag
//	cend:c:id       client DATA with END_STREAM
//	crst:c:id:code  client RST_STREAM
//	ping:c          client PING (bundled with a RST_STREAM)
//	cgoaway:c       client GOAWAY
//	closed:c        the client closed the connection
//	done:r:kind     RoundTrip of request r returned (kind: s<status> or an error enum)
//	body:r:kind     a response-body read finished
//	st:c:n:res:pr:max:next   white-box counters of conn c at quiescence
//
// The Lean monitors (Model/H2Client.lean; drivers C17 / C18) validate each line; this
// file states the properties directly on the recorded values as well (out.Fail).
//
// Injected as http2/zz_verif_c17_test.go (package http2_test) with `go test -overlay`.
package http2_test

import (
	"context"
	"errors"
	"fmt"
	"io"
	"net/http"
	"os"
	"sort"
	"strconv"
	"strings"
	"sync"
	"testing"
	"testing/synctest"
	"time"

	. "golang.org/x/net/http2"
	"golang.org/x/net/http2/hpack"
	vu "golang.org/x/net/internal/verifutil"
)

const (
	sigFirstStreamGoAway = "goaway-error-first-stream-not-retried"
)

func TestVerifC17(t *testing.T) { verifClientRun(t, "c17") }
func TestVerifC18(t *testing.T) { verifClientRun(t, "c18") }

func verifClientRun(t *testing.T, mode string) {
	cfg := vu.ConfigFromEnv()
	caseNo := 0
	vu.Run(cfg, func(r *vu.Rng, i int) []string { return vcGen(r, i, mode) },
		func(ops []string, o *vu.Out) {
			caseNo++
			n := caseNo
			// wall-clock watchdog (real time: created outside the bubble)
			wd := time.AfterFunc(60*time.Second, func() {
				fmt.Fprintf(os.Stderr, "verif %s: case %d hung (wall-clock watchdog); script:\n%s\n", mode, n, strings.Join(ops, "\n"))
				os.Exit(3)
			})
			defer wd.Stop()
			synctest.Test(t, func(t *testing.T) { vcExec(t, mode, ops, o) })
		})
}

// ---------------------------------------------------------------- executor

type vcBody struct {
	end    chan struct{} // shared between replays: closed when the application ends the body
	closed chan struct{}
	once   sync.Once
}

func (b *vcBody) Read(p []byte) (int, error) {
	select {
	case <-b.closed:
		return 0, errors.New("verif: body closed")
	default:
	}
	select {
	case <-b.end:
		return 0, io.EOF
	case <-b.closed:
		return 0, errors.New("verif: body closed")
	}
}

func (b *vcBody) Close() error {
	b.once.Do(func() { close(b.closed) })
	return nil
}

type vcStream struct {
	id       uint32
	req      int
	cEnd     bool // client sent END_STREAM
	sEnd     bool // server sent END_STREAM
	reset    bool // RST_STREAM either way
	respSent bool
	srstSent bool
}

func (s *vcStream) open() bool { return !s.reset && !(s.cEnd && s.sEnd) }

type vcConn struct {
	idx     int
	tc      *testClientConn
	dec     *hpack.Decoder
	greeted bool
	sclosed bool // the server closed its side
	cclosed bool // the client closed the connection
	prevN   int // len(cc.streams) at the previous quiescent point
	goaway  bool
	gaLast  uint32
	gaCode  uint32
	lastID  uint32
	limit   int64
	streams map[uint32]*vcStream
	order   []uint32
}

func (c *vcConn) openCount() int {
	n := 0
	for _, s := range c.streams {
		if s.open() {
			n++
		}
	}
	return n
}

type vcAttempt struct {
	conn int
	id   uint32
}

type vcReq struct {
	idx      int
	kind     int // 0: no body; 1: body, no GetBody; 2: body with GetBody
	rt       *testRoundTrip
	cancel   context.CancelFunc
	end      chan struct{}
	ended    bool
	canceled bool
	done     bool
	result   string
	resp     *http.Response
	picks    []int
	attempts []vcAttempt
	bodyRead *vcBodyRead
	bodyDone bool
}

type vcBodyRead struct {
	mu   sync.Mutex
	done bool
	err  error
}

type vcPick struct {
	req   int
	cc    *ClientConn
	st    VerifCCState
	err   error
	fresh bool
}

type vcGaStream struct {
	id         uint32
	req        int
	doneBefore bool
	attempts   int
	picks      int
	sEnd       bool
}

type vcGaStep struct {
	kind    string // "goaway" or "closeconn"
	conn    *vcConn
	last    uint32
	code    uint32 // merged code
	hadGA   bool
	streams []vcGaStream
}

type vcCase struct {
	ga     *vcGaStep
	t      *testing.T
	o      *vu.Out
	mode   string
	strict bool
	tt     *testTransport
	pool   *VerifPool
	conns  []*vcConn
	reqs   map[int]*vcReq
	obs    []string
	pmu    sync.Mutex
	picks  []vcPick
	seen   map[*ClientConn]bool
}

func (c *vcCase) obsf(format string, a ...any) { c.obs = append(c.obs, fmt.Sprintf(format, a...)) }

func vcReqIndex(path string) int {
	if !strings.HasPrefix(path, "/r") {
		return -1
	}
	n, err := strconv.Atoi(path[2:])
	if err != nil {
		return -1
	}
	return n
}

func vcNewCase(t *testing.T, o *vu.Out, mode string, strict bool) *vcCase {
	c := &vcCase{t: t, o: o, mode: mode, strict: strict, reqs: map[int]*vcReq{}, seen: map[*ClientConn]bool{}}
	c.tt = newTestTransport(t, func(tr *Transport) {
		tr.StrictMaxConcurrentStreams = strict
		c.pool = NewVerifPool(tr)
		c.pool.OnGet = func(req *http.Request, cc *ClientConn, st VerifCCState, err error) {
			c.pmu.Lock()
			defer c.pmu.Unlock()
			p := vcPick{req: vcReqIndex(req.URL.Path), cc: cc, st: st, err: err}
			if cc != nil && !c.seen[cc] {
				c.seen[cc] = true
				p.fresh = true
			}
			c.picks = append(c.picks, p)
		}
		tr.ConnPool = c.pool
	})
	return c
}

func (c *vcCase) connOf(cc *ClientConn) int {
	for _, k := range c.conns {
		if k.tc.cc == cc {
			return k.idx
		}
	}
	return -1
}

func vcErrKind(err error) string {
	var se StreamError
	var ga GoAwayError
	switch {
	case err == nil:
		return "nil"
	case errors.Is(err, context.Canceled):
		return "canceled"
	case err == VerifErrGotGoAway:
		return "gotgoaway"
	case err == VerifErrUnusable:
		return "unusable"
	case err == VerifErrNotEstablished:
		return "notestablished"
	case err == VerifErrClosedBody:
		return "closedbody"
	case errors.As(err, &ga):
		return "goawayconn"
	case errors.As(err, &se):
		return fmt.Sprintf("rst%d", uint32(se.Code))
	case err == io.ErrUnexpectedEOF:
		return "ueof"
	case err == io.EOF:
		return "eof"
	case strings.HasPrefix(err.Error(), "http2: Transport received GOAWAY from server ErrCode"):
		return "goawayfirst"
	case strings.HasPrefix(err.Error(), "http2: Transport: cannot retry err"):
		return "noreplay"
	}
	return "other"
}

// settle runs the bubble to quiescence and records everything observable.
func (c *vcCase) settle() {
	synctest.Wait()
	// new connections
	for c.tt.hasConn() {
		tc := c.tt.getConn()
		k := &vcConn{idx: len(c.conns), tc: tc, dec: hpack.NewDecoder(4096, nil), limit: VerifInitialMaxConcurrentStreams,
			streams: map[uint32]*vcStream{}}
		c.conns = append(c.conns, k)
		c.obsf("newconn:%d", k.idx)
		synctest.Wait()
	}
	// pool selections made during this step
	c.pmu.Lock()
	picks := c.picks
	c.picks = nil
	c.pmu.Unlock()
	for _, p := range picks {
		if p.cc == nil {
			c.obsf("pickerr:%d", p.req)
			continue
		}
		ci := c.connOf(p.cc)
		fresh := 0
		if p.fresh {
			fresh = 1
		}
		c.obsf("pick:%d:%d:%d", p.req, ci, fresh)
		if r := c.reqs[p.req]; r != nil {
			for _, prev := range r.picks {
				if prev == ci && c.mode == "c18" {
					c.o.Fail("", fmt.Sprintf("request %d was handed connection %d twice by the pool", p.req, ci))
				}
			}
			r.picks = append(r.picks, ci)
		}
		// C17 (pool part): a connection at its limit is never selected.
		// p.st was taken right after the reservation, so it contains this request's slot.
		before := p.st.Streams + p.st.Reserved - 1 + p.st.PendingResets
		neverUsedClosed := p.st.Closed && p.st.Next == 1 && !p.st.ClosedOnIdle
		if !p.st.Strict && !p.fresh && before >= int(p.st.Max) && !neverUsedClosed {
			c.o.Fail("", fmt.Sprintf("pool selected conn %d for request %d although it holds %d streams+reservations+pending resets with limit %d", ci, p.req, before, p.st.Max))
		}
		if !p.fresh && (p.st.GoAway) {
			c.o.Fail("", fmt.Sprintf("pool selected conn %d for request %d after it received GOAWAY", ci, p.req))
		}
		if !p.st.Strict {
			c.o.Stat("pick:nonstrict")
			if before+1 == int(p.st.Max) {
				c.o.Stat("pick:fills-last-slot")
			}
		}
	}
	for _, k := range c.conns {
		c.drain(k)
	}
	ids := make([]int, 0, len(c.reqs))
	for i := range c.reqs {
		ids = append(ids, i)
	}
	sort.Ints(ids)
	for _, i := range ids {
		r := c.reqs[i]
		if !r.done && r.rt.done() {
			r.done = true
			resp, err := r.rt.result()
			if err == nil {
				r.resp = resp
				r.result = fmt.Sprintf("s%d", resp.StatusCode)
			} else {
				r.result = vcErrKind(err)
			}
			c.obsf("done:%d:%s", i, r.result)
			c.o.Stat("done:" + r.result)
		}
		if r.bodyRead != nil {
			r.bodyRead.mu.Lock()
			d, err := r.bodyRead.done, r.bodyRead.err
			r.bodyRead.mu.Unlock()
			if d {
				r.bodyRead = nil
				r.bodyDone = true
				k := vcErrKind(err)
				c.obsf("body:%d:%s", i, k)
				c.o.Stat("body:" + k)
			}
		}
	}
	for _, k := range c.conns {
		if k.tc.cc == nil {
			continue
		}
		st := k.tc.cc.VerifState()
		res := strconv.Itoa(st.Reserved)
		if c.mode == "c18" {
			res = "-" // simultaneous fail-over makes the order of reservations a scheduling matter
		}
		c.obsf("st:%d:%d:%s:%d:%d:%d", k.idx, st.Streams, res, st.PendingResets, st.Max, st.Next)
		// progress: once a stream has left (forgetStreamID broadcasts), no request may still
		// wait in awaitOpenSlotForStreamLocked while streams + pending resets are below the limit
		if st.Streams < k.prevN && st.PendingRequests > 0 && !st.Closed && !st.GoAway && !st.DoNotReuse &&
			st.Streams+st.PendingResets < int(st.Max) {
			c.o.Fail("", fmt.Sprintf("conn %d: %d request(s) still wait for a stream slot although only %d streams + %d pending resets are counted against limit %d (%d reservations queued behind)", k.idx, st.PendingRequests, st.Streams, st.PendingResets, st.Max, st.Reserved))
		}
		if st.PendingRequests > 0 {
			c.o.Stat("quiesce:waiter")
		}
		k.prevN = st.Streams
		// the wire-level view can never be ahead of the client's own bookkeeping
		if !k.cclosed && !k.sclosed && k.openCount() > st.Streams {
			c.o.Fail("", fmt.Sprintf("conn %d: %d streams are open on the wire but the client tracks only %d", k.idx, k.openCount(), st.Streams))
		}
	}
}

func (c *vcCase) drain(k *vcConn) {
	if k.cclosed {
		return
	}
	for {
		f, err := k.tc.fr.ReadFrame()
		if err != nil {
			if err == os.ErrDeadlineExceeded || err == errWouldBlock {
				break
			}
			if !k.cclosed {
				k.cclosed = true
				c.obsf("closed:%d", k.idx)
			}
			return
		}
		switch f := f.(type) {
		case *HeadersFrame:
			id := f.StreamID
			path := ""
			k.dec.SetEmitFunc(func(hf hpack.HeaderField) {
				if hf.Name == ":path" {
					path = hf.Value
				}
			})
			k.dec.Write(f.HeaderBlockFragment())
			k.dec.Close()
			k.dec.SetEmitFunc(nil)
			ri := vcReqIndex(path)
			es := 0
			if f.StreamEnded() {
				es = 1
			}
			c.obsf("hdr:%d:%d:%d:%d", k.idx, id, ri, es)
			c.o.Stat("wire:hdr")
			// C17 on the implementation
			if id%2 != 1 {
				c.o.Fail("", fmt.Sprintf("conn %d: client opened even stream %d", k.idx, id))
			}
			if id <= k.lastID {
				c.o.Fail("", fmt.Sprintf("conn %d: stream %d opened after stream %d", k.idx, id, k.lastID))
			}
			if c.strict && int64(k.openCount())+1 > k.limit {
				c.o.Fail("", fmt.Sprintf("conn %d: HEADERS for stream %d makes %d open streams, SETTINGS_MAX_CONCURRENT_STREAMS is %d", k.idx, id, k.openCount()+1, k.limit))
			}
			if c.strict && int64(k.openCount())+1 == k.limit {
				c.o.Stat("strict:fills-last-slot")
			}
			// C18 on the implementation
			if k.goaway {
				c.o.Fail("", fmt.Sprintf("conn %d: stream %d opened after GOAWAY", k.idx, id))
			}
			k.lastID = id
			k.streams[id] = &vcStream{id: id, req: ri, cEnd: f.StreamEnded()}
			k.order = append(k.order, id)
			if r := c.reqs[ri]; r != nil {
				for _, a := range r.attempts {
					if a.conn == k.idx && c.mode == "c18" {
						c.o.Fail("", fmt.Sprintf("request %d sent twice on connection %d (streams %d and %d)", ri, k.idx, a.id, id))
					}
				}
				r.attempts = append(r.attempts, vcAttempt{k.idx, id})
			}
		case *DataFrame:
			if f.StreamEnded() {
				c.obsf("cend:%d:%d", k.idx, f.StreamID)
				if s := k.streams[f.StreamID]; s != nil {
					s.cEnd = true
				}
			}
		case *RSTStreamFrame:
			c.obsf("crst:%d:%d:%d", k.idx, f.StreamID, uint32(f.ErrCode))
			c.o.Stat("wire:crst")
			if s := k.streams[f.StreamID]; s != nil {
				s.reset = true
			}
		case *PingFrame:
			if !f.IsAck() {
				c.obsf("ping:%d", k.idx)
				c.o.Stat("wire:ping")
			}
		case *GoAwayFrame:
			c.obsf("cgoaway:%d", k.idx)
		case *SettingsFrame, *WindowUpdateFrame:
			// connection set-up and flow control: not part of the properties
		default:
			c.obsf("frame:%d", k.idx)
		}
	}
	if !k.cclosed && k.tc.netconn.IsClosedByPeer() {
		k.cclosed = true
		c.obsf("closed:%d", k.idx)
	}
}

func (c *vcCase) conn(tok string) *vcConn {
	i := int(vfAtoiC17(tok))
	if i < 0 || i >= len(c.conns) {
		return nil
	}
	return c.conns[i]
}

func vfAtoiC17(s string) int64 {
	v, err := strconv.ParseInt(s, 10, 64)
	if err != nil {
		panic("bad int " + s)
	}
	return v
}

func vcExec(t *testing.T, mode string, ops []string, o *vu.Out) {
	var c *vcCase
	for _, op := range ops {
		base := strings.TrimSpace(strings.SplitN(op, "=>", 2)[0])
		f := strings.Fields(base)
		if len(f) == 0 {
			o.Op(op, "bad-op")
			continue
		}
		if f[0] == "reset" {
			if len(f) != 2 || (f[1] != "0" && f[1] != "1") {
				o.Op(op, "bad-op")
				continue
			}
			if c != nil {
				o.Op(base, "ok") // one transport per case
				continue
			}
			c = vcNewCase(t, o, mode, f[1] == "1")
			o.Stat("op:reset")
			o.Op(base, "ok")
			continue
		}
		if f[0] == "retryq" {
			// canRetryError / shouldRetryRequest on the real functions (differential tie)
			if len(f) != 3 {
				o.Op(op, "bad-op")
				continue
			}
			var req *http.Request
			switch f[1] {
			case "0":
				req = Must(http.NewRequest("GET", "https://dummy.tld/", nil))
			case "1", "2":
				req = Must(http.NewRequest("POST", "https://dummy.tld/", &vcBody{end: make(chan struct{}), closed: make(chan struct{})}))
				if f[1] == "2" {
					req.GetBody = func() (io.ReadCloser, error) {
						return &vcBody{end: make(chan struct{}), closed: make(chan struct{})}, nil
					}
				}
			case "3":
				req = Must(http.NewRequest("POST", "https://dummy.tld/", http.NoBody))
			}
			var err error
			switch f[2] {
			case "gotgoaway":
				err = VerifErrGotGoAway
			case "unusable":
				err = VerifErrUnusable
			case "refused":
				err = StreamError{StreamID: 1, Code: ErrCodeRefusedStream}
			case "rstcancel":
				err = StreamError{StreamID: 1, Code: ErrCodeCancel}
			case "goawayconn":
				err = GoAwayError{LastStreamID: 1, ErrCode: ErrCodeNo}
			case "notestablished":
				err = VerifErrNotEstablished
			case "eof":
				err = io.ErrUnexpectedEOF
			}
			if req == nil || err == nil {
				o.Op(op, "bad-op")
				continue
			}
			b := map[bool]int{false: 0, true: 1}
			o.Stat("op:retryq")
			o.Op(base, fmt.Sprintf("ok %d %d", b[VerifCanRetryError(err)], b[VerifShouldRetry(req, err)]))
			continue
		}
		if c == nil {
			o.Op(base, "ok")
			continue
		}
		c.obs = nil
		c.ga = nil
		skip := func() { c.obsf("skip") }
		valid := true
		o.Stat("op:" + f[0])
		func() {
			defer func() {
				if e := recover(); e != nil {
					if s, ok := e.(string); ok && strings.HasPrefix(s, "bad int") {
						valid = false
						return
					}
					panic(e)
				}
			}()
			switch f[0] {
			case "req":
				if len(f) != 3 {
					valid = false
					return
				}
				ri, kind := int(vfAtoiC17(f[1])), int(vfAtoiC17(f[2]))
				if ri < 0 || ri > 63 || kind < 0 || kind > 2 {
					valid = false
					return
				}
				if c.reqs[ri] != nil {
					skip()
					return
				}
				r := &vcReq{idx: ri, kind: kind, end: make(chan struct{})}
				ctx, cancel := context.WithCancel(context.Background())
				r.cancel = cancel
				var req *http.Request
				url := fmt.Sprintf("https://dummy.tld/r%d", ri)
				if kind == 0 {
					req = Must(http.NewRequestWithContext(ctx, "GET", url, nil))
				} else {
					req = Must(http.NewRequestWithContext(ctx, "POST", url, &vcBody{end: r.end, closed: make(chan struct{})}))
					if kind == 2 {
						req.GetBody = func() (io.ReadCloser, error) {
							return &vcBody{end: r.end, closed: make(chan struct{})}, nil
						}
					}
				}
				c.reqs[ri] = r
				r.rt = c.tt.roundTrip(req)
			case "cancel":
				if len(f) != 2 {
					valid = false
					return
				}
				r := c.reqs[int(vfAtoiC17(f[1]))]
				if r == nil || r.canceled {
					skip()
					return
				}
				r.canceled = true
				r.cancel()
			case "bodyend":
				if len(f) != 2 {
					valid = false
					return
				}
				r := c.reqs[int(vfAtoiC17(f[1]))]
				if r == nil || r.kind == 0 || r.ended {
					skip()
					return
				}
				r.ended = true
				close(r.end)
			case "closebody":
				if len(f) != 2 {
					valid = false
					return
				}
				r := c.reqs[int(vfAtoiC17(f[1]))]
				if r == nil || r.resp == nil || r.bodyDone || r.bodyRead != nil {
					skip()
					return
				}
				r.bodyDone = true
				body := r.resp.Body
				go body.Close()
			case "readbody":
				if len(f) != 2 {
					valid = false
					return
				}
				r := c.reqs[int(vfAtoiC17(f[1]))]
				if r == nil || r.resp == nil || r.bodyDone || r.bodyRead != nil {
					skip()
					return
				}
				br := &vcBodyRead{}
				r.bodyRead = br
				body := r.resp.Body
				go func() {
					_, err := io.Copy(io.Discard, body)
					if err == nil {
						err = io.EOF
					}
					br.mu.Lock()
					br.done, br.err = true, err
					br.mu.Unlock()
				}()
			case "greet", "set":
				if len(f) != 3 {
					valid = false
					return
				}
				k := c.conn(f[1])
				m := vfAtoiC17(f[2])
				if m < -1 || m > 1<<31 {
					valid = false
					return
				}
				if k == nil || k.sclosed || k.cclosed || (f[0] == "greet") == k.greeted {
					skip()
					return
				}
				if m >= 0 {
					k.tc.writeSettings(Setting{ID: SettingMaxConcurrentStreams, Val: uint32(m)})
					k.limit = m
				} else {
					k.tc.writeSettings()
					if !k.greeted {
						k.limit = VerifDefaultMaxConcurrentStreams
					}
				}
				if !k.greeted {
					k.tc.writeSettingsAck()
				}
				k.greeted = true
			case "resp":
				if len(f) != 4 {
					valid = false
					return
				}
				k := c.conn(f[1])
				id, es := uint32(vfAtoiC17(f[2])), f[3] == "1"
				var s *vcStream
				if k != nil {
					s = k.streams[id]
				}
				if k == nil || !k.greeted || k.sclosed || k.cclosed || s == nil || s.respSent || s.srstSent {
					skip()
					return
				}
				s.respSent = true
				if es {
					s.sEnd = true
				}
				k.tc.writeHeaders(HeadersFrameParam{StreamID: id, EndHeaders: true, EndStream: es,
					BlockFragment: k.tc.makeHeaderBlockFragment(":status", "200")})
			case "sdata":
				if len(f) != 3 {
					valid = false
					return
				}
				k := c.conn(f[1])
				id := uint32(vfAtoiC17(f[2]))
				var s *vcStream
				if k != nil {
					s = k.streams[id]
				}
				if k == nil || !k.greeted || k.sclosed || k.cclosed || s == nil || !s.respSent || s.sEnd || s.srstSent {
					skip()
					return
				}
				s.sEnd = true
				k.tc.writeData(id, true, []byte("x"))
			case "srst":
				if len(f) != 4 {
					valid = false
					return
				}
				k := c.conn(f[1])
				id, code := uint32(vfAtoiC17(f[2])), uint32(vfAtoiC17(f[3]))
				var s *vcStream
				if k != nil {
					s = k.streams[id]
				}
				if code != 2 && code != 8 {
					valid = false
					return
				}
				if k == nil || !k.greeted || k.sclosed || k.cclosed || s == nil || s.srstSent {
					skip()
					return
				}
				s.srstSent = true
				s.reset = true
				k.tc.writeRSTStream(id, ErrCode(code))
			case "pingack":
				if len(f) != 2 {
					valid = false
					return
				}
				k := c.conn(f[1])
				if k == nil || !k.greeted || k.sclosed || k.cclosed {
					skip()
					return
				}
				k.tc.writePing(true, [8]byte{})
			case "goaway":
				if len(f) != 4 {
					valid = false
					return
				}
				k := c.conn(f[1])
				last, code := vfAtoiC17(f[2]), vfAtoiC17(f[3])
				if last < 0 || last > 1<<31-1 || code < 0 || code > 13 {
					valid = false
					return
				}
				if k == nil || !k.greeted || k.sclosed || k.cclosed {
					skip()
					return
				}
				if !k.goaway || k.gaCode == 0 {
					k.gaCode = uint32(code)
				}
				k.goaway = true
				k.gaLast = uint32(last)
				c.ga = c.gaSnapshot("goaway", k)
				k.tc.writeGoAway(uint32(last), ErrCode(code), nil)
			case "closeconn":
				if len(f) != 2 {
					valid = false
					return
				}
				k := c.conn(f[1])
				if k == nil || k.sclosed || k.cclosed {
					skip()
					return
				}
				k.sclosed = true
				c.ga = c.gaSnapshot("closeconn", k)
				k.tc.closeWrite()
			case "tick":
				if len(f) != 1 {
					valid = false
					return
				}
				synctest.Wait()
				time.Sleep(40 * time.Second)
			default:
				valid = false
			}
		}()
		if !valid {
			o.Op(op, "bad-op")
			continue
		}
		c.settle()
		if f[0] == "goaway" || f[0] == "closeconn" {
			// let the retry back-off timers of roundTripViaPool run (at most 32 s + 10 %)
			time.Sleep(40 * time.Second)
			c.settle()
		}
		if mode == "c18" {
			c.goAwayOracle(base)
		}
		line := base
		if len(c.obs) > 0 {
			line += " => " + strings.Join(c.obs, " ")
		}
		o.Op(line, "ok")
	}
	if c != nil {
		// wind down: cancel everything, close every connection
		for _, r := range c.reqs {
			r.cancel()
			if !r.ended {
				r.ended = true
				close(r.end)
			}
		}
		synctest.Wait()
		for _, r := range c.reqs {
			if r.rt.done() {
				if resp, _ := r.rt.result(); resp != nil {
					resp.Body.Close()
				}
			}
		}
		for _, k := range c.conns {
			k.tc.closeWrite()
		}
		synctest.Wait()
		for c.tt.hasConn() {
			c.tt.getConn().closeWrite()
		}
	}
}

func (c *vcCase) gaSnapshot(kind string, k *vcConn) *vcGaStep {
	g := &vcGaStep{kind: kind, conn: k, last: k.gaLast, code: k.gaCode, hadGA: k.goaway}
	for _, id := range k.order {
		s := k.streams[id]
		if !s.open() {
			continue
		}
		gs := vcGaStream{id: id, req: s.req, sEnd: s.sEnd}
		if r := c.reqs[s.req]; r != nil {
			gs.doneBefore = r.done
			gs.attempts = len(r.attempts)
			gs.picks = len(r.picks)
		}
		g.streams = append(g.streams, gs)
	}
	return g
}

// goAwayOracle states C18 on the implementation after a GOAWAY / connection-close step.
func (c *vcCase) goAwayOracle(step string) {
	g := c.ga
	if g == nil {
		return
	}
	k := g.conn
	for _, gs := range g.streams {
		s := k.streams[gs.id]
		r := c.reqs[gs.req]
		if r == nil {
			continue
		}
		// a replay shows as a new pool selection (in strict mode the request may then queue
		// on the selected connection before its HEADERS are sent)
		newAttempt := len(r.attempts) > gs.attempts || len(r.picks) > gs.picks
		if g.kind == "closeconn" {
			// in-flight requests fail with the connection's error; nothing is replayed
			if gs.sEnd {
				c.o.Stat("close:peer-had-ended")
				continue
			}
			if !gs.doneBefore && !r.canceled {
				want := "ueof"
				if g.hadGA {
					want = "goawayconn"
				}
				if !r.done || r.result != want {
					c.o.Fail("", fmt.Sprintf("%q: request %d (stream %d) was in flight when the connection closed; result %q, want %q", step, gs.req, gs.id, r.result, want))
				}
				c.o.Stat("close:inflight-" + want)
			}
			if newAttempt {
				c.o.Fail("", fmt.Sprintf("%q: request %d was replayed after a connection error", step, gs.req))
			}
			continue
		}
		if gs.id <= g.last {
			// the server has seen it: left alone
			c.o.Stat("goaway:keep")
			if s.reset {
				c.o.Fail("", fmt.Sprintf("%q: stream %d <= last-stream-id %d was reset by the client", step, gs.id, g.last))
			}
			if !gs.doneBefore && r.done && !r.canceled {
				c.o.Fail("", fmt.Sprintf("%q: request %d on stream %d <= last-stream-id %d failed with %q", step, gs.req, gs.id, g.last, r.result))
			}
			if newAttempt {
				c.o.Fail("", fmt.Sprintf("%q: request %d on stream %d <= last-stream-id %d was sent again", step, gs.req, gs.id, g.last))
			}
			continue
		}
		// id > last: the server has not processed it
		if !s.reset {
			c.o.Fail("", fmt.Sprintf("%q: stream %d > last-stream-id %d was not abandoned", step, gs.id, g.last))
		}
		if gs.doneBefore || r.canceled {
			c.o.Stat("goaway:abort-after-return")
			if newAttempt {
				c.o.Fail("", fmt.Sprintf("%q: request %d had already returned but was sent again", step, gs.req))
			}
			continue
		}
		switch {
		case gs.id == 1 && g.code != 0:
			c.o.Stat("goaway:first-stream-error")
			if r.done && r.result == "goawayfirst" && !newAttempt {
				c.o.Fail(sigFirstStreamGoAway, fmt.Sprintf("%q: stream 1 > last-stream-id %d with error code %d: the request fails with a non-retryable error instead of being retried (by design: setGoAway does not retry the first stream of a connection on a non-NO error)", step, g.last, g.code))
			} else {
				c.o.Fail("", fmt.Sprintf("%q: request %d on stream 1 with GOAWAY code %d: result %q, replayed=%v", step, gs.req, g.code, r.result, newAttempt))
			}
		case r.kind == 1:
			c.o.Stat("goaway:not-replayable")
			if !(r.done && r.result == "noreplay") || newAttempt {
				c.o.Fail("", fmt.Sprintf("%q: request %d (body without GetBody) on stream %d > %d: result %q, replayed=%v; want the cannot-retry error and no replay", step, gs.req, gs.id, g.last, r.result, newAttempt))
			}
		default:
			c.o.Stat("goaway:retried")
			if !newAttempt {
				c.o.Fail("", fmt.Sprintf("%q: request %d on stream %d > last-stream-id %d was dropped (result %q, no new attempt)", step, gs.req, gs.id, g.last, r.result))
			} else if len(r.picks) > gs.picks && r.picks[len(r.picks)-1] == k.idx {
				c.o.Fail("", fmt.Sprintf("%q: request %d was retried on the same connection %d", step, gs.req, k.idx))
			} else if len(r.attempts) > gs.attempts+1 {
				c.o.Fail("", fmt.Sprintf("%q: request %d was sent %d more times after one GOAWAY", step, gs.req, len(r.attempts)-gs.attempts))
			}
			if r.done && (r.result == "gotgoaway" || r.result == "noreplay" || r.result == "goawayfirst") {
				c.o.Fail("", fmt.Sprintf("%q: replayable request %d failed with %q", step, gs.req, r.result))
			}
		}
	}
}

// ---------------------------------------------------------------- generator

func vcGen(r *vu.Rng, i int, mode string) []string {
	if mode == "c18" {
		return vcGen18(r, i)
	}
	return vcGen17(r, i)
}

// vcGen18: GOAWAY at every position relative to in-flight requests, every last-stream-id
// around the open streams, graceful and error codes, the three body kinds.
func vcGen18(r *vu.Rng, i int) []string {
	var ops []string
	emit := func(format string, a ...any) { ops = append(ops, fmt.Sprintf(format, a...)) }
	if i%10 == 0 {
		// the pure functions
		for k := 0; k < 8; k++ {
			emit("retryq %d %s", r.Intn(4), []string{"gotgoaway", "unusable", "refused", "rstcancel", "goawayconn", "notestablished", "eof"}[r.Intn(7)])
		}
		return ops
	}
	strict := r.Chance(1, 4)
	emit("reset %d", map[bool]int{false: 0, true: 1}[strict])
	type gs struct {
		conn, id, req int
		resp, sEnd    bool
		gone          bool
	}
	type gconn struct {
		greeted, dead bool
		next          int
		streams       []*gs
	}
	var conns []*gconn
	nreq := 0
	goaways := 0
	kindOf := map[int]int{}
	place := func(rq int) {
		for ci, c := range conns {
			if !c.dead {
				c.streams = append(c.streams, &gs{conn: ci, id: c.next, req: rq})
				c.next += 2
				return
			}
		}
		c := &gconn{next: 3}
		c.streams = append(c.streams, &gs{conn: len(conns), id: 1, req: rq})
		conns = append(conns, c)
	}
	newReq := func() {
		kind := 0
		switch r.Intn(5) {
		case 0:
			kind = 1
		case 1, 2:
			kind = 2
		}
		kindOf[nreq] = kind
		emit("req %d %d", nreq, kind)
		place(nreq)
		nreq++
	}
	codes := []int{0, 0, 0, 1, 2, 11}
	steps := r.Range(4, 26)
	newReq()
	for j := 0; j < steps; j++ {
		for ci, c := range conns {
			if !c.greeted && r.Chance(4, 5) {
				m := -1
				if r.Chance(1, 3) {
					m = r.Range(1, 4)
				}
				emit("greet %d %d", ci, m)
				c.greeted = true
			}
		}
		switch k := r.Intn(100); {
		case k < 28:
			if nreq < 10 {
				newReq()
			}
		case k < 46:
			var all []*gs
			for _, c := range conns {
				for _, s := range c.streams {
					if !s.gone {
						all = append(all, s)
					}
				}
			}
			if len(all) > 0 {
				s := all[r.Intn(len(all))]
				if !s.resp {
					es := r.Chance(1, 2)
					emit("resp %d %d %d", s.conn, s.id, map[bool]int{false: 0, true: 1}[es])
					s.resp, s.sEnd = true, es
				} else {
					emit("sdata %d %d", s.conn, s.id)
					s.sEnd = true
				}
				if s.sEnd && kindOf[s.req] == 0 {
					s.gone = true
				}
			}
		case k < 72: // GOAWAY
			if len(conns) > 0 && goaways < 5 {
				ci := r.Intn(len(conns))
				c := conns[ci]
				if c.dead && r.Chance(2, 3) {
					for x, cc := range conns {
						if !cc.dead {
							ci, c = x, cc
						}
					}
				}
				if !c.greeted {
					emit("greet %d -1", ci)
					c.greeted = true
				}
				// last-stream-id: around the streams of the connection
				last := 0
				switch r.Intn(6) {
				case 0:
					last = 0
				case 1:
					last = c.next - 2 // everything opened so far
				case 2:
					last = 1<<31 - 1
				default:
					last = r.Intn(c.next + 2)
				}
				code := codes[r.Intn(len(codes))]
				emit("goaway %d %d %d", ci, last, code)
				goaways++
				c.dead = true
				for _, s := range c.streams {
					if !s.gone && s.id > last {
						s.gone = true
						if kindOf[s.req] != 1 && !(s.id == 1 && code != 0) && !s.resp {
							place(s.req)
						}
					}
				}
			}
		case k < 78:
			if len(conns) > 0 {
				ci := r.Intn(len(conns))
				emit("closeconn %d", ci)
				conns[ci].dead = true
				for _, s := range conns[ci].streams {
					s.gone = true
				}
			}
		case k < 84:
			if nreq > 0 {
				emit("cancel %d", r.Intn(nreq))
			}
		case k < 90:
			if nreq > 0 {
				emit("bodyend %d", r.Intn(nreq))
			}
		case k < 95:
			if nreq > 0 {
				emit("readbody %d", r.Intn(nreq))
			}
		case k < 97:
			if len(conns) > 0 {
				ci := r.Intn(len(conns))
				if conns[ci].greeted {
					emit("set %d %d", ci, r.Range(0, 3))
				}
			}
		default:
			var all []*gs
			for _, c := range conns {
				all = append(all, c.streams...)
			}
			if len(all) > 0 {
				s := all[r.Intn(len(all))]
				emit("srst %d %d %d", s.conn, s.id, []int{2, 8}[r.Intn(2)])
				s.gone = true
			}
		}
	}
	return ops
}

type g17stream struct {
	conn, id, req int
	kind          int
	cEnd, sEnd    bool
	resp          bool
	gone          bool
}

func vcGen17(r *vu.Rng, i int) []string {
	var ops []string
	strict := r.Chance(3, 5)
	if strict {
		ops = append(ops, "reset 1")
	} else {
		ops = append(ops, "reset 0")
	}
	emit := func(format string, a ...any) { ops = append(ops, fmt.Sprintf(format, a...)) }
	// The generator keeps a rough picture of the client (which request went where);
	// ops that do not apply are skipped by the executor.
	type gconn struct {
		greeted bool
		limit   int
		next    int
		streams []*g17stream
		waiting []int
	}
	var conns []*gconn
	nreq := 0
	reqKind := map[int]int{}
	count := func(c *gconn) int {
		n := 0
		for _, s := range c.streams {
			if !s.gone {
				n++
			}
		}
		return n
	}
	admit := func(c *gconn, ci int) {
		for len(c.waiting) > 0 && count(c) < c.limit {
			rq := c.waiting[0]
			c.waiting = c.waiting[1:]
			c.streams = append(c.streams, &g17stream{conn: ci, id: c.next, req: rq, kind: reqKind[rq], cEnd: reqKind[rq] == 0})
			c.next += 2
		}
	}
	newReq := func() {
		kind := 0
		if r.Chance(1, 4) {
			kind = r.Range(1, 2)
		}
		reqKind[nreq] = kind
		emit("req %d %d", nreq, kind)
		// where does it go?
		placed := false
		for ci, c := range conns {
			if strict || count(c)+len(c.waiting) < c.limit {
				c.waiting = append(c.waiting, nreq)
				admit(c, ci)
				placed = true
				break
			}
		}
		if !placed {
			c := &gconn{limit: 100, next: 1}
			conns = append(conns, c)
			c.waiting = append(c.waiting, nreq)
			admit(c, len(conns)-1)
		}
		nreq++
	}
	limitPool := func() int {
		switch r.Intn(8) {
		case 0:
			return 0
		case 1, 2:
			return 1
		case 3, 4:
			return 2
		case 5:
			return 3
		case 6:
			return r.Range(4, 6)
		}
		return -1
	}
	pickStream := func() *g17stream {
		var all []*g17stream
		for _, c := range conns {
			for _, s := range c.streams {
				all = append(all, s)
			}
		}
		if len(all) == 0 {
			return nil
		}
		s := all[r.Intn(len(all))]
		for k := 0; k < 3 && s.gone; k++ {
			s = all[r.Intn(len(all))]
		}
		return s
	}
	finish := func(s *g17stream) {
		if !s.gone && (s.cEnd && s.sEnd) {
			s.gone = true
			admit(conns[s.conn], s.conn)
		}
	}
	steps := r.Range(6, 40)
	newReq()
	for j := 0; j < steps; j++ {
		// un-greeted connections are usually greeted first
		for ci, c := range conns {
			if !c.greeted && r.Chance(3, 4) {
				m := limitPool()
				emit("greet %d %d", ci, m)
				c.greeted = true
				if m >= 0 {
					c.limit = m
				} else {
					c.limit = 1000
				}
				admit(c, ci)
			}
		}
		switch k := r.Intn(100); {
		case k < 30:
			if nreq < 14 {
				newReq()
			}
		case k < 50: // complete a stream
			if s := pickStream(); s != nil {
				if !s.resp {
					es := r.Chance(2, 3)
					emit("resp %d %d %d", s.conn, s.id, map[bool]int{false: 0, true: 1}[es])
					s.resp = true
					if es {
						s.sEnd = true
					}
				} else {
					emit("sdata %d %d", s.conn, s.id)
					s.sEnd = true
				}
				finish(s)
			}
		case k < 60: // client cancels
			if nreq > 0 {
				rq := r.Intn(nreq)
				emit("cancel %d", rq)
				for ci, c := range conns {
					for wi, w := range c.waiting {
						if w == rq {
							c.waiting = append(c.waiting[:wi:wi], c.waiting[wi+1:]...)
							break
						}
					}
					for _, s := range c.streams {
						if s.req == rq && !s.gone {
							s.gone = true
						}
					}
					admit(c, ci)
				}
			}
		case k < 68: // server resets
			if s := pickStream(); s != nil {
				emit("srst %d %d %d", s.conn, s.id, []int{2, 8}[r.Intn(2)])
				if !s.gone {
					s.gone = true
					admit(conns[s.conn], s.conn)
				}
			}
		case k < 82: // limit change
			if len(conns) > 0 {
				ci := r.Intn(len(conns))
				c := conns[ci]
				m := limitPool()
				switch r.Intn(4) {
				case 0: // just below / at / above the current count
					m = count(c) + r.Range(-1, 1)
					if m < 0 {
						m = 0
					}
				}
				if c.greeted {
					emit("set %d %d", ci, m)
					if m >= 0 {
						c.limit = m
					}
					// no admit: raising the limit does not wake the waiter
				}
			}
		case k < 88:
			if len(conns) > 0 {
				emit("pingack %d", r.Intn(len(conns)))
				for ci, c := range conns {
					admit(c, ci)
				}
			}
		case k < 93:
			if nreq > 0 {
				rq := r.Intn(nreq)
				emit("bodyend %d", rq)
				for _, c := range conns {
					for _, s := range c.streams {
						if s.req == rq {
							s.cEnd = true
							finish(s)
						}
					}
				}
			}
		case k < 97:
			if nreq > 0 {
				emit("closebody %d", r.Intn(nreq))
			}
		default:
			if nreq > 0 {
				emit("readbody %d", r.Intn(nreq))
			}
		}
	}
	return ops
}
