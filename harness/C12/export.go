//go:build verif

// White-box harness for C12/C13 (HTTP/2 write schedulers). Injected into
// package http2 as zz_verif_c12.go by `go build -overlay`; never committed.
package http2

import (
	"fmt"
	"os"
	"reflect"
	"sort"
	"strconv"
	"strings"
	"time"
	"unsafe"

	vu "golang.org/x/net/internal/verifutil"
)

// vfFrame is a writeFramer that is not *writeData and not StreamError.
type vfFrame struct{ tag int }

func (vfFrame) writeFrame(writeContext) error { return nil }
func (vfFrame) staysWithinBuffer(int) bool    { return true }

type vfRef struct {
	kind  byte // 'd' data, 'h' hdr, 'c' ctl, 'r' rst
	sid   uint32
	tag   int
	total int
	off   int
	fin   bool
}

func (f vfRef) String() string {
	switch f.kind {
	case 'd':
		return fmt.Sprintf("data(stream=%d tag=%d total=%d sent=%d fin=%v)", f.sid, f.tag, f.total, f.off, f.fin)
	case 'h':
		return fmt.Sprintf("hdr(stream=%d tag=%d)", f.sid, f.tag)
	case 'c':
		return fmt.Sprintf("ctl(tag=%d)", f.tag)
	}
	return fmt.Sprintf("rst(stream=%d tag=%d)", f.sid, f.tag)
}

type vfCase struct {
	kind    string
	ws      WriteScheduler
	sc      *serverConn
	initWin int32
	streams map[uint32]*stream
	// DATA payloads live in one arena so that a popped piece can be located.
	arena    []byte
	arenaPos int
	starts   []int // sorted arena start offsets of pushed non-empty DATA payloads
	startTag map[int]int
	wdTag    map[*writeData]int
	// 7540 config
	maxClosed, maxIdle int

	// reference state of the oracle (the specification: per-stream FIFO + control FIFO)
	refCtl   []vfRef
	refQ     map[uint32][]vfRef
	refOpen  map[uint32]bool
	everOpen map[uint32]bool
	broken   bool // the history left the WriteScheduler contract: oracle off
	// C13 bookkeeping
	c13        bool
	lvlStreak  [8][2]int  // [u][b]: consecutive Pops answered from level u that served the other class while class b was sendable
	refPref    [8]bool // reference prioritizeIncremental[u]: true initially; after level u serves class i it is (i == 0)
	lastNonInc [8]uint32
	skipped    map[uint32]int
	skipBound  map[uint32]int
}

func vfB(b bool) string {
	if b {
		return "1"
	}
	return "0"
}

func (c *vfCase) stream(id uint32) *stream {
	st := c.streams[id]
	if st == nil {
		st = &stream{sc: c.sc, id: id}
		st.flow.conn = &c.sc.flow
		st.flow.n = c.initWin
		c.streams[id] = st
	}
	return st
}

func (c *vfCase) newData(id uint32, tag, n int, fin bool) FrameWriteRequest {
	var p []byte
	if n > 0 {
		p = c.arena[c.arenaPos : c.arenaPos+n : c.arenaPos+n]
		for i := range p {
			p[i] = byte(tag*7 + i)
		}
		c.starts = append(c.starts, c.arenaPos)
		c.startTag[c.arenaPos] = tag
		c.arenaPos += n
	}
	wd := &writeData{streamID: id, p: p, endStream: fin}
	c.wdTag[wd] = tag
	return FrameWriteRequest{write: wd, stream: c.stream(id), done: make(chan error, 1)}
}

// locate returns the tag of the pushed DATA frame w.p is a piece of, and its offset in it.
func (c *vfCase) locate(w *writeData) (tag, off int) {
	if len(w.p) == 0 {
		if t, ok := c.wdTag[w]; ok {
			return t, 0
		}
		return -1, 0
	}
	if len(c.arena) == 0 {
		return -1, 0
	}
	pos := int(uintptr(unsafe.Pointer(unsafe.SliceData(w.p))) - uintptr(unsafe.Pointer(unsafe.SliceData(c.arena))))
	if pos < 0 || pos >= len(c.arena) {
		return -1, 0
	}
	k := sort.SearchInts(c.starts, pos+1) - 1
	if k < 0 {
		return -1, 0
	}
	return c.startTag[c.starts[k]], pos - c.starts[k]
}

type vfPopped struct {
	kind      string // data hdr ctl rst empty none
	sid       uint32
	tag       int
	off, n    int
	fin, last bool
}

func (c *vfCase) describe(wr FrameWriteRequest, ok bool) (vfPopped, string) {
	if !ok {
		return vfPopped{kind: "none"}, "none"
	}
	if wr.write == nil && wr.stream == nil && wr.done == nil {
		return vfPopped{kind: "empty"}, "ok empty"
	}
	switch w := wr.write.(type) {
	case *writeData:
		tag, off := c.locate(w)
		var sid uint32
		if wr.stream != nil {
			sid = wr.stream.id
		}
		p := vfPopped{kind: "data", sid: sid, tag: tag, off: off, n: len(w.p), fin: w.endStream, last: wr.done != nil}
		return p, fmt.Sprintf("ok data %d %d %d %d %s %s", sid, tag, off, len(w.p), vfB(w.endStream), vfB(wr.done != nil))
	case StreamError:
		return vfPopped{kind: "rst", sid: w.StreamID, tag: int(w.Code)}, fmt.Sprintf("ok rst %d %d", w.StreamID, int(w.Code))
	case vfFrame:
		if wr.stream != nil {
			return vfPopped{kind: "hdr", sid: wr.stream.id, tag: w.tag}, fmt.Sprintf("ok hdr %d %d", wr.stream.id, w.tag)
		}
		return vfPopped{kind: "ctl", tag: w.tag}, fmt.Sprintf("ok ctl %d", w.tag)
	}
	return vfPopped{kind: "other"}, "ok other"
}

// vfPrefBits reads the scheduler's prioritizeIncremental state by reflection, so that the harness builds
// both against the per-urgency array and against an older tree with a single global bit.
func vfPrefBits(ws *priorityWriteSchedulerRFC9218) string {
	v := reflect.ValueOf(ws).Elem().FieldByName("prioritizeIncremental")
	bit := func(b bool) string {
		if b {
			return "1"
		}
		return "0"
	}
	if v.Kind() == reflect.Bool {
		return bit(v.Bool())
	}
	out := ""
	for k := 0; k < v.Len(); k++ {
		out += bit(v.Index(k).Bool())
	}
	return out
}

func (c *vfCase) fail(o *vu.Out, desc string) {
	if c.broken {
		return
	}
	o.Fail("", fmt.Sprintf("[%s] %s", c.kind, desc))
}

// sendableRef: is the head of the reference queue of sid sendable under the current windows?
func (c *vfCase) sendableRef(sid uint32) bool {
	q := c.refQ[sid]
	if len(q) == 0 {
		return false
	}
	h := q[0]
	if h.kind != 'd' || h.total-h.off == 0 {
		return true
	}
	st := c.stream(sid)
	a := st.flow.available()
	if c.sc.maxFrameSize < a {
		a = c.sc.maxFrameSize
	}
	return a > 0
}

func (c *vfCase) class9218(sid uint32) (u, i uint8, ok bool) {
	ws, is := c.ws.(*priorityWriteSchedulerRFC9218)
	if !is {
		return 0, 0, false
	}
	m, has := ws.streams[sid]
	if !has || m.location == nil {
		return 0, 0, false
	}
	return m.priority.urgency, m.priority.incremental, true
}

// VerifC12Exec runs op lines on the real schedulers.
func VerifC12Exec(ops []string, o *vu.Out) { vfExec(ops, o, false) }

// VerifC13Exec is VerifC12Exec with the RFC 9218 oracle switched on.
func VerifC13Exec(ops []string, o *vu.Out) { vfExec(ops, o, true) }

func vfExec(ops []string, o *vu.Out, c13 bool) {
	var c *vfCase
	for idx, op := range ops {
		t := strings.Fields(op)
		if len(t) == 0 {
			o.Op(op, "bad-op")
			continue
		}
		if t[0] == "reset" {
			c = vfReset(t, ops[idx+1:], c13)
			if c == nil {
				o.Op(op, "bad-op")
			} else {
				o.Stat("sched:" + c.kind)
				o.Op(op, "ok")
			}
			continue
		}
		if c == nil {
			o.Op(op, "bad-op")
			continue
		}
		newOp, res := c.run(t, op, o)
		o.Op(newOp, res)
		c.checkTree(o)
	}
}

func vfAtoi(s string) (int, bool) {
	v, err := strconv.Atoi(s)
	return v, err == nil
}

func vfInts(t []string) ([]int, bool) {
	out := make([]int, len(t))
	for i, s := range t {
		v, ok := vfAtoi(s)
		if !ok {
			return nil, false
		}
		out[i] = v
	}
	return out, true
}

func vfReset(t []string, rest []string, c13 bool) *vfCase {
	if len(t) < 5 {
		return nil
	}
	a, ok := vfInts(t[2:])
	if !ok {
		return nil
	}
	c := &vfCase{kind: t[1], streams: map[uint32]*stream{}, startTag: map[int]int{}, wdTag: map[*writeData]int{},
		refQ: map[uint32][]vfRef{}, refOpen: map[uint32]bool{}, everOpen: map[uint32]bool{},
		skipped: map[uint32]int{}, skipBound: map[uint32]int{}, c13: c13,
		refPref: [8]bool{true, true, true, true, true, true, true, true}}
	c.sc = &serverConn{maxFrameSize: int32(a[0])}
	c.sc.flow.n = int32(a[1])
	c.initWin = int32(a[2])
	switch t[1] {
	case "rr":
		if len(t) != 5 {
			return nil
		}
		c.ws = newRoundRobinWriteScheduler()
	case "p9218":
		if len(t) != 5 {
			return nil
		}
		c.ws = newPriorityWriteSchedulerRFC9218()
	case "rand":
		if len(t) != 5 {
			return nil
		}
		c.ws = NewRandomWriteScheduler()
	case "p7540":
		if len(t) != 8 || a[3] < 0 || a[4] < 0 || a[5] < 0 || a[5] > 1 {
			return nil
		}
		c.maxClosed, c.maxIdle = a[3], a[4]
		c.ws = NewPriorityWriteScheduler(&PriorityWriteSchedulerConfig{MaxClosedNodesInTree: a[3], MaxIdleNodesInTree: a[4], ThrottleOutOfOrderWrites: a[5] == 1})
	default:
		return nil
	}
	total := 0
	for _, l := range rest {
		f := strings.Fields(l)
		if len(f) == 0 {
			continue
		}
		if f[0] == "reset" {
			break
		}
		if f[0] == "data" && len(f) == 5 {
			if n, ok := vfAtoi(f[3]); ok && n > 0 && n <= 1<<20 {
				total += n
			}
		}
	}
	c.arena = make([]byte, total)
	return c
}

func (c *vfCase) run(t []string, op string, o *vu.Out) (string, string) {
	o.Stat("op:" + t[0])
	switch t[0] {
	case "open":
		a, ok := vfInts(t[1:])
		if !ok || len(a) != 4 || a[0] < 0 || a[1] < 0 || a[2] < 0 || a[2] > 7 || a[3] < 0 || a[3] > 1 {
			return op, "bad-op"
		}
		id := uint32(a[0])
		if id == 0 || c.refOpen[id] || c.everOpen[id] {
			c.broken = true // contract: fresh non-zero ids only
			o.Stat("contract-broken")
		}
		res := vu.Catch(func() string {
			c.ws.OpenStream(id, OpenStreamOptions{PusherID: uint32(a[1]), priority: PriorityParam{urgency: uint8(a[2]), incremental: uint8(a[3])}})
			return "ok"
		})
		if res == "ok" {
			c.refOpen[id] = true
			c.everOpen[id] = true
			c.resetC13(id)
		}
		return op, res
	case "close":
		a, ok := vfInts(t[1:])
		if !ok || len(a) != 1 || a[0] < 0 {
			return op, "bad-op"
		}
		id := uint32(a[0])
		if !c.refOpen[id] {
			c.broken = true
			o.Stat("contract-broken")
		}
		res := vu.Catch(func() string { c.ws.CloseStream(id); return "ok" })
		if len(c.refQ[id]) > 0 {
			o.Stat("close-with-queued-frames")
		}
		delete(c.refQ, id)
		delete(c.refOpen, id)
		c.resetC13(id)
		return op, res
	case "adjust":
		a, ok := vfInts(t[1:])
		if !ok || len(a) != 6 || a[0] < 0 || a[1] < 0 || a[2] < 0 || a[2] > 1 || a[3] < 0 || a[3] > 255 || a[4] < 0 || a[4] > 7 || a[5] < 0 || a[5] > 1 {
			return op, "bad-op"
		}
		id := uint32(a[0])
		if id == 0 {
			c.broken = true
		}
		res := vu.Catch(func() string {
			c.ws.AdjustStream(id, PriorityParam{StreamDep: uint32(a[1]), Exclusive: a[2] == 1, Weight: uint8(a[3]), urgency: uint8(a[4]), incremental: uint8(a[5])})
			return "ok"
		})
		c.resetC13(id)
		return op, res
	case "data":
		a, ok := vfInts(t[1:])
		if !ok || len(a) != 4 || a[0] <= 0 || a[2] < 0 || a[2] > 1<<20 || a[3] < 0 || a[3] > 1 || c.arenaPos+a[2] > len(c.arena) {
			return op, "bad-op"
		}
		id := uint32(a[0])
		wr := c.newData(id, a[1], a[2], a[3] == 1)
		return op, c.push(wr, vfRef{kind: 'd', sid: id, tag: a[1], total: a[2], fin: a[3] == 1}, o)
	case "hdr":
		a, ok := vfInts(t[1:])
		if !ok || len(a) != 2 || a[0] <= 0 {
			return op, "bad-op"
		}
		id := uint32(a[0])
		wr := FrameWriteRequest{write: vfFrame{a[1]}, stream: c.stream(id)}
		return op, c.push(wr, vfRef{kind: 'h', sid: id, tag: a[1]}, o)
	case "ctl":
		a, ok := vfInts(t[1:])
		if !ok || len(a) != 1 {
			return op, "bad-op"
		}
		return op, c.push(FrameWriteRequest{write: vfFrame{a[0]}}, vfRef{kind: 'c', tag: a[0]}, o)
	case "rst":
		a, ok := vfInts(t[1:])
		if !ok || len(a) != 2 || a[0] < 0 || a[1] < 0 {
			return op, "bad-op"
		}
		return op, c.push(FrameWriteRequest{write: StreamError{StreamID: uint32(a[0]), Code: ErrCode(a[1])}}, vfRef{kind: 'r', sid: uint32(a[0]), tag: a[1]}, o)
	case "win":
		a, ok := vfInts(t[1:])
		if !ok || len(a) != 2 || a[0] < 0 {
			return op, "bad-op"
		}
		if a[0] == 0 {
			c.sc.flow.n += int32(a[1])
		} else {
			c.stream(uint32(a[0])).flow.n += int32(a[1])
		}
		return op, "ok"
	case "maxframe":
		a, ok := vfInts(t[1:])
		if !ok || len(a) != 1 {
			return op, "bad-op"
		}
		c.sc.maxFrameSize = int32(a[0])
		return op, "ok"
	case "pparse":
		// Go-side oracle only: parseRFC9218Priority must always produce urgency <= 7, incremental <= 1
		// (the index-safety precondition of the scheduler's heads[u][i]) and the default on failure.
		if len(t) != 3 || (t[2] != "0" && t[2] != "1") {
			return op, "bad-op"
		}
		b, okHex := vu.ParseHex(t[1])
		if !okHex {
			return op, "bad-op"
		}
		return op, vu.Catch(func() string {
			p, ok := parseRFC9218Priority(string(b), t[2] == "1")
			if p.urgency > 7 || p.incremental > 1 {
				o.Fail("", fmt.Sprintf("parseRFC9218Priority(%q) = urgency %d incremental %d (out of range)", b, p.urgency, p.incremental))
			}
			if !ok && p != defaultRFC9218Priority(t[2] == "1") {
				o.Fail("", fmt.Sprintf("parseRFC9218Priority(%q) failed but did not return the default priority", b))
			}
			o.Stat(fmt.Sprintf("pparse:ok=%v", ok))
			return fmt.Sprintf("ok %d %d %s", p.urgency, p.incremental, vfB(ok))
		})
	case "dump":
		if len(t) != 1 {
			return op, "bad-op"
		}
		return op, vu.Catch(func() string { return "ok " + c.dump() })
	case "pop":
		if len(t) > 2 {
			return op, "bad-op"
		}
		return c.pop(o)
	}
	return op, "bad-op"
}

func (c *vfCase) push(wr FrameWriteRequest, rf vfRef, o *vu.Out) string {
	if rf.kind == 'd' || rf.kind == 'h' {
		if !c.refOpen[rf.sid] {
			c.broken = true // contract: stream frames only on open streams
			o.Stat("contract-broken")
		}
	}
	res := vu.Catch(func() string { c.ws.Push(wr); return "ok" })
	if res != "ok" {
		if !c.broken {
			c.fail(o, fmt.Sprintf("Push(%v) panicked on a contract-respecting history", rf))
		}
		return res
	}
	if rf.kind == 'c' || rf.kind == 'r' {
		c.refCtl = append(c.refCtl, rf)
	} else {
		c.refQ[rf.sid] = append(c.refQ[rf.sid], rf)
	}
	return res
}

func (c *vfCase) resetC13(id uint32) {
	delete(c.skipped, id)
	delete(c.skipBound, id)
	for u := range c.lastNonInc {
		if c.lastNonInc[u] == id {
			c.lastNonInc[u] = 0
		}
	}
}

func (c *vfCase) pop(o *vu.Out) (string, string) {
	// snapshot of what is sendable before the call (for the oracle)
	var sendable []uint32
	for sid := range c.refQ {
		if c.sendableRef(sid) {
			sendable = append(sendable, sid)
		}
	}
	sort.Slice(sendable, func(i, j int) bool { return sendable[i] < sendable[j] })
	type winSnap struct{ n, conn, mf int32 }
	snap := map[uint32]winSnap{}
	for sid, st := range c.streams {
		snap[sid] = winSnap{st.flow.n, c.sc.flow.n, c.sc.maxFrameSize}
	}
	ctlBefore := len(c.refCtl)


	var wr FrameWriteRequest
	var ok bool
	var res string
	// Pop runs under a watchdog: a corrupted ring makes the real Pop loop forever; that must become a
	// concrete failing input, not a harness timeout. (20 s is ~10^7 times a normal Pop.)
	popDone := make(chan struct{})
	go func() {
		defer close(popDone)
		res = vu.Catch(func() string { wr, ok = c.ws.Pop(); return "" })
	}()
	select {
	case <-popDone:
	case <-time.After(20 * time.Second):
		o.Fail("", fmt.Sprintf("[%s] Pop did not return within 20 s (infinite loop in the scheduler)", c.kind))
		o.Op("pop", "hang")
		o.Close()
		os.Exit(0)
	}
	if res == "panic" {
		c.fail(o, "Pop panicked")
		return "pop", "panic"
	}
	p, line := c.describe(wr, ok)
	opLine := "pop"
	if c.kind == "rand" {
		if ok && wr.stream != nil {
			opLine = fmt.Sprintf("pop %d", wr.stream.id)
		} else {
			opLine = "pop -"
		}
	}
	o.Stat("pop:" + p.kind)
	if c.broken {
		return opLine, line
	}
	// ---- C12 oracle: the property stated on the implementation, against the reference FIFOs
	switch p.kind {
	case "empty", "other":
		c.fail(o, "Pop returned an empty FrameWriteRequest with ok=true")
		return opLine, line
	case "none":
		if len(c.refCtl) > 0 {
			c.fail(o, fmt.Sprintf("Pop reports nothing to write but control frame %v is queued", c.refCtl[0]))
		}
		for _, sid := range sendable {
			c.fail(o, fmt.Sprintf("Pop reports nothing to write but %v of open stream %d is sendable (window %d/%d, max frame %d)",
				c.refQ[sid][0], sid, c.stream(sid).flow.n, c.sc.flow.n, c.sc.maxFrameSize))
			break
		}
		return opLine, line
	}
	if ctlBefore > 0 {
		h := c.refCtl[0]
		if !((p.kind == "ctl" && h.kind == 'c' && p.tag == h.tag) || (p.kind == "rst" && h.kind == 'r' && p.tag == h.tag && p.sid == h.sid)) {
			c.fail(o, fmt.Sprintf("control frame %v is queued but Pop returned %s", h, line))
			return opLine, line
		}
		c.refCtl = c.refCtl[1:]
		return opLine, line
	}
	if p.kind == "ctl" || p.kind == "rst" {
		c.fail(o, fmt.Sprintf("Pop returned %s which is not queued (control queue is empty)", line))
		return opLine, line
	}
	q := c.refQ[p.sid]
	if len(q) == 0 {
		c.fail(o, fmt.Sprintf("Pop returned %s but stream %d has no queued frame (duplicate or resurrected frame)", line, p.sid))
		return opLine, line
	}
	h := q[0]
	sn := snap[p.sid]
	switch {
	case p.kind == "hdr":
		if h.kind != 'h' || h.tag != p.tag {
			c.fail(o, fmt.Sprintf("out of order: head of stream %d is %v but Pop returned %s", p.sid, h, line))
			return opLine, line
		}
		c.refQ[p.sid] = q[1:]
	case p.kind == "data":
		if h.kind != 'd' || h.tag != p.tag || h.off != p.off {
			c.fail(o, fmt.Sprintf("out of order: head of stream %d is %v but Pop returned %s", p.sid, h, line))
			return opLine, line
		}
		rem := h.total - h.off
		if p.n > rem || (p.n == 0 && rem != 0) {
			c.fail(o, fmt.Sprintf("DATA piece %s does not fit the queued frame %v", line, h))
			return opLine, line
		}
		if p.n > 0 {
			av := sn.n
			if sn.conn < av {
				av = sn.conn
			}
			if int32(p.n) > av || int32(p.n) > sn.mf {
				c.fail(o, fmt.Sprintf("DATA piece %s exceeds flow-control window %d/%d or max frame size %d", line, sn.n, sn.conn, sn.mf))
			}
			st := c.stream(p.sid)
			if st.flow.n != sn.n-int32(p.n) || c.sc.flow.n != sn.conn-int32(p.n) {
				c.fail(o, fmt.Sprintf("DATA piece %s: windows went %d/%d -> %d/%d", line, sn.n, sn.conn, st.flow.n, c.sc.flow.n))
			}
		}
		if p.n == rem {
			if p.fin != h.fin || !p.last {
				c.fail(o, fmt.Sprintf("final piece %s of %v must carry END_STREAM=%v and the done channel", line, h, h.fin))
			}
			c.refQ[p.sid] = q[1:]
		} else {
			if p.fin || p.last {
				c.fail(o, fmt.Sprintf("intermediate piece %s of %v carries END_STREAM or the done channel", line, h))
			}
			q[0].off += p.n
		}
	}
	if c.c13 && c.kind == "p9218" {
		c.oracleC13(o, p.sid, sendable, line)
	}
	return opLine, line
}

// checkTree is the white-box tie for the hypothesis of the conditional RFC 7540 theorem
// (C12.holds_p7540_of_reach): after every call, every node in ws.nodes is reachable from the root through
// kids/next links within len(ws.nodes) steps, and nothing else is.
func (c *vfCase) checkTree(o *vu.Out) {
	ws, ok := c.ws.(*priorityWriteSchedulerRFC7540)
	if !ok || c.broken {
		return
	}
	seen := map[*priorityNodeRFC7540]bool{}
	bad := ""
	var walk func(n *priorityNodeRFC7540, depth int)
	walk = func(n *priorityNodeRFC7540, depth int) {
		if bad != "" {
			return
		}
		if seen[n] || depth > len(ws.nodes) {
			bad = fmt.Sprintf("node %d visited twice or too deep (cycle)", n.id)
			return
		}
		seen[n] = true
		if ws.nodes[n.id] != n {
			bad = fmt.Sprintf("node %d hangs in the tree but is not in ws.nodes", n.id)
			return
		}
		for k := n.kids; k != nil; k = k.next {
			if k.parent != n {
				bad = fmt.Sprintf("node %d is a kid of %d but its parent pointer differs", k.id, n.id)
				return
			}
			walk(k, depth+1)
		}
	}
	walk(&ws.root, 0)
	if bad == "" && len(seen) != len(ws.nodes) {
		bad = fmt.Sprintf("%d nodes in ws.nodes but %d reachable from the root", len(ws.nodes), len(seen))
	}
	if bad != "" {
		c.fail(o, "priority tree: "+bad)
	}
	o.Stat("p7540:tree-checked")
}

// oracleC13 states C13 on the implementation after a Pop that served stream sid.
func (c *vfCase) oracleC13(o *vu.Out, sid uint32, sendable []uint32, line string) {
	ws := c.ws.(*priorityWriteSchedulerRFC9218)
	u, inc, ok := c.class9218(sid)
	if !ok {
		c.fail(o, fmt.Sprintf("Pop served stream %d which is not open in the scheduler", sid))
		return
	}
	otherClass := false
	ringSize := 0
	for id, m := range ws.streams {
		if m.location != nil && m.priority.urgency == u && m.priority.incremental == inc {
			_ = id
			ringSize++
		}
	}
	for _, t := range sendable {
		tu, ti, tok := c.class9218(t)
		if !tok {
			continue
		}
		if tu < u {
			c.fail(o, fmt.Sprintf("urgency inversion: Pop served stream %d (u=%d) while stream %d (u=%d) had a sendable frame", sid, u, t, tu))
		}
		if tu == u && ti != inc {
			otherClass = true
		}
	}
	// whose turn it is at this urgency level comes from the reference (C13.alternation / toggle_flips), not from
	// the scheduler's own field: the level's state changes only when the level itself is served
	want := uint8(0)
	if c.refPref[u] {
		want = 1
	}
	c.refPref[u] = inc == 0
	refBits := ""
	for _, b := range c.refPref {
		refBits += vfB(b)
	}
	if got := vfPrefBits(ws); got != refBits {
		c.fail(o, fmt.Sprintf("prioritizeIncremental=%s is out of step with the per-urgency reference %s (only the level that is served may change)", got, refBits))
	}
	if otherClass {
		if inc != want {
			c.fail(o, fmt.Sprintf("alternation: both classes of urgency %d were sendable, it was the turn of i=%d but stream %d (i=%d) was served", u, want, sid, inc))
		}
		o.Stat("c13:both-classes-sendable")
	}
	// Level fairness, stated on the Pops answered from ONE urgency level: while both classes of the level are
	// sendable, two consecutive Pops answered from the level must not serve the same class.
	other := 1 - inc
	if otherClass {
		c.lvlStreak[u][other]++
		if c.lvlStreak[u][other] >= 2 {
			c.fail(o, fmt.Sprintf("level starvation: %d consecutive Pops answered from urgency %d served class i=%d (last: stream %d) while a stream of class i=%d of the same urgency was sendable", c.lvlStreak[u][other], u, inc, sid, other))
			o.Stat("c13:level-starvation")
		}
	} else {
		c.lvlStreak[u][other] = 0
	}
	c.lvlStreak[u][inc] = 0
	if inc == 0 {
		if prev := c.lastNonInc[u]; prev != 0 && prev != sid {
			for _, t := range sendable {
				if t == prev {
					if pu, pi, pok := c.class9218(prev); pok && pu == u && pi == 0 {
						c.fail(o, fmt.Sprintf("non-incremental stream %d (u=%d) was being served and is still sendable, but Pop switched to stream %d", prev, u, sid))
					}
				}
			}
		}
		c.lastNonInc[u] = sid
		o.Stat("c13:serve-noninc")
	} else {
		o.Stat("c13:serve-inc")
		// every stream of this incremental class that was sendable and not served has waited one more turn
		inSendable := map[uint32]bool{}
		for _, t := range sendable {
			inSendable[t] = true
		}
		for id, m := range ws.streams {
			if m.location == nil || m.priority.urgency != u || m.priority.incremental != 1 {
				continue
			}
			if id == sid || !inSendable[id] {
				delete(c.skipped, id)
				delete(c.skipBound, id)
				continue
			}
			c.skipped[id]++
			if ringSize > c.skipBound[id] {
				c.skipBound[id] = ringSize
			}
			if c.skipped[id] > c.skipBound[id]-1 {
				c.fail(o, fmt.Sprintf("starvation: incremental stream %d (u=%d) stayed sendable but %d Pops of its class (ring size %d) served other streams", id, u, c.skipped[id], c.skipBound[id]))
			}
		}
	}
}

func vfIDs(ids []uint32) string {
	if len(ids) == 0 {
		return "-"
	}
	parts := make([]string, len(ids))
	for i, id := range ids {
		parts[i] = strconv.Itoa(int(id))
	}
	return strings.Join(parts, ",")
}

func vfQLen(q *writeQueue) int { return len(q.currQueue) - q.currPos + len(q.nextQueue) }

// dump prints the scheduler's internal structure canonically (white-box part of the D-tie).
func (c *vfCase) dump() string {
	switch ws := c.ws.(type) {
	case *roundRobinWriteScheduler:
		var ring []uint32
		rev := map[*writeQueue]uint32{}
		for id, q := range ws.streams {
			rev[q] = id
		}
		if ws.head != nil {
			for q := ws.head; ; {
				ring = append(ring, rev[q])
				q = q.next
				if q == ws.head || len(ring) > 1000 {
					break
				}
			}
		}
		var sb strings.Builder
		fmt.Fprintf(&sb, "rr ctl=%d ring=%s q=", vfQLen(&ws.control), vfIDs(ring))
		for _, id := range ring {
			fmt.Fprintf(&sb, "%d,", vfQLen(ws.streams[id]))
		}
		return sb.String()
	case *priorityWriteSchedulerRFC9218:
		rev := map[*writeQueue]uint32{}
		for id, m := range ws.streams {
			rev[m.location] = id
		}
		var sb strings.Builder
		fmt.Fprintf(&sb, "p9 ctl=%d t=%s buf=%d:%d", vfQLen(&ws.control), vfPrefBits(ws), ws.priorityUpdateBuf.streamID,
			2*int(ws.priorityUpdateBuf.priority.urgency)+int(ws.priorityUpdateBuf.priority.incremental))
		for u := 0; u < 8; u++ {
			for i := 0; i < 2; i++ {
				h := ws.heads[u][i]
				if h == nil {
					continue
				}
				var ring []uint32
				for q := h; ; {
					ring = append(ring, rev[q])
					q = q.next
					if q == h || len(ring) > 1000 {
						break
					}
				}
				fmt.Fprintf(&sb, " r%d=%s", 2*u+i, vfIDs(ring))
			}
		}
		return sb.String()
	case *randomWriteScheduler:
		var ids []uint32
		for id := range ws.sq {
			ids = append(ids, id)
		}
		sort.Slice(ids, func(i, j int) bool { return ids[i] < ids[j] })
		return fmt.Sprintf("rand ctl=%d sq=%s", vfQLen(&ws.zero), vfIDs(ids))
	case *priorityWriteSchedulerRFC7540:
		var sb strings.Builder
		fmt.Fprintf(&sb, "p7 max=%d lim=%d pool=%d closed=", ws.maxID, ws.writeThrottleLimit, len(ws.queuePool))
		var cl, il []uint32
		for _, n := range ws.closedNodes {
			cl = append(cl, n.id)
		}
		for _, n := range ws.idleNodes {
			il = append(il, n.id)
		}
		var ids []uint32
		for id := range ws.nodes {
			ids = append(ids, id)
		}
		sort.Slice(ids, func(i, j int) bool { return ids[i] < ids[j] })
		fmt.Fprintf(&sb, "%s idle=%s nodes=%s tree=", vfIDs(cl), vfIDs(il), vfIDs(ids))
		var walk func(n *priorityNodeRFC7540, depth int)
		walk = func(n *priorityNodeRFC7540, depth int) {
			fmt.Fprintf(&sb, "(%d w%d s%d b%d t%d q%d", n.id, n.weight, int(n.state), n.bytes, n.subtreeBytes, vfQLen(&n.q))
			if depth < 100 {
				for k := n.kids; k != nil; k = k.next {
					walk(k, depth+1)
				}
			}
			sb.WriteString(")")
		}
		walk(&ws.root, 0)
		return sb.String()
	}
	return "unknown"
}
