//go:build verif

// C12 harness entry point: HTTP/2 write schedulers (white-box code lives in package http2, see export.go).
package main

import (
	"golang.org/x/net/http2"
	vu "golang.org/x/net/internal/verifutil"
)

func main() { vu.Main(http2.VerifC12Gen, http2.VerifC12Exec) }
