//go:build verif

package http2

import (
	"fmt"

	vu "golang.org/x/net/internal/verifutil"
)

// Schedulers the generator may pick for C12 (weights by repetition).
var vfC12Kinds = []string{"rr", "rr", "p9218", "p9218", "rand", "rand", "p7540", "p7540", "p7540"}

// VerifC12Gen generates one history for a randomly chosen scheduler.
func VerifC12Gen(r *vu.Rng, i int) []string {
	return vfGen(r, vfC12Kinds[r.Intn(len(vfC12Kinds))])
}

// VerifC13Gen generates RFC 9218 histories only (many streams per class, priority updates).
func VerifC13Gen(r *vu.Rng, i int) []string {
	if r.Chance(1, 5) {
		return vfGenAlternation(r)
	}
	return vfGen(r, "p9218")
}

// vfGenAlternation: an incremental and a non-incremental class of the SAME urgency are kept sendable (several
// streams each, plenty of small frames, wide windows) while control frames (ctl / rst) are pushed between the
// stream pops in varying numbers, so control-frame Pops interleave with stream Pops; some runs add a more
// urgent or less urgent bystander, close or re-prioritise a stream midway.
func vfGenAlternation(r *vu.Rng) []string {
	g := &vfGenState{r: r, kind: "p9218", nextID: 1}
	g.add("reset p9218 %d 65535 65535", []int{1, 2, 16384}[r.Intn(3)])
	u := r.Intn(8)
	var ids []int
	nInc, nNon := 1+r.Intn(3), 1+r.Intn(2)
	for k := 0; k < nInc+nNon; k++ {
		id := g.nextID
		g.nextID += 2
		inc := 0
		if k < nInc {
			inc = 1
		}
		if r.Chance(1, 4) {
			// arrive via a buffered PRIORITY_UPDATE
			g.add("adjust %d 0 0 15 %d %d", id, u, inc)
			g.add("open %d 0 %d %d", id, r.Intn(8), r.Intn(2))
		} else {
			g.add("open %d 0 %d %d", id, u, inc)
		}
		ids = append(ids, id)
	}
	if r.Chance(1, 3) && u < 7 {
		id := g.nextID
		g.nextID += 2
		g.add("open %d 0 %d %d", id, u+1, r.Intn(2))
		ids = append(ids, id)
	}
	for _, id := range ids {
		for k := 2 + r.Intn(4); k > 0; k-- {
			g.doPushStream(id)
		}
	}
	// sometimes a MORE urgent stream becomes ready every 2nd or 3rd Pop (one frame pushed just before it)
	urgent, period := 0, 2+r.Intn(2)
	if u > 0 && r.Chance(1, 3) {
		urgent = g.nextID
		g.nextID += 2
		g.add("open %d 0 %d %d", urgent, r.Intn(u), r.Intn(2))
	}
	rounds := 6 + r.Intn(14)
	for k := 0; k < rounds; k++ {
		if urgent != 0 {
			if k%period == 0 {
				g.tag++
				g.add("hdr %d %d", urgent, g.tag)
			}
			g.add("pop")
			if r.Chance(1, 10) {
				g.doPushStream(ids[r.Intn(len(ids))])
			}
			continue
		}
		// 0, 1, 2 or 3 control frames before the next stream pop (one-for-one interleaving is the common case)
		nc := []int{0, 1, 1, 1, 2, 3}[r.Intn(6)]
		for j := 0; j < nc; j++ {
			g.tag++
			if r.Bool() {
				g.add("ctl %d", g.tag)
			} else {
				g.add("rst %d %d", ids[r.Intn(len(ids))], g.tag)
			}
		}
		for j := 0; j < nc+1; j++ {
			g.add("pop")
		}
		switch r.Intn(10) {
		case 0:
			g.doPushStream(ids[r.Intn(len(ids))])
		case 1:
			g.add("adjust %d 0 0 15 %d %d", ids[r.Intn(len(ids))], u, r.Intn(2))
		case 2:
			g.add("dump")
		}
	}
	g.add("dump")
	return g.ops
}

type vfGenState struct {
	r        *vu.Rng
	kind     string
	ops      []string
	nextID   int
	open     []int
	closed   []int
	tag      int
	maxIDs   int
	violate  bool
	queueLen map[int]int
}

func (g *vfGenState) add(f string, a ...any) { g.ops = append(g.ops, fmt.Sprintf(f, a...)) }

func (g *vfGenState) pick(xs []int) int { return xs[g.r.Intn(len(xs))] }

func (g *vfGenState) prio() (u, i int) {
	switch g.r.Intn(4) {
	case 0:
		return 3, 0
	case 1:
		return g.r.Intn(2) + 2, g.r.Intn(2)
	default:
		return g.r.Intn(8), g.r.Intn(2)
	}
}

func (g *vfGenState) anyID() int {
	// an id that may be open, closed, idle (never opened) or far away
	switch g.r.Intn(6) {
	case 0:
		if len(g.closed) > 0 {
			return g.pick(g.closed)
		}
	case 1:
		return g.nextID + 2*g.r.Intn(4) // not yet opened (idle)
	case 2:
		return 1 + g.r.Intn(g.nextID+4)
	}
	if len(g.open) > 0 {
		return g.pick(g.open)
	}
	return 1 + g.r.Intn(g.nextID+2)
}

func (g *vfGenState) doOpen() {
	id := g.nextID
	g.nextID += 2
	if g.r.Chance(1, 8) {
		g.nextID += 2 * g.r.Intn(3) // leave gaps (idle ids below maxID)
	}
	pusher := 0
	if len(g.open) > 0 && g.r.Chance(1, 5) {
		pusher = g.pick(g.open)
	}
	u, i := g.prio()
	g.add("open %d %d %d %d", id, pusher, u, i)
	g.open = append(g.open, id)
}

func (g *vfGenState) doClose(id int) {
	g.add("close %d", id)
	for k, x := range g.open {
		if x == id {
			g.open = append(g.open[:k:k], g.open[k+1:]...)
			g.closed = append(g.closed, id)
			break
		}
	}
}

var vfDataLens = []int{0, 1, 1, 2, 3, 5, 7, 16, 17, 40, 100}

func (g *vfGenState) doPushStream(id int) {
	g.tag++
	if g.r.Chance(1, 4) {
		g.add("hdr %d %d", id, g.tag)
		return
	}
	n := vfDataLens[g.r.Intn(len(vfDataLens))]
	fin := 0
	if g.r.Chance(1, 3) {
		fin = 1
	}
	g.add("data %d %d %d %d", id, g.tag, n, fin)
}

func vfGen(r *vu.Rng, kind string) []string {
	g := &vfGenState{r: r, kind: kind, nextID: 1}
	maxFrames := []int{1, 2, 3, 5, 16, 16384, 16384}
	connWins := []int{0, 4, 25, 200, 65535, 65535}
	initWins := []int{0, 3, 10, 60, 65535, 65535}
	mf, cw, iw := maxFrames[r.Intn(len(maxFrames))], connWins[r.Intn(len(connWins))], initWins[r.Intn(len(initWins))]
	if kind == "p7540" {
		cfg := []int{0, 1, 2, 3, 10}
		g.add("reset p7540 %d %d %d %d %d %d", mf, cw, iw, cfg[r.Intn(len(cfg))], cfg[r.Intn(len(cfg))], r.Intn(2))
	} else {
		g.add("reset %s %d %d %d", kind, mf, cw, iw)
	}
	g.violate = r.Chance(1, 25)
	g.maxIDs = 2 + r.Intn(7)
	n := 10 + r.Intn(70)
	for k := 0; k < n; k++ {
		x := r.Intn(100)
		switch {
		case x < 10:
			if len(g.open)+len(g.closed) < g.maxIDs || len(g.open) == 0 {
				g.doOpen()
			} else if len(g.open) > 0 {
				g.doPushStream(g.pick(g.open))
			}
		case x < 16:
			if len(g.open) > 0 {
				g.doClose(g.pick(g.open))
			}
		case x < 24:
			id := g.anyID()
			u, i := g.prio()
			dep := 0
			if r.Chance(2, 3) {
				dep = g.anyID()
			}
			w := []int{0, 15, 15, 15, 31, 100, 255, r.Intn(256)}[r.Intn(8)]
			g.add("adjust %d %d %d %d %d %d", id, dep, r.Intn(2), w, u, i)
		case x < 50:
			if len(g.open) > 0 {
				g.doPushStream(g.pick(g.open))
			} else {
				g.doOpen()
			}
		case x < 54:
			g.tag++
			g.add("ctl %d", g.tag)
		case x < 57:
			g.tag++
			g.add("rst %d %d", g.anyID(), g.tag)
		case x < 65:
			id := 0
			if r.Chance(2, 3) && g.nextID > 1 {
				id = g.anyID()
			}
			d := []int{-3, -1, 1, 2, 5, 10, 30, 1000}[r.Intn(8)]
			g.add("win %d %d", id, d)
		case x < 67:
			g.add("maxframe %d", maxFrames[r.Intn(len(maxFrames))])
		case x < 71:
			g.add("dump")
		case x < 72 && kind == "p9218":
			g.add("pparse %s %d", vu.Hex([]byte(vfPrioString(r))), r.Intn(2))
		case x < 73 && g.violate:
			// contract violations (the oracle switches itself off; the model must still agree)
			switch r.Intn(4) {
			case 0:
				if len(g.open) > 0 {
					u, i := g.prio()
					g.add("open %d 0 %d %d", g.pick(g.open), u, i)
				}
			case 1:
				g.add("close %d", g.anyID())
			case 2:
				g.doPushStream(g.anyID())
			default:
				if len(g.closed) > 0 {
					u, i := g.prio()
					g.add("open %d 0 %d %d", g.pick(g.closed), u, i)
				}
			}
		default:
			g.add("pop")
		}
	}
	// drain: open the windows and pop until (probably) empty
	if r.Chance(2, 3) {
		g.add("win 0 100000")
		for _, id := range g.open {
			g.add("win %d 100000", id)
		}
		g.add("maxframe 16384")
	}
	for k := r.Intn(12); k > 0; k-- {
		g.add("pop")
	}
	g.add("dump")
	return g.ops
}

// vfPrioString generates `priority` field values: well-formed dictionaries with u/i members in and out of
// range (negative, > 7, huge, decimals, strings, tokens), i as boolean / non-boolean / bare key, duplicated
// keys (last one wins), parameters, other members, odd whitespace, and malformed tails.
func vfPrioString(r *vu.Rng) string {
	uvals := []string{"0", "1", "3", "7", "8", "9", "-1", "-3", "-7", "-8", "-249", "-255", "-256", "255", "256", "263",
		"999999999999999", "-999999999999999", "1.0", "3.5", "-0", "-0.0", "\"3\"", "tok", "?1", "?0", ":AA==:", "@3", "(1 2)", "07", "+1", ""}
	ivals := []string{"", "=?1", "=?0", "=1", "=0", "=tok", "=\"x\"", "=?2", "=?", "=1.5", "=(?1)", "=?1;p=1"}
	if r.Chance(1, 8) {
		return string(r.BytesFrom("ui=?01-., ;789\"", r.Intn(14)))
	}
	var parts []string
	n := 1 + r.Intn(4)
	for k := 0; k < n; k++ {
		switch r.Intn(6) {
		case 0, 1, 2:
			key := "u"
			if r.Chance(1, 12) {
				key = []string{"U", "uu", "u2", "*u"}[r.Intn(4)]
			}
			m := key + "=" + uvals[r.Intn(len(uvals))]
			if r.Chance(1, 6) {
				m += ";x=1"
			}
			parts = append(parts, m)
		case 3, 4:
			parts = append(parts, "i"+ivals[r.Intn(len(ivals))])
		default:
			parts = append(parts, []string{"a=1", "b", "foo=(1 2);q", "x=\"y\""}[r.Intn(4)])
		}
	}
	sep := []string{", ", ",", " , ", ",\t", ", "}[r.Intn(5)]
	out := ""
	for k, p := range parts {
		if k > 0 {
			out += sep
		}
		out += p
	}
	switch r.Intn(12) {
	case 0:
		out += ","
	case 1:
		out += " "
	case 2:
		out = " " + out
	case 3:
		out += ";"
	}
	return out
}
