//go:build verif

// C26 harness (also tie "ackrange" of C25): quic/loss.go lossState with its sentPacketList
// and ccReno, driven white-box the way loss_test.go does (package quic test file).
//
//	reset <side> <mds>
//	send <space> <size> <ackEliciting> <inFlight> <dt>     packetSent with num = nextNumber(space)
//	skip <space> <dt>                                      skipNumber
//	ack <space> <dt> <ackDelay> <s-e,s-e,…>                receiveAckStart / receiveAckRange… / receiveAckEnd
//	                                                       (all ranges are fed even after an error, as
//	                                                       Conn.handleAckFrame does)
//	advance <dt>                                           advance (loss timer)
//	discardpkts <space> | discardkeys <space> <dt> | under <0|1>
//
// exec appends the RTT-estimator outputs the operation used as an annotation to the op line
// (`| ld=… fst=… pcd=…`): they are INPUTS of the Lean model (time decisions come from the
// trace). On replay the annotation is ignored and recomputed.
package quic

import (
	"fmt"
	"sort"
	"strings"
	"testing"
	"time"

	vu "golang.org/x/net/internal/verifutil"
)

func TestVerifC26(t *testing.T) {
	vu.Run(vu.ConfigFromEnv(), func(r *vu.Rng, i int) []string { return c26Gen(r, i, false) }, c26ExecAll)
}

// TestVerifC25Loss: same executor, generator biased to skipped numbers and odd ACK ranges,
// only the C25 oracle (PROTOCOL_VIOLATION for never-sent / skipped numbers) is active.
func TestVerifC25Loss(t *testing.T) {
	vu.Run(vu.ConfigFromEnv(), func(r *vu.Rng, i int) []string { return c26Gen(r, i, true) }, c26ExecC25)
}

var c26Base = time.Date(2024, 1, 1, 0, 0, 0, 0, time.UTC)

var c26MdsPool = []int{1200, 1200, 1252, 1472, 9000, 100, 1, 7360, 16384}

func c26Gen(r *vu.Rng, i int, c25 bool) []string {
	mds := c26MdsPool[r.Intn(len(c26MdsPool))]
	ops := []string{fmt.Sprintf("reset %d %d", r.Intn(2), mds)}
	n := r.Range(6, 80)
	next := [3]int64{}
	start := [3]int64{} // rough guess of the oldest outstanding number
	skips := [3][]int64{}
	space := r.Intn(3)
	dt := func() int64 {
		switch r.Intn(5) {
		case 0:
			return 0
		case 1:
			return int64(r.Range(1, 2000)) * 1000 // µs scale
		case 2:
			return int64(r.Range(1, 400)) * 1000000 // ms scale
		case 3:
			return int64(r.Range(1, 5)) * 1000000000 // seconds: persistent congestion territory
		default:
			return int64(r.Range(1, 50)) * 1000000
		}
	}
	if r.Chance(1, 10) {
		// scripted prefix aiming at persistent congestion: an RTT sample, then two ack-eliciting
		// packets sent seconds apart that are both declared lost by one later ACK
		gap := int64(r.Range(1, 12)) * 1000000000
		ops = append(ops,
			fmt.Sprintf("send %d 100 1 1 0", space),
			fmt.Sprintf("ack %d %d 0 0-1", space, int64(r.Range(1, 60))*1000000),
			fmt.Sprintf("send %d 200 1 1 1000000", space),
			fmt.Sprintf("send %d 200 1 1 %d", space, gap),
			fmt.Sprintf("send %d 200 %d 1 1000", space, r.Intn(2)),
			fmt.Sprintf("send %d 200 1 1 1000", space),
			fmt.Sprintf("send %d 200 1 1 1000", space),
			fmt.Sprintf("send %d 200 1 1 1000", space),
			fmt.Sprintf("ack %d %d 0 %d-7", space, int64(r.Range(1, 3000))*1000000, r.Range(5, 6)))
		next[space] = 7
	}
	for k := 0; k < n; k++ {
		if r.Chance(1, 6) {
			space = r.Intn(3)
		}
		x := r.Intn(100)
		switch {
		case x < 42:
			cnt := 1
			if r.Chance(1, 3) {
				cnt = r.Range(2, 8)
			}
			for j := 0; j < cnt; j++ {
				size := r.Range(1, mds)
				switch r.Intn(6) {
				case 0:
					size = mds
				case 1:
					size = r.Range(0, 40)
				}
				ae, inf := 1, 1
				switch r.Intn(8) {
				case 0:
					ae, inf = 0, 0 // ACK-only packet
				case 1:
					ae, inf = 0, 1 // padding only
				}
				ops = append(ops, fmt.Sprintf("send %d %d %d %d %d", space, size, ae, inf, dt()/4))
				next[space]++
			}
		case x < 48 || (c25 && x < 58):
			ops = append(ops, fmt.Sprintf("skip %d %d", space, dt()/4))
			skips[space] = append(skips[space], next[space])
			next[space]++
		case x < 80:
			// an ACK frame: 1..4 ranges, newest first
			nr := 1
			if r.Chance(1, 2) {
				nr = r.Range(1, 4)
			}
			hi := next[space]
			switch r.Intn(10) {
			case 0:
				hi += int64(r.Range(1, 3)) // beyond anything sent: must be a violation
			case 1, 2:
				hi -= int64(r.Range(0, 4))
			case 3:
				if len(skips[space]) > 0 { // aim at a skipped number
					hi = skips[space][r.Intn(len(skips[space]))] + int64(r.Range(0, 2))
				}
			}
			if hi < 0 {
				hi = 0
			}
			var rs []string
			for j := 0; j < nr && hi > 0; j++ {
				ln := int64(r.Range(1, 6))
				if r.Chance(1, 6) {
					ln = hi - start[space] + int64(r.Range(0, 2))
				}
				if r.Chance(1, 12) {
					ln = 0 // empty range
				}
				if ln < 0 {
					ln = 0
				}
				lo := hi - ln
				if lo < 0 {
					lo = 0
				}
				rs = append(rs, fmt.Sprintf("%d-%d", lo, hi))
				if j == 0 && lo > start[space] && r.Chance(1, 2) {
					// typical cumulative ack moves the window
				}
				hi = lo - int64(r.Range(1, 4))
			}
			if len(rs) == 0 {
				rs = []string{"0-0"}
			}
			delay := int64(r.Range(0, 30)) * 1000000
			ops = append(ops, fmt.Sprintf("ack %d %d %d %s", space, dt(), delay, strings.Join(rs, ",")))
			if r.Chance(1, 2) {
				start[space] = next[space] - int64(r.Range(0, 6))
				if start[space] < 0 {
					start[space] = 0
				}
			}
		case x < 90:
			ops = append(ops, fmt.Sprintf("advance %d", dt()))
		case x < 93:
			ops = append(ops, fmt.Sprintf("under %d", r.Intn(2)))
		case x < 96:
			ops = append(ops, fmt.Sprintf("discardpkts %d", space))
		case x < 98:
			ops = append(ops, fmt.Sprintf("discardkeys %d %d", space, dt()/4))
			next[space], start[space], skips[space] = 0, 0, nil
		default:
			ops = append(ops, fmt.Sprintf("advance %d", dt()*3))
		}
	}
	return ops
}

type c26Rec struct {
	size     int
	inFlight bool
	skipped  bool
	fate     string // "", "acked", "lost", "discarded"
}

type c26Key struct {
	space int
	epoch int
	num   int64
}

type c26State struct {
	c       *lossState
	now     time.Time
	mds     int
	epoch   [3]int
	recs    map[c26Key]*c26Rec
	cbs     []string // callbacks of the current op
	o       *vu.Out
	c25only bool
}

func c26ExecAll(ops []string, o *vu.Out) { c26Exec(ops, o, false) }
func c26ExecC25(ops []string, o *vu.Out) { c26Exec(ops, o, true) }

func c26Exec(ops []string, o *vu.Out, c25only bool) {
	st := &c26State{o: o, c25only: c25only}
	for _, op := range ops {
		base := op
		if i := strings.Index(op, "|"); i >= 0 {
			base = strings.TrimSpace(op[:i])
		}
		ann := ""
		res := vu.Catch(func() string {
			r, a := c26Step(st, base)
			ann = a
			return r
		})
		if ann != "" {
			base += " | " + ann
		}
		o.Op(base, res)
	}
}

func (st *c26State) fail25(sig, desc string) {
	if st.c25only {
		st.o.Fail(sig, desc)
	}
}
func (st *c26State) fail26(sig, desc string) {
	if !st.c25only {
		st.o.Fail(sig, desc)
	}
}

func (st *c26State) ns(t time.Time) string {
	if t.IsZero() {
		return "-"
	}
	return fmt.Sprint(int64(t.Sub(c26Base)))
}

func (st *c26State) onAckOrLoss(space numberSpace, sent *sentPacket, fate packetFate) {
	f := "lost"
	if fate == packetAcked {
		f = "acked"
	}
	st.cbs = append(st.cbs, fmt.Sprintf("%d:%d:%s", space, sent.num, f))
	k := c26Key{int(space), st.epoch[space], int64(sent.num)}
	rec := st.recs[k]
	switch {
	case rec == nil:
		st.fail26("", fmt.Sprintf("callback %s for space %d packet %d which was never recorded as sent", f, space, sent.num))
	case rec.skipped:
		st.fail26("", fmt.Sprintf("callback %s for skipped packet number %d (space %d)", f, sent.num, space))
	case rec.fate != "":
		// ---- oracle: exactly one fate; never both acked and lost
		st.fail26("", fmt.Sprintf("space %d packet %d reported %s after already being %s", space, sent.num, f, rec.fate))
	default:
		rec.fate = f
	}
}

func c26StateChar(s sentPacketState) byte {
	switch s {
	case sentPacketSent:
		return 'S'
	case sentPacketAcked:
		return 'A'
	case sentPacketLost:
		return 'L'
	case sentPacketUnsent:
		return 'U'
	}
	return '?'
}

func (st *c26State) stateStr() string {
	var b strings.Builder
	c := st.c
	for sp := 0; sp < 3; sp++ {
		s := &c.spaces[sp]
		fmt.Fprintf(&b, "s%d=%d,%d,", sp, s.nextNum, s.maxAcked)
		if s.size == 0 {
			b.WriteByte('-')
		}
		for i := 0; i < s.size; i++ {
			b.WriteByte(c26StateChar(s.nth(i).state))
		}
		b.WriteByte(' ')
	}
	cc := c.cc
	ss := "max"
	if cc.slowStartThreshold != int(^uint(0)>>1) {
		ss = fmt.Sprint(cc.slowStartThreshold)
	}
	fmt.Fprintf(&b, "cwnd=%d bif=%d ss=%s pend=%d one=%d rec=%d und=%d rst=%s all=%s",
		cc.congestionWindow, cc.bytesInFlight, ss, cc.congestionPendingAcks, c26b(cc.sendOnePacketInRecovery),
		c26b(cc.inRecovery), c26b(cc.underutilized), st.ns(cc.recoveryStartTime), st.ns(cc.ackLastLoss))
	for sp := 0; sp < 3; sp++ {
		pc := cc.persistentCongestion[sp]
		fmt.Fprintf(&b, " pc%d=%s,%s,%d", sp, st.ns(pc.start), st.ns(pc.end), pc.next)
	}
	return b.String()
}

func c26b(v bool) int {
	if v {
		return 1
	}
	return 0
}

// oracle26 states C26 on the real lossState after an operation.
func (st *c26State) oracle26(op string) {
	c := st.c
	// bytes in flight = sizes of in-flight packets with no fate yet, never negative
	want := 0
	unsettled := map[c26Key]bool{}
	for k, r := range st.recs {
		if k.epoch == st.epoch[k.space] && !r.skipped && r.fate == "" {
			unsettled[k] = true
			if r.inFlight {
				want += r.size
			}
		}
	}
	if c.cc.bytesInFlight != want {
		st.fail26("", fmt.Sprintf("%s: bytesInFlight=%d but in-flight packets without a fate sum to %d", op, c.cc.bytesInFlight, want))
	}
	if c.cc.bytesInFlight < 0 {
		st.fail26("", fmt.Sprintf("%s: bytesInFlight=%d is negative", op, c.cc.bytesInFlight))
	}
	// congestion window never below the minimum window
	if c.cc.congestionWindow < 2*st.mds {
		st.fail26("", fmt.Sprintf("%s: congestionWindow=%d below the minimum window %d", op, c.cc.congestionWindow, 2*st.mds))
	}
	// packets still marked Sent in the lists are exactly the unsettled ones
	inList := 0
	for sp := 0; sp < 3; sp++ {
		s := &c.spaces[sp]
		for i := 0; i < s.size; i++ {
			p := s.nth(i)
			k := c26Key{sp, st.epoch[sp], int64(p.num)}
			if p.state == sentPacketSent {
				inList++
				if !unsettled[k] {
					st.fail26("", fmt.Sprintf("%s: space %d packet %d is still tracked as sent but already has a fate", op, sp, p.num))
				}
			}
		}
	}
	if inList != len(unsettled) {
		var miss []string
		for k := range unsettled {
			if sent := c.spaces[k.space].num(packetNumber(k.num)); sent == nil || sent.state != sentPacketSent {
				miss = append(miss, fmt.Sprintf("%d:%d", k.space, k.num))
			}
		}
		sort.Strings(miss)
		st.fail26("", fmt.Sprintf("%s: packets %v were sent, have no fate, and are no longer tracked", op, miss))
	}
}

func c26Space(s string) (int, bool) {
	if s == "0" || s == "1" || s == "2" {
		return int(s[0] - '0'), true
	}
	return 0, false
}

func c26ParseRanges(s string) ([][2]int64, bool) {
	var out [][2]int64
	for _, part := range strings.Split(s, ",") {
		var a, b int64
		if n, err := fmt.Sscanf(part, "%d-%d", &a, &b); n != 2 || err != nil || a < 0 || b < 0 || a > b {
			return nil, false
		}
		if fmt.Sprintf("%d-%d", a, b) != part {
			return nil, false
		}
		out = append(out, [2]int64{a, b})
	}
	return out, true
}

func (st *c26State) rttAnn(withPcd bool) string {
	c := st.c
	ld := c.lossDuration()
	s := fmt.Sprintf("ld=%d fst=%s", int64(ld), st.ns(c.rtt.firstSampleTime))
	if withPcd {
		d := (c.rtt.smoothedRTT + max(4*c.rtt.rttvar, timerGranularity) + c.maxAckDelay) * 3
		s += fmt.Sprintf(" pcd=%d", int64(d))
	}
	return s
}

func c26Dt(s string) (time.Duration, bool) {
	v := vu.Atoi64(s)
	if v < 0 || v > 3600*1000000000 {
		return 0, false
	}
	return time.Duration(v), true
}

func c26Step(st *c26State, op string) (string, string) {
	t := strings.Fields(op)
	if len(t) == 0 {
		return "bad-op", ""
	}
	st.o.Stat("op:" + t[0])
	if t[0] == "reset" && len(t) == 3 {
		side := vu.Atoi(t[1])
		mds := vu.Atoi(t[2])
		if side < 0 || side > 1 || mds < 1 || mds > 65536 {
			return "bad-op", ""
		}
		st.c = &lossState{}
		st.now = c26Base
		st.mds = mds
		st.c.init(connSide(side), mds, st.now)
		st.c.validateClientAddress() // no anti-amplification limit: not part of C26
		st.epoch = [3]int{}
		st.recs = map[c26Key]*c26Rec{}
		st.oracle26(op)
		return "ok " + st.stateStr(), ""
	}
	if st.c == nil {
		return "bad-op", ""
	}
	c := st.c
	st.cbs = st.cbs[:0]
	switch {
	case t[0] == "send" && len(t) == 6:
		sp, ok := c26Space(t[1])
		size := vu.Atoi(t[2])
		dt, ok2 := c26Dt(t[5])
		if !ok || !ok2 || size < 0 || size > 65536 || (t[3] != "0" && t[3] != "1") || (t[4] != "0" && t[4] != "1") {
			return "bad-op", ""
		}
		st.now = st.now.Add(dt)
		sent := newSentPacket()
		sent.num = c.nextNumber(numberSpace(sp))
		sent.size = size
		sent.ackEliciting = t[3] == "1"
		sent.inFlight = t[4] == "1"
		st.recs[c26Key{sp, st.epoch[sp], int64(sent.num)}] = &c26Rec{size: size, inFlight: sent.inFlight}
		c.packetSent(st.now, nil, numberSpace(sp), sent)
		st.oracle26(op)
		return "ok " + st.stateStr(), ""
	case t[0] == "skip" && len(t) == 3:
		sp, ok := c26Space(t[1])
		dt, ok2 := c26Dt(t[2])
		if !ok || !ok2 {
			return "bad-op", ""
		}
		st.now = st.now.Add(dt)
		st.recs[c26Key{sp, st.epoch[sp], int64(c.nextNumber(numberSpace(sp)))}] = &c26Rec{skipped: true}
		c.skipNumber(st.now, numberSpace(sp))
		st.oracle26(op)
		return "ok " + st.stateStr(), ""
	case t[0] == "ack" && len(t) == 5:
		sp, ok := c26Space(t[1])
		dt, ok2 := c26Dt(t[2])
		delay, ok3 := c26Dt(t[3])
		rs, ok4 := c26ParseRanges(t[4])
		if !ok || !ok2 || !ok3 || !ok4 {
			return "bad-op", ""
		}
		st.now = st.now.Add(dt)
		c.receiveAckStart()
		var viol []string
		for i, r := range rs {
			s := &c.spaces[sp]
			// ---- C25 oracle, evaluated on the state just before the range is processed
			listStart, next := int64(s.start()), int64(s.nextNum)
			lo := max(r[0], listStart)
			expect := r[1] > next
			if !expect {
				for n := lo; n < r[1]; n++ {
					if p := s.num(packetNumber(n)); p != nil && p.state == sentPacketUnsent {
						expect = true
					}
				}
			}
			// a skipped number anywhere in the range (also one whose record the list already dropped)
			for n := r[0]; n < min(r[1], next) && !expect; n++ {
				if rec := st.recs[c26Key{sp, st.epoch[sp], n}]; rec != nil && rec.skipped {
					expect = true
					if n < listStart {
						st.o.Stat("ack:covers-forgotten-skip")
					}
				}
			}
			err := c.receiveAckRange(st.now, numberSpace(sp), i, packetNumber(r[0]), packetNumber(r[1]), st.onAckOrLoss)
			got := false
			if err != nil {
				te, isTE := err.(localTransportError)
				if !isTE || te.code != errProtocolViolation {
					st.fail25("", fmt.Sprintf("receiveAckRange(%d-%d) returned unexpected error %v", r[0], r[1], err))
				}
				got = true
				viol = append(viol, fmt.Sprint(i))
				st.o.Stat("ack:violation")
			}
			if got != expect {
				st.fail25("", fmt.Sprintf("ACK range [%d,%d) in space %d (next=%d, oldest tracked=%d): PROTOCOL_VIOLATION=%v, expected %v (never-sent or skipped number acknowledged)",
					r[0], r[1], sp, next, listStart, got, expect))
			}
		}
		pre := *c.cc
		c.receiveAckEnd(st.now, nil, numberSpace(sp), delay, st.onAckOrLoss)
		switch {
		case !c.cc.recoveryStartTime.IsZero() && !c.cc.recoveryStartTime.Equal(pre.recoveryStartTime):
			st.o.Stat("cc:enter-recovery")
		case c.cc.congestionWindow > pre.congestionWindow && pre.congestionWindow < pre.slowStartThreshold:
			st.o.Stat("cc:slow-start")
		case c.cc.congestionWindow > pre.congestionWindow:
			st.o.Stat("cc:congestion-avoidance")
		}
		anyLost := !pre.ackLastLoss.IsZero() || strings.Contains(strings.Join(st.cbs, ","), "lost")
		if anyLost && c.cc.recoveryStartTime.IsZero() && c.cc.congestionWindow == 2*st.mds {
			st.o.Stat("cc:persistent-congestion")
		}
		if c.cc.congestionWindow == 2*st.mds {
			st.o.Stat("cc:at-minimum-window")
		}
		st.oracle26(op)
		res := "ok"
		if len(viol) > 0 {
			res = "err violation@" + strings.Join(viol, ",")
		}
		return fmt.Sprintf("%s cb=%s %s", res, c26Join(st.cbs), st.stateStr()), st.rttAnn(true)
	case t[0] == "advance" && len(t) == 2:
		dt, ok := c26Dt(t[1])
		if !ok {
			return "bad-op", ""
		}
		st.now = st.now.Add(dt)
		c.advance(st.now, st.onAckOrLoss)
		st.oracle26(op)
		return fmt.Sprintf("ok cb=%s %s", c26Join(st.cbs), st.stateStr()), st.rttAnn(false)
	case t[0] == "under" && len(t) == 2 && (t[1] == "0" || t[1] == "1"):
		c.cc.setUnderutilized(nil, t[1] == "1")
		return "ok " + st.stateStr(), ""
	case t[0] == "discardpkts" && len(t) == 2:
		sp, ok := c26Space(t[1])
		if !ok {
			return "bad-op", ""
		}
		c.discardPackets(numberSpace(sp), nil, st.onAckOrLoss)
		st.oracle26(op)
		return fmt.Sprintf("ok cb=%s %s", c26Join(st.cbs), st.stateStr()), ""
	case t[0] == "discardkeys" && len(t) == 3:
		sp, ok := c26Space(t[1])
		dt, ok2 := c26Dt(t[2])
		if !ok || !ok2 {
			return "bad-op", ""
		}
		st.now = st.now.Add(dt)
		c.discardKeys(st.now, nil, numberSpace(sp))
		for k, r := range st.recs {
			if k.space == sp && k.epoch == st.epoch[sp] && r.fate == "" && !r.skipped {
				r.fate = "discarded"
			}
		}
		st.epoch[sp]++
		st.oracle26(op)
		return "ok " + st.stateStr(), ""
	}
	return "bad-op", ""
}

func c26Join(s []string) string {
	if len(s) == 0 {
		return "-"
	}
	return strings.Join(s, ",")
}
