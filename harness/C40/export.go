//go:build verif

package html

import "sort"

// White-box shims for the C40 harness (injected with -overlay, never committed).

// VerifUnescape runs unescape on a private copy (unescape works in place).
func VerifUnescape(b []byte, attribute bool) []byte {
	c := append([]byte{}, b...)
	return append([]byte{}, unescape(c, attribute)...)
}

// VerifUnescapeEntity runs unescapeEntity; s[0] must be '&'.
func VerifUnescapeEntity(s []byte, attribute bool) (rune, rune, int) {
	return unescapeEntity(append([]byte{}, s...), attribute)
}

// VerifEntityNames returns the sorted keys of entity and entity2.
func VerifEntityNames() []string {
	var out []string
	for k := range entity {
		out = append(out, k)
	}
	for k := range entity2 {
		out = append(out, k)
	}
	sort.Strings(out)
	return out
}

// VerifEscapeCommentString is escapeCommentString.
func VerifEscapeCommentString(s string) string { return escapeCommentString(s) }

// VerifConvertNewlines runs convertNewlines on a private copy.
func VerifConvertNewlines(b []byte) []byte {
	return append([]byte{}, convertNewlines(append([]byte{}, b...))...)
}
