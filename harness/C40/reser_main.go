//go:build verif

// C40 harness, tie "reser" (V-tie, Go oracle only):
//   html  x<input>             tokenize the input; every tag/comment/doctype token t must satisfy
//                              Tokenize(t.String()) == [t]
//   tok   <type> x<data> (x<key> x<val>)*   the same for a directly constructed token from the
//                              domain the tokenizer can produce
//   tree  <items...>           build a tree of ordinary elements with attribute values and text under
//                              <body>, Render it, Parse the result: same elements, same values
//                              (modulo the documented NUL normalisation), no additional element.
package main

import (
	"bytes"
	"fmt"
	"io"
	"sort"
	"strings"

	"golang.org/x/net/html"
	"golang.org/x/net/html/atom"
	vu "golang.org/x/net/internal/verifutil"
)

const alnumLower = "abcdefghijklmnopqrstuvwxyz0123456789"
const valueBytes = "&<>\"'\r\n;#x= \t\x00-!/abcXYZ09"

var tagNames = []string{"a", "b", "br", "div", "p", "span", "img", "input", "script", "style", "title", "textarea",
	"plaintext", "table", "td", "svg", "math", "foreignobject", "x-y", "h1", "custom", "a\"b", "a'b", "a<b", "a&amp;b", "xmp", "noscript", "iframe"}

var ordinary = []string{"div", "span", "section", "article", "em", "strong", "ul", "blockquote", "main", "x-custom"}

func genValue(r *vu.Rng) []byte {
	var b []byte
	for k := r.Intn(5); k > 0; k-- {
		switch r.Intn(7) {
		case 0, 1:
			b = append(b, r.BytesFrom(valueBytes, r.Range(1, 5))...)
		case 2:
			b = append(b, []string{"&amp;", "&lt;", "&#34;", "&amp", "&lt", "&gt=", "&notit;", "&#x80;", "&#13;", "&#0;", "&", "&&", "&#", "&copy=1", "&copy;"}[r.Intn(15)]...)
		case 3:
			b = append(b, []string{"-->", "--!>", "<!--", "</div>", "<script>", "</script>", "<b>", "\"/>", "'>", "->", "!>", "--", "-", ">", "]]>", "<![CDATA["}[r.Intn(16)]...)
		case 4:
			b = append(b, r.BytesFrom(alnumLower+" ", r.Range(1, 8))...)
		case 5:
			b = append(b, []string{"é", "€", "\U0001F600", "\xff", "\xc3", "�"}[r.Intn(6)]...)
		default:
			b = append(b, r.Bytes(r.Range(1, 3))...)
		}
	}
	return b
}

// genHTML: an HTML-ish byte string that exercises the tag/attribute/comment/doctype scanners.
func genHTML(r *vu.Rng) []byte {
	var b []byte
	for k := r.Range(1, 5); k > 0; k-- {
		switch r.Intn(10) {
		case 0, 1, 2, 3: // tag
			b = append(b, '<')
			if r.Chance(1, 4) {
				b = append(b, '/')
			}
			name := tagNames[r.Intn(len(tagNames))]
			if r.Chance(1, 5) {
				name = strings.ToUpper(name)
			}
			b = append(b, name...)
			for a := r.Intn(4); a > 0; a-- {
				b = append(b, " \t\n\r\f/"[r.Intn(6)])
				switch r.Intn(6) {
				case 0:
					b = append(b, r.BytesFrom(alnumLower+"ABC=\"'<&-:", r.Range(1, 5))...)
				default:
					b = append(b, r.BytesFrom(alnumLower, r.Range(1, 5))...)
				}
				switch r.Intn(5) {
				case 0: // no value
				case 1:
					b = append(b, '=')
					b = append(b, bytes.Map(func(c rune) rune {
						if c == ' ' || c == '>' || c == '\t' || c == '\n' || c == '\r' || c == '\f' {
							return 'u'
						}
						return c
					}, genValue(r))...)
				case 2:
					b = append(b, " = '"...)
					b = append(b, bytes.ReplaceAll(genValue(r), []byte("'"), []byte("q"))...)
					b = append(b, '\'')
				default:
					b = append(b, "=\""...)
					b = append(b, bytes.ReplaceAll(genValue(r), []byte("\""), []byte("q"))...)
					b = append(b, '"')
				}
			}
			if r.Chance(1, 5) {
				b = append(b, '/')
			}
			if !r.Chance(1, 12) {
				b = append(b, '>')
			}
		case 4, 5: // comment
			b = append(b, []string{"<!--", "<!--", "<!--", "<!-", "<!", "<?", "</ ", "<!---", "<!--->", "<!-->"}[r.Intn(10)]...)
			b = append(b, genValue(r)...)
			b = append(b, []string{"-->", "-->", "--!>", "->", ">", "", "--", "--->", "-"}[r.Intn(9)]...)
		case 6: // doctype
			b = append(b, []string{"<!DOCTYPE", "<!doctype", "<!DocType"}[r.Intn(3)]...)
			b = append(b, []string{" ", "", "  \n", "\t"}[r.Intn(4)]...)
			if r.Chance(1, 10) {
				b = append(b, []string{"&#32;", "&#9;", "&#x20", "&#10;", "&#13;", "&Tab;", "&NewLine;"}[r.Intn(7)]...)
			}
			switch r.Intn(3) {
			case 0:
				b = append(b, "html"...)
			case 1:
				b = append(b, `html PUBLIC "-//W3C//DTD HTML 4.01//EN" "http://www.w3.org/TR/html4/strict.dtd"`...)
			default:
				b = append(b, bytes.ReplaceAll(genValue(r), []byte(">"), []byte("g"))...)
			}
			if !r.Chance(1, 10) {
				b = append(b, '>')
			}
		case 7: // CDATA-looking / bogus
			b = append(b, "<![CDATA["...)
			b = append(b, genValue(r)...)
			b = append(b, "]]>"...)
		default: // text
			b = append(b, genValue(r)...)
		}
	}
	return b
}

func genTok(r *vu.Rng) string {
	var sb strings.Builder
	switch r.Intn(8) {
	case 0, 1, 2, 3: // start / self-closing tags with attributes
		ty := html.StartTagToken
		if r.Chance(1, 3) {
			ty = html.SelfClosingTagToken
		}
		fmt.Fprintf(&sb, "tok %d %s", ty, vu.Hex([]byte(tagNames[r.Intn(len(tagNames))])))
		used := map[string]bool{}
		for a := r.Intn(4); a > 0; a-- {
			k := string(r.BytesFrom(alnumLower, r.Range(1, 6)))
			if r.Chance(1, 8) {
				k += []string{"\"", "'", "<", "&", "-x", ":y", "`"}[r.Intn(7)]
			} else if r.Chance(1, 12) {
				k = "=" + k // a leading '=' is part of the attribute name
			}
			if used[k] {
				continue
			}
			used[k] = true
			// the tokenizer never yields CR or NUL in a value (CR -> LF, NUL -> U+FFFD)
			v := bytes.ReplaceAll(bytes.ReplaceAll(genValue(r), []byte("\r"), []byte("\n")), []byte("\x00"), []byte("�"))
			fmt.Fprintf(&sb, " %s %s", vu.Hex([]byte(k)), vu.Hex(v))
		}
	case 4: // end tag
		fmt.Fprintf(&sb, "tok %d %s", html.EndTagToken, vu.Hex([]byte(tagNames[r.Intn(len(tagNames))])))
	case 5, 6: // comment: anything the comment scanner can deliver
		v := genValue(r) // CR is deliverable (input "&#13;"), NUL is not (Text() replaces it)
		v = bytes.ReplaceAll(v, []byte("\x00"), []byte("�"))
		v = bytes.ReplaceAll(v, []byte("-->"), []byte("--"))
		v = bytes.ReplaceAll(v, []byte("--!>"), []byte("--!"))
		fmt.Fprintf(&sb, "tok %d %s", html.CommentToken, vu.Hex(v))
	default: // doctype: leading white space and CR are deliverable through character references
		v := genValue(r)
		if r.Chance(1, 8) {
			v = append([]byte(" \t\n\f\r"[r.Intn(5):][:1]), v...)
		}
		fmt.Fprintf(&sb, "tok %d %s", html.DoctypeToken, vu.Hex(v))
	}
	return sb.String()
}

// genTreeNL: the newline class. One element whose content starts with CR / LF combinations, for
// the elements where the parser or Render treat a leading newline specially (pre, listing, textarea),
// the other escapable/raw-text elements, and same-named or plain elements in the SVG/MathML namespaces.
func genTreeNL(r *vu.Rng) string {
	prefix := []string{"\r", "\r\n", "\n", "\n\n", "\n\r", "\r\r", "\r\n\n", "\n\r\n", ""}[r.Intn(9)]
	tail := string(r.BytesFrom("abc xyz\n\r09", r.Intn(6)))
	var items []string
	closeN := 0
	open := func(name string) { items = append(items, "<"+name); closeN++ }
	var el string
	rich := true // text may contain & < > quotes (escaped by Render)
	switch r.Intn(10) {
	case 0, 1, 2:
		el = []string{"pre", "listing", "textarea"}[r.Intn(3)]
	case 3:
		el = []string{"title", "div", "span"}[r.Intn(3)]
	case 4, 5:
		el = []string{"style", "script", "xmp", "iframe", "noembed", "noframes", "noscript"}[r.Intn(7)]
		rich = false
	case 6, 7:
		open("svg:svg")
		el = "svg:" + []string{"textarea", "g", "text", "a"}[r.Intn(4)]
	case 8:
		open("math:math")
		el = "math:" + []string{"textarea", "mrow", "mi"}[r.Intn(3)]
	default:
		open("div")
		el = []string{"pre", "listing", "textarea"}[r.Intn(3)]
	}
	if rich && r.Chance(1, 3) {
		tail += []string{"&amp;", "<b>", "&#13;", "&#10;", "</textarea>", "</pre>", "\"'"}[r.Intn(7)]
	}
	open(el)
	if r.Chance(1, 4) {
		items = append(items, "@a="+vu.Hex([]byte(prefix+tail)))
	}
	items = append(items, "t"+vu.Hex([]byte(prefix+tail)))
	for ; closeN > 0; closeN-- {
		items = append(items, ">")
	}
	return "tree " + strings.Join(items, " ")
}

func genTree(r *vu.Rng) string {
	var items []string
	var rec func(depth int, lastText bool)
	rec = func(depth int, lastText bool) {
		n := r.Range(1, 4)
		for k := 0; k < n; k++ {
			if !lastText && r.Chance(2, 5) {
				items = append(items, "t"+vu.Hex(genValue(r)))
				lastText = true
				continue
			}
			name := ordinary[r.Intn(len(ordinary))]
			items = append(items, "<"+name)
			used := map[string]bool{}
			for a := r.Intn(3); a > 0; a-- {
				key := string(r.BytesFrom("abcdefghij", r.Range(1, 4)))
				if used[key] {
					continue
				}
				used[key] = true
				items = append(items, "@"+key+"="+vu.Hex(genValue(r)))
			}
			if depth < 3 && r.Chance(3, 5) {
				rec(depth+1, false)
			}
			items = append(items, ">")
			lastText = false
		}
	}
	rec(0, false)
	return "tree " + strings.Join(items, " ")
}

func gen(r *vu.Rng, i int) []string {
	switch r.Intn(10) {
	case 0, 1, 2, 3:
		return []string{"html " + vu.Hex(genHTML(r))}
	case 4, 5, 6:
		return []string{genTok(r)}
	case 7:
		return []string{genTreeNL(r)}
	default:
		return []string{genTree(r)}
	}
}

func tokenize(s string) (toks []html.Token, err error) {
	z := html.NewTokenizer(strings.NewReader(s))
	for {
		tt := z.Next()
		if tt == html.ErrorToken {
			return toks, z.Err()
		}
		toks = append(toks, z.Token())
		if len(toks) > 10000 {
			return toks, fmt.Errorf("too many tokens")
		}
	}
}

func tokEqual(a, b html.Token) bool {
	if a.Type != b.Type || a.Data != b.Data || a.DataAtom != b.DataAtom || len(a.Attr) != len(b.Attr) {
		return false
	}
	for i := range a.Attr {
		if a.Attr[i] != b.Attr[i] {
			return false
		}
	}
	return true
}

// checkToken is the Token.String clause of C40 for one token. It returns false on violation.
func checkToken(t html.Token, origin string, o *vu.Out) bool {
	s := t.String()
	back, err := tokenize(s)
	if err != io.EOF {
		o.Fail("tok-roundtrip", fmt.Sprintf("%s: token %#v renders as %q which tokenizes with error %v", origin, t, s, err))
		return false
	}
	if len(back) != 1 || !tokEqual(back[0], t) {
		o.Fail("tok-roundtrip", fmt.Sprintf("%s: token %#v renders as %q which tokenizes to %#v", origin, t, s, back))
		return false
	}
	return true
}

// normNewlines is the tokenizer's newline normalisation (CRLF and CR become LF).
func normNewlines(s string) string {
	return strings.ReplaceAll(strings.ReplaceAll(s, "\r\n", "\n"), "\r", "\n")
}

func sortedAttrs(as []html.Attribute) []html.Attribute {
	out := append([]html.Attribute{}, as...)
	sort.SliceStable(out, func(i, j int) bool {
		if out[i].Namespace != out[j].Namespace {
			return out[i].Namespace < out[j].Namespace
		}
		return out[i].Key < out[j].Key
	})
	return out
}

func execHTML(in []byte, o *vu.Out) string {
	toks, err := tokenize(string(in))
	if err != io.EOF {
		return "err"
	}
	checked := 0
	for _, t := range toks {
		switch t.Type {
		case html.StartTagToken, html.EndTagToken, html.SelfClosingTagToken, html.CommentToken, html.DoctypeToken:
			checked++
			o.Stat(fmt.Sprintf("tok:%v", t.Type))
			if len(t.Attr) > 0 {
				o.Stat("tok:with-attr")
			}
			checkToken(t, fmt.Sprintf("input %q", in), o)
		}
	}
	return fmt.Sprintf("ok %d %d", len(toks), checked)
}

func execTok(f []string, o *vu.Out) string {
	if len(f) < 3 || len(f)%2 != 1 {
		return "bad-op"
	}
	ty := vu.Atoi(f[1])
	t := html.Token{Type: html.TokenType(ty), Data: string(vu.MustHex(f[2]))}
	switch t.Type {
	case html.StartTagToken, html.EndTagToken, html.SelfClosingTagToken:
		// what Tokenizer.Token does: known names are interned
		if a := atom.Lookup([]byte(t.Data)); a != 0 {
			t.DataAtom = a
		}
	case html.CommentToken, html.DoctypeToken:
	default:
		return "bad-op"
	}
	for i := 3; i+1 < len(f); i += 2 {
		t.Attr = append(t.Attr, html.Attribute{Key: string(vu.MustHex(f[i])), Val: string(vu.MustHex(f[i+1]))})
	}
	o.Stat(fmt.Sprintf("ctok:%v", t.Type))
	if checkToken(t, "constructed", o) {
		return "ok 1 1"
	}
	return "ok 1 0"
}

type elem struct {
	name  string
	attrs []html.Attribute
	kids  []any // *elem or string (text)
}

func buildTree(items []string) (*elem, bool) {
	root := &elem{name: "body"}
	stack := []*elem{root}
	for _, it := range items {
		top := stack[len(stack)-1]
		switch {
		case it == ">":
			if len(stack) == 1 {
				return nil, false
			}
			stack = stack[:len(stack)-1]
		case strings.HasPrefix(it, "<"):
			e := &elem{name: it[1:]}
			top.kids = append(top.kids, e)
			stack = append(stack, e)
		case strings.HasPrefix(it, "@"):
			kv := strings.SplitN(it[1:], "=", 2)
			if len(kv) != 2 || len(stack) == 1 || len(top.kids) != 0 {
				return nil, false
			}
			v, ok := vu.ParseHex(kv[1])
			if !ok {
				return nil, false
			}
			top.attrs = append(top.attrs, html.Attribute{Key: kv[0], Val: string(v)})
		case strings.HasPrefix(it, "t"):
			v, ok := vu.ParseHex(it[1:])
			if !ok {
				return nil, false
			}
			top.kids = append(top.kids, string(v))
		default:
			return nil, false
		}
	}
	return root, len(stack) == 1
}

// splitNS: element names in tree ops are "div" (HTML) or "svg:g" / "math:mi" (foreign).
func splitNS(name string) (ns, local string) {
	if i := strings.IndexByte(name, ':'); i >= 0 {
		return name[:i], name[i+1:]
	}
	return "", name
}

// literalText: HTML elements whose text children Render writes unescaped (render.go
// childTextNodesAreLiteral); the tokenizer's CR/CRLF -> LF normalisation applies to that text.
var literalText = map[string]bool{"style": true, "script": true, "xmp": true, "iframe": true,
	"noembed": true, "noframes": true, "noscript": true}

func toNode(e *elem) *html.Node {
	ns, name := splitNS(e.name)
	n := &html.Node{Type: html.ElementNode, Data: name, DataAtom: atom.Lookup([]byte(name)), Namespace: ns, Attr: e.attrs}
	for _, k := range e.kids {
		switch k := k.(type) {
		case *elem:
			n.AppendChild(toNode(k))
		case string:
			n.AppendChild(&html.Node{Type: html.TextNode, Data: k})
		}
	}
	return n
}

// dumpWant: canonical form of the intended tree after the documented normalisations:
// NUL is dropped from body text and becomes U+FFFD in attribute values; empty text vanishes;
// adjacent text nodes merge.
func dumpWant(e *elem, sb *strings.Builder) {
	fmt.Fprintf(sb, "<%s", e.name)
	// attribute order is not part of the property (the parser sorts the attributes of formatting elements)
	for _, a := range sortedAttrs(e.attrs) {
		fmt.Fprintf(sb, " %s=%q", a.Key, strings.ReplaceAll(a.Val, "\x00", "�"))
	}
	sb.WriteString(">")
	text := ""
	flush := func() {
		if text != "" {
			fmt.Fprintf(sb, "T%q", text)
			text = ""
		}
	}
	for _, k := range e.kids {
		switch k := k.(type) {
		case *elem:
			flush()
			dumpWant(k, sb)
		case string:
			if literalText[e.name] {
				text += normNewlines(k)
			} else {
				text += strings.ReplaceAll(k, "\x00", "")
			}
		}
	}
	flush()
	sb.WriteString("</>")
}

func dumpGot(n *html.Node, sb *strings.Builder) {
	if n.Namespace != "" {
		fmt.Fprintf(sb, "<%s:%s", n.Namespace, n.Data)
	} else {
		fmt.Fprintf(sb, "<%s", n.Data)
	}
	for _, a := range sortedAttrs(n.Attr) {
		if a.Namespace != "" {
			fmt.Fprintf(sb, " %s:", a.Namespace)
		}
		fmt.Fprintf(sb, " %s=%q", a.Key, a.Val)
	}
	sb.WriteString(">")
	text := ""
	flush := func() {
		if text != "" {
			fmt.Fprintf(sb, "T%q", text)
			text = ""
		}
	}
	for c := n.FirstChild; c != nil; c = c.NextSibling {
		switch c.Type {
		case html.TextNode:
			text += c.Data
		case html.ElementNode:
			flush()
			dumpGot(c, sb)
		default:
			flush()
			fmt.Fprintf(sb, "<?node type %d %q>", c.Type, c.Data)
		}
	}
	flush()
	sb.WriteString("</>")
}

func findBody(n *html.Node) *html.Node {
	if n.Type == html.ElementNode && n.Data == "body" {
		return n
	}
	for c := n.FirstChild; c != nil; c = c.NextSibling {
		if b := findBody(c); b != nil {
			return b
		}
	}
	return nil
}

func countElems(n *html.Node) int {
	k := 0
	if n.Type == html.ElementNode {
		k = 1
	}
	for c := n.FirstChild; c != nil; c = c.NextSibling {
		k += countElems(c)
	}
	return k
}

func execTree(items []string, o *vu.Out) string {
	root, ok := buildTree(items)
	if !ok {
		return "bad-op"
	}
	doc := &html.Node{Type: html.DocumentNode}
	h := &html.Node{Type: html.ElementNode, Data: "html", DataAtom: atom.Html}
	doc.AppendChild(h)
	h.AppendChild(&html.Node{Type: html.ElementNode, Data: "head", DataAtom: atom.Head})
	body := toNode(root)
	h.AppendChild(body)
	var buf bytes.Buffer
	if err := html.Render(&buf, doc); err != nil {
		o.Fail("render-parse", fmt.Sprintf("Render failed: %v", err))
		return "err"
	}
	doc2, err := html.Parse(bytes.NewReader(buf.Bytes()))
	if err != nil {
		o.Fail("render-parse", fmt.Sprintf("Parse(Render(tree)) failed: %v on %q", err, buf.String()))
		return "err"
	}
	var want, got strings.Builder
	dumpWant(root, &want)
	b2 := findBody(doc2)
	if b2 == nil {
		o.Fail("render-parse", fmt.Sprintf("no body after Parse(Render(tree)): %q", buf.String()))
		return "ok 0"
	}
	dumpGot(b2, &got)
	ne := countElems(doc)
	if want.String() != got.String() {
		o.Fail("render-parse", fmt.Sprintf("rendered %q; intended tree %s; parsed tree %s", buf.String(), want.String(), got.String()))
	} else if ne2 := countElems(doc2); ne2 != ne {
		o.Fail("render-parse", fmt.Sprintf("rendered %q: %d elements before, %d after Parse", buf.String(), ne, ne2))
	}
	// idempotence of the serialisation: rendering the parsed tree gives the same bytes modulo NUL handling
	o.Stat("tree:ok")
	return fmt.Sprintf("ok %d", ne)
}

func failOnPanic(op string, o *vu.Out, f func() string) string {
	res, panicked, msg := vu.CatchMsg(f)
	if panicked {
		o.Fail("panic", fmt.Sprintf("%.80s panicked: %s", op, msg))
	}
	return res
}

func exec(ops []string, o *vu.Out) {
	for _, op := range ops {
		f := strings.Fields(op)
		if len(f) < 2 {
			o.Op(op, "bad-op")
			continue
		}
		o.Stat("op:" + f[0])
		switch f[0] {
		case "html":
			in, ok := vu.ParseHex(f[1])
			if !ok || len(f) != 2 {
				o.Op(op, "bad-op")
				continue
			}
			o.Op(op, failOnPanic(op, o, func() string { return execHTML(in, o) }))
		case "tok":
			o.Op(op, failOnPanic(op, o, func() string { return execTok(f, o) }))
		case "tree":
			o.Op(op, failOnPanic(op, o, func() string { return execTree(f[1:], o) }))
		default:
			o.Op(op, "bad-op")
		}
	}
}

func main() { vu.Main(gen, exec) }
