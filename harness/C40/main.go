//go:build verif

// C40 harness, tie "escape": EscapeString / unescape / unescapeEntity against the Lean model,
// with the round-trip and no-markup properties as Go-side oracle.
package main

import (
	"bytes"
	"fmt"
	"strings"
	"sync"

	"golang.org/x/net/html"
	vu "golang.org/x/net/internal/verifutil"
)

var (
	once  sync.Once
	names []string
)

func setup() { once.Do(func() { names = html.VerifEntityNames() }) }

const special = "&<>\"'\r\n;#xX=&&& \x00"
const alnum = "abcdefghijklmnopqrstuvwxyzABCDEFGHIJKLMNOPQRSTUVWXYZ0123456789"

var numericPool = []string{
	"0", "1", "9", "10", "13", "34", "38", "39", "60", "62", "127", "128", "129", "150", "159", "160", "255", "256",
	"55295", "55296", "57343", "57344", "65533", "65535", "65536", "1114111", "1114112", "1114113", "11141110",
	"99999999999999999999", "0000000000065", "x0", "x1", "xd", "X22", "x26", "x7f", "x80", "x9F", "xa0", "xD7FF",
	"xd800", "xDFFF", "xe000", "xFFFF", "x10000", "x10FFFF", "x110000", "x10FFFF0", "xFFFFFFFFFFFFFFFFF", "x", "X",
	"", "xg", "a", "-1", "+1", "x00041", "x1F600", "128512",
}

// genRef produces one (possibly broken) character reference.
func genRef(r *vu.Rng) []byte {
	setup()
	var b []byte
	b = append(b, '&')
	switch r.Intn(10) {
	case 0, 1, 2: // known name, with or without its ';', maybe truncated or extended
		n := names[r.Intn(len(names))]
		switch r.Intn(6) {
		case 0:
			n = strings.TrimSuffix(n, ";")
		case 1:
			n = n[:r.Intn(len(n)+1)]
		case 2:
			n = strings.TrimSuffix(n, ";") + string(r.BytesFrom(alnum, r.Range(1, 3)))
		case 3:
			n = strings.TrimSuffix(n, ";") + string(r.BytesFrom(alnum, r.Range(1, 3))) + ";"
		}
		b = append(b, n...)
	case 3: // the legacy names that work without ';' followed by more text
		legacy := []string{"amp", "lt", "gt", "quot", "not", "copy", "reg", "nbsp", "AMP", "LT", "GT", "QUOT", "para", "sect", "times", "eth"}
		b = append(b, legacy[r.Intn(len(legacy))]...)
		b = append(b, r.BytesFrom(alnum+";=", r.Intn(4))...)
	case 4, 5: // numeric
		b = append(b, '#')
		b = append(b, numericPool[r.Intn(len(numericPool))]...)
		if r.Bool() {
			b = append(b, ';')
		}
	case 6: // random numeric
		b = append(b, '#')
		if r.Bool() {
			b = append(b, "xX"[r.Intn(2)])
			b = append(b, r.BytesFrom("0123456789abcdefABCDEF", r.Range(0, 8))...)
		} else {
			b = append(b, r.BytesFrom("0123456789", r.Range(0, 9))...)
		}
		if r.Bool() {
			b = append(b, ';')
		}
	case 7: // random alnum name
		b = append(b, r.BytesFrom(alnum, r.Range(0, 8))...)
		if r.Bool() {
			b = append(b, ';')
		}
	case 8: // what escape emits
		e := []string{"amp;", "lt;", "gt;", "#34;", "#39;", "#13;"}
		b = append(b, e[r.Intn(len(e))]...)
	default: // bare
	}
	// what follows matters in attribute mode ('=') and for the scanners
	switch r.Intn(5) {
	case 0:
		b = append(b, '=')
	case 1:
		b = append(b, r.BytesFrom(alnum, 1)...)
	case 2:
		b = append(b, r.BytesFrom(special, 1)...)
	}
	return b
}

func genText(r *vu.Rng) []byte {
	var b []byte
	for k := r.Intn(6); k >= 0; k-- {
		switch r.Intn(6) {
		case 0, 1:
			b = append(b, genRef(r)...)
		case 2:
			b = append(b, r.BytesFrom(special, r.Range(1, 4))...)
		case 3:
			b = append(b, r.BytesFrom(alnum+" ", r.Range(0, 6))...)
		case 4:
			b = append(b, r.Bytes(r.Range(0, 4))...)
		default:
			b = append(b, []string{"é", "€", " ", "\U0001F600", "\xff", "\xc3"}[r.Intn(6)]...)
		}
	}
	return b
}

func genComment(r *vu.Rng) []byte {
	var b []byte
	for k := r.Intn(6); k > 0; k-- {
		switch r.Intn(4) {
		case 0, 1:
			b = append(b, r.BytesFrom("->!&<\r\n a", r.Range(1, 4))...)
		case 2:
			b = append(b, []string{"-->", "--!>", "->", "!>", ">", "&amp;", "&gt;", "<!--", "\r\n", "\r\r\n", "\n\r"}[r.Intn(11)]...)
		default:
			b = append(b, genText(r)...)
		}
	}
	return b
}

func gen(r *vu.Rng, i int) []string {
	switch r.Intn(12) {
	case 10:
		return []string{"cesc " + vu.Hex(genComment(r))}
	case 11:
		return []string{"nl " + vu.Hex(genComment(r))}
	case 0, 1, 2:
		return []string{"esc " + vu.Hex(genText(r))}
	case 3: // unescape what escape produced (round trip as seen by the model too)
		return []string{fmt.Sprintf("unesc %d %s", r.Intn(2), vu.Hex([]byte(html.EscapeString(string(genText(r))))))}
	case 4, 5, 6:
		return []string{fmt.Sprintf("unesc %d %s", r.Intn(2), vu.Hex(genText(r)))}
	default:
		b := genRef(r)
		b = append(b, r.BytesFrom(alnum+special, r.Intn(3))...)
		return []string{fmt.Sprintf("ent %d %s", r.Intn(2), vu.Hex(b))}
	}
}

var emitted = []string{"amp;", "#39;", "lt;", "gt;", "#34;", "#13;"}

func exec(ops []string, o *vu.Out) {
	for _, op := range ops {
		t := strings.Fields(op)
		if len(t) < 2 {
			o.Op(op, "bad-op")
			continue
		}
		o.Stat("op:" + t[0])
		switch {
		case t[0] == "esc" && len(t) == 2:
			s := vu.MustHex(t[1])
			var e string
			res := vu.Catch(func() string { e = html.EscapeString(string(s)); return "ok " + vu.Hex([]byte(e)) })
			o.Op(op, res)
			oracleEscape(s, e, res, o)
		case t[0] == "cesc" && len(t) == 2:
			s := vu.MustHex(t[1])
			var e string
			res := vu.Catch(func() string { e = html.VerifEscapeCommentString(string(s)); return "ok " + vu.Hex([]byte(e)) })
			o.Op(op, res)
			// the escaped comment body must not be able to close the comment early
			if res == "panic" || strings.Contains("<!--"+e, "-->") || strings.Contains("<!--"+e, "--!>") ||
				strings.HasPrefix(e, ">") || strings.HasPrefix(e, "->") {
				o.Fail("", fmt.Sprintf("escapeCommentString(%q) = %q can terminate the comment early (%s)", s, e, res))
			}
		case t[0] == "nl" && len(t) == 2:
			s := vu.MustHex(t[1])
			o.Op(op, vu.Catch(func() string { return "ok " + vu.Hex(html.VerifConvertNewlines(s)) }))
		case t[0] == "unesc" && len(t) == 3 && (t[1] == "0" || t[1] == "1"):
			s := vu.MustHex(t[2])
			attr := t[1] == "1"
			var u []byte
			res := vu.Catch(func() string { u = html.VerifUnescape(s, attr); return "ok " + vu.Hex(u) })
			o.Op(op, res)
			if res == "panic" {
				o.Fail("", fmt.Sprintf("unescape(%q, %v) panicked", s, attr))
			} else if !attr {
				if pub := html.UnescapeString(string(s)); pub != string(u) {
					o.Fail("", fmt.Sprintf("UnescapeString(%q) = %q but unescape(b,false) = %q", s, pub, u))
				}
				if !bytes.Contains(s, []byte("&")) && !bytes.Equal(u, s) {
					o.Fail("", fmt.Sprintf("UnescapeString changed text without '&': %q -> %q", s, u))
				}
			}
		case t[0] == "ent" && len(t) == 3 && (t[1] == "0" || t[1] == "1"):
			s := vu.MustHex(t[2])
			if len(s) == 0 || s[0] != '&' {
				o.Op(op, "bad-op")
				continue
			}
			o.Op(op, vu.Catch(func() string {
				r1, r2, n := html.VerifUnescapeEntity(s, t[1] == "1")
				if n < 1 || n > len(s) {
					o.Fail("", fmt.Sprintf("unescapeEntity(%q) consumed %d of %d bytes", s, n, len(s)))
				}
				return fmt.Sprintf("ok %d %d %d", r1, r2, n)
			}))
		default:
			o.Op(op, "bad-op")
		}
	}
}

// oracleEscape states the escape half of C40 on the implementation.
func oracleEscape(s []byte, e, res string, o *vu.Out) {
	if res == "panic" {
		o.Fail("", fmt.Sprintf("EscapeString(%q) panicked", s))
		return
	}
	if u := html.UnescapeString(e); u != string(s) {
		o.Fail("", fmt.Sprintf("UnescapeString(EscapeString(%q)) = %q (escaped form %q)", s, u, e))
	}
	if u := html.VerifUnescape([]byte(e), true); string(u) != string(s) {
		o.Fail("", fmt.Sprintf("attribute-mode unescape(EscapeString(%q)) = %q (escaped form %q)", s, u, e))
	}
	if i := strings.IndexAny(e, "<>\"'"); i >= 0 {
		o.Fail("", fmt.Sprintf("EscapeString(%q) = %q contains markup byte %q", s, e, e[i]))
	}
	for i := 0; i < len(e); i++ {
		if e[i] != '&' {
			continue
		}
		ok := false
		for _, m := range emitted {
			if strings.HasPrefix(e[i+1:], m) {
				ok = true
			}
		}
		if !ok {
			o.Fail("", fmt.Sprintf("EscapeString(%q) = %q has a bare '&' at %d", s, e, i))
		}
	}
}

func main() { vu.Main(gen, exec) }
