//go:build verif

package quic

// C27 harness: QUIC servers never amplify beyond three times the received bytes
// until the client's address is validated.
//
// Two ties share this file:
//
//   TestVerifC27Counter (D-tie "counter"): the credit arithmetic of a real lossState
//   (init / datagramReceived / packetSent / validateClientAddress / maxSendSize /
//   sendLimit==ccBlocked) against the Lean counter model, op for op.
//
//   TestVerifC27 (V-tie "wire"): a real server Endpoint in the package's own test rig
//   (fake network, synthetic clock of testing/synctest). The harness plays a client
//   that sends Initial datagrams of generated sizes (1200, 1201…1300, 2·1200,
//   coalesced, truncated, duplicated, spoofed, lost replies) with PTO expirations, for
//   both RequireAddressValidation settings, and records every datagram on the wire per
//   direction and address as events after `=>` on the action's op line:
//
//     recv <addr> <n> none|conn|new <hs>   datagram from <addr> reached the endpoint
//     send <addr> <n> conn <credit> <k> | send <addr> <n> ep - <k>   (k: bytes before the zero padding)
//     validated                            the conn's credit became unlimited
//     cred <credit>|-                      real credit when everything is idle
//
//   The Lean monitor (Model/AntiAmp.lean) checks Σsend ≤ 3·Σrecv per address until
//   `validated`, the precondition size ≤ maxSendSize() on the real send path, and that
//   the real antiAmplificationLimit follows the counter model at every send.
//
// Replay strips everything after `=>`.

import (
	"bytes"
	"context"
	"crypto/tls"
	"fmt"
	"net/netip"
	"runtime"
	"strconv"
	"strings"
	"sync"
	"sync/atomic"
	"testing"
	"testing/synctest"
	"time"

	vu "golang.org/x/net/internal/verifutil"
)

const c27Limit = 3

// ---------------------------------------------------------------- counter tie

func c27CounterGen(r *vu.Rng, i int) []string {
	side := 1
	if r.Chance(1, 8) {
		side = 0
	}
	ops := []string{fmt.Sprintf("init %d", side)}
	n := r.Range(3, 40)
	obey := r.Chance(3, 4) // mostly histories that respect the precondition (exec clips the size)
	for k := 0; k < n; k++ {
		switch r.Intn(10) {
		case 0, 1, 2:
			sz := []int{1200, 1250, 1300, 2400, 1, 0, 42, 43, 600, r.Range(1200, 1300), r.Range(0, 70000)}[r.Intn(11)]
			ops = append(ops, fmt.Sprintf("recv %d", sz))
		case 3, 4, 5, 6:
			sz := []int{1200, 1200, 1200, 127, 128, 129, 1, 0, r.Range(0, 1200), r.Range(0, 1500)}[r.Intn(10)]
			fl := r.Intn(4)
			if obey {
				ops = append(ops, fmt.Sprintf("sent %d %d fit", sz, fl))
			} else {
				ops = append(ops, fmt.Sprintf("sent %d %d", sz, fl))
			}
		case 7:
			ops = append(ops, "maxsend")
		case 8:
			ops = append(ops, "blocked")
		default:
			if r.Chance(1, 6) {
				ops = append(ops, "validate")
			} else {
				ops = append(ops, "maxsend")
			}
		}
	}
	return ops
}

func c27ShowCredit(c int) string {
	if c == antiAmplificationUnlimited {
		return "inf"
	}
	return strconv.Itoa(c)
}

func c27CounterExec(ops []string, o *vu.Out) {
	var c lossState
	now := time.Date(2000, 1, 1, 0, 0, 0, 0, time.UTC)
	var recvd, sent int
	server, validated, preOK := true, false, true
	inited := false
	line := func() string { return fmt.Sprintf("ok %s %d %d", c27ShowCredit(c.antiAmplificationLimit), recvd, sent) }
	for _, op := range ops {
		f := strings.Fields(op)
		res := vu.Catch(func() string {
			if len(f) == 0 {
				return "bad-op"
			}
			if !inited && f[0] != "init" {
				c = lossState{}
				c.init(serverSide, smallestMaxDatagramSize, now)
				inited = true
			}
			switch {
			case f[0] == "init" && len(f) == 2:
				side := connSide(vu.Atoi(f[1]))
				c = lossState{}
				c.init(side, smallestMaxDatagramSize, now)
				inited, recvd, sent, validated, preOK = true, 0, 0, false, true
				server = side == serverSide
				return line()
			case f[0] == "recv" && len(f) == 2:
				n := vu.Atoi(f[1])
				now = now.Add(time.Millisecond)
				c.datagramReceived(now, n)
				recvd += n
				return line()
			case f[0] == "sent" && (len(f) == 3 || len(f) == 4):
				return "" // handled below (the op line may be rewritten)
			case f[0] == "validate" && len(f) == 1:
				c.validateClientAddress()
				validated = true
				return line()
			case f[0] == "maxsend" && len(f) == 1:
				return "ok " + c27ShowCredit(c.maxSendSize())
			case f[0] == "blocked" && len(f) == 1:
				lim, _ := c.sendLimit(now)
				if lim == ccBlocked {
					return "ok 1"
				}
				return "ok 0"
			}
			return "bad-op"
		})
		if res == "" {
			n, fl := vu.Atoi(f[1]), vu.Atoi(f[2])
			if len(f) == 4 {
				// "fit": respect the precondition by clipping to maxSendSize()
				if m := c.maxSendSize(); n > m {
					n = m
					o.Stat("counter:clipped")
				}
				op = fmt.Sprintf("sent %d %d", n, fl)
			}
			res = vu.Catch(func() string {
				if n > c.maxSendSize() {
					preOK = false
					o.Stat("counter:pre-violated")
				}
				now = now.Add(time.Millisecond)
				sp := newSentPacket()
				space := initialSpace
				sp.num = c.nextNumber(space)
				sp.size = n
				sp.inFlight = fl&1 != 0
				sp.ackEliciting = fl&2 != 0 && sp.inFlight
				before := c.antiAmplificationLimit
				c.packetSent(now, nil, space, sp)
				sent += n
				if preOK && before != antiAmplificationUnlimited && c.antiAmplificationLimit != before-n {
					o.Fail("", fmt.Sprintf("counter: clamp active although size %d <= maxSendSize: credit %d -> %d", n, before, c.antiAmplificationLimit))
				}
				return line()
			})
		}
		// the property on the real counter: with the precondition, sent <= 3*recvd until validated
		if server && !validated && preOK && sent > c27Limit*recvd {
			o.Fail("", fmt.Sprintf("counter: sent %d > 3*received %d with every send within maxSendSize()", sent, recvd))
		}
		if server && !validated && preOK && c.antiAmplificationLimit != c27Limit*recvd-sent {
			o.Fail("", fmt.Sprintf("counter: credit %d != 3*%d-%d", c.antiAmplificationLimit, recvd, sent))
		}
		o.Op(op, res)
	}
}

func TestVerifC27Counter(t *testing.T) {
	vu.Run(vu.ConfigFromEnv(), c27CounterGen, c27CounterExec)
}

// ---------------------------------------------------------------- wire tie

var (
	c27AddrA = testClientAddr
	c27AddrB = netip.MustParseAddrPort("10.0.0.2:9000")
)

func c27AddrID(a netip.AddrPort) int {
	switch a {
	case c27AddrA:
		return 0
	case c27AddrB:
		return 1
	}
	return 9
}

// c27Case is the state of one case (one endpoint, at most one connection).
type c27Case struct {
	t  *testing.T
	te *testEndpoint
	o  *vu.Out

	mu     sync.Mutex
	events []string // recorded wire events of the current action
	sentB  [][]byte // datagrams sent during the current action (for Retry parsing)

	conn      *Conn // set by the endpoint hook before the conn's loop starts
	nconns    int
	validated bool // a `validated` event has been emitted
	curHS     bool // datagram being delivered carries a genuine Handshake packet

	// client side
	rav       bool
	hello     []byte // ClientHello
	srcID     []byte
	origDCID  []byte // DCID of the Initial that should create the connection
	token     []byte
	pn        [numberSpaceCount]packetNumber
	last      []byte // last datagram sent from address A
	lastHS    bool
	lastInit  []byte // last pure-Initial datagram
	connDCID  []byte

	// oracle shadow
	recvd, sent map[int]int
	hs                map[int]bool
	shadow            int
	haveConn          bool
	connAddr          int
	valid             map[int]bool
}

type c27Hooks struct{ x *c27Case }

func (h c27Hooks) newConn(c *Conn, cids newServerConnIDs) {
	(*testEndpointHooks)(h.x.te).newConn(c, cids)
	h.x.mu.Lock()
	h.x.conn = c
	h.x.nconns++
	h.x.mu.Unlock()
}

type c27UDP struct{ x *c27Case }

func (u c27UDP) Close() error              { return (*testEndpointUDPConn)(u.x.te).Close() }
func (u c27UDP) LocalAddr() netip.AddrPort { return (*testEndpointUDPConn)(u.x.te).LocalAddr() }
func (u c27UDP) Read(f func(*datagram)) {
	(*testEndpointUDPConn)(u.x.te).Read(func(m *datagram) { u.x.onRecv(m, f) })
}
func (u c27UDP) Write(d datagram) error { u.x.onSend(d); return nil }

// onRecv runs on the endpoint's listen goroutine around the real handler.
func (x *c27Case) onRecv(m *datagram, f func(*datagram)) {
	b := append([]byte(nil), m.b...)
	addr := m.peerAddr
	x.mu.Lock()
	idx := len(x.events)
	x.events = append(x.events, "")
	before := x.nconns
	hs := x.curHS
	x.mu.Unlock()
	f(m)
	// How the real endpoint routed it: its connection-ID table is owned by this goroutine.
	route := "none"
	if dst, ok := dstConnIDForDatagram(b); ok {
		if c := x.te.e.connsMap.byConnID[string(dst)]; c != nil {
			route = "conn"
		}
	}
	x.mu.Lock()
	if x.nconns > before {
		route = "new"
	}
	h := 0
	if hs {
		h = 1
	}
	x.events[idx] = fmt.Sprintf("recv %d %d %s %d", c27AddrID(addr), len(b), route, h)
	x.mu.Unlock()
}

func c27FromMaybeSend() bool {
	var pcs [32]uintptr
	n := runtime.Callers(2, pcs[:])
	fr := runtime.CallersFrames(pcs[:n])
	for {
		f, more := fr.Next()
		if strings.HasSuffix(f.Function, "(*Conn).maybeSend") {
			return true
		}
		if !more {
			return false
		}
	}
}

// c27Unpadded returns the number of bytes taken by packets, i.e. the datagram size minus the zero
// padding that follows the last long-header packet (a short-header packet extends to the end).
func c27Unpadded(b []byte) int {
	k := 0
	for len(b) > 0 && b[0] != 0 {
		if !isLongHeader(b[0]) || getPacketType(b) == packetTypeRetry || getPacketType(b) == packetTypeVersionNegotiation {
			return k + len(b)
		}
		n := skipLongHeaderPacket(b)
		if n <= 0 || n > len(b) {
			return k + len(b)
		}
		k += n
		b = b[n:]
	}
	return k
}

// onSend is packetConn.Write: on the conn's goroutine for Conn.maybeSend, on the listen
// goroutine for endpoint-level replies.
func (x *c27Case) onSend(d datagram) {
	byConn := c27FromMaybeSend()
	x.mu.Lock()
	defer x.mu.Unlock()
	x.sentB = append(x.sentB, append([]byte(nil), d.b...))
	a := c27AddrID(d.peerAddr)
	if byConn && x.conn != nil {
		cr := x.conn.loss.antiAmplificationLimit // same goroutine as packetSent
		if cr == antiAmplificationUnlimited && !x.validated {
			x.validated = true
			x.events = append(x.events, "validated")
		}
		x.events = append(x.events, fmt.Sprintf("send %d %d conn %s %d", a, len(d.b), c27ShowCredit(cr), c27Unpadded(d.b)))
		return
	}
	x.events = append(x.events, fmt.Sprintf("send %d %d ep - %d", a, len(d.b), c27Unpadded(d.b)))
}

func (x *c27Case) connDone() bool {
	if x.conn == nil {
		return false
	}
	select {
	case <-x.conn.donec:
		return true
	default:
		return false
	}
}

func (x *c27Case) tc() *testConn {
	if x.conn == nil {
		return nil
	}
	return x.te.conns[x.conn]
}

// deliver hands a datagram to the endpoint and waits until everything is idle.
func (x *c27Case) deliver(b []byte, from netip.AddrPort, hs bool) {
	x.mu.Lock()
	x.curHS = hs
	x.mu.Unlock()
	x.te.write(&datagram{b: append([]byte(nil), b...), peerAddr: from})
	synctest.Wait()
	if from == c27AddrA {
		x.last, x.lastHS = append([]byte(nil), b...), hs
	}
}

func (x *c27Case) padTo(b []byte, size int) []byte {
	for len(b) < size {
		b = append(b, 0)
	}
	return b
}

// dcid picks the destination connection ID for a client packet.
func (x *c27Case) dcid(kind string, ptype packetType) []byte {
	if x.conn == nil {
		return x.origDCID
	}
	loc := x.conn.connIDState.local
	if (kind == "srv" || ptype != packetTypeInitial) && len(loc) > 1 {
		return loc[1].cid
	}
	if len(loc) > 0 {
		return loc[0].cid
	}
	return x.connDCID
}

// routable reports whether delivering b cannot start a SECOND connection: once the
// connection exists, the datagram must be addressed to one of its current connection IDs
// (the transient client-chosen ID is retired when the first Handshake packet is processed;
// a later Initial for it is a new connection attempt, which this one-connection rig avoids).
func (x *c27Case) routable(b []byte) bool {
	if x.conn == nil {
		return true
	}
	dst, ok := dstConnIDForDatagram(b)
	if !ok {
		return true
	}
	for _, l := range x.conn.connIDState.local {
		if bytes.Equal(l.cid, dst) {
			return true
		}
	}
	return false
}

func (x *c27Case) initialPacket(kind string, ack bool) *testPacket {
	p := &testPacket{
		ptype:     packetTypeInitial,
		num:       x.pn[initialSpace],
		version:   quicVersion1,
		srcConnID: x.srcID,
		dstConnID: x.dcid(kind, packetTypeInitial),
		token:     x.token,
	}
	x.pn[initialSpace]++
	if ack && x.conn != nil {
		if n := x.conn.loss.spaces[initialSpace].nextNum; n > 0 {
			p.frames = append(p.frames, debugFrameAck{ranges: []i64range[packetNumber]{{0, n}}})
		}
	}
	p.frames = append(p.frames, debugFrameCrypto{data: x.hello})
	return p
}

// canEncode reports whether encodeTestPacket has the keys it needs (it would t.Fatal otherwise).
func (x *c27Case) canEncode(p *testPacket) (*testConn, bool) {
	tc := x.te.connForDestination(p.dstConnID)
	switch p.ptype {
	case packetTypeInitial:
		return tc, tc == nil || tc.keysInitial.w.isSet()
	case packetTypeHandshake:
		return tc, tc != nil && tc.keysHandshake.w.isSet()
	}
	return tc, false
}

func (x *c27Case) encode(p *testPacket) []byte {
	tc, ok := x.canEncode(p)
	if !ok {
		return nil
	}
	return encodeTestPacket(x.t, tc, p, 0)
}

func (x *c27Case) handshakePacket(kind string) *testPacket {
	tc := x.tc()
	if tc == nil || !tc.keysHandshake.w.isSet() {
		return nil
	}
	p := &testPacket{
		ptype:     packetTypeHandshake,
		num:       x.pn[handshakeSpace],
		version:   quicVersion1,
		srcConnID: x.srcID,
		dstConnID: x.dcid("srv", packetTypeHandshake),
	}
	switch kind {
	case "ack":
		if n := x.conn.loss.spaces[handshakeSpace].nextNum; n > 0 {
			p.frames = append(p.frames, debugFrameAck{ranges: []i64range[packetNumber]{{0, n}}})
		} else {
			p.frames = append(p.frames, debugFramePing{})
		}
	case "fin":
		if d := tc.cryptoDataIn[tls.QUICEncryptionLevelHandshake]; len(d) > 0 {
			p.frames = append(p.frames, debugFrameCrypto{data: d})
		} else {
			p.frames = append(p.frames, debugFramePing{})
		}
	default:
		p.frames = append(p.frames, debugFramePing{})
	}
	x.pn[handshakeSpace]++
	return p
}

// noteRetry looks for a Retry among the datagrams the endpoint just sent.
func (x *c27Case) noteRetry() {
	x.mu.Lock()
	bufs := x.sentB
	x.sentB = nil
	x.mu.Unlock()
	for _, b := range bufs {
		if len(b) > 0 && isLongHeader(b[0]) && len(b) >= 5 && getPacketType(b) == packetTypeRetry {
			if r, ok := parseRetryPacket(b, x.origDCID); ok && x.conn == nil && x.token == nil {
				x.token = bytes.Clone(r.token)
				x.origDCID = bytes.Clone(r.srcConnID)
				x.o.Stat("wire:retry-received")
			}
		}
	}
}

func (x *c27Case) credit() string {
	if x.conn == nil {
		return "-"
	}
	return c27ShowCredit(x.conn.loss.antiAmplificationLimit)
}

// act runs one client action; it returns false when the action was skipped.
func (x *c27Case) act(f []string) bool {
	arg := func(i int) int {
		if i < len(f) {
			return vu.Atoi(f[i])
		}
		return 1200
	}
	switch f[0] {
	case "initial": // initial <size> <orig|srv> <ack:0|1>
		kind, ack := "orig", false
		if len(f) > 2 {
			kind = f[2]
		}
		if len(f) > 3 {
			ack = f[3] == "1"
		}
		p := x.initialPacket(kind, ack)
		b := x.encode(p)
		if b == nil {
			return false
		}
		b = x.padTo(b, arg(1))
		x.lastInit = append([]byte(nil), b...)
		x.deliver(b, c27AddrA, false)
		if x.conn != nil && x.connDCID == nil {
			x.connDCID = bytes.Clone(p.dstConnID)
		}
	case "short": // an Initial in a datagram below 1200 bytes
		p := x.initialPacket("orig", false)
		p.frames = []debugFrame{debugFramePing{}}
		b := x.encode(p)
		if b == nil {
			return false
		}
		x.deliver(x.padTo(b, arg(1)), c27AddrA, false)
	case "badtok":
		p := x.initialPacket("orig", false)
		p.token = append(bytes.Clone(x.token), 0)
		b := x.encode(p)
		if b == nil {
			return false
		}
		x.deliver(x.padTo(b, arg(1)), c27AddrA, false)
	case "dup":
		if x.last == nil || !x.routable(x.last) {
			return false
		}
		x.deliver(x.last, c27AddrA, x.lastHS)
	case "trunc":
		if x.lastInit == nil || !x.routable(x.lastInit) {
			return false
		}
		n := arg(1)
		if n > len(x.lastInit) {
			n = len(x.lastInit)
		}
		x.deliver(x.lastInit[:n], c27AddrA, false)
	case "coal": // Initial + genuine Handshake (when the client has handshake keys) + zero padding
		p := x.initialPacket("orig", len(f) > 2 && f[2] == "1")
		b := x.encode(p)
		if b == nil {
			return false
		}
		hs := false
		if hp := x.handshakePacket("ping"); hp != nil {
			if hb := x.encode(hp); hb != nil {
				b = append(b, hb...)
				hs = true
			}
		}
		x.deliver(x.padTo(b, arg(1)), c27AddrA, hs)
	case "hs": // hs <ping|ack|fin>
		kind := "ping"
		if len(f) > 1 {
			kind = f[1]
		}
		hp := x.handshakePacket(kind)
		if hp == nil {
			return false
		}
		b := x.encode(hp)
		if b == nil {
			return false
		}
		x.deliver(b, c27AddrA, true)
	case "fakehs": // Handshake-type long header with a random body, addressed to the connection
		n := arg(1)
		b := make([]byte, 0, n)
		b = append(b, headerFormLong|fixedBit|longPacketTypeHandshake|0x03, 0, 0, 0, 1)
		d := x.dcid("srv", packetTypeHandshake)
		b = append(b, byte(len(d)))
		b = append(b, d...)
		b = append(b, byte(len(x.srcID)))
		b = append(b, x.srcID...)
		b = append(b, 0x40|byte((n>>8)&0x3f), byte(n)) // length (may overrun: parser must cope)
		for i := 0; len(b) < n; i++ {
			b = append(b, byte(37*i+11))
		}
		x.deliver(b, c27AddrA, false)
	case "spoof": // the last client datagram, from another source address
		if x.lastInit == nil || !x.routable(x.lastInit) {
			return false
		}
		x.deliver(x.padTo(append([]byte(nil), x.lastInit...), arg(1)), c27AddrB, false)
	case "garbage": // long header, unknown destination connection ID, not an Initial
		n := arg(1)
		b := []byte{headerFormLong | fixedBit | longPacketTypeHandshake, 0, 0, 0, 1, 8, 9, 9, 9, 9, 9, 9, 9, 9, 4, 1, 2, 3, 4}
		for i := 0; len(b) < n; i++ {
			b = append(b, byte(13*i+5))
		}
		x.deliver(b, c27AddrA, false)
	case "shortgarbage": // short header, unknown connection: may draw a stateless reset
		n := arg(1)
		b := []byte{fixedBit}
		for i := 0; len(b) < n; i++ {
			b = append(b, byte(29*i+3))
		}
		x.deliver(b, c27AddrA, false)
	case "vn": // Initial-looking packet of an unknown version, unknown connection
		n := arg(1)
		b := []byte{headerFormLong | fixedBit, 0x0a, 0x0a, 0x0a, 0x0a, 8, 7, 7, 7, 7, 7, 7, 7, 7, 4, 1, 2, 3, 4}
		for i := 0; len(b) < n; i++ {
			b = append(b, byte(7*i+1))
		}
		x.deliver(b, c27AddrA, false)
	case "pto": // let the synthetic clock run to the conn's next timer
		d := time.Second
		if x.conn != nil && !x.connDone() {
			if tc := x.tc(); tc != nil {
				if next := tc.nextEvent(); !next.IsZero() {
					d = time.Until(next)
				}
			}
		}
		if d < 0 {
			d = 0
		}
		if d > 5*time.Minute {
			d = 5 * time.Minute
		}
		time.Sleep(d)
		synctest.Wait()
	case "sleep":
		time.Sleep(time.Duration(arg(1)) * time.Millisecond)
		synctest.Wait()
	default:
		return false
	}
	return true
}

// oracle replays the recorded events against the property, stated directly on the implementation's
// observable behaviour.
func (x *c27Case) oracle(evs []string) {
	for _, e := range evs {
		f := strings.Fields(e)
		switch f[0] {
		case "recv":
			a, n := vu.Atoi(f[1]), vu.Atoi(f[2])
			x.recvd[a] += n
			if f[4] == "1" {
				x.hs[a] = true
			}
			switch f[3] {
			case "new":
				if x.haveConn {
					x.o.Fail("", "harness: a second connection was created")
				}
				x.haveConn, x.connAddr, x.shadow = true, a, c27Limit*n
			case "conn":
				if a == x.connAddr && x.shadow != antiAmplificationUnlimited {
					x.shadow += c27Limit * n
				}
			}
		case "send":
			a, n, k := vu.Atoi(f[1]), vu.Atoi(f[2]), vu.Atoi(f[5])
			x.sent[a] += n
			if f[3] == "conn" {
				if a != x.connAddr {
					x.o.Fail("", fmt.Sprintf("connection for address %d sent %d bytes to address %d", x.connAddr, n, a))
				}
				if x.shadow != antiAmplificationUnlimited {
					pre := x.shadow
					if n > pre {
						// the send path did not respect size <= maxSendSize(): the clamp hides the excess
						x.o.Fail("", fmt.Sprintf("server sent a %d-byte datagram (%d bytes before padding) with only %d bytes of anti-amplification credit (total sent %d, 3*received %d)", n, k, pre, x.sent[a], c27Limit*x.recvd[a]))
					}
					x.shadow = max(0, pre-n)
					if got := f[4]; got != c27ShowCredit(x.shadow) {
						x.o.Fail("", fmt.Sprintf("credit after sending %d bytes with %d: real %s, expected %d", n, pre, got, x.shadow))
					}
				}
			}
			if !x.valid[a] && x.sent[a] > c27Limit*x.recvd[a] {
				x.o.Fail("", fmt.Sprintf("address %d not validated: sent %d > 3*received %d", a, x.sent[a], c27Limit*x.recvd[a]))
			}
		case "validated":
			if !x.hs[x.connAddr] {
				x.o.Fail("", "address validated although the client never sent a genuine Handshake packet")
			}
			x.valid[x.connAddr] = true
			x.shadow = antiAmplificationUnlimited
		case "cred":
			want := "-"
			if x.haveConn {
				want = c27ShowCredit(x.shadow)
			}
			if f[1] != want {
				x.o.Fail("", fmt.Sprintf("idle credit: real %s, expected %s", f[1], want))
			}
		}
	}
}

func (x *c27Case) run(ops []string, abandoned *atomic.Bool) {
	emit := func(op, obs string) {
		if !abandoned.Load() {
			x.o.Op(op+" => "+obs, "ok")
		}
	}
	for i, op := range ops {
		f := strings.Fields(op)
		if len(f) == 0 {
			emit(op, "-")
			continue
		}
		if f[0] == "reset" {
			if i != 0 || x.te != nil {
				x.o.Op(op, "bad-op")
				continue
			}
			hto := 10
			for _, kv := range f[1:] {
				switch {
				case strings.HasPrefix(kv, "rav="):
					x.rav = kv == "rav=1"
				case strings.HasPrefix(kv, "hto="):
					hto = vu.Atoi(kv[4:])
				}
			}
			config := &Config{
				TLSConfig:                newTestTLSConfig(serverSide),
				RequireAddressValidation: x.rav,
				HandshakeTimeout:         time.Duration(hto) * time.Second,
				StatelessResetKey:        testStatelessResetKey,
			}
			te := &testEndpoint{
				t:     x.t,
				recvc: make(chan *datagram),
				idlec: make(chan struct{}),
				conns: make(map[*Conn]*testConn),
			}
			x.te = te
			var err error
			te.e, err = newEndpoint(c27UDP{x}, config, c27Hooks{x})
			if err != nil {
				x.t.Fatal(err)
			}
			x.t.Cleanup(te.cleanup)
			x.srcID = testPeerConnID(0)
			x.origDCID = testLocalConnID(-1)
			params := defaultTransportParameters()
			params.initialSrcConnID = x.srcID
			x.hello = initialClientCrypto(x.t, te, params)
			emit(op, "-")
			continue
		}
		if x.te == nil {
			x.o.Op(op, "bad-op")
			continue
		}
		if x.connDone() {
			// the connection is gone; a further Initial would start a second one
			x.o.Stat("wire:skipped-after-conn-done")
			emit(op, "-")
			continue
		}
		x.mu.Lock()
		x.events, x.sentB = nil, nil
		x.mu.Unlock()
		ok := vu.Catch(func() string {
			if x.act(f) {
				return "ok"
			}
			return "skip"
		})
		synctest.Wait()
		x.noteRetry()
		x.mu.Lock()
		evs := append([]string(nil), x.events...)
		x.mu.Unlock()
		if x.conn != nil && !x.validated && x.conn.loss.antiAmplificationLimit == antiAmplificationUnlimited {
			x.validated = true
			evs = append(evs, "validated")
		}
		evs = append(evs, "cred "+x.credit())
		if ok == "panic" {
			x.o.Fail("", "panic while executing "+op)
		}
		x.o.Stat("wire:act:" + f[0] + ":" + ok)
		x.oracle(evs)
		emit(op, strings.Join(evs, " ; "))
	}
}

func c27WireGen(r *vu.Rng, i int) []string {
	rav := r.Intn(2)
	hto := []int{10, 10, 40, 120}[r.Intn(4)]
	ops := []string{fmt.Sprintf("reset rav=%d hto=%d", rav, hto)}
	size := func() int {
		switch r.Intn(8) {
		case 0:
			return 1200
		case 1:
			return r.Range(1201, 1300)
		case 2:
			return []int{1242, 1243, 1250, 1300, 1599, 1600, 1601, 1999}[r.Intn(8)]
		case 3:
			return 2400
		case 4:
			return r.Range(1200, 2400)
		default:
			return r.Range(1200, 1300)
		}
	}
	if rav == 1 {
		// token-less Initial (draws a Retry), sometimes repeated or followed by a bad token
		ops = append(ops, fmt.Sprintf("initial %d orig 0", size()))
		if r.Chance(1, 4) {
			ops = append(ops, "dup")
		}
		if r.Chance(1, 5) {
			ops = append(ops, fmt.Sprintf("badtok %d", size()))
		}
	}
	if r.Chance(1, 6) {
		ops = append(ops, []string{"vn 1200", "garbage 1300", "shortgarbage 60", "short 700"}[r.Intn(4)])
	}
	ops = append(ops, fmt.Sprintf("initial %d orig 0", size()))
	n := r.Range(2, 12)
	lossy := r.Chance(1, 2) // the server's replies are lost: mostly timers
	for k := 0; k < n; k++ {
		c := r.Intn(100)
		if lossy && c < 55 {
			ops = append(ops, "pto")
			continue
		}
		switch {
		case c < 20:
			ops = append(ops, "pto")
		case c < 30:
			ops = append(ops, "dup")
		case c < 40:
			ops = append(ops, fmt.Sprintf("initial %d %s %d", size(), []string{"orig", "srv"}[r.Intn(2)], r.Intn(2)))
		case c < 46:
			ops = append(ops, fmt.Sprintf("trunc %d", []int{20, 300, 1199, 1200, r.Range(1, 1300)}[r.Intn(5)]))
		case c < 52:
			ops = append(ops, fmt.Sprintf("short %d", []int{128, 600, 1199, r.Range(40, 1199)}[r.Intn(4)]))
		case c < 60:
			ops = append(ops, fmt.Sprintf("coal %d %d", size(), r.Intn(2)))
		case c < 68:
			ops = append(ops, "hs "+[]string{"ping", "ack", "fin"}[r.Intn(3)])
		case c < 74:
			ops = append(ops, fmt.Sprintf("fakehs %d", []int{60, 200, 1200, r.Range(30, 1400)}[r.Intn(4)]))
		case c < 82:
			ops = append(ops, fmt.Sprintf("spoof %d", size()))
		case c < 86:
			ops = append(ops, fmt.Sprintf("garbage %d", r.Range(30, 1400)))
		case c < 89:
			ops = append(ops, fmt.Sprintf("shortgarbage %d", r.Range(22, 200)))
		case c < 92:
			ops = append(ops, fmt.Sprintf("vn %d", r.Range(1200, 1300)))
		case c < 96:
			ops = append(ops, fmt.Sprintf("sleep %d", []int{1, 25, 500, 3000}[r.Intn(4)]))
		default:
			ops = append(ops, fmt.Sprintf("badtok %d", size()))
		}
	}
	return ops
}

func c27WireExec(t *testing.T) func(ops []string, o *vu.Out) {
	return func(ops []string, o *vu.Out) {
		// strip recorded observations (replay / corpus)
		clean := make([]string, len(ops))
		for i, op := range ops {
			if j := strings.Index(op, "=>"); j >= 0 {
				op = op[:j]
			}
			clean[i] = strings.TrimSpace(op)
		}
		var abandoned atomic.Bool
		var emitted atomic.Int64
		done := make(chan string, 1)
		go func() {
			finished := false
			defer func() {
				// a panic (synctest deadlock) or a t.Fatal inside the bubble (FailNow = Goexit) ends up here
				if e := recover(); e != nil || !finished {
					done <- fmt.Sprint("panic or t.Fatal inside the case: ", e)
				}
			}()
			synctest.Test(t, func(t *testing.T) {
				x := &c27Case{t: t, o: o, recvd: map[int]int{}, sent: map[int]int{},
					hs: map[int]bool{}, valid: map[int]bool{}}
				x.run(clean, &abandoned)
				emitted.Store(int64(len(clean)))
			})
			finished = true
			done <- ""
		}()
		// wall-clock watchdog (this goroutine is outside the bubble: real time)
		select {
		case msg := <-done:
			if msg != "" {
				o.Fail("", "case aborted: "+msg)
				o.Stat("wire:aborted")
			}
		case <-time.After(60 * time.Second):
			abandoned.Store(true)
			o.Fail("", "watchdog: case did not finish within 60 s of wall-clock time")
			o.Stat("wire:watchdog")
			for range clean {
				o.Op("timeout", "timeout")
			}
		}
	}
}

func TestVerifC27(t *testing.T) {
	_ = context.Background
	vu.Run(vu.ConfigFromEnv(), c27WireGen, c27WireExec(t))
}
