//go:build verif

// C14 case generator (see rig_test.go). Every random choice comes from the vu.Rng.
package http2

import (
	"fmt"
	"net/url"
	"strings"

	vu "golang.org/x/net/internal/verifutil"
)

const (
	c14ValAlpha  = "abcdefghijklmnopqrstuvwxyzABCDEFGHIJKLMNOPQRSTUVWXYZ0123456789 ,;=/+-_.:\"()<>@[]{}?!*'%&$#^`|~\\"
	c14SafeAlpha = "abcdefghijklmnopqrstuvwxyzABCDEFGHIJKLMNOPQRSTUVWXYZ0123456789"
)

func c14Pick[T any](r *vu.Rng, xs []T) T { return xs[r.Intn(len(xs))] }

func c14Value(r *vu.Rng) string {
	switch r.Intn(12) {
	case 0:
		return ""
	case 1:
		return " lead and trail "
	case 2:
		return "tab\there"
	case 3:
		// obs-text bytes are valid field content
		return "caf\xc3\xa9 \xff\x80"
	case 4:
		return string(r.BytesFrom(c14SafeAlpha, r.Range(1, 4)))
	case 5:
		return string(r.BytesFrom(c14ValAlpha, r.Range(100, 600)))
	default:
		return string(r.BytesFrom(c14ValAlpha, r.Range(1, 30)))
	}
}

func c14Values(r *vu.Rng) []string {
	n := 1
	if r.Chance(1, 4) {
		n = r.Range(2, 3)
	}
	vv := make([]string, n)
	for i := range vv {
		vv[i] = c14Value(r)
	}
	return vv
}

// big fields: random (badly compressible) values that push the header block over 16 KiB so that
// CONTINUATION frames are needed.
func c14BigFields(r *vu.Rng, prefix string) []c14KV {
	var out []c14KV
	total := 0
	target := c14Pick(r, []int{16000, 16384, 17000, 20000, 33000, 50000})
	for i := 0; total < target; i++ {
		n := r.Range(500, 9000)
		out = append(out, c14KV{fmt.Sprintf("%s-%d", prefix, i), []string{string(r.BytesFrom(c14ValAlpha, n))}})
		total += n
	}
	return out
}

func c14AddKV(kvs []c14KV, kv c14KV) []c14KV {
	for _, e := range kvs {
		if e.k == kv.k {
			return kvs
		}
	}
	return append(kvs, kv)
}

var c14ReqNames = []string{"X-Custom-A", "x-lower", "X-UPPER-CASE", "X-MiXed-cAsE", "Accept", "Accept-Language",
	"Authorization", "Cache-Control", "Content-Type", "Referer", "If-None-Match", "X-Dup", "x-dup", "X-Forwarded-For",
	"Pragma", "X-1", "X_under.score", "x-!#$%&'*+.^_`|~"}

func c14GenReqHeaders(r *vu.Rng, last bool) []c14KV {
	var h []c14KV
	for n := c14Pick(r, []int{0, 1, 2, 3, 5, 8}); n > 0; n-- {
		h = c14AddKV(h, c14KV{c14Pick(r, c14ReqNames), c14Values(r)})
	}
	if r.Chance(1, 3) {
		// User-Agent: absent (default added), empty (omitted), one value, several (first only)
		switch r.Intn(4) {
		case 0:
			h = c14AddKV(h, c14KV{"User-Agent", []string{""}})
		case 1:
			h = c14AddKV(h, c14KV{"User-Agent", []string{"c14-agent/1.0"}})
		case 2:
			h = c14AddKV(h, c14KV{"User-Agent", []string{"first/1", "second/2"}})
		case 3:
			h = c14AddKV(h, c14KV{"user-agent", []string{"lower-key/1"}})
		}
	}
	if r.Chance(1, 4) {
		ck := []string{"a=1", "a=1; b=2", "a=1;b=2;  c=3", "k=v;", ";x=y", "sid=" + string(r.BytesFrom(c14SafeAlpha, 20)) + "; theme=dark"}
		vv := []string{c14Pick(r, ck)}
		if r.Chance(1, 3) {
			vv = append(vv, c14Pick(r, ck))
		}
		h = c14AddKV(h, c14KV{c14Pick(r, []string{"Cookie", "Cookie", "cookie"}), vv})
	}
	if r.Chance(1, 4) {
		// connection-specific fields: must not be transmitted
		switch r.Intn(6) {
		case 0:
			if last {
				h = c14AddKV(h, c14KV{"Connection", []string{"close"}})
			} else {
				h = c14AddKV(h, c14KV{"Connection", []string{"keep-alive"}})
			}
		case 1:
			h = c14AddKV(h, c14KV{"Connection", []string{c14Pick(r, []string{"keep-alive", "Keep-Alive", ""})}})
			h = c14AddKV(h, c14KV{"Keep-Alive", []string{"timeout=5, max=100"}})
		case 2:
			h = c14AddKV(h, c14KV{"Proxy-Connection", []string{"keep-alive"}})
		case 3:
			h = c14AddKV(h, c14KV{"Transfer-Encoding", []string{"chunked"}})
		case 4:
			h = c14AddKV(h, c14KV{"Upgrade", []string{""}})
		case 5:
			h = c14AddKV(h, c14KV{"keep-alive", []string{"timeout=1"}})
			h = c14AddKV(h, c14KV{"Host", []string{"ignored.example"}})
		}
	}
	if r.Chance(1, 8) {
		h = c14AddKV(h, c14KV{c14Pick(r, []string{"Accept-Encoding", "accept-encoding", "Range"}), []string{c14Pick(r, []string{"identity", "br", "bytes=0-9"})}})
	}
	if r.Chance(1, 10) {
		h = c14AddKV(h, c14KV{"Content-Length", []string{"12345"}}) // ignored: the Transport sends the real one
	}
	if r.Chance(1, 12) {
		h = c14AddKV(h, c14KV{"Te", []string{"trailers"}})
	}
	if r.Chance(1, 6) {
		h = append(h, c14BigFields(r, "X-Big")...)
	}
	return h
}

var c14TrailerNames = []string{"X-Trailer-A", "X-Trailer-B", "Grpc-Status", "Grpc-Message", "x-lower-trailer", "X-Checksum"}

func c14GenTrailers(r *vu.Rng, allowEmpty bool) []c14KV {
	var t []c14KV
	if !r.Chance(1, 3) {
		return nil
	}
	for n := r.Range(1, 3); n > 0; n-- {
		var vv []string
		if !(allowEmpty && r.Chance(1, 6)) {
			vv = c14Values(r)
		}
		t = c14AddKV(t, c14KV{c14Pick(r, c14TrailerNames), vv})
	}
	if r.Chance(1, 8) {
		t = append(t, c14BigFields(r, "X-Big-Trailer")...)
	}
	return t
}

var c14BodySizes = []int{0, 0, 1, 2, 3, 10, 100, 255, 1000, 4095, 4096, 4097, 5000, 8192, 16383, 16384, 16385, 20000, 32768,
	65535, 65536, 70000, 140000}

func c14BodySize(r *vu.Rng, small bool) int {
	if small {
		return c14Pick(r, []int{0, 1, 2, 3, 10, 100, 255, 700})
	}
	if r.Chance(2, 3) {
		return c14Pick(r, c14BodySizes[:12])
	}
	return c14Pick(r, c14BodySizes)
}

func c14MeanChunk(rd []int) int {
	if len(rd) == 0 {
		return 0
	}
	t := 0
	for _, x := range rd {
		t += x
	}
	return t/len(rd) + 1
}

// c14Bound shrinks a body size so that it is sent/consumed in at most ~300 pieces; a zero
// piece size means "no limit from this source".
func c14Bound(size int, pieces ...int) int {
	for _, p := range pieces {
		if p > 0 && size > 300*p {
			size = 300 * p
		}
	}
	return size
}

func c14ChunkSizes(r *vu.Rng) []int {
	switch r.Intn(5) {
	case 0:
		return nil // as much as the caller's buffer takes
	case 1:
		return []int{c14Pick(r, []int{1, 2, 7, 100, 1000, 4096, 16384, 16385, 100000})}
	default:
		n := r.Range(2, 5)
		out := make([]int, n)
		for i := range out {
			out[i] = c14Pick(r, []int{1, 3, 10, 100, 500, 4095, 4096, 4097, 16384, 30000})
		}
		return out
	}
}

func c14GenPath(r *vu.Rng, idx int) string {
	p := fmt.Sprintf("/%d/", idx)
	switch r.Intn(7) {
	case 0:
	case 1:
		p += "a/b/c"
	case 2:
		p += "index.html?x=1&y=2"
	case 3:
		p += "%41%2Fb/%7e?q=%20a+b"
	case 4:
		p += string(r.BytesFrom(c14SafeAlpha+"-_.~", r.Range(1, 40))) + "?" + string(r.BytesFrom(c14SafeAlpha+"=&", r.Range(0, 30)))
	case 5:
		p += "//double//slash/"
	case 6:
		p += string(r.BytesFrom(c14SafeAlpha, r.Range(200, 2000)))
	}
	// keep only paths that net/url reproduces verbatim (net/url is not modelled)
	if u, err := url.Parse("https://h" + p); err != nil || u.RequestURI() != p {
		return fmt.Sprintf("/%d/", idx)
	}
	return p
}

func c14GenCfg(r *vu.Rng) c14Cfg {
	tab := []int{0, 0, 1, 64, 256, 4096, 65536}
	c := c14Cfg{
		sfs: c14Pick(r, []int{0, 16384, 16384, 16385, 20000, 65536, 1 << 20, 16777215}),
		sws: c14Pick(r, []int{0, 1, 2, 7, 100, 1000, 4096, 16384, 65535, 65536, 1 << 20}),
		scw: c14Pick(r, []int{0, 65535, 65536, 70000, 1 << 20}),
		sdt: c14Pick(r, tab), set: c14Pick(r, tab),
		cfs: c14Pick(r, []int{0, 16384, 16384, 16385, 20000, 65536, 1 << 20, 16777215}),
		cws: c14Pick(r, []int{0, 1, 2, 7, 100, 1000, 4096, 16384, 65535, 65536, 1 << 20}),
		ccw: c14Pick(r, []int{0, 65535, 65536, 70000, 1 << 20}),
		cdt: c14Pick(r, tab), cet: c14Pick(r, tab),
		gz:  r.Intn(2),
	}
	// SETTINGS_MAX_HEADER_LIST_SIZE over its whole uint32 range (0 = default). The server advertises
	// uint32(MaxHeaderBytes+320); the values below make that 2^31-1, 2^31, 2^31+320, 2^31+2000,
	// 2^31+9000, 2^32-2, 2^32-1 and 2^30 (values around 2^31 are where 32-bit arithmetic on the limit
	// wraps to something as small as an ordinary header block).
	if r.Chance(1, 5) {
		c.smh = c14Pick(r, []int{1<<31 - 321, 1<<31 - 320, 1 << 31, 1<<31 + 1680, 1<<31 + 8680, 1<<32 - 322, 1<<32 - 321, 1 << 30})
	}
	if r.Chance(1, 5) {
		c.cmh = c14Pick(r, []int{1<<31 - 1, 1 << 31, 1<<31 + 320, 1<<31 + 2000, 1<<31 + 9000, 1<<32 - 2, 1<<32 - 1, 1 << 30})
	}
	return c
}

// c14HLS: RFC 9113 header list size of a field list: sum of name + value + 32.
func c14HLS(kvs []c14KV) int {
	n := 0
	for _, kv := range kvs {
		for _, v := range kv.vv {
			n += len(kv.k) + len(v) + 32
		}
	}
	return n
}

// c14GenLimit: a single exchange whose request (resp. response) header list lands exactly on,
// one below or one above the MAX_HEADER_LIST_SIZE the receiving side advertises. The field set is
// one whose wire form is known without consulting the code under test (no automatic fields).
func c14GenLimit(r *vu.Rng) []string {
	cfg := c14GenCfg(r)
	cfg.gz, cfg.early = 0, 0
	delta := r.Intn(3) - 1
	onReq := r.Bool()
	rq := &c14Req{idx: 0, method: "GET", scheme: c14Pick(r, []string{"https", "http"}),
		uhost: c14Pick(r, []string{"example.com", "a.b.example:8443"}), path: c14GenPath(r, 0),
		nilBody: true, crd: 4096, lim: "-"}
	rq.hdr = []c14KV{{"User-Agent", []string{"c14/1"}}}
	for k := r.Intn(4); k > 0; k-- {
		rq.hdr = c14AddKV(rq.hdr, c14KV{c14Pick(r, []string{"X-Custom-A", "x-lower", "Accept", "Accept-Language", "Referer", "X-1"}),
			[]string{string(r.BytesFrom(c14SafeAlpha, r.Range(0, 40)))}})
	}
	rs := &c14Resp{idx: 0, status: 200, mode: 0, rdsz: 4096, expl: true}
	if r.Bool() {
		rs.body = c14Pat(c14Pick(r, []int{1, 100, 5000}), r.Intn(251))
	}
	rs.hdr = []c14KV{{"Content-Type", []string{"text/plain"}}, {"Content-Length", []string{fmt.Sprint(len(rs.body))}},
		{"Date", []string{"Tue, 22 Sep 2026 10:00:00 GMT"}}}
	for k := r.Intn(4); k > 0; k-- {
		rs.hdr = c14AddKV(rs.hdr, c14KV{c14Pick(r, []string{"X-Resp-A", "X-Resp-B", "Etag", "Vary", "Server"}),
			[]string{string(r.BytesFrom(c14SafeAlpha, r.Range(0, 40)))}})
	}
	// limits: small, medium, and above 16 KiB (CONTINUATION at the limit)
	lim := c14Pick(r, []int{1000, 4096, 20000})
	var base int
	if onReq {
		cfg.smh = lim
		lim += 320 // adjustHTTP1MaxHeaderSize: MaxHeaderBytes + 10*32
		base = c14HLS([]c14KV{{":authority", []string{rq.uhost}}, {":method", []string{"GET"}}, {":path", []string{rq.path}},
			{":scheme", []string{rq.scheme}}}) + c14HLS(rq.hdr)
	} else {
		cfg.cmh = lim
		base = c14HLS([]c14KV{{":status", []string{"200"}}}) + c14HLS(rs.hdr)
	}
	pad := lim + delta - base - (len("X-Pad") + 32)
	if pad < 0 {
		// the drawn fields alone exceed the small limit: drop the optional ones
		if onReq {
			rq.hdr, rq.path = rq.hdr[:1], "/0/"
			base = c14HLS([]c14KV{{":authority", []string{rq.uhost}}, {":method", []string{"GET"}}, {":path", []string{rq.path}},
				{":scheme", []string{rq.scheme}}}) + c14HLS(rq.hdr)
		} else {
			rs.hdr = rs.hdr[:3]
			base = c14HLS([]c14KV{{":status", []string{"200"}}}) + c14HLS(rs.hdr)
		}
		pad = lim + delta - base - (len("X-Pad") + 32)
	}
	padKV := c14KV{"X-Pad", []string{string(r.BytesFrom(c14SafeAlpha, pad))}}
	if onReq {
		rq.hdr = append(rq.hdr, padKV)
		rq.lim = fmt.Sprintf("req%d", delta)
	} else {
		rs.hdr = append(rs.hdr, padKV)
		rq.lim = fmt.Sprintf("resp%d", delta)
	}
	return []string{cfg.line(), rq.line(), rs.line(), "end"}
}

func c14Gen(r *vu.Rng, _ int) []string {
	if r.Chance(1, 8) {
		return c14GenLimit(r)
	}
	cfg := c14GenCfg(r)
	n := 1
	if r.Chance(1, 3) {
		n = r.Range(2, 3)
	}
	// special scenario (single request): request sent before the server's SETTINGS are seen
	if r.Chance(2, 25) {
		cfg.early, n = 1, 1
	}
	lines := []string{cfg.line()}
	for i := 0; i < n; i++ {
		last := i == n-1
		// tiny windows make one WINDOW_UPDATE round trip per few bytes: keep those bodies small
		smallUp := cfg.sws != 0 && cfg.sws < 100
		smallDown := cfg.cws != 0 && cfg.cws < 100
		rq := &c14Req{idx: i,
			method: c14Pick(r, []string{"GET", "GET", "POST", "POST", "PUT", "PATCH", "DELETE", "OPTIONS", ""}),
			scheme: c14Pick(r, []string{"https", "https", "http"}),
			uhost:  c14Pick(r, []string{"example.com", "example.com:8443", "[::1]:443", "a.b.example", "127.0.0.1:80"}),
			path:   c14GenPath(r, i),
			rd:     c14ChunkSizes(r),
			eofLast: r.Bool(),
			crd:    c14Pick(r, []int{1, 7, 512, 4096, 32768, 100000}),
			hdr:    c14GenReqHeaders(r, last),
		}
		if r.Chance(1, 3) {
			rq.host = c14Pick(r, []string{"other.example", "Other.Example:8080", "h"})
		}
		// keep the number of DATA / WINDOW_UPDATE frames per message in the hundreds
		size := c14Bound(c14BodySize(r, smallUp), c14MeanChunk(rq.rd), cfg.sws, 0)
		switch r.Intn(4) {
		case 0: // no body at all
			rq.nilBody, size = true, 0
		case 1: // declared length
			rq.cl = int64(size)
		case 2: // unknown length (ContentLength 0 with a non-nil Body)
		case 3:
			rq.cl = -1
		}
		if size > 0 {
			rq.body = c14Pat(size, r.Intn(251))
		}
		if !rq.nilBody {
			rq.trl = c14GenTrailers(r, true)
		}
		if rq.nilBody && r.Chance(1, 3) {
			// announced trailers without a body: not sent, the request ends with its headers
			rq.trl = c14GenTrailers(r, true)
			if len(rq.trl) == 0 {
				rq.trl = []c14KV{{"X-Trailer-A", []string{"v"}}}
			}
		}
		if cfg.early == 1 {
			// a repeated field: its second occurrence is an index into the encoder's dynamic table
			rq.hdr = c14AddKV(rq.hdr, c14KV{"X-Repeat", []string{"0123456789012345678901234567890123456789", "0123456789012345678901234567890123456789"}})
			if len(rq.body) > 65535 && cfg.sws != 0 && cfg.sws < 65535 {
				// keep the refusal deterministic: everything is sent before the server's SETTINGS
				rq.body = rq.body[:65535]
				if rq.cl > 0 {
					rq.cl = 65535
				}
			}
		}
		rs := &c14Resp{idx: i,
			status: c14Pick(r, []int{200, 200, 200, 201, 404, 500, 418}),
			mode:   r.Intn(2),
			rdsz:   c14Pick(r, []int{1, 7, 512, 4096, 32768, 100000}),
			expl:   true,
		}
		if rs.mode == 1 && rs.status > 299 {
			// By design the Transport stops sending the request body once a response with status
			// > 299 arrives (abortRequestBodyWrite): a handler that answers 4xx first and reads the
			// body afterwards is a separate scenario, not part of the regular stream.
			rs.status = c14Pick(r, []int{200, 201})
		}
		if rs.status == 200 && r.Bool() {
			rs.expl = false
		}
		if smallUp && size > 100 && rs.rdsz < 7 {
			rs.rdsz = 512
		}
		if smallDown && rq.crd < 7 {
			rq.crd = 512
		}
		if len(rq.body) > 300*rs.rdsz {
			rs.rdsz = 4096
		}
		rsize := c14BodySize(r, smallDown)
		rsize = c14Bound(rsize, 0, cfg.cws, rq.crd)
		if rsize > 0 {
			rs.body = c14Pat(rsize, r.Intn(251))
		}
		// write schedule
		switch r.Intn(4) {
		case 0: // one write
		case 1:
			rs.writes = []int{-1}
		default:
			for k := r.Range(1, 6); k > 0; k-- {
				if r.Chance(1, 3) {
					rs.writes = append(rs.writes, -1)
				} else {
					rs.writes = append(rs.writes, c14Pick(r, []int{0, 1, 10, 100, 1000, 4095, 4096, 4097, 16384, 20000}))
				}
			}
		}
		if !rs.expl && rs.mode == 0 && len(rs.writes) == 0 && rsize == 0 {
			// no WriteHeader/Write/Flush at all: the header snapshot would be taken at handler
			// return and include the trailer values (net/http handler semantics, not modelled)
			rs.expl = true
		}
		// response header fields
		for k := c14Pick(r, []int{0, 1, 2, 3, 5}); k > 0; k-- {
			rs.hdr = c14AddKV(rs.hdr, c14KV{c14Pick(r, []string{"X-Resp-A", "X-Resp-B", "Cache-Control", "Etag", "Location",
				"Set-Cookie", "Vary", "X-Frame-Options", "Server", "Www-Authenticate"}), c14Values(r)})
		}
		if !r.Chance(1, 5) {
			rs.hdr = c14AddKV(rs.hdr, c14KV{"Content-Type", []string{c14Pick(r, []string{"text/plain; charset=utf-8", "application/octet-stream", "application/grpc"})}})
		}
		if r.Chance(1, 3) {
			rs.hdr = c14AddKV(rs.hdr, c14KV{"Content-Length", []string{fmt.Sprint(rsize)}})
		}
		if r.Chance(1, 4) {
			rs.hdr = c14AddKV(rs.hdr, c14KV{"Date", []string{"Tue, 22 Sep 2026 10:00:00 GMT"}})
		}
		if r.Chance(1, 10) && last {
			rs.hdr = c14AddKV(rs.hdr, c14KV{"Connection", []string{c14Pick(r, []string{"close", "keep-alive"})}})
		}
		if r.Chance(1, 6) {
			rs.hdr = append(rs.hdr, c14BigFields(r, "X-Big-Resp")...)
		}
		if r.Chance(1, 2) {
			rs.trlDecl = c14GenTrailers(r, true)
		}
		if r.Chance(1, 3) {
			for _, kv := range c14GenTrailers(r, false) {
				dup := false
				for _, e := range rs.trlDecl {
					if strings.EqualFold(e.k, kv.k) {
						dup = true
					}
				}
				if !dup {
					rs.trlUndc = append(rs.trlUndc, kv)
				}
			}
		}
		lines = append(lines, rq.line(), rs.line())
	}
	lines = append(lines, "end")
	return lines
}
